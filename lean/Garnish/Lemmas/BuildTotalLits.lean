/-
Totality of `build` — part 7: the literal hypotheses follow from the shape the lexer gives to Symbol and ByteList
tokens (`LexShaped`): a Symbol text starts with `:`; a ByteList text is `q` quotes, a body that does not start with a
quote, `q` quotes.  Number and CharList texts need no hypothesis.
-/
import Garnish.Lemmas.BuildTotalLoops
namespace Garnish.Lemmas.BuildTotal
open Garnish Garnish.Gen Garnish.Model.Parser Garnish.Model.Literals Garnish.Model.Build Garnish.Lemmas.Build

attribute [local irreducible] Garnish.Gen.CharRanges.isAlphanumeric

theorem byteNumStep_good {F : Type} (pf : List Char → Option F) (st : ByteNumState) (c : Char) :
    Good (fun _ => True) (byteNumStep pf st c) := by
  unfold byteNumStep
  generalize (Garnish.Gen.CharRanges.isAlphanumeric c || c == '_') = b
  cases b
  · simp only [Bool.false_eq_true, if_false]
    generalize (c == ' ' && decide (st.currentNumber.length > 0)) = b2
    cases b2
    · exact trivial
    · simp only [if_true]
      refine good_bind (by unfold parseSimpleNumber; exact parseNumberInternal_good pf _ _) (fun n _ => ?_)
      cases n with
      | float f => exact trivial
      | int v =>
        dsimp only
        split
        · exact trivial
        · exact trivial
  · exact trivial


theorem byteNumLoop_good {F : Type} (pf : List Char → Option F) : ∀ (l : List Char) (st : ByteNumState),
    Good (fun _ => True) (byteNumLoop pf st l) := by
  intro l
  induction l with
  | nil => intro st; exact trivial
  | cons c rest ih =>
    intro st
    rw [byteNumLoop]
    exact good_bind (byteNumStep_good pf st c) (fun st' _ => ih st')

theorem parseByteListNumbers_good {F : Type} (pf : List Char → Option F) (input : List Char) :
    Good (fun _ => True) (parseByteListNumbers pf input) := by
  unfold parseByteListNumbers
  exact good_bind (byteNumLoop_good pf _ _) (fun _ _ => trivial)

theorem byteListLoop_good : ∀ (l : List Char) (bytes : List Nat) (esc : Bool), Good (fun _ => True) (byteListLoop bytes esc l) := by
  intro l
  induction l with
  | nil => intro bytes esc; cases esc <;> exact trivial
  | cons c rest ih =>
    intro bytes esc
    cases esc
    · simp only [byteListLoop]
      split
      · exact ih _ _
      · exact ih _ _
    · simp only [byteListLoop]
      repeat' (first | exact good_dataErr | exact ih _ _ | split)

/-! byte offsets -/

theorem foldl_byte (cs : List Char) : ∀ acc : Nat,
    cs.foldl (fun n c => n + c.utf8Size) acc = acc + cs.foldl (fun n c => n + c.utf8Size) 0 := by
  induction cs with
  | nil => intro acc; simp
  | cons c rest ih => intro acc; simp only [List.foldl_cons]; rw [ih (acc + c.utf8Size), ih (0 + c.utf8Size)]; omega

theorem byteLen_cons (c : Char) (cs : List Char) : byteLen (c :: cs) = c.utf8Size + byteLen cs := by
  unfold byteLen
  simp only [List.foldl_cons]
  rw [foldl_byte]
  omega

theorem byteLen_append (a b : List Char) : byteLen (a ++ b) = byteLen a + byteLen b := by
  induction a with
  | nil => simp [byteLen]
  | cons c rest ih => simp only [List.cons_append, byteLen_cons, ih]; omega

theorem charIndexOfByte_prefix : ∀ (pre rest : List Char) (pos i : Nat),
    charIndexOfByte (pre ++ rest) pos i (pos + byteLen pre) = some (i + pre.length) := by
  intro pre
  induction pre with
  | nil => intro rest pos i; unfold charIndexOfByte; simp [byteLen]
  | cons c pre ih =>
    intro rest pos i
    have hpos := Char.utf8Size_pos c
    rw [byteLen_cons]
    simp only [List.cons_append]
    unfold charIndexOfByte
    have h1 : (pos == pos + (c.utf8Size + byteLen pre)) = false := by simp; omega
    have h2 : ¬ (pos > pos + (c.utf8Size + byteLen pre)) := by omega
    simp only [h1, h2, if_false, Bool.false_eq_true]
    have := ih rest (pos + c.utf8Size) (i + 1)
    rw [show pos + (c.utf8Size + byteLen pre) = pos + c.utf8Size + byteLen pre by omega, this]
    simp only [List.length_cons]
    congr 1; omega

theorem byteLen_quotes (q : Nat) : byteLen (List.replicate q '\'') = q := by
  induction q with
  | zero => simp [byteLen]
  | succ k ih =>
    rw [List.replicate_succ, byteLen_cons, ih]
    have : ('\'' : Char).utf8Size = 1 := by decide
    omega

theorem sliceBytes_balanced (q : Nat) (body : List Char) :
    ∃ inner, sliceBytes (List.replicate q '\'' ++ body ++ List.replicate q '\'') q
      (byteLen (List.replicate q '\'' ++ body ++ List.replicate q '\'') - q) = some inner := by
  have hb : byteLen (List.replicate q '\'' ++ body ++ List.replicate q '\'') - q = q + byteLen body := by
    rw [byteLen_append, byteLen_append, byteLen_quotes]; omega
  rw [hb]
  unfold sliceBytes
  rw [if_neg (by omega)]
  have h1 : charIndexOfByte (List.replicate q '\'' ++ body ++ List.replicate q '\'') 0 0 q = some q := by
    have := charIndexOfByte_prefix (List.replicate q '\'') (body ++ List.replicate q '\'') 0 0
    rw [byteLen_quotes, ← List.append_assoc] at this
    simpa using this
  have h2 : charIndexOfByte (List.replicate q '\'' ++ body ++ List.replicate q '\'') 0 0 (q + byteLen body) =
      some (q + body.length) := by
    have := charIndexOfByte_prefix (List.replicate q '\'' ++ body) (List.replicate q '\'') 0 0
    rw [byteLen_append, byteLen_quotes] at this
    simpa using this
  rw [h1, h2]
  exact ⟨_, rfl⟩

theorem takeWhile_quotes (q : Nat) (body : List Char) (hbody : ∀ c, body.head? = some c → c ≠ '\'') (hne : body ≠ []) :
    (List.takeWhile (fun x => x == '\'') (List.replicate q '\'' ++ body ++ List.replicate q '\'')).length = q := by
  cases body with
  | nil => exact absurd rfl hne
  | cons c rest =>
    have hc : c ≠ '\'' := hbody c rfl
    rw [List.append_assoc, List.takeWhile_append_of_pos (by intro x hx; simp [List.eq_of_mem_replicate hx])]
    simp [hc]

theorem takeWhile_all {α : Type} (p : α → Bool) : ∀ (l : List α), (∀ x, x ∈ l → p x = true) → l.takeWhile p = l := by
  intro l
  induction l with
  | nil => intro _; rfl
  | cons a rest ih =>
    intro h
    rw [List.takeWhile_cons, h a List.mem_cons_self]
    simp only [if_true]
    rw [ih (fun x hx => h x (List.mem_cons_of_mem _ hx))]

/-- a byte-list literal with balanced quotes (the shape the lexer produces) is parsed without a slice failure -/
theorem parseByteList_good_balanced {F : Type} (pf : List Char → Option F) (q : Nat) (body : List Char)
    (hbody : ∀ c, body.head? = some c → c ≠ '\'') :
    Good (fun _ => True) (parseByteList pf (List.replicate q '\'' ++ body ++ List.replicate q '\'')) := by
  rcases Classical.em (body = []) with hb | hb
  · -- only quotes: the empty byte list
    subst hb
    unfold parseByteList
    dsimp only
    have : (List.takeWhile (fun x => x == '\'') (List.replicate q '\'' ++ [] ++ List.replicate q '\'')).length * 2 ≥
        (List.replicate q '\'' ++ [] ++ List.replicate q '\'').length := by
      rw [List.append_nil, takeWhile_all _ _ (by
        intro x hx
        rcases List.mem_append.1 hx with h | h <;> simp [List.eq_of_mem_replicate h])]
      omega
    rw [if_pos this]
    exact trivial
  · have hcount := takeWhile_quotes q body hbody hb
    unfold parseByteList
    dsimp only
    rw [hcount]
    split
    · exact trivial
    · split
      · obtain ⟨inner, hs⟩ := sliceBytes_balanced q body
        rw [hs]
        exact parseByteListNumbers_good pf inner
      · exact byteListLoop_good _ _ _


/-- the token texts as the lexer shapes them (checked against the implementation by the LEX suite) -/
structure LexShaped (pn : ParseNode) : Prop where
  symbol : pn.definition = .symbol → ∃ rest, pn.lexToken.text = ':' :: rest
  byteList : pn.definition = .byteList → ∃ (q : Nat) (body : List Char),
    pn.lexToken.text = List.replicate q '\'' ++ body ++ List.replicate q '\'' ∧ (∀ c, body.head? = some c → c ≠ '\'')

theorem dropFirstByte_colon (rest : List Char) : dropFirstByte (':' :: rest) ≠ none := by
  simp [dropFirstByte]
  decide

theorem litSafe_of_shaped {F : Type} (pf : List Char → Option F) {pn : ParseNode} (h : LexShaped pn) : LitSafe pf pn where
  symbol := fun hd => by
    obtain ⟨rest, hr⟩ := h.symbol hd
    rw [hr]; exact dropFirstByte_colon rest
  byteList := fun hd => by
    obtain ⟨q, body, ht, hb⟩ := h.byteList hd
    rw [ht]; exact parseByteList_good_balanced pf q body hb

/-- `build` with `defaultFuel` returns `ok` or `err` for every node vector whose Symbol / ByteList texts are lexer-shaped -/
theorem build_total_shaped {F : Type} (pf : List Char → Option F) (root : Nat) (tree : Array ParseNode)
    (hshape : ∀ (i : Nat) (pn : ParseNode), tree[i]? = some pn → LexShaped pn) (data : BState F) :
    Good (fun _ => True) (build pf (defaultFuel tree.size) root tree data) :=
  build_total pf (fun i pn h => litSafe_of_shaped pf (hshape i pn h)) data

end Garnish.Lemmas.BuildTotal
