/-
range.rs, pair.rs, concat.rs, partial.rs over `StoreLawsOn` (from Lemmas/RuntimeData.lean and Props/RuntimeRefineData.lean):
`AddsI`, `addPushTail`, `rangeTail`, `C08_refine_make_range_internal`, `C06_refine_make_pair` / `_concat` (operands that are not
slices) / `_partial_apply`.
-/
import Garnish.Lemmas.RuntimeOnCmp
import Garnish.Props.RuntimeRefineData
set_option linter.unusedSimpArgs false
set_option linter.unusedVariables false
namespace Garnish.Lemmas.Runtime.On
open Garnish Gen Garnish.Abs Garnish.Model.Equality Garnish.Model.Runtime Garnish.Lemmas.Runtime
open Garnish.Props.RuntimeRefine

variable {F σ : Type} {S : RStore F σ} {Inv : σ → Prop} {Rd : σ → Nat → Prop} (fo : FloatOps F)

/-- an adder's contract as an effect that carries the invariant -/
def AddsI (S : RStore F σ) (Inv : σ → Prop) (m : RM σ Nat) (s : σ) (v : Val F) : Prop :=
  ∃ a s', m s = .ok (a, s') ∧ Decodes (S.view s') a v ∧ EffI S Inv s s' (S.regs s) (S.vals s)

theorem addIncremented_some (L : StoreLawsOn S Inv Rd) {s0 : σ} {addr : Nat} {a x : Number F}
    (hd : Decodes (S.view s0) addr (.num a)) (hi : Number.increment fo a = some x) (hi0 : Inv s0 := by inv_tac) :
    AddsI S Inv (addIncremented fo S addr) s0 (.num x) := by
  obtain ⟨la, s1, h1, d1, e1⟩ := adds_i (L.addNumber x s0 hi0)
  exact ⟨la, s1, by rw [addIncremented, bind_ok (getNumber_of hd), hi, bind_ok (orNumErr_some x s0), h1], d1, e1⟩

/-- the tail of the number arm: `add_range` then `push_register` -/
theorem rangeTail (L : StoreLawsOn S Inv Rd) {s s1 : σ} {la ra : Nat} {x y : Number F} {rest : List Nat}
    (e1 : EffI S Inv s s1 rest (S.vals s)) (dl : Decodes (S.view s1) la (.num x)) (dr : Decodes (S.view s1) ra (.num y)) :
    PushedI S Inv s ((do let addr ← S.addRange la ra; S.pushRegister addr; pure none : RM σ (Option Nat)) s1) none rest
      (.range (.num x) (.num y)) := by
  obtain ⟨ad, s2, h2, d2, e2⟩ := adds_i (L.addRange la ra _ _ s1 e1.inv dl dr)
  obtain ⟨s3, h3, e3⟩ := pushReg L d2 (by intro h; cases h)
  rw [e2.regs, e2.vals, e1.regs, e1.vals] at e3
  exact ⟨ad, s3, by rw [bind_ok h2, bind_ok h3]; rfl, e3.dec d2, (e1.trans e2).trans e3⟩

/-- an adder followed by `push_register` and `Ok(None)`, after both operands were popped -/
theorem addPushTail (L : StoreLawsOn S Inv Rd) {s s0 : σ} {rest : List Nat} {m : RM σ Nat} {v : Val F}
    (e0 : EffI S Inv s s0 rest (S.vals s)) (ha : AddsI S Inv m s0 v) (hv : v ≠ .custom) :
    PushedI S Inv s ((do let x ← m; S.pushRegister x; pure none : RM σ (Option Nat)) s0) none rest v := by
  obtain ⟨ad, s2, h2, d2, e2⟩ := ha
  obtain ⟨s3, h3, e3⟩ := pushReg L d2 hv
  rw [e2.regs, e2.vals, e0.regs, e0.vals] at e3
  exact ⟨ad, s3, by rw [bind_ok h2, bind_ok h3]; rfl, e3.dec d2, (e0.trans e2).trans e3⟩

/-- `make_range_internal` refines Abs/Ops `makeRange` -/
theorem C08_refine_make_range_internal (L : StoreLawsOn S Inv Rd) (startExcl endExcl : Bool)
    {s : σ} {r l : Nat} {vr vl : Val F} {rest : List Nat}
    (hregs : S.regs s = r :: l :: rest) (hl : Decodes (S.view s) l vl) (hr : Decodes (S.view s) r vr)
    (hi : Inv s := by inv_tac) (hd : Deep S s rest := by deep_tac) :
    RefinesOutI S Inv s (makeRangeInternal fo S startExcl endExcl s) none rest l r
      (Abs.makeRange fo startExcl endExcl vl vr) := by
  obtain ⟨s0, h0, e0⟩ := nextTwoRawRef_cons L hregs
  have hl0 := e0.dec hl
  have hr0 := e0.dec hr
  rw [makeRangeInternal, bind_ok h0]
  simp only []
  rw [bind_ok (getDataType_of hl0), bind_ok (getDataType_of hr0)]
  by_cases hn : vl.typeOf = .number ∧ vr.typeOf = .number
  · obtain ⟨a, rfl⟩ := typeOf_number hn.1
    obtain ⟨b, rfl⟩ := typeOf_number hn.2
    simp only [Val.typeOf, Abs.makeRange]
    cases startExcl <;> cases endExcl <;> simp only [if_true, if_false, Bool.false_eq_true]
    · -- inclusive..inclusive: the right end is incremented
      rw [bind_ok (pure_apply l s0)]
      cases hi : Number.increment fo b with
      | none => simp only []; exact bind_err (addIncremented_none fo hr0 hi)
      | some y =>
        obtain ⟨ra, s1, h1, d1, e1⟩ := addIncremented_some fo L hr0 hi
        rw [e0.regs, e0.vals] at e1
        simp only []
        rw [bind_ok h1]
        exact rangeTail L (e0.trans e1) (e1.dec hl0) d1
    · rw [bind_ok (pure_apply l s0), bind_ok (pure_apply r s0)]
      exact rangeTail L e0 hl0 hr0
    · cases hi : Number.increment fo a with
      | none => simp only []; exact bind_err (addIncremented_none fo hl0 hi)
      | some x =>
        obtain ⟨la, s1, h1, d1, e1⟩ := addIncremented_some fo L hl0 hi
        rw [e0.regs, e0.vals] at e1
        rw [bind_ok h1]
        cases hj : Number.increment fo b with
        | none => simp only []; exact bind_err (addIncremented_none fo (e1.dec hr0) hj)
        | some y =>
          obtain ⟨ra, s2, h2, d2, e2⟩ := addIncremented_some fo L (e1.dec hr0) hj
          rw [e1.regs, e1.vals] at e2
          simp only []
          rw [bind_ok h2]
          exact rangeTail L ((e0.trans e1).trans e2) (e2.dec d1) d2
    · cases hi : Number.increment fo a with
      | none => simp only []; exact bind_err (addIncremented_none fo hl0 hi)
      | some x =>
        obtain ⟨la, s1, h1, d1, e1⟩ := addIncremented_some fo L hl0 hi
        rw [e0.regs, e0.vals] at e1
        simp only []
        rw [bind_ok h1, bind_ok (pure_apply r s1)]
        exact rangeTail L (e0.trans e1) d1 (e1.dec hr0)
  · have hd : Abs.makeRange fo startExcl endExcl vl vr = .defer (rangeInstr startExcl endExcl) vl vr := by
      unfold Abs.makeRange
      split
      · exact absurd ⟨rfl, rfl⟩ hn
      · rfl
    rw [hd, ← C08_refine_range_instruction]
    refine ⟨s0, e0, ?_⟩
    generalize vl.typeOf = tl at hn ⊢
    generalize vr.typeOf = tr at hn ⊢
    cases tl
    case number =>
      cases tr
      case number => exact absurd ⟨rfl, rfl⟩ hn
      all_goals exact deferOrUnit_spec L s0 _ _ _ none
    all_goals exact deferOrUnit_spec L s0 _ _ _ none


/-- `make_pair` pops the LEFT component first: registers `l :: r :: rest` ↦ `(l = r)`, as Abs/Machine `.makePair` -/
theorem C06_refine_make_pair (L : StoreLawsOn S Inv Rd) {s : σ} {r l : Nat} {vr vl : Val F} {rest : List Nat}
    (hregs : S.regs s = l :: r :: rest) (hl : Decodes (S.view s) l vl) (hr : Decodes (S.view s) r vr)
    (hi : Inv s := by inv_tac) (hd : Deep S s rest := by deep_tac) :
    PushedI S Inv s (makePair S s) none rest (.pair vl vr) := by
  obtain ⟨s0, h0, e0⟩ := nextTwoRawRef_cons L hregs
  obtain ⟨a, s1, h1, d1, e1⟩ := pushPair_spec L (e0.dec hl) (e0.dec hr)
  rw [e0.regs, e0.vals] at e1
  refine ⟨a, s1, ?_, d1, e0.trans e1⟩
  rw [makePair, bind_ok h0]
  simp only []
  rw [bind_ok h1]; rfl

/-- `concat`: Abs/Ops `binaryOp .concat` -/
theorem C06_refine_concat (L : StoreLawsOn S Inv Rd) {s : σ} {r l : Nat} {vr vl : Val F} {rest : List Nat}
    (hregs : S.regs s = r :: l :: rest) (hl : Decodes (S.view s) l vl) (hr : Decodes (S.view s) r vr)
    (nl : ∀ x y, vl ≠ .slice x y) (nr : ∀ x y, vr ≠ .slice x y)
    (hi : Inv s := by inv_tac) (hd : Deep S s rest := by deep_tac) :
    PushedI S Inv s (Model.Runtime.concat S s) none rest (.concat vl vr) := by
  obtain ⟨s0, h0, e0⟩ := nextTwoRawRef_cons L hregs
  rw [Model.Runtime.concat, bind_ok h0]
  exact addPushTail L e0 (adds_i (L.addConcatenation l r vl vr s0 e0.inv (e0.dec hl) (e0.dec hr) nl nr)) (by intro h; cases h)

/-- `partial_apply`: Abs/Ops `binaryOp .partialApply` -/
theorem C06_refine_partial_apply (L : StoreLawsOn S Inv Rd) {s : σ} {r l : Nat} {vr vl : Val F} {rest : List Nat}
    (hregs : S.regs s = r :: l :: rest) (hl : Decodes (S.view s) l vl) (hr : Decodes (S.view s) r vr)
    (hi : Inv s := by inv_tac) (hd : Deep S s rest := by deep_tac) :
    PushedI S Inv s (partialApply S s) none rest (.part vl vr) := by
  obtain ⟨s0, h0, e0⟩ := nextTwoRawRef_cons L hregs
  rw [partialApply, bind_ok h0]
  exact addPushTail L e0 (adds_i (L.addPartial l r vl vr s0 e0.inv (e0.dec hl) (e0.dec hr))) (by intro h; cases h)


end Garnish.Lemmas.Runtime.On
