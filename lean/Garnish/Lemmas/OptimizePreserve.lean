/-
`optimize` preserves what it relocates: assembly of the index phase, the reversed walk (with the slide offset),
the re-pointing loop (a no-op on heaps whose retained value cells refer below the retention count), the
remapping loops and the slide into one statement about links `old address ↦ reported address`.
-/
import Garnish.Lemmas.OptimizeMove
set_option maxHeartbeats 1000000
namespace Garnish.BasicOpt
open Garnish

/-- structural hypotheses on the heap before compaction -/
structure OptHyp (s : Store) : Prop where
  /-- key tables are no longer than their lists -/
  listsWF : ListsWF s.cells
  /-- every link of a node points to a lower address (what the public `add_*` / push operations produce) -/
  nodeBack : ∀ (i : Nat) (sh : Shape), shape s.cells i = some sh → ∀ k ∈ sh.kids, k < i
  /-- a node below the retention count lies below it with all its inline cells (the count is a size observed at
  an operation boundary, it does not cut through a value) -/
  extent : ∀ (i : Nat) (sh : Shape), i < s.retention → shape s.cells i = some sh →
    shape (s.cells.extract 0 s.retention) i = some sh

theorem OptHyp.valueLinksClosed {s : Store} (hy : OptHyp s) : ValueLinksClosed s := by
  intro i p v hi hcell
  rcases hcell with hcell | hcell
  · have hsh : shape s.cells i = some ⟨.value 0 0, [], [p, v]⟩ := shape_of_solo hcell rfl
    have := hy.nodeBack i _ hsh v (by simp)
    omega
  · have hsh : shape s.cells i = some ⟨.valueRoot 0, [], [v]⟩ := shape_of_solo hcell rfl
    have := hy.nodeBack i _ hsh v (by simp)
    omega

/-- how a head is reported: absent before and after, or moved along a link -/
def HeadRel (L : Nat → Nat → Prop) (o o' : Option Nat) : Prop :=
  (o = none ∧ o' = none) ∨ ∃ i m, o = some i ∧ o' = some m ∧ L i m

/-- everything `optimize` reports, in terms of one link relation `L` under which unfoldings are preserved -/
structure LinksPreserved (s s' : Store) (roots m : List Nat) (L : Nat → Nat → Prop) : Prop where
  unfolds : ∀ x x', L x x' → Dec s.cells x → ∀ fuel, unfold s.cells fuel x = unfold s'.cells fuel x'
  register : HeadRel L s.currentRegister s'.currentRegister
  value : HeadRel L s.currentValue s'.currentValue
  frame : HeadRel L s.currentFrame s'.currentFrame
  rootsLen : m.length = roots.length
  roots : ∀ (k r : Nat), roots[k]? = some r → ∃ r', m[k]? = some r' ∧ L r r'
  symLen : s'.symtab.size = s.symtab.size
  syms : ∀ (j sym di : Nat), s.symtab[j]? = some (.associativeItem sym di) →
    ∃ di', s'.symtab[j]? = some (.associativeItem sym di') ∧ L di di'
  retention : s'.retention = s.retention
  retained : ∀ i, i < s.retention → s'.cells[i]? = s.cells[i]?

/-- the link relation of a finished walk is a bisimulation between the block before and the compacted block -/
theorem links_unfold {off : Nat} {s0 V : Array Cell} {s5 s6 : Store} {c0 cA r : Nat}
    (hinv : CInv off s0 s5 c0 cA 0 s6) (hr : r ≤ cA) (hoff : off = cA - r) (hret : s6.retention = r)
    (hback : ∀ (i : Nat) (sh : Shape), shape s0 i = some sh → ∀ k ∈ sh.kids, k < i)
    (hext : ∀ (i : Nat) (sh : Shape), i < r → shape s0 i = some sh → shape (s0.extract 0 r) i = some sh)
    (hpre : ∀ i, i < r → V[i]? = s0[i]?) (hshift : Shift s6.cells V cA r) :
    ∀ x x', Link s6 c0 cA x x' → Dec s0 x → ∀ fuel, unfold s0 fuel x = unfold V fuel x' := by
  intro x x' hl hd fuel
  refine bisim_unfold s0 V (fun x x' => Dec s0 x ∧ Link s6 c0 cA x x') ?_ fuel x x' ⟨hd, hl⟩
  intro x x' ⟨hdx, hlx⟩
  obtain ⟨sh, hsh, hk⟩ := hdx.shape
  -- a retained address keeps its shape, and its links stay below the retention count
  have retained : x < r → ∃ s_1 s'_1, shape s0 x = some s_1 ∧ shape V x = some s'_1 ∧ s_1.label = s'_1.label ∧
      s_1.inl = s'_1.inl ∧ AllRel (fun x x' => Dec s0 x ∧ Link s6 c0 cA x x') s_1.kids s'_1.kids := by
    intro hxr
    have h1 := hext x sh hxr hsh
    have hag : AgreeNC (s0.extract 0 r) V := by
      intro i c hc _
      have hi : i < r := by
        rcases Nat.lt_or_ge i r with h | h
        · exact h
        · rw [Array.getElem?_eq_none (by simp [Array.size_extract]; omega)] at hc; cases hc
      rw [hpre i hi]
      rw [Array.getElem?_extract] at hc
      have hc' : i < min r s0.size ∧ s0[i]? = some c := by simpa [hi] using hc
      exact hc'.2
    refine ⟨sh, sh, hsh, shape_agree hag h1, rfl, rfl, allRel_refl_of _ (fun k hkm => ⟨hk k hkm, Or.inl ⟨rfl, ?_⟩⟩)⟩
    have := hback x sh hsh k hkm
    rw [hret]; omega
  rcases hlx with ⟨rfl, hxr⟩ | ⟨j, hj1, hj2, hjc⟩
  · exact retained (by rw [hret] at hxr; exact hxr)
  · obtain ⟨o', n', hcell', _, hg⟩ := hinv.done j (by omega) hj2
    rw [hjc] at hcell'
    simp only [Option.some.injEq, Cell.cloneIndexMap.injEq] at hcell'
    obtain ⟨ho, hn⟩ := hcell'
    subst ho; subst hn
    rcases hg with ⟨rfl, hxr⟩ | ⟨ni, hni1, hni2, hg⟩
    · exact retained (by rw [hret] at hxr; exact hxr)
    · obtain ⟨sh', g1, g2, g3, g4⟩ := hg sh hsh
      -- the last cell of the index list is a map entry, so no frame is read across the boundary
      have hno : framePoint s6.cells cA = none := by
        have hpos : c0 < cA := by omega
        obtain ⟨o2, n2, hc2, _, _⟩ := hinv.done (cA - 1) (by omega) (by omega)
        have e : cA = (cA - 1) + 1 := by omega
        rw [e]
        simp [framePoint, hc2]
      have e1 : ni = cA + (ni - cA) := by omega
      have e2 : x' = r + (ni - cA) := by omega
      rw [e1] at g1
      have g1' := shape_shift hshift hno g1
      rw [← e2] at g1'
      refine ⟨sh, sh', hsh, g1', g2.symm, g3.symm, AllRel.imp_mem (fun k k' hkm hl => ⟨hk k hkm, ?_⟩) g4⟩
      simpa using hl

/-- what the phases after the re-pointing loop establish, in terms of the store `sR` that loop returns:
heads, roots and symbol names are reported along links of `sR`; the compacted block is the retained prefix of `sR`
followed by everything behind the index list -/
structure TailFacts (s s' : Store) (roots m : List Nat) (sR : Store) (c0 cA : Nat) : Prop where
  register : HeadRel (Link sR c0 cA) s.currentRegister s'.currentRegister
  value : HeadRel (Link sR c0 cA) s.currentValue s'.currentValue
  frame : HeadRel (Link sR c0 cA) s.currentFrame s'.currentFrame
  rootsLen : m.length = roots.length
  roots : ∀ (k r : Nat), roots[k]? = some r → ∃ r', m[k]? = some r' ∧ Link sR c0 cA r r'
  symLen : s'.symtab.size = s.symtab.size
  syms : ∀ (j sym di : Nat), s.symtab[j]? = some (.associativeItem sym di) →
    ∃ di', s'.symtab[j]? = some (.associativeItem sym di') ∧ Link sR c0 cA di di'
  retention : s'.retention = s.retention
  pre : ∀ i, i < s.retention → s'.cells[i]? = sR.cells[i]?
  shift : Shift sR.cells s'.cells cA s.retention

/-- the index phase: one `create_index_stack` per symbol name, head and extra root -/
def IndexPhase (s : Store) (roots : List Nat) (s5 : Store) : Prop :=
  ∃ s1 s2 s3 s4, Store.indexSymbols s 0 s.symtab.size = .ok s1 ∧ Store.indexOpt s1 s.currentRegister = .ok s2 ∧
    Store.indexOpt s2 s.currentValue = .ok s3 ∧ Store.indexOpt s3 s.currentFrame = .ok s4 ∧
    Store.indexRoots s4 roots = .ok s5

/-- **`optimize_data_block_and_retain` after its guard**, phase by phase: the index phase appends (`s5`), the
reversed walk satisfies its invariant with the slide offset (`s6`), the re-pointing loop runs on `s6` (`sR`), and the
rest is `TailFacts` -/
theorem optimizeBody_coreX {s s' : Store} {roots m : List Nat}
    (h : Store.optimizeBody s roots = .ok (s', m)) (hr : s.retention ≤ s.cells.size) (hlw : ListsWF s.cells) :
    ∃ s5 s6 sR : Store,
      CInv (s5.cells.size - s.retention) s.cells s5 s.cells.size s5.cells.size 0 s6 ∧
      s.cells.size ≤ s5.cells.size ∧ s6.retention = s.retention ∧ s6.start = s.start ∧
      s6.currentValue = s.currentValue ∧
      Store.repointLoop (s6.start + s.cells.size) (s6.start + s5.cells.size) s.cells.size s6 s.currentValue = .ok sR ∧
      TailFacts s s' roots m sR s.cells.size s5.cells.size ∧ IndexPhase s roots s5 ∧
      (s5.cells.size = s.cells.size → s6.cells.size = s5.cells.size) ∧
      -- the reversed walk itself (for invariants other than `CInv`)
      (Store.cloneLoop (s5.cells.size - s.retention) (s5.start + s5.cells.size) s.cells.size
          (s5.cells.size - s.cells.size) s5 = .ok s6 ∨ (s6 = s5 ∧ s5.cells.size = s.cells.size)) ∧
      s5.retention = s.retention := by
  unfold Store.optimizeBody at h
  simp only [bind_eq_ok] at h
  obtain ⟨s1, h1, s2, h2, s3, h3, s4, h4, s5, h5, h6⟩ := h
  have e15 : Ext s.cells.size s s5 :=
    ((((indexSymbols_ext _ _ _ _ _ h1).trans (indexOpt_ext _ h2)).trans (indexOpt_ext _ h3)).trans
      (indexOpt_ext _ h4)).trans (indexRoots_ext _ _ _ _ h5)
  split at h6
  · simp at h6
  · simp only [bind_eq_ok] at h6
    obtain ⟨s6', h7, s6, hR, s7, h8, reg, hreg, val, hval, fr, hfr, mapped, hm, h9⟩ := h6
    have hstart5 : s5.start = s.start := e15.frame.2.1
    have hret5 : s5.retention = s.retention := e15.frame.1
    have hc0A : s.cells.size ≤ s5.cells.size := e15.mono
    have hoffv : s5.start + s5.cursor - (s.start + s.retention) = s5.cells.size - s.retention := by
      simp only [Store.cursor, hstart5]; omega
    -- the walk
    have hinv0 : CInv (s5.start + s5.cursor - (s.start + s.retention)) s.cells s5 s.cells.size s5.cells.size
        (s5.cells.size - s.cells.size) s5 := by
      refine ⟨?_, rfl, rfl, Nat.le_refl _, by omega, fun _ _ _ => rfl, ?_, fun _ j h1 h2 => by omega⟩
      · intro i c hc
        have hi : i < s.cells.size := by
          rcases Nat.lt_or_ge i s.cells.size with h | h
          · exact h
          · rw [Array.getElem?_eq_none h] at hc; cases hc
        rw [e15.keep i hi hi]; exact hc
      · intro j hj1 hj2; omega
    rw [hoffv] at hinv0
    have hinv : CInv (s5.cells.size - s.retention) s.cells s5 s.cells.size s5.cells.size 0 s6' := by
      split at h7
      · simp only [bind_eq_ok, pure_eq_ok] at h7
        obtain ⟨⟨sx, rx⟩, hx, hy'⟩ := h7
        subst hy'
        simp only [Store.cloneIndexStack, bind_eq_ok] at hx
        obtain ⟨s2', hloop, c, _, h3'⟩ := hx
        have hs2 : s2' = sx := by
          split at h3'
          · simp only [pure, Outcome.ok.injEq, Prod.mk.injEq] at h3'; exact h3'.1
          · simp at h3'
        subst hs2
        rw [hoffv] at hloop
        exact cloneLoop_step_inv (Nat.le_refl _) hlw (Or.inr (by rw [hret5]; omega)) _ _ _ hinv0
          (by simpa [Store.cursor] using hloop)
      · rename_i hne
        simp only [pure, Outcome.ok.injEq] at h7
        subst h7
        have hEq : s5.cells.size = s.cells.size := by
          have : s5.start + s5.cursor = s.start + s.cursor := by
            rcases Decidable.em (s5.start + s5.cursor = s.start + s.cursor) with h | h
            · exact h
            · exact absurd h hne
          simp only [Store.cursor, hstart5] at this; omega
        rw [hEq, Nat.sub_self] at hinv0
        rw [hEq]
        exact hinv0
    have hloopX : Store.cloneLoop (s5.cells.size - s.retention) (s5.start + s5.cells.size) s.cells.size
        (s5.cells.size - s.cells.size) s5 = .ok s6' ∨ (s6' = s5 ∧ s5.cells.size = s.cells.size) := by
      split at h7
      · simp only [bind_eq_ok, pure_eq_ok] at h7
        obtain ⟨⟨sx, rx⟩, hx, hy'⟩ := h7
        subst hy'
        simp only [Store.cloneIndexStack, bind_eq_ok] at hx
        obtain ⟨s2', hloop, c, _, h3'⟩ := hx
        have hs2 : s2' = sx := by
          split at h3'
          · simp only [pure, Outcome.ok.injEq, Prod.mk.injEq] at h3'; exact h3'.1
          · simp at h3'
        subst hs2
        rw [hoffv] at hloop
        exact Or.inl (by simpa [Store.cursor] using hloop)
      · rename_i hne
        simp only [pure, Outcome.ok.injEq] at h7
        refine Or.inr ⟨h7.symm, ?_⟩
        have : s5.start + s5.cursor = s.start + s.cursor := by
          rcases Decidable.em (s5.start + s5.cursor = s.start + s.cursor) with h | h
          · exact h
          · exact absurd h hne
        simp only [Store.cursor, hstart5] at this; omega
    have eR := repointLoop_ext _ _ _ _ _ _ hR
    have hstart6' : s6'.start = s.start := hinv.start.trans hstart5
    have hret6' : s6'.retention = s.retention := hinv.ret.trans hret5
    have hheads6' : s6'.currentRegister = s.currentRegister ∧ s6'.currentValue = s.currentValue ∧
        s6'.currentFrame = s.currentFrame := by
      split at h7
      · simp only [bind_eq_ok, pure_eq_ok] at h7
        obtain ⟨⟨sx, rx⟩, hx, hy'⟩ := h7
        subst hy'
        have e := (cloneIndexStack_ext (lo := 0) (Nat.zero_le _) hx).frame
        exact ⟨e.2.2.2.2.1.trans e15.frame.2.2.2.2.1, e.2.2.2.1.trans e15.frame.2.2.2.1,
          e.2.2.2.2.2.trans e15.frame.2.2.2.2.2⟩
      · simp only [pure, Outcome.ok.injEq] at h7
        subst h7
        exact ⟨e15.frame.2.2.2.2.1, e15.frame.2.2.2.1, e15.frame.2.2.2.2.2⟩
    have hsym6' : s6'.symtab = s.symtab := by
      split at h7
      · simp only [bind_eq_ok, pure_eq_ok] at h7
        obtain ⟨⟨sx, rx⟩, hx, hy'⟩ := h7
        subst hy'
        exact (cloneIndexStack_ext (lo := 0) (Nat.zero_le _) hx).frame.2.2.1.trans e15.frame.2.2.1
      · simp only [pure, Outcome.ok.injEq] at h7
        subst h7
        exact e15.frame.2.2.1
    obtain ⟨hsd7, hsz7, hr7, hv7, hf7, _, _, hmid7⟩ := remapSymbols_spec _ _ _ _ _ _ h8
    have hstart6 : s6.start = s.start := eR.frame.2.1.trans hstart6'
    have hret6 : s6.retention = s.retention := eR.frame.1.trans hret6'
    have hheads6 : s6.currentRegister = s.currentRegister ∧ s6.currentValue = s.currentValue ∧
        s6.currentFrame = s.currentFrame :=
      ⟨eR.frame.2.2.2.2.1.trans hheads6'.1, eR.frame.2.2.2.1.trans hheads6'.2.1, eR.frame.2.2.2.2.2.trans hheads6'.2.2⟩
    have hsym6 : s6.symtab = s.symtab := eR.frame.2.2.1.trans hsym6'
    -- the bounds handed to every lookup are `s6.start + c0` and `s6.start + cA`
    have hls : s.start + s.cursor = s6.start + s.cells.size := by simp [Store.cursor, hstart6]
    have hle : s5.start + s5.cursor = s6.start + s5.cells.size := by simp [Store.cursor, hstart6, hstart5]
    rw [hls, hle] at hreg hval hfr hm hmid7
    -- the slide
    simp only [pure, Outcome.ok.injEq, Prod.mk.injEq] at h9
    obtain ⟨h9, hmm⟩ := h9
    subst hmm
    have hcA : s5.cells.size ≤ s6.cells.size := Nat.le_trans hinv.hiLe eR.mono
    obtain ⟨_, hpre, hshift⟩ := slide_extract_spec s6.cells s.retention s5.cells.size (by omega) hcA
    have hRnorm : Store.repointLoop (s6'.start + s.cells.size) (s6'.start + s5.cells.size) s.cells.size s6'
        s.currentValue = .ok s6 := by
      have e1 : s.start + s.cursor = s6'.start + s.cells.size := by simp [Store.cursor, hstart6']
      have e2 : s5.start + s5.cursor = s6'.start + s5.cells.size := by simp [Store.cursor, hstart6', hstart5]
      rw [e1, e2, Nat.add_sub_cancel_left] at hR
      exact hR
    have hnoidx : s5.cells.size = s.cells.size → s6'.cells.size = s5.cells.size := by
      intro heq
      split at h7
      · rename_i hne
        exfalso
        apply hne
        simp only [Store.cursor, hstart5, heq]
      · simp only [pure, Outcome.ok.injEq] at h7
        rw [← h7]
    refine ⟨s5, s6', s6, hinv, hc0A, hret6', hstart6', hheads6'.2.1, hRnorm, ?_, ⟨s1, s2, s3, s4, h1, h2, h3, h4, h5⟩, hnoidx, hloopX, hret5⟩
    -- heads, roots and symbols are looked up in stores with the data of `s6`
    have hsd7 : SameData s6 s7 := hsd7
    have hregL := remapOpt_spec hreg
    have hsymsL : ∀ (j sym di : Nat), s.symtab[j]? = some (.associativeItem sym di) →
        ∃ di', s7.symtab[j]? = some (.associativeItem sym di') ∧ Link s6 s.cells.size s5.cells.size di di' := by
      intro j sym di hj
      have hjlt : j < s.symtab.size := by
        rcases Nat.lt_or_ge j s.symtab.size with h | h
        · exact h
        · rw [Array.getElem?_eq_none h] at hj; cases hj
      obtain ⟨sy, d, d', st, g1, g2, g3, g4⟩ := hmid7 j (Nat.zero_le _) (by omega)
      rw [hsym6, hj] at g1
      simp only [Option.some.injEq, Cell.associativeItem.injEq] at g1
      obtain ⟨e1, e2⟩ := g1
      subst e1; subst e2
      exact ⟨d', g2, lookup_link_same g3 g4⟩
    cases reg <;> cases val <;> cases fr <;> simp only [] at hval hfr hm h9 <;> subst h9 <;>
      (have hvalL := remapOpt_spec hval
       have hfrL := remapOpt_spec hfr
       obtain ⟨hmlen, hmroots⟩ := remapRoots_spec _ _ _ _ _ hm
       refine ⟨?_, ?_, ?_, hmlen, ?_, ?_, ?_, ?_, ?_, ?_⟩
       · rcases hregL with ⟨g1, g2⟩ | ⟨i, m', g1, g2, g3⟩
         · cases g2 <;> exact Or.inl ⟨g1, by simp [hr7, hheads6.1, g1]⟩
         · cases g2 <;> exact Or.inr ⟨i, _, g1, rfl, lookup_link_same hsd7 g3⟩
       · rcases hvalL with ⟨g1, g2⟩ | ⟨i, m', g1, g2, g3⟩
         · cases g2 <;> exact Or.inl ⟨g1, by simp [hv7, hheads6.2.1, g1]⟩
         · cases g2 <;> exact Or.inr ⟨i, _, g1, rfl, lookup_link_same ⟨hsd7.cells, hsd7.ret, hsd7.start⟩ g3⟩
       · rcases hfrL with ⟨g1, g2⟩ | ⟨i, m', g1, g2, g3⟩
         · cases g2 <;> exact Or.inl ⟨g1, by simp [hf7, hheads6.2.2, g1]⟩
         · cases g2 <;> exact Or.inr ⟨i, _, g1, rfl, lookup_link_same ⟨hsd7.cells, hsd7.ret, hsd7.start⟩ g3⟩
       · intro k r hk
         obtain ⟨r', g1, g2⟩ := hmroots k r hk
         exact ⟨r', g1, lookup_link_same ⟨hsd7.cells, hsd7.ret, hsd7.start⟩ g2⟩
       · simp [hsz7, hsym6]
       · exact hsymsL
       · simp [hsd7.ret, hret6]
       · intro i hi
         have h1 := hpre i hi
         simp only [Store.cursor, hsd7.cells, hsd7.ret, hsd7.start, hret6, hstart6, hstart5, Nat.add_sub_add_left,
           Nat.add_sub_cancel_left]
         exact h1
       · have h2 := hshift
         simpa [Store.cursor, hsd7.cells, hsd7.ret, hsd7.start, hret6, hstart6, hstart5, Nat.add_sub_add_left] using h2)

theorem optimizeBody_core {s s' : Store} {roots m : List Nat}
    (h : Store.optimizeBody s roots = .ok (s', m)) (hr : s.retention ≤ s.cells.size) (hlw : ListsWF s.cells) :
    ∃ s5 s6 sR : Store,
      CInv (s5.cells.size - s.retention) s.cells s5 s.cells.size s5.cells.size 0 s6 ∧
      s.cells.size ≤ s5.cells.size ∧ s6.retention = s.retention ∧ s6.start = s.start ∧
      s6.currentValue = s.currentValue ∧
      Store.repointLoop (s6.start + s.cells.size) (s6.start + s5.cells.size) s.cells.size s6 s.currentValue = .ok sR ∧
      TailFacts s s' roots m sR s.cells.size s5.cells.size ∧ IndexPhase s roots s5 ∧
      (s5.cells.size = s.cells.size → s6.cells.size = s5.cells.size) := by
  obtain ⟨s5, s6, sR, a1, a2, a3, a4, a5, a6, a7, a8, a9, _⟩ := optimizeBody_coreX h hr hlw
  exact ⟨s5, s6, sR, a1, a2, a3, a4, a5, a6, a7, a8, a9⟩


/-- all that `optimize` reports is linked to what was there, on heaps whose links all point downwards -/
theorem optimizeBody_links {s s' : Store} {roots m : List Nat}
    (h : Store.optimizeBody s roots = .ok (s', m)) (hr : s.retention ≤ s.cells.size) (hy : OptHyp s) :
    ∃ L, LinksPreserved s s' roots m L := by
  obtain ⟨s5, s6, sR, hinv, hc0A, hret6, hstart6, _, hR, tf, _, _⟩ := optimizeBody_core h hr hy.listsWF
  -- the re-pointing loop finds nothing to re-point
  have hvc' : ValueLinksClosed s6 := by
    intro i p v hi hcell
    rw [hret6] at hi ⊢
    have hcell0 : s.cells[i]? = some (.value p v) ∨ s.cells[i]? = some (.valueRoot v) := by
      have hlt : i < s.cells.size := by omega
      obtain ⟨c, hc⟩ : ∃ c, s.cells[i]? = some c := ⟨s.cells[i], by simp [hlt]⟩
      have := hinv.agree0 i c hc
      rcases hcell with h | h
      · rw [h] at this; left; rw [hc]; exact this.symm ▸ rfl
      · rw [h] at this; right; rw [hc]; exact this.symm ▸ rfl
    exact hy.valueLinksClosed i p v hi hcell0
  have hsame : sR = s6 := repointLoop_noop _ _ _ _ _ _ hvc' hR
  subst hsame
  have hpre0 : ∀ i, i < s.retention → s'.cells[i]? = s.cells[i]? := by
    intro i hi
    rw [tf.pre i hi]
    have hlt : i < s.cells.size := by omega
    obtain ⟨c, hc⟩ : ∃ c, s.cells[i]? = some c := ⟨s.cells[i], by simp [hlt]⟩
    rw [hc]; exact hinv.agree0 i c hc
  have hunf := links_unfold (V := s'.cells) hinv (by omega) rfl hret6 hy.nodeBack hy.extent hpre0 tf.shift
  exact ⟨Link sR s.cells.size s5.cells.size,
    ⟨hunf, tf.register, tf.value, tf.frame, tf.rootsLen, tf.roots, tf.symLen, tf.syms, tf.retention, hpre0⟩⟩

end Garnish.BasicOpt
