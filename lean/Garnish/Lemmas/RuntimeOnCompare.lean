/-
comparison.rs handlers and `make_list` over `StoreLawsOn` (from Props/RuntimeRefineCompare.lean, Lemmas/RuntimeMakeList.lean):
the pop loop of `make_list` needs `Deep` of what remains below the items.
-/
import Garnish.Lemmas.RuntimeOnData
import Garnish.Props.RuntimeRefineCompare
import Garnish.Props.RuntimeRefineMakeList
set_option linter.unusedSimpArgs false
set_option linter.unusedVariables false
namespace Garnish.Lemmas.Runtime.On
open Garnish Gen Garnish.Abs Garnish.Model.Equality Garnish.Model.Runtime Garnish.Lemmas.Runtime
open Garnish.Props.RuntimeRefine

variable {F σ : Type} {S : RStore F σ} {Inv : σ → Prop} {Rd : σ → Nat → Prop}

section
variable (fo : FloatOps F)
/-- `cmp_list` on two char lists from integer starts: Abs/Ops `cmpListFrom`; the store is only read -/
theorem C12_refine_cmp_list (L : StoreLawsOn S Inv Rd) (s0 : σ) {left right : Nat} {a b : List Nat}
    (hl : Decodes (S.view s0) left (.chars a)) (hr : Decodes (S.view s0) right (.chars b))
    (ha : a.length ≤ 2147483647) (hb : b.length ≤ 2147483647) (i j fuel : Nat)
    (hf : min a.length b.length + 1 ≤ fuel) :
    Model.Runtime.cmpList fo fuel left right (.int i) (.int j) S.charItem S.charLen s0
      = .ok (some (cmpListFrom a b i j), s0) :=
  cmpList_spec fo S.charItem S.charLen _ s0 (L.charIdx s0) left right a b (chars_of hl) (chars_of hr) ha hb i j
    fuel hf

/-- the same loop on byte lists -/
theorem C12_refine_cmp_list_bytes (L : StoreLawsOn S Inv Rd) (s0 : σ) {left right : Nat} {a b : List Nat}
    (hl : Decodes (S.view s0) left (.bytes a)) (hr : Decodes (S.view s0) right (.bytes b))
    (ha : a.length ≤ 2147483647) (hb : b.length ≤ 2147483647) (i j fuel : Nat)
    (hf : min a.length b.length + 1 ≤ fuel) :
    Model.Runtime.cmpList fo fuel left right (.int i) (.int j) S.byteItem S.byteLen s0
      = .ok (some (cmpListFrom a b i j), s0) :=
  cmpList_spec fo S.byteItem S.byteLen _ s0 (L.byteIdx s0) left right a b (bytes_of hl) (bytes_of hr) ha hb i j
    fuel hf

/-- without integer starts at 0, `cmp_list` is the natural order of Abs/Ops `cmpList` -/
theorem C12_cmpListFrom_zero (a b : List Nat) : cmpListFrom a b 0 0 = Abs.cmpList a b := cmpListFrom_zero a b

/-- `perform_comparison`: both operands popped, nothing else touched, and the `Option<Ordering>` is the one of
the value-level comparison (`foreign` ↦ the caller's `false_ord`, `unordered` ↦ `None`), or its error -/
theorem C12_refine_perform_comparison (L : StoreLawsOn S Inv Rd) (falseOrd : Ordering)
    {s : σ} {r l : Nat} {vr vl : Val F} {rest : List Nat}
    (hregs : S.regs s = r :: l :: rest) (hl : Decodes (S.view s) l vl) (hr : Decodes (S.view s) r vr)
    (ha : textLen vl ≤ 2147483647) (hb : textLen vr ≤ 2147483647) (fuel : Nat) (hf : cmpFuel vl vr ≤ fuel)
    (hi : Inv s := by inv_tac) (hd : Deep S s rest := by deep_tac) :
    match compareValsR fo vl vr with
    | some (.ok c) => PoppedI S Inv s (performComparison fo S fuel falseOrd s) (ordOf falseOrd c) rest
    | some (.error e) => performComparison fo S fuel falseOrd s = .err e
    | none => True := by
  obtain ⟨s0, h0, e0⟩ := nextTwoRawRef_cons L hregs
  have hl0 := e0.dec hl
  have hr0 := e0.dec hr
  have hm := comparisonMatch_spec fo L s0 fuel falseOrd hl0 hr0 ha hb hf
  have hp : performComparison fo S fuel falseOrd s
      = comparisonMatch fo S fuel falseOrd l r vl.typeOf vr.typeOf s0 := by
    rw [performComparison, bind_ok h0]
    simp only []
    rw [bind_ok (getDataType_of hl0), bind_ok (getDataType_of hr0)]
  unfold CmpOutcome at hm
  cases hc : compareValsR fo vl vr with
  | none => trivial
  | some x =>
    rw [hc] at hm
    cases x with
    | ok c => exact ⟨s0, by rw [hp]; exact hm, e0⟩
    | error e => simp only [] at hm ⊢; rw [hp]; exact hm

/-- a comparison handler: `perform_comparison(false_ord)` then `push_boolean(test(result))` / `push_unit`, for a
`test` that rejects `false_ord` -/
theorem C12_refine_handler (L : StoreLawsOn S Inv Rd) (test : Ordering → Bool) (falseOrd : Ordering)
    (htest : test falseOrd = false)
    {s : σ} {r l : Nat} {vr vl : Val F} {rest : List Nat}
    (hregs : S.regs s = r :: l :: rest) (hl : Decodes (S.view s) l vl) (hr : Decodes (S.view s) r vr)
    (ha : textLen vl ≤ 2147483647) (hb : textLen vr ≤ 2147483647) (fuel : Nat) (hf : cmpFuel vl vr ≤ fuel)
    (hi : Inv s := by inv_tac) (hd : Deep S s rest := by deep_tac) :
    let handler : RM σ (Option Nat) := do pushComparison S test (← performComparison fo S fuel falseOrd)
    match compareValsR fo vl vr with
    | some (.ok c) => PushedI S Inv s (handler s) none rest (cmpValOf test c)
    | some (.error e) => handler s = .err e
    | none => True := by
  intro handler
  have hp := C12_refine_perform_comparison fo L falseOrd hregs hl hr ha hb fuel hf
  cases hc : compareValsR fo vl vr with
  | none => trivial
  | some x =>
    rw [hc] at hp
    cases x with
    | error e => simp only [] at hp ⊢; exact bind_err hp
    | ok c =>
      simp only [] at hp ⊢
      obtain ⟨s0, h0, e0⟩ := hp
      show PushedI S Inv s ((performComparison fo S fuel falseOrd >>= _) s) none rest _
      rw [bind_ok h0]
      cases c with
      | foreign =>
        obtain ⟨x, s2, h2, d2, e2⟩ := pushBoolean_spec L (test falseOrd) s0
        rw [e0.regs, e0.vals] at e2
        rw [htest] at d2
        exact ⟨x, s2, by simp only [ordOf, pushComparison]; rw [bind_ok h2]; rfl, d2, e0.trans e2⟩
      | unordered =>
        obtain ⟨x, s2, h2, d2, e2⟩ := pushUnit_spec L s0
        rw [e0.regs, e0.vals] at e2
        exact ⟨x, s2, by simp only [ordOf, pushComparison]; rw [bind_ok h2]; rfl, d2, e0.trans e2⟩
      | ord o =>
        obtain ⟨x, s2, h2, d2, e2⟩ := pushBoolean_spec L (test o) s0
        rw [e0.regs, e0.vals] at e2
        exact ⟨x, s2, by simp only [ordOf, pushComparison]; rw [bind_ok h2]; rfl, d2, e0.trans e2⟩


end

/-- the add loop: the `k`-th round adds the `k`-th of the top registers counted from the bottom -/
theorem makeListAdd_spec (L : StoreLawsOn S Inv Rd) (top rest : List Nat) : ∀ (rem k t : Nat) (s : σ), Inv s →
    rem + k = top.length → S.regs s = top ++ rest → S.building s = some (t, top.reverse.take k) →
    ∃ t' s', makeListAdd S rem (rest.length + k) t s = .ok (t', s') ∧ EffI S Inv s s' (top ++ rest) (S.vals s) ∧
      S.building s' = some (t', top.reverse) := by
  intro rem
  induction rem with
  | zero =>
    intro k t s hi hk hregs hb
    have : top.reverse.take k = top.reverse := List.take_of_length_le (by simp; omega)
    rw [this] at hb
    exact ⟨t, s, rfl, ⟨⟨Keeps.refl S s, hregs, rfl, rfl, rfl⟩, hi⟩, hb⟩
  | succ rem ih =>
    intro k t s hi hk hregs hb
    have hlt : k < top.reverse.length := by simp; omega
    have hget : getRegister S (rest.length + k) s = .ok (some top.reverse[k], s) := by
      show Outcome.ok ((S.regs s).reverse[rest.length + k]?, s) = _
      rw [hregs, List.reverse_append, List.getElem?_append_right (by simp), List.length_reverse,
        Nat.add_sub_cancel_left, List.getElem?_eq_getElem hlt]
    obtain ⟨t1, s1, h1, e1', b1, i1⟩ := L.addToList t _ top.reverse[k] s hi hb
    have e1 : EffI S Inv s s1 (S.regs s) (S.vals s) := ⟨e1', i1⟩
    rw [hregs] at e1
    have hb1 : S.building s1 = some (t1, top.reverse.take (k + 1)) := by
      rw [b1, List.take_add_one, List.getElem?_eq_getElem hlt]; rfl
    obtain ⟨t2, s2, h2, e2, b2⟩ := ih (k + 1) t1 s1 i1 (by omega) e1.regs hb1
    rw [e1.vals] at e2
    refine ⟨t2, s2, ?_, e1.trans e2, b2⟩
    rw [makeListAdd, bind_ok hget]
    simp only []
    rw [bind_ok (pure_apply _ s), bind_ok h1]
    exact h2

/-- popping `n` registers -/
theorem popRegisters_spec (L : StoreLawsOn S Inv Rd) : ∀ (top rest : List Nat) (s : σ), Inv s → Deep S s rest →
    S.regs s = top ++ rest → ∃ s', popRegisters S top.length s = .ok ((), s') ∧ EffI S Inv s s' rest (S.vals s) ∧
      S.building s' = S.building s
  | [], rest, s, hi, _, hregs => ⟨s, rfl, ⟨⟨Keeps.refl S s, by simpa using hregs, rfl, rfl, rfl⟩, hi⟩, rfl⟩
  | x :: top, rest, s, hi, hdp, hregs => by
    have hdp' : Deep S s (top ++ rest) := fun ret saved fs hf => by
      have := hdp ret saved fs hf; simp; omega
    obtain ⟨s1, h1, e1', i1⟩ := L.popRegisterCons s x (top ++ rest) hi hregs hdp'
    have e1 : EffI S Inv s s1 (top ++ rest) (S.vals s) := ⟨e1', i1⟩
    have hb1 := L.popRegisterBuilding s _ s1 h1
    obtain ⟨s2, h2, e2, hb2⟩ := popRegisters_spec L top rest s1 i1 (e1.deep hdp) e1.regs
    rw [e1.vals] at e2
    refine ⟨s2, ?_, e1.trans e2, hb2.trans hb1⟩
    show popRegisters S (top.length + 1) s = _
    rw [popRegisters, bind_ok h1]; exact h2

/-- `make_list len` with at least `len` registers: the top `len` registers, bottom-most first, become one list -/
theorem makeList_spec (L : StoreLawsOn S Inv Rd) {s : σ} (top rest : List Nat) (tvs : List (Val F))
    (hregs : S.regs s = top ++ rest) (hd : DecodesList (S.view s) top tvs)
    (hi : Inv s := by inv_tac) (hdp : Deep S s rest := by deep_tac) :
    PushedI S Inv s (makeList S top.length s) none rest (.list tvs.reverse) := by
  have hlen : getRegisterLen S s = .ok ((top ++ rest).length, s) := by
    show Outcome.ok ((S.regs s).length, s) = _
    rw [hregs]
  have hnot : ¬ top.length > (top ++ rest).length := by simp
  obtain ⟨t0, s1, h1, e1', b1, i1⟩ := L.startList top.length s hi
  have e1 : EffI S Inv s s1 (S.regs s) (S.vals s) := ⟨e1', i1⟩
  rw [hregs] at e1
  have hlen1 : getRegisterLen S s1 = .ok ((top ++ rest).length, s1) := by
    show Outcome.ok ((S.regs s1).length, s1) = _
    rw [e1.regs]
  obtain ⟨t1, s2, h2, e2, b2⟩ := makeListAdd_spec L top rest top.length 0 t0 s1 i1 (by omega) e1.regs
    (by rw [b1]; rfl)
  rw [e1.vals] at e2
  obtain ⟨s3, h3, e3, b3⟩ := popRegisters_spec L top rest s2 e2.inv ((e1.trans e2).deep hdp) e2.regs
  rw [e2.vals] at e3
  have e03 := (e1.trans e2).trans e3
  obtain ⟨a, s4, h4, d4, e4⟩ := adds_i (L.endList t1 top.reverse tvs.reverse s3 e3.inv (by rw [b3, b2])
    (decodesList_reverse (decodesList_keeps e03.keeps hd)))
  rw [e3.regs, e3.vals] at e4
  obtain ⟨s5, h5, e5⟩ := pushReg L d4 (by intro h; cases h)
  rw [e4.regs, e4.vals] at e5
  refine ⟨a, s5, ?_, e5.dec d4, (e03.trans e4).trans e5⟩
  have hcount : (top ++ rest).length - ((top ++ rest).length - top.length) = top.length := by simp
  have hstart : (top ++ rest).length - top.length = rest.length + 0 := by simp
  rw [makeList, bind_ok hlen]
  simp only [hnot, if_false]
  rw [bind_ok h1, bind_ok hlen1, bind_ok hlen1, hcount, hstart, bind_ok h2, bind_ok h3,
    bind_ok h4, bind_ok h5]; rfl


end Garnish.Lemmas.Runtime.On
