/-
One clone step of `clone_index_stack`, every arm: links, the list arm, the combined lemma.
-/
import Garnish.Lemmas.OptimizeShape
namespace Garnish.BasicOpt
open Garnish

/-! ### links and the clone step -/

set_option maxHeartbeats 1000000

/-- one clone step, every kind of cell except lists -/
theorem cloneCell_shape {s0 : Array Cell} {cur cur2 : Store} {ls le index ni : Nat} {c : Cell} {sh : Shape}
    (hA : ∀ (i : Nat) (c : Cell), s0[i]? = some c → cur.cells[i]? = some c)
    (hc : s0[index]? = some c) (hsh : shape s0 index = some sh)
    (hnl : ∀ n k, c ≠ .list n k)
    (hclone : Store.cloneCell cur ls le index c = .ok (cur2, ni)) :
    ∃ sh', shape cur2.cells ni = some sh' ∧ sh'.label = sh.label ∧ sh'.inl = sh.inl ∧
      AllRel (fun x x' => Store.lookup cur ls le x = .ok x') sh.kids sh'.kids := by
  cases hso : soloShape c with
  | some x =>
    have : sh = x := solo_of_shape hc hso hsh
    subst this
    exact cloneCell_shape_solo hso hclone
  | none =>
    cases c <;> simp only [soloShape] at hso <;> try (simp at hso; done)
    · exact cloneCell_shape_inline hA hc hsh (Or.inr (Or.inr ⟨_, rfl⟩)) hclone
    · exact cloneCell_shape_inline hA hc hsh (Or.inl ⟨_, rfl⟩) hclone
    · exact cloneCell_shape_inline hA hc hsh (Or.inr (Or.inl ⟨_, rfl⟩)) hclone
    · exact absurd rfl (hnl _ _)
    all_goals first
      | (unfold shape at hsh; rw [hc] at hsh; simp at hsh; done)
      | exact cloneCell_shape_frame hA hc hsh (Or.inl ⟨_, _, rfl⟩) hclone
      | exact cloneCell_shape_frame hA hc hsh (Or.inr (Or.inl ⟨_, rfl⟩)) hclone
      | exact cloneCell_shape_frame hA hc hsh (Or.inr (Or.inr (Or.inl ⟨_, rfl⟩))) hclone
      | exact cloneCell_shape_frame hA hc hsh (Or.inr (Or.inr (Or.inr rfl))) hclone

theorem findMap_some {cells : Array Cell} {idx nw : Nat} : ∀ (n lo : Nat), Store.findMap cells idx lo n = some nw →
    ∃ j, lo ≤ j ∧ j < lo + n ∧ cells[j]? = some (.cloneIndexMap idx nw)
  | 0, lo, h => by simp [Store.findMap] at h
  | n + 1, lo, h => by
    simp only [Store.findMap] at h
    split at h
    · rename_i o nw' hcell
      split at h
      · rename_i ho
        simp only [Option.some.injEq] at h
        subst h; subst ho
        exact ⟨lo, Nat.le_refl _, by omega, hcell⟩
      · obtain ⟨j, h1, h2, h3⟩ := findMap_some n (lo + 1) h
        exact ⟨j, by omega, by omega, h3⟩
    · obtain ⟨j, h1, h2, h3⟩ := findMap_some n (lo + 1) h
      exact ⟨j, by omega, by omega, h3⟩

/-- `x ↦ x'` is a link the clone loop has established: retained, or a map entry at a processed position -/
def Link (cur : Store) (lo hi : Nat) (x x' : Nat) : Prop :=
  (x' = x ∧ x < cur.retention) ∨ ∃ j, lo ≤ j ∧ j < hi ∧ cur.cells[j]? = some (.cloneIndexMap x x')

theorem lookupOpt_link {cur : Store} {lo hi x x' : Nat}
    (h : Store.lookupOpt cur (cur.start + lo) (cur.start + hi) x = .ok (some x')) : Link cur lo hi x x' := by
  unfold Store.lookupOpt at h
  split at h
  · simp only [Outcome.ok.injEq, Option.some.injEq] at h
    subst h; exact Or.inl ⟨rfl, by assumption⟩
  · split at h
    · simp at h
    · split at h
      · simp at h
      · simp only [Outcome.ok.injEq] at h
        have e1 : cur.start + lo - cur.start = lo := by omega
        have e2 : cur.start + hi - cur.start = hi := by omega
        rw [e1, e2] at h
        obtain ⟨j, h1, h2, h3⟩ := findMap_some _ _ h
        exact Or.inr ⟨j, h1, by omega, h3⟩

theorem lookup_link {cur : Store} {lo hi x x' : Nat}
    (h : Store.lookup cur (cur.start + lo) (cur.start + hi) x = .ok x') : Link cur lo hi x x' := by
  simp only [Store.lookup, bind_eq_ok] at h
  obtain ⟨o, ho, h2⟩ := h
  cases o with
  | none => simp at h2
  | some v =>
    simp only [pure_eq_ok] at h2
    subst h2
    exact lookupOpt_link ho

theorem AllRel.imp {α β} {R S : α → β → Prop} (h : ∀ a b, R a b → S a b) :
    ∀ {l : List α} {l' : List β}, AllRel R l l' → AllRel S l l'
  | _, _, .nil => .nil
  | _, _, .cons hab t => .cons (h _ _ hab) (AllRel.imp h t)


/-- `st` is `cur` with data cells appended -/
structure Grown (cur st : Store) : Prop where
  start : st.start = cur.start
  ret : st.retention = cur.retention
  keep : ∀ j, j < cur.cells.size → st.cells[j]? = cur.cells[j]?
  mono : cur.cells.size ≤ st.cells.size

theorem Grown.refl (s : Store) : Grown s s := ⟨rfl, rfl, fun _ _ => rfl, Nat.le_refl _⟩

theorem Grown.trans {a b c : Store} (h1 : Grown a b) (h2 : Grown b c) : Grown a c :=
  ⟨h2.start.trans h1.start, h2.ret.trans h1.ret,
   fun j hj => (h2.keep j (Nat.lt_of_lt_of_le hj h1.mono)).trans (h1.keep j hj), Nat.le_trans h1.mono h2.mono⟩

theorem Grown.of_ext {a b : Store} (h : Ext a.cells.size a b) : Grown a b :=
  ⟨h.frame.2.1, h.frame.1, fun j hj => h.keep j hj hj, h.mono⟩

/-- a link looked up in `cur` or in `cur` with cells appended -/
def LinkVia (cur : Store) (ls le x x' : Nat) : Prop := ∃ st, Grown cur st ∧ Store.lookup st ls le x = .ok x'

inductive SlotRel (L : Nat → Nat → Prop) : Cell → Cell → Prop where
  | item {x x'} : L x x' → SlotRel L (.listItem x) (.listItem x')
  | assoc {sy x x'} : L x x' → SlotRel L (.associativeItem sy x) (.associativeItem sy x')
  | empty : SlotRel L .empty .empty

theorem SlotRel.imp {L M : Nat → Nat → Prop} (h : ∀ a b, L a b → M a b) {c c' : Cell} :
    SlotRel L c c' → SlotRel M c c'
  | .item hl => .item (h _ _ hl)
  | .assoc hl => .assoc (h _ _ hl)
  | .empty => .empty

theorem cloneSlots_spec (ls le : Nat) : ∀ (m : Nat) (s s' : Store) (i : Nat),
    Store.cloneSlots ls le s i m = .ok s' →
      Grown s s' ∧ ∀ t, t < m → i + t < s.cells.size →
        ∃ c c', s.cells[i + t]? = some c ∧ s'.cells[s.cells.size + t]? = some c' ∧ SlotRel (LinkVia s ls le) c c'
  | 0, s, s', i, h => by
    simp only [Store.cloneSlots, Outcome.ok.injEq] at h
    subst h
    exact ⟨Grown.refl _, fun t ht => by omega⟩
  | m + 1, s, s', i, h => by
    simp only [Store.cloneSlots, bind_eq_ok] at h
    obtain ⟨c, hg, h2⟩ := h
    have hc := get_ok hg
    -- common tail once the relinked cell `c'` is known
    have tail : ∀ (c' : Cell) (s1 : Store) (i1 : Nat), SlotRel (LinkVia s ls le) c c' → s.push c' = .ok (s1, i1) →
        Store.cloneSlots ls le s1 (i + 1) m = .ok s' →
        Grown s s' ∧ ∀ t, t < m + 1 → i + t < s.cells.size →
          ∃ c c', s.cells[i + t]? = some c ∧ s'.cells[s.cells.size + t]? = some c' ∧ SlotRel (LinkVia s ls le) c c' := by
      intro c' s1 i1 hrel hpush hrest
      obtain ⟨_, hcells, _⟩ := push_ok hpush
      have g1 : Grown s s1 := Grown.of_ext (push_ext _ hpush)
      obtain ⟨g2, ih⟩ := cloneSlots_spec ls le m s1 s' (i + 1) hrest
      have hsz : s1.cells.size = s.cells.size + 1 := by rw [hcells]; simp
      refine ⟨g1.trans g2, ?_⟩
      intro t ht hit
      cases t with
      | zero =>
        refine ⟨c, c', by simpa using hc, ?_, hrel⟩
        rw [Nat.add_zero, g2.keep _ (by omega), hcells]
        simp
      | succ t =>
        obtain ⟨d, d', hd, hd', hrel'⟩ := ih t (by omega) (by omega)
        refine ⟨d, d', ?_, ?_, SlotRel.imp (fun a b ⟨st, hst, hl⟩ => ⟨st, g1.trans hst, hl⟩) hrel'⟩
        · rw [← g1.keep _ (by omega)]
          have : i + (t + 1) = i + 1 + t := by omega
          rw [this]; exact hd
        · have : s.cells.size + (t + 1) = s1.cells.size + t := by omega
          rw [this]; exact hd'
    split at h2
    · simp only [bind_eq_ok] at h2
      obtain ⟨item', hl, ⟨s1, i1⟩, hpush, hrest⟩ := h2
      exact tail _ s1 i1 (.item ⟨s, Grown.refl _, hl⟩) hpush hrest
    · simp only [bind_eq_ok] at h2
      obtain ⟨item', hl, ⟨s1, i1⟩, hpush, hrest⟩ := h2
      exact tail _ s1 i1 (.assoc ⟨s, Grown.refl _, hl⟩) hpush hrest
    · simp only [bind_eq_ok] at h2
      obtain ⟨⟨s1, i1⟩, hpush, hrest⟩ := h2
      exact tail _ s1 i1 .empty hpush hrest
    · simp at h2

theorem listItems_build {L : Nat → Nat → Prop} {s0 cells2 : Array Cell} : ∀ (n a b : Nat) (items : List Nat),
    listItems s0 a n = some items →
    (∀ t, t < n → ∃ c c', s0[a + t]? = some c ∧ cells2[b + t]? = some c' ∧ SlotRel L c c') →
    ∃ items', listItems cells2 b n = some items' ∧ AllRel L items items'
  | 0, a, b, items, h, _ => by
    simp only [listItems, Option.some.injEq] at h
    subst h
    exact ⟨[], by simp [listItems], .nil⟩
  | n + 1, a, b, items, h, hs => by
    simp only [listItems] at h
    obtain ⟨c, c', hc, hc', hrel⟩ := hs 0 (by omega)
    simp only [Nat.add_zero] at hc hc'
    rw [hc] at h
    cases hrel with
    | item hl =>
      simp only [Option.map_eq_some_iff] at h
      obtain ⟨rest, hrest, rfl⟩ := h
      obtain ⟨rest', hr', hall⟩ := listItems_build n (a + 1) (b + 1) rest hrest (fun t ht => by
        obtain ⟨d, d', h1, h2, h3⟩ := hs (t + 1) (by omega)
        refine ⟨d, d', ?_, ?_, h3⟩
        · have : a + 1 + t = a + (t + 1) := by omega
          rw [this]; exact h1
        · have : b + 1 + t = b + (t + 1) := by omega
          rw [this]; exact h2)
      refine ⟨_ :: rest', ?_, .cons hl hall⟩
      simp only [listItems, hc', hr', Option.map_some]
    | assoc _ => simp at h
    | empty => simp at h

theorem assocItems_build {L : Nat → Nat → Prop} {s0 cells2 : Array Cell} : ∀ (n a b : Nat) (keys : List Cell)
    (targets : List Nat), assocItems s0 a n = some (keys, targets) →
    (∀ t, t < n → ∃ c c', s0[a + t]? = some c ∧ cells2[b + t]? = some c' ∧ SlotRel L c c') →
    ∃ targets', assocItems cells2 b n = some (keys, targets') ∧ AllRel L targets targets'
  | 0, a, b, keys, targets, h, _ => by
    simp only [assocItems, Option.some.injEq, Prod.mk.injEq] at h
    obtain ⟨h1, h2⟩ := h
    subst h1; subst h2
    exact ⟨[], by simp [assocItems], .nil⟩
  | n + 1, a, b, keys, targets, h, hs => by
    simp only [assocItems] at h
    obtain ⟨c, c', hc, hc', hrel⟩ := hs 0 (by omega)
    simp only [Nat.add_zero] at hc hc'
    rw [hc] at h
    cases hrel with
    | assoc hl =>
      simp only [Option.map_eq_some_iff] at h
      obtain ⟨⟨ks, js⟩, hrest, heq⟩ := h
      simp only [Prod.mk.injEq] at heq
      obtain ⟨hk, hj⟩ := heq
      subst hk; subst hj
      obtain ⟨rest', hr', hall⟩ := assocItems_build n (a + 1) (b + 1) ks js hrest (fun t ht => by
        obtain ⟨d, d', h1, h2, h3⟩ := hs (t + 1) (by omega)
        refine ⟨d, d', ?_, ?_, h3⟩
        · have : a + 1 + t = a + (t + 1) := by omega
          rw [this]; exact h1
        · have : b + 1 + t = b + (t + 1) := by omega
          rw [this]; exact h2)
      refine ⟨_ :: rest', ?_, .cons hl hall⟩
      simp only [assocItems, hc', hr', Option.map_some]
    | item _ => simp at h
    | empty => simp at h

theorem AllRel.append {α β} {R : α → β → Prop} : ∀ {l1 : List α} {l1' : List β} {l2 : List α} {l2' : List β},
    AllRel R l1 l1' → AllRel R l2 l2' → AllRel R (l1 ++ l2) (l1' ++ l2')
  | _, _, _, _, .nil, h2 => h2
  | _, _, _, _, .cons hab t, h2 => .cons hab (AllRel.append t h2)


theorem listItems_cell {cells : Array Cell} : ∀ (n a : Nat) (items : List Nat), listItems cells a n = some items →
    ∀ t, t < n → ∃ c, cells[a + t]? = some c
  | 0, _, _, _, t, ht => by omega
  | n + 1, a, items, h, t, ht => by
    simp only [listItems] at h
    cases hc : cells[a]? with
    | none => simp [hc] at h
    | some c =>
      cases t with
      | zero => exact ⟨c, by simpa using hc⟩
      | succ t =>
        rw [hc] at h
        cases c <;> simp only [] at h <;> try (simp at h; done)
        simp only [Option.map_eq_some_iff] at h
        obtain ⟨rest, hrest, _⟩ := h
        obtain ⟨d, hd⟩ := listItems_cell n (a + 1) rest hrest t (by omega)
        exact ⟨d, by have : a + (t + 1) = a + 1 + t := by omega
                     rw [this]; exact hd⟩

theorem assocItems_cell {cells : Array Cell} : ∀ (n a : Nat) (r : List Cell × List Nat), assocItems cells a n = some r →
    ∀ t, t < n → ∃ c, cells[a + t]? = some c
  | 0, _, _, _, t, ht => by omega
  | n + 1, a, r, h, t, ht => by
    simp only [assocItems] at h
    cases hc : cells[a]? with
    | none => simp [hc] at h
    | some c =>
      cases t with
      | zero => exact ⟨c, by simpa using hc⟩
      | succ t =>
        rw [hc] at h
        cases c <;> simp only [] at h <;> try (simp at h; done)
        simp only [Option.map_eq_some_iff] at h
        obtain ⟨rest, hrest, _⟩ := h
        obtain ⟨d, hd⟩ := assocItems_cell n (a + 1) rest hrest t (by omega)
        exact ⟨d, by have : a + (t + 1) = a + 1 + t := by omega
                     rw [this]; exact hd⟩

/-- cloning a list: items and key table are copied behind the header with their links looked up -/
theorem cloneCell_shape_list {s0 : Array Cell} {cur cur2 : Store} {ls le index ni n k : Nat} {sh : Shape}
    (hA : ∀ (i : Nat) (c : Cell), s0[i]? = some c → cur.cells[i]? = some c)
    (hc : s0[index]? = some (.list n k)) (hsh : shape s0 index = some sh) (hkn : k ≤ n)
    (hclone : Store.cloneCell cur ls le index (.list n k) = .ok (cur2, ni)) :
    ∃ sh', shape cur2.cells ni = some sh' ∧ sh'.label = sh.label ∧ sh'.inl = sh.inl ∧
      AllRel (LinkVia cur ls le) sh.kids sh'.kids := by
  unfold shape at hsh
  rw [hc] at hsh
  simp only at hsh
  split at hsh
  · rename_i items keys targets h1 h2
    simp only [Option.some.injEq] at hsh
    subst hsh
    simp only [Store.cloneCell, bind_eq_ok, pure_eq_ok, Prod.mk.injEq] at hclone
    obtain ⟨⟨s1, li⟩, hpush, s2, hslots, hs2, hli⟩ := hclone
    subst hs2; subst hli
    obtain ⟨hi, hcells, _⟩ := push_ok hpush
    have g1 : Grown cur s1 := Grown.of_ext (push_ext _ hpush)
    have hsz : s1.cells.size = cur.cells.size + 1 := by rw [hcells]; simp
    obtain ⟨g2, spec⟩ := cloneSlots_spec ls le (n * 2) s1 s2 (index + 1) hslots
    have slot : ∀ u, u < n * 2 → ∀ d, s0[index + 1 + u]? = some d →
        ∃ c c', s0[index + 1 + u]? = some c ∧ s2.cells[li + 1 + u]? = some c' ∧ SlotRel (LinkVia cur ls le) c c' := by
      intro u hu d hd
      have hcur := hA _ d hd
      have hlt : index + 1 + u < cur.cells.size := by
        rcases Nat.lt_or_ge (index + 1 + u) cur.cells.size with h | h
        · exact h
        · rw [Array.getElem?_eq_none h] at hcur; cases hcur
      obtain ⟨c, c', e1, e2, e3⟩ := spec u hu (by omega)
      rw [g1.keep _ hlt, hcur] at e1
      simp only [Option.some.injEq] at e1
      subst e1
      refine ⟨d, c', hd, ?_, SlotRel.imp (fun a b ⟨st, hst, hl⟩ => ⟨st, g1.trans hst, hl⟩) e3⟩
      have : li + 1 + u = s1.cells.size + u := by omega
      rw [this]; exact e2
    obtain ⟨items', hit, hitrel⟩ := listItems_build n (index + 1) (li + 1) items h1 (fun t ht => by
      obtain ⟨d, hd⟩ := listItems_cell _ _ _ h1 t ht
      exact slot t (by omega) d hd)
    obtain ⟨targets', htg, htgrel⟩ := assocItems_build k (index + 1 + n) (li + 1 + n) keys targets h2 (fun t ht => by
      obtain ⟨d, hd⟩ := assocItems_cell _ _ _ h2 t ht
      have e : index + 1 + n + t = index + 1 + (n + t) := by omega
      have e' : li + 1 + n + t = li + 1 + (n + t) := by omega
      rw [e, e']
      rw [e] at hd
      exact slot (n + t) (by omega) d hd)
    have hhdr : s2.cells[li]? = some (.list n k) := by
      rw [g2.keep li (by omega), hcells, hi]; simp
    refine ⟨⟨.list n k, keys, items' ++ targets'⟩, ?_, rfl, rfl, AllRel.append hitrel htgrel⟩
    unfold shape
    rw [hhdr]
    simp only [hit, htg]
  · simp at hsh

/-- one clone step, every kind of cell (lists need `k ≤ n`: the key table lies within the copied slots) -/
theorem cloneCell_shape_all {s0 : Array Cell} {cur cur2 : Store} {ls le index ni : Nat} {c : Cell} {sh : Shape}
    (hA : ∀ (i : Nat) (c : Cell), s0[i]? = some c → cur.cells[i]? = some c)
    (hc : s0[index]? = some c) (hsh : shape s0 index = some sh)
    (hwf : ∀ n k, c = .list n k → k ≤ n)
    (hclone : Store.cloneCell cur ls le index c = .ok (cur2, ni)) :
    ∃ sh', shape cur2.cells ni = some sh' ∧ sh'.label = sh.label ∧ sh'.inl = sh.inl ∧
      AllRel (LinkVia cur ls le) sh.kids sh'.kids := by
  by_cases hl : ∃ n k, c = .list n k
  · obtain ⟨n, k, rfl⟩ := hl
    exact cloneCell_shape_list hA hc hsh (hwf n k rfl) hclone
  · obtain ⟨sh', g1, g2, g3, g4⟩ := cloneCell_shape hA hc hsh (fun n k h => hl ⟨n, k, h⟩) hclone
    exact ⟨sh', g1, g2, g3, AllRel.imp (fun a b hab => ⟨cur, Grown.refl _, hab⟩) g4⟩

/-- list headers whose key-table length does not exceed the list length (what `end_list` produces) -/
def ListsWF (cells : Array Cell) : Prop := ∀ (i n k : Nat), cells[i]? = some (.list n k) → k ≤ n

end Garnish.BasicOpt
