/-
Text-level rewrites, lexer side, part 2a (C18): the characters that end a pending token in the "plain" states
(Number, Float, Identifier, Annotation, Operator) — space, tab and the end-of-input sentinel — leave the arm with the
same lexer (`stateStep_ender`); explicit forms of the tail of `process_char` (`finishChar_ok` / `_bad` / `_sentinel` /
`_blank`) and of the end of the input between tokens (`lexEnd_done`).
-/
import Garnish.Lemmas.LexRewrite
set_option linter.unusedSimpArgs false
set_option linter.unusedVariables false
namespace Garnish.Model.Lexer
open Garnish.Model Garnish.Model.Parser Garnish.Spec

/-- the characters that end a pending token here: space, tab, and the end-of-input sentinel -/
def Ender (x : Char) : Prop := x = ' ' ∨ x = '\t' ∨ x = '\x00'

/-- spaces, tabs (and, from `Sane`, NUL) are neither alphanumeric nor numeric -/
structure CharClass.SaneBlank (cc : CharClass) : Prop extends cc.Sane where
  spaceA : cc.isAlphanumeric ' ' = false
  tabA : cc.isAlphanumeric '\t' = false
  spaceN : cc.isNumeric ' ' = false
  tabN : cc.isNumeric '\t' = false

theorem ender_facts {cc : CharClass} (hcc : cc.SaneBlank) {x : Char} (hx : Ender x) :
    cc.isAlphanumeric x = false ∧ cc.isNumeric x = false ∧ x ≠ '_' ∧ x ≠ ':' ∧ x ≠ '.' ∧ x ≠ '`' ∧ x ≠ '@' ∧ x ≠ '"' ∧
    x ≠ '\'' ∧ x ≠ '\n' := by
  rcases hx with rfl | rfl | rfl
  · exact ⟨hcc.spaceA, hcc.spaceN, by decide, by decide, by decide, by decide, by decide, by decide, by decide, by decide⟩
  · exact ⟨hcc.tabA, hcc.tabN, by decide, by decide, by decide, by decide, by decide, by decide, by decide, by decide⟩
  · exact ⟨hcc.nulAlphanumeric, hcc.nulNumeric, by decide, by decide, by decide, by decide, by decide, by decide, by decide,
      by decide⟩

/-- no path of the operator tree contains a space, a tab or NUL -/
def pathsEnderFree : Bool :=
  (pathsFuel 4 theTree []).all fun pn => !pn.1.contains ' ' && !pn.1.contains '\t' && !pn.1.contains '\x00'

theorem pathsEnderFree_true : pathsEnderFree = true := by decide +kernel

theorem walk_ender_none (cs : List Char) (x : Char) (hx : Ender x) : walkOperator theTree (cs ++ [x]) = none := by
  cases hw : walkOperator theTree (cs ++ [x]) with
  | none => rfl
  | some n =>
    exfalso
    have hmem := walk_mem_paths (cs ++ [x]) 4 theTree n [] hw (walk_length_le _ n hw)
    have hc := pathsEnderFree_true
    unfold pathsEnderFree at hc
    rw [List.all_eq_true] at hc
    have := hc _ hmem
    simp only [List.nil_append, Bool.and_eq_true, Bool.not_eq_true', List.contains_eq_mem, decide_eq_false_iff_not] at this
    rcases hx with rfl | rfl | rfl
    · exact this.1.1 (by simp)
    · exact this.1.2 (by simp)
    · exact this.2 (by simp)

/-- what the Identifier arm leaves when the token ends: a symbol gets its type -/
def symFix (σ : Lexer) : Lexer :=
  if startsWith σ.currentCharacters ':' && σ.currentCharacters[1]? != some ':' then
    { σ with currentTokenType := some .symbol } else σ

/-- the lexer after the arm, when a space / tab / sentinel ends the pending token -/
def endOf (σ : Lexer) : Lexer := if σ.state = .identifier then symFix σ else σ

/-- states in which a blank and the sentinel end the pending token in the same way -/
def PlainState (s : LexingState) : Prop :=
  s = .number ∨ s = .float ∨ s = .identifier ∨ s = .annotation ∨ s = .operator

theorem stateStep_ender (cc : CharClass) (hcc : cc.SaneBlank) (σ : Lexer) (x : Char) (hx : Ender x)
    (hs : PlainState σ.state) (htr : σ.operatorTree = theTree) :
    stateStep cc σ x = .ok (.cont (endOf σ) none true) := by
  obtain ⟨hA, hN, h_, hcol, hdot, hbt, hat, _, _, _⟩ := ender_facts hcc hx
  have hx_ : (x == '_') = false := by simpa using h_
  have hxdot : (x == '.') = false := by simpa using hdot
  have hxbt : (x == '`') = false := by simpa using hbt
  have hxat : (x == '@') = false := by simpa using hat
  have hid : isIdentifierChar cc x = false := by
    have hxc : (x == ':') = false := by simpa using hcol
    simp [isIdentifierChar, hA, hx_, hxc]
  unfold stateStep endOf
  rcases hs with hs | hs | hs | hs | hs <;> rw [hs] <;> simp only [Step.ofPair, reduceCtorEq, ↓reduceIte]
  · simp [armNumber, hN, hx_, hA, hxdot]
  · simp [armFloat, hN, hx_, hA, hxdot]
  · simp only [armIdentifier, hid, hxbt, Bool.false_eq_true, ↓reduceIte, symFix]
  · simp [armAnnotation, hxat, hA, hx_]
  · have hw : walkOperator σ.operatorTree (σ.currentCharacters ++ [x]) = none := by
      rw [htr]; exact walk_ender_none _ x hx
    have hidl : isIdentifier cc (σ.currentCharacters ++ [x]) = false := by
      simp [isIdentifier, hid]
    simp [armOperator, currentOperator, push, hw, hidl, hN]

/-- `finishChar` when the arm ended a token that can be created -/
theorem finishChar_ok (cc : CharClass) (s : Lexer) (x : Char) (hnt : s.state ≠ .noToken) (ty : Gen.TokenType)
    (hcv : canCreateValidToken { s with canFloat := !blocksFloat s.currentTokenType } = .ok)
    (hty : s.currentTokenType = some ty) :
    finishChar cc s x none true =
      (bumpColumn (if s.shouldCreate then startToken cc (afterEmit s) x
                   else { afterEmit s with shouldCreate := true }) x,
       some ⟨s.currentCharacters, ty, s.tokenStartRow, s.tokenStartColumn⟩) := by
  have hne : (s.state != LexingState.noToken) = true := by simpa using hnt
  simp only [finishChar, ↓reduceIte, pushNewToken]
  simp only [hne, ↓reduceIte, hcv, LexResult.isOk]
  cases hty' : s.currentTokenType with
  | none => rw [hty'] at hty; cases hty
  | some ty' =>
    rw [hty'] at hty
    simp only [Option.some.injEq] at hty
    subst hty
    simp only [afterEmit, hty']

/-- … and when it cannot: an error is recorded and nothing is emitted -/
theorem finishChar_bad (cc : CharClass) (s : Lexer) (x : Char) (hnt : s.state ≠ .noToken)
    (h : canCreateValidToken { s with canFloat := !blocksFloat s.currentTokenType } = .err ∨ s.currentTokenType = none) :
    (finishChar cc s x none true).1.result = .err ∧ (finishChar cc s x none true).2 = none := by
  have hne : (s.state != LexingState.noToken) = true := by simpa using hnt
  simp only [finishChar, ↓reduceIte, pushNewToken, hne]
  cases hcv : canCreateValidToken { s with canFloat := !blocksFloat s.currentTokenType } with
  | err =>
    simp only [LexResult.isOk, Bool.false_eq_true, ↓reduceIte]
    constructor
    · split
      · simp only [bumpColumn_result]; exact startToken_result_err cc _ x rfl
      · simp
    · simp
  | ok =>
    rcases h with h | h
    · rw [hcv] at h; cases h
    · simp only [LexResult.isOk, ↓reduceIte, h]
      constructor <;> simp

theorem canCreate_atEnd (s : Lexer) (b : Bool) :
    canCreateValidToken { ({ s with atEnd := b } : Lexer) with canFloat := !blocksFloat s.currentTokenType } =
    canCreateValidToken { s with canFloat := !blocksFloat s.currentTokenType } := rfl

theorem bumpColumn_state' (σ : Lexer) (c : Char) : (bumpColumn σ c).state = σ.state := bumpColumn_state σ c

/-- the sentinel after an arm that ended a creatable token: the token is pushed, the lexer is done
(`sa` is the lexer with `at_end` set) -/
theorem finishChar_sentinel (cc : CharClass) (hcc : cc.Sane) (sa : Lexer) (hnt : sa.state ≠ .noToken) (ty : Gen.TokenType)
    (hcv : canCreateValidToken { sa with canFloat := !blocksFloat sa.currentTokenType } = .ok)
    (hty : sa.currentTokenType = some ty) (htr : sa.operatorTree = theTree) (hcr : sa.shouldCreate = true)
    (hat : sa.atEnd = true) :
    ∃ σ1, finishChar cc sa '\x00' none true =
        (σ1, some ⟨sa.currentCharacters, ty, sa.tokenStartRow, sa.tokenStartColumn⟩) ∧
      σ1.state = .noToken ∧ σ1.currentCharacters = [] ∧ σ1.result = .ok ∧ σ1.operatorTree = theTree := by
  refine ⟨_, finishChar_ok cc sa '\x00' hnt ty hcv hty, ?_⟩
  rw [if_pos hcr]
  simp only [bumpColumn_state, bumpColumn_chars, bumpColumn_result, bumpColumn_tree]
  have hn := startToken_nul_full cc hcc (afterEmit sa)
    (by simp only [afterEmit]; rw [htr]; exact operatorTree_TreeOk) (by simpa [afterEmit] using hat)
  have hfr := startToken_startFrame cc (afterEmit sa) '\x00'
  exact ⟨hn.1, hn.2.1, by rw [hn.2.2]; rfl, by rw [hfr.operatorTree]; simpa [afterEmit] using htr⟩

/-- a blank after an arm that ended a creatable token: the same token is pushed, the lexer is inside a Whitespace token -/
theorem finishChar_blank (cc : CharClass) (s : Lexer) (c : Char) (hc : IsBlank c) (hnt : s.state ≠ .noToken)
    (ty : Gen.TokenType) (hcv : canCreateValidToken { s with canFloat := !blocksFloat s.currentTokenType } = .ok)
    (hty : s.currentTokenType = some ty) (htr : s.operatorTree = theTree) (hcr : s.shouldCreate = true) :
    ∃ σ2, finishChar cc s c none true = (σ2, some ⟨s.currentCharacters, ty, s.tokenStartRow, s.tokenStartColumn⟩) ∧
      InWhitespace σ2 [c] ∧ σ2.operatorTree = theTree ∧ σ2.atEnd = s.atEnd := by
  refine ⟨_, finishChar_ok cc s c hnt ty hcv hty, ?_⟩
  rw [if_pos hcr]
  rw [startToken_blank cc (afterEmit s) c hc (by simpa [afterEmit] using htr)]
  rcases hc with rfl | rfl
  all_goals
    refine ⟨⟨⟨?_, ?_, ?_, ?_, ?_⟩, ?_⟩, ?_, ?_⟩ <;> simp [bumpColumn, afterEmit, hcr, htr]

/-- the sentinel when the lexer is between tokens: nothing is emitted, nothing is pending -/
theorem processChar_nul_done (cc : CharClass) (hcc : cc.Sane) (σa : Lexer) (hs : σa.state = .noToken)
    (hat : σa.atEnd = true) (htr : σa.operatorTree = theTree) (hok : σa.result = .ok) :
    ∃ σ1, processChar cc σa '\x00' = .ok (σ1, none) ∧ σ1.currentCharacters = [] ∧ σ1.result = .ok := by
  rw [processChar_noToken cc σa '\x00' hs]
  have hn := startToken_nul_full cc hcc { σa with charactersLexed := σa.charactersLexed + 1 }
    (by simp only []; rw [htr]; exact operatorTree_TreeOk) hat
  exact ⟨_, rfl, by rw [bumpColumn_chars]; exact hn.2.1, by rw [bumpColumn_result, hn.2.2]; exact hok⟩

/-- the end of the input when the lexer is between tokens and no error is recorded -/
theorem lexEnd_done (cc : CharClass) (hcc : cc.Sane) (fuel : Nat) (σ : Lexer) (toks : List LexerToken)
    (hs : σ.state = .noToken) (hok : σ.result = .ok) (htr : σ.operatorTree = theTree) :
    ∃ σ', lexEnd cc (fuel + 1) σ toks = .ok (toks, σ') := by
  obtain ⟨σ1, hp, h1, h2⟩ := processChar_nul_done cc hcc { σ with atEnd := true } hs rfl htr hok
  simp only [lexEnd, isErr_of_ok hok, Bool.false_eq_true, ↓reduceIte]
  rw [hp]
  simp only [h1, utf8Len, Nat.lt_irrefl, decide_false, Bool.false_and, Bool.false_eq_true, ↓reduceIte]
  exact ⟨σ1, by simp [lexFinish, h2]⟩

end Garnish.Model.Lexer
