/-
Operator fragment with trivia (stage 4): `value (trivia* binop trivia* value)*` where trivia = Whitespace, Annotation,
LineAnnotation tokens.  `parse_frag4`: whenever the model of `parse` accepts, the node array is a proper tree and that
tree is the reference tree (positions = positions in the token list WITH the trivia);
`parse_strip`: the result of `parse` does not change at all when the trivia is removed (C18 on this fragment).
-/
import Garnish.Lemmas.ParserFrag3
import Garnish.Lemmas.ParserTrivia

namespace Garnish.Spec
open Garnish Garnish.Gen Garnish.Model.Parser

/-- `trivia* binop trivia* value` -/
structure WItem where
  ws1 : List PToken
  op : PToken
  ws2 : List PToken
  atom : PToken

def WItem.dec (it : WItem) : List PToken := it.ws1 ++ it.op :: (it.ws2 ++ [it.atom])
def WItem.ok (it : WItem) : Prop :=
  (∀ w ∈ it.ws1, isTriviaTok w = true) ∧ isBinopTok it.op = true ∧ (∀ w ∈ it.ws2, isTriviaTok w = true) ∧
    isAtom10 it.atom = true

def flatDec : List WItem → List PToken
  | [] => []
  | it :: rest => it.dec ++ flatDec rest
def flatStrip : List WItem → List PToken
  | [] => []
  | it :: rest => it.op :: it.atom :: flatStrip rest

theorem flatDec_isEmpty (items : List WItem) : (flatDec items).isEmpty = (flatStrip items).isEmpty := by
  cases items with
  | nil => rfl
  | cons it rest =>
    simp only [flatDec, flatStrip, WItem.dec]
    cases it.ws1 <;> rfl

theorem isAtomTok_of_atom10 {a : PToken} (ha : isAtom10 a = true) : isAtomTok a = true := by
  obtain ⟨hs, hq⟩ := atom10_facts ha
  unfold isAtomTok
  simp only [Bool.and_eq_true, Bool.or_eq_true, beq_iff_eq]
  exact ⟨hs, by rw [hq]; rfl⟩

theorem prio10_valueLike {d : Definition} (h : priority d = some 10) : d.isValueLike = true := by
  revert h; cases d <;> decide

theorem composition_atom_binop (sp so : SecDef) (hp : sp = .value ∨ sp = .identifier)
    (ho : so = .binaryLeftToRight ∨ so = .binaryRightToLeft) : checkComposition sp so false = true := by
  rcases hp with rfl | rfl <;> rcases ho with rfl | rfl <;> rfl

theorem composition_binop_atom (so sa : SecDef) (ho : so = .binaryLeftToRight ∨ so = .binaryRightToLeft)
    (ha : sa = .value ∨ sa = .identifier) : checkComposition so sa false = true := by
  rcases ho with rfl | rfl <;> rcases ha with rfl | rfl <;> rfl

theorem binop_secdef {o : PToken} (ho : isBinopTok o = true) :
    (getDefinition o.type).2 = .binaryLeftToRight ∨ (getDefinition o.type).2 = .binaryRightToLeft := by
  unfold isBinopTok at ho; simpa [Bool.or_eq_true, beq_iff_eq] using ho

theorem fragInv_adjust {st : PState} {T : Tree} {rt : Nat} (hinv : FragInv st T rt) :
    adjustLastLeft st none = .ok st ∧ AtomOK st ∧ underGroupOf st = .ok none := by
  obtain ⟨nd, hb1, hb2⟩ := hinv.bottom
  have hat : AtomOK st := ⟨_, nd, hinv.lastLeft, hb1, prio10_valueLike hb2, (prio10_facts hb2).1⟩
  exact ⟨adjustLastLeft_atomOK hat none, hat, by simp [underGroupOf, hinv.cg]⟩

/-- one decorated item = the operator step followed by the value step -/
theorem item_loop_eq {st : PState} {T : Tree} {rt : Nat} (hinv : FragInv st T rt) (it : WItem) (hok : it.ok)
    (rest : List PToken) :
    loop st (it.dec ++ rest) =
      Outcome.bind (step st it.op false) fun st1 => Outcome.bind (step st1 it.atom rest.isEmpty) fun st2 => loop st2 rest := by
  obtain ⟨hw1, ho, hw2, ha⟩ := hok
  obtain ⟨hadj, hat, hug⟩ := fragInv_adjust hinv
  have hso := binop_secdef ho
  have hsa := (atom10_facts ha).1
  have e1 : it.dec ++ rest = it.ws1 ++ it.op :: (it.ws2 ++ it.atom :: rest) := by simp [WItem.dec]
  rw [e1, loop_trivia_then_binop it.op _ ho it.ws1 st hw1 hat hinv.nnl hug
    (by rw [hinv.cfl]; exact composition_atom_binop _ _ hinv.prev hso)]
  simp only [loop]
  have he : (it.ws2 ++ it.atom :: rest).isEmpty = false := by cases it.ws2 <;> rfl
  rw [he]
  cases h1 : step st it.op false with
  | err e => rfl
  | panic s => rfl
  | fuelOut => rfl
  | ok st1 =>
    simp only [Outcome.bind]
    obtain ⟨p1, p2, p3, p4⟩ := step_binop_post st st1 it.op false ho hinv.nnl h1
    obtain ⟨_, _, _, _, _, _, _, _, hcg1, _⟩ := step_binop_spec st st1 it.op ho hinv.nnl hinv.cg hadj h1
    rw [loop_trivia_then_atom it.atom rest (isAtomTok_of_atom10 ha) it.ws2 st1 hw2 p3 p1 p2
      (by simp [underGroupOf, hcg1]) (by rw [p4]; exact composition_binop_atom _ _ hso hsa)]
    rfl

/-! ### reference side -/

theorem ref_skip : ∀ (ws : List PToken) (f : Frame) (pos : Nat) (rest : List PToken), (∀ w ∈ ws, isTriviaTok w = true) →
    ∃ b, refLoop Table.gen f [] pos (ws ++ rest) = refLoop Table.gen { f with ws := b } [] (pos + ws.length) rest := by
  intro ws
  induction ws with
  | nil => intro f pos rest _; exact ⟨f.ws, rfl⟩
  | cons w ws ih =>
    intro f pos rest hws
    have hw := hws w (List.mem_cons_self ..)
    have hstep : ∃ b, refStep Table.gen f [] pos w (ws ++ rest) = .ok ({ f with ws := b }, []) := by
      unfold refStep
      have hgen : Table.gen.define = getDefinition := rfl
      rw [hgen]
      unfold isTriviaTok at hw
      simp only [Bool.or_eq_true, beq_iff_eq] at hw
      rcases hw with (h | h) | h <;> rw [h] <;> simp only [getDefinition]
      · exact ⟨true, rfl⟩
      · exact ⟨f.ws, rfl⟩
      · exact ⟨f.ws, rfl⟩
    obtain ⟨b, hb⟩ := hstep
    obtain ⟨b', hb'⟩ := ih { f with ws := b } (pos + 1) rest (fun x hx => hws x (List.mem_cons_of_mem _ hx))
    refine ⟨b', ?_⟩
    simp only [List.cons_append, List.length_cons]
    conv => lhs; unfold refLoop
    rw [hb]
    simp only [Outcome.bind]
    rw [hb']
    have : pos + 1 + ws.length = pos + (ws.length + 1) := by omega
    rw [this]

theorem ref_op_step (f : Frame) (pos q : Nat) (o : PToken) (rest : List PToken) (ho : isBinopTok o = true)
    (hq : priority (getDefinition o.type).1 = some q) (hl : f.last = .operand) :
    refStep Table.gen f [] pos o rest =
      .ok ({ f with cur := attach Table.gen q ((getDefinition o.type).2 == .binaryRightToLeft) (getDefinition o.type).1 pos f.cur,
                    last := .op, ws := false, prevSep := false }, []) := by
  have hso := binop_secdef ho
  have hgen : Table.gen.define = getDefinition := rfl
  have hpr : Table.gen.prio = priority := rfl
  unfold refStep
  rw [hgen]
  generalize getDefinition o.type = ds at hso hq ⊢
  obtain ⟨d, s⟩ := ds
  simp only at hso hq ⊢
  rcases hso with rfl | rfl <;> simp [hpr, hq, hl]

theorem ref_atom_step (g : Frame) (pos : Nat) (a : PToken) (rest : List PToken) (ha : isAtom10 a = true)
    (hg : g.last = .op) :
    refStep Table.gen g [] pos a rest =
      .ok ({ g with cur := plug g.cur (.node .nil (getDefinition a.type).1 pos .nil), last := .operand, ws := false,
                    prevSep := false }, []) := by
  obtain ⟨hsa, hqa⟩ := atom10_facts ha
  have hns := prio10_not_special hqa
  have hgen : Table.gen.define = getDefinition := rfl
  unfold refStep
  rw [hgen]
  generalize getDefinition a.type = ds at hsa hns ⊢
  obtain ⟨d, s⟩ := ds
  simp only at hsa hns ⊢
  rcases hsa with rfl | rfl <;> simp [hns, beforeOperand, hg, Outcome.bind]

theorem ref_item (f : Frame) (pos q : Nat) (it : WItem) (hok : it.ok) (rest : List PToken)
    (hq : priority (getDefinition it.op.type).1 = some q) (hl : f.last = .operand) :
    refLoop Table.gen f [] pos (it.dec ++ rest) =
      refLoop Table.gen
        { f with cur := plug (attach Table.gen q ((getDefinition it.op.type).2 == .binaryRightToLeft)
                          (getDefinition it.op.type).1 (pos + it.ws1.length) f.cur)
                        (.node .nil (getDefinition it.atom.type).1 (pos + it.ws1.length + 1 + it.ws2.length) .nil),
                 last := .operand, ws := false, prevSep := false } [] (pos + it.dec.length) rest := by
  obtain ⟨hw1, ho, hw2, ha⟩ := hok
  have e1 : it.dec ++ rest = it.ws1 ++ (it.op :: (it.ws2 ++ (it.atom :: rest))) := by simp [WItem.dec]
  rw [e1]
  obtain ⟨b1, hb1⟩ := ref_skip it.ws1 f pos (it.op :: (it.ws2 ++ (it.atom :: rest))) hw1
  rw [hb1]
  conv => lhs; unfold refLoop
  rw [ref_op_step { f with ws := b1 } _ q it.op _ ho hq hl]
  simp only [Outcome.bind]
  obtain ⟨b2, hb2⟩ := ref_skip it.ws2
    { f with cur := attach Table.gen q ((getDefinition it.op.type).2 == .binaryRightToLeft) (getDefinition it.op.type).1
                      (pos + it.ws1.length) f.cur, last := .op, ws := false, prevSep := false }
    (pos + it.ws1.length + 1) (it.atom :: rest) hw2
  rw [hb2]
  conv => lhs; unfold refLoop
  rw [ref_atom_step _ _ it.atom rest ha rfl]
  simp only [Outcome.bind]
  have hlen : pos + it.ws1.length + 1 + it.ws2.length + 1 = pos + it.dec.length := by
    simp [WItem.dec]; omega
  rw [hlen]

theorem numbered_append : ∀ (l1 l2 : List PToken) (k : Nat), NumberedFrom k (l1 ++ l2) →
    NumberedFrom (k + l1.length) l2
  | [], l2, k, h => by simpa using h
  | t :: l1, l2, k, h => by
    have := numbered_append l1 l2 (k + 1) h.2
    simp only [List.length_cons]
    have e : k + 1 + l1.length = k + (l1.length + 1) := by omega
    rw [← e]; exact this

/-! ### the two loops side by side -/

theorem frag_loop_items : ∀ (items : List WItem) (st stF : PState) (T : Tree) (rt : Nat) (f : Frame) (pos : Nat),
    FragInv st T rt → f.last = .operand → f.cur = toRd (dfOf st.nodes) T → (∀ it ∈ items, it.ok) →
    NumberedFrom pos (flatDec items) → loop st (flatDec items) = .ok stF →
    ∃ TF rtF, FragInv stF TF rtF ∧ refLoop Table.gen f [] pos (flatDec items) = .ok (toRd (dfOf stF.nodes) TF)
  | [], st, stF, T, rt, f, pos, hinv, hl, hc, _, _, hloop => by
    simp only [flatDec, loop] at hloop
    injection hloop with hloop; subst hloop
    refine ⟨T, rt, hinv, ?_⟩
    simp only [flatDec]
    unfold refLoop
    simp [hl, hc]
  | it :: items, st, stF, T, rt, f, pos, hinv, hl, hc, hoks, hnum, hloop => by
    have hok := hoks it (List.mem_cons_self ..)
    have ho := hok.2.1
    have ha := hok.2.2.2
    simp only [flatDec] at hloop hnum ⊢
    rw [item_loop_eq hinv it hok] at hloop
    obtain ⟨st1, h1, hloop⟩ := bind_ok hloop
    obtain ⟨st2, h2, hloop⟩ := bind_ok hloop
    obtain ⟨q, rt', hq, hinv2, hsz, hdefs, hdn, hdn1⟩ := pair_step hinv ho ha h1 h2
    rw [ref_item f pos q it hok _ hq hl]
    -- positions
    have hnum1 : NumberedFrom (pos + it.ws1.length) (it.op :: (it.ws2 ++ (it.atom :: flatDec items))) := by
      have e1 : it.dec ++ flatDec items = it.ws1 ++ (it.op :: (it.ws2 ++ (it.atom :: flatDec items))) := by simp [WItem.dec]
      rw [e1] at hnum
      exact numbered_append _ _ _ hnum
    have hco : it.op.col = pos + it.ws1.length := hnum1.1
    have hnum2 := numbered_append it.ws2 (it.atom :: flatDec items) _ hnum1.2
    have hca : it.atom.col = pos + it.ws1.length + 1 + it.ws2.length := hnum2.1
    have hnum' : NumberedFrom (pos + it.dec.length) (flatDec items) := numbered_append _ _ _ hnum
    have hin := hinv.inord
    have hdf : ∀ i ∈ T.inorder, dfOf st2.nodes i = dfOf st.nodes i := by
      intro i hi
      rw [hin] at hi
      have := hdefs i (List.mem_range.mp hi)
      simp only [dfOf, this]
    have hcur : plug (attach Table.gen q ((getDefinition it.op.type).2 == .binaryRightToLeft) (getDefinition it.op.type).1
            (pos + it.ws1.length) f.cur)
          (.node .nil (getDefinition it.atom.type).1 (pos + it.ws1.length + 1 + it.ws2.length) .nil) =
        toRd (dfOf st2.nodes) (insertI (prioAt st.nodes) q ((getDefinition it.op.type).2 == .binaryRightToLeft)
          st.nodes.size it.op.col it.atom.col T) := by
      rw [hco, hca]
      have := insertI_toRd (dfOf st2.nodes) (prioAt st.nodes) q ((getDefinition it.op.type).2 == .binaryRightToLeft)
        st.nodes.size (pos + it.ws1.length) (pos + it.ws1.length + 1 + it.ws2.length)
        (.node .nil (getDefinition it.atom.type).1 (pos + it.ws1.length + 1 + it.ws2.length) .nil)
        (by rw [hdn, hdn1]; exact leaf_rename _ _ _) T
        (by
          intro i hi
          rw [hdf i hi]
          rw [hin] at hi
          have hi' := List.mem_range.mp hi
          have hsome : ∃ nd, st.nodes[i]? = some nd := by
            cases hnd : st.nodes[i]? with
            | none => rw [Array.getElem?_eq_none_iff] at hnd; omega
            | some nd => exact ⟨nd, rfl⟩
          obtain ⟨nd, hnd⟩ := hsome
          obtain ⟨p, hp⟩ := hinv.prios i nd hnd
          show priority _ = _
          simp [dfOf, prioAt, hnd, hp])
      rw [hdn, toRd_congr _ _ T hdf] at this
      rw [hc]; exact this
    exact frag_loop_items items st2 stF _ rt' _ (pos + it.dec.length) hinv2 rfl hcur
      (fun x hx => hoks x (List.mem_cons_of_mem _ hx)) hnum' hloop

/-- the trivia of the items is invisible to the token loop (any outcome) -/
theorem strip_loop : ∀ (items : List WItem) (st : PState) (T : Tree) (rt : Nat), FragInv st T rt →
    (∀ it ∈ items, it.ok) → loop st (flatDec items) = loop st (flatStrip items)
  | [], _, _, _, _, _ => rfl
  | it :: items, st, T, rt, hinv, hoks => by
    have hok := hoks it (List.mem_cons_self ..)
    simp only [flatDec, flatStrip]
    rw [item_loop_eq hinv it hok]
    simp only [loop, List.isEmpty_cons]
    rw [flatDec_isEmpty]
    cases h1 : step st it.op false with
    | err e => rfl
    | panic s => rfl
    | fuelOut => rfl
    | ok st1 =>
      simp only [Outcome.bind]
      cases h2 : step st1 it.atom (flatStrip items).isEmpty with
      | err e => rfl
      | panic s => rfl
      | fuelOut => rfl
      | ok st2 =>
        simp only []
        obtain ⟨q, rt', _, hinv2, _⟩ := pair_step hinv hok.2.1 hok.2.2.2 h1 h2
        exact strip_loop items st2 _ rt' hinv2 (fun x hx => hoks x (List.mem_cons_of_mem _ hx))

end Garnish.Spec
