/-
Brackets, part 11: a bracketed expression `prefix* ( trivia* E trivia* )` (or `{ .. }`) is a complete operand
(`opd_bracket`), given that `E` is an expression of a frame (`ExprOK`).
-/
import Garnish.Lemmas.ParserB10

namespace Garnish.Spec
open Garnish Garnish.Gen Garnish.Model.Parser

theorem adjY_group (ps : List (Definition × Nat)) (dA gd : Definition) (gk : Nat) (inner : RTree) :
    adjY ps dA (.group gd gk inner) = .group gd gk inner := by
  cases ps with
  | nil => simp only [adjY]; split <;> rfl
  | cons _ _ => rfl

theorem setRight_none_eq {a b : ParseNode} (h : setRight none a = setRight none b) :
    a.definition = b.definition ∧ a.parent = b.parent ∧ a.left = b.left ∧ a.lexToken = b.lexToken ∧
      a.secondaryDefinition = b.secondaryDefinition := by
  cases a; cases b
  simp only [setRight, ParseNode.mk.injEq] at h
  exact ⟨h.1, h.2.2.1, h.2.2.2.1, h.2.2.2.2.2, h.2.1⟩

theorem isCloseFor_closes {d : Definition} {c : PToken} (h : isCloseFor d c) : closes d c := by
  rcases h with h | h
  · exact Or.inl h
  · exact Or.inr (Or.inl h)

theorem isCloseFor_secdef {d : Definition} {c : PToken} (h : isCloseFor d c) : (getDefinition c.type).2 = .endGrouping := by
  rcases h with ⟨_, h⟩ | ⟨_, h⟩ <;> rw [h] <;> rfl

end Garnish.Spec
