/-
Brackets, part 11: a bracketed expression `prefix* ( trivia* E trivia* )` (or `{ .. }`) is a complete operand
(`opd_bracket`), given that `E` is an expression of a frame (`ExprOK`).
-/
import Garnish.Lemmas.ParserB10

namespace Garnish.Spec
open Garnish Garnish.Gen Garnish.Model.Parser

theorem adjY_group (ps : List (Definition × Nat)) (dA gd : Definition) (gk : Nat) (inner : RTree) :
    adjY ps dA (.group gd gk inner) = .group gd gk inner := by
  cases ps with
  | nil => simp only [adjY]; split <;> rfl
  | cons _ _ => rfl

theorem setRight_none_eq {a b : ParseNode} (h : setRight none a = setRight none b) :
    a.definition = b.definition ∧ a.parent = b.parent ∧ a.left = b.left ∧ a.lexToken = b.lexToken := by
  cases a; cases b
  simp only [setRight, ParseNode.mk.injEq] at h
  exact ⟨h.1, h.2.2.1, h.2.2.2.1, h.2.2.2.2.2⟩

theorem isCloseFor_closes {d : Definition} {c : PToken} (h : isCloseFor d c) : closes d c := by
  rcases h with h | h
  · exact Or.inl h
  · exact Or.inr (Or.inl h)

theorem isCloseFor_secdef {d : Definition} {c : PToken} (h : isCloseFor d c) : (getDefinition c.type).2 = .endGrouping := by
  rcases h with ⟨_, h⟩ | ⟨_, h⟩ <;> rw [h] <;> rfl

/-- `prefix* ( trivia* E trivia* )` is a complete operand -/
theorem opd_bracket {inner : List PToken} {ls : Bool} (hin : ExprOK inner ls) (pre : List PToken) (o c : PToken)
    (wsA wsB : List PToken) (hpre : ∀ p ∈ pre, isPrefixTok p = true) (ho : isOpenTok o = true)
    (hc : isCloseFor (getDefinition o.type).1 c) (hwA : ∀ w ∈ wsA, isTriviaTok w = true)
    (hwB : ∀ w ∈ wsB, isTriviaTok w = true) (hne : inner ≠ []) :
    OpdOK (pre ++ (o :: (wsA ++ (inner ++ (wsB ++ [c]))))) := by
  intro st1 ug hO hprios hcg pos hnum rest
  obtain ⟨hsO, hdO⟩ := open_def_facts ho
  have hbrO : isBracketDef (getDefinition o.type).1 = true := by rcases hdO with h | h <;> rw [h] <;> rfl
  have hfO := bracket_facts hbrO
  -- positions
  have hnumO := numbered_append pre _ pos hnum
  have hocol : o.col = pos + pre.length := hnumO.1
  have hnumA := numbered_append wsA _ _ hnumO.2
  have hnumI := numbered_prefix inner _ _ hnumA
  -- prefix operators
  have hO1 := pushP_openB pre st1 ug hO hpre
  have hsz1 := pushP_size pre st1
  obtain ⟨hgs1, hcg1⟩ := pushP_fields pre st1
  -- the opening bracket
  have hOO := hO1.stepO o ho
  have hgO : (stepO (pushP st1 pre) o).nodes[(pushP st1 pre).nodes.size]? =
      some ⟨(getDefinition o.type).1, .startGrouping, (pushP st1 pre).nextParent, none,
        some ((pushP st1 pre).nodes.size + 1), o⟩ := by simp [stepO]
  -- trivia
  obtain ⟨sO', hloopA, hOO', hnO', hnpO', hllO', hgsO', hcgO'⟩ :=
    trivia_runB wsA (stepO (pushP st1 pre) o) (some (pushP st1 pre).nodes.size) (inner ++ (wsB ++ [c]) ++ rest) hOO
      (by simp [stepO]) hwA (by simp [hne])
  have hfs : FrameStart sO' (some (pushP st1 pre).nodes.size) (some (pushP st1 pre).nodes.size)
      ((pushP st1 pre).nodes.size + 1) := by
    refine .bracket _ _ 20 (by rw [hnO']; simp [stepO]) (by rw [hnpO']; rfl) (by rw [hnO']; exact hgO) hfO.2.1 hfO.1 rfl
  have hpriosO : AllPrio sO'.nodes := by
    rw [hnO']
    intro i nd hi
    simp only [stepO, Array.getElem?_push] at hi
    split at hi
    · injection hi with hi; subst hi; exact ⟨20, hfO.1⟩
    · exact pushP_allPrio pre st1 hprios hpre i nd hi
  have hcgO : CGOK sO' := by
    unfold CGOK
    rw [hcgO', hgsO']
    simp [stepO]
  -- the inner expression
  obtain ⟨stE, E, re, cbE, hloopE, hinvE, hgsE, hcgE, ho1E, ho2E, hrdE, hrefE⟩ :=
    hin sO' _ _ _ hOO' hfs hpriosO hcgO _ hnumI ((wsB ++ [c]) ++ rest)
  obtain ⟨stE', hloopB, hinvE', hnE', hgsE', hcgE'⟩ := trivia_runU wsB stE ([c] ++ rest) hinvE hwB
  -- the bracket node now
  have hgE : ∃ G', stE.nodes[(pushP st1 pre).nodes.size]? = some G' ∧ G'.right = some re ∧
      G'.definition = (getDefinition o.type).1 ∧ G'.parent = (pushP st1 pre).nextParent ∧ G'.left = none ∧
      G'.lexToken = o := by
    cases hfr : hinvE.n.frame with
    | bracket g re' G' pg hG' _ _ hGr =>
      refine ⟨G', hG', hGr, ?_⟩
      have := ho2E (pushP st1 pre).nodes.size (by omega)
      rw [hG', hnO', hgO] at this
      simp only [Option.map_some, Option.some.injEq] at this
      obtain ⟨e1, e2, e3, e4⟩ := setRight_none_eq this
      exact ⟨e1, e2, e3, e4⟩
  obtain ⟨G', hG', hGr', hGd', hGp', hGl', hGt'⟩ := hgE
  have hback : stE'.groupStack.back? = some ((pushP st1 pre).nodes.size, false) := by
    rw [hgsE', hgsE, hgsO']
    simp [stepO]
  have hclose := step_closeU hinvE' G' (by rw [hnE']; exact hG') false hback c
    (by rw [hGd']; exact isCloseFor_closes hc) rest.isEmpty
  -- facts about the final array
  have hsE : (pushP st1 pre).nodes.size + 1 < stE.nodes.size := hinvE.n.pos
  have hagree : ∀ j, j < (pushP st1 pre).nodes.size → stE.nodes[j]? = (pushP st1 pre).nodes[j]? := by
    intro j hj
    rw [ho1E j (by omega), hnO']
    simp only [stepO, Array.getElem?_push]
    rw [if_neg (by omega)]
  let X : Tree := .node .nil (pushP st1 pre).nodes.size o.col E
  have hXtree : IsTreeAt stE.nodes (pushP st1 pre).nextParent (some (pushP st1 pre).nodes.size) X := by
    refine isTreeAt_node G' hG' hGp' (by rw [hGl']; exact .nil _) ?_ (by simp [tokPos, hGt'])
    rw [hGr']
    exact hinvE.n.tree
  have htree := chainR_isTreeAt pre st1 stE.nodes X hagree hXtree
  have hpdef : ∀ (i : Nat) (h : i < pre.length),
      dfOf stE.nodes (st1.nodes.size + i) = (getDefinition (pre[i]).type).1 := by
    intro i h
    simp only [dfOf, hagree _ (show st1.nodes.size + i < (pushP st1 pre).nodes.size by omega), pushP_def pre st1 i h,
      Option.getD_some]
  have hgdef : dfOf stE.nodes (pushP st1 pre).nodes.size = (getDefinition o.type).1 := by simp [dfOf, hG', hGd']
  have hleaves := leavesP_facts pre pos hpre
  have hcols : (leavesP pre pos).map (·.2) = pre.map (·.col) := leavesP_cols pre pos _ hnum
  have hstE'nodes : (stepC stE' (pushP st1 pre).nodes.size false c).nodes = stE.nodes := hnE'
  refine ⟨stepC stE' (pushP st1 pre).nodes.size false c, chainR st1.nodes.size (pre.map (·.col)) X,
    (pushP st1 pre).nodes.size,
    fun R => plug (plugLeaves R (leavesP pre pos))
      (.group (getDefinition o.type).1 (pos + pre.length) (toRG (dfOf stE.nodes) E)), ?_, ?_, ?_, ?_⟩
  · -- the loop
    have e1 : pre ++ (o :: (wsA ++ (inner ++ (wsB ++ [c])))) ++ rest =
        pre ++ ((o :: (wsA ++ (inner ++ (wsB ++ [c])))) ++ rest) := by simp
    rw [e1, prefix_runB pre st1 ug _ hO hpre (by simp)]
    simp only [List.cons_append, loop]
    have he' : (wsA ++ (inner ++ (wsB ++ [c])) ++ rest).isEmpty = false := by
      cases wsA <;> cases inner <;> simp_all
    rw [he', step_openB (pushP st1 pre) ug o ho hO1]
    simp only [Outcome.bind]
    have e2 : wsA ++ (inner ++ (wsB ++ [c])) ++ rest = wsA ++ (inner ++ (wsB ++ [c]) ++ rest) := by simp
    have e3 : inner ++ (wsB ++ [c]) ++ rest = inner ++ ((wsB ++ [c]) ++ rest) := by simp
    have e4 : (wsB ++ [c]) ++ rest = wsB ++ ([c] ++ rest) := by simp
    rw [e2, hloopA, e3, hloopE, e4, hloopB]
    simp only [List.cons_append, List.nil_append, loop, hclose, Outcome.bind]
  · -- the operand
    refine ⟨?_, ?_, ?_, ?_, hinvE'.nnl, ?_, ?_, ?_, ?_, ?_, ?_,
      ⟨_, G', rfl, by rw [hstE'nodes]; exact hG', Or.inr (by rw [hGd']; exact hbrO)⟩⟩
    · intro j hj
      rw [hstE'nodes, hagree j (by omega), pushP_below pre st1 j hj]
    · rw [hstE'nodes]; omega
    · rw [hstE'nodes]; exact htree
    · rw [hstE'nodes, chainR_inorder, List.length_map]
      simp only [X, Tree.inorder, List.nil_append]
      rw [hinvE.n.inord, hsz1]
      have e : stE.nodes.size - st1.nodes.size =
          pre.length + ((stE.nodes.size - (st1.nodes.size + pre.length + 1)) + 1) := by omega
      rw [e, ← List.range'_append_1, List.range'_succ]
    · show stE'.groupStack.pop = st1.groupStack
      rw [hgsE', hgsE, hgsO']
      simp [stepO, hgs1]
    · show (if stE'.groupStack.pop.isEmpty then none else some (stE'.groupStack.pop.size - 1)) = st1.currentGroup
      have : stE'.groupStack.pop = st1.groupStack := by
        rw [hgsE', hgsE, hgsO']
        simp [stepO, hgs1]
      rw [this]
      exact hcg.symm
    · have hb : Bot (stepC stE' (pushP st1 pre).nodes.size false c) (chainR st1.nodes.size (pre.map (·.col)) X)
          (pushP st1 pre).nodes.size := by
        refine .closed _ G' ?_ rfl (by rw [hstE'nodes]; exact hG') (by rw [hGd']; exact hbrO) ?_
        · rw [hstE'nodes]; omega
        · exact onSpine_chainR _ _ _ X (Or.inl rfl)
      exact hb
    · rw [hstE'nodes]
      apply spineG_chainR _ _ _ _ _ (by intro i hi; rw [List.length_map] at hi; rw [hpdef i hi]
                                        have hi' : i < (leavesP pre pos).length := by rw [leavesP_length]; exact hi
                                        have := hleaves _ (List.getElem_mem hi')
                                        rw [leavesP_get] at this
                                        exact this.2.2)
        (by rw [List.length_map, hsz1]; omega)
      simp only [X, SpineG, if_true, hgdef]
      exact hbrO
    · rw [hstE'nodes]; exact hinvE.n.prios
    · exact Or.inr (Or.inr (isCloseFor_secdef hc))
  · -- the reference tree of the operand
    rw [hstE'nodes]
    apply plugFn_of _ _ _ _ _ (fun p hp => ⟨(hleaves p hp).1, (hleaves p hp).2.1⟩)
    · rw [adjY_group, ← hcols, toRG_chainR (dfOf stE.nodes) (leavesP pre pos) st1.nodes.size X
        (by intro i h
            rw [leavesP_get pre pos i h]
            exact hpdef i (by rw [leavesP_length] at h; exact h))
        (fun p hp => (hleaves p hp).2.2)]
      congr 1
      simp only [X, toRG, hgdef, hbrO, if_true, hocol]
    · intro _; exact adjY_group _ _ _ _ _
  · -- the reference parser
    intro f stack restR hf
    have e1 : pre ++ (o :: (wsA ++ (inner ++ (wsB ++ [c])))) ++ restR =
        pre ++ (o :: (wsA ++ (inner ++ (wsB ++ ([c] ++ restR))))) := by simp
    obtain ⟨b, b2, l, hl, h⟩ := ref_prefix_runK pre f stack pos (o :: (wsA ++ (inner ++ (wsB ++ ([c] ++ restR))))) hpre hf
    rw [e1, h]
    conv => lhs; unfold refLoop
    rw [ref_open_stepK _ stack _ o _ ho hl]
    simp only [Outcome.bind]
    obtain ⟨bA, hbA⟩ := ref_skipK wsA
      { ctx := some ((getDefinition o.type).1, pos + pre.length), cur := .nil, last := .start, ws := false,
        prevSep := (getDefinition o.type).1 == .nestedExpression }
      ({ f with cur := plugLeaves f.cur (leavesP pre pos), last := l, ws := false, prevSep := b2 } :: stack)
      (pos + pre.length + 1) (inner ++ (wsB ++ ([c] ++ restR))) hwA
    rw [hbA, hrefE _ _ (wsB ++ ([c] ++ restR)) rfl rfl]
    obtain ⟨bB, hbB⟩ := ref_skipK wsB
      { ctx := some ((getDefinition o.type).1, pos + pre.length), cur := toRG (dfOf stE.nodes) E,
        last := if ls then .suffix else .operand, ws := false, prevSep := false }
      ({ f with cur := plugLeaves f.cur (leavesP pre pos), last := l, ws := false, prevSep := b2 } :: stack)
      (pos + pre.length + 1 + wsA.length + inner.length) ([c] ++ restR) hwB
    rw [hbB]
    conv => lhs; unfold refLoop
    simp only [List.cons_append, List.nil_append]
    rw [ref_close_stepK _ _ stack _ c restR (getDefinition o.type).1 (pos + pre.length) rfl hc (by cases ls <;> simp)]
    simp only [Outcome.bind]
    have hlen : pos + pre.length + 1 + wsA.length + inner.length + wsB.length + 1 =
        pos + (pre ++ (o :: (wsA ++ (inner ++ (wsB ++ [c]))))).length := by
      simp only [List.length_append, List.length_cons, List.length_nil]; omega
    rw [hlen]

end Garnish.Spec
