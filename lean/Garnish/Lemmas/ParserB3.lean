/-
Brackets, part 3: the open operand position with an arbitrary `under_group` (`OpenB`): prefix-operator runs, the value that
closes an operand, trivia, and the opening bracket `(` / `{` — the analogues of the ParserPrefix lemmas, which are stated
for `current_group = None`.  `OpenB` is closed under trivia tokens, so no separate "trivia then X" lemmas are needed.
-/
import Garnish.Lemmas.ParserB2

namespace Garnish.Spec
open Garnish Garnish.Gen Garnish.Model.Parser

/-- definition of the last node (`Drop` if there is none) -/
def aboveDef (st : PState) : Definition := ((st.nodes[st.nodes.size - 1]?).map (·.definition)).getD .drop

/-- open operand position: like `OpenInv`, with `under_group = ug`; the node on top may be the open bracket itself -/
structure OpenB (st : PState) (ug : Option Nat) : Prop where
  cfl : st.checkForList = false
  nnl : st.nextLastLeft = none
  hug : underGroupOf st = .ok ug
  link : st.nextParent = st.lastLeft
  adj : adjustLastLeft st ug = .ok st
  top : (st.lastLeft = none ∧ st.nodes = #[]) ∨
    (∃ nd q, 0 < st.nodes.size ∧ st.lastLeft = some (st.nodes.size - 1) ∧ st.nodes[st.nodes.size - 1]? = some nd ∧
      priority nd.definition = some q ∧ nd.right = some st.nodes.size ∧ nd.definition.isValueLike = false ∧
      ((10 < q ∧ nd.definition.isGroupLike = false) ∨
        (nd.definition.isGroupLike = true ∧ ug = some (st.nodes.size - 1))))
  prev : st.previousSecondDef = .none ∨ st.previousSecondDef = .binaryLeftToRight ∨
    st.previousSecondDef = .binaryRightToLeft ∨ st.previousSecondDef = .unaryPrefix ∨
    st.previousSecondDef = .startGrouping ∨ st.previousSecondDef = .startSideEffect ∨
    st.previousSecondDef = .whitespace ∨ st.previousSecondDef = .annotation ∨
    st.previousSecondDef = .optionalBinaryLeftToRight ∨ st.previousSecondDef = .subexpression

theorem OpenB.comp_prefix {st : PState} {ug : Option Nat} (h : OpenB st ug) :
    checkComposition st.previousSecondDef .unaryPrefix false = true := by
  rcases h.prev with h | h | h | h | h | h | h | h | h | h <;> rw [h] <;> rfl

theorem OpenB.comp_open {st : PState} {ug : Option Nat} (h : OpenB st ug) :
    checkComposition st.previousSecondDef .startGrouping false = true := by
  rcases h.prev with h | h | h | h | h | h | h | h | h | h <;> rw [h] <;> rfl

theorem OpenB.comp_atom {st : PState} {ug : Option Nat} (h : OpenB st ug) (s : SecDef) (hs : s = .value ∨ s = .identifier) :
    checkComposition st.previousSecondDef s false = true := by
  rcases h.prev with h | h | h | h | h | h | h | h | h | h <;> rw [h] <;> rcases hs with rfl | rfl <;> rfl

theorem OpenB.stepP {st : PState} {ug : Option Nat} (h : OpenB st ug) (p : PToken) (hp : isPrefixTok p = true) :
    OpenB (stepP st p) ug := by
  have hs : (getDefinition p.type).2 = .unaryPrefix := by unfold isPrefixTok at hp; simpa using hp
  obtain ⟨q, hq, hq10, _, _, _, f3, f4⟩ := prefix_def_facts p.type hs
  have hn : (Garnish.Spec.stepP st p).nodes[st.nodes.size]? =
      some ⟨(getDefinition p.type).1, .unaryPrefix, st.nextParent, none, some (st.nodes.size + 1), p⟩ := by
    simp [Garnish.Spec.stepP]
  refine ⟨h.cfl, h.nnl, h.hug, rfl, ?_, Or.inr ?_, Or.inr (Or.inr (Or.inr (Or.inl rfl)))⟩
  · unfold adjustLastLeft
    have hl : (Garnish.Spec.stepP st p).lastLeft = some st.nodes.size := rfl
    simp [hl, hn, not_sideEffect_of_not_groupLike f4]
  · refine ⟨⟨(getDefinition p.type).1, .unaryPrefix, st.nextParent, none, some (st.nodes.size + 1), p⟩, q, ?_, ?_, ?_, hq,
      ?_, f3, Or.inl ⟨hq10, f4⟩⟩
    · simp [Garnish.Spec.stepP]
    · simp [Garnish.Spec.stepP]
    · simp [Garnish.Spec.stepP]
    · simp [Garnish.Spec.stepP]

theorem pushP_openB : ∀ (ps : List PToken) (st : PState) (ug : Option Nat), OpenB st ug →
    (∀ p ∈ ps, isPrefixTok p = true) → OpenB (pushP st ps) ug
  | [], _, _, h, _ => h
  | p :: ps, st, ug, h, hps =>
    pushP_openB ps _ ug (h.stepP p (hps p (List.mem_cons_self ..))) (fun x hx => hps x (List.mem_cons_of_mem _ hx))

theorem prefix_runB : ∀ (ps : List PToken) (st : PState) (ug : Option Nat) (rest : List PToken), OpenB st ug →
    (∀ p ∈ ps, isPrefixTok p = true) → rest ≠ [] → loop st (ps ++ rest) = loop (pushP st ps) rest
  | [], _, _, _, _, _, _ => rfl
  | p :: ps, st, ug, rest, h, hps, hne => by
    have hp := hps p (List.mem_cons_self ..)
    simp only [List.cons_append, loop, pushP]
    have he : (ps ++ rest).isEmpty = false := by cases ps <;> cases rest <;> simp_all
    rw [he, step_prefix_eqG st p hp h.cfl h.nnl h.hug h.adj h.comp_prefix]
    simp only [Outcome.bind]
    exact prefix_runB ps _ ug rest (h.stepP p hp) (fun x hx => hps x (List.mem_cons_of_mem _ hx)) hne

theorem pushP_fields : ∀ (ps : List PToken) (st : PState),
    (pushP st ps).groupStack = st.groupStack ∧ (pushP st ps).currentGroup = st.currentGroup
  | [], _ => ⟨rfl, rfl⟩
  | p :: ps, st => pushP_fields ps (stepP st p)

/-! ### the value token that closes an operand -/

/-- the walk of a value (priority 10) stops at the node it starts from: an operator (priority > 10) or the open bracket -/
theorem walk_top_stop {nodes : Array ParseNode} {ug : Option Nat} {m qo : Nat} {on : ParseNode} (rtl : Bool)
    (hm : nodes[m]? = some on) (hqo : priority on.definition = some qo)
    (hst : 10 < qo ∨ (on.definition.isGroupLike = true ∧ ug = some m)) :
    walkLoop nodes 10 ug rtl (nodes.size + 1) 0 (some m) (some m) = .ok (some m, some m) := by
  unfold walkLoop
  rcases hst with hlt | ⟨hg, hu⟩
  · simp [hm, hqo, hlt]
  · subst hu; simp [hm, hqo, hg]

/-- a value directly after the node `m` (whose `right` already points to the value's id) -/
theorem parseToken_atomW {ug : Option Nat} {m : Nat} {d : Definition} {right : Option Nat} {nodes : Array ParseNode}
    {rtl : Bool} {on : ParseNode} (hq : priority d = some 10) (hm : nodes[m]? = some on)
    (hw : walkLoop nodes 10 ug rtl (nodes.size + 1) 0 (some m) (some m) = .ok (some m, some m))
    (hor : on.right = some nodes.size) :
    parseToken nodes.size d (some m) right nodes ug rtl = .ok (nodes, ⟨d, some m, none, right⟩) := by
  have hms : m < nodes.size := (Array.getElem?_eq_some_iff.mp hm).1
  obtain ⟨n2, h2⟩ := modifyNode?_isSome (fun p => { p with right := some nodes.size }) hms
  have s2 := modifyNode?_size h2
  have g2 := modifyNode?_get h2
  have hn2 : n2 = nodes := by
    apply Array.ext_getElem?
    intro j
    rw [g2 j]
    by_cases hj : j = m
    · subst hj
      simp only [if_true, hm, Option.map_some]
      congr 1
      cases on
      simp_all
    · simp [hj]
  unfold parseToken
  rw [hq]
  simp only [hw, Outcome.bind, beq_self_eq_true, if_true, hm, h2, hor]
  rw [modifyNode?_none (by omega), hn2]

/-- the very first token is a value -/
theorem parseToken_atom_empty {ug : Option Nat} {d : Definition} {right : Option Nat} {rtl : Bool}
    (hq : priority d = some 10) :
    parseToken 0 d none right #[] ug rtl = .ok (#[], ⟨d, none, none, right⟩) := by
  unfold parseToken
  rw [hq]
  unfold walkLoop
  simp [Outcome.bind]

/-- the value token that closes an operand (general `under_group`; also as the very first token) -/
theorem value_stepB (st : PState) (ug : Option Nat) (a : PToken) (il : Bool) (h : OpenB st ug) (ha : isAtom10 a = true) :
    ∃ st2, step st a il = .ok st2 ∧
      st2.nodes = st.nodes.push ⟨underDef (aboveDef st) (getDefinition a.type).1, (getDefinition a.type).2, st.lastLeft,
        none, none, a⟩ ∧
      st2.lastLeft = some st.nodes.size ∧ st2.checkForList = false ∧ st2.nextLastLeft = none ∧
      st2.groupStack = st.groupStack ∧ st2.currentGroup = st.currentGroup ∧
      (st2.previousSecondDef = .value ∨ st2.previousSecondDef = .identifier) := by
  obtain ⟨hsa, hqa⟩ := atom10_facts ha
  obtain ⟨_, a2, _⟩ := prio10_facts hqa
  have hpt : parseToken st.nodes.size (getDefinition a.type).1 st.lastLeft none st.nodes ug false =
      .ok (st.nodes, ⟨(getDefinition a.type).1, st.lastLeft, none, none⟩) := by
    rcases h.top with ⟨h1, h2⟩ | ⟨nd, q, _, hl, hnd, hq, hr, _, hst⟩
    · rw [h1, h2]; exact parseToken_atom_empty hqa
    · rw [hl]
      exact parseToken_atomW hqa hnd (walk_top_stop false hnd hq (hst.imp (·.1) id)) hr
  obtain ⟨st2, h2⟩ := step_atom_okG st a il hsa h.cfl h.hug h.adj (h.comp_atom _ hsa) ⟨_, _, hpt⟩
  obtain ⟨nodes'', info2, hpt2, hn2, hl2, hc2, hnl2, hgs2, hcg2, hp2⟩ :=
    step_atom_specG st st2 a il hsa a2 h.cfl h.nnl h.hug h.adj h2
  rw [hpt] at hpt2
  injection hpt2 with hpt2; injection hpt2 with e1 e2; subst e1; subst e2
  have hrd : renameDef (getDefinition a.type).1 st.lastLeft st.nodes = underDef (aboveDef st) (getDefinition a.type).1 := by
    unfold renameDef underDef aboveDef
    rcases h.top with ⟨h1, h2⟩ | ⟨nd, q, _, hl, hnd, _⟩
    · rw [h1, h2]; cases (getDefinition a.type).1 <;> simp
    · rw [hl]; cases (getDefinition a.type).1 <;> simp [hnd]
  refine ⟨st2, h2, ?_, hl2, hc2, hnl2, hgs2, hcg2, by rw [hp2]; exact hsa⟩
  rw [hn2, hrd]

theorem OpenB.lastLeft_eq {st : PState} {ug : Option Nat} (h : OpenB st ug) (hpos : 0 < st.nodes.size) :
    st.lastLeft = some (st.nodes.size - 1) := by
  rcases h.top with ⟨_, h2⟩ | ⟨nd, q, _, hl, _⟩
  · rw [h2] at hpos; simp at hpos
  · exact hl

/-! ### prefix chains over an arbitrary primary -/

/-- the operand `prefix* X` as an index tree: prefix nodes `m, m+1, ..`, each the right child of the previous one, then `X` -/
def chainR : Nat → List Nat → Tree → Tree
  | _, [], X => X
  | m, kp :: rest, X => .node .nil m kp (chainR (m + 1) rest X)

theorem chainR_inorder : ∀ (ks : List Nat) (m : Nat) (X : Tree),
    (chainR m ks X).inorder = List.range' m ks.length ++ X.inorder
  | [], m, X => by simp [chainR]
  | k :: ks, m, X => by
    simp only [chainR, Tree.inorder, List.nil_append, chainR_inorder ks (m + 1) X, List.length_cons]
    simp [List.range'_succ]

theorem chainR_isTreeAt : ∀ (ps : List PToken) (st : PState) (arr : Array ParseNode) (X : Tree),
    (∀ j, j < (pushP st ps).nodes.size → arr[j]? = (pushP st ps).nodes[j]?) →
    IsTreeAt arr (pushP st ps).nextParent (some (pushP st ps).nodes.size) X →
    IsTreeAt arr st.nextParent (some st.nodes.size) (chainR st.nodes.size (ps.map (·.col)) X)
  | [], st, arr, X, _, hX => by simpa [pushP, chainR] using hX
  | p :: ps, st, arr, X, hagree, hX => by
    simp only [pushP] at hagree hX
    have ih := chainR_isTreeAt ps (stepP st p) arr X hagree hX
    simp only [List.map_cons, chainR]
    have hnode : arr[st.nodes.size]? =
        some ⟨(getDefinition p.type).1, .unaryPrefix, st.nextParent, none, some (st.nodes.size + 1), p⟩ := by
      rw [hagree st.nodes.size (by rw [pushP_size]; simp [stepP]; omega),
        pushP_below ps _ st.nodes.size (by simp [stepP])]
      simp [stepP]
    refine isTreeAt_node _ hnode rfl (.nil _) ?_ rfl
    have e1 : (stepP st p).nextParent = some st.nodes.size := rfl
    have e2 : (stepP st p).nodes.size = st.nodes.size + 1 := by simp [stepP]
    rw [e1, e2] at ih
    exact ih

/-! ### trivia in an open operand position -/

/-- a trivia token in an open operand position (not at the very start): only `previous_second_def` and `last_token` change -/
theorem step_triviaB (st : PState) (ug : Option Nat) (w : PToken) (il : Bool) (hw : isTriviaTok w = true)
    (h : OpenB st ug) (hpos : 0 < st.nodes.size) :
    step st w il = .ok { st with previousSecondDef := (getDefinition w.type).2, lastToken := w } := by
  have hadj := h.adj
  have hug := h.hug
  have hnl := h.nnl
  rcases h.top with ⟨_, h2⟩ | ⟨n, q, _, hl, hn, _, _, hv, hst⟩
  · rw [h2] at hpos; simp at hpos
  unfold step
  simp only [hug, Outcome.bind, hadj]
  unfold isTriviaTok at hw
  have hcases : w.type = .whitespace ∨ w.type = .annotation ∨ w.type = .lineAnnotation := by
    simp only [Bool.or_eq_true, beq_iff_eq] at hw
    rcases hw with (h | h) | h
    · exact Or.inl h
    · exact Or.inr (Or.inl h)
    · exact Or.inr (Or.inr h)
  rcases hcases with h | h | h
  · rw [h]
    have hgv : (n.definition.isGroupLike && some (st.nodes.size - 1) != ug) = false := by
      rcases hst with ⟨_, hg⟩ | ⟨_, hg⟩
      · simp [hg]
      · simp [hg]
    simp only [getDefinition, (checkComposition_trivia _ _).1, Bool.not_true, Bool.false_eq_true, if_false, dispatch,
      setupSpaceListCheck, hl, hn, hv, Bool.false_or, Outcome.bind, pushNode, bne_self_eq_false, hgv]
    simp [hnl]
  · rw [h]
    simp only [getDefinition, (checkComposition_trivia _ _).2, Bool.not_true, Bool.false_eq_true, if_false, dispatch,
      Outcome.bind, pushNode, bne_self_eq_false]
    simp [hl, hnl]
  · rw [h]
    simp only [getDefinition, (checkComposition_trivia _ _).2, Bool.not_true, Bool.false_eq_true, if_false, dispatch,
      Outcome.bind, pushNode, bne_self_eq_false]
    simp [hl, hnl]

theorem adjust_noop (st : PState) (ug : Option Nat)
    (h : st.lastLeft = none ∨ ∃ i nd, st.lastLeft = some i ∧ st.nodes[i]? = some nd ∧
      ((nd.definition == Definition.sideEffect) = false ∨ st.lastLeft = ug)) : adjustLastLeft st ug = .ok st := by
  unfold adjustLastLeft
  rcases h with h | ⟨i, nd, hl, hn, hc⟩
  · simp [h]
  · rcases hc with hc | hc
    · simp [hl, hn, hc]
    · rw [hl] at hc; subst hc; simp [hl, hn]

theorem OpenB.noop_data {st : PState} {ug : Option Nat} (h : OpenB st ug) :
    st.lastLeft = none ∨ ∃ i nd, st.lastLeft = some i ∧ st.nodes[i]? = some nd ∧
      ((nd.definition == Definition.sideEffect) = false ∨ st.lastLeft = ug) := by
  rcases h.top with ⟨h1, _⟩ | ⟨nd, q, _, hl, hnd, _, _, _, hst⟩
  · exact Or.inl h1
  · refine Or.inr ⟨_, nd, hl, hnd, ?_⟩
    rcases hst with ⟨_, hg⟩ | ⟨_, hg⟩
    · exact Or.inl (not_sideEffect_of_not_groupLike hg)
    · exact Or.inr (by rw [hl, hg])

theorem OpenB.trivia {st : PState} {ug : Option Nat} (h : OpenB st ug) (w : PToken) (hw : isTriviaTok w = true) :
    OpenB { st with previousSecondDef := (getDefinition w.type).2, lastToken := w } ug := by
  refine ⟨h.cfl, h.nnl, h.hug, h.link, adjust_noop _ ug h.noop_data, h.top, ?_⟩
  rcases trivia_secdef hw with h | h
  · exact Or.inr (Or.inr (Or.inr (Or.inr (Or.inr (Or.inr (Or.inl h))))))
  · exact Or.inr (Or.inr (Or.inr (Or.inr (Or.inr (Or.inr (Or.inr (Or.inl h)))))))

/-- a run of trivia tokens in an open operand position -/
theorem trivia_runB : ∀ (ws : List PToken) (st : PState) (ug : Option Nat) (rest : List PToken), OpenB st ug →
    0 < st.nodes.size → (∀ w ∈ ws, isTriviaTok w = true) → rest ≠ [] →
    ∃ st', loop st (ws ++ rest) = loop st' rest ∧ OpenB st' ug ∧ st'.nodes = st.nodes ∧ st'.nextParent = st.nextParent ∧
      st'.lastLeft = st.lastLeft ∧ st'.groupStack = st.groupStack ∧ st'.currentGroup = st.currentGroup
  | [], st, _, _, h, _, _, _ => ⟨st, rfl, h, rfl, rfl, rfl, rfl, rfl⟩
  | w :: ws, st, ug, rest, h, hpos, hws, hne => by
    have hw := hws w (List.mem_cons_self ..)
    obtain ⟨st', h1, h2, h3, h4, h5, h6, h7⟩ :=
      trivia_runB ws { st with previousSecondDef := (getDefinition w.type).2, lastToken := w } ug rest (h.trivia w hw) hpos
        (fun x hx => hws x (List.mem_cons_of_mem _ hx)) hne
    refine ⟨st', ?_, h2, h3, h4, h5, h6, h7⟩
    simp only [List.cons_append, loop]
    rw [step_triviaB st ug w _ hw h hpos]
    simp only [Outcome.bind]
    exact h1

/-! ### the opening bracket `(` / `{` -/

def isOpenTok (t : PToken) : Bool := t.type == .startGroup || t.type == .startExpression

/-- the state after an opening bracket in operand position -/
def stepO (st : PState) (o : PToken) : PState :=
  { st with nodes := st.nodes.push ⟨(getDefinition o.type).1, .startGrouping, st.nextParent, none, some (st.nodes.size + 1), o⟩,
            currentGroup := some st.groupStack.size, groupStack := st.groupStack.push (st.nodes.size, false),
            nextParent := some st.nodes.size, lastLeft := some st.nodes.size, previousSecondDef := .startGrouping,
            lastToken := o }

theorem open_def_facts {o : PToken} (ho : isOpenTok o = true) :
    (getDefinition o.type).2 = .startGrouping ∧
      ((getDefinition o.type).1 = .group ∨ (getDefinition o.type).1 = .nestedExpression) := by
  unfold isOpenTok at ho
  simp only [Bool.or_eq_true, beq_iff_eq] at ho
  rcases ho with h | h <;> rw [h] <;> simp [getDefinition]

/-- **an opening bracket in operand position** (list flag clear, not the last token): the bracket node is pushed as the
    right child of `next_parent` with a dangling `right`, and becomes `next_parent` / `last_left` / the current group -/
theorem step_openB (st : PState) (ug : Option Nat) (o : PToken) (ho : isOpenTok o = true) (h : OpenB st ug) :
    step st o false = .ok (stepO st o) := by
  obtain ⟨hs, hd⟩ := open_def_facts ho
  have hc := h.cfl
  have hcomp := h.comp_open
  unfold step stepO
  simp only [h.hug, h.adj, Outcome.bind]
  generalize getDefinition o.type = ds at hs hd ⊢
  obtain ⟨d, s⟩ := ds
  simp only at hs hd ⊢
  subst hs
  rcases hd with hd | hd <;> subst hd <;>
  · simp only [hc, hcomp, Bool.not_true, Bool.false_eq_true, if_false, dispatch, armStartGrouping, pushNode, h.nnl]
    simp [Array.size_push]

theorem OpenB.stepO {st : PState} {ug : Option Nat} (h : OpenB st ug) (o : PToken) (ho : isOpenTok o = true) :
    OpenB (stepO st o) (some st.nodes.size) := by
  obtain ⟨hs, hd⟩ := open_def_facts ho
  have hn : (Garnish.Spec.stepO st o).nodes[st.nodes.size]? =
      some ⟨(getDefinition o.type).1, .startGrouping, st.nextParent, none, some (st.nodes.size + 1), o⟩ := by
    simp [Garnish.Spec.stepO]
  have hgl : (getDefinition o.type).1.isGroupLike = true := by rcases hd with hd | hd <;> rw [hd] <;> rfl
  have hvl : (getDefinition o.type).1.isValueLike = false := by rcases hd with hd | hd <;> rw [hd] <;> rfl
  have hse : ((getDefinition o.type).1 == Definition.sideEffect) = false := by rcases hd with hd | hd <;> rw [hd] <;> rfl
  have hpr : priority (getDefinition o.type).1 = some 20 := by rcases hd with hd | hd <;> rw [hd] <;> rfl
  refine ⟨h.cfl, h.nnl, ?_, rfl, ?_, Or.inr ?_, Or.inr (Or.inr (Or.inr (Or.inr (Or.inl rfl))))⟩
  · simp [underGroupOf, Garnish.Spec.stepO]
  · unfold adjustLastLeft
    have hl : (Garnish.Spec.stepO st o).lastLeft = some st.nodes.size := rfl
    simp [hl, hn, hse]
  · refine ⟨⟨(getDefinition o.type).1, .startGrouping, st.nextParent, none, some (st.nodes.size + 1), o⟩, 20, ?_, ?_, ?_,
      hpr, ?_, hvl, Or.inr ⟨hgl, ?_⟩⟩
    · simp [Garnish.Spec.stepO]
    · simp [Garnish.Spec.stepO]
    · simp [Garnish.Spec.stepO]
    · simp [Garnish.Spec.stepO]
    · simp [Garnish.Spec.stepO]

end Garnish.Spec
