/-
What one clone step appends besides the copy itself: only cells that are never nodes (list slots) or leaves
(text characters, bytes, symbol-list parts, empty slots, the return point of a frame).
-/
import Garnish.Lemmas.OptimizeArms
set_option maxHeartbeats 1000000
namespace Garnish.BasicOpt
open Garnish

/-- cells that no reader ever treats as a node, whatever surrounds them -/
def neverNode : Cell → Bool
  | .listItem _ | .associativeItem _ _ | .uninitializedList _ _ | .cloneItem _ | .cloneIndexMap _ _ => true
  | _ => false

theorem neverNode_shape {cells : Array Cell} {j : Nat} {c : Cell} (hc : cells[j]? = some c) (hn : neverNode c = true) :
    shape cells j = none := by
  unfold shape; rw [hc]
  cases c <;> simp [neverNode] at hn <;> rfl

/-- a cell that is a node without links, whatever surrounds it -/
abbrev isLeafCell (c : Cell) : Prop := soloShape c = some ⟨c, [], []⟩

/-- what a new cell other than the copy's own head is -/
def SideCell (c : Cell) : Prop := neverNode c = true ∨ isLeafCell c

theorem sideCell_of_pred {c : Cell} (h : isChar c = true ∨ isByte c = true ∨ isSymPart c = true) : SideCell c := by
  rcases h with h | h | h <;> cases c <;> simp [isChar, isByte, isSymPart] at h <;> exact Or.inr rfl

theorem cloneSlots_kinds (ls le : Nat) : ∀ (m : Nat) (s s' : Store) (i : Nat), Store.cloneSlots ls le s i m = .ok s' →
    s'.cells.size = s.cells.size + m ∧
    ∀ t, t < m → ∃ c, s'.cells[s.cells.size + t]? = some c ∧ SideCell c
  | 0, s, s', i, h => by
    simp only [Store.cloneSlots, Outcome.ok.injEq] at h
    subst h
    exact ⟨rfl, fun t ht => by omega⟩
  | m + 1, s, s', i, h => by
    simp only [Store.cloneSlots, bind_eq_ok] at h
    obtain ⟨c, _, h2⟩ := h
    have tail : ∀ (c' : Cell) (s1 : Store) (i1 : Nat), SideCell c' → s.push c' = .ok (s1, i1) →
        Store.cloneSlots ls le s1 (i + 1) m = .ok s' →
        s'.cells.size = s.cells.size + (m + 1) ∧
        ∀ t, t < m + 1 → ∃ c, s'.cells[s.cells.size + t]? = some c ∧ SideCell c := by
      intro c' s1 i1 hside hpush hrest
      obtain ⟨_, hcells, _⟩ := push_ok hpush
      obtain ⟨hsz, ih⟩ := cloneSlots_kinds ls le m s1 s' (i + 1) hrest
      have hsz1 : s1.cells.size = s.cells.size + 1 := by rw [hcells]; simp
      have hkeep := (cloneSlots_ext (s.cells.size + 1) ls le m s1 s' (i + 1) hrest).keep
      refine ⟨by omega, ?_⟩
      intro t ht
      cases t with
      | zero =>
        refine ⟨c', ?_, hside⟩
        rw [Nat.add_zero, hkeep _ (by omega) (by omega), hcells]; simp
      | succ t =>
        obtain ⟨d, hd, hds⟩ := ih t (by omega)
        refine ⟨d, ?_, hds⟩
        have : s.cells.size + (t + 1) = s1.cells.size + t := by omega
        rw [this]; exact hd
    split at h2
    · simp only [bind_eq_ok] at h2
      obtain ⟨item', _, ⟨s1, i1⟩, hpush, hrest⟩ := h2
      exact tail _ s1 i1 (Or.inl rfl) hpush hrest
    · simp only [bind_eq_ok] at h2
      obtain ⟨item', _, ⟨s1, i1⟩, hpush, hrest⟩ := h2
      exact tail _ s1 i1 (Or.inl rfl) hpush hrest
    · simp only [bind_eq_ok] at h2
      obtain ⟨⟨s1, i1⟩, hpush, hrest⟩ := h2
      exact tail _ s1 i1 (Or.inr rfl) hpush hrest
    · simp at h2

/-- the new cells of one clone step other than the head of the copy -/
def Others (cur cur2 : Store) (ni : Nat) : Prop :=
  ∀ j, cur.cells.size ≤ j → j < cur2.cells.size → j ≠ ni → ∃ d, cur2.cells[j]? = some d ∧ SideCell d

theorem others_solo {cur cur2 : Store} {ls le index ni : Nat} {c : Cell} {sh : Shape}
    (hs : soloShape c = some sh) (hclone : Store.cloneCell cur ls le index c = .ok (cur2, ni)) : Others cur cur2 ni := by
  have h0 : ∀ {d : Cell}, cur.push d = .ok (cur2, ni) → cur2.cells.size = cur.cells.size + 1 ∧ ni = cur.cells.size := by
    intro d hp
    obtain ⟨hi, hc, _⟩ := push_ok hp
    exact ⟨by rw [hc]; simp, hi⟩
  have h1 : ∀ {cells : List Cell}, (∃ d, cells = [d]) → cur.pushLast cells 0 = .ok (cur2, ni) →
      cur2.cells.size = cur.cells.size + 1 ∧ ni = cur.cells.size := by
    intro cells ⟨d, hd⟩ hp
    subst hd
    obtain ⟨hi, hc⟩ := pushLast_one hp
    exact ⟨by rw [hc]; simp, hi⟩
  have key : cur2.cells.size = cur.cells.size + 1 ∧ ni = cur.cells.size := by
    cases c <;> simp only [soloShape, Option.some.injEq] at hs <;> try (simp at hs; done)
    all_goals simp only [Store.cloneCell, Store.relink, bind_eq_ok, pure_eq_ok] at hclone
    all_goals first
      | exact h0 hclone
      | (obtain ⟨cells, hx, hp⟩ := hclone
         refine h1 ?_ hp
         first
           | (obtain ⟨_, _, _, _, h⟩ := hx; exact ⟨_, h.symm⟩)
           | (obtain ⟨_, _, h⟩ := hx; exact ⟨_, h.symm⟩))
  intro j hj1 hj2 hj3
  omega

theorem others_frame {cur cur2 : Store} {ls le index ni : Nat} {c : Cell}
    (hfr : (∃ p r, c = .frame p r) ∨ (∃ p, c = .frameIndex p) ∨ (∃ r, c = .frameRegister r) ∨ c = .frameRoot)
    (hclone : Store.cloneCell cur ls le index c = .ok (cur2, ni)) : Others cur cur2 ni := by
  have key : ∃ point d, cur2.cells = (cur.cells.push (.jumpPoint point)).push d ∧ ni = cur.cells.size + 1 := by
    rcases hfr with ⟨p, r, rfl⟩ | ⟨p, rfl⟩ | ⟨r, rfl⟩ | rfl
    all_goals simp only [Store.cloneCell, Store.relink, bind_eq_ok, pure_eq_ok] at hclone
    · obtain ⟨cells, ⟨point, _, p', _, r', _, hcs⟩, hpl⟩ := hclone
      subst hcs
      obtain ⟨hi, hc⟩ := pushLast_two hpl
      exact ⟨point, _, hc, hi⟩
    · obtain ⟨cells, ⟨point, _, p', _, hcs⟩, hpl⟩ := hclone
      subst hcs
      obtain ⟨hi, hc⟩ := pushLast_two hpl
      exact ⟨point, _, hc, hi⟩
    · obtain ⟨cells, ⟨point, _, p', _, hcs⟩, hpl⟩ := hclone
      subst hcs
      obtain ⟨hi, hc⟩ := pushLast_two hpl
      exact ⟨point, _, hc, hi⟩
    · obtain ⟨cells, ⟨point, _, hcs⟩, hpl⟩ := hclone
      subst hcs
      obtain ⟨hi, hc⟩ := pushLast_two hpl
      exact ⟨point, _, hc, hi⟩
  obtain ⟨point, d, hcells, hni⟩ := key
  intro j hj1 hj2 hj3
  have hsz : cur2.cells.size = cur.cells.size + 2 := by rw [hcells]; simp
  have hj : j = cur.cells.size := by omega
  subst hj
  refine ⟨.jumpPoint point, ?_, Or.inr rfl⟩
  rw [hcells, Array.getElem?_push]
  simp

theorem others_inline {s0 : Array Cell} {cur cur2 : Store} {ls le index ni : Nat} {c : Cell} {sh : Shape}
    (hA : ∀ (i : Nat) (c : Cell), s0[i]? = some c → cur.cells[i]? = some c)
    (hc : s0[index]? = some c) (hsh : shape s0 index = some sh)
    (hin : (∃ n, c = .charList n) ∨ (∃ n, c = .byteList n) ∨ (∃ n, c = .symbolList n))
    (hclone : Store.cloneCell cur ls le index c = .ok (cur2, ni)) : Others cur cur2 ni := by
  unfold shape at hsh
  rw [hc] at hsh
  -- the common part, by the predicate on the inline cells
  have core : ∀ (p : Cell → Bool) (hdr : Cell) (n : Nat) (inl : List Cell) (s1 : Store) (li : Nat),
      (∀ x, p (.cloneItem x) = false) → (∀ d, p d = true → SideCell d) →
      inlineCells s0 p (index + 1) n = some inl → cur.push hdr = .ok (s1, li) →
      Store.copyCells s1 (index + 1) n = .ok cur2 → li = ni → Others cur cur2 ni := by
    intro p hdr n inl s1 li hp hside hinl hpush hcopy hli
    obtain ⟨hi, hcells, _⟩ := push_ok hpush
    have hag1 : AgreeNC s0 s1.cells := by
      intro j d hj _
      have := hA j d hj
      rw [hcells, Array.getElem?_push]
      have hlt : j < cur.cells.size := by
        rcases Nat.lt_or_ge j cur.cells.size with h | h
        · exact h
        · rw [Array.getElem?_eq_none h] at this; cases this
      simp [Nat.ne_of_lt hlt, this]
    have hlist := copyCells_spec hp _ _ _ _ _ (inlineCells_agree hag1 p hp _ _ _ hinl) hcopy
    obtain ⟨hlen, hall⟩ := inlineCells_props _ _ _ hinl
    have hl2 : cur2.cells.toList = (cur.cells.toList ++ [hdr]) ++ inl := by rw [hlist, hcells]; simp
    intro j hj1 hj2 hj3
    have hsz : cur2.cells.size = cur.cells.size + 1 + inl.length := by
      have := congrArg List.length hl2
      simp at this; omega
    obtain ⟨t, rfl⟩ : ∃ t, j = cur.cells.size + 1 + t := ⟨j - (cur.cells.size + 1), by omega⟩
    obtain ⟨d, hd⟩ : ∃ d, inl[t]? = some d := ⟨inl[t]'(by omega), by simp⟩
    refine ⟨d, ?_, hside d (hall d (List.mem_of_getElem? hd))⟩
    rw [← Array.getElem?_toList, hl2]
    have e : cur.cells.size + 1 + t = (cur.cells.toList ++ [hdr]).length + t := by simp
    rw [e, List.getElem?_append_right (Nat.le_add_right _ _)]
    simpa using hd
  rcases hin with ⟨n, rfl⟩ | ⟨n, rfl⟩ | ⟨n, rfl⟩
  all_goals simp only [Option.map_eq_some_iff] at hsh
  all_goals obtain ⟨inl, hinl, _⟩ := hsh
  all_goals simp only [Store.cloneCell, bind_eq_ok, pure_eq_ok, Prod.mk.injEq] at hclone
  all_goals obtain ⟨⟨s1, li⟩, hpush, s2, hcopy, hs2, hli⟩ := hclone
  all_goals subst hs2
  · exact core isChar _ _ inl s1 li (by intro x; rfl) (fun d hd => sideCell_of_pred (Or.inl hd)) hinl hpush hcopy hli
  · exact core isByte _ _ inl s1 li (by intro x; rfl) (fun d hd => sideCell_of_pred (Or.inr (Or.inl hd))) hinl hpush hcopy hli
  · exact core isSymPart _ _ inl s1 li (by intro x; rfl) (fun d hd => sideCell_of_pred (Or.inr (Or.inr hd))) hinl hpush hcopy hli

theorem others_list {cur cur2 : Store} {ls le index ni n k : Nat}
    (hclone : Store.cloneCell cur ls le index (.list n k) = .ok (cur2, ni)) : Others cur cur2 ni := by
  simp only [Store.cloneCell, bind_eq_ok, pure_eq_ok, Prod.mk.injEq] at hclone
  obtain ⟨⟨s1, li⟩, hpush, s2, hslots, hs2, hli⟩ := hclone
  subst hs2; subst hli
  obtain ⟨hi, hcells, _⟩ := push_ok hpush
  obtain ⟨hsz, hk⟩ := cloneSlots_kinds ls le _ _ _ _ hslots
  simp only at hsz hk
  have hsz1 : s1.cells.size = cur.cells.size + 1 := by rw [hcells]; simp
  intro j hj1 hj2 hj3
  obtain ⟨t, rfl⟩ : ∃ t, j = s1.cells.size + t := ⟨j - s1.cells.size, by omega⟩
  exact hk t (by omega)

/-- every arm -/
theorem cloneCell_others {s0 : Array Cell} {cur cur2 : Store} {ls le index ni : Nat} {c : Cell} {sh : Shape}
    (hA : ∀ (i : Nat) (c : Cell), s0[i]? = some c → cur.cells[i]? = some c)
    (hc : s0[index]? = some c) (hsh : shape s0 index = some sh)
    (hclone : Store.cloneCell cur ls le index c = .ok (cur2, ni)) : Others cur cur2 ni := by
  cases hso : soloShape c with
  | some x => exact others_solo hso hclone
  | none =>
    cases c <;> simp only [soloShape] at hso <;> try (simp at hso; done)
    · exact others_inline hA hc hsh (Or.inr (Or.inr ⟨_, rfl⟩)) hclone
    · exact others_inline hA hc hsh (Or.inl ⟨_, rfl⟩) hclone
    · exact others_inline hA hc hsh (Or.inr (Or.inl ⟨_, rfl⟩)) hclone
    · exact others_list hclone
    all_goals first
      | (unfold shape at hsh; rw [hc] at hsh; simp at hsh; done)
      | exact others_frame (Or.inl ⟨_, _, rfl⟩) hclone
      | exact others_frame (Or.inr (Or.inl ⟨_, rfl⟩)) hclone
      | exact others_frame (Or.inr (Or.inr (Or.inl ⟨_, rfl⟩))) hclone
      | exact others_frame (Or.inr (Or.inr (Or.inr rfl))) hclone

end Garnish.BasicOpt
