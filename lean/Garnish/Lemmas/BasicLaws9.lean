/-
`StoreLawsOn` for `BasicGarnishData`, continued: `merge_to_symbol_list` on symbols and symbol lists.
-/
import Garnish.Lemmas.BasicLaws8
set_option linter.unusedSimpArgs false
set_option linter.unusedVariables false
set_option maxHeartbeats 4000000
namespace Garnish.Lemmas.Runtime.Basic
open Garnish Gen Garnish.Model.Equality Garnish.Model.Runtime Garnish.Model.Runtime.Basic Garnish.BasicOpt
open Garnish.Lemmas.Runtime Garnish.Lemmas.EqualityRefine

variable {F : Type}

theorem decodes_sym_cell {numOf : Nat → Number F} {cells : Array Cell} {a s : Nat}
    (h : Decodes (basicView numOf cells) a (.sym s)) : cells[a]? = some (Cell.symbol s) := by
  cases h with
  | sym _ hs =>
    rw [bv_symbol] at hs
    cases hc : cells[a]? with
    | none => simp [hc] at hs
    | some c => rw [hc] at hs; cases c <;> simp at hs; rw [hs]

theorem decodes_symList_cell {numOf : Nat → Number F} {cells : Array Cell} {a : Nat} {ps : List (SymPart F)}
    (h : Decodes (basicView numOf cells) a (.symList ps)) :
    ∃ n inl, cells[a]? = some (Cell.symbolList n) ∧ inlineCells cells isSymPart (a + 1) n = some inl ∧
      ps = inl.map (symPartOf numOf) := by
  cases h with
  | symList _ hs =>
    rw [bv_symList] at hs
    cases hc : cells[a]? with
    | none => simp [hc] at hs
    | some c =>
      rw [hc] at hs
      cases c <;> simp only [] at hs <;> try (cases hs; done)
      simp only [Option.map_eq_some_iff] at hs
      obtain ⟨inl, h1, h2⟩ := hs
      exact ⟨_, inl, rfl, h1, h2.symm⟩

theorem get_of_cell {s : Store} {a : Nat} {c : Cell} (h : s.cells[a]? = some c) : s.get a = .ok c := by
  simp [Store.get, h]

/-- **`merge_to_symbol_list`** on symbols and symbol lists -/
theorem mergeSome_law (nc : NumCode F) {st : BState} (hinv : BInv st) {l r : Nat} {vl vr v : Val F}
    (hl : Decodes ((basicRStore nc).view st) l vl) (hr : Decodes ((basicRStore nc).view st) r vr)
    (hm : Abs.mergeSymList vl vr = some v) (hnl : ∀ n, vl ≠ .num n) (hnr : ∀ n, vr ≠ .num n) :
    AddsB nc ((basicRStore nc).mergeToSymbolList l r) st v := by
  have hl' : Decodes (basicView nc.dec st.store.cells) l vl := hl
  have hr' : Decodes (basicView nc.dec st.store.cells) r vr := hr
  have agree1 : ∀ {s1 : Store} {c : Cell}, s1.cells = st.store.cells.push c → AgreeNC st.store.cells s1.cells := by
    intro s1 c h; rw [h]; simpa using agree_append st.store.cells #[c]
  cases vl with
  | num n => exact absurd rfl (hnl n)
  | sym s1 =>
    cases vr with
    | num n => exact absurd rfl (hnr n)
    | sym s2 =>
      simp [Abs.mergeSymList] at hm
      subst hm
      have hc1 := decodes_sym_cell hl'
      have hc2 := decodes_sym_cell hr'
      obtain ⟨t1, hp1, hq1, hf1⟩ := push_total (.symbolList 2) hinv.fits
      obtain ⟨t2, hp2, hq2, hf2⟩ := push_total (.symbol s1) hf1
      obtain ⟨t3, hp3, hq3, hf3⟩ := push_total (.symbol s2) hf2
      have hop : st.store.mergeToSymbolList l r = .ok (t3, st.store.cells.size) := by
        simp [Store.mergeToSymbolList, bind, Outcome.bind, get_of_cell hc1, get_of_cell hc2, isSymPart, hp1, hp2, hp3, pure]
      have hfr := ((push_ok hp1).2.2.trans (push_ok hp2).2.2).trans (push_ok hp3).2.2
      have := adds_symList nc hinv (m := (basicRStore nc).mergeToSymbolList l r) (s' := t3) (n := 2) (items := [.symbol s1, .symbol s2]) (liftAdd_ok (f := fun s => s.mergeToSymbolList l r) hop)
        (by rw [hq3, hq2, hq1]; simp) hfr hf3 rfl (by intro c hc; simp at hc; rcases hc with rfl | rfl <;> rfl)
      simpa [symPartOf] using this
    | symList ps2 =>
      simp [Abs.mergeSymList] at hm
      subst hm
      have hc1 := decodes_sym_cell hl'
      obtain ⟨n2, inl2, hc2, hi2, rfl⟩ := decodes_symList_cell hr'
      obtain ⟨t1, hp1, hq1, hf1⟩ := push_total (.symbolList (n2 + 1)) hinv.fits
      obtain ⟨t2, hp2, hq2, hf2⟩ := push_total (.symbol s1) hf1
      have hag : AgreeNC st.store.cells t2.cells :=
        agreeNC_append_toList (l := [Cell.symbolList (n2 + 1), Cell.symbol s1]) (by rw [hq2, hq1]; simp)
      obtain ⟨t3, hp3, hq3, hfr3, hf3⟩ := copyCells_total (p := isSymPart) (by intro x; rfl) n2 t2 (r + 1) inl2 hf2
        (inlineCells_agree hag _ (by intro x; rfl) _ _ _ hi2)
      have hop : st.store.mergeToSymbolList l r = .ok (t3, st.store.cells.size) := by
        simp [Store.mergeToSymbolList, bind, Outcome.bind, get_of_cell hc1, get_of_cell hc2, isSymPart, hp1, hp2, hp3, pure]
      have hfr := ((push_ok hp1).2.2.trans (push_ok hp2).2.2).trans hfr3
      obtain ⟨len2, all2⟩ := inlineCells_props _ _ _ hi2
      have := adds_symList nc hinv (m := (basicRStore nc).mergeToSymbolList l r) (s' := t3) (n := n2 + 1) (items := .symbol s1 :: inl2) (liftAdd_ok (f := fun s => s.mergeToSymbolList l r) hop)
        (by rw [hq3, hq2, hq1]; simp) hfr hf3 (by simp [len2])
        (by intro c hc; rcases List.mem_cons.mp hc with rfl | h
            · rfl
            · exact all2 c h)
      simpa [symPartOf] using this
    | _ => simp [Abs.mergeSymList] at hm
  | symList ps1 =>
    cases vr with
    | num n => exact absurd rfl (hnr n)
    | sym s2 =>
      simp [Abs.mergeSymList] at hm
      subst hm
      obtain ⟨n1, inl1, hc1, hi1, rfl⟩ := decodes_symList_cell hl'
      have hc2 := decodes_sym_cell hr'
      obtain ⟨t1, hp1, hq1, hf1⟩ := push_total (.symbolList (n1 + 1)) hinv.fits
      obtain ⟨t2, hp2, hq2, hfr2, hf2⟩ := copyCells_total (p := isSymPart) (by intro x; rfl) n1 t1 (l + 1) inl1 hf1
        (inlineCells_agree (agree1 hq1) _ (by intro x; rfl) _ _ _ hi1)
      obtain ⟨t3, hp3, hq3, hf3⟩ := push_total (.symbol s2) hf2
      have hop : st.store.mergeToSymbolList l r = .ok (t3, st.store.cells.size) := by
        simp [Store.mergeToSymbolList, bind, Outcome.bind, get_of_cell hc1, get_of_cell hc2, isSymPart, hp1, hp2, hp3, pure]
      have hfr := ((push_ok hp1).2.2.trans hfr2).trans (push_ok hp3).2.2
      obtain ⟨len1, all1⟩ := inlineCells_props _ _ _ hi1
      have := adds_symList nc hinv (m := (basicRStore nc).mergeToSymbolList l r) (s' := t3) (n := n1 + 1) (items := inl1 ++ [.symbol s2]) (liftAdd_ok (f := fun s => s.mergeToSymbolList l r) hop)
        (by rw [hq3]; simp [hq2, hq1]) hfr hf3 (by simp [len1])
        (by intro c hc; rcases List.mem_append.mp hc with h | h
            · exact all1 c h
            · simp at h; subst h; rfl)
      simpa [symPartOf] using this
    | symList ps2 =>
      simp [Abs.mergeSymList] at hm
      subst hm
      obtain ⟨n1, inl1, hc1, hi1, rfl⟩ := decodes_symList_cell hl'
      obtain ⟨n2, inl2, hc2, hi2, rfl⟩ := decodes_symList_cell hr'
      obtain ⟨t1, hp1, hq1, hf1⟩ := push_total (.symbolList (n1 + n2)) hinv.fits
      obtain ⟨t2, hp2, hq2, hfr2, hf2⟩ := copyCells_total (p := isSymPart) (by intro x; rfl) n1 t1 (l + 1) inl1 hf1
        (inlineCells_agree (agree1 hq1) _ (by intro x; rfl) _ _ _ hi1)
      have hag2 : AgreeNC st.store.cells t2.cells := agreeNC_append_toList (l := Cell.symbolList (n1 + n2) :: inl1) (by
        rw [hq2, hq1]; simp)
      obtain ⟨t3, hp3, hq3, hfr3, hf3⟩ := copyCells_total (p := isSymPart) (by intro x; rfl) n2 t2 (r + 1) inl2 hf2
        (inlineCells_agree hag2 _ (by intro x; rfl) _ _ _ hi2)
      have hop : st.store.mergeToSymbolList l r = .ok (t3, st.store.cells.size) := by
        simp [Store.mergeToSymbolList, bind, Outcome.bind, get_of_cell hc1, get_of_cell hc2, hp1, hp2, hp3, pure]
      have hfr := ((push_ok hp1).2.2.trans hfr2).trans hfr3
      obtain ⟨len1, all1⟩ := inlineCells_props _ _ _ hi1
      obtain ⟨len2, all2⟩ := inlineCells_props _ _ _ hi2
      have := adds_symList nc hinv (m := (basicRStore nc).mergeToSymbolList l r) (s' := t3) (n := n1 + n2) (items := inl1 ++ inl2) (liftAdd_ok (f := fun s => s.mergeToSymbolList l r) hop)
        (by rw [hq3, hq2, hq1]; simp) hfr hf3 (by simp [len1, len2])
        (by intro c hc; rcases List.mem_append.mp hc with h | h
            · exact all1 c h
            · exact all2 c h)
      simpa using this

    | _ => simp [Abs.mergeSymList] at hm
  | _ => cases vr <;> simp [Abs.mergeSymList] at hm

end Garnish.Lemmas.Runtime.Basic
