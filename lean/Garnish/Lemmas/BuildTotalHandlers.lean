/-
Totality of the emitting traversal of `build` — part 4: every handler keeps the invariant and lowers the potential.
-/
import Garnish.Lemmas.BuildTotalStep2
namespace Garnish.Lemmas.BuildTotal
open Garnish Garnish.Gen Garnish.Model.Parser Garnish.Model.Literals Garnish.Model.Build Garnish.Lemmas.Build

variable {F : Type} {root : Nat} {tree : Array ParseNode} {G : Nat → Prop}

/-- what is known when a handler is called on the node `ni` just popped from `stack` -/
structure Pre (root : Nat) (tree : Array ParseNode) (G : Nat → Prop) (ph : Nat → Phase) (ctx : Ctx F) (ni : Nat)
    (pn : ParseNode) : Prop where
  V : Validated root tree G
  inv : Inv root tree G ph ctx
  hG : G ni
  hph : ph ni = .p1 ∨ ph ni = .p2
  hns : ni ∉ ctx.stack.toList
  hpn : tree[ni]? = some pn

/-- what a handler establishes -/
def Post (root : Nat) (tree : Array ParseNode) (G : Nat → Prop) (ph : Nat → Phase) (ctx' : Ctx F) : Prop :=
  ∃ ph', Inv root tree G ph' ctx' ∧ total ph' tree.size < total ph tree.size

theorem getNode_good (nodes : Nodes) (i : Nat) : Good (fun node => nodes[i]? = some (some node)) (getNode nodes i) := by
  unfold getNode
  split
  · rename_i b hb; exact hb
  · exact good_buildErr

section pre
variable {ph : Nat → Phase} {ctx : Ctx F} {ni : Nat} {pn : ParseNode}

theorem Pre.childL (p : Pre root tree G ph ctx ni pn) {l : Nat} (hl : pn.left = some l) : IsChild tree ni l :=
  ⟨pn, p.hpn, Or.inl hl⟩
theorem Pre.childR (p : Pre root tree G ph ctx ni pn) {r : Nat} (hr : pn.right = some r) : IsChild tree ni r :=
  ⟨pn, p.hpn, Or.inr hr⟩
theorem Pre.child_lt (p : Pre root tree G ph ctx ni pn) {c : Nat} (hc : IsChild tree ni c) : c < ctx.nodes.size := by
  rw [p.inv.size]; exact G_lt p.V (child_facts p.V p.hG hc).1
theorem Pre.lr_ne (p : Pre root tree G ph ctx ni pn) {l r : Nat} (hl : pn.left = some l) (hr : pn.right = some r) : l ≠ r :=
  left_ne_right p.V p.hG p.hpn hl hr
theorem Pre.p1 (p : Pre root tree G ph ctx ni pn) {node : BuildNode} (hnode : ctx.nodes[ni]? = some (some node))
    (hst : node.state = .uninitialized) : ph ni = .p1 := by
  rcases p.hph with h | h
  · exact h
  · have := p.inv.init ni node hnode h; rw [hst] at this; cases this
theorem Pre.pni (p : Pre root tree G ph ctx ni pn) {node : BuildNode} (hnode : ctx.nodes[ni]? = some (some node)) :
    node.parseNodeIndex = ni := p.inv.pni ni node hnode
theorem Pre.notLate (p : Pre root tree G ph ctx ni pn) (hnl : isLate pn.definition = false) (c : Nat) : ¬ LateRight tree ni c := by
  intro ⟨pn', h1, _, h3⟩
  rw [p.hpn] at h1; cases h1
  rw [hnl] at h3; cases h3
theorem Pre.lateRight (p : Pre root tree G ph ctx ni pn) (hl : isLate pn.definition = true) {r : Nat} (hr : pn.right = some r) :
    LateRight tree ni r := ⟨pn, p.hpn, hr, hl⟩
theorem Pre.left_notLate (p : Pre root tree G ph ctx ni pn) {l : Nat} (hl : pn.left = some l) : ¬ LateRight tree ni l := by
  intro ⟨pn', h1, h2, _⟩
  rw [p.hpn] at h1; cases h1
  exact p.lr_ne hl h2 rfl

/-- first visit of a two-visit handler: the node is pushed back, the children `cs` are scheduled on `stack` -/
theorem Pre.firstVisit (p : Pre root tree G ph ctx ni pn) {ctx' : Ctx F} {node : BuildNode}
    (hnode : ctx.nodes[ni]? = some (some node)) (hst : node.state = .uninitialized)
    (hd : pn.definition ≠ .group ∧ pn.definition ≠ .nestedExpression)
    (cs suf : List Nat) (asg : List (Nat × BuildNode))
    (hS : ctx'.stack.toList = ctx.stack.toList ++ suf) (hR : ctx'.rootStack = ctx.rootStack)
    (hN : ctx'.nodes = assign ctx.nodes asg)
    (hsuf : ∀ x, x ∈ suf → x = ni ∨ x ∈ cs) (hsufN : ni ∉ cs → cs.Nodup → suf.Nodup) (hcs : cs.Nodup)
    (hchild : ∀ c, c ∈ cs → IsChild tree ni c ∧ ¬ LateRight tree ni c)
    (hasgp : ∀ q, q ∈ asg → q.2.parseNodeIndex = q.1)
    (hasg : ∀ q, q ∈ asg → (q.1 = ni ∧ q.2.state = .initialized ∧ q.2.conditionalItems = node.conditionalItems) ∨
      (q.1 ∈ cs ∧ q.2.conditionalItems = #[]))
    (hasgni : ∃ b, (ni, b) ∈ asg) : Post root tree G ph ctx' := by
  have hp1 := p.p1 hnode hst
  refine step_inv p.V p.inv p.hG p.hph p.hns p.hpn .p2 (Or.inl rfl) (fun _ => ⟨hp1, hd⟩) cs [] suf [] asg hS
    (by rw [hR]; simp) hN (fun x hx => ?_) hsufN (fun x hx => by cases hx) (fun _ => List.nodup_nil)
    (by simpa using hcs) (fun c hc => ?_) hasgp (fun q hq => ?_) (fun _ => hasgni)
  · rcases hsuf x hx with h | h
    · exact Or.inl ⟨h, rfl⟩
    · exact Or.inr h
  · have hc' : c ∈ cs := by simpa using hc
    refine ⟨(hchild c hc').1, fun hl => absurd hl (hchild c hc').2, fun h2 => ?_⟩
    rw [hp1] at h2; cases h2
  · rcases hasg q hq with ⟨h1, h2, h3⟩ | ⟨h1, h2⟩
    · exact Or.inl ⟨h1, fun _ => h2, node, hnode, h3⟩
    · exact Or.inr ⟨by simpa using h1, h2⟩

/-- a visit that finishes the node and changes at most its own build node (state and conditional items kept) -/
theorem Pre.lastVisit (p : Pre root tree G ph ctx ni pn) {ctx' : Ctx F} (asg : List (Nat × BuildNode))
    (hS : ctx'.stack = ctx.stack) (hR : ctx'.rootStack = ctx.rootStack) (hN : ctx'.nodes = assign ctx.nodes asg)
    (hasgp : ∀ q, q ∈ asg → q.2.parseNodeIndex = q.1)
    (hasg : ∀ q, q ∈ asg → q.1 = ni ∧ ∃ bn, ctx.nodes[ni]? = some (some bn) ∧ q.2.conditionalItems = bn.conditionalItems) :
    Post root tree G ph ctx' := by
  refine step_inv p.V p.inv p.hG p.hph p.hns p.hpn .p3 (Or.inr rfl) (fun h => by cases h) [] [] [] [] asg
    (by rw [hS]; simp) (by rw [hR]; simp) hN (fun x hx => by cases hx) (fun _ _ => List.nodup_nil)
    (fun x hx => by cases hx) (fun _ => List.nodup_nil) (by simp) (fun c hc => by cases hc) hasgp
    (fun q hq => Or.inl ⟨(hasg q hq).1, (fun h => by cases h), (hasg q hq).2⟩) (fun h => by cases h)

/-- a visit that finishes the node and schedules its right child `r` as a new root -/
theorem Pre.rootVisit (p : Pre root tree G ph ctx ni pn) {ctx' : Ctx F} {r : Nat} (hr : pn.right = some r)
    (hlate : ph ni = .p2 → isLate pn.definition = true) (b : BuildNode) (hb : b.parseNodeIndex = r)
    (hbi : b.conditionalItems = #[])
    (hS : ctx'.stack = ctx.stack) (hR : ctx'.rootStack = ctx.rootStack.push r) (hN : ctx'.nodes = putNode ctx.nodes r b) :
    Post root tree G ph ctx' := by
  refine step_inv p.V p.inv p.hG p.hph p.hns p.hpn .p3 (Or.inr rfl) (fun h => by cases h) [] [r] [] [r] [(r, b)]
    (by rw [hS]; simp) (by rw [hR]; simp) (by rw [hN]; rfl) (fun x hx => by cases hx) (fun _ _ => List.nodup_nil)
    (fun x hx => hx) (fun h => h) (by simp) (fun c hc => ?_) (fun q hq => ?_) (fun q hq => ?_) (fun h => by cases h)
  · have : c = r := by simpa using hc
    subst this
    exact ⟨p.childR hr, fun _ => rfl, fun h2 => p.lateRight (hlate h2) hr⟩
  · have : q = (r, b) := by simpa using hq
    subst this; exact hb
  · have : q = (r, b) := by simpa using hq
    subst this; exact Or.inr ⟨by simp, hbi⟩


/-- side conditions of `firstVisit` about explicit lists -/
macro "list_tac" : tactic => `(tactic| (
  first
    | (intro x hx; simp only [List.mem_cons, List.mem_nil_iff, or_false] at hx ⊢; omega)
    | (intro h1 h2; simp only [List.nodup_cons, List.mem_cons, List.mem_nil_iff, List.not_mem_nil, or_false, not_or,
        not_false_eq_true, List.nodup_nil, and_true, true_and] at h1 h2 ⊢; omega)
    | (simp only [List.nodup_cons, List.mem_cons, List.mem_nil_iff, List.not_mem_nil, or_false, not_or,
        not_false_eq_true, List.nodup_nil, and_true, true_and]; omega)
    | simp))

/-- `∀ q ∈ [..], q.2.parseNodeIndex = q.1` for explicit lists of freshly built nodes -/
macro "asgp_tac" : tactic => `(tactic| (
  intro q hq
  simp only [List.mem_cons, List.mem_nil_iff, or_false] at hq
  first
    | (rcases hq with h | h | h <;> subst h <;> rfl)
    | (rcases hq with h | h <;> subst h <;> rfl)
    | (subst hq; rfl)))

macro "asg_one" : tactic => `(tactic| (
  first
    | exact Or.inl ⟨rfl, rfl, rfl⟩
    | exact Or.inr ⟨by simp, rfl⟩))

/-- the `hasg` side condition of `firstVisit` for explicit lists -/
macro "asg_tac" : tactic => `(tactic| (
  intro q hq
  simp only [List.mem_cons, List.mem_nil_iff, or_false] at hq
  first
    | (rcases hq with h | h | h <;> subst h <;> asg_one)
    | (rcases hq with h | h <;> subst h <;> asg_one)
    | (subst hq; asg_one)))

/-- the `hchild` side condition of `firstVisit`: every listed child is a left or right child and not late -/
macro "child_tac" p:term "," hnl:term : tactic => `(tactic| (
  intro c hc
  simp only [List.mem_cons, List.mem_nil_iff, or_false] at hc
  first
    | (rcases hc with h | h <;> subst h <;>
        first | exact ⟨Pre.childR $p ‹_›, Pre.notLate $p $hnl _⟩ | exact ⟨Pre.childL $p ‹_›, Pre.notLate $p $hnl _⟩)
    | (subst hc; first | exact ⟨Pre.childR $p ‹_›, Pre.notLate $p $hnl _⟩ | exact ⟨Pre.childL $p ‹_›, Pre.notLate $p $hnl _⟩)
    | (cases hc)))

theorem handleUnaryPrefix_total (p : Pre root tree G ph ctx ni pn)
    (hd : pn.definition ≠ .group ∧ pn.definition ≠ .nestedExpression) (hnl : isLate pn.definition = false) (ins : Instruction) :
    Good (Post root tree G ph) (handleUnaryPrefix ins ctx ni pn) := by
  unfold handleUnaryPrefix
  refine good_bind (getNode_good ctx.nodes ni) (fun node hnode => ?_)
  have hpni := p.pni hnode
  cases hst : node.state with
  | uninitialized =>
    dsimp only
    cases hr : pn.right with
    | none => exact good_buildErr
    | some r =>
      dsimp only
      have hrlt := p.child_lt (p.childR hr)
      simp only [setNodeIdx_eq, size_putNode, hrlt, bind_ok, good_ok, hpni]
      exact p.firstVisit hnode hst hd [r] [ni, r] [(ni, _), (r, _)] (by simp) rfl rfl (by list_tac) (by list_tac) (by simp)
        (by child_tac p, hnl) (by asgp_tac) (by asg_tac) ⟨_, List.mem_cons_self⟩
  | initialized =>
    dsimp only
    exact p.lastVisit [] rfl rfl rfl (fun q hq => by cases hq) (fun q hq => by cases hq)

theorem handleUnarySuffix_total (p : Pre root tree G ph ctx ni pn)
    (hd : pn.definition ≠ .group ∧ pn.definition ≠ .nestedExpression) (hnl : isLate pn.definition = false) (ins : Instruction) :
    Good (Post root tree G ph) (handleUnarySuffix ins ctx ni pn) := by
  unfold handleUnarySuffix
  refine good_bind (getNode_good ctx.nodes ni) (fun node hnode => ?_)
  have hpni := p.pni hnode
  cases hst : node.state with
  | uninitialized =>
    dsimp only
    cases hl : pn.left with
    | none => exact good_buildErr
    | some l =>
      dsimp only
      have hllt := p.child_lt (p.childL hl)
      simp only [setNodeIdx_eq, size_putNode, hllt, bind_ok, good_ok, hpni]
      exact p.firstVisit hnode hst hd [l] [ni, l] [(ni, _), (l, _)] (by simp) rfl rfl (by list_tac) (by list_tac) (by simp)
        (by child_tac p, hnl) (by asgp_tac) (by asg_tac) ⟨_, List.mem_cons_self⟩
  | initialized =>
    dsimp only
    exact p.lastVisit [] rfl rfl rfl (fun q hq => by cases hq) (fun q hq => by cases hq)

theorem handleBinaryOperationWithPush_total (p : Pre root tree G ph ctx ni pn)
    (hd : pn.definition ≠ .group ∧ pn.definition ≠ .nestedExpression) (hnl : isLate pn.definition = false) (ins : Instruction)
    (lr : Bool) : Good (Post root tree G ph) (handleBinaryOperationWithPush ins lr ctx ni pn) := by
  unfold handleBinaryOperationWithPush
  refine good_bind (getNode_good ctx.nodes ni) (fun node hnode => ?_)
  have hpni := p.pni hnode
  cases hst : node.state with
  | uninitialized =>
    dsimp only
    cases hr : pn.right with
    | none => exact good_buildErr
    | some r =>
      cases hl : pn.left with
      | none => exact good_buildErr
      | some l =>
        dsimp only
        have hrlt := p.child_lt (p.childR hr)
        have hllt := p.child_lt (p.childL hl)
        have hne := p.lr_ne hl hr
        simp only [setNodeIdx_eq, size_putNode, hrlt, hllt, bind_ok, good_ok, hpni]
        cases lr
        · exact p.firstVisit hnode hst hd [r, l] [ni, r, l] [(ni, _), (r, _), (l, _)] (by simp) rfl rfl (by list_tac) (by list_tac)
            (by list_tac) (by child_tac p, hnl) (by asgp_tac) (by asg_tac) ⟨_, List.mem_cons_self⟩
        · exact p.firstVisit hnode hst hd [r, l] [ni, l, r] [(ni, _), (r, _), (l, _)] (by simp) rfl rfl (by list_tac) (by list_tac)
            (by list_tac) (by child_tac p, hnl) (by asgp_tac) (by asg_tac) ⟨_, List.mem_cons_self⟩
  | initialized =>
    dsimp only
    exact p.lastVisit [] rfl rfl rfl (fun q hq => by cases hq) (fun q hq => by cases hq)


theorem handleReapply_total (p : Pre root tree G ph ctx ni pn)
    (hd : pn.definition ≠ .group ∧ pn.definition ≠ .nestedExpression) (hnl : isLate pn.definition = false) :
    Good (Post root tree G ph) (handleReapply ctx ni pn) := by
  unfold handleReapply
  refine good_bind (getNode_good ctx.nodes ni) (fun node hnode => ?_)
  have hpni := p.pni hnode
  cases hst : node.state with
  | uninitialized =>
    dsimp only
    cases hr : pn.right with
    | none => exact good_buildErr
    | some r =>
      dsimp only
      have hrlt := p.child_lt (p.childR hr)
      simp only [setNodeIdx_eq, size_putNode, hrlt, bind_ok, good_ok, hpni]
      exact p.firstVisit hnode hst hd [r] [ni, r] [(ni, _), (r, _)] (by simp) rfl rfl (by list_tac) (by list_tac) (by simp)
        (by child_tac p, hnl) (by asgp_tac) (by asg_tac) ⟨_, List.mem_cons_self⟩
  | initialized =>
    dsimp only
    exact p.lastVisit [] rfl rfl rfl (fun q hq => by cases hq) (fun q hq => by cases hq)

theorem handleSubexpression_total (p : Pre root tree G ph ctx ni pn)
    (hd : pn.definition ≠ .group ∧ pn.definition ≠ .nestedExpression) (hnl : isLate pn.definition = false) :
    Good (Post root tree G ph) (handleSubexpression ctx ni pn) := by
  unfold handleSubexpression
  refine good_bind (getNode_good ctx.nodes ni) (fun node hnode => ?_)
  have hpni := p.pni hnode
  cases hst : node.state with
  | uninitialized =>
    dsimp only
    cases hr : pn.right with
    | none => exact good_buildErr
    | some r =>
      cases hl : pn.left with
      | none => exact good_buildErr
      | some l =>
        dsimp only
        have hrlt := p.child_lt (p.childR hr)
        have hllt := p.child_lt (p.childL hl)
        have hne := p.lr_ne hl hr
        simp only [setNodeIdx_eq, size_putNode, hrlt, hllt, bind_ok, good_ok, hpni]
        exact p.firstVisit hnode hst hd [r, l] [r, ni, l] [(ni, _), (r, _), (l, _)] (by simp) rfl rfl (by list_tac) (by list_tac)
          (by list_tac) (by child_tac p, hnl) (by asgp_tac) (by asg_tac) ⟨_, List.mem_cons_self⟩
  | initialized =>
    dsimp only
    exact p.lastVisit [] rfl rfl rfl (fun q hq => by cases hq) (fun q hq => by cases hq)

theorem handleInfixApply_total (p : Pre root tree G ph ctx ni pn)
    (hd : pn.definition ≠ .group ∧ pn.definition ≠ .nestedExpression) (hnl : isLate pn.definition = false) :
    Good (Post root tree G ph) (handleInfixApply ctx ni pn) := by
  unfold handleInfixApply
  refine good_bind (getNode_good ctx.nodes ni) (fun node hnode => ?_)
  have hpni := p.pni hnode
  cases hst : node.state with
  | uninitialized =>
    dsimp only
    cases hr : pn.right with
    | none => exact good_buildErr
    | some r =>
      cases hl : pn.left with
      | none => exact good_buildErr
      | some l =>
        dsimp only
        have hrlt := p.child_lt (p.childR hr)
        have hllt := p.child_lt (p.childL hl)
        have hne := p.lr_ne hl hr
        simp only [setNodeIdx_eq, size_putNode, hrlt, hllt, bind_ok, good_ok, hpni]
        exact p.firstVisit hnode hst hd [r, l] [ni, r, l] [(ni, _), (r, _), (l, _)] (by simp) rfl rfl (by list_tac) (by list_tac)
          (by list_tac) (by child_tac p, hnl) (by asgp_tac) (by asg_tac) ⟨_, List.mem_cons_self⟩
  | initialized =>
    dsimp only
    exact p.lastVisit [] rfl rfl rfl (fun q hq => by cases hq) (fun q hq => by cases hq)

theorem handleUnaryFixApply_total (p : Pre root tree G ph ctx ni pn)
    (hd : pn.definition ≠ .group ∧ pn.definition ≠ .nestedExpression) (hnl : isLate pn.definition = false)
    {child : Option Nat} (hchild : child = pn.left ∨ child = pn.right) :
    Good (Post root tree G ph) (handleUnaryFixApply child ctx ni pn) := by
  unfold handleUnaryFixApply
  refine good_bind (getNode_good ctx.nodes ni) (fun node hnode => ?_)
  have hpni := p.pni hnode
  cases hst : node.state with
  | uninitialized =>
    dsimp only
    cases hc : child with
    | none => exact good_buildErr
    | some c =>
      dsimp only
      have hic : IsChild tree ni c := by
        rcases hchild with h | h
        · exact p.childL (by rw [← h]; exact hc)
        · exact p.childR (by rw [← h]; exact hc)
      have hclt := p.child_lt hic
      simp only [setNodeIdx_eq, size_putNode, hclt, bind_ok, good_ok, hpni]
      exact p.firstVisit hnode hst hd [c] [ni, c] [(ni, _), (c, _)] (by simp) rfl rfl (by list_tac) (by list_tac) (by simp)
        (fun x hx => by
          have : x = c := by simpa using hx
          subst this; exact ⟨hic, p.notLate hnl _⟩) (by asgp_tac) (by asg_tac) ⟨_, List.mem_cons_self⟩
  | initialized =>
    dsimp only
    exact p.lastVisit [] rfl rfl rfl (fun q hq => by cases hq) (fun q hq => by cases hq)

theorem handleSideEffect_total (p : Pre root tree G ph ctx ni pn)
    (hd : pn.definition ≠ .group ∧ pn.definition ≠ .nestedExpression) (hnl : isLate pn.definition = false) :
    Good (Post root tree G ph) (handleSideEffect ctx ni pn) := by
  unfold handleSideEffect
  refine good_bind (getNode_good ctx.nodes ni) (fun node hnode => ?_)
  have hpni := p.pni hnode
  cases hst : node.state with
  | uninitialized =>
    dsimp only
    cases hr : pn.right with
    | none =>
      dsimp only
      simp only [good_ok, hpni]
      exact p.firstVisit hnode hst hd [] [ni] [(ni, _)] (by simp) rfl rfl (by list_tac) (by list_tac) (by simp)
        (fun c hc => by cases hc) (by asgp_tac) (by asg_tac) ⟨_, List.mem_cons_self⟩
    | some r =>
      dsimp only
      have hrlt := p.child_lt (p.childR hr)
      simp only [setNodeIdx_eq, size_putNode, hrlt, bind_ok, good_ok, hpni]
      exact p.firstVisit hnode hst hd [r] [ni, r] [(ni, _), (r, _)] (by simp) rfl rfl (by list_tac) (by list_tac) (by simp)
        (by child_tac p, hnl) (by asgp_tac) (by asg_tac) ⟨_, List.mem_cons_self⟩
  | initialized =>
    dsimp only
    exact p.lastVisit [] rfl rfl rfl (fun q hq => by cases hq) (fun q hq => by cases hq)

end pre

end Garnish.Lemmas.BuildTotal
