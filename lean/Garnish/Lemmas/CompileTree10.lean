/-
The tie between the two builder models (10): binary operators, pairs, apply-to, infix identifier application.
-/
import Garnish.Lemmas.CompileTree9
namespace Garnish.Abs.Tree
open Garnish Garnish.Gen Garnish.Spec Garnish.Abs Garnish.Model.Parser Garnish.Model.Literals Garnish.Model.Build

variable {F : Type} {pf : List Char → Option F} {tree : Array ParseNode} {bodies : List (Nat × Expr F)}

/-- entries of the node array after a handler has marked `i` and scheduled `r` and `l` with `BuildNode.new` -/
theorem three_puts {nodes : Nodes} {i l r : Nat} (b bl br : BuildNode) (hi : i < nodes.size) (hl : l < nodes.size) (hr : r < nodes.size)
    (hil : i ≠ l) (hir : i ≠ r) (hlr : l ≠ r) :
    (putNode (putNode (putNode nodes i b) r br) l bl).size = nodes.size ∧
    (putNode (putNode (putNode nodes i b) r br) l bl)[i]? = some (some b) ∧
    (putNode (putNode (putNode nodes i b) r br) l bl)[l]? = some (some bl) ∧
    (putNode (putNode (putNode nodes i b) r br) l bl)[r]? = some (some br) ∧
    ∀ y, y ≠ i → y ≠ l → y ≠ r → (putNode (putNode (putNode nodes i b) r br) l bl)[y]? = nodes[y]? := by
  refine ⟨by simp, ?_, ?_, ?_, fun y h1 h2 h3 => ?_⟩
  · rw [get_putNode_ne (Ne.symm hil), get_putNode_ne (Ne.symm hir), get_putNode_same hi]
  · rw [get_putNode_same (by simpa using hl)]
  · rw [get_putNode_ne hlr, get_putNode_same (by simpa using hr)]
  · rw [get_putNode_ne (Ne.symm h2), get_putNode_ne (Ne.symm h3), get_putNode_ne (Ne.symm h1)]

theorem ival_split (lo hi i : Nat) (h : lo ≤ i ∧ i < hi) (y : Nat) :
    (y = i ∨ (Ival lo i y ∨ Ival (i + 1) hi y)) ↔ Ival lo hi y := by
  simp only [Ival]; omega

theorem ival_split' (lo hi i : Nat) (h : lo ≤ i ∧ i < hi) (y : Nat) :
    (y = i ∨ (Ival (i + 1) hi y ∨ Ival lo i y)) ↔ Ival lo hi y := by
  simp only [Ival]; omega

/-- the operands of a node scheduled by `handle_binary_operation_with_push`; `lr` = right operand first -/
theorem sim_binaryWP {lo hi i l r : Nat} {ins : Instruction} {lr : Bool} {e a b : Expr F} {pn : ParseNode}
    (hpn : tree[i]? = some pn)
    (hh : ∀ crj (ctx : Ctx F), handleParseNode pf ctx crj i pn = handleBinaryOperationWithPush ins lr ctx i pn)
    (hl : pn.left = some l) (hr : pn.right = some r) (hli : lo ≤ l ∧ l < i) (hri : i + 1 ≤ r ∧ r < hi)
    (hlt : l < tree.size) (hrt : r < tree.size)
    (hemit : ∀ root cur s, emit root cur e s =
      (if lr then emit root cur a (emit root cur b s) else emit root cur b (emit root cur a s)).push ins none)
    (iha : SimT pf tree bodies lo i l a) (ihb : SimT pf tree bodies (i + 1) hi r b) : SimT pf tree bodies lo hi i e := by
  have hsecond : ∀ (crj cur : Nat) (data : BState F) (nodes : Nodes) (RS S : Array Nat) (b : BuildNode) (s : LState F),
      nodes[i]? = some (some b) → b.state = .initialized → b.parseNodeIndex = i → b.containingExpressionJump = cur →
      DataEq data s →
      ∃ dataZ, handleParseNode pf ⟨data, nodes, RS, S⟩ crj i pn = .ok ⟨dataZ, nodes, RS, S⟩ ∧
        DataEq dataZ ((fun (_ : Nat) s => s.push ins none) cur s) := by
    intro crj cur data nodes RS S b s hb hs _ _ hd
    exact ⟨_, by rw [hh, binaryWP_second hb hs], hd.push _ _ _⟩
  cases lr with
  | false =>
    refine sim_two_children (pre_ := id) (post := fun _ s => s.push ins none) (c1 := l) (c2 := r) (e1 := a) (e2 := b)
      hpn ⟨by omega, by omega⟩ hli hri hlt hrt (ival_split lo hi i ⟨by omega, by omega⟩)
      (by simp only [Ival]; omega) (by simp only [Ival]; omega) (fun y h1 h2 => by simp only [Ival] at h1 h2; omega)
      (by omega) ?_ hsecond (fun _ => rfl) (fun _ => Nat.le_refl _) (fun _ _ => rfl)
      (fun root cur s => by rw [hemit]; rfl) iha ihb
    intro crj data nodes RS S b s hb hs hpi h1 h2 hd
    obtain ⟨e1, e2, e3, e4, e5⟩ := three_puts (visited b) (BuildNode.new l b.containingExpressionJump)
      (BuildNode.new r b.containingExpressionJump) (lt_of_get hb) h1 h2 (by omega) (by omega) (by omega)
    refine ⟨data, _, ?_, hd, e1, e2, e3, e4, fun y a1 a2 a3 => e5 y a1 a2 a3⟩
    rw [hh, binaryWP_first hl hr hb hs h1 h2, hpi]
    rfl
  | true =>
    refine sim_two_children (pre_ := id) (post := fun _ s => s.push ins none) (c1 := r) (c2 := l) (e1 := b) (e2 := a)
      hpn ⟨by omega, by omega⟩ hri hli hrt hlt (ival_split' lo hi i ⟨by omega, by omega⟩)
      (by simp only [Ival]; omega) (by simp only [Ival]; omega) (fun y h1 h2 => by simp only [Ival] at h1 h2; omega)
      (by omega) ?_ hsecond (fun _ => rfl) (fun _ => Nat.le_refl _) (fun _ _ => rfl)
      (fun root cur s => by rw [hemit]; rfl) ihb iha
    intro crj data nodes RS S b s hb hs hpi h1 h2 hd
    obtain ⟨e1, e2, e3, e4, e5⟩ := three_puts (visited b) (BuildNode.new l b.containingExpressionJump)
      (BuildNode.new r b.containingExpressionJump) (lt_of_get hb) h2 h1 (by omega) (by omega) (by omega)
    refine ⟨data, _, ?_, hd, e1, e2, e4, e3, fun y a1 a2 a3 => e5 y a1 a3 a2⟩
    rw [hh, binaryWP_first hl hr hb hs h2 h1, hpi]
    rfl

theorem sim_binary {lo hi i l r : Nat} {op : Instruction} {a b : Expr F} {pn : ParseNode} (hpn : tree[i]? = some pn)
    (hop : binOp pn.definition = some op) (hl : pn.left = some l) (hr : pn.right = some r)
    (hli : lo ≤ l ∧ l < i) (hri : i + 1 ≤ r ∧ r < hi) (hlt : l < tree.size) (hrt : r < tree.size)
    (iha : SimT pf tree bodies lo i l a) (ihb : SimT pf tree bodies (i + 1) hi r b) :
    SimT pf tree bodies lo hi i (.binary op a b) :=
  sim_binaryWP (lr := false) hpn (fun crj ctx => binOp_handler hop ctx) hl hr hli hri hlt hrt
    (fun _ _ _ => by simp only [emit]; rfl) iha ihb

theorem sim_pair {lo hi i l r : Nat} {a b : Expr F} {pn : ParseNode} (hpn : tree[i]? = some pn)
    (hd : pn.definition = .pair) (hl : pn.left = some l) (hr : pn.right = some r)
    (hli : lo ≤ l ∧ l < i) (hri : i + 1 ≤ r ∧ r < hi) (hlt : l < tree.size) (hrt : r < tree.size)
    (iha : SimT pf tree bodies lo i l a) (ihb : SimT pf tree bodies (i + 1) hi r b) :
    SimT pf tree bodies lo hi i (.pair a b) :=
  sim_binaryWP (ins := .makePair) (lr := true) hpn (fun crj ctx => by simp only [handleParseNode, hd]) hl hr hli hri hlt hrt
    (fun _ _ _ => by simp only [emit]; rfl) iha ihb

theorem sim_applyTo {lo hi i l r : Nat} {x f : Expr F} {pn : ParseNode} (hpn : tree[i]? = some pn)
    (hd : pn.definition = .applyTo) (hl : pn.left = some l) (hr : pn.right = some r)
    (hli : lo ≤ l ∧ l < i) (hri : i + 1 ≤ r ∧ r < hi) (hlt : l < tree.size) (hrt : r < tree.size)
    (ihx : SimT pf tree bodies lo i l x) (ihf : SimT pf tree bodies (i + 1) hi r f) :
    SimT pf tree bodies lo hi i (.applyTo x f) :=
  sim_binaryWP (ins := .apply) (lr := true) hpn (fun crj ctx => by simp only [handleParseNode, hd]) hl hr hli hri hlt hrt
    (fun _ _ _ => by simp only [emit]; rfl) ihx ihf

end Garnish.Abs.Tree
