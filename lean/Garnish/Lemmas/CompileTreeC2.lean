/-
The tie between the two builder models, else-chains (2): one conditional arm; an inner `ElseJump` node.
-/
import Garnish.Lemmas.CompileTreeC1
namespace Garnish.Abs.Tree
open Garnish Garnish.Gen Garnish.Spec Garnish.Abs Garnish.Model.Parser Garnish.Model.Literals Garnish.Model.Build

variable {F : Type} {pf : List Char → Option F} {tree : Array ParseNode} {bodies : List (Nat × Expr F)}

/-- a conditional arm of a chain: the condition inline, the `JumpIf`, and the body registered with the top of the chain -/
theorem sim_arm {lo hi a l r : Nat} {onTrue : Bool} {c t : Expr F} {pn : ParseNode} (hpn : tree[a]? = some pn)
    (hd : pn.definition = jumpIfDef onTrue) (hl : pn.left = some l) (hr : pn.right = some r)
    (hli : lo ≤ l ∧ l < a) (hri : a + 1 ≤ r ∧ r < hi) (hlt : l < tree.size) (hrt : r < tree.size)
    (hrep : Rep pf tree bodies (a + 1) hi r t) (ih : SimT pf tree bodies lo a l c) :
    SimArms pf tree bodies lo hi a [(onTrue, c, t)] := by
  intro crj root cur top data nodes RS S s tb hsz ha htop htb hdat hcur
  have halt : a < nodes.size := lt_of_get ha
  have hllt : l < nodes.size := by rw [hsz]; exact hlt
  -- first visit
  have hb0l : (mkNode a cur none (Ex.ofCond (some top))).listParent = none := rfl
  generalize hA : putNode (putNode nodes a (visited (mkNode a cur none (Ex.ofCond (some top))))) l (mkNode l cur none Ex.none) = A
  have hAa : A[a]? = some (some (visited (mkNode a cur none (Ex.ofCond (some top))))) := by rw [← hA, get_putNode_ne (by omega), get_putNode_same halt]
  have hAl : A[l]? = some (some (mkNode l cur none Ex.none)) := by rw [← hA, get_putNode_same (by simpa using hllt)]
  have hAo : ∀ y, y ≠ a → y ≠ l → A[y]? = nodes[y]? := fun y h1 h2 => by
    rw [← hA, get_putNode_ne (Ne.symm h2), get_putNode_ne (Ne.symm h1)]
  have hAsz : A.size = nodes.size := by rw [← hA]; simp
  have hhF : handleParseNode pf ⟨data, nodes, RS, S⟩ crj a pn = .ok ⟨data, A, RS, (S.push a).push l⟩ := by
    rw [jumpIf_instr onTrue _ crj a pn hd]
    simp only [handleJumpIf, getNode, ha, Outcome.bind, hl]
    rw [show (mkNode a cur none (Ex.ofCond (some top))).state = .uninitialized from rfl]
    simp only []
    rw [setNodeIdx_ok (by simpa using hllt), ← hA]
    rfl
  have st1 : Steps pf tree crj 1 ⟨data, nodes, RS, S.push a⟩ ⟨data, A, RS, (S.push a).push l⟩ :=
    Steps.one hpn hhF (afterHandle_id hAa (.inr hb0l))
  -- the condition
  have preC : Pre tree A lo a l cur none Ex.none tb :=
    Pre.child none tb (by rw [hAsz, hsz]) hAl (fun ⟨_, h⟩ => by cases h)
  obtain ⟨k1, data1, C, RS1, R1, stC, hk1, hd1, hrs1, hp1, done1, _⟩ :=
    ih crj root cur data A RS (S.push a) s none Ex.none tb preC hdat hcur
  -- second visit
  have hCa : C[a]? = some (some (visited (mkNode a cur none (Ex.ofCond (some top))))) := by
    rw [done1.frame a (by simp only [Ival]; omega) (fun _ _ h => by cases h)]; exact hAa
  have hCtop : C[top]? = some (some tb) := by
    rw [done1.frame top (by simp only [Ival]; omega) (fun _ _ h => by cases h), hAo top (by omega) (by omega)]; exact htb
  have hCsz : C.size = nodes.size := by rw [done1.size, hAsz]
  have hj1 : data1.jumps.size = (emit root cur c s).jumps.size := by rw [hd1.jumps]
  generalize hZ : putNode C top { tb with conditionalItems := tb.conditionalItems.push ⟨r, (emit root cur c s).jumps.size, (.invalid, none)⟩ } = Z
  have hhZ : handleParseNode pf ⟨data1, C, RS1, S⟩ crj a pn =
      .ok ⟨pushInstr (pushToJumpTable data1 0) (jumpIf onTrue) (some (emit root cur c s).jumps.size) (some a), Z, RS1, S⟩ := by
    rw [jumpIf_instr onTrue _ crj a pn hd]
    simp only [handleJumpIf, getNode, hCa, Outcome.bind, hr]
    rw [show (visited (mkNode a cur none (Ex.ofCond (some top)))).state = .initialized from rfl,
      show (visited (mkNode a cur none (Ex.ofCond (some top)))).conditionalParent = some top from rfl]
    simp only [hCtop, getJumpTableLen, hj1, ← hZ]
  have hZa : Z[a]? = some (some (visited (mkNode a cur none (Ex.ofCond (some top))))) := by rw [← hZ, get_putNode_ne (by omega)]; exact hCa
  have st2 : Steps pf tree crj 1 ⟨data1, C, RS1, S.push a⟩ ⟨_, Z, RS1, S⟩ :=
    Steps.one hpn hhZ (afterHandle_id hZa (.inr hb0l))
  refine ⟨1 + k1 + 1, _, Z, RS1, R1, [⟨r, a + 1, hi, (emit root cur c s).jumps.size, t⟩], (st1.trans stC).trans st2,
    by simp only [asum_cons, asum_nil]; omega, ?_, by simp [emitArms], hrs1, by simp [emitArms, LState.push, LState.pushJump, hp1], ?_⟩
  · simp only [emitArms]
    exact (hd1.pushJump 0).push _ _ _
  · have hZo : ∀ y, y ≠ top → Z[y]? = C[y]? := fun y h => by rw [← hZ, get_putNode_ne (Ne.symm h)]
    refine ⟨by rw [← hZ]; simp [hCsz], fun x hx hxt => ?_, ?_, fun q hq => ?_, fun m hm => ?_, fun x hx => ?_, done1.disj,
      List.pairwise_singleton _ _, fun q hq m hm => ?_⟩
    · rw [hZo x hxt, done1.frame x (fun h => hx (by simp only [Ival] at h ⊢; omega)) (fun _ _ h => by cases h),
        hAo x (fun e => hx (by subst e; exact ⟨by omega, by omega⟩)) (fun e => hx (by subst e; exact ⟨by omega, by omega⟩))]
    · rw [← hZ, get_putNode_same (by rw [hCsz]; exact lt_of_get htb)]
      simp only [List.map_cons, List.map_nil, ArmRec.item, Array.push_eq_append_singleton]
    · obtain ⟨x1, x2, x3, x4, x5⟩ := done1.roots q hq
      refine ⟨fun x h1 h2 => by have := x1 x h1 h2; simp only [Ival] at this ⊢; omega, x2, x3, ?_, x5⟩
      rw [hZo q.idx (by have := x1 _ x2 x3; simp only [Ival] at this; omega)]
      exact x4
    · simp only [List.mem_singleton] at hm
      subst hm
      exact ⟨fun x h1 h2 => ⟨by simp only at h1; omega, h2⟩, hri.1, hri.2, hrt, hrep⟩
    · by_cases hxa : x = a
      · subst hxa; exact .inl ⟨_, hZa⟩
      · by_cases hxl : x < a
        · rcases done1.cover x ⟨hx.1, hxl⟩ with ⟨b, hb⟩ | h
          · exact .inl ⟨b, by rw [hZo x (by have := hx.1; have := hx.2; omega)]; exact hb⟩
          · exact .inr (.inl h)
        · exact .inr (.inr ⟨_, List.mem_singleton.2 rfl, by simp only; omega, hx.2⟩)
    · simp only [List.mem_singleton] at hm
      subst hm
      obtain ⟨x1, x2, x3, _⟩ := done1.roots q hq
      have := x1 (q.hi - 1) (by omega) (by omega)
      simp only [Ival] at this
      exact .inl (by simp only; omega)

end Garnish.Abs.Tree
