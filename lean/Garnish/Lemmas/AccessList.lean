import Garnish.Lemmas.AccessIter
namespace Garnish.Access
open Garnish
open Garnish.BasicOpt (Cell)

theorem asList_cases (c : Cell) : (∃ n k, c = .list n k ∧ asList c = .ok (n, k)) ∨ asList c = .err .data := by
  cases c <;> simp [asList]

/-- `get_list_item`: never a panic; on a list the answer is no item for a negative index, `Err(InvalidListItemIndex)`
from the length on, the `index`-th item otherwise -/
theorem getListItem_spec {h : Heap} (wf : h.WF) (la : Nat) (ix : Num) :
    Safe (getListItem h la ix) ∧
    ∀ n k, la < h.cursor → h.cell la = some (.list n k) →
      ∃ items, collectItems (h.cellsAt (la + 1) n) = .ok items ∧ items.length = n ∧
        getListItem h la ix =
          if ix.ltZero then .ok none else if usizeFrom ix ≥ n then .err .data else .ok items[usizeFrom ix]? := by
  have main : ∀ n k, la < h.cursor → h.cell la = some (.list n k) →
      ∃ items, collectItems (h.cellsAt (la + 1) n) = .ok items ∧ items.length = n ∧
        getListItem h la ix =
          if ix.ltZero then .ok none else if usizeFrom ix ≥ n then .err .data else .ok items[usizeFrom ix]? := by
    intro n k hla hc
    obtain ⟨ys, hys, an⟩ := (fits_items wf).announced la _ n hla hc (by simp [asListLen, asList])
    refine ⟨ys, hys, an.length, ?_⟩
    unfold getListItem
    rw [getData_lt wf hla hc]; simp only [bind_ok, asList]
    by_cases hneg : ix.ltZero = true
    · simp [hneg]
    · simp only [hneg, if_false, Bool.false_eq_true]
      by_cases hge : usizeFrom ix ≥ n
      · simp only [hge, if_true]
      · simp only [hge, if_false]
        obtain ⟨c', y, hrd, hp, hy⟩ := an.read wf (j := usizeFrom ix) (by omega)
        cases hia : itemAddr la (usizeFrom ix) with
        | ok a =>
          rw [hia] at hrd; simp only [bind_ok] at hrd ⊢
          rw [hrd]; simp only [bind_ok, asListItem_of hp, hy]
        | err e => rw [hia] at hrd; simp at hrd
        | panic m => rw [hia] at hrd; simp at hrd
        | fuelOut => rw [hia] at hrd; simp at hrd
  refine ⟨?_, main⟩
  rcases getData_cases wf la with ⟨_, h1⟩ | ⟨hla, c, hc, h1⟩
  · unfold getListItem; rw [h1]; exact safe_err _
  · rcases asList_cases c with ⟨n, k, rfl, _⟩ | he
    · obtain ⟨ys, _, _, h2⟩ := main n k hla hc
      rw [h2]
      split
      · exact safe_ok _
      · split
        · exact safe_err _
        · exact safe_ok _
    · unfold getListItem; rw [h1]; simp only [bind_ok, he, bind_err]; exact safe_err _

theorem getListItemIter_safe {h : Heap} (wf : h.WF) (li : Nat) (s e : Num) : Safe (getListItemIter h li s e) := by
  rw [getListItemIter_eq]; exact (genIter_spec wf (bad_err _) (fits_items wf) _ li s e).1

/-! ### `get_concatenation_iter` -/

theorem vecSlice_ok {α} (items : List α) {a b : Nat} (site : String) (h1 : a ≤ b) (h2 : b ≤ items.length) :
    vecSlice items a b site = .ok (items.extract a b) := by
  have n1 : ¬ a > b := by omega
  have n2 : ¬ b > items.length := by omega
  simp [vecSlice, n1, n2, List.extract_eq_take_drop]

/-- the work-list loop never panics, whatever the fuel -/
theorem concatLoop_noPanic {h : Heap} (wf : h.WF) : ∀ fuel stack acc, NoPanic (concatLoop h fuel stack acc) := by
  intro fuel
  induction fuel with
  | zero => intro stack acc; cases stack <;> simp [concatLoop, noPanic_ok, noPanic_fuelOut]
  | succ fuel ih =>
    intro stack acc
    cases stack with
    | nil => simp [concatLoop, noPanic_ok]
    | cons index stack =>
      unfold concatLoop
      apply noPanic_bind (getData_safe wf index).noPanic
      intro c _
      split
      · exact ih _ _
      · exact noPanic_bind (getListItemIter_safe wf _ _ _).noPanic (fun _ _ => ih _ _)
      · exact ih _ _

/-- weight of the work list: the loop's potential (a concatenation refers to two earlier cells) -/
def stackWeight (stack : List Nat) : Nat := (stack.map (fun x => 3 ^ x)).sum

theorem pow3_pair {l r i : Nat} (hl : l < i) (hr : r < i) : 3 ^ l + 3 ^ r < 3 ^ i := by
  obtain ⟨j, rfl⟩ : ∃ j, i = j + 1 := ⟨i - 1, by omega⟩
  have h1 : 3 ^ l ≤ 3 ^ j := Nat.pow_le_pow_right (by omega) (by omega)
  have h2 : 3 ^ r ≤ 3 ^ j := Nat.pow_le_pow_right (by omega) (by omega)
  have h3 : 0 < 3 ^ j := Nat.pow_pos (by omega)
  rw [Nat.pow_succ]; omega

/-- with fuel at least the weight of the work list the loop finishes: `ok` or `err`, never out of fuel -/
theorem concatLoop_safe {h : Heap} (wf : h.WF) : ∀ fuel stack acc, stackWeight stack ≤ fuel → Safe (concatLoop h fuel stack acc) := by
  intro fuel
  induction fuel with
  | zero =>
    intro stack acc hw
    cases stack with
    | nil => exact safe_ok _
    | cons x xs =>
      have : 0 < 3 ^ x := Nat.pow_pos (by omega)
      simp [stackWeight] at hw <;> omega
  | succ fuel ih =>
    intro stack acc hw
    cases stack with
    | nil => exact safe_ok _
    | cons index stack =>
      have hpos : 0 < 3 ^ index := Nat.pow_pos (by omega)
      have hw' : 3 ^ index + stackWeight stack ≤ fuel + 1 := by simpa [stackWeight] using hw
      unfold concatLoop
      rcases getData_cases wf index with ⟨_, h1⟩ | ⟨hi, c, hc, h1⟩
      · rw [h1]; exact safe_err _
      · rw [h1]; simp only [bind_ok]
        split
        · rename_i l r
          have := wf.cellOK hi hc
          simp only [cellOK, Bool.and_eq_true, decide_eq_true_eq] at this
          have := pow3_pair this.1 this.2
          apply ih
          simp only [stackWeight, List.map_cons, List.sum_cons] at hw' ⊢
          omega
        · apply safe_bind (getListItemIter_safe wf _ _ _)
          intro items _
          apply ih; omega
        · apply ih; omega

theorem getConcatenationIter_noPanic {h : Heap} (wf : h.WF) (fuel index : Nat) (s e : Num) :
    NoPanic (getConcatenationIter h fuel index s e) := by
  unfold getConcatenationIter
  apply noPanic_bind (getData_safe wf index).noPanic; intro c _
  apply noPanic_bind; · cases c <;> simp [asConcatenation, noPanic_ok, noPanic_err]
  intro _ _
  apply noPanic_bind (concatLoop_noPanic wf _ _ _); intro items _
  rw [vecSlice_ok items _ (by omega) (by omega)]; exact noPanic_ok _

/-- `get_concatenation_iter` with enough fuel: `ok` or `err`; the result is the slice
`min start len .. min end len` of the flattened items (empty for a descending extent) -/
theorem getConcatenationIter_safe {h : Heap} (wf : h.WF) {fuel index : Nat} (hf : 3 ^ index ≤ fuel) (s e : Num) :
    Safe (getConcatenationIter h fuel index s e) ∧
    ∀ items, concatLoop h fuel [index] [] = .ok items → (∃ l r, h.cell index = some (.concatenation l r)) → index < h.cursor →
      getConcatenationIter h fuel index s e = .ok (items.extract (extentLo s items.length) (extentHi s e items.length)) := by
  constructor
  · unfold getConcatenationIter
    apply safe_bind (getData_safe wf index); intro c _
    apply safe_bind; · cases c <;> simp [asConcatenation, safe_ok, safe_err]
    intro _ _
    apply safe_bind (concatLoop_safe wf _ _ _ (by simpa [stackWeight] using hf)); intro items _
    rw [vecSlice_ok items _ (by omega) (by omega)]; exact safe_ok _
  · intro items hitems ⟨l, r, hc⟩ hi
    unfold getConcatenationIter
    rw [getData_lt wf hi hc]; simp only [bind_ok, asConcatenation, hitems]
    rw [vecSlice_ok items _ (by omega) (by omega)]
    rfl

/-! ### the association slice and the slicing conversions -/

theorem getAssociationSlice_safe {h : Heap} (wf : h.WF) (li : Nat) : Safe (getAssociationSlice h li) := by
  unfold getAssociationSlice
  rcases getData_cases wf li with ⟨_, h1⟩ | ⟨hi, c, hc, h1⟩
  · rw [h1]; exact safe_err _
  · rw [h1]; simp only [bind_ok]
    rcases asList_cases c with ⟨n, k, rfl, ha⟩ | he
    · have := wf.cellOK hi hc
      simp only [cellOK, Bool.and_eq_true, decide_eq_true_eq] at this
      have h1 := wf.1; have h2 := wf.2.1
      rw [ha]; simp only [bind_ok]
      rw [uadd_ok (by omega)]; simp only [bind_ok]
      rw [uadd_ok (by omega)]; simp only [bind_ok]
      rw [uadd_ok (by omega)]; simp only [bind_ok]
      rw [uadd_ok (by omega)]; simp only [bind_ok]
      rw [rawSlice_ok h _ (by omega) (by omega)]; exact safe_ok _
    · rw [he]; exact safe_err _

/-- conversions/bytes.rs slices the heap at the block-relative address: inside the allocation all the same -/
theorem convertBytesSlice_safe {h : Heap} (wf : h.WF) (from_ : Nat) : Safe (convertBytesSlice h from_) := by
  unfold convertBytesSlice
  rcases getData_cases wf from_ with ⟨_, h1⟩ | ⟨hi, c, hc, h1⟩
  · rw [h1]; exact safe_err _
  · rw [h1]; simp only [bind_ok]
    have hk := wf.cellOK hi hc
    have h1 := wf.1; have h2 := wf.2.1
    split
    all_goals first
      | exact safe_ok _
      | (simp only [cellOK, Bool.and_eq_true, decide_eq_true_eq] at hk
         rw [uadd_ok (by omega)]; simp only [bind_ok]
         rw [uadd_ok (by omega)]; simp only [bind_ok]
         rw [rawSlice_ok h _ (by omega) (by omega)]; exact safe_ok _)

/-- the `for i in from + 1 .. from + 1 + length` loops of the conversions read announced cells only -/
theorem inlineCellsAt_safe {h : Heap} (wf : h.WF) (from_ : Nat) : ∀ n, from_ + n < h.cursor → Safe (inlineCellsAt h from_ n) := by
  intro n
  induction n with
  | zero => intro _; exact safe_ok _
  | succ n ih =>
    intro hn
    unfold inlineCellsAt
    apply safe_bind (ih (by omega)); intro cs _
    have h1 := wf.1; have h2 := wf.2.1
    rw [uadd_ok (by omega)]; simp only [bind_ok]
    rw [uadd_ok (by omega)]; simp only [bind_ok]
    exact safe_bind (getData_safe wf _) (fun _ _ => safe_ok _)

theorem leBytesFill_safe : ∀ (bytes : List Nat) (i : Nat) (arr : Array Nat), i + bytes.length ≤ arr.size → Safe (leBytesFill bytes i arr) := by
  intro bytes
  induction bytes with
  | nil => intro i arr _; exact safe_ok _
  | cons b rest ih =>
    intro i arr hl
    unfold leBytesFill
    have : i < arr.size := by simp at hl; omega
    simp only [this, dite_true]
    apply ih; simp at hl ⊢; omega

/-- conversions/number.rs: the length test guards the index into `[0; 4]`, for every byte list -/
theorem bytesToI32_safe (bytes : List Nat) : Safe (bytesToI32 bytes) := by
  unfold bytesToI32
  split
  · exact safe_ok _
  · exact safe_bind (leBytesFill_safe bytes 0 _ (by simp; omega)) (fun _ _ => safe_ok _)

/-- conversions/string.rs: `end - 1` cannot underflow (`end = from + 1 + length ≥ 1`) -/
theorem separatorAfter_safe {from_ length : Nat} (i : Nat) (hb : from_ + 1 + length ≤ USIZE_MAX) :
    Safe (separatorAfter from_ length i) := by
  unfold separatorAfter
  rw [uadd_ok (by omega)]; simp only [bind_ok]
  rw [uadd_ok (by omega)]; simp only [bind_ok]
  rw [usub_ok (by omega)]; exact safe_ok _

end Garnish.Access
