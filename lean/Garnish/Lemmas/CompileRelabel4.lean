/-
Relabelling of body ids (4): `evalF_relabel` — proof by induction on the fuel.
-/
import Garnish.Lemmas.CompileRelabel3
namespace Garnish.Spec
open Garnish Gen Garnish.Abs

variable {F : Type} (fo : FloatOps F) {ρ : Nat → Nat} {h h' : Host F}

theorem relAll_zero : RelAll fo (ρ := ρ) h h' 0 := by
  refine ⟨fun _ _ _ _ => ?_, fun _ _ _ _ _ => ?_, fun _ _ _ _ _ => ?_, fun _ _ _ _ _ _ _ => ?_, fun _ _ _ _ => ?_⟩
  · simp [evalF]
  · simp [evalList]
  · simp [evalChain]
  · simp [applyVals]
  · simp [evalBody]

theorem relF_step (hρ : ∀ a b, ρ a = ρ b → a = b) (hh : HostRel ρ h h') {fuel : Nat} (ih : RelAll fo (ρ := ρ) h h' fuel)
    (bodies : List (Nat × Expr F)) (cur : Nat) (e : Expr F) (st : St F) :
    evalF fo h' (rlBodies ρ bodies) (ρ cur) (fuel + 1) (rlE ρ e) (St.rl ρ st) =
      Out.map (fun p => (Res.rl ρ p.1, St.rl ρ p.2)) (evalF fo h bodies cur (fuel + 1) e st) := by
  obtain ⟨ihF, ihL, ihC, ihA, ihB⟩ := ih
  cases e with
  | lit v => simp [rlE, evalF]
  | input => simp [rlE, evalF]
  | ident sym =>
    simp only [rlE, evalF, resolveVal_rl fo hh]
    generalize resolveVal fo h st sym = o
    rcases o with ⟨⟨v, st1⟩⟩ | e | _ <;> simp
  | unary op x =>
    simp only [rlE, evalF, ihF]
    generalize evalF fo h bodies cur fuel x st = o
    rcases o with ⟨⟨v | v, st1⟩⟩ | e | _ <;> simp only [Out.map_ok, Out.map_err, Out.map_fuelOut, Res.rl_val, Res.rl_restart]
    have ha := ihA bodies cur .emptyApply false v .unit st1
    simp only [Val.rl] at ha
    by_cases hop : (op == .emptyApply) = true
    · simp only [hop, if_true]; exact ha
    · simp only [hop, if_false, unaryOp_rl]
      cases unaryOp fo op v with
      | none => simp
      | some o =>
        simp only [Option.map_some, settle_rl hh]
        generalize settle h st1 o = o2
        rcases o2 with ⟨⟨r, st2⟩⟩ | e | _ <;> simp
  | binary op l r =>
    simp only [rlE, evalF, ihF]
    generalize evalF fo h bodies cur fuel l st = o
    rcases o with ⟨⟨vl | vl, st1⟩⟩ | e | _ <;> simp only [Out.map_ok, Out.map_err, Out.map_fuelOut, Res.rl_val, Res.rl_restart]
    simp only [ihF]
    generalize evalF fo h bodies cur fuel r st1 = o
    rcases o with ⟨⟨vr | vr, st2⟩⟩ | e | _ <;> simp only [Out.map_ok, Out.map_err, Out.map_fuelOut, Res.rl_val, Res.rl_restart]
    by_cases hop : (op == .apply) = true
    · simp only [hop, if_true]; exact ihA bodies cur .apply true vl vr st2
    · simp only [hop, if_false, binaryOp_rl fo hρ]
      cases binaryOp fo op vl vr with
      | none => simp
      | some o =>
        simp only [Option.map_some, settle_rl hh]
        generalize settle h st2 o = o2
        rcases o2 with ⟨⟨r, st3⟩⟩ | e | _ <;> simp
  | pair l r =>
    simp only [rlE, evalF, ihF]
    generalize evalF fo h bodies cur fuel r st = o
    rcases o with ⟨⟨vr | vr, st1⟩⟩ | e | _ <;> simp only [Out.map_ok, Out.map_err, Out.map_fuelOut, Res.rl_val, Res.rl_restart]
    simp only [ihF]
    generalize evalF fo h bodies cur fuel l st1 = o
    rcases o with ⟨⟨vl | vl, st2⟩⟩ | e | _ <;> simp only [Out.map_ok, Out.map_err, Out.map_fuelOut, Res.rl_val, Res.rl_restart]
    simp [Val.rl]
  | applyTo x f =>
    simp only [rlE, evalF, ihF]
    generalize evalF fo h bodies cur fuel f st = o
    rcases o with ⟨⟨vf | vf, st1⟩⟩ | e | _ <;> simp only [Out.map_ok, Out.map_err, Out.map_fuelOut, Res.rl_val, Res.rl_restart]
    simp only [ihF]
    generalize evalF fo h bodies cur fuel x st1 = o
    rcases o with ⟨⟨vx | vx, st2⟩⟩ | e | _ <;> simp only [Out.map_ok, Out.map_err, Out.map_fuelOut, Res.rl_val, Res.rl_restart]
    exact ihA bodies cur .apply true vf vx st2
  | list items =>
    have hl := ihL bodies cur items st []
    simp only [List.map_nil] at hl
    simp only [rlE, evalF, hl]
    generalize evalList fo h bodies cur fuel items st [] = o
    rcases o with ⟨⟨vs | v, st1⟩⟩ | e | _ <;> simp [rlSum]
  | cond onTrue c t =>
    simp only [rlE, evalF, ihF]
    generalize evalF fo h bodies cur fuel c st = o
    rcases o with ⟨⟨vc | vc, st1⟩⟩ | e | _ <;> simp only [Out.map_ok, Out.map_err, Out.map_fuelOut, Res.rl_val, Res.rl_restart]
    simp only [Val.rl_truthy]
    by_cases hc : (vc.truthy == onTrue) = true
    · simp only [hc, if_true, ihF]
    · simp [hc]
  | chain arms final =>
    rw [rlE_chain]
    simp only [evalF]
    exact ihC bodies cur arms final st
  | and l r =>
    simp only [rlE, evalF, ihF]
    generalize evalF fo h bodies cur fuel l st = o
    rcases o with ⟨⟨vl | vl, st1⟩⟩ | e | _ <;> simp only [Out.map_ok, Out.map_err, Out.map_fuelOut, Res.rl_val, Res.rl_restart]
    simp only [Val.rl_truthy]
    by_cases hc : vl.truthy = true
    · simp only [hc, if_true, ihF]
      generalize evalF fo h bodies cur fuel r st1 = o
      rcases o with ⟨⟨vr | vr, st2⟩⟩ | e | _ <;> simp
    · simp [hc, Val.rl]
  | or l r =>
    simp only [rlE, evalF, ihF]
    generalize evalF fo h bodies cur fuel l st = o
    rcases o with ⟨⟨vl | vl, st1⟩⟩ | e | _ <;> simp only [Out.map_ok, Out.map_err, Out.map_fuelOut, Res.rl_val, Res.rl_restart]
    simp only [Val.rl_truthy]
    by_cases hc : vl.truthy = true
    · simp [hc, Val.rl]
    · simp only [hc, if_false, ihF]
      generalize evalF fo h bodies cur fuel r st1 = o
      rcases o with ⟨⟨vr | vr, st2⟩⟩ | e | _ <;> simp
  | seq a b =>
    simp only [rlE, evalF, ihF]
    generalize evalF fo h bodies cur fuel a st = o
    rcases o with ⟨⟨va | va, st1⟩⟩ | e | _ <;> simp only [Out.map_ok, Out.map_err, Out.map_fuelOut, Res.rl_val, Res.rl_restart]
    exact ihF bodies cur b { st1 with inp := va }
  | sideAfter x body =>
    simp only [rlE, evalF, ihF]
    generalize evalF fo h bodies cur fuel x st = o
    rcases o with ⟨⟨vx | vx, st1⟩⟩ | e | _ <;> simp only [Out.map_ok, Out.map_err, Out.map_fuelOut, Res.rl_val, Res.rl_restart]
    simp only [ihF]
    generalize evalF fo h bodies cur fuel body st1 = o
    rcases o with ⟨⟨vb | vb, st2⟩⟩ | e | _ <;> simp only [Out.map_ok, Out.map_err, Out.map_fuelOut, Res.rl_val, Res.rl_restart]
    rfl
  | nested id => simp [rlE, evalF, Val.rl]
  | emptyNested => simp [rlE, evalF, Val.rl]
  | reapply x =>
    simp only [rlE, evalF, ihF]
    generalize evalF fo h bodies cur fuel x st = o
    rcases o with ⟨⟨v | v, st1⟩⟩ | e | _ <;> simp
  | prefixApply sym x =>
    simp only [rlE, evalF, resolveVal_rl fo hh]
    generalize resolveVal fo h st sym = o
    rcases o with ⟨⟨vf, st1⟩⟩ | e | _ <;> simp only [Out.map_ok, Out.map_err, Out.map_fuelOut, Res.rl_val, Res.rl_restart]
    simp only [ihF]
    generalize evalF fo h bodies cur fuel x st1 = o
    rcases o with ⟨⟨vx | vx, st2⟩⟩ | e | _ <;> simp only [Out.map_ok, Out.map_err, Out.map_fuelOut, Res.rl_val, Res.rl_restart]
    exact ihA bodies cur .apply true vf vx st2
  | suffixApply x sym =>
    simp only [rlE, evalF, resolveVal_rl fo hh]
    generalize resolveVal fo h st sym = o
    rcases o with ⟨⟨vf, st1⟩⟩ | e | _ <;> simp only [Out.map_ok, Out.map_err, Out.map_fuelOut, Res.rl_val, Res.rl_restart]
    simp only [ihF]
    generalize evalF fo h bodies cur fuel x st1 = o
    rcases o with ⟨⟨vx | vx, st2⟩⟩ | e | _ <;> simp only [Out.map_ok, Out.map_err, Out.map_fuelOut, Res.rl_val, Res.rl_restart]
    exact ihA bodies cur .apply true vf vx st2
  | infixApply a sym b =>
    simp only [rlE, evalF, resolveVal_rl fo hh]
    generalize resolveVal fo h st sym = o
    rcases o with ⟨⟨vf, st1⟩⟩ | e | _ <;> simp only [Out.map_ok, Out.map_err, Out.map_fuelOut, Res.rl_val, Res.rl_restart]
    simp only [ihF]
    generalize evalF fo h bodies cur fuel a st1 = o
    rcases o with ⟨⟨va | va, st2⟩⟩ | e | _ <;> simp only [Out.map_ok, Out.map_err, Out.map_fuelOut, Res.rl_val, Res.rl_restart]
    simp only [ihF]
    generalize evalF fo h bodies cur fuel b st2 = o
    rcases o with ⟨⟨vb | vb, st3⟩⟩ | e | _ <;> simp only [Out.map_ok, Out.map_err, Out.map_fuelOut, Res.rl_val, Res.rl_restart]
    have := ihA bodies cur .apply true vf (.list [va, vb]) st3
    simpa using this

theorem relAll_step (hρ : ∀ a b, ρ a = ρ b → a = b) (hh : HostRel ρ h h') {fuel : Nat} (ih : RelAll fo (ρ := ρ) h h' fuel) :
    RelAll fo (ρ := ρ) h h' (fuel + 1) := by
  refine ⟨relF_step fo hρ hh ih, ?_, ?_, ?_, ?_⟩
  all_goals obtain ⟨ihF, ihL, ihC, ihA, ihB⟩ := ih
  · intro bodies cur items st acc
    cases items with
    | nil => simp [rlEs, evalList, rlSum]
    | cons x xs =>
      simp only [rlEs, evalList, ihF]
      generalize evalF fo h bodies cur fuel x st = o
      rcases o with ⟨⟨v | v, st1⟩⟩ | e | _ <;> simp only [Out.map_ok, Out.map_err, Out.map_fuelOut, Res.rl_val, Res.rl_restart]
      · exact ihL bodies cur xs st1 (v :: acc)
      · simp [rlSum]
  · intro bodies cur arms final st
    cases arms with
    | nil =>
      cases final with
      | none => simp [rlArms, evalChain]
      | some e => simp only [rlArms, Option.map_some, evalChain, ihF]
    | cons a rest =>
      obtain ⟨onTrue, c, t⟩ := a
      simp only [rlArms, evalChain, ihF]
      generalize evalF fo h bodies cur fuel c st = o
      rcases o with ⟨⟨vc | vc, st1⟩⟩ | e | _ <;> simp only [Out.map_ok, Out.map_err, Out.map_fuelOut, Res.rl_val, Res.rl_restart]
      simp only [Val.rl_truthy]
      by_cases hc : (vc.truthy == onTrue) = true
      · simp only [hc, if_true, ihF]
      · simp only [hc, if_false]; exact ihC bodies cur rest final st1
  · intro bodies cur instr useRight f x st
    simp only [applyVals, applyKind_rl]
    cases applyKind fo instr useRight f x with
    | enter j input =>
      simp only [ApplyKind.rl_enter, lookupBody_rl hρ]
      cases lookupBody bodies j with
      | none => simp
      | some body =>
        simp only [Option.map_some]
        have hb := ihB bodies j body { st with inp := input }
        have e1 : ({ inp := Val.rl ρ input, trace := (St.rl ρ st).trace } : St F) = St.rl ρ { st with inp := input } := rfl
        rw [e1, hb]
        generalize evalBody fo h bodies j fuel body { st with inp := input } = o
        rcases o with ⟨⟨v, st1⟩⟩ | e | _ <;> simp only [Out.map_ok, Out.map_err, Out.map_fuelOut, Res.rl_val, Res.rl_restart]
        rfl
    | external n arg =>
      simp only [ApplyKind.rl_external, hh.apply]
      cases h.apply n arg <;> simp [St.rl, HostCall.rl, Val.rl]
    | out o =>
      simp only [ApplyKind.rl_out, settle_rl hh]
      generalize settle h st o = o2
      rcases o2 with ⟨⟨r, st2⟩⟩ | e | _ <;> simp
  · intro bodies cur body st
    simp only [evalBody, ihF]
    generalize evalF fo h bodies cur fuel body st = o
    rcases o with ⟨⟨v | v, st1⟩⟩ | e | _ <;> simp only [Out.map_ok, Out.map_err, Out.map_fuelOut, Res.rl_val, Res.rl_restart]
    exact ihB bodies cur body { st1 with inp := v }

theorem relAll (hρ : ∀ a b, ρ a = ρ b → a = b) (hh : HostRel ρ h h') : ∀ fuel, RelAll fo (ρ := ρ) h h' fuel
  | 0 => relAll_zero fo
  | fuel + 1 => relAll_step fo hρ hh (relAll hρ hh fuel)

/-- **evaluation is invariant under an injective renaming of the body ids**: renaming the `nested` ids, the table of
bodies, the current body and the expression values of the input renames the result, the final `$` and every value in
the host-call trace, and changes nothing else (same outcome class, same errors, same fuel) -/
theorem evalF_relabel (hρ : ∀ a b, ρ a = ρ b → a = b) (hh : HostRel ρ h h') (bodies : List (Nat × Expr F)) (cur fuel : Nat)
    (e : Expr F) (st : St F) :
    evalF fo h' (rlBodies ρ bodies) (ρ cur) fuel (rlE ρ e) (St.rl ρ st) =
      Out.map (fun p => (Res.rl ρ p.1, St.rl ρ p.2)) (evalF fo h bodies cur fuel e st) :=
  (relAll fo hρ hh fuel).1 bodies cur e st

theorem evalBody_relabel (hρ : ∀ a b, ρ a = ρ b → a = b) (hh : HostRel ρ h h') (bodies : List (Nat × Expr F)) (cur fuel : Nat)
    (body : Expr F) (st : St F) :
    evalBody fo h' (rlBodies ρ bodies) (ρ cur) fuel (rlE ρ body) (St.rl ρ st) =
      Out.map (fun p => (Val.rl ρ p.1, St.rl ρ p.2)) (evalBody fo h bodies cur fuel body st) :=
  (relAll fo hρ hh fuel).2.2.2.2 bodies cur body st

end Garnish.Spec
