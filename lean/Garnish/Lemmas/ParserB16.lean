/-
Implicit space lists, part 2 (model side): the state "after the List operator" (`listState`) and the three list-mode steps
(first token of the next operand = prefix operator / opening bracket / value).
-/
import Garnish.Lemmas.ParserB15

namespace Garnish.Spec
open Garnish Garnish.Gen Garnish.Model.Parser

/-- the state as if a binary operator `List` (token = the last token read) had just been processed -/
def listState (st : PState) (nodes' : Array ParseNode) (info : Info) : PState :=
  { st with nodes := nodes'.push ⟨.list, .startGrouping, info.parent, info.left, info.right, st.lastToken⟩,
            checkForList := false, nextParent := some st.nodes.size, lastLeft := some st.nodes.size,
            previousSecondDef := .binaryLeftToRight }

theorem comp_trivia_true (s : SecDef) (hs : s = .whitespace ∨ s = .annotation ∨ s = .subexpression) (x : SecDef)
    (hx : x = .unaryPrefix ∨ x = .startGrouping ∨ x = .value ∨ x = .identifier) : checkComposition s x true = true := by
  rcases hs with rfl | rfl | rfl <;> rcases hx with rfl | rfl | rfl | rfl <;> rfl

/-- list mode, first token of the operand is a prefix operator -/
theorem step_list_prefix (st : PState) (ug : Option Nat) (p : PToken) (hp : isPrefixTok p = true)
    (hug : underGroupOf st = .ok ug) (hadj : adjustLastLeft st ug = .ok st) (hnnl : st.nextLastLeft = none)
    (hcfl : st.checkForList = true)
    (hprev : st.previousSecondDef = .whitespace ∨ st.previousSecondDef = .annotation ∨
      st.previousSecondDef = .subexpression)
    {nodes' : Array ParseNode} {info : Info}
    (hpt : parseToken st.nodes.size .list st.lastLeft (some (st.nodes.size + 1)) st.nodes ug false = .ok (nodes', info)) :
    step st p false = .ok (stepP (listState st nodes' info) p) := by
  obtain ⟨hsz, hdef⟩ := parseToken_size_def hpt
  unfold isPrefixTok at hp
  have hs : (getDefinition p.type).2 = .unaryPrefix := by simpa using hp
  obtain ⟨q, _, _, f1, f2, _, _, _⟩ := prefix_def_facts p.type hs
  have hcomp := comp_trivia_true _ hprev .unaryPrefix (Or.inl rfl)
  unfold step stepP listState
  simp only [hug, hadj, Outcome.bind]
  generalize getDefinition p.type = ds at hs f1 f2 ⊢
  obtain ⟨d, s⟩ := ds
  simp only at hs f1 f2 ⊢
  subst hs
  have hmatch : ∀ (par : Option Nat) (nodes : Array ParseNode), (match d with
      | Definition.identifier =>
        match par.bind fun p => nodes[p]? with
        | none => d
        | some p => if (p.definition == Definition.access) = true then Definition.property else d
      | d => d) = d := by
    intro par nodes; cases d <;> first | rfl | exact absurd rfl f2
  simp only [hcfl, hcomp, Bool.not_true, Bool.false_eq_true, if_false, if_true, dispatch, armUnaryPrefix, pushListNode,
    parseTokenLeftToRight, parseTokenSt, hpt, Outcome.bind, pushNode, f1, hmatch, hdef]
  simp [Array.size_push, hsz, hnnl]

/-- list mode, first token of the operand is an opening bracket -/
theorem step_list_open (st : PState) (ug : Option Nat) (o : PToken) (ho : isOpenTok o = true)
    (hug : underGroupOf st = .ok ug) (hadj : adjustLastLeft st ug = .ok st) (hnnl : st.nextLastLeft = none)
    (hcfl : st.checkForList = true)
    (hprev : st.previousSecondDef = .whitespace ∨ st.previousSecondDef = .annotation ∨
      st.previousSecondDef = .subexpression)
    {nodes' : Array ParseNode} {info : Info}
    (hpt : parseToken st.nodes.size .list st.lastLeft (some (st.nodes.size + 1)) st.nodes ug false = .ok (nodes', info)) :
    step st o false = .ok (stepO (listState st nodes' info) o) := by
  obtain ⟨hsz, hdef⟩ := parseToken_size_def hpt
  obtain ⟨hs, hd⟩ := open_def_facts ho
  have hcomp := comp_trivia_true _ hprev .startGrouping (Or.inr (Or.inl rfl))
  unfold step stepO listState
  simp only [hug, hadj, Outcome.bind]
  generalize getDefinition o.type = ds at hs hd ⊢
  obtain ⟨d, s⟩ := ds
  simp only at hs hd ⊢
  subst hs
  rcases hd with hd | hd <;> subst hd <;>
  · simp only [hcfl, hcomp, Bool.not_true, Bool.false_eq_true, if_false, if_true, dispatch, armStartGrouping, pushListNode,
      parseTokenLeftToRight, parseTokenSt, hpt, Outcome.bind, pushNode, hdef]
    simp [Array.size_push, hsz, hnnl]

/-- the state after a value in list mode -/
def listValue (st : PState) (nodes' : Array ParseNode) (info : Info) (a : PToken) : PState :=
  { st with nodes := (listState st nodes' info).nodes.push
              ⟨underDef .list (getDefinition a.type).1, (getDefinition a.type).2, some st.nodes.size, none, none, a⟩,
            checkForList := false, lastLeft := some (st.nodes.size + 1), previousSecondDef := (getDefinition a.type).2,
            lastToken := a }

/-- list mode, the operand is a value -/
theorem step_list_value (st : PState) (ug : Option Nat) (a : PToken) (il : Bool) (ha : isAtom10 a = true)
    (hug : underGroupOf st = .ok ug) (hadj : adjustLastLeft st ug = .ok st) (hnnl : st.nextLastLeft = none)
    (hcfl : st.checkForList = true)
    (hprev : st.previousSecondDef = .whitespace ∨ st.previousSecondDef = .annotation ∨
      st.previousSecondDef = .subexpression)
    {nodes' : Array ParseNode} {info : Info}
    (hpt : parseToken st.nodes.size .list st.lastLeft (some (st.nodes.size + 1)) st.nodes ug false = .ok (nodes', info))
    (hir : info.right = some (st.nodes.size + 1)) :
    step st a il = .ok (listValue st nodes' info a) := by
  obtain ⟨hsz, hdef⟩ := parseToken_size_def hpt
  obtain ⟨hsa, hqa⟩ := atom10_facts ha
  obtain ⟨_, a2, _⟩ := prio10_facts hqa
  have hcomp : checkComposition st.previousSecondDef (getDefinition a.type).2 true = true := by
    rcases hsa with h | h <;> rw [h]
    · exact comp_trivia_true _ hprev .value (Or.inr (Or.inr (Or.inl rfl)))
    · exact comp_trivia_true _ hprev .identifier (Or.inr (Or.inr (Or.inr rfl)))
  -- the value's own `parse_token`: it stops at the List node
  have hL : (nodes'.push ⟨.list, .startGrouping, info.parent, info.left, info.right, st.lastToken⟩)[st.nodes.size]? =
      some ⟨.list, .startGrouping, info.parent, info.left, info.right, st.lastToken⟩ := by
    rw [Array.getElem?_push, if_pos hsz.symm]
  have hpt2 : parseToken (st.nodes.size + 1) (getDefinition a.type).1 (some st.nodes.size) none
      (nodes'.push ⟨.list, .startGrouping, info.parent, info.left, info.right, st.lastToken⟩) ug false =
      .ok (nodes'.push ⟨.list, .startGrouping, info.parent, info.left, info.right, st.lastToken⟩,
        ⟨(getDefinition a.type).1, some st.nodes.size, none, none⟩) := by
    have hs' : (nodes'.push ⟨.list, .startGrouping, info.parent, info.left, info.right, st.lastToken⟩).size =
        st.nodes.size + 1 := by simp [hsz]
    have := parseToken_atomW (ug := ug) (right := none) (rtl := false) hqa hL
      (walk_top_stop (ug := ug) (qo := 220) false hL rfl (Or.inl (by omega))) (by rw [hs']; exact hir)
    rw [hs'] at this
    exact this
  have hren : ∀ d' : Definition, (match d' with
      | Definition.identifier =>
        match (some st.nodes.size).bind fun p =>
            (nodes'.push ⟨.list, .startGrouping, info.parent, info.left, info.right, st.lastToken⟩)[p]? with
        | none => d'
        | some p => if (p.definition == Definition.access) = true then Definition.property else d'
      | d => d) = underDef .list d' := by
    intro d'
    unfold underDef
    cases d' <;> simp [hL]
  unfold step listValue listState
  simp only [hug, hadj, Outcome.bind]
  generalize getDefinition a.type = ds at hsa a2 hcomp hpt2 ⊢
  obtain ⟨d, sa⟩ := ds
  simp only at hsa a2 hcomp hpt2 ⊢
  rcases hsa with hsa | hsa <;> subst hsa <;>
  · simp only [hcfl, hcomp, Bool.not_true, Bool.false_eq_true, if_false, if_true, dispatch, parseValueLike, pushListNode,
      parseTokenLeftToRight, parseTokenSt, hpt, Outcome.bind, hdef, Array.size_push, hsz, hpt2, pushNode, a2]
    simp only [Array.size_push, hsz, hnnl, Option.bind_some, hL]
    congr 2

end Garnish.Spec
