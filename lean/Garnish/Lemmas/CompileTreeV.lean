/-
The tie between the two builder models: `validate_parse_tree` accepts every tree that has the shape `Rep` describes and
whose parent links mirror the child links.
`Shape tree lo hi i` — node `i` with its subtree occupying exactly `[lo, hi)` in in-order numbering, every child naming its
parent.  The validation loop (a depth-first walk with a visited array) marks exactly the interval.
-/
import Garnish.Lemmas.CompileTree15
namespace Garnish.Abs.Tree
open Garnish Garnish.Gen Garnish.Spec Garnish.Abs Garnish.Model.Parser Garnish.Model.Literals Garnish.Model.Build

variable (tree : Array ParseNode)

/-- child `c` of node `i` exists and names `i` as its parent -/
def ChildOf (i c : Nat) : Prop := ∃ pc, tree[c]? = some pc ∧ pc.parent = some i

inductive Shape : Nat → Nat → Nat → Prop where
  | leaf {i : Nat} {pn : ParseNode} : tree[i]? = some pn → pn.left = none → pn.right = none → Shape i (i + 1) i
  | right {hi i r : Nat} {pn : ParseNode} : tree[i]? = some pn → pn.left = none → pn.right = some r → ChildOf tree i r →
      Shape (i + 1) hi r → Shape i hi i
  | left {lo i l : Nat} {pn : ParseNode} : tree[i]? = some pn → pn.left = some l → pn.right = none → ChildOf tree i l →
      Shape lo i l → Shape lo (i + 1) i
  | both {lo hi i l r : Nat} {pn : ParseNode} : tree[i]? = some pn → pn.left = some l → pn.right = some r →
      ChildOf tree i l → ChildOf tree i r → Shape lo i l → Shape (i + 1) hi r → Shape lo hi i

variable {tree}

theorem Shape.bounds : ∀ {lo hi i : Nat}, Shape tree lo hi i → lo ≤ i ∧ i < hi ∧ hi ≤ tree.size
  | _, _, _, .leaf h _ _ => ⟨Nat.le_refl _, by omega, by have := lt_of_get h; omega⟩
  | _, _, _, .right h _ _ _ hr => by have := hr.bounds; exact ⟨Nat.le_refl _, by omega, by omega⟩
  | _, _, _, .left h _ _ _ hl => by have := hl.bounds; have := lt_of_get h; exact ⟨by omega, by omega, by omega⟩
  | _, _, _, .both h _ _ _ _ hl hr => by have := hl.bounds; have := hr.bounds; exact ⟨by omega, by omega, by omega⟩

/-- all of `[lo, hi)` marked, the rest as before -/
def Marked (lo hi : Nat) (v v' : Array Bool) : Prop :=
  v'.size = v.size ∧ (∀ x, lo ≤ x → x < hi → v'[x]? = some true) ∧ (∀ x, (x < lo ∨ hi ≤ x) → v'[x]? = v[x]?)

theorem validateChild_ok {i c : Nat} {visited : Array Bool} {stack : Array Nat} (hc : ChildOf tree i c)
    (hv : visited[c]? = some false) :
    validateChild tree i visited stack c = .ok (visited.setIfInBounds c true, stack.push c) := by
  obtain ⟨pc, hpc, hpar⟩ := hc
  simp only [validateChild, hpc, hv, hpar]
  simp

theorem get_set_true {v : Array Bool} {c x : Nat} (hc : c < v.size) :
    (v.setIfInBounds c true)[x]? = if c = x then some true else v[x]? := by
  rw [Array.getElem?_setIfInBounds]
  split
  · simp [hc]
  · rfl

/-- one iteration of the validation loop on a node whose children (if any) are unvisited -/
theorem validate_pop {i : Nat} {pn : ParseNode} (hpn : tree[i]? = some pn) (n : Nat) (visited : Array Bool) (S : Array Nat)
    (hl : ∀ l, pn.left = some l → ChildOf tree i l ∧ visited[l]? = some false)
    (hr : ∀ r, pn.right = some r → ChildOf tree i r ∧ visited[r]? = some false ∧ pn.left ≠ some r) :
    validateLoop tree (n + 1) visited (S.push i) =
      validateLoop tree n
        (match pn.right with
          | none => (match pn.left with | none => visited | some l => visited.setIfInBounds l true)
          | some r => (match pn.left with | none => visited | some l => visited.setIfInBounds l true).setIfInBounds r true)
        (match pn.right with
          | none => (match pn.left with | none => S | some l => S.push l)
          | some r => (match pn.left with | none => S | some l => S.push l).push r) := by
  simp only [validateLoop, Array.back?_push, Array.pop_push, hpn]
  cases hL : pn.left with
  | none =>
    cases hR : pn.right with
    | none => simp [Outcome.bind]
    | some r =>
      obtain ⟨c, hv, _⟩ := hr r hR
      simp [Outcome.bind, validateChild_ok c hv]
  | some l =>
    obtain ⟨cl, hvl⟩ := hl l hL
    cases hR : pn.right with
    | none => simp [Outcome.bind, validateChild_ok cl hvl]
    | some r =>
      obtain ⟨cr, hvr, hne⟩ := hr r hR
      have hlr : l ≠ r := fun e => hne (by rw [hL, e])
      have hlsz : l < visited.size := lt_of_get hvl
      have hvr' : (visited.setIfInBounds l true)[r]? = some false := by rw [get_set_true hlsz, if_neg hlr]; exact hvr
      simp [Outcome.bind, validateChild_ok cl hvl, validateChild_ok cr hvr']

/-- the walk over one subtree -/
theorem validate_shape : ∀ {lo hi i : Nat}, Shape tree lo hi i → ∀ (n : Nat) (visited : Array Bool) (S : Array Nat),
    visited.size = tree.size → visited[i]? = some true → (∀ x, lo ≤ x → x < hi → x ≠ i → visited[x]? = some false) →
    ∃ v', Marked lo hi visited v' ∧
      validateLoop tree (n + (hi - lo)) visited (S.push i) = validateLoop tree n v' S
  | _, _, _, .leaf (i := i) h hl hr, n, visited, S, hsz, hi', hfalse => by
    refine ⟨visited, ⟨rfl, fun x h1 h2 => ?_, fun _ _ => rfl⟩, ?_⟩
    · have : x = i := by omega
      subst this; exact hi'
    · have e : n + (i + 1 - i) = n + 1 := by omega
      rw [e, validate_pop h n visited S (fun l h' => by rw [hl] at h'; cases h') (fun r h' => by rw [hr] at h'; cases h')]
      simp only [hl, hr]
  | _, _, _, .right (hi := hi) (i := i) (r := r) h hl hr hc hs, n, visited, S, hsz, hi', hfalse => by
    have hb := hs.bounds
    have hvr : visited[r]? = some false := hfalse r (by omega) (by omega) (by omega)
    have e : n + (hi - i) = (n + (hi - (i + 1))) + 1 := by omega
    rw [e, validate_pop h _ visited S (fun l h' => by rw [hl] at h'; cases h')
      (fun r' h' => by rw [hr] at h'; cases h'; exact ⟨hc, hvr, by rw [hl]; simp⟩)]
    simp only [hl, hr]
    have hrsz : r < visited.size := lt_of_get hvr
    obtain ⟨v', hm, hloop⟩ := validate_shape hs n (visited.setIfInBounds r true) S (by simpa using hsz)
      (by rw [get_set_true hrsz]; simp)
      (fun x h1 h2 h3 => by rw [get_set_true hrsz, if_neg (Ne.symm h3)]; exact hfalse x (by omega) h2 (by omega))
    refine ⟨v', ⟨by rw [hm.1]; simp, fun x h1 h2 => ?_, fun x hx => ?_⟩, hloop⟩
    · by_cases hxi : x = i
      · subst hxi
        rw [hm.2.2 x (by omega), get_set_true hrsz, if_neg (by omega)]; exact hi'
      · exact hm.2.1 x (by omega) h2
    · rw [hm.2.2 x (by omega), get_set_true hrsz, if_neg (by omega)]
  | _, _, _, .left (lo := lo) (i := i) (l := l) h hl hr hc hs, n, visited, S, hsz, hi', hfalse => by
    have hb := hs.bounds
    have hvl : visited[l]? = some false := hfalse l (by omega) (by omega) (by omega)
    have e : n + (i + 1 - lo) = (n + (i - lo)) + 1 := by omega
    rw [e, validate_pop h _ visited S (fun l' h' => by rw [hl] at h'; cases h'; exact ⟨hc, hvl⟩)
      (fun r' h' => by rw [hr] at h'; cases h')]
    simp only [hl, hr]
    have hlsz : l < visited.size := lt_of_get hvl
    obtain ⟨v', hm, hloop⟩ := validate_shape hs n (visited.setIfInBounds l true) S (by simpa using hsz)
      (by rw [get_set_true hlsz]; simp)
      (fun x h1 h2 h3 => by rw [get_set_true hlsz, if_neg (Ne.symm h3)]; exact hfalse x h1 (by omega) (by omega))
    refine ⟨v', ⟨by rw [hm.1]; simp, fun x h1 h2 => ?_, fun x hx => ?_⟩, hloop⟩
    · by_cases hxi : x = i
      · subst hxi
        rw [hm.2.2 x (by omega), get_set_true hlsz, if_neg (by omega)]; exact hi'
      · exact hm.2.1 x h1 (by omega)
    · rw [hm.2.2 x (by omega), get_set_true hlsz, if_neg (by omega)]
  | _, _, _, .both (lo := lo) (hi := hi) (i := i) (l := l) (r := r) h hl hr hcl hcr hsl hsr, n, visited, S, hsz, hi', hfalse => by
    have hbl := hsl.bounds
    have hbr := hsr.bounds
    have hvl : visited[l]? = some false := hfalse l (by omega) (by omega) (by omega)
    have hvr : visited[r]? = some false := hfalse r (by omega) (by omega) (by omega)
    have e : n + (hi - lo) = ((n + (i - lo)) + (hi - (i + 1))) + 1 := by omega
    rw [e, validate_pop h _ visited S (fun l' h' => by rw [hl] at h'; cases h'; exact ⟨hcl, hvl⟩)
      (fun r' h' => by rw [hr] at h'; cases h'; exact ⟨hcr, hvr, by rw [hl]; simp; omega⟩)]
    simp only [hl, hr]
    have hlsz : l < visited.size := lt_of_get hvl
    have hrsz : r < (visited.setIfInBounds l true).size := by simpa using lt_of_get hvr
    generalize hv2 : (visited.setIfInBounds l true).setIfInBounds r true = v2
    have hv2g : ∀ x, v2[x]? = if r = x then some true else if l = x then some true else visited[x]? := fun x => by
      rw [← hv2, get_set_true hrsz, get_set_true hlsz]
    have hv2sz : v2.size = tree.size := by rw [← hv2]; simpa using hsz
    obtain ⟨v3, hm3, hloop3⟩ := validate_shape hsr (n + (i - lo)) v2 (S.push l) hv2sz (by rw [hv2g]; simp)
      (fun x h1 h2 h3 => by
        rw [hv2g, if_neg (Ne.symm h3), if_neg (by omega)]; exact hfalse x (by omega) h2 (by omega))
    rw [hloop3]
    obtain ⟨v4, hm4, hloop4⟩ := validate_shape hsl n v3 S (by rw [hm3.1]; exact hv2sz)
      (by rw [hm3.2.2 l (by omega), hv2g, if_neg (by omega)]; simp)
      (fun x h1 h2 h3 => by
        rw [hm3.2.2 x (by omega), hv2g, if_neg (by omega), if_neg (Ne.symm h3)]; exact hfalse x h1 (by omega) (by omega))
    refine ⟨v4, ⟨by rw [hm4.1, hm3.1, hv2sz, hsz], fun x h1 h2 => ?_, fun x hx => ?_⟩, hloop4⟩
    · by_cases hxl : x < i
      · exact hm4.2.1 x h1 hxl
      · rw [hm4.2.2 x (by omega)]
        by_cases hxi : x = i
        · subst hxi
          rw [hm3.2.2 x (by omega), hv2g, if_neg (by omega), if_neg (by omega)]; exact hi'
        · exact hm3.2.1 x (by omega) h2
    · rw [hm4.2.2 x (by omega), hm3.2.2 x (by omega), hv2g, if_neg (by omega), if_neg (by omega)]

/-- **`validate_parse_tree` accepts a tree of the right shape** whose root has no parent -/
theorem validate_ok {root : Nat} {pn : ParseNode} (hs : Shape tree 0 tree.size root) (hroot : tree[root]? = some pn)
    (hpar : pn.parent = none) : validateParseTree root tree = .ok () := by
  have hb := hs.bounds
  simp only [validateParseTree, hroot, hpar]
  generalize hv0 : (Array.replicate tree.size false).setIfInBounds root true = v0
  have hv0sz : v0.size = tree.size := by rw [← hv0]; simp
  have hv0g : ∀ x, x < tree.size → v0[x]? = if root = x then some true else some false := fun x hx => by
    rw [← hv0, get_set_true (by simpa using hb.2.1)]
    split
    · rfl
    · simp [hx]
  obtain ⟨v', hm, hloop⟩ := validate_shape hs 1 v0 #[] hv0sz (by rw [hv0g root hb.2.1]; simp)
    (fun x h1 h2 h3 => by rw [hv0g x h2, if_neg (Ne.symm h3)])
  have e : tree.size + 1 = 1 + (tree.size - 0) := by omega
  have hpush : (#[root] : Array Nat) = (#[] : Array Nat).push root := rfl
  rw [e, hpush, hloop]
  simp only [validateLoop, Outcome.bind]
  have hall : ((tree.toList.zip v'.toList).all fun x => x.2 || x.1.definition == Definition.subexpression) = true := by
    rw [List.all_eq_true]
    intro p hp
    obtain ⟨k, hk1, hk2⟩ := List.mem_iff_getElem.1 hp
    simp only [List.getElem_zip] at hk2
    have hklt : k < tree.size := by simp at hk1; omega
    have h1 := hm.2.1 k (Nat.zero_le _) hklt
    have hkv : k < v'.size := by rw [hm.1, hv0sz]; exact hklt
    have : v'.toList[k]'(by simpa using hkv) = true := by
      have h2 : v'[k]? = some (v'.toList[k]'(by simpa using hkv)) := by simp [hkv]
      rw [h1] at h2
      exact (Option.some.inj h2).symm
    rw [← hk2]
    simp [this]
  have hback : (#[] : Array Nat).back? = none := rfl
  simp only [hback, hall, if_true]

end Garnish.Abs.Tree
