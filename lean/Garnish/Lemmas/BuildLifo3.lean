/-
C04, builder half — the order of the out-of-line parts, part 3: the part of a validated node vector that is reachable from
the root is a tree (`Depth`): ancestors are unique per depth, `LastB` is irreflexive on reachable nodes.
-/
import Garnish.Lemmas.BuildLifo2
namespace Garnish.Lemmas.BuildSeq
open Garnish Garnish.Gen Garnish.Model.Parser Garnish.Model.Literals Garnish.Model.Build Garnish.Lemmas.Build
open Garnish.Lemmas.BuildTotal

variable {root : Nat} {tree : Array ParseNode} {G : Nat → Prop}

/-- `x` is reachable from the root by `n` links -/
inductive Depth (tree : Array ParseNode) (root : Nat) : Nat → Nat → Prop
  | root : Depth tree root root 0
  | step {w x n : Nat} : Depth tree root w n → IsChild tree w x → Depth tree root x (n + 1)

theorem Depth.inG (V : Validated root tree G) {x n : Nat} (h : Depth tree root x n) : G x := by
  induction h with
  | root => exact V.rootIn
  | step _ hc ih => exact (child_facts V ih hc).1

theorem depth_of_sub {x : Nat} (h : Sub tree root x) : ∃ n, Depth tree root x n := by
  induction h with
  | refl => exact ⟨0, .root⟩
  | step _ hc ih => obtain ⟨n, hn⟩ := ih; exact ⟨n + 1, .step hn hc⟩

theorem Depth.sub {x n : Nat} (h : Depth tree root x n) : Sub tree root x := by
  induction h with
  | root => exact Sub.refl _
  | step _ hc ih => exact Sub.step ih hc

theorem depth_fun (V : Validated root tree G) {x n m : Nat} (h1 : Depth tree root x n) (h2 : Depth tree root x m) : n = m := by
  induction h1 generalizing m with
  | root =>
    cases h2 with
    | root => rfl
    | step hw hc => exact absurd rfl (child_ne_root V (hw.inG V) hc)
  | @step w x n hw hc ih =>
    cases h2 with
    | root => exact absurd rfl (child_ne_root V (hw.inG V) hc)
    | @step w' _ m' hw' hc' =>
      have := parent_unique V (hw.inG V) (hw'.inG V) hc hc'
      subst this
      rw [ih hw']

/-- below a node the depth grows, strictly for proper descendants -/
theorem sub_depth (V : Validated root tree G) {a x n : Nat} (ha : Depth tree root a n) (h : Sub tree a x) :
    ∃ m, Depth tree root x m ∧ n ≤ m ∧ (m = n → x = a) := by
  induction h with
  | refl => exact ⟨n, ha, Nat.le_refl _, fun _ => rfl⟩
  | @step w x _ hc ih =>
    obtain ⟨m, hm, hle, _⟩ := ih
    exact ⟨m + 1, .step hm hc, by omega, fun e => by omega⟩

/-- two ancestors of `k` at the same depth are equal -/
theorem anc_unique (V : Validated root tree G) {a b k n : Nat} (ha : Depth tree root a n) (hb : Depth tree root b n)
    (h1 : Sub tree a k) (h2 : Sub tree b k) : a = b := by
  induction h1 with
  | refl =>
    obtain ⟨m, hm, _, he⟩ := sub_depth V hb h2
    exact he (depth_fun V hm ha)
  | @step w x hw hc ih =>
    rcases Classical.em (x = b) with e | e
    · subst e
      obtain ⟨m, hm, hle, _⟩ := sub_depth V ha hw
      have := depth_fun V (Depth.step hm hc) hb
      omega
    · obtain ⟨m, hm, _, _⟩ := sub_depth V ha hw
      exact ih (sub_parent V (hb.inG V) h2 e (hm.inG V) hc)

/-- two different children of a reachable node have disjoint subtrees -/
theorem children_disjoint (V : Validated root tree G) {w a b k : Nat} (hw : Sub tree root w) (ha : IsChild tree w a)
    (hb : IsChild tree w b) (hab : a ≠ b) (h1 : Sub tree a k) (h2 : Sub tree b k) : False := by
  obtain ⟨n, hn⟩ := depth_of_sub hw
  exact hab (anc_unique V (.step hn ha) (.step hn hb) h1 h2)

/-- a reachable node is not a proper descendant of itself -/
theorem not_below_self (V : Validated root tree G) {w c : Nat} (hw : Sub tree root w) (hc : IsChild tree w c)
    (h : Sub tree c w) : False := by
  obtain ⟨n, hn⟩ := depth_of_sub hw
  obtain ⟨m, hm, hle, _⟩ := sub_depth V (Depth.step hn hc) h
  have := depth_fun V hm hn
  omega

/-- every ancestor (in the validated set) of a reachable node is reachable -/
theorem anc_reachable (V : Validated root tree G) {w k : Nat} (hw : G w) (hk : Sub tree root k) (h : Sub tree w k) :
    Sub tree root w := by
  induction hk with
  | refl =>
    -- k = root: w is an ancestor of the root, so w = root
    cases h with
    | refl => exact Sub.refl _
    | step h1 h2 => exact absurd rfl (child_ne_root V (sub_G V hw h1) h2)
  | @step u x hu hc ih =>
    rcases Classical.em (x = w) with e | e
    · subst e; exact Sub.step hu hc
    · exact ih (sub_parent V hw h e (sub_G V V.rootIn hu) hc)

theorem Ord.ne (V : Validated root tree G) {y a b : Nat} (hy : G y) (h : Ord tree y a b) : a ≠ b := by
  obtain ⟨pn, l, r, h1, hl, hr, h3⟩ := h
  rcases h3 with ⟨_, ha, hb⟩ | ⟨_, ha, hb⟩
  · subst ha; subst hb; exact fun e => left_ne_right V hy h1 hl hr e.symm
  · subst ha; subst hb; exact left_ne_right V hy h1 hl hr

/-- the last visit of a reachable node does not come before itself -/
theorem lastB_irrefl (V : Validated root tree G) {k : Nat} (hk : Sub tree root k) (h : LastB tree G k k) : False := by
  rcases h with ⟨w, a, b, hw, hord, h1, h2⟩ | ⟨c, hc, h1⟩ | ⟨c, hc, h1⟩
  · have hwr := anc_reachable V hw hk (Sub.trans (Sub.step (Sub.refl w) hord.left.isChild) h1.sub)
    exact children_disjoint V hwr hord.left.isChild hord.right.isChild (hord.ne V hw) h1.sub h2.sub
  · exact not_below_self V hk hc.ilink.isChild h1.sub
  · exact not_below_self V hk hc.ilink.isChild h1.sub

end Garnish.Lemmas.BuildSeq
