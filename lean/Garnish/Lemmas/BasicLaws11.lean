/-
`StoreLawsOn` for `BasicGarnishData`, continued: the Basic list law — the whole protocol `start_list(n)`, exactly `n`
× `add_to_list`, `end_list` (`Store.buildList`), when it answers `Ok`: the address decodes to the list of the items,
nothing else is disturbed, the invariant is kept.  (That it DOES answer `Ok` under `Fits` is not proved here.)
-/
import Garnish.Lemmas.BasicLaws10
set_option linter.unusedSimpArgs false
set_option linter.unusedVariables false
set_option maxHeartbeats 2000000
namespace Garnish.Lemmas.Runtime.Basic
open Garnish Gen Garnish.Model.Equality Garnish.Model.Runtime Garnish.Model.Runtime.Basic Garnish.BasicOpt
open Garnish.Lemmas.Runtime Garnish.Lemmas.EqualityRefine

variable {F : Type}

theorem decodesList_mem {view : StoreView F} : ∀ {as : List Nat} {vs : List (Val F)}, DecodesList view as vs →
    ∀ a ∈ as, ∃ v, Decodes view a v
  | _, _, .nil, a, h => by cases h
  | _, _, .cons hd tl, a, h => by
    rcases List.mem_cons.mp h with rfl | h'
    · exact ⟨_, hd⟩
    · exact decodesList_mem tl a h'

/-- **the Basic list law** -/
theorem buildList_law (nc : NumCode F) {st : BState} (hinv : BInv st) {items : List Nat} {vs : List (Val F)}
    (hd : DecodesList ((basicRStore nc).view st) items vs) {s' : Store} {li : Nat}
    (h : st.store.buildList items = .ok (s', li)) :
    li = st.store.cells.size ∧ Decodes (basicView nc.dec s'.cells) li (.list vs) ∧
      Eff (basicRStore nc) st { st with store := s' } ((basicRStore nc).regs st) ((basicRStore nc).vals st) ∧
      BInv { st with store := s' } := by
  have hd' : DecodesList (basicView nc.dec st.store.cells) items vs := hd
  have hitems : ∀ a ∈ items, isNode st.store.cells a = true := by
    intro a ha
    obtain ⟨v, hv⟩ := decodesList_mem hd' a ha
    exact (decodes_node hinv.wfq hv).2
  have hlt : ∀ a ∈ items, a < st.store.cells.size := fun a ha => node_lt (hitems a ha)
  obtain ⟨hw, hli, hn⟩ := buildList_wfq hinv.wfq hitems h
  obtain ⟨_, hcells, hf⟩ := buildList_spec hlt h
  subst hli
  have hl : s'.cells.toList = st.store.cells.toList ++ listBlockOf st.store.cells items := by rw [hcells]; simp
  have hsub : Sub st.store.cells s'.cells := sub_of_toList hl
  have hget : ∀ u, s'.cells[st.store.cells.size + u]? = (listBlockOf st.store.cells items)[u]? := by
    intro u
    rw [hcells, Array.getElem?_append_right (by omega)]
    simp
  have hhdr : ∃ k, s'.cells[st.store.cells.size]? = some (Cell.list items.length k) := by
    have := hget 0
    simp only [listBlockOf, Nat.add_zero, List.getElem?_cons_zero] at this
    exact ⟨_, this⟩
  have hitem : ∀ t, t < items.length → s'.cells[st.store.cells.size + 1 + t]? = (items[t]?).map Cell.listItem := by
    intro t ht
    have := hget (1 + t)
    have e : st.store.cells.size + (1 + t) = st.store.cells.size + 1 + t := by omega
    rw [e] at this
    rw [this]
    have e2 : 1 + t = t + 1 := by omega
    simp only [listBlockOf, e2, List.getElem?_cons_succ]
    rw [List.getElem?_append_left (by simpa using ht)]
    simp
  obtain ⟨k, hk⟩ := hhdr
  have hread := listItems_read (cells := s'.cells) items (st.store.cells.size + 1) hitem
  have he := eff_sub nc hinv hsub hf
  refine ⟨rfl, ?_, he, ?_⟩
  · exact .list (by simp [bv_typeOf, hk, cellTy]) (by simp [bv_listItems, hk, hread])
      (decodesList_mono (basicView_le _ hsub.agreeNS) hd')
  · refine binv_append hinv _ hl hf hw (buildList_fits hinv.fits h) ?_
    intro c hc
    simp only [listBlockOf, List.mem_cons, List.mem_append, List.mem_map, List.mem_mergeSort] at hc
    rcases hc with rfl | ⟨a, _, rfl⟩ | ⟨a, _, hca⟩
    · rfl
    · rfl
    · rw [← hca]
      unfold assocOf
      split
      · split <;> rfl
      · rfl

end Garnish.Lemmas.Runtime.Basic
