/-
C18, reference-grammar level: wrapping a complete operand in parentheses.

After the operand `M` (resp. the group `G = ( M' )`) has been plugged into the open operand position of the tree, the two
trees are `BSim`-related: equal up to `( )` nodes off the right spine, and `M` / `G` at the bottom of the spine.  If the
next operator walks over the whole of `M` (`passes`), the trees are `Sim`-related from then on (Lemmas/RefSim).
-/
import Garnish.Lemmas.RefRun

namespace Garnish.Spec
open Garnish Garnish.Gen Garnish.Model.Parser

/-- the bottom of the right spine is an open operand position -/
def openBottom : RTree → Bool
  | .nil => true
  | .group _ _ _ => false
  | .node _ _ _ r => if r.isNil then true else openBottom r

/-- the open operand position is the right operand of `.` (an Identifier plugged there becomes a Property) -/
def accessBottom : RTree → Bool
  | .nil => false
  | .group _ _ _ => false
  | .node _ d _ r => if r.isNil then d == .access else accessBottom r

/-- an operator `(q, rtl)` arriving after `M` walks over the whole of `M` -/
def passes (tbl : Table) (q : Nat) (rtl : Bool) (M : RTree) : Bool := (spinePrios tbl M).all (fun pa => !stops q rtl pa)

theorem absorb_none_of_passes (tbl : Table) (q : Nat) (rtl : Bool) (d : Definition) (k : Nat) :
    ∀ M : RTree, passes tbl q rtl M = true → absorb tbl q rtl d k M = none
  | .nil, _ => rfl
  | .group _ _ _, _ => rfl
  | .node l a ka r, h => by
    unfold passes at h
    simp only [spinePrios, List.all_append, Bool.and_eq_true] at h
    simp only [absorb, absorb_none_of_passes tbl q rtl d k r h.2]
    cases hp : tbl.prio a with
    | none => rfl
    | some pa =>
      rw [hp] at h
      simp only [Option.toList, List.all_cons, List.all_nil, Bool.and_true, Bool.not_eq_true'] at h
      simp only [h.1, Bool.false_eq_true, if_false]

theorem stripGroups_eraseTok : ∀ t : RTree, t.eraseTok.stripGroups = t.stripGroups
  | .nil => rfl
  | .node l d k r => by simp only [RTree.eraseTok, RTree.stripGroups, stripGroups_eraseTok l, stripGroups_eraseTok r]
  | .group d k i => by simp only [RTree.eraseTok, RTree.stripGroups, stripGroups_eraseTok i]

/-- `M` resp. `G` at the bottom of the right spine, `EStrip`-related left operands above -/
inductive BSim (M G : RTree) : RTree → RTree → Prop
  | here : BSim M G M G
  | node {l l' r r' : RTree} (d : Definition) (k k' : Nat) : EStrip l l' → BSim M G r r' → BSim M G (.node l d k r) (.node l' d k' r')

theorem BSim.strip {M G t t' : RTree} (hMG : EStrip M G) (h : BSim M G t t') : EStrip t t' := by
  induction h with
  | here => exact hMG
  | node d k k' hl _ ih => unfold EStrip at *; simp only [RTree.stripGroups, hl, ih]

theorem plug_bsim {M G C C' : RTree} (hG : asProperty G = G) (h : Sim EStrip C C') (ho : openBottom C = true)
    (hacc : accessBottom C = false ∨ asProperty M = M) : BSim M G (plug C M) (plug C' G) := by
  induction h with
  | nil => exact .here
  | group d k k' _ => simp [openBottom] at ho
  | node a ka ka' hl hr ih =>
    simp only [plug, ← hr.isNil]
    simp only [openBottom, accessBottom] at ho hacc
    split
    · rename_i hnil
      simp only [hnil, if_true] at hacc
      rcases hacc with hacc | hacc
      · simp only [hacc, Bool.false_eq_true, if_false]; exact .node a ka ka' hl .here
      · simp only [hacc, hG, ite_self]; exact .node a ka ka' hl .here
    · rename_i hnil
      simp only [hnil, Bool.false_eq_true, if_false] at ho hacc
      exact .node a ka ka' hl (ih ho hacc)

theorem absorb_bsim {M G : RTree} (hMG : EStrip M G) (hGg : ∃ d k i, G = .group d k i) (tbl : Table) (q : Nat) (rtl : Bool)
    (d : Definition) (k k' : Nat) (hp : passes tbl q rtl M = true) {t t' : RTree} (h : BSim M G t t') :
    OptRel (Sim EStrip) (absorb tbl q rtl d k t) (absorb tbl q rtl d k' t') := by
  induction h with
  | here =>
    obtain ⟨gd, gk, gi, rfl⟩ := hGg
    rw [absorb_none_of_passes tbl q rtl d k M hp]
    exact True.intro
  | node a ka ka' hl hr ih =>
    rename_i l l' r r'
    simp only [absorb]
    cases h1 : absorb tbl q rtl d k r <;> cases h2 : absorb tbl q rtl d k' r' <;> rw [h1, h2] at ih
    · cases tbl.prio a with
      | none => exact True.intro
      | some pa =>
        simp only
        split
        · exact .node a ka ka' hl (.node d k k' (hr.strip hMG) .nil)
        · exact True.intro
    · exact ih.elim
    · exact ih.elim
    · exact .node a ka ka' hl ih

theorem attach_bsim {M G : RTree} (hMG : EStrip M G) (hGg : ∃ d k i, G = .group d k i) (tbl : Table) (q : Nat) (rtl : Bool)
    (d : Definition) (k k' : Nat) (hp : passes tbl q rtl M = true) {t t' : RTree} (h : BSim M G t t') :
    Sim EStrip (attach tbl q rtl d k t) (attach tbl q rtl d k' t') := by
  have := absorb_bsim hMG hGg tbl q rtl d k k' hp h
  unfold attach
  cases h1 : absorb tbl q rtl d k t <;> cases h2 : absorb tbl q rtl d k' t' <;> rw [h1, h2] at this
  · exact .node d k k' (h.strip hMG) .nil
  · exact this.elim
  · exact this.elim
  · exact this

/-- frames after the operand: both have a complete operand as last item -/
structure FB (M G : RTree) (f f' : Frame) : Prop where
  ctx : f.ctx.map (·.1) = f'.ctx.map (·.1)
  cur : BSim M G f.cur f'.cur
  lastL : f.last = .operand
  lastR : f'.last = .operand
  ws : f.ws = f'.ws
  prevSep : f.prevSep = f'.prevSep

theorem inGroup_of_ctx {f f' : Frame} (h : f.ctx.map (·.1) = f'.ctx.map (·.1)) : f.inGroup = f'.inGroup := by
  unfold Frame.inGroup
  cases h1 : f.ctx with
  | none =>
    cases h2 : f'.ctx with
    | none => rfl
    | some b => rw [h1, h2] at h; cases h
  | some a =>
    cases h2 : f'.ctx with
    | none => rw [h1, h2] at h; cases h
    | some b =>
      obtain ⟨d, p⟩ := a; obtain ⟨d', p'⟩ := b
      rw [h1, h2] at h
      simp only [Option.map_some, Option.some.injEq] at h
      subst h; cases d <;> rfl

/-- the condition on the token that follows the operand -/
def tokPasses (M : RTree) (t : PToken) : Bool :=
  match (getDefinition t.type).2 with
  | .value | .identifier | .unaryPrefix | .startGrouping =>
    match priority .list with
    | some q => passes Table.gen q false M
    | none => true
  | .binaryLeftToRight | .binaryRightToLeft | .unarySuffix | .optionalBinaryLeftToRight | .subexpression =>
    match priority (getDefinition t.type).1 with
    | some q => passes Table.gen q ((getDefinition t.type).2 == .binaryRightToLeft) M
    | none => true
  | _ => true

def isSkipTok (t : PToken) : Bool :=
  (getDefinition t.type).2 == .annotation || (getDefinition t.type).2 == .whitespace ||
    (getDefinition t.type).2 == .subexpression

/-- the first operator that arrives after the operand walks over the whole of it -/
def NextPasses (M : RTree) : List PToken → Bool
  | [] => true
  | t :: r => tokPasses M t && (if isSkipTok t then NextPasses M r else true)

section
variable {M G : RTree}

theorem before_b (hMG : EStrip M G) (hGg : ∃ d k i, G = .group d k i) {f f' : Frame} (h : FB M G f f') (pos pos' : Nat)
    (hp : ∀ q, priority .list = some q → passes Table.gen q false M = true) :
    ORel (FSim EStrip) (beforeOperand Table.gen f pos) (beforeOperand Table.gen f' pos') := by
  unfold beforeOperand
  rw [h.lastL, h.lastR, ← h.ws]
  simp only
  cases f.ws with
  | false => exact rfl
  | true =>
    simp only [if_true]
    cases hq : Table.gen.prio .list with
    | none => exact rfl
    | some q => exact ⟨h.ctx, attach_bsim hMG hGg Table.gen q false .list _ _ (hp q hq) h.cur, rfl, rfl, h.prevSep⟩

theorem operand_of_before {E : RTree → RTree → Prop} (hE : EOK E) {b b' : Outcome Frame} (hb : ORel (FSim E) b b')
    {stack stack' : List Frame} (hs : LSim E stack stack') (pos pos' : Nat) (d : Definition) (l : Last) :
    ORel (SSim E)
      (Outcome.bind b fun f =>
        .ok ({ f with cur := plug f.cur (.node .nil d pos .nil), last := l, ws := false, prevSep := false }, stack))
      (Outcome.bind b' fun f =>
        .ok ({ f with cur := plug f.cur (.node .nil d pos' .nil), last := l, ws := false, prevSep := false }, stack')) := by
  cases b <;> cases b' <;> simp only [ORel] at hb <;> simp only [Outcome.bind, ORel] <;> try exact hb
  exact ⟨⟨hb.ctx, plug_leaf_sim hE d pos pos' hb.cur, rfl, rfl, rfl⟩, hs⟩

/-- one step after the operand -/
theorem refStep_b (hMG : EStrip M G) (hGg : ∃ d k i, G = .group d k i) {f f' : Frame} (h : FB M G f f')
    {stack stack' : List Frame} (hs : LSim EStrip stack stack') (pos pos' : Nat) (t : PToken) (rest : List PToken)
    (hp : tokPasses M t = true) :
    ORel (fun a b => SSim EStrip a b ∨ (isSkipTok t = true ∧ FB M G a.1 b.1 ∧ LSim EStrip a.2 b.2))
      (refStep Table.gen f stack pos t rest) (refStep Table.gen f' stack' pos' t rest) := by
  unfold tokPasses at hp
  unfold isSkipTok
  unfold refStep
  have hd : Table.gen.define t.type = getDefinition t.type := rfl
  rw [hd]
  generalize getDefinition t.type = ds at hp
  obtain ⟨d, s⟩ := ds
  have lift : ∀ {a b : Outcome (Frame × List Frame)}, ORel (SSim EStrip) a b →
      ORel (fun a b => SSim EStrip a b ∨ ((s == .annotation || s == .whitespace || s == .subexpression) = true ∧
        FB M G a.1 b.1 ∧ LSim EStrip a.2 b.2)) a b := by
    intro a b hab
    cases a <;> cases b <;> simp only [ORel] at hab ⊢ <;> first | exact Or.inl hab | exact hab
  cases s with
  | none => exact rfl
  | startSideEffect => exact rfl
  | endSideEffect => exact rfl
  | annotation => exact Or.inr ⟨rfl, h, hs⟩
  | whitespace => exact Or.inr ⟨rfl, ⟨h.ctx, h.cur, h.lastL, h.lastR, rfl, h.prevSep⟩, hs⟩
  | value | identifier =>
    simp only at hp ⊢
    split
    · exact rfl
    · exact lift (operand_of_before eok_strip (before_b hMG hGg h pos pos' (fun q hq => by rw [hq] at hp; exact hp)) hs
        pos pos' d .operand)
  | unaryPrefix =>
    simp only at hp ⊢
    exact lift (operand_of_before eok_strip (before_b hMG hGg h pos pos' (fun q hq => by rw [hq] at hp; exact hp)) hs
      pos pos' d .op)
  | startGrouping =>
    simp only at hp ⊢
    apply lift
    have hb := before_b hMG hGg h pos pos' (fun q hq => by rw [hq] at hp; exact hp)
    cases h1 : beforeOperand Table.gen f pos <;> cases h2 : beforeOperand Table.gen f' pos' <;> rw [h1, h2] at hb <;>
      simp only [ORel] at hb <;> simp only [Outcome.bind, ORel] <;> try exact hb
    exact ⟨⟨rfl, .nil, rfl, rfl, rfl⟩, .cons ⟨hb.ctx, hb.cur, hb.last, rfl, hb.prevSep⟩ hs⟩
  | binaryLeftToRight | binaryRightToLeft | unarySuffix | optionalBinaryLeftToRight =>
    simp only at hp ⊢
    apply lift
    have hpr : Table.gen.prio d = priority d := rfl
    rw [hpr]
    cases hq : priority d with
    | none => exact rfl
    | some q =>
      rw [hq] at hp
      simp only [h.lastL, h.lastR, beq_self_eq_true, Bool.true_or, Bool.not_true, Bool.false_eq_true, if_false]
      exact ⟨⟨h.ctx, attach_bsim hMG hGg Table.gen q _ d pos pos' hp h.cur, rfl, rfl, rfl⟩, hs⟩
  | endGrouping =>
    simp only
    apply lift
    have hc := h.ctx
    cases h1 : f.ctx with
    | none =>
      cases h2 : f'.ctx with
      | none => exact rfl
      | some gp => rw [h1, h2] at hc; cases hc
    | some gp =>
      cases h2 : f'.ctx with
      | none => rw [h1, h2] at hc; cases hc
      | some gp' =>
        obtain ⟨gd, gpos⟩ := gp
        obtain ⟨gd', gpos'⟩ := gp'
        rw [h1, h2] at hc
        simp only [Option.map_some, Option.some.injEq] at hc
        subst hc
        cases hs with
        | nil => exact rfl
        | cons hpar hs' =>
          simp only [h.lastL, h.lastR]
          split
          · exact rfl
          · split
            · exact rfl
            · exact ⟨⟨hpar.ctx, plug_group_sim gd gpos gpos' (h.cur.strip hMG) hpar.cur, rfl, rfl, rfl⟩, hs'⟩
  | subexpression =>
    simp only at hp ⊢
    simp only [← inGroup_of_ctx h.ctx, ← h.prevSep, h.lastL, h.lastR]
    split
    · exact Or.inr ⟨rfl, ⟨h.ctx, h.cur, rfl, rfl, rfl, rfl⟩, hs⟩
    · split
      · exact Or.inr ⟨rfl, ⟨h.ctx, h.cur, rfl, rfl, h.ws, rfl⟩, hs⟩
      · split
        · exact rfl
        · have hpr : Table.gen.prio d = priority d := rfl
          rw [hpr]
          cases hq : priority d with
          | none => exact rfl
          | some q =>
            rw [hq] at hp
            exact Or.inl ⟨⟨h.ctx, attach_bsim hMG hGg Table.gen q false d pos pos' hp h.cur, rfl, rfl, rfl⟩, hs⟩

/-- the loop after the operand -/
theorem refLoop_b (hMG : EStrip M G) (hGg : ∃ d k i, G = .group d k i) : ∀ (toks : List PToken) {f f' : Frame}
    {stack stack' : List Frame} (pos pos' : Nat), FB M G f f' → LSim EStrip stack stack' → NextPasses M toks = true →
    (refLoop Table.gen f stack pos toks).mapT RTree.stripGroups = (refLoop Table.gen f' stack' pos' toks).mapT RTree.stripGroups
  | [], f, f', stack, stack', _, _, h, hs, _ => by
    unfold refLoop
    rw [h.lastL, h.lastR]
    cases hs with
    | nil =>
      simp only [List.isEmpty_nil, Bool.not_true, Bool.false_eq_true, if_false]
      have : (Last.operand == Last.op || Last.operand == Last.sep) = false := rfl
      simp only [this, Bool.false_eq_true, if_false, Outcome.mapT]
      exact congrArg _ (h.cur.strip hMG)
    | cons _ _ => rfl
  | t :: rest, f, f', stack, stack', pos, pos', h, hs, hn => by
    simp only [NextPasses, Bool.and_eq_true] at hn
    unfold refLoop
    have hst := refStep_b hMG hGg h hs pos pos' t rest hn.1
    cases h1 : refStep Table.gen f stack pos t rest <;> cases h2 : refStep Table.gen f' stack' pos' t rest <;>
      rw [h1, h2] at hst <;> simp only [ORel] at hst <;> simp only [Outcome.bind, Outcome.mapT]
    · rcases hst with hst | ⟨hsk, hfb, hls⟩
      · exact (refLoop_sim eok_strip Table.gen rest (pos + 1) (pos' + 1) hst.1 hst.2).strip_eq
      · simp only [hsk, if_true] at hn
        exact refLoop_b hMG hGg rest (pos + 1) (pos' + 1) hfb hls hn.2
    · rw [hst]
    · rw [hst]

end

end Garnish.Spec
