/-
`get_list_item_with_symbol` of `SimpleGarnishData` on the payload model (Model/Runtime/SimpleStore.lean leaves it
unmodelled: `err`).  The association table of a `List` cell is a function of its items — `end_list` fills it by
modulo placement (`Store.Lists.endListSimple`, property C16) and nothing writes it afterwards — so the look-up is
`lookupSimple` on the table recomputed from the items (`simListSym`).  `simpleRStoreA` is `simpleRStore` with that getter.
-/
import Garnish.Props.RuntimeRefineSimpleOn
import Garnish.Props.C16
namespace Garnish.Lemmas.Runtime.SimpleSym
open Garnish Gen Garnish.Model.Equality Garnish.Model.Runtime Garnish.Store.Lists Garnish.Lemmas.EqualityRefine

variable {F : Type}

/-- what the list code sees of a payload cell (`Store.Lists.SCell`) -/
def sview (cells : List (SimCell F)) : SView := fun a =>
  match cells[a]? with
  | some (.pair l r) => some (.pair l r)
  | some (.sym s) => some (.sym s)
  | some (.list items) => some (.list items #[])
  | some (.concat l r) => some (.concat l r)
  | some _ => some .other
  | none => none

/-- `get_list_item_with_symbol`: the table `end_list` stored for these items, probed from `sym % len` -/
def simListSym (cells : List (SimCell F)) (a sym : Nat) : Outcome (Option Nat) :=
  match cells[a]? with
  | some (.list items) =>
    match endListSimple items with
    | .ok p => lookupSimple (sview cells) p.2 sym
    | .err e => .err e
    | .panic m => .panic m
    | .fuelOut => .fuelOut
  | _ => .err .data

/-- `SimpleGarnishData` with its symbol look-up -/
def simpleRStoreA (hit : List (SimCell F) → SimCell F → Option Nat) (h : SimHost F) : RStore F (SimState F) :=
  { simpleRStore hit h with listItemWithSymbol := fun st a sym => simListSym st.cells a sym }

/-- items with pairwise different symbol keys (the hypothesis of property C16) -/
def DistinctKeys (vs : List (Val F)) : Prop :=
  vs.Pairwise (fun x y => ∀ k v k' v', x = .pair (.sym k) v → y = .pair (.sym k') v' → k ≠ k')

theorem cell_of_typeOf {cells : List (SimCell F)} {a : Nat} {t : Ty} (h : (simView cells).typeOf a = some t) :
    ∃ c, cells[a]? = some c ∧ c.ty = t := by
  simp only [simView] at h
  cases hc : cells[a]? with
  | none => rw [hc] at h; cases h
  | some c => rw [hc] at h; exact ⟨c, rfl, by simpa using h⟩

/-- an item that decodes to a pair keyed by a symbol is read as that key and the address of its value -/
theorem keyed_pair {cells : List (SimCell F)} {a k : Nat} {v : Val F}
    (h : Decodes (simView cells) a (.pair (.sym k) v)) :
    ∃ r, keyedValue (sview cells) a = .ok (some (k, r)) ∧ Decodes (simView cells) r v := by
  cases h with
  | @pair _ l r _ _ _ hp dl dr =>
    have ha : cells[a]? = some (.pair l r) := by
      simp only [simView] at hp
      cases hc : cells[a]? with
      | none => rw [hc] at hp; cases hp
      | some c => rw [hc] at hp; cases c <;> simp at hp; obtain ⟨rfl, rfl⟩ := hp; rfl
    have hl : cells[l]? = some (.sym k) := by
      cases dl with
      | sym _ hs =>
        simp only [simView] at hs
        cases hc : cells[l]? with
        | none => rw [hc] at hs; cases hs
        | some c => rw [hc] at hs; cases c <;> simp at hs; subst hs; rfl
    exact ⟨r, by simp [keyedValue, sview, ha, hl], dr⟩

theorem ty_sym {c : SimCell F} (h : c.ty = .symbol) : ∃ s, c = .sym s := by
  cases c <;> simp [SimCell.ty] at h; exact ⟨_, rfl⟩

theorem ty_pair {c : SimCell F} (h : c.ty = .pair) : ∃ l r, c = .pair l r := by
  cases c <;> simp [SimCell.ty] at h; exact ⟨_, _, rfl⟩

/-- any other decodable item carries no key -/
theorem keyed_other {cells : List (SimCell F)} {a : Nat} {v : Val F} (h : Decodes (simView cells) a v)
    (hv : ∀ k v', v ≠ .pair (.sym k) v') : keyedValue (sview cells) a = .ok none := by
  obtain ⟨c, hc, hty⟩ := cell_of_typeOf (decodes_typeOf h)
  by_cases hp : ∃ l r, c = .pair l r
  · obtain ⟨l, r, rfl⟩ := hp
    cases h with
    | @pair _ l' r' vl vr _ hp' dl dr =>
      have : l' = l := by
        simp only [simView, hc] at hp'; simp at hp'; exact hp'.1.symm
      subst this
      obtain ⟨c', hc', hty'⟩ := cell_of_typeOf (decodes_typeOf dl)
      have hns : ∀ s, c' ≠ .sym s := by
        intro s hs; subst hs
        simp only [SimCell.ty] at hty'
        cases vl <;> simp [Val.typeOf] at hty'
        exact hv _ _ rfl
      have : keyedValue (sview cells) a = .ok none := by
        simp only [keyedValue, sview, hc, hc']
        cases c' <;> first | rfl | exact absurd rfl (hns _)
      exact this
    | _ => all_goals (simp [simView, hc, SimCell.ty] at *)
  · have : sview cells a = some .other ∨ (∃ s, sview cells a = some (.sym s)) ∨ (∃ i, sview cells a = some (.list i #[])) ∨
        (∃ l r, sview cells a = some (.concat l r)) := by
      simp only [sview, hc]
      cases c <;> simp at hp ⊢
    rcases this with h1 | ⟨s, h1⟩ | ⟨i, h1⟩ | ⟨l, r, h1⟩ <;> simp [keyedValue, h1]

/-- whether a value is a pair keyed by a symbol -/
theorem keyed_or_not (v : Val F) : (∃ k v', v = .pair (.sym k) v') ∨ (∀ k v', v ≠ .pair (.sym k) v') := by
  cases v with
  | pair l r =>
    cases l with
    | sym k => exact .inl ⟨k, r, rfl⟩
    | _ => exact .inr (by intro k v' h; cases h)
  | _ => exact .inr (by intro k v' h; cases h)

theorem lookupSym_skip (s : Nat) {v : Val F} (rest : List (Val F)) (hv : ∀ k v', v ≠ .pair (.sym k) v') :
    Abs.lookupSym s (v :: rest) = Abs.lookupSym s rest := by
  cases v with
  | pair l r =>
    cases l with
    | sym k => exact absurd rfl (hv k r)
    | _ => rfl
  | _ => rfl

open Garnish.Props.C16 in
/-- the key the list code reads off an item, from the value the item decodes to -/
theorem keyOfS_of {cells : List (SimCell F)} {a : Nat} {v : Val F} (h : Decodes (simView cells) a v) :
    (∃ k v' r, v = .pair (.sym k) v' ∧ keyOfS (sview cells) a = some (k, r) ∧ Decodes (simView cells) r v') ∨
    ((∀ k v', v ≠ .pair (.sym k) v') ∧ keyOfS (sview cells) a = none) := by
  rcases keyed_or_not v with ⟨k, v', rfl⟩ | hv
  · obtain ⟨r, hr, d⟩ := keyed_pair h
    exact .inl ⟨k, v', r, rfl, by simp [keyOfS, hr], d⟩
  · exact .inr ⟨hv, by simp [keyOfS, keyed_other h hv]⟩

open Garnish.Props.C16 in
theorem readable_of {cells : List (SimCell F)} : ∀ {items : List Nat} {vs : List (Val F)},
    DecodesList (simView cells) items vs → ReadableS (sview cells) items
  | _, _, .nil => by intro a ha; cases ha
  | _, _, .cons (a := a) (v := v) h rest => by
    intro b hb
    rcases List.mem_cons.mp hb with rfl | hb
    · rcases keyed_or_not v with ⟨k, v', hv⟩ | hv
      · subst hv; obtain ⟨r, hr, _⟩ := keyed_pair h; exact ⟨_, hr⟩
      · exact ⟨_, keyed_other h hv⟩
    · exact readable_of rest b hb

open Garnish.Props.C16 in
/-- the first-match specification on the addresses is the first-match specification on the values -/
theorem lookup_of {cells : List (SimCell F)} (s : Nat) : ∀ {items : List Nat} {vs : List (Val F)},
    DecodesList (simView cells) items vs →
    match Abs.lookupSym s vs with
    | some v => ∃ r, Spec.lookup (keyOfS (sview cells)) s items = some r ∧ Decodes (simView cells) r v
    | none => Spec.lookup (keyOfS (sview cells)) s items = none
  | _, _, .nil => by simp [Abs.lookupSym, Spec.lookup]
  | _, _, .cons (a := a) (as := as) (v := v) (vs := vs) h rest => by
    have ih := lookup_of s rest
    rcases keyOfS_of h with ⟨k, v', r, rfl, hk, d⟩ | ⟨hv, hk⟩
    · by_cases hks : k = s
      · subst hks
        simp only [Abs.lookupSym, beq_self_eq_true, if_true, Spec.lookup, hk, keyMatch]
        exact ⟨r, rfl, d⟩
      · have hb : (k == s) = false := by simpa using hks
        simp only [Abs.lookupSym, hb, Bool.false_eq_true, if_false, Spec.lookup, hk, keyMatch, hks]
        exact ih
    · rw [lookupSym_skip s vs hv]
      simp only [Spec.lookup, hk, keyMatch]
      exact ih

theorem mem_decodes {cells : List (SimCell F)} : ∀ {items : List Nat} {vs : List (Val F)},
    DecodesList (simView cells) items vs → ∀ b ∈ items, ∃ w ∈ vs, Decodes (simView cells) b w
  | _, _, .nil => by intro b hb; cases hb
  | _, _, .cons h rest => by
    intro b hb
    rcases List.mem_cons.mp hb with rfl | hb
    · exact ⟨_, List.mem_cons_self, h⟩
    · obtain ⟨w, hw, d⟩ := mem_decodes rest b hb
      exact ⟨w, List.mem_cons_of_mem _ hw, d⟩

open Garnish.Props.C16 in
/-- distinct keys among the values are distinct keys among the addresses -/
theorem distinct_of {cells : List (SimCell F)} : ∀ {items : List Nat} {vs : List (Val F)},
    DecodesList (simView cells) items vs → DistinctKeys vs → KeysDistinct (keyOfS (sview cells)) items
  | _, _, .nil => by intro _; exact List.Pairwise.nil
  | _, _, .cons (a := a) h rest => by
    intro hd
    have hd' := List.pairwise_cons.mp hd
    refine List.pairwise_cons.mpr ⟨?_, distinct_of rest hd'.2⟩
    intro b hb k r k' r' hka hkb
    obtain ⟨w, hw, dw⟩ := mem_decodes rest b hb
    rcases keyOfS_of h with ⟨k0, v0, r0, rfl, hk0, _⟩ | ⟨_, hk0⟩
    · rcases keyOfS_of dw with ⟨k1, v1, r1, rfl, hk1, _⟩ | ⟨_, hk1⟩
      · rw [hk0] at hka; rw [hk1] at hkb
        cases hka; cases hkb
        exact hd'.1 _ hw _ _ _ _ rfl rfl
      · rw [hk1] at hkb; cases hkb
    · rw [hk0] at hka; cases hka

/-- **the look-up contract on lists with distinct keys**: for every list cell whose items decode, every symbol: the
value of the item keyed by it, or "absent" — never an error -/
theorem simListSym_spec {cells : List (SimCell F)} {a : Nat} {items : List Nat} {vs : List (Val F)} (sym : Nat)
    (hi : (simView cells).listItems a = some items) (hd : DecodesList (simView cells) items vs)
    (hk : DistinctKeys vs) :
    match Abs.lookupSym sym vs with
    | some v => ∃ r, simListSym cells a sym = .ok (some r) ∧ Decodes (simView cells) r v
    | none => simListSym cells a sym = .ok none := by
  have ha : cells[a]? = some (.list items) := by
    simp only [simView] at hi
    cases hc : cells[a]? with
    | none => rw [hc] at hi; cases hi
    | some c => rw [hc] at hi; cases c <;> simp at hi; subst hi; rfl
  obtain ⟨o, ho, hl⟩ := Garnish.Props.C16.simple_lookup_distinct (sview cells) items sym (readable_of hd) (distinct_of hd hk)
  have hs : simListSym cells a sym = .ok (Spec.lookup (Garnish.Props.C16.keyOfS (sview cells)) sym items) := by
    simp only [simListSym, ha, ho, hl]
  have := lookup_of sym hd
  cases hv : Abs.lookupSym sym vs with
  | none => rw [hv] at this; simp only [hs, this]
  | some v =>
    rw [hv] at this
    obtain ⟨r, h1, h2⟩ := this
    exact ⟨r, by rw [hs, h1], h2⟩

end Garnish.Lemmas.Runtime.SimpleSym
