/-
The tie between the two builder models, else-chains (1): what is known after the arms of a chain have been worked off.
The conditions of the arms are emitted inline; each arm's `JumpIf` registers the arm body with the `ElseJump` node at the top
of the chain (`conditional_items`); the bodies become roots when the top node is visited the second time.
-/
import Garnish.Lemmas.CompileTree14
namespace Garnish.Abs.Tree
open Garnish Garnish.Gen Garnish.Spec Garnish.Abs Garnish.Model.Parser Garnish.Model.Literals Garnish.Model.Build

variable {F : Type}

/-- an arm body that has been registered with the top of its chain: node, interval, jump entry of its `JumpIf` -/
structure ArmRec (F : Type) where
  idx : Nat
  lo : Nat
  hi : Nat
  j : Nat
  t : Expr F

def ArmRec.item (a : ArmRec F) : ConditionItem := ⟨a.idx, a.j, (.invalid, none)⟩

def asum (A : List (ArmRec F)) : Nat := (A.map (fun a => 2 * (a.hi - a.lo))).sum

@[simp] theorem asum_nil : asum ([] : List (ArmRec F)) = 0 := rfl
@[simp] theorem asum_cons (a : ArmRec F) (A : List (ArmRec F)) : asum (a :: A) = 2 * (a.hi - a.lo) + asum A := by simp [asum]
@[simp] theorem asum_append (A B : List (ArmRec F)) : asum (A ++ B) = asum A + asum B := by simp [asum]

variable (pf : List Char → Option F) (tree : Array ParseNode) (bodies : List (Nat × Expr F))

structure DoneA (In : Nat → Prop) (top : Nat) (tb : BuildNode) (nodes nodes' : Nodes) (newR : List (RRec F))
    (recs : List (ArmRec F)) : Prop where
  size : nodes'.size = nodes.size
  frame : ∀ x, ¬ In x → x ≠ top → nodes'[x]? = nodes[x]?
  top : nodes'[top]? = some (some { tb with conditionalItems := tb.conditionalItems ++ (recs.map ArmRec.item).toArray })
  roots : ∀ q ∈ newR, (∀ x, q.lo ≤ x → x < q.hi → In x) ∧ q.lo ≤ q.idx ∧ q.idx < q.hi ∧
    nodes'[q.idx]? = some (some (bnOfRoot q.idx q.root)) ∧ RepRoot pf tree bodies q
  arms : ∀ a ∈ recs, (∀ x, a.lo ≤ x → x < a.hi → In x) ∧ a.lo ≤ a.idx ∧ a.idx < a.hi ∧ a.idx < tree.size ∧
    Rep pf tree bodies a.lo a.hi a.idx a.t
  cover : ∀ x, In x → (∃ b, nodes'[x]? = some (some b)) ∨ (∃ q ∈ newR, q.lo ≤ x ∧ x < q.hi) ∨ ∃ a ∈ recs, a.lo ≤ x ∧ x < a.hi
  disjR : newR.Pairwise (fun a b => a.hi ≤ b.lo ∨ b.hi ≤ a.lo)
  disjA : recs.Pairwise (fun a b => a.hi ≤ b.lo ∨ b.hi ≤ a.lo)
  disjRA : ∀ q ∈ newR, ∀ a ∈ recs, q.hi ≤ a.lo ∨ a.hi ≤ q.lo

/-- a part of an else-chain below the top `ElseJump` (conditional arms, or the final arm): node `c` was scheduled with the
top node as conditional parent; `f root cur s` is what the structured compiler emits for the part, with the arm bodies it
collects -/
def SimArmsF (lo hi c : Nat) (f : Nat → Nat → LState F → LState F × List (Expr F × Nat)) : Prop :=
  ∀ (crj root cur top : Nat) (data : BState F) (nodes : Nodes) (RS S : Array Nat) (s : LState F) (tb : BuildNode),
    nodes.size = tree.size → nodes[c]? = some (some (mkNode c cur none (Ex.ofCond (some top)))) →
    (top < lo ∨ hi ≤ top) → nodes[top]? = some (some tb) → DataEq data s → cur < s.jumps.size →
    ∃ (k : Nat) (data' : BState F) (nodes' : Nodes) (RS' : Array Nat) (newR : List (RRec F)) (recs : List (ArmRec F)),
      Steps pf tree crj k ⟨data, nodes, RS, S.push c⟩ ⟨data', nodes', RS', S⟩ ∧ k + wsum newR + asum recs ≤ 2 * (hi - lo) ∧
      DataEq data' (f root cur s).1 ∧ (f root cur s).2 = recs.map (fun a => (a.t, a.j)) ∧
      RS'.toList = RS.toList ++ (newR.map (·.idx)).reverse ∧
      (f root cur s).1.pending = newR.map (·.root) ++ s.pending ∧
      DoneA pf tree bodies (Ival lo hi) top tb nodes nodes' newR recs

/-- the conditional arms of an else-chain -/
def SimArms (lo hi c : Nat) (arms : List (Bool × Expr F × Expr F)) : Prop :=
  SimArmsF pf tree bodies lo hi c (fun root cur s => emitArms root cur arms s)

variable {pf tree bodies}

/-- conditions and other inline parts do not register anything -/
theorem DoneA.ofDone {In : Nat → Prop} {top : Nat} {tb p : BuildNode} {n : Nat} {A B : Nodes} {R : List (RRec F)}
    (h : Done pf tree bodies In none p n A B R) (ht : ¬ In top) (hA : A[top]? = some (some tb)) :
    DoneA pf tree bodies In top tb A B R [] where
  size := h.size
  frame x hx _ := h.frame x hx (fun _ _ hh => by cases hh)
  top := by rw [h.frame top ht (fun _ _ hh => by cases hh), hA]; simp
  roots := h.roots
  arms _ ha := by cases ha
  cover x hx := (h.cover x hx).imp id (fun hh => .inl hh)
  disjR := h.disj
  disjA := List.Pairwise.nil
  disjRA _ _ _ ha := by cases ha

theorem arms_apart {In1 In2 : Nat → Prop} {alo ahi blo bhi : Nat} (disj : ∀ x, In1 x → In2 x → False)
    (ha : ∀ x, alo ≤ x → x < ahi → In2 x) (hb : ∀ x, blo ≤ x → x < bhi → In1 x)
    (ha' : alo < ahi) (hb' : blo < bhi) : ahi ≤ blo ∨ bhi ≤ alo := by
  rcases Nat.lt_or_ge blo ahi with h1 | h1
  · rcases Nat.lt_or_ge alo bhi with h2 | h2
    · exfalso
      exact disj (max alo blo) (hb _ (by omega) (by omega)) (ha _ (by omega) (by omega))
    · exact .inr h2
  · exact .inl h1

/-- two parts of a chain one after the other -/
theorem DoneA.trans {In1 In2 : Nat → Prop} {top : Nat} {tb : BuildNode} {A B C : Nodes} {R1 R2 : List (RRec F)}
    {M1 M2 : List (ArmRec F)}
    (h1 : DoneA pf tree bodies In1 top tb A B R1 M1)
    (h2 : DoneA pf tree bodies In2 top { tb with conditionalItems := tb.conditionalItems ++ (M1.map ArmRec.item).toArray } B C R2 M2)
    (disj : ∀ x, In1 x → In2 x → False) (ht : ¬ In1 top ∧ ¬ In2 top) :
    DoneA pf tree bodies (fun x => In1 x ∨ In2 x) top tb A C (R2 ++ R1) (M1 ++ M2) where
  size := by rw [h2.size, h1.size]
  frame x hx hp := by rw [h2.frame x (fun h => hx (.inr h)) hp, h1.frame x (fun h => hx (.inl h)) hp]
  top := by
    rw [h2.top]
    simp [Array.append_assoc]
  roots q hq := by
    rcases List.mem_append.1 hq with hq | hq
    · obtain ⟨a, b, c, d, e⟩ := h2.roots q hq
      exact ⟨fun x h1 h2 => .inr (a x h1 h2), b, c, d, e⟩
    · obtain ⟨a, b, c, d, e⟩ := h1.roots q hq
      refine ⟨fun x h1 h2 => .inl (a x h1 h2), b, c, ?_, e⟩
      rw [h2.frame q.idx (fun h => disj _ (a _ b c) h) (fun e => ht.1 (e ▸ a _ b c))]
      exact d
  arms a ha := by
    rcases List.mem_append.1 ha with ha | ha
    · obtain ⟨x1, x2, x3, x4, x5⟩ := h1.arms a ha
      exact ⟨fun x h1 h2 => .inl (x1 x h1 h2), x2, x3, x4, x5⟩
    · obtain ⟨x1, x2, x3, x4, x5⟩ := h2.arms a ha
      exact ⟨fun x h1 h2 => .inr (x1 x h1 h2), x2, x3, x4, x5⟩
  cover x hx := by
    rcases hx with hx | hx
    · rcases h1.cover x hx with ⟨b, hb⟩ | ⟨q, hq, h⟩ | ⟨a, ha, h⟩
      · refine .inl ⟨b, ?_⟩
        rw [h2.frame x (fun h => disj _ hx h) (fun e => ht.1 (e ▸ hx))]
        exact hb
      · exact .inr (.inl ⟨q, List.mem_append_right _ hq, h⟩)
      · exact .inr (.inr ⟨a, List.mem_append_left _ ha, h⟩)
    · rcases h2.cover x hx with h | ⟨q, hq, h⟩ | ⟨a, ha, h⟩
      · exact .inl h
      · exact .inr (.inl ⟨q, List.mem_append_left _ hq, h⟩)
      · exact .inr (.inr ⟨a, List.mem_append_right _ ha, h⟩)
  disjR := by
    rw [List.pairwise_append]
    refine ⟨h2.disjR, h1.disjR, fun a ha b hb => ?_⟩
    obtain ⟨a1, a2, a3, _⟩ := h2.roots a ha
    obtain ⟨b1, b2, b3, _⟩ := h1.roots b hb
    exact roots_apart disj a1 b1 ⟨a2, a3⟩ ⟨b2, b3⟩
  disjA := by
    rw [List.pairwise_append]
    refine ⟨h1.disjA, h2.disjA, fun a ha b hb => ?_⟩
    obtain ⟨a1, a2, a3, _⟩ := h1.arms a ha
    obtain ⟨b1, b2, b3, _⟩ := h2.arms b hb
    exact arms_apart (fun x hx1 hx2 => disj x hx2 hx1) a1 b1 (by omega) (by omega)
  disjRA q hq a ha := by
    rcases List.mem_append.1 hq with hq | hq <;> rcases List.mem_append.1 ha with ha | ha
    · obtain ⟨q1, q2, q3, _⟩ := h2.roots q hq
      obtain ⟨a1, a2, a3, _⟩ := h1.arms a ha
      exact arms_apart disj q1 a1 (by omega) (by omega)
    · exact h2.disjRA q hq a ha
    · exact h1.disjRA q hq a ha
    · obtain ⟨q1, q2, q3, _⟩ := h1.roots q hq
      obtain ⟨a1, a2, a3, _⟩ := h2.arms a ha
      exact arms_apart (fun x hx1 hx2 => disj x hx2 hx1) q1 a1 (by omega) (by omega)

end Garnish.Abs.Tree
