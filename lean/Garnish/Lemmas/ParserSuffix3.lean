/-
Suffix operators, part 3 (model side): an item `trivia* binop trivia* prefix* value` from a state whose last node is a value
or a suffix operator (`operand_stepS`), and a run of suffix-operator tokens (`suffix_run`).
-/
import Garnish.Lemmas.ParserSuffix2

namespace Garnish.Spec
open Garnish Garnish.Gen Garnish.Model.Parser

/-- **one item** `trivia* binop trivia* prefix* value` from a state that satisfies `SInv` (copy of `operand_step`) -/
theorem operand_stepS {st : PState} {T : Tree} {rt : Nat} (hinv : SInv st T rt) (it : OItem) (hok : it.ok)
    (rest : List PToken) :
    ∃ (q : Nat) (st2 : PState) (rt' : Nat), priority (getDefinition it.op.type).1 = some q ∧
      loop st (it.dec ++ rest) = loop st2 rest ∧
      FragInv st2 (insertS (prioAt st.nodes) q ((getDefinition it.op.type).2 == .binaryRightToLeft) st.nodes.size it.op.col
        (chainTree (st.nodes.size + 1) (it.pre.map (·.col)) it.atom.col) T) rt' ∧
      (∀ j, j < st.nodes.size → (st2.nodes[j]?).map (·.definition) = (st.nodes[j]?).map (·.definition)) ∧
      dfOf st2.nodes st.nodes.size = (getDefinition it.op.type).1 ∧
      (∀ (i : Nat) (h : i < it.pre.length), dfOf st2.nodes (st.nodes.size + 1 + i) = (getDefinition (it.pre[i]).type).1) ∧
      dfOf st2.nodes (st.nodes.size + 1 + it.pre.length) =
        underDef (match it.pre.getLast? with | some p => (getDefinition p.type).1 | none => (getDefinition it.op.type).1)
          (getDefinition it.atom.type).1 := by
  obtain ⟨hw1, ho, hw2, hpre, ha⟩ := hok
  have hug : underGroupOf st = .ok none := by simp [underGroupOf, hinv.cg]
  have hso := binop_secdef ho
  obtain ⟨hsa, hqa⟩ := atom10_facts ha
  obtain ⟨q, nodes', info, st1, hq, hq10, h1, hn1, hsz', hO1, hl1, hdefs, htreeK⟩ := op_effectS hinv ho
  have hs1 : st1.nodes.size = st.nodes.size + 1 := by rw [hn1]; simp [hsz']
  have hpos1 : 0 < st1.nodes.size := by omega
  have hopn : st1.nodes[st.nodes.size]? = some ⟨(getDefinition it.op.type).1, (getDefinition it.op.type).2, info.parent,
      info.left, some (st.nodes.size + 1), it.op⟩ := by
    rw [hn1, Array.getElem?_push, if_pos hsz'.symm]
  obtain ⟨st2, nd, hloop2, s2, lt2, hnd, lf2, hchain, ll2, c2, n2, g2, cg2, p2⟩ :=
    operand_tail hO1 it.pre (by omega) it.atom rest hpre ha
  rw [hs1] at s2 lt2 hnd lf2 hchain ll2
  have hnp : st1.nextParent = some st.nodes.size := by rw [hO1.link, hl1]
  rw [hnp] at hchain
  -- the array below the operand
  have hlt : ∀ j, j < st.nodes.size → st2.nodes[j]? = nodes'[j]? := by
    intro j hj
    rw [lt2 j (by omega), pushP_below it.pre st1 j (by omega), hn1, Array.getElem?_push, if_neg (by omega)]
  have hon : st2.nodes[st.nodes.size]? = some ⟨(getDefinition it.op.type).1, (getDefinition it.op.type).2, info.parent,
      info.left, some (st.nodes.size + 1), it.op⟩ := by
    rw [lt2 _ (by omega), pushP_below it.pre st1 _ (by omega), hopn]
  obtain ⟨rt', htree'⟩ := htreeK st2.nodes _ it.op.col hlt ⟨_, hon, rfl, rfl, rfl, rfl⟩ hchain
  have hdefs2 : ∀ j, j < st.nodes.size → (st2.nodes[j]?).map (·.definition) = (st.nodes[j]?).map (·.definition) := by
    intro j hj; rw [hlt j hj]; exact hdefs j hj
  have hpdef : ∀ (i : Nat) (h : i < it.pre.length),
      (st2.nodes[st.nodes.size + 1 + i]?).map (·.definition) = some (getDefinition (it.pre[i]).type).1 := by
    intro i h
    rw [lt2 _ (by omega)]
    have := pushP_def it.pre st1 i h
    rw [hs1] at this
    exact this
  -- the definition of the node above the value
  have hnddef : nd.definition = (match it.pre.getLast? with
      | some p => (getDefinition p.type).1 | none => (getDefinition it.op.type).1) := by
    cases hgl : it.pre.getLast? with
    | none =>
      have hnil : it.pre = [] := by simpa using hgl
      rw [hnil] at hnd
      simp only [pushP, List.length_nil, Nat.add_zero, Nat.add_sub_cancel] at hnd
      rw [hopn] at hnd; injection hnd with hnd; rw [← hnd]
    | some pl =>
      have hne : it.pre ≠ [] := by intro e; rw [e] at hgl; simp at hgl
      have hlen : 0 < it.pre.length := List.length_pos_iff.mpr hne
      have hidx := pushP_def it.pre st1 (it.pre.length - 1) (by omega)
      have e : st1.nodes.size + (it.pre.length - 1) = st.nodes.size + 1 + it.pre.length - 1 := by omega
      rw [e, hnd] at hidx
      simp only [Option.map_some, Option.some.injEq] at hidx
      rw [hidx]
      have : it.pre[it.pre.length - 1]'(by omega) = pl := by
        have h1 := List.getLast?_eq_getElem? (l := it.pre)
        rw [hgl] at h1
        have h2 := (List.getElem?_eq_some_iff.mp h1.symm)
        exact h2.2
      rw [this]
  refine ⟨q, st2, rt', hq, ?_, ?_, hdefs2, ?_, ?_, ?_⟩
  · -- the loop
    have e1 : it.dec ++ rest = it.ws1 ++ it.op :: (it.ws2 ++ (it.pre ++ it.atom :: rest)) := by simp [OItem.dec]
    rw [e1, loop_trivia_then_binop' it.op _ ho it.ws1 st hw1 hinv.plainOK hinv.nnl hug
      (by rw [hinv.cfl]; exact composition_S_binop _ _ hinv.prev hso)]
    simp only [loop]
    have he : (it.ws2 ++ (it.pre ++ it.atom :: rest)).isEmpty = false := by cases it.ws2 <;> cases it.pre <;> rfl
    rw [he, h1]
    simp only [Outcome.bind]
    have hug1 : underGroupOf st1 = .ok none := by simp [underGroupOf, hO1.cg]
    cases hp : it.pre with
    | nil =>
      rw [hp] at hloop2
      simp only [List.nil_append] at hloop2 ⊢
      rw [loop_trivia_then_atom it.atom rest (isAtomTok_of_atom10 ha) it.ws2 st1 hw2 (hO1.trivOK hpos1) hO1.cfl hO1.nnl
        hug1 (hO1.comp_atom _ hsa)]
      exact hloop2
    | cons p ps =>
      rw [hp] at hloop2
      simp only [List.cons_append] at hloop2 ⊢
      rw [loop_trivia_then_prefix p (ps ++ it.atom :: rest) (hpre p (by rw [hp]; exact List.mem_cons_self ..)) (by simp)
        it.ws2 st1 hw2 (hO1.trivOK hpos1) hO1.cfl hO1.nnl hO1.cg hO1.comp_prefix]
      exact hloop2
  · -- the invariant
    refine ⟨htree', ?_, by omega, by rw [ll2, s2]; rfl, c2, n2, g2, cg2, ?_, ?_, p2⟩
    · rw [insertS_inorder, hinv.inord, chainTree_inorder, List.length_map, s2]
      have := range_append_range' st.nodes.size (it.pre.length + 1 + 1)
      rw [List.range'_succ] at this
      rw [← Nat.add_assoc] at this
      have e : st.nodes.size + it.pre.length + 1 + 1 = st.nodes.size + 1 + it.pre.length + 1 := by omega
      rw [← e]; exact this
    · intro i ndi hi
      by_cases c1 : i < st.nodes.size
      · have := hdefs2 i c1
        rw [hi] at this
        cases hsi : st.nodes[i]? with
        | none => rw [hsi] at this; cases this
        | some nd0 =>
          rw [hsi] at this
          simp only [Option.map_some, Option.some.injEq] at this
          rw [this]; exact hinv.prios i nd0 hsi
      · by_cases c2' : i = st.nodes.size
        · subst c2'; rw [hon] at hi; injection hi with hi; subst hi; exact ⟨q, hq⟩
        · by_cases c3 : i < st.nodes.size + 1 + it.pre.length
          · have hk : i - (st.nodes.size + 1) < it.pre.length := by omega
            have := hpdef (i - (st.nodes.size + 1)) hk
            have e : st.nodes.size + 1 + (i - (st.nodes.size + 1)) = i := by omega
            rw [e, hi] at this
            simp only [Option.map_some, Option.some.injEq] at this
            rw [this]
            have hs : (getDefinition (it.pre[i - (st.nodes.size + 1)]).type).2 = .unaryPrefix := by
              have := hpre _ (List.getElem_mem hk)
              unfold isPrefixTok at this; simpa using this
            obtain ⟨qp, hqp, _⟩ := prefix_def_facts _ hs
            exact ⟨qp, hqp⟩
          · by_cases c4 : i = st.nodes.size + 1 + it.pre.length
            · subst c4; rw [lf2] at hi; injection hi with hi; subst hi
              exact ⟨10, underDef_prio hqa⟩
            · have : st2.nodes[i]? = none := by apply Array.getElem?_eq_none; omega
              rw [this] at hi; cases hi
    · refine ⟨_, by rw [s2]; exact lf2, underDef_prio hqa⟩
  · simp [dfOf, hon]
  · intro i h
    simp only [dfOf, hpdef i h, Option.getD_some]
  · simp only [dfOf, lf2, Option.map_some, Option.getD_some, hnddef]


end Garnish.Spec
