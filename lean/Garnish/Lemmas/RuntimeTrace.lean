/-
Trace half of the step simulation, part 1 (mirrors Lemmas/RuntimeStep.lean, RuntimeStep2.lean, the totalisation of
RuntimeStep8.lean): related traces stay related over quiet handlers and over the tail of the dispatcher; a handler
that refines a value-level outcome records exactly the `defer` call `pushOut` records (`StoreLaws.deferOp`).
-/
import Garnish.Model.Runtime.SimT
import Garnish.Lemmas.RuntimeStep8
set_option linter.unusedSimpArgs false
set_option linter.unusedVariables false
namespace Garnish.Lemmas.Runtime
open Garnish Gen Garnish.Abs Garnish.Model.Equality Garnish.Model.Runtime Garnish.Props.RuntimeRefine

variable {F σ : Type} {S : RStore F σ} {P : Prog F} {host : Host F}

theorem callRel_mapDec {v1 v2 : StoreView F} (hdec : ∀ a v, Decodes v1 a v → Decodes v2 a v)
    {c : HostCall} {c' : Abs.HostCall F} (h : CallRel v1 c c') : CallRel v2 c c' := by
  cases c <;> cases c' <;> simp only [CallRel] at h ⊢
  · rename_i op l r op' vl vr
    obtain ⟨tl, la⟩ := l
    obtain ⟨tr, ra⟩ := r
    obtain ⟨h1, h2, h3, h4, h5⟩ := h
    exact ⟨h1, h2, h3, hdec _ _ h4, h5.imp (hdec _ _) id⟩
  · exact h
  · exact ⟨h.1, hdec _ _ h.2⟩

theorem traceRel_mapDec {v1 v2 : StoreView F} (hdec : ∀ a v, Decodes v1 a v → Decodes v2 a v) :
    ∀ {t : List HostCall} {t' : List (Abs.HostCall F)}, TraceRel v1 t t' → TraceRel v2 t t'
  | _, _, .nil => .nil
  | _, _, .cons h t => .cons (callRel_mapDec hdec h) (traceRel_mapDec hdec t)

/-- a handler that makes no host call, against a machine step that records none -/
theorem handlerTrace_quiet {s : σ} {res : Outcome (Option Nat × σ)} {m md : MState F} {n : Nat}
    (hq : ∀ next s1, res = .ok (next, s1) → S.trace s1 = S.trace s ∧ DecKept S s s1)
    (ht : md.trace = m.trace) : HandlerTrace S s res m.trace (.ok (md, n)) := by
  intro next s1 h1 htr
  obtain ⟨e, hk⟩ := hq next s1 h1
  rw [e, ht]
  exact traceRel_mapDec hk htr

/-- results are unique: what holds of a witness holds of the result -/
theorem quiet_of_eff {α : Type} {s : σ} {res : Outcome (α × σ)} {R V : List Nat}
    (h : ∃ x s', res = .ok (x, s') ∧ Eff S s s' R V) :
    ∀ next s1, res = .ok (next, s1) → S.trace s1 = S.trace s ∧ DecKept S s s1 := by
  obtain ⟨x, s', h1, e⟩ := h
  intro next s1 h2
  rw [h1] at h2
  cases h2
  exact ⟨e.trace, e.keeps.dec⟩

/-- same argument list as `handlerSim_ofEff` -/
theorem handlerTrace_ofEff {s s1 : σ} {m md : MState F} (hd : SimD S P s m.regs m.vals m.frames)
    {res : Outcome (Option Nat × σ)} {next : Option Nat} {R V : List Nat} {n : Nat}
    (h1 : res = .ok (next, s1)) (e : Eff S s s1 R V)
    (hr : DecodesList (S.view s1) R md.regs) (hv : DecodesList (S.view s1) V md.vals) (hf : md.frames = m.frames)
    (hn : next.getD (S.cursor s + 1) = n) (ht : md.trace = m.trace := by rfl) :
    HandlerTrace S s res m.trace (.ok (md, n)) :=
  handlerTrace_quiet (quiet_of_eff ⟨next, s1, h1, e⟩) ht

/-- `advance` keeps the trace and every `Decodes` fact -/
theorem advance_trace (L : StoreLaws S) (next : Option Nat) {s1 s' : σ} {r : RuntimeState}
    (h : advance S next s1 = .ok (r, s')) : S.trace s' = S.trace s1 ∧ DecKept S s1 s' := by
  rw [advance, bind_ok (read_apply S.cursor s1), bind_ok (read_apply S.instrLen s1)] at h
  by_cases hge : next.getD (S.cursor s1 + 1) ≥ S.instrLen s1
  · simp only [hge, if_true] at h
    cases h
    exact ⟨rfl, fun _ _ x => x⟩
  · simp only [hge, if_false] at h
    obtain ⟨s2, h2, _, hdec, _, _, _, _, _, _, htr, _⟩ := L.setCursor (next.getD (S.cursor s1 + 1)) s1
    rw [bind_ok h2] at h
    cases h
    exact ⟨htr, hdec⟩

/-- from a handler's trace half to the step's trace half (same shape as `stepSim_of`) -/
theorem stepTrace_of (fo : FloatOps F) (L : StoreLaws S) (fuel : Nat) (H : OtherHandlers σ) {s : σ} {m : MState F}
    (hsim : Sim S P s m) {instr : Instruction} {operand : Option Nat}
    (hfetch : P.instrs[m.pc]? = some (instr, operand)) {r : Except ErrClass (MState F × Nat)}
    (hstep : Abs.step fo host P m = finish P r)
    (hh : HandlerTrace S s (dispatch fo S fuel H instr operand s) m.trace r) :
    StepTrace fo host S P fuel H s m := by
  intro htr
  obtain ⟨hpc, hd⟩ := hsim
  have hf : (RM.read (fun st => S.instruction st (S.cursor st)) : RM σ _) s = .ok (some (instr, operand), s) := by
    show Outcome.ok (S.instruction s (S.cursor s), s) = _
    rw [hd.instrs, hpc, hfetch]
  rw [hstep]
  cases r with
  | error e => trivial
  | ok p =>
    obtain ⟨md, n⟩ := p
    have key : ∀ r' s', executeCurrentInstruction fo S fuel H s = .ok (r', s') →
        TraceRel (S.view s') (S.trace s') md.trace := by
      intro r' s' hex
      rw [executeCurrentInstruction, bind_ok hf] at hex
      simp only [] at hex
      rw [bind_apply] at hex
      cases hdsp : dispatch fo S fuel H instr operand s with
      | ok q =>
        obtain ⟨next, s1⟩ := q
        rw [hdsp] at hex
        simp only [] at hex
        obtain ⟨e2, hk2⟩ := advance_trace L next hex
        have := hh next s1 hdsp htr
        rw [e2]
        exact traceRel_mapDec hk2 this
      | err e => rw [hdsp] at hex; cases hex
      | panic q => rw [hdsp] at hex; cases hex
      | fuelOut => rw [hdsp] at hex; cases hex
    simp only [finish]
    by_cases hge : n ≥ P.instrs.size
    · simp only [hge, if_true]; exact key
    · simp only [hge, if_false]; exact key

/-- trace half of `handlerSim_of_refines` (same arguments, plus the store laws for `Records`) -/
theorem handlerTrace_of_refines (L : StoreLaws S) (HR : HostRefines S host) {s : σ} {m : MState F}
    (hpc : S.cursor s = m.pc)
    {rest : List Nat} {mrest : List (Val F)} (hrest : DecodesList (S.view s) rest mrest)
    (hvals : DecodesList (S.view s) (S.vals s) m.vals) (hfr : FramesRel (S.view s) (S.frames s) m.frames)
    (hprog : (∀ i, S.instruction s i = P.instrs[i]?) ∧ (∀ j, S.jumpTable s j = P.jumps[j]?) ∧
      S.instrLen s = P.instrs.size)
    {la ra : Nat} {o : OpOut F} {res : Outcome (Option Nat × σ)} {next : Option Nat}
    (hnext : next.getD (S.cursor s + 1) = m.pc + 1)
    (href : RefinesOut S s res next rest la ra o)
    (hdefer : ∀ op a b, o = .defer op a b →
      Decodes (S.view s) la a ∧ (Decodes (S.view s) ra b ∨ (b = .unit ∧ ra = 0))) :
    HandlerTrace S s res m.trace (seqR m (pushOut host { m with regs := mrest } o)) := by
  cases o with
  | err e => trivial
  | val v =>
    obtain ⟨a, s1, h1, _, e1⟩ := href
    exact handlerTrace_quiet (quiet_of_eff ⟨next, s1, h1, e1⟩) rfl
  | defer op a b =>
    obtain ⟨s0, e0, hprot⟩ := href
    obtain ⟨da, db⟩ := hdefer op a b rfl
    unfold DeferProtocol at hprot
    have hmach : ∃ md, pushOut host { m with regs := mrest } (.defer op a b) = .ok md ∧
        md.trace = Abs.HostCall.defer op a b :: m.trace := by
      simp only [pushOut]
      cases host.defer op a b <;> exact ⟨_, rfl, rfl⟩
    obtain ⟨md, hmd, hmt⟩ := hmach
    rw [hmd]
    intro nx s1 hres htr
    rw [hmt]
    have hans : HostAnswer S (S.deferOp op (a.typeOf, la) (b.typeOf, ra)) s0 (host.defer op a b) := by
      rcases db with db | ⟨rfl, rfl⟩
      · exact HR.defer op la ra a b s0 (e0.dec da) (e0.dec db)
      · exact HR.deferUnary op la a s0 (e0.dec da)
    -- the host's state `sh`: it records the call, keeps the data; the handler then keeps both
    have core : ∃ bb sh, S.deferOp op (a.typeOf, la) (b.typeOf, ra) s0 = .ok (bb, sh) ∧ Keeps S s0 sh ∧
        S.trace s1 = S.trace sh ∧ DecKept S sh s1 := by
      unfold HostAnswer at hans
      cases hh : host.defer op a b with
      | some v =>
        rw [hh] at hans
        obtain ⟨x, sh, h1, _, he⟩ := hans
        rw [h1] at hprot
        simp only [] at hprot
        rw [hprot] at hres; cases hres
        exact ⟨true, _, h1, he.keeps, rfl, fun _ _ x => x⟩
      | none =>
        rw [hh] at hans
        obtain ⟨sh, h1, he⟩ := hans
        rw [h1] at hprot
        simp only [] at hprot
        obtain ⟨u, s2, h2, _, e2⟩ := hprot
        rw [h2] at hres; cases hres
        exact ⟨false, sh, h1, he.keeps, e2.trace, e2.keeps.dec⟩
    obtain ⟨bb, sh, h1, kh, et, dk⟩ := core
    have hrec := L.deferOp op (a.typeOf, la) (b.typeOf, ra) s0 bb sh h1
    have dall : DecKept S s s1 := fun x v hx => dk x v (kh.dec x v (e0.dec hx))
    rw [et, hrec, e0.trace]
    refine .cons ?_ (traceRel_mapDec dall htr)
    exact ⟨rfl, rfl, rfl, dall _ _ da, db.imp (dall _ _) id⟩

section
variable (fo : FloatOps F)

theorem stepTrace_binary (L : StoreLaws S) (HR : HostRefines S host) (fuel : Nat) (H : OtherHandlers σ)
    {s : σ} {m : MState F} (hsim : Sim S P s m) {op : Instruction} {operand : Option Nat}
    (hfetch : P.instrs[m.pc]? = some (op, operand)) (hgen : isGeneric op = true)
    {vr vl : Val F} {rs : List (Val F)} (hregs : m.regs = vr :: vl :: rs) {o : OpOut F}
    (hu : unaryOp fo op vr = none) (hb : binaryOp fo op vl vr = some o)
    (href : ∀ r l rest, S.regs s = r :: l :: rest → Decodes (S.view s) l vl → Decodes (S.view s) r vr →
      RefinesOut S s (dispatch fo S fuel H op operand s) none rest l r o)
    (hdefer : ∀ op' a b, o = .defer op' a b → a = vl ∧ b = vr) :
    StepTrace fo host S P fuel H s m := by
  obtain ⟨hpc, hd⟩ := hsim
  have hdr := hd.regs
  rw [hregs] at hdr
  obtain ⟨r, as1, e1, dr, t1⟩ := decodesList_cons_inv hdr
  obtain ⟨l, rest, e2, dl, t2⟩ := decodesList_cons_inv t1
  subst e2
  refine stepTrace_of fo L fuel H ⟨hpc, hd⟩ hfetch
    (by rw [step_generic_binary fo hfetch hgen hregs hu hb, seqNext_eq]) ?_
  exact handlerTrace_of_refines L HR hpc t2 hd.vals hd.frames ⟨hd.instrs, hd.jumps, hd.ilen⟩ (by simp [hpc])
    (href r l rest e1 dl dr)
    (fun op' a b ho => by obtain ⟨rfl, rfl⟩ := hdefer op' a b ho; exact ⟨dl, Or.inl dr⟩)

theorem stepTrace_unary (L : StoreLaws S) (HR : HostRefines S host) (fuel : Nat) (H : OtherHandlers σ)
    {s : σ} {m : MState F} (hsim : Sim S P s m) {op : Instruction} {operand : Option Nat}
    (hfetch : P.instrs[m.pc]? = some (op, operand)) (hgen : isGeneric op = true)
    {v : Val F} {rs : List (Val F)} (hregs : m.regs = v :: rs) {o : OpOut F}
    (hu : unaryOp fo op v = some o)
    (href : ∀ a rest, S.regs s = a :: rest → Decodes (S.view s) a v →
      RefinesOut S s (dispatch fo S fuel H op operand s) none rest a 0 o)
    (hdefer : ∀ op' a b, o = .defer op' a b → a = v ∧ b = .unit) :
    StepTrace fo host S P fuel H s m := by
  obtain ⟨hpc, hd⟩ := hsim
  have hdr := hd.regs
  rw [hregs] at hdr
  obtain ⟨a, rest, e1, da, t1⟩ := decodesList_cons_inv hdr
  refine stepTrace_of fo L fuel H ⟨hpc, hd⟩ hfetch
    (by rw [step_generic_unary fo hfetch hgen hregs hu, seqNext_eq]) ?_
  exact handlerTrace_of_refines L HR hpc t1 hd.vals hd.frames ⟨hd.instrs, hd.jumps, hd.ilen⟩ (by simp [hpc])
    (href a rest e1 da)
    (fun op' x b ho => by obtain ⟨rfl, rfl⟩ := hdefer op' x b ho; exact ⟨da, Or.inr ⟨rfl, rfl⟩⟩)

theorem stepTrace_of_err (fuel : Nat) (H : OtherHandlers σ) (s : σ) {m : MState F} {e : ErrClass}
    (h : Abs.step fo host P m = .err e) : StepTrace fo host S P fuel H s m := by
  intro _; rw [h]; trivial

theorem totalT_binary (fuel : Nat) (H : OtherHandlers σ) (s : σ) {m : MState F} {op : Instruction}
    {operand : Option Nat} (hfetch : P.instrs[m.pc]? = some (op, operand)) (hgen : isGeneric op = true)
    (hu : ∀ v : Val F, unaryOp fo op v = none)
    (full : ∀ vr vl rs, m.regs = vr :: vl :: rs → StepTrace fo host S P fuel H s m) :
    StepTrace fo host S P fuel H s m := by
  cases hr : m.regs with
  | nil =>
    refine stepTrace_of_err fo fuel H s (e := .state) ?_
    unfold Abs.step; rw [hfetch]
    cases op <;> simp [isGeneric] at hgen <;> simp only [hr]
  | cons vr t =>
    cases t with
    | nil =>
      refine stepTrace_of_err fo fuel H s (e := .state) ?_
      unfold Abs.step; rw [hfetch]
      cases op <;> simp [isGeneric] at hgen <;> simp only [hr, hu]
    | cons vl rs => exact full vr vl rs hr

theorem totalT_unary (fuel : Nat) (H : OtherHandlers σ) (s : σ) {m : MState F} {op : Instruction}
    {operand : Option Nat} (hfetch : P.instrs[m.pc]? = some (op, operand)) (hgen : isGeneric op = true)
    (full : ∀ v rs, m.regs = v :: rs → StepTrace fo host S P fuel H s m) :
    StepTrace fo host S P fuel H s m := by
  cases hr : m.regs with
  | nil =>
    refine stepTrace_of_err fo fuel H s (e := .state) ?_
    unfold Abs.step; rw [hfetch]
    cases op <;> simp [isGeneric] at hgen <;> simp only [hr]
  | cons v rs => exact full v rs hr

end

end Garnish.Lemmas.Runtime
