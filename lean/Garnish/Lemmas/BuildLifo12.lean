/-
C04, builder half — the order of the out-of-line parts, part 12: the visit lemmas with `LInv`.
-/
import Garnish.Lemmas.BuildLifo11
namespace Garnish.Lemmas.BuildSeq
open Garnish Garnish.Gen Garnish.Model.Parser Garnish.Model.Literals Garnish.Model.Build Garnish.Lemmas.Build
open Garnish.Lemmas.BuildTotal
open Garnish.Lemmas.BuildOrder (Above Attr)

variable {F : Type} {root : Nat} {tree : Array ParseNode} {G : Nat → Prop} {m0 : Nat}

structure PreL (root : Nat) (tree : Array ParseNode) (G : Nat → Prop) (m0 : Nat) (ph : Nat → Phase) (ctx : Ctx F) (ni : Nat)
    (pn : ParseNode) : Prop where
  pre : Pre root tree G ph ctx ni pn
  inv : FInv root tree G m0 ph (ctx.stack.toList ++ [ni]) ctx.nodes ctx.data.metadata
  linv : LInv root tree G m0 ph ctx.nodes ctx.rootStack.toList ctx.data.metadata

def PostL (root : Nat) (tree : Array ParseNode) (G : Nat → Prop) (m0 : Nat) (ph : Nat → Phase) (ctx' : Ctx F) : Prop :=
  ∃ ph', Inv root tree G ph' ctx' ∧ total ph' tree.size < total ph tree.size ∧
    FInv root tree G m0 ph' ctx'.stack.toList ctx'.nodes ctx'.data.metadata ∧
    LInv root tree G m0 ph' ctx'.nodes ctx'.rootStack.toList ctx'.data.metadata

theorem oolR_not_else {d : Definition} (h : oolR d = true) : d ≠ .elseJump := by
  intro e; subst e; simp [oolR, isLate] at h

section pre
variable {ph : Nat → Phase} {ctx : Ctx F} {ni : Nat} {pn : ParseNode}

theorem PreL.notP1 (p : PreL root tree G m0 ph ctx ni pn) {node : BuildNode} (hnode : ctx.nodes[ni]? = some (some node))
    (hst : node.state = .initialized) : ph ni ≠ .p1 := by
  intro h
  have := p.inv.1.uninit ni node hnode (Or.inl h)
  rw [hst] at this; cases this

/-- a child that is not the left child of And / Or and not a child of an ElseJump has no conditional parent -/
theorem PreL.ncp (p : PreL root tree G m0 ph ctx ni pn) {c : Nat} (hc : pn.left = some c ∨ pn.right = some c)
    (hne : pn.definition ≠ .elseJump) (hnl : ¬ (isLogical pn.definition = true ∧ pn.left = some c)) : NCP tree G root c :=
  NCP.other p.pre.hG p.pre.hpn hc hne hnl

theorem PreL.firstVisit (p : PreL root tree G m0 ph ctx ni pn) {ctx' : Ctx F} {node : BuildNode}
    (hnode : ctx.nodes[ni]? = some (some node)) (hst : node.state = .uninitialized)
    (hd : pn.definition ≠ .group ∧ pn.definition ≠ .nestedExpression)
    (cs suf : List Nat) (asg : List (Nat × BuildNode)) (l : List (Option Nat))
    (hM : ctx'.data.metadata.toList = ctx.data.metadata.toList ++ l) (hl : ∀ m, m ∈ l → m = none ∨ m = some ni)
    (hS : ctx'.stack.toList = ctx.stack.toList ++ suf) (hR : ctx'.rootStack = ctx.rootStack)
    (hN : ctx'.nodes = assign ctx.nodes asg)
    (hsuf : ∀ x, x ∈ suf → x = ni ∨ x ∈ cs) (hsufN : ni ∉ cs → cs.Nodup → suf.Nodup) (hcs : cs.Nodup)
    (hnisuf : ni ∈ suf) (hsufcs : ∀ c, c ∈ cs → c ∈ suf)
    (hchild : ∀ c, c ∈ cs → IsChild tree ni c ∧ ¬ LateRight tree ni c)
    (hasgp : ∀ q, q ∈ asg → q.2.parseNodeIndex = q.1)
    (hasg : ∀ q, q ∈ asg → (q.1 = ni ∧ q.2.state = .initialized ∧ q.2.conditionalItems = node.conditionalItems) ∨
      (q.1 ∈ cs ∧ q.2.conditionalItems = #[]))
    (hasgni : ∃ b, (ni, b) ∈ asg)
    (hasgU : ∀ q, q ∈ asg → q.1 = ni ∨ q.2.state = .uninitialized)
    (hasgall : ∀ c, c ∈ cs → ∃ b, (c, b) ∈ asg)
    (conf : Conf tree ni .p2 cs suf)
    (hattr : some ni ∈ l → pn.definition = .sideEffect) (hse : pn.definition = .sideEffect → some ni ∈ l)
    (hall : ∀ c, ILink tree ni c → c ∈ cs)
    (hasgcp : ∀ q, q ∈ asg → (q.2.state = .initialized → q.2.conditionalParent = node.conditionalParent) ∧
      (q.2.state = .uninitialized → CPdyn tree G root q.1 q.2.conditionalParent)) :
    PostL root tree G m0 ph ctx' := by
  have hp1 := p.pre.p1 hnode hst
  have hchild' : ∀ c, c ∈ cs ++ [] → IsChild tree ni c ∧ (LateRight tree ni c → Phase.p2 = .p3) ∧ (ph ni = .p2 → LateRight tree ni c) := by
    intro c hc
    have hc' : c ∈ cs := by simpa using hc
    refine ⟨(hchild c hc').1, fun hl => absurd hl (hchild c hc').2, fun h2 => ?_⟩
    rw [hp1] at h2; cases h2
  have h1 := step_inv_exp p.pre.V p.pre.inv p.pre.hG p.pre.hph p.pre.hns p.pre.hpn .p2 (Or.inl rfl) (fun _ => ⟨hp1, hd⟩) cs [] suf []
    asg hS (by rw [hR]; simp) hN (fun x hx => by
      rcases hsuf x hx with h | h
      · exact Or.inl ⟨h, rfl⟩
      · exact Or.inr h) hsufN (fun x hx => by cases hx) (fun _ => List.nodup_nil) (by simpa using hcs) hchild' hasgp
    (fun q hq => by
      rcases hasg q hq with ⟨h1, h2, h3⟩ | ⟨h1, h2⟩
      · exact Or.inl ⟨h1, fun _ => h2, node, hnode, h3⟩
      · exact Or.inr ⟨by simpa using h1, h2⟩) (fun _ => hasgni)
  have hkeys : ∀ q, q ∈ asg → q.1 = ni ∨ (q.1 ∈ cs ++ [] ∧ q.2.state = .uninitialized) := by
    intro q hq
    rcases hasg q hq with ⟨h1, _⟩ | ⟨h1, _⟩
    · exact Or.inl h1
    · rcases hasgU q hq with h2 | h2
      · exact Or.inl h2
      · exact Or.inr ⟨by simpa using h1, h2⟩
  have st := mkStep (M := ctx.data.metadata) (M' := ctx'.data.metadata) p.pre.V p.pre.inv p.pre.hG p.pre.hph p.pre.hpn .p2
    (Or.inl rfl) (fun _ => hp1) cs [] suf asg l hS hN hM hl
    (fun _ => hnisuf) hsufcs h1.1.stackNodup (by simpa using hcs) hchild' hkeys (fun c hc => hasgall c (by simpa using hc))
    (fun _ => hp1) conf (fun h => Or.inr (hattr h)) hse (fun c hc => by cases hc)
  have hcsmem : ∀ c, c ∈ cs ++ [] → c ∈ cs := fun c hc => by simpa using hc
  have sl := mkStepL st asg hN (by rw [hR]; simp) (fun c _ h => by cases h) (fun h => absurd rfl h) (fun _ => hall)
    (fun c hc => by cases hc) (fun h => absurd rfl h) (fun h => by cases h) (fun h => by cases h)
    (fun c hc bn => p.linv.noNode c (Or.inl (st.hfreshcs c (hcsmem c hc)).1) bn)
    (fun c hc => p.pre.child_lt (st.hfreshcs c (hcsmem c hc)).2.2)
    (fun q hq => by
      rcases hasg q hq with ⟨h1, _⟩ | ⟨h1, _⟩
      · exact Or.inl h1
      · exact Or.inr (by simpa using h1))
    (fun c hc => hasgall c (hcsmem c hc))
    (fun q hq hqn => by
      rcases hasg q hq with ⟨_, h2, h3⟩ | ⟨h1, _⟩
      · exact ⟨node, hnode, (hasgcp q hq).1 h2, h3⟩
      · exact absurd (hqn ▸ h1) (fun h => (st.hfreshcs ni h).2.1 rfl))
    (fun q hq hqn => by
      rcases hasg q hq with ⟨h1, _⟩ | ⟨_, h2⟩
      · exact absurd h1 hqn
      · rcases hasgU q hq with h3 | h3
        · exact absurd h3 hqn
        · exact ⟨h2, (hasgcp q hq).2 h3⟩)
    (fun h => absurd h hd.1)
  exact ⟨_, h1.1, h1.2, step_finv st p.inv, stepL_linv sl p.inv.1 p.linv⟩

theorem PreL.lastVisit (p : PreL root tree G m0 ph ctx ni pn) {ctx' : Ctx F} (asg : List (Nat × BuildNode))
    (l : List (Option Nat))
    (hM : ctx'.data.metadata.toList = ctx.data.metadata.toList ++ l) (hl : ∀ m, m ∈ l → m = none ∨ m = some ni)
    (hS : ctx'.stack = ctx.stack) (hR : ctx'.rootStack = ctx.rootStack) (hN : ctx'.nodes = assign ctx.nodes asg)
    (hasgp : ∀ q, q ∈ asg → q.2.parseNodeIndex = q.1)
    (hasg : ∀ q, q ∈ asg → q.1 = ni ∧ ∃ bn, ctx.nodes[ni]? = some (some bn) ∧ q.2.conditionalItems = bn.conditionalItems ∧
      q.2.conditionalParent = bn.conditionalParent)
    (hse : pn.definition = .sideEffect → some ni ∈ l)
    (hnl1 : ph ni = .p1 → ∀ c, ¬ ILink tree ni c)
    (hlast : ∀ (r : Nat) (bn : BuildNode), pn.right = some r → ctx.nodes[ni]? = some (some bn) →
      ((isDirect pn.definition = true ∨ (isJumpIf pn.definition = true ∧ bn.conditionalParent = none)) → False) ∧
      (isJumpIf pn.definition = true → ∀ (cp : Nat) (parent : BuildNode), bn.conditionalParent = some cp →
        ctx.nodes[cp]? = some (some parent) → False))
    (helse : pn.definition = .elseJump → ∀ (bn : BuildNode), ctx.nodes[ni]? = some (some bn) → bn.conditionalParent = none →
      [] = itemsOf bn)
    (hgr : pn.definition = .group → some ni ∉ l) : PostL root tree G m0 ph ctx' := by
  have h1 := step_inv_exp p.pre.V p.pre.inv p.pre.hG p.pre.hph p.pre.hns p.pre.hpn .p3 (Or.inr rfl) (fun h => by cases h) [] [] [] [] asg
    (by rw [hS]; simp) (by rw [hR]; simp) hN (fun x hx => by cases hx) (fun _ _ => List.nodup_nil)
    (fun x hx => by cases hx) (fun _ => List.nodup_nil) (by simp) (fun c hc => by cases hc) hasgp
    (fun q hq => Or.inl ⟨(hasg q hq).1, (fun h => by cases h), by
      obtain ⟨_, bn, g1, g2, _⟩ := hasg q hq
      exact ⟨bn, g1, g2⟩⟩) (fun h => by cases h)
  have st := mkStep (M := ctx.data.metadata) (M' := ctx'.data.metadata) p.pre.V p.pre.inv p.pre.hG p.pre.hph p.pre.hpn .p3
    (Or.inr rfl) (fun h => by cases h) [] [] [] asg l
    (by rw [hS]; simp) hN hM hl (fun h => by cases h) (fun c hc => by cases hc) h1.1.stackNodup (by simp)
    (fun c hc => by cases hc) (fun q hq => Or.inl (hasg q hq).1) (fun c hc => by cases hc) (fun h => absurd rfl h)
    (conf_nil tree ni .p3 []) (fun _ => Or.inl rfl) hse (fun c hc => by cases hc)
  have sl := mkStepL st asg hN (by rw [hR]; simp) (fun c h => by cases h) (fun h => absurd rfl h)
    (fun h c hc => absurd hc (hnl1 h c)) (fun c hc => by cases hc) (fun h => absurd rfl h)
    (fun _ r bn hr hn => ⟨fun h => absurd h (hlast r bn hr hn).1, (hlast r bn hr hn).2⟩)
    (fun _ hd bn hn hc => helse hd bn hn hc)
    (fun c hc => by cases hc) (fun c hc => by cases hc)
    (fun q hq => Or.inl (hasg q hq).1) (fun c hc => by cases hc)
    (fun q hq _ => by
      obtain ⟨_, bn, g1, g2, g3⟩ := hasg q hq
      exact ⟨bn, g1, g3, g2⟩)
    (fun q hq hqn => absurd (hasg q hq).1 hqn) hgr
  exact ⟨_, h1.1, h1.2, step_finv st p.inv, stepL_linv sl p.inv.1 p.linv⟩

end pre

end Garnish.Lemmas.BuildSeq
