/-
Refinement lemmas for range.rs / pair.rs / concat.rs / partial.rs: the incremented copy of a range end, and the
common tail "adder, `push_register`, `Ok(None)`".
-/
import Garnish.Lemmas.RuntimeArith
import Garnish.Model.Runtime.Range
set_option linter.unusedSimpArgs false
set_option linter.unusedVariables false
namespace Garnish.Lemmas.Runtime
open Garnish Gen Garnish.Abs Garnish.Model.Equality Garnish.Model.Runtime

variable {F σ : Type} {S : RStore F σ} (fo : FloatOps F)

theorem addIncremented_some (L : StoreLaws S) {s0 : σ} {addr : Nat} {a x : Number F}
    (hd : Decodes (S.view s0) addr (.num a)) (hi : Number.increment fo a = some x) :
    Adds S (addIncremented fo S addr) s0 (.num x) := by
  obtain ⟨la, s1, h1, d1, e1⟩ := L.addNumber x s0
  exact ⟨la, s1, by rw [addIncremented, bind_ok (getNumber_of hd), hi, bind_ok (orNumErr_some x s0), h1], d1, e1⟩

theorem addIncremented_none {s0 : σ} {addr : Nat} {a : Number F}
    (hd : Decodes (S.view s0) addr (.num a)) (hi : Number.increment fo a = none) :
    addIncremented fo S addr s0 = .err .number := by
  rw [addIncremented, bind_ok (getNumber_of hd), hi, bind_err (orNumErr_none s0)]

/-- the tail of the number arm: `add_range` then `push_register` -/
theorem rangeTail (L : StoreLaws S) {s s1 : σ} {la ra : Nat} {x y : Number F} {rest : List Nat}
    (e1 : Eff S s s1 rest (S.vals s)) (dl : Decodes (S.view s1) la (.num x)) (dr : Decodes (S.view s1) ra (.num y)) :
    Pushed S s ((do let addr ← S.addRange la ra; S.pushRegister addr; pure none : RM σ (Option Nat)) s1) none rest
      (.range (.num x) (.num y)) := by
  obtain ⟨ad, s2, h2, d2, e2⟩ := L.addRange la ra _ _ s1 dl dr
  obtain ⟨s3, h3, e3⟩ := L.pushRegister ad s2
  rw [e2.regs, e2.vals, e1.regs, e1.vals] at e3
  exact ⟨ad, s3, by rw [bind_ok h2, bind_ok h3]; rfl, e3.dec d2, (e1.trans e2).trans e3⟩

/-- an adder followed by `push_register` and `Ok(None)`, after both operands were popped -/
theorem addPushTail (L : StoreLaws S) {s s0 : σ} {rest : List Nat} {m : RM σ Nat} {v : Val F}
    (e0 : Eff S s s0 rest (S.vals s)) (ha : Adds S m s0 v) :
    Pushed S s ((do let x ← m; S.pushRegister x; pure none : RM σ (Option Nat)) s0) none rest v := by
  obtain ⟨ad, s2, h2, d2, e2⟩ := ha
  obtain ⟨s3, h3, e3⟩ := L.pushRegister ad s2
  rw [e2.regs, e2.vals, e0.regs, e0.vals] at e3
  exact ⟨ad, s3, by rw [bind_ok h2, bind_ok h3]; rfl, e3.dec d2, (e0.trans e2).trans e3⟩

end Garnish.Lemmas.Runtime
