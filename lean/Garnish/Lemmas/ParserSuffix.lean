/-
Suffix operators, part 1: the state invariant `SInv` (the last node is a value or a suffix operator), and `core_effect`:
what `parse_token` does for a new operator of priority > 10 on such a state — it succeeds, and any array that extends its
result by the operator node (and an operand subtree) represents `insertS .. sub T`; three cases: the bottom node stops
the operator, an inner node stops it, it passes the whole spine.
-/
import Garnish.Lemmas.ParserBottom
import Garnish.Lemmas.ParserPrefix5

namespace Garnish.Spec
open Garnish Garnish.Gen Garnish.Model.Parser

/-- the state after a value or a suffix operator: the nodes represent `T`, in-order 0..size-1, the last node has no right
    child and is not a bracket -/
structure SInv (st : PState) (T : Tree) (rt : Nat) : Prop where
  tree : IsTreeAt st.nodes none (some rt) T
  inord : T.inorder = List.range st.nodes.size
  pos : 0 < st.nodes.size
  lastLeft : st.lastLeft = some (st.nodes.size - 1)
  cfl : st.checkForList = false
  nnl : st.nextLastLeft = none
  gs : st.groupStack = #[]
  cg : st.currentGroup = none
  prios : AllPrio st.nodes
  bottom : ∃ nd, st.nodes[st.nodes.size - 1]? = some nd ∧ nd.right = none ∧ nd.definition.isGroupLike = false
  prev : st.previousSecondDef = .value ∨ st.previousSecondDef = .identifier ∨ st.previousSecondDef = .unarySuffix

theorem prio10_not_groupLike {d : Definition} (h : priority d = some 10) : d.isGroupLike = false := by
  revert h; cases d <;> decide

theorem FragInv.toS {st : PState} {T : Tree} {rt : Nat} (h : FragInv st T rt) : SInv st T rt := by
  obtain ⟨nd, h1, h2⟩ := h.bottom
  refine ⟨h.tree, h.inord, h.pos, h.lastLeft, h.cfl, h.nnl, h.gs, h.cg, h.prios, ⟨nd, h1, ?_, prio10_not_groupLike h2⟩, ?_⟩
  · -- the last node is the rightmost node of the tree: it has no right child
    have hmem : st.nodes.size - 1 ∈ T.inorder := by rw [h.inord]; exact List.mem_range.mpr (by have := h.pos; omega)
    cases hr : nd.right with
    | none => rfl
    | some r =>
      exfalso
      have hnd : T.inorder.Nodup := by rw [h.inord]; exact List.nodup_range
      -- r is in the tree, hence < size; but it comes after size-1 in in-order = increasing order
      have hrmem := h.tree.child_mem hmem h1 (Or.inr hr)
      have hrlt : r < st.nodes.size := by rw [h.inord] at hrmem; exact List.mem_range.mp hrmem
      -- in-order position of a right child is after its parent
      have := right_child_after h.tree (st.nodes.size - 1) nd r hmem h1 hr
      rw [h.inord] at this
      obtain ⟨l1, l2, l3, he⟩ := this
      have hsorted : (List.range st.nodes.size).Pairwise (· < ·) := List.pairwise_lt_range
      rw [he] at hsorted
      have : st.nodes.size - 1 < r := by
        have := List.pairwise_append.mp hsorted
        have h2 := (List.pairwise_cons.mp this.2.1).1 r (by simp)
        exact h2
      omega
  · rcases h.prev with h | h
    · exact Or.inl h
    · exact Or.inr (Or.inl h)
where
  /-- in the in-order sequence a right child comes after its parent -/
  right_child_after {nodes : Array ParseNode} {p link : Option Nat} {t : Tree} (h : IsTreeAt nodes p link t) :
      ∀ (x : Nat) (nx : ParseNode) (r : Nat), x ∈ t.inorder → nodes[x]? = some nx → nx.right = some r →
        ∃ l1 l2 l3, t.inorder = l1 ++ x :: (l2 ++ r :: l3) := by
    induction h with
    | nil p => intro x nx r hx; simp [Tree.inorder] at hx
    | node p i nd l rr hn hpar hl hr ihl ihr =>
      intro x nx r hx hnx hxr
      simp only [Tree.inorder, List.mem_append, List.mem_cons] at hx
      rcases hx with hx | hx | hx
      · obtain ⟨l1, l2, l3, he⟩ := ihl x nx r hx hnx hxr
        exact ⟨l1, l2, l3 ++ i :: rr.inorder, by simp [Tree.inorder, he]⟩
      · subst hx
        rw [hn] at hnx; injection hnx with hnx; subst hnx
        rw [hxr] at hr
        cases hr with
        | node _ _ nr rl rrr _ _ _ _ =>
          exact ⟨l.inorder, rl.inorder, rrr.inorder, by simp [Tree.inorder]⟩
      · obtain ⟨l1, l2, l3, he⟩ := ihr x nx r hx hnx hxr
        exact ⟨l.inorder ++ i :: l1, l2, l3, by simp [Tree.inorder, he]⟩

theorem SInv.plainOK {st : PState} {T : Tree} {rt : Nat} (h : SInv st T rt) : PlainOK st := by
  obtain ⟨nd, h1, _, h3⟩ := h.bottom
  exact ⟨_, nd, h.lastLeft, h1, h3⟩

theorem SInv.adjust {st : PState} {T : Tree} {rt : Nat} (h : SInv st T rt) : adjustLastLeft st none = .ok st :=
  adjustLastLeft_plainOK h.plainOK none

/-- **`parse_token` for a new operator of priority `q > 10`** on a state that satisfies `SInv` -/
theorem core_effect {st : PState} {T : Tree} {rt : Nat} (hinv : SInv st T rt) (d : Definition) (q : Nat) (rtl : Bool)
    (right : Option Nat) (hq : priority d = some q) (hq10 : 10 < q) :
    ∃ (nodes' : Array ParseNode) (info : Info),
      parseToken st.nodes.size d (some (st.nodes.size - 1)) right st.nodes none rtl = .ok (nodes', info) ∧
      info.right = right ∧
      (∀ j, j < st.nodes.size → (nodes'[j]?).map (·.definition) = (st.nodes[j]?).map (·.definition)) ∧
      (∀ (arr : Array ParseNode) (sub : Tree) (ko : Nat), (∀ j, j < st.nodes.size → arr[j]? = nodes'[j]?) →
        (∃ on, arr[st.nodes.size]? = some on ∧ on.parent = info.parent ∧ on.left = info.left ∧ on.right = right ∧
          tokPos on = ko) →
        IsTreeAt arr (some st.nodes.size) right sub →
        ∃ rt', IsTreeAt arr none (some rt') (insertS (prioAt st.nodes) q rtl st.nodes.size ko sub T)) := by
  obtain ⟨htree, hin, hpos, hll, hcfl, hnnl, hgs, hcg, hprios, ⟨bnd, hb1, hb2, hb3⟩, hprev⟩ := hinv
  have hchain : Chain st.nodes (rspineUp T) := by
    have := chain_of_tree hprios htree [] trivial rfl
    simpa using this
  have hlastT : T.inorder.getLast? = some (st.nodes.size - 1) := by
    rw [hin, List.getLast?_range]; simp [Nat.ne_of_gt hpos]
  have hhead : (rspineUp T).head? = some (st.nodes.size - 1) := by rw [rspineUp_head, hlastT]
  have hlen : (rspineUp T).length ≤ st.nodes.size := by
    have := rspineUp_length T; rw [hin] at this; simpa using this
  have hwalk := walkLoop_chain st.nodes q rtl (rspineUp T) (st.nodes.size + 1) 0 (some (st.nodes.size - 1)) hchain
    (by omega) (by omega)
  rw [hhead] at hwalk
  have hnd : T.inorder.Nodup := by rw [hin]; exact List.nodup_range
  have hmem : ∀ j, j ∈ T.inorder ↔ j < st.nodes.size := by intro j; rw [hin]; exact List.mem_range
  by_cases hstopB : stops q rtl (prioAt st.nodes (st.nodes.size - 1)) = true
  · -- the bottom node stops the operator
    obtain ⟨hw, ⟨nb, hnb, hnbr⟩, _⟩ := walk_insertB st.nodes q rtl st.nodes.size 0 .nil none htree rt rfl hnd _ hlastT hstopB
      (some (st.nodes.size - 1))
    rw [hw] at hwalk
    obtain ⟨nodes', info, h⟩ := parseToken_bottom_ok (id := st.nodes.size) (right := right) hq hwalk hnb hnbr
    obtain ⟨hinfo, hg⟩ := parseToken_bottom hq hwalk hnb hnbr h
    refine ⟨nodes', info, h, by rw [hinfo], ?_, ?_⟩
    · intro j _
      rw [hg j]
      split
      · exact map_def_setRight _ _
      · rfl
    · intro arr sub ko hlt hon hsub
      obtain ⟨_, _, t', habs, harr⟩ := walk_insertB st.nodes q rtl st.nodes.size ko sub right htree rt rfl hnd _ hlastT
        hstopB (some (st.nodes.size - 1))
      refine ⟨rt, ?_⟩
      unfold insertS; rw [habs]
      have hbl : st.nodes.size - 1 < st.nodes.size := by omega
      apply harr arr
      · intro j hj h1
        rw [hlt j ((hmem j).mp hj), hg j, if_neg h1]
      · rw [hlt _ hbl, hg _, if_pos rfl]
      · obtain ⟨on, o1, o2, o3, o4, o5⟩ := hon
        exact ⟨⟨on, o1, by rw [o2, hinfo], by rw [o3, hinfo], o4, o5⟩, hsub⟩
  · have hbot : bottomOK (prioAt st.nodes) q rtl T := by
      apply bottomOK_of_last
      intro b hb
      rw [hlastT] at hb
      injection hb with hb; subst hb
      simpa using hstopB
    rcases hw : walkSpec st.nodes q rtl (some (st.nodes.size - 1)) (rspineUp T) with ⟨tl, par⟩
    rw [hw] at hwalk
    cases par with
    | some x =>
      obtain ⟨hS0, _⟩ := walk_insertS st.nodes q rtl st.nodes.size 0 .nil none htree rt rfl hnd hbot
        (some (st.nodes.size - 1))
      obtain ⟨tlv, _, nx, e1, m1, m2, ne, hx, hxr, _, _⟩ := hS0 tl x hw
      subst e1
      obtain ⟨nodes', info, h⟩ := parseToken_stop_ok (id := st.nodes.size) (right := right) hq hwalk ne hx hxr
        ((hmem tlv).mp m1)
      obtain ⟨hinfo, hg⟩ := parseToken_stop hq hwalk ne hx hxr h
      refine ⟨nodes', info, h, by rw [hinfo], ?_, ?_⟩
      · intro j _
        rw [hg j]
        split
        · exact map_def_setParent _ _
        · split
          · exact map_def_setRight _ _
          · rfl
      · intro arr sub ko hlt hon hsub
        obtain ⟨hS, _⟩ := walk_insertS st.nodes q rtl st.nodes.size ko sub right htree rt rfl hnd hbot
          (some (st.nodes.size - 1))
        obtain ⟨tlv', t', nx', e1', _, _, _, _, _, habs, harr⟩ := hS (some tlv) x hw
        injection e1' with e1'; subst e1'
        refine ⟨rt, ?_⟩
        unfold insertS; rw [habs]
        apply harr arr
        · intro j hj h1 h2
          rw [hlt j ((hmem j).mp hj), hg j, if_neg h1, if_neg h2]
        · rw [hlt tlv ((hmem tlv).mp m1), hg tlv, if_pos rfl]
        · rw [hlt x ((hmem x).mp m2), hg x, if_neg (fun e => ne e.symm), if_pos rfl]
        · obtain ⟨on, o1, o2, o3, o4, o5⟩ := hon
          exact ⟨⟨on, o1, by rw [o2, hinfo], by rw [o3, hinfo], o4, o5⟩, hsub⟩
    | none =>
      obtain ⟨_, hN0⟩ := walk_insertS st.nodes q rtl st.nodes.size 0 .nil none htree rt rfl hnd hbot
        (some (st.nodes.size - 1))
      obtain ⟨e1, _, _⟩ := hN0 tl hw
      subst e1
      have hrt : rt < st.nodes.size := (hmem rt).mp htree.root_mem
      obtain ⟨nodes', info, h⟩ := parseToken_root_ok (id := st.nodes.size) (right := right) hq hwalk hrt
      obtain ⟨hinfo, hg⟩ := parseToken_root hq hwalk h
      refine ⟨nodes', info, h, by rw [hinfo], ?_, ?_⟩
      · intro j _
        rw [hg j]
        split
        · exact map_def_setParent _ _
        · rfl
      · intro arr sub ko hlt hon hsub
        obtain ⟨_, hN⟩ := walk_insertS st.nodes q rtl st.nodes.size ko sub right htree rt rfl hnd hbot
          (some (st.nodes.size - 1))
        obtain ⟨_, habs, harr⟩ := hN (some rt) hw
        refine ⟨st.nodes.size, ?_⟩
        unfold insertS; rw [habs]
        obtain ⟨on, o1, o2, o3, o4, o5⟩ := hon
        apply newOpS_isTreeAt (llink := some rt) (rlink := right)
        · exact ⟨⟨on, o1, by rw [o2, hinfo], by rw [o3, hinfo], o4, o5⟩, hsub⟩
        · apply harr arr
          · intro j hj h1
            rw [hlt j ((hmem j).mp hj), hg j, if_neg h1]
          · rw [hlt rt hrt, hg rt, if_pos rfl]

end Garnish.Spec
