/-
Lemmas/RuntimeConcat.lean over `StoreLawsOn`: the work-list of `iterate_concatenation_mut_with_method` lives on the register stack —
every pushed operand must be readable (`ncNodes`: no `custom` node in the concatenation tree) and the pops stay above `base` (`Deep`).
-/
import Garnish.Lemmas.RuntimeOnAccess
import Garnish.Model.Runtime.RefinesApply
set_option linter.unusedSimpArgs false
set_option linter.unusedVariables false
namespace Garnish.Lemmas.Runtime.On
open Garnish Gen Garnish.Abs Garnish.Model.Equality Garnish.Model.Runtime Garnish.Lemmas.Runtime

variable {F σ : Type} {S : RStore F σ} {Inv : σ → Prop} {Rd : σ → Nat → Prop} (fo : FloatOps F)

theorem firstHit_append (vchk : Nat → Val F → Option (Val F)) : ∀ (k : Nat) (xs ys : List (Val F)),
    firstHit vchk k (xs ++ ys) = match firstHit vchk k xs with
      | some w => some w
      | none => firstHit vchk (k + xs.length) ys
  | k, [], ys => by simp [firstHit]
  | k, x :: xs, ys => by
    simp only [List.cons_append, firstHit]
    cases vchk k x with
    | some w => rfl
    | none =>
      simp only []
      rw [firstHit_append vchk (k + 1) xs ys]
      simp only [List.length_cons]
      rw [show k + 1 + xs.length = k + (xs.length + 1) by omega]

theorem nodes_pos (v : Val F) : 0 < nodes v := by cases v <;> simp [nodes] <;> omega

theorem plus_nat (a b : Nat) (h : a + b ≤ 2147483647) :
    Number.plus fo (.int (a : Int)) (.int (b : Int)) = some (.int ((a + b : Nat) : Int)) := by
  have hr : InRange ((a : Int) + (b : Int)) := by unfold InRange; omega
  simp [Number.plus, Number.doOp, Number.overflowingAdd, Lemmas.ovf_eq, hr]

/-- the inner `while i < len` over one list operand -/
theorem iterListLoop_spec (L : StoreLawsOn S Inv Rd) {checkFn : Unit → Number F → Nat → RM σ (Option Nat × Unit)}
    {vchk : Nat → Val F → Option (Val F)} (hchk : CheckRefines S checkFn vchk)
    (s : σ) (r : Nat) (items : List Nat) (vs : List (Val F))
    (hi : (S.view s).listItems r = some items) (hd : DecodesList (S.view s) items vs) (index : Nat)
    (hb : index + items.length ≤ 2147483647) :
    ∀ (rem i : Nat), rem + i = items.length →
      ∃ o, iterListLoop fo S checkFn r index rem i () s = .ok ((o, ()), s) ∧
        match firstHit vchk (index + i) (vs.drop i) with
        | some w => ∃ a, o = some a ∧ Decodes (S.view s) a w
        | none => o = none := by
  have hl := EqualityRefine.decodesList_length hd
  obtain ⟨_, hget⟩ := L.listIdx s r items hi
  intro rem
  induction rem with
  | zero =>
    intro i hri
    have : vs.drop i = [] := List.drop_eq_nil_of_le (by omega)
    exact ⟨none, rfl, by rw [this]; rfl⟩
  | succ rem ih =>
    intro i hri
    have hlt : i < items.length := by omega
    have hlt' : i < vs.length := by omega
    obtain ⟨_, dv⟩ := decodesList_getElem hd i hlt
    have hsz : (sizeToNumber i : Number F) = .int i := sizeToNumber_small (by omega)
    have hsx : (sizeToNumber index : Number F) = .int index := sizeToNumber_small (by omega)
    have hg := hget i hlt
    rw [List.getElem?_eq_getElem hlt] at hg
    obtain ⟨o, hc, hres⟩ := hchk s (index + i) items[i] vs[i] (by omega) dv
    have hdrop : vs.drop i = vs[i] :: vs.drop (i + 1) := List.drop_eq_getElem_cons hlt'
    rw [iterListLoop]
    simp only [hsz, hsx]
    rw [bind_ok (readR_ok (g := fun st => S.listItem st r (.int i)) hg)]
    simp only []
    rw [bind_ok (pure_apply items[i] s), plus_nat fo index i (by omega), bind_ok (orNumErr_some _ s), bind_ok hc]
    simp only []
    rw [hdrop, firstHit]
    cases hv : vchk (index + i) vs[i] with
    | some w =>
      rw [hv] at hres
      obtain ⟨a, rfl, da⟩ := hres
      exact ⟨some a, rfl, a, rfl, da⟩
    | none =>
      rw [hv] at hres
      subst hres
      simp only []
      obtain ⟨o2, h2, r2⟩ := ih (i + 1) (by omega)
      exact ⟨o2, h2, by rw [show index + (i + 1) = index + i + 1 by omega] at r2; exact r2⟩

theorem typeOf_list {v : Val F} (h : v.typeOf = .list) : ∃ xs, v = .list xs := by
  cases v <;> simp [Val.typeOf] at h
  exact ⟨_, rfl⟩

theorem typeOf_concat {v : Val F} (h : v.typeOf = .concatenation) : ∃ l r, v = .concat l r := by
  cases v <;> simp [Val.typeOf] at h
  exact ⟨_, _, rfl⟩

theorem visit_other (rev : Bool) {v : Val F} (h1 : v.typeOf ≠ .list) (h2 : v.typeOf ≠ .concatenation) :
    visit rev v = [v] := by
  cases v <;> first | rfl | exact absurd rfl h1 | exact absurd rfl h2

theorem nodes_other {v : Val F} (h2 : v.typeOf ≠ .concatenation) : nodes v = 1 := by
  cases v <;> first | rfl | exact absurd rfl h2

theorem length_le_nodesAll {view : StoreView F} : ∀ {ps : List Nat} {pvs : List (Val F)},
    DecodesList view ps pvs → ps.length ≤ nodesAll pvs
  | [], [], .nil => Nat.le_refl _
  | _ :: _, v :: _, .cons _ t => by
    have := length_le_nodesAll t
    have := nodes_pos v
    simp only [List.length_cons, nodesAll]; omega

theorem concat_of {s : σ} {a : Nat} {vl vr : Val F} (h : Decodes (S.view s) a (.concat vl vr)) :
    ∃ x y, (S.view s).concatenation a = some (x, y) ∧ Decodes (S.view s) x vl ∧ Decodes (S.view s) y vr := by
  cases h with
  | concat _ hc dl dr _ _ _ => exact ⟨_, _, hc, dl, dr⟩

theorem getMethod_of (rev : Bool) {s : σ} {a x y : Nat} (h : (S.view s).concatenation a = some (x, y)) :
    getMethod S rev a s = .ok ((if rev then (y, x) else (x, y)), s) := by
  have : getConcatenation S a s = .ok ((x, y), s) := by
    simp [getConcatenation, RM.lift, h, fetch, Outcome.ofOption, Outcome.bind]
  rw [getMethod, bind_ok this]; rfl

theorem decodesList_keeps {s s' : σ} (k : Keeps S s s') : ∀ {ps : List Nat} {pvs : List (Val F)},
    DecodesList (S.view s) ps pvs → DecodesList (S.view s') ps pvs
  | [], [], .nil => .nil
  | _ :: _, _ :: _, .cons h t => .cons (k.dec _ _ h) (decodesList_keeps k t)

/-- no node of a concatenation tree is `custom` (a `custom` operand cannot be shown readable: in Simple a `StackFrame`
cell also has type Custom) -/
def ncNodes : Val F → Prop
  | .concat l r => ncNodes l ∧ ncNodes r
  | .custom => False
  | _ => True

theorem ncNodes_ne {v : Val F} (h : ncNodes v) : v ≠ .custom := by
  intro hv; subst hv; exact h

def ncAll (vs : List (Val F)) : Prop := ∀ v ∈ vs, ncNodes v

/-- the law `pop_register` as an effect -/
theorem popReg (L : StoreLawsOn S Inv Rd) {s : σ} {a : Nat} {rest : List Nat} (h : S.regs s = a :: rest)
    (hinv : Inv s := by inv_tac) (hdp : Deep S s rest := by deep_tac) :
    ∃ s', S.popRegister s = .ok (some a, s') ∧ EffI S Inv s s' rest (S.vals s) := by
  obtain ⟨s', h1, e, i⟩ := L.popRegisterCons s a rest hinv h hdp
  exact ⟨s', h1, e, i⟩

/-- what one run of the outer loop establishes -/
def LoopOut (S : RStore F σ) (Inv : σ → Prop) (vchk : Nat → Val F → Option (Val F)) (rev : Bool) (base : List Nat) (s : σ)
    (res : Outcome (((Option Nat × Nat) × Unit) × σ)) (index : Nat) (pvs : List (Val F)) : Prop :=
  ∃ r idx' s' extra, res = .ok (((r, idx'), ()), s') ∧
    EffI S Inv s s' (extra ++ base) (S.vals s) ∧ extra.length ≤ nodesAll pvs ∧
    match firstHit vchk index (visitAll rev pvs) with
    | some w => ∃ a, r = some a ∧ Decodes (S.view s') a w
    | none => r = none ∧ extra = []

/-- the outer `while get_register_len() > start_register` finds the first item the check accepts -/
theorem iterLoop_spec (L : StoreLawsOn S Inv Rd) (rev : Bool) {checkFn : Unit → Number F → Nat → RM σ (Option Nat × Unit)}
    {vchk : Nat → Val F → Option (Val F)} (hchk : CheckRefines S checkFn vchk) (base : List Nat) :
    ∀ (fuel : Nat) (ps : List Nat) (pvs : List (Val F)) (index : Nat) (s : σ),
      Inv s → Deep S s base → ncAll pvs →
      S.regs s = ps ++ base → DecodesList (S.view s) ps pvs → nodesAll pvs + 1 ≤ fuel →
      index + (visitAll rev pvs).length ≤ 2147483647 →
      LoopOut S Inv vchk rev base s (iterLoop fo S rev checkFn base.length fuel index () s) index pvs := by
  intro fuel
  induction fuel with
  | zero => intro ps pvs index s _ _ _ _ _ hf _; omega
  | succ fuel ih =>
    intro ps pvs index s hinv hdb hnc hregs hd hf hb
    have hlen : getRegisterLen S s = .ok ((ps ++ base).length, s) := by
      show Outcome.ok ((S.regs s).length, s) = _
      rw [hregs]
    rw [iterLoop, bind_ok hlen]
    cases hd with
    | nil =>
      simp only [List.nil_append, Nat.lt_irrefl, gt_iff_lt, if_false]
      exact ⟨none, index, s, [], rfl, ⟨⟨Keeps.refl S s, by simpa using hregs, rfl, rfl, rfl⟩, hinv⟩, Nat.le_refl _, rfl, rfl⟩
    | cons dp dps =>
      rename_i p ps' v vs
      have hgt : (p :: ps' ++ base).length > base.length := by simp; omega
      simp only [hgt, if_true]
      have hncv : ncNodes v := hnc v (List.mem_cons_self ..)
      have hncs : ncAll vs := fun x hx => hnc x (List.mem_cons_of_mem _ hx)
      obtain ⟨s1, h1, e1⟩ := popReg L hregs hinv (deep_app hdb ps')
      rw [bind_ok h1]
      simp only []
      have dp1 := e1.dec dp
      have dps1 := decodesList_keeps e1.keeps dps
      rw [bind_ok (getDataType_of dp1)]
      have hvl := length_le_nodesAll dps
      by_cases hcat : v.typeOf = .concatenation
      · -- a nested concatenation: push its operands
        obtain ⟨vl, vr, rfl⟩ := typeOf_concat hcat
        obtain ⟨la, ra, hc, dl, dr⟩ := concat_of dp1
        simp only [Val.typeOf]
        rw [bind_ok2 (getMethod_of rev hc)]
        cases rev with
        | false =>
          simp only [Bool.false_eq_true, if_false]
          obtain ⟨s2, h2, e2⟩ := pushReg L dr (ncNodes_ne hncv.2)
          rw [e1.regs, e1.vals] at e2
          obtain ⟨s3, h3, e3⟩ := pushReg L (e2.dec dl) (ncNodes_ne hncv.1)
          rw [e2.regs, e2.vals] at e3
          rw [bind_ok2 h2, bind_ok2 h3, bind_ok (pure_apply _ s3)]
          simp only []
          have e03 := (e1.trans e2).trans e3
          have key := ih (la :: ra :: ps') (vl :: vr :: vs) index s3 e3.inv (e03.deep hdb)
            (fun x hx => by rcases List.mem_cons.mp hx with rfl | hx; exact hncv.1; rcases List.mem_cons.mp hx with rfl | hx; exact hncv.2; exact hncs x hx) e3.regs
            (.cons ((e2.trans e3).dec dl) (.cons ((e2.trans e3).dec dr) (decodesList_keeps (e2.trans e3).keeps dps1)))
            (by simp only [nodesAll, nodes] at hf ⊢; omega)
            (by simpa [visitAll, visit, List.append_assoc] using hb)
          obtain ⟨r, idx', s', extra, hr, er, hx, hm⟩ := key
          rw [e3.vals] at er
          refine ⟨r, idx', s', extra, hr, e03.trans er, by simp only [nodesAll, nodes] at hx ⊢; omega, ?_⟩
          simpa [visitAll, visit, List.append_assoc] using hm
        | true =>
          simp only [if_true]
          obtain ⟨s2, h2, e2⟩ := pushReg L dl (ncNodes_ne hncv.1)
          rw [e1.regs, e1.vals] at e2
          obtain ⟨s3, h3, e3⟩ := pushReg L (e2.dec dr) (ncNodes_ne hncv.2)
          rw [e2.regs, e2.vals] at e3
          rw [bind_ok2 h2, bind_ok2 h3, bind_ok (pure_apply _ s3)]
          simp only []
          have e03 := (e1.trans e2).trans e3
          have key := ih (ra :: la :: ps') (vr :: vl :: vs) index s3 e3.inv (e03.deep hdb)
            (fun x hx => by rcases List.mem_cons.mp hx with rfl | hx; exact hncv.2; rcases List.mem_cons.mp hx with rfl | hx; exact hncv.1; exact hncs x hx) e3.regs
            (.cons ((e2.trans e3).dec dr) (.cons ((e2.trans e3).dec dl) (decodesList_keeps (e2.trans e3).keeps dps1)))
            (by simp only [nodesAll, nodes] at hf ⊢; omega)
            (by simpa [visitAll, visit, List.append_assoc] using hb)
          obtain ⟨r, idx', s', extra, hr, er, hx, hm⟩ := key
          rw [e3.vals] at er
          refine ⟨r, idx', s', extra, hr, e03.trans er, by simp only [nodesAll, nodes] at hx ⊢; omega, ?_⟩
          simpa [visitAll, visit, List.append_assoc] using hm
      · by_cases hlist : v.typeOf = .list
        · -- a list operand: the inner loop over its items
          obtain ⟨xs, rfl⟩ := typeOf_list hlist
          obtain ⟨items, hi, hdl⟩ := listItems_of dp1
          have hl := EqualityRefine.decodesList_length hdl
          obtain ⟨hlen', _⟩ := L.listIdx s1 p items hi
          have hb' : index + items.length ≤ 2147483647 := by
            simp only [visitAll, visit, List.length_append] at hb; omega
          obtain ⟨o, ho, hres⟩ := iterListLoop_spec fo L hchk s1 p items xs hi hdl index hb' items.length 0 (by omega)
          simp only [Val.typeOf]
          rw [bind_ok2 (readR_ok (g := fun st => S.listLen st p) hlen'), bind_ok2 ho, bind_ok (pure_apply _ s1)]
          simp only [Nat.add_zero, List.drop_zero] at hres ⊢
          have hfa := firstHit_append vchk index xs (visitAll rev vs)
          cases hfx : firstHit vchk index xs with
          | some w =>
            rw [hfx] at hres hfa
            obtain ⟨a, rfl, da⟩ := hres
            simp only []
            refine ⟨some a, index + items.length, s1, ps', rfl, e1, by simp only [nodesAll, nodes]; omega, ?_⟩
            simp only [visitAll, visit, hfa]
            exact ⟨a, rfl, da⟩
          | none =>
            rw [hfx] at hres hfa
            subst hres
            simp only []
            have key := ih ps' vs (index + items.length) s1 e1.inv (e1.deep hdb) hncs e1.regs dps1
              (by simp only [nodesAll, nodes] at hf ⊢; omega)
              (by simp only [visitAll, visit, List.length_append] at hb; omega)
            obtain ⟨r, idx', s', extra, hr, er, hx, hm⟩ := key
            rw [e1.vals] at er
            refine ⟨r, idx', s', extra, hr, e1.trans er, by simp only [nodesAll, nodes]; omega, ?_⟩
            simp only [visitAll, visit, hfa, ← hl]
            exact hm
        · -- any other value is one item
          have hvis := visit_other rev hlist hcat
          have hb' : index ≤ 2147483647 := by omega
          obtain ⟨o, ho, hres⟩ := hchk s1 index p v hb' dp1
          have hsx : (sizeToNumber index : Number F) = .int index := sizeToNumber_small hb'
          have hfa : firstHit vchk index (visitAll rev (v :: vs)) = match vchk index v with
              | some w => some w
              | none => firstHit vchk (index + 1) (visitAll rev vs) := by
            simp only [visitAll, hvis, List.singleton_append, firstHit]
            cases vchk index v <;> rfl
          have hn1 : nodes v = 1 := nodes_other hcat
          have hb2 : index + 1 + (visitAll rev vs).length ≤ 2147483647 := by
            simp only [visitAll, hvis, List.length_append, List.length_singleton] at hb; omega
          generalize v.typeOf = t at hcat hlist
          cases t
          case concatenation => exact absurd rfl hcat
          case list => exact absurd rfl hlist
          all_goals
            simp only []
            rw [hsx, bind_ok2 ho, bind_ok (pure_apply _ s1)]
            cases hv : vchk index v with
            | some w =>
              rw [hv] at hres hfa
              obtain ⟨a, rfl, da⟩ := hres
              simp only []
              refine ⟨some a, index + 1, s1, ps', rfl, e1, by simp only [nodesAll]; omega, ?_⟩
              rw [hfa]; exact ⟨a, rfl, da⟩
            | none =>
              rw [hv] at hres hfa
              subst hres
              simp only []
              have key := ih ps' vs (index + 1) s1 e1.inv (e1.deep hdb) hncs e1.regs dps1 (by simp only [nodesAll] at hf ⊢; omega) hb2
              obtain ⟨r, idx', s', extra, hr, er, hx, hm⟩ := key
              rw [e1.vals] at er
              refine ⟨r, idx', s', extra, hr, e1.trans er, by simp only [nodesAll]; omega, ?_⟩
              rw [hfa]; exact hm

end Garnish.Lemmas.Runtime.On
