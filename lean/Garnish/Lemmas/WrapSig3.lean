/-
Parentheses around a value token: the reference trees of the two lists, parentheses removed, are relabellings of each other
(`wrapPos`) that carry the same token texts — so they elaborate to the same program (`elaborate_wrapValue_ungroup`); and a tree
with redundant parentheses elaborates like the tree without them (`elaborate_ungroup`).
-/
import Garnish.Lemmas.WrapSig2
import Garnish.Lemmas.LexRewrite5Elab2
import Garnish.Lemmas.RefParseInorder
namespace Garnish.Abs.Source
open Garnish Garnish.Gen Garnish.Spec Garnish.Abs Garnish.Abs.Tree Garnish.Model.Parser Garnish.Model.Literals

variable {F : Type} (pf : List Char → Option F)

theorem get_wrap (pre post : List PToken) (o v c : PToken) (k : Nat) :
    (pre ++ o :: v :: c :: post)[wrapPos pre.length k]? = (pre ++ v :: post)[k]? := by
  unfold wrapPos
  by_cases h1 : k < pre.length
  · rw [if_pos h1, List.getElem?_append_left h1, List.getElem?_append_left h1]
  · rw [if_neg h1]
    by_cases h2 : k = pre.length
    · subst h2
      rw [if_pos rfl, List.getElem?_append_right (by omega), List.getElem?_append_right (by omega)]
      simp
    · rw [if_neg h2, List.getElem?_append_right (by omega), List.getElem?_append_right (by omega)]
      obtain ⟨j, rfl⟩ : ∃ j, k = pre.length + 1 + j := ⟨k - pre.length - 1, by omega⟩
      have e1 : pre.length + 1 + j + 2 - pre.length = j + 3 := by omega
      have e2 : pre.length + 1 + j - pre.length = j + 1 := by omega
      rw [e1, e2]
      rfl

theorem isOG_wrap (pre post : List PToken) (o v c : PToken) (k : Nat) :
    isOG (pre ++ o :: v :: c :: post) (wrapPos pre.length k) = isOG (pre ++ v :: post) k := by
  simp only [isOG, get_wrap]

theorem isOG_open (pre post : List PToken) (o v c : PToken) (ho : o.type = .startGroup) :
    isOG (pre ++ o :: v :: c :: post) pre.length = true := by
  simp [isOG, ho]

theorem filter_wrap (pre post : List PToken) (o v c : PToken) (ho : o.type = .startGroup) : ∀ (L : List Nat),
    (L.flatMap (wrapSig pre.length)).filter (fun k => !isOG (pre ++ o :: v :: c :: post) k) =
      (L.filter (fun k => !isOG (pre ++ v :: post) k)).map (wrapPos pre.length)
  | [] => rfl
  | k :: L => by
    rw [List.flatMap_cons, List.filter_append, filter_wrap pre post o v c ho L, List.filter_cons]
    have hk := isOG_wrap pre post o v c k
    have hop := isOG_open pre post o v c ho
    by_cases hkn : k = pre.length
    · subst hkn
      have e : wrapPos pre.length pre.length = pre.length + 1 := by simp [wrapPos]
      rw [e] at hk
      simp only [wrapSig, if_true, List.filter_cons, hop, Bool.not_true, Bool.false_eq_true, if_false, hk, List.filter_nil]
      split <;> simp [e]
    · simp only [wrapSig, hkn, if_false, List.filter_cons, hk, List.filter_nil]
      split <;> simp

/-- **the value wrap, parentheses removed: the same program** -/
theorem elaborate_wrapValue_ungroup {pre post : List PToken} {o v c : PToken} (ho : o.type = .startGroup)
    (hc : c.type = .endGroup) (hv : isValueTok v = true) (hn : NoTrim (pre ++ v :: post))
    (hn' : NoTrim (pre ++ o :: v :: c :: post)) {T T' : RTree} (href : refParse Table.gen (pre ++ v :: post) = .ok T)
    (href' : refParse Table.gen (pre ++ o :: v :: c :: post) = .ok T') (hT : T.stripGroups = T'.stripGroups)
    (hQ : strippedOK T.stripGroups = true) :
    elaborate pf (pre ++ o :: v :: c :: post) (ungroup T') = elaborate pf (pre ++ v :: post) (ungroup T) := by
  have kT := kindOK_of T (refParse_nodes _ _ href) hQ
  have kT' := kindOK_of T' (refParse_nodes _ _ href') (by rw [← hT]; exact hQ)
  have hsig : (ungroup T').inorderSig = (ungroup T).inorderSig.map (wrapPos pre.length) := by
    rw [sig_ungroup T' kT', sig_ungroup T kT, refParse_inorder _ _ href', refParse_inorder _ _ href,
      significant_wrapValue ho hc hv hn hn', filter_wrap pre post o v c ho]
  have hshape := relabel_of_erase_sig (wrapPos pre.length) (ungroup T) (ungroup T')
    (by rw [eraseTok_ungroup, eraseTok_ungroup]; exact hT) hsig
  refine elaborate_relabel pf _ _ (wrapPos pre.length) (ungroup T) (ungroup T') (wrapPos_inj _) hshape ?_
  intro d k _ _
  simp only [textAt, get_wrap]

/-! ### a tree with redundant parentheses elaborates like the tree without them -/

theorem braces_ungroup : ∀ (t : RTree), safe t = true → braces (ungroup t) = braces t
  | .nil, _ => rfl
  | .node l d k r, h => by
    simp only [safe, Bool.and_eq_true] at h
    simp only [ungroup, braces, braces_ungroup l h.1.1.1, braces_ungroup r h.1.1.2]
  | .group d k i, h => by
    simp only [safe, Bool.and_eq_true] at h
    have ih := braces_ungroup i h.1
    have hnil := ungroup_nil_iff i h.1
    simp only [ungroup]
    by_cases hd : (d == .group) = true
    · have hd' : d = .group := by simpa using hd
      subst hd'
      simp [braces, ih]
    · have hd' : (d == .group) = false := by simpa using hd
      simp only [hd', Bool.false_eq_true, if_false, braces, ih]
      have e : (ungroup i).isNil = i.isNil := by
        cases h1 : i.isNil <;> cases h2 : (ungroup i).isNil <;> try rfl
        · exact absurd (hnil.mp ((isNil_iff _).mp h2)) (fun e => by rw [e] at h1; cases h1)
        · have := (isNil_iff _).mp h1; subst this; cases h2
      rw [e]

theorem elabWith_ungroup (κ : Nat → Nat) (toks : List PToken) (t : RTree) (hs : safe t = true) :
    elabWith pf κ toks t = elabWith pf κ toks (ungroup t) := by
  unfold elabWith
  rw [go_ungroup pf κ toks t hs]
  cases go pf κ toks (ungroup t) with
  | none => rfl
  | some x => simp [fixP_e, fixP_bodies]

theorem elaborate_ungroup (toks : List PToken) (t : RTree) (hs : safe t = true) :
    elaborate pf toks t = elaborate pf toks (ungroup t) := by
  have hname : srcName (ungroup t) = srcName t := by
    funext k; simp only [srcName, braces_ungroup t hs]
  have h1 : elabSrc pf toks t = elabSrc pf toks (ungroup t) := by
    unfold elabSrc; rw [hname]; exact elabWith_ungroup pf _ toks t hs
  unfold elaborate
  rw [h1, hname]
  cases elabSrc pf toks (ungroup t) with
  | none => rfl
  | some p0 => exact elabWith_ungroup pf _ toks t hs

end Garnish.Abs.Source
