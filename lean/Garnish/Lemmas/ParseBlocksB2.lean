/-
`refParseB` on `v [ body ]`, continued: the run over the body of a block (`body_run`) and the value of `refParseB` on the
whole list (`refParseB_value_block`).
-/
import Garnish.Lemmas.ParseBlocksB1

namespace Garnish.Spec
open Garnish Garnish.Gen Garnish.Model.Parser

theorem tok_nosep_of_sec {t : PToken}
    (h : (getDefinition t.type).2 = .value ∨ (getDefinition t.type).2 = .identifier ∨
      (getDefinition t.type).2 = .unarySuffix ∨ (getDefinition t.type).2 = .endGrouping) :
    (isFiller t.type || isSeparator t.type) = false ∧ (getDefinition t.type).2 ≠ .subexpression := by
  revert h
  cases t.type <;> simp [getDefinition, isFiller, isSeparator]

theorem close_sec {o c : PToken} (h : Ex.closeMatches o c = true) : (getDefinition c.type).2 = .endGrouping := by
  unfold Ex.closeMatches at h
  simp only [Bool.or_eq_true, Bool.and_eq_true, beq_iff_eq] at h
  rcases h with ⟨_, h⟩ | ⟨_, h⟩ <;> rw [h] <;> rfl

/-- the last token of an expression of the fragment is neither trivia nor a separator -/
theorem ex_last_nosep {F : Fl} : ∀ (e : Ex) (inG : Bool), e.ok F inG = true →
    ∃ init t, e.toks = init ++ [t] ∧ (isFiller t.type || isSeparator t.type) = false ∧
      (getDefinition t.type).2 ≠ .subexpression
  | .atom pre a, _, h => by
    simp only [Ex.ok, Bool.and_eq_true, List.all_eq_true] at h
    have := (atom10_facts h.2).1
    exact ⟨pre, a, rfl, tok_nosep_of_sec (by rcases this with e | e; exact Or.inl e; exact Or.inr (Or.inl e))⟩
  | .br pre o wsA e wsB c, _, h => by
    simp only [Ex.ok, Bool.and_eq_true, List.all_eq_true] at h
    obtain ⟨⟨⟨⟨⟨h1, h2⟩, h3⟩, h4⟩, h5⟩, h6⟩ := h
    exact ⟨pre ++ (o :: (wsA ++ (e.toks ++ wsB))), c, by simp [Ex.toks],
      tok_nosep_of_sec (Or.inr (Or.inr (Or.inr (close_sec h3))))⟩
  | .brT pre o wsA e ws1 t ws2 c, _, h => by
    simp only [Ex.ok, Bool.and_eq_true, List.all_eq_true] at h
    exact ⟨pre ++ (o :: (wsA ++ (e.toks ++ (ws1 ++ (t :: ws2))))), c, by simp [Ex.toks],
      tok_nosep_of_sec (Or.inr (Or.inr (Or.inr (close_sec h.1.1.1.1.1.2))))⟩
  | .bin e ws1 op ws2 x, inG, h => by
    simp only [Ex.ok, Bool.and_eq_true, List.all_eq_true] at h
    obtain ⟨init, t, h1, h2⟩ := ex_last_nosep x inG h.2
    exact ⟨e.toks ++ (ws1 ++ (op :: (ws2 ++ init))), t, by simp [Ex.toks, h1], h2⟩
  | .suf e s, _, h => by
    simp only [Ex.ok, Bool.and_eq_true] at h
    have hs : (getDefinition s.type).2 = .unarySuffix := by have := h.2; unfold isSuffixTok at this; simpa using this
    exact ⟨e.toks, s, rfl, tok_nosep_of_sec (Or.inr (Or.inr (Or.inl hs)))⟩
  | .lst e ws x, inG, h => by
    simp only [Ex.ok, Bool.and_eq_true] at h
    obtain ⟨init, t, h1, h2⟩ := ex_last_nosep x inG h.2
    exact ⟨e.toks ++ (ws ++ init), t, by simp [Ex.toks, h1], h2⟩
  | .sep e ws1 t ws2 x, inG, h => by
    simp only [Ex.ok, Bool.and_eq_true] at h
    obtain ⟨init, t', h1, h2⟩ := ex_last_nosep x inG h.2
    exact ⟨e.toks ++ (ws1 ++ (t :: (ws2 ++ init))), t', by simp [Ex.toks, h1], h2⟩
  | .brC pre o wsA e ws1 k wsB c, _, h => by
    simp only [Ex.ok, Bool.and_eq_true, List.all_eq_true] at h
    exact ⟨pre ++ (o :: (wsA ++ (e.toks ++ (ws1 ++ (k :: wsB))))), c, by simp [Ex.toks],
      tok_nosep_of_sec (Or.inr (Or.inr (Or.inr (close_sec h.1.1.1.1.1.2))))⟩
  | .lead op ws x, inG, h => by
    simp only [Ex.ok, Bool.and_eq_true] at h
    obtain ⟨init, t', h1, h2⟩ := ex_last_nosep x inG h.2
    exact ⟨op :: (ws ++ init), t', by simp [Ex.toks, h1], h2⟩

theorem refStep_rest_irrelevant' {z : PToken} (hz : (getDefinition z.type).2 ≠ .subexpression) (f : Frame)
    (stack : List Frame) (pos : Nat) (r r' : List PToken) :
    refStep Table.gen f stack pos z r = refStep Table.gen f stack pos z r' := by
  unfold refStep
  have hd : Table.gen.define z.type = getDefinition z.type := rfl
  rw [hd]
  generalize getDefinition z.type = ds at hz
  obtain ⟨d, s⟩ := ds
  simp only at hz
  cases s <;> first | rfl | exact absurd rfl hz

theorem refRun_ends' {z : PToken} (hz1 : (isFiller z.type || isSeparator z.type) = false)
    (hz2 : (getDefinition z.type).2 ≠ .subexpression) : ∀ (ms : List PToken) (f : Frame) (stack : List Frame)
    (pos : Nat) (r r' : List PToken),
    refRun Table.gen f stack pos (ms ++ [z]) r = refRun Table.gen f stack pos (ms ++ [z]) r'
  | [], f, stack, pos, r, r' => by
    simp only [List.nil_append, refRun]
    rw [refStep_rest_irrelevant' hz2 f stack pos r r']
  | t :: ms, f, stack, pos, r, r' => by
    simp only [List.cons_append, refRun]
    have e : ∀ q : List PToken, ms ++ [z] ++ q = ms ++ z :: q := by intro q; simp
    rw [e r, e r', refStep_rest_congr Table.gen f stack pos t (closerFollows_last hz1 ms r r')]
    cases refStep Table.gen f stack pos t (ms ++ z :: r') with
    | ok fs => obtain ⟨f', stack'⟩ := fs; exact refRun_ends' hz1 hz2 ms f' stack' (pos + 1) r r'
    | err e => rfl
    | panic s => rfl
    | fuelOut => rfl

/-- **the run over the body of a block**, in run form -/
theorem body_run {F : Fl} (body : Ex) (hok : body.ok F false = true) (p : Nat) (hnum : NumberedFrom p body.toks)
    (tb : RTree) (href : refParse Table.gen body.toks = .ok tb) (f0 : Frame) (h0c : f0.cur = .nil) (h0l : f0.last = .start)
    (h0g : f0.inGroup = false) (S : List Frame) (rest : List PToken) :
    ∃ g, refRun Table.gen f0 S p body.toks rest = .ok (g, S) ∧ g.cur = tb.shift p ∧
      g.ctx = f0.ctx ∧ (g.last == .op || g.last == .sep) = false ∧
      ∀ t ∈ body.toks, noBlockTok t = true := by
  obtain ⟨st1, E, re, cb, _, _, _, _, _, _, _, _, hL⟩ :=
    (ex_ok body false hok).1 PState.init none none 0 openB_init (.top rfl rfl) (by intro i nd h; simp [PState.init] at h) rfl
      rfl (Or.inl rfl) p hnum []
  have h1 : refLoop Table.gen Frame.top [] p (body.toks ++ []) = .ok (toRG (dfOf st1.nodes) E) := by
    rw [hL Frame.top [] [] rfl rfl rfl]; unfold refLoop; cases body.endsSuffix <;> simp
  rw [List.append_nil, refLoop_top_shift, ← refParse_ex body hok, href] at h1
  simp only [Outcome.mapT, Outcome.ok.injEq] at h1
  have h2 : refLoop Table.gen f0 [] p (body.toks ++ []) = .ok (toRG (dfOf st1.nodes) E) := by
    rw [hL f0 [] [] h0c h0l h0g]; unfold refLoop; cases body.endsSuffix <;> simp
  rw [← h1] at h2
  have hbal := refLoop_ok_balanced _ _ _ _ _ h2
  have hnb := refLoop_ok_noblock _ _ _ _ _ h2
  simp only [List.append_nil] at hbal hnb
  rw [refLoop_append Table.gen body.toks []] at h2
  cases hr : refRun Table.gen f0 [] p body.toks [] with
  | err _ => rw [hr] at h2; cases h2
  | panic _ => rw [hr] at h2; cases h2
  | fuelOut => rw [hr] at h2; cases h2
  | ok gs =>
    obtain ⟨g0, S0⟩ := gs
    rw [hr] at h2
    simp only [Outcome.bind] at h2
    unfold refLoop at h2
    cases S0 with
    | cons _ _ => simp at h2
    | nil =>
      simp only [List.isEmpty_nil, Bool.not_true, Bool.false_eq_true, if_false] at h2
      split at h2
      · cases h2
      · rename_i hlast
        injection h2 with h2
        obtain ⟨_, _, hctx⟩ := run_balanced [] body.toks 0 f0 [] p [] g0 [] rfl hbal (by simpa using hr)
        obtain ⟨init, z, hz, hz1, hz2⟩ := ex_last_nosep body false hok
        have hr' : refRun Table.gen f0 [] p body.toks rest = .ok (g0, []) := by
          rw [← hr, hz]; exact refRun_ends' hz1 hz2 init _ _ _ _ _
        have hb := refRun_base Table.gen S body.toks f0 [] p rest hr'
        simp only [List.nil_append] at hb
        exact ⟨g0, hb, h2, hctx, by simpa using hlast, hnb⟩

end Garnish.Spec
