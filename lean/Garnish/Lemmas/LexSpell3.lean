/-
Lexing of SPELLED literals, part 3 (C14, lexer side): `TokSpelling cc a ty` — the text `a` is the spelling of ONE token of
type `ty` wherever it starts, both when a space follows and when the input ends —, the two ways to establish it
(`TokSpelling.ofPending`: the token is still pending after its last character; `TokSpelling.ofClosed`: its last
character closed it), and what follows from it:
  `lex_one`    `lex cc a = [⟨a, ty, 0, 0⟩]`
  `lex_binop`  `lex cc (a ++ " " ++ op ++ " " ++ b)` is the five tokens `a`, blank, `op`, blank, `b`, each at the position
               reached after the text before it.
-/
import Garnish.Lemmas.LexSpell2
set_option linter.unusedSimpArgs false
set_option linter.unusedVariables false
namespace Garnish.Model.Lexer
open Garnish.Model Garnish.Model.Parser Garnish.Spec

/-- `a = x :: r` spells one token of type `ty`: `x` starts a token, and from there the rest `r` followed by a space,
or by the end of the input, yields exactly that token (at the position where `x` stood) -/
def TokSpelling (cc : CharClass) (a : List Char) (ty : Gen.TokenType) : Prop :=
  ∃ x r st ty0, a = x :: r ∧ ¬ IsBlank x ∧ x ≠ '\n' ∧ Starts cc x st ty0 ∧
    ∀ (σ : Lexer) (p : Nat × Nat) (toks : List LexerToken), At σ st ty0 [x] p (adv p x) 0 0 false →
      (∃ σ', runChars cc (r ++ [' ']) σ toks = .ok (σ', toks ++ [⟨a, ty, p.1, p.2⟩]) ∧
        At σ' .spaces (some .whitespace) [' '] (advs p a) (adv (advs p a) ' ') 0 0 false) ∧
      (∃ σ'', lexLoop cc r σ toks = .ok (toks ++ [⟨a, ty, p.1, p.2⟩], σ''))

/-- the token is still pending after its last character (numbers, symbols, operators, the empty literals) -/
theorem TokSpelling.ofPending (cc : CharClass) (hcc : cc.Sane) (x : Char) (r : List Char) (st st1 : LexingState)
    (ty0 ty1 : Option Gen.TokenType) (ty : Gen.TokenType) (hb : ¬ IsBlank x) (hn : x ≠ '\n') (hst : Starts cc x st ty0)
    (hnt : st1 ≠ .noToken) (hne : ty ≠ .identifier) (hE : Ending cc st1 ty1 (x :: r) ty)
    (hrun : ∀ (σ : Lexer) (p : Nat × Nat) (toks : List LexerToken), At σ st ty0 [x] p (adv p x) 0 0 false →
      ∃ σ', runChars cc r σ toks = .ok (σ', toks) ∧ ∃ sq eq, At σ' st1 ty1 (x :: r) p (advs p (x :: r)) sq eq false) :
    TokSpelling cc (x :: r) ty := by
  refine ⟨x, r, st, ty0, rfl, hb, hn, hst, ?_⟩
  intro σ p toks h
  obtain ⟨σ', hr, sq, eq, h'⟩ := hrun σ p toks h
  constructor
  · obtain ⟨σ2, hp, h2⟩ := tail_blank cc σ' ' ' (Or.inl rfl) h' hE hnt hne
    refine ⟨σ2, ?_, h2⟩
    rw [runChars_append cc r [' '] σ σ' toks toks hr, runChars_cons_some cc σ' σ2 ' ' [] toks _ h'.ok hp h2.ok]
    rfl
  · have e := lexLoop_append cc r [] σ σ' toks toks hr
    rw [List.append_nil] at e
    rw [e]
    exact tail_end cc hcc 2 σ' toks h' hE hnt hne

/-- the last character closed the token (char lists, byte lists) -/
theorem TokSpelling.ofClosed (cc : CharClass) (hcc : cc.Sane) (x : Char) (r : List Char) (st : LexingState)
    (ty0 : Option Gen.TokenType) (ty : Gen.TokenType) (hb : ¬ IsBlank x) (hn : x ≠ '\n') (hst : Starts cc x st ty0)
    (hrun : ∀ (σ : Lexer) (p : Nat × Nat) (toks : List LexerToken), At σ st ty0 [x] p (adv p x) 0 0 false →
      ∃ σ' p0, runChars cc r σ toks = .ok (σ', toks ++ [⟨x :: r, ty, p.1, p.2⟩]) ∧
        At σ' .noToken none [] p0 (advs p (x :: r)) 0 0 false) :
    TokSpelling cc (x :: r) ty := by
  refine ⟨x, r, st, ty0, rfl, hb, hn, hst, ?_⟩
  intro σ p toks h
  obtain ⟨σ', p0, hr, h'⟩ := hrun σ p toks h
  constructor
  · obtain ⟨σ2, hp, h2⟩ := start_step cc σ' ' ' h' (starts_blank cc ' ' (Or.inl rfl))
    refine ⟨σ2, ?_, h2⟩
    rw [runChars_append cc r [' '] σ σ' toks _ hr, runChars_cons_none cc σ' σ2 ' ' [] _ h'.ok hp]
    rfl
  · have e := lexLoop_append cc r [] σ σ' toks _ hr
    rw [List.append_nil] at e
    rw [e]
    exact lexEnd_done cc hcc 3 σ' _ h'.state h'.ok h'.tree

theorem at_init : At (Lexer.init theTree) .noToken none [] (0, 0) (0, 0) 0 0 false := by
  constructor <;> rfl

theorem lexFull_eq_lexLoop (cc : CharClass) (s : List Char) : lexFull cc s = lexLoop cc s (Lexer.init theTree) [] := by
  unfold lexFull
  rw [new_eq]

theorem lex_of_lexFull_eq {cc : CharClass} {s : List Char} {t : List LexerToken} {σ : Lexer}
    (h : lexFull cc s = .ok (t, σ)) : lex cc s = .ok t := by
  unfold lex
  rw [h]

/-- **one spelled token, alone in the input** -/
theorem lex_one (cc : CharClass) (a : List Char) (ty : Gen.TokenType) (h : TokSpelling cc a ty) :
    lex cc a = .ok [⟨a, ty, 0, 0⟩] := by
  obtain ⟨x, r, st, ty0, rfl, hb, hn, hst, H⟩ := h
  obtain ⟨σ1, hp, h1⟩ := start_step cc _ x at_init hst
  obtain ⟨σ'', hl⟩ := (H σ1 (0, 0) [] h1).2
  have hr : runChars cc [x] (Lexer.init theTree) [] = .ok (σ1, []) := by
    rw [runChars_cons_none cc _ σ1 x [] [] rfl hp]; rfl
  have e := lexLoop_append cc [x] r _ σ1 [] [] hr
  apply lex_of_lexFull_eq (σ := σ'')
  rw [lexFull_eq_lexLoop]
  show lexLoop cc ([x] ++ r) _ [] = _
  rw [e, hl]
  rfl

/-- inside a run of blanks, a character that starts a token: the Whitespace token is emitted, the next token starts -/
theorem spaces_emit (cc : CharClass) (σ : Lexer) (x : Char) {w p0 p sq eq ae st ty}
    (h : At σ .spaces (some .whitespace) w p0 p sq eq ae) (hb : ¬ IsBlank x) (hn : x ≠ '\n') (hst : Starts cc x st ty) :
    ∃ σ', processChar cc σ x = .ok (σ', some ⟨w, .whitespace, p0.1, p0.2⟩) ∧ At σ' st ty [x] p (adv p x) 0 0 ae := by
  have hτ := h.lexed (σ.charactersLexed + 1)
  have h1 : (x == '\n') = false := by simpa using hn
  have h2 : (x != ' ' && x != '\t') = true := by
    have a1 : x ≠ ' ' := fun e => hb (Or.inl e)
    have a2 : x ≠ '\t' := fun e => hb (Or.inr e)
    simp [a1, a2]
  have hs : stateStep cc { σ with charactersLexed := σ.charactersLexed + 1 } x =
      .ok (.cont { σ with charactersLexed := σ.charactersLexed + 1 } none true) := by
    unfold stateStep; rw [hτ.state]
    simp only [Step.ofPair, armSpaces, h1, h2, Bool.false_eq_true, ↓reduceIte]
  exact emit_step cc σ _ x hs hτ (by decide) (by decide) hst

/-- **two spelled tokens around a spelled operator, separated by single spaces**: five tokens, each at the position
reached after the text before it -/
theorem lex_binop (cc : CharClass) (a op b : List Char) (tya oty tyb : Gen.TokenType) (ha : TokSpelling cc a tya)
    (ho : TokSpelling cc op oty) (hb : TokSpelling cc b tyb) :
    lex cc (a ++ ' ' :: op ++ ' ' :: b) =
      .ok [⟨a, tya, 0, 0⟩,
           ⟨[' '], .whitespace, (advs (0, 0) a).1, (advs (0, 0) a).2⟩,
           ⟨op, oty, (advs (0, 0) (a ++ [' '])).1, (advs (0, 0) (a ++ [' '])).2⟩,
           ⟨[' '], .whitespace, (advs (0, 0) (a ++ ' ' :: op)).1, (advs (0, 0) (a ++ ' ' :: op)).2⟩,
           ⟨b, tyb, (advs (0, 0) (a ++ ' ' :: op ++ [' '])).1, (advs (0, 0) (a ++ ' ' :: op ++ [' '])).2⟩] := by
  obtain ⟨xa, ra, sta, tya0, rfl, hba, hna, hsta, Ha⟩ := ha
  obtain ⟨xo, ro, sto, tyo0, rfl, hbo, hno, hsto, Ho⟩ := ho
  obtain ⟨xb, rb, stb, tyb0, rfl, hbb, hnb, hstb, Hb⟩ := hb
  -- a
  obtain ⟨σ1, hp1, h1⟩ := start_step cc _ xa at_init hsta
  have r1 : runChars cc [xa] (Lexer.init theTree) [] = .ok (σ1, []) := by
    rw [runChars_cons_none cc _ σ1 xa [] [] rfl hp1]; rfl
  obtain ⟨σ2, r2, h2⟩ := (Ha σ1 (0, 0) [] h1).1
  -- op
  obtain ⟨σ3, hp3, h3⟩ := spaces_emit cc σ2 xo h2 hbo hno hsto
  have r3 : ∀ T, runChars cc [xo] σ2 T =
      .ok (σ3, T ++ [⟨[' '], .whitespace, (advs (0, 0) (xa :: ra)).1, (advs (0, 0) (xa :: ra)).2⟩]) := by
    intro T; rw [runChars_cons_some cc σ2 σ3 xo [] T _ h2.ok hp3 h3.ok]; rfl
  obtain ⟨σ4, r4, h4⟩ := (Ho σ3 _ ([] ++ [⟨xa :: ra, tya, 0, 0⟩] ++
    [⟨[' '], .whitespace, (advs (0, 0) (xa :: ra)).1, (advs (0, 0) (xa :: ra)).2⟩]) h3).1
  -- b
  obtain ⟨σ5, hp5, h5⟩ := spaces_emit cc σ4 xb h4 hbb hnb hstb
  have r5 : ∀ T, runChars cc [xb] σ4 T = .ok (σ5, T ++ [⟨[' '], .whitespace,
      (advs (adv (advs (0, 0) (xa :: ra)) ' ') (xo :: ro)).1, (advs (adv (advs (0, 0) (xa :: ra)) ' ') (xo :: ro)).2⟩]) := by
    intro T; rw [runChars_cons_some cc σ4 σ5 xb [] T _ h4.ok hp5 h5.ok]; rfl
  obtain ⟨σ6, r6⟩ := (Hb σ5 _ ([] ++ [⟨xa :: ra, tya, 0, 0⟩] ++
    [⟨[' '], .whitespace, (advs (0, 0) (xa :: ra)).1, (advs (0, 0) (xa :: ra)).2⟩] ++
    [⟨xo :: ro, oty, (adv (advs (0, 0) (xa :: ra)) ' ').1, (adv (advs (0, 0) (xa :: ra)) ' ').2⟩] ++
    [⟨[' '], .whitespace, (advs (adv (advs (0, 0) (xa :: ra)) ' ') (xo :: ro)).1,
      (advs (adv (advs (0, 0) (xa :: ra)) ' ') (xo :: ro)).2⟩]) h5).2
  have es : (xa :: ra) ++ ' ' :: (xo :: ro) ++ ' ' :: (xb :: rb) =
      [xa] ++ ((ra ++ [' ']) ++ ([xo] ++ ((ro ++ [' ']) ++ ([xb] ++ rb)))) := by simp
  apply lex_of_lexFull_eq (σ := σ6)
  rw [lexFull_eq_lexLoop, es, lexLoop_append cc _ _ _ _ _ _ r1, lexLoop_append cc _ _ _ _ _ _ r2,
    lexLoop_append cc _ _ _ _ _ _ (r3 _), lexLoop_append cc _ _ _ _ _ _ r4, lexLoop_append cc _ _ _ _ _ _ (r5 _), r6]
  simp [advs_append, advs_cons, advs]

/-- … without newlines in `a` and `op`: everything is in row 0 and the columns are the offsets -/
theorem lex_binop_cols (cc : CharClass) (a op b : List Char) (tya oty tyb : Gen.TokenType) (ha : TokSpelling cc a tya)
    (ho : TokSpelling cc op oty) (hb : TokSpelling cc b tyb) (hna : '\n' ∉ a) (hno : '\n' ∉ op) :
    lex cc (a ++ ' ' :: op ++ ' ' :: b) =
      .ok [⟨a, tya, 0, 0⟩, ⟨[' '], .whitespace, 0, a.length⟩, ⟨op, oty, 0, a.length + 1⟩,
           ⟨[' '], .whitespace, 0, a.length + 1 + op.length⟩, ⟨b, tyb, 0, a.length + 1 + op.length + 1⟩] := by
  rw [lex_binop cc a op b tya oty tyb ha ho hb]
  have n1 : '\n' ∉ a ++ [' '] := by simp [hna]
  have n2 : '\n' ∉ a ++ ' ' :: op := by simp [hna, hno]
  have n3 : '\n' ∉ a ++ ' ' :: op ++ [' '] := by simp [hna, hno]
  rw [advs_noNewline _ _ hna, advs_noNewline _ _ n1, advs_noNewline _ _ n2, advs_noNewline _ _ n3]
  simp
  omega

end Garnish.Model.Lexer
