/-
Lexer half of C18, whitespace: inserting or removing spaces/tabs inside an existing Whitespace token changes only
that token's text (`lexLoop_whitespace_local`, `lexFull_whitespace_local`). Two lexers inside the same whitespace
token whose pending texts differ in a prefix (`WsRel`) are run in lock step (`processChar_ws`) until the token is
emitted; from then on they agree up to positions and `lexLoop_congr` applies.
-/
import Garnish.Lemmas.LexerC18Loop
set_option linter.unusedSimpArgs false
set_option linter.unusedVariables false
namespace Garnish.Model.Lexer

/-- forget the pending characters -/
def eraseChars (σ : Lexer) : Lexer := { σ with currentCharacters := [] }

theorem eraseChars_bump (σ : Lexer) (c : Char) : eraseChars (bumpColumn σ c) = bumpColumn (eraseChars σ) c := by
  unfold bumpColumn eraseChars; split <;> rfl

/-- two lexers inside the same whitespace token whose pending texts differ in a prefix (`u` / `u'`) only -/
structure WsRel (σ σ' : Lexer) (u u' z : List Char) : Prop where
  pos : PosEq (eraseChars σ) (eraseChars σ')
  ws : σ.state = .spaces ∨ σ.state = .subexpression
  type : σ.currentTokenType = some .whitespace ∨ σ.currentTokenType = some .subexpression
  chars : σ.currentCharacters = u ++ z
  chars' : σ'.currentCharacters = u' ++ z

/-- outcome of one character on two such lexers -/
def WsStep (σ1 σ1' : Lexer) (ot ot' : Option LexerToken) (u u' z : List Char) (c : Char) : Prop :=
  (ot = none ∧ ot' = none ∧ WsRel σ1 σ1' u u' (z ++ [c])) ∨
  (∃ t t' z', ot = some t ∧ ot' = some t' ∧ t.tokenType = t'.tokenType ∧
    (t.tokenType = .whitespace ∨ t.tokenType = .subexpression) ∧
    t.text = u ++ z' ∧ t'.text = u' ++ z' ∧ PosEq σ1 σ1')

theorem posEq_erase {a b : Lexer} (h : PosEq (eraseChars a) (eraseChars b)) :
    b.operatorTree = a.operatorTree ∧ b.currentTokenType = a.currentTokenType ∧ b.shouldCreate = a.shouldCreate ∧
    b.state = a.state ∧ b.canFloat = a.canFloat ∧ b.startQuoteCount = a.startQuoteCount ∧
    b.endQuoteCount = a.endQuoteCount ∧ b.couldBeSubExpression = a.couldBeSubExpression ∧ b.result = a.result ∧
    b.atEnd = a.atEnd := by
  obtain ⟨e0, e3, e2, e4, e1, e5, e6, e7, e8, e9, e10⟩ := (posEq_iff _ _).mp h
  exact ⟨e0, e2, e4, e1, e5, e6, e7, e8, e9, e10⟩

/-- after a token of whitespace type has been pushed the two lexers agree up to positions -/
theorem afterEmit_posEq {a b : Lexer} (h : PosEq (eraseChars a) (eraseChars b)) : PosEq (afterEmit a) (afterEmit b) := by
  obtain ⟨e0, e2, e4, e1, e5, e6, e7, e8, e9, e10⟩ := posEq_erase h
  rw [posEq_iff]; simp [afterEmit, *]

/-- `finishChar` when the arm ended a token of type Whitespace / Subexpression -/
theorem finishChar_wsType (cc : CharClass) (σ1 : Lexer) (c : Char) (hnt : σ1.state ≠ .noToken) (ty : Gen.TokenType)
    (hty : σ1.currentTokenType = some ty) (hws : ty = .whitespace ∨ ty = .subexpression) :
    finishChar cc σ1 c none true =
      (bumpColumn (if σ1.shouldCreate then startToken cc (afterEmit σ1) c
                   else { afterEmit σ1 with shouldCreate := true }) c,
       some ⟨σ1.currentCharacters, ty, σ1.tokenStartRow, σ1.tokenStartColumn⟩) := by
  have hne : (σ1.state != LexingState.noToken) = true := by simpa using hnt
  rcases hws with rfl | rfl <;>
    simp only [finishChar, ↓reduceIte, pushNewToken, hne, canCreateValidToken, hty, LexResult.isOk, afterEmit]

/-- the two results of `finishChar` after an arm that ended the whitespace token -/
theorem finishChar_ws_pair (cc : CharClass) (a b : Lexer) (c : Char) (h : PosEq (eraseChars a) (eraseChars b))
    (hnt : a.state ≠ .noToken) (ty : Gen.TokenType) (hty : a.currentTokenType = some ty)
    (hws : ty = .whitespace ∨ ty = .subexpression) :
    ∃ a1 b1 t t', finishChar cc a c none true = (a1, some t) ∧ finishChar cc b c none true = (b1, some t') ∧
      PosEq a1 b1 ∧ t.tokenType = ty ∧ t'.tokenType = ty ∧ t.text = a.currentCharacters ∧ t'.text = b.currentCharacters := by
  obtain ⟨e0, e2, e4, e1, e5, e6, e7, e8, e9, e10⟩ := posEq_erase h
  have hntb : b.state ≠ .noToken := by rw [e1]; exact hnt
  have htyb : b.currentTokenType = some ty := by rw [e2]; exact hty
  refine ⟨_, _, _, _, finishChar_wsType cc a c hnt ty hty hws, finishChar_wsType cc b c hntb ty htyb hws, ?_, rfl, rfl, rfl, rfl⟩
  apply bumpColumn_congr
  rw [e4]
  have hae := afterEmit_posEq h
  split
  · exact startToken_congr cc c hae
  · obtain ⟨f0, f3, f2, f4, f1, f5, f6, f7, f8, f9, f10⟩ := (posEq_iff _ _).mp hae
    rw [posEq_iff]; simp [*]

/-- what the Spaces / Subexpression arms do to two lexers that differ in pending characters and positions only -/
structure WsArm (a b : Lexer) (c : Char) (p q : Lexer × Bool) : Prop where
  sn : p.2 = q.2
  pos : PosEq (eraseChars p.1) (eraseChars q.1)
  chars : (p.1.currentCharacters = a.currentCharacters ++ [c] ∧ q.1.currentCharacters = b.currentCharacters ++ [c]) ∨
          (p.2 = true ∧ p.1.currentCharacters = a.currentCharacters ∧ q.1.currentCharacters = b.currentCharacters)
  ws : p.1.state = .spaces ∨ p.1.state = .subexpression
  type : p.1.currentTokenType = some .whitespace ∨ p.1.currentTokenType = some .subexpression

theorem armSpaces_ws (a b : Lexer) (c : Char) (h : PosEq (eraseChars a) (eraseChars b)) (hs : a.state = .spaces)
    (hty : a.currentTokenType = some .whitespace ∨ a.currentTokenType = some .subexpression) :
    WsArm a b c (armSpaces a c) (armSpaces b c) := by
  obtain ⟨e0, e2, e4, e1, e5, e6, e7, e8, e9, e10⟩ := posEq_erase h
  unfold armSpaces
  rw [e8]
  repeat' split
  all_goals
    constructor <;>
      simp_all [posEq_iff, eraseChars, push]

theorem armSubexpression_ws (a b : Lexer) (c : Char) (h : PosEq (eraseChars a) (eraseChars b))
    (hs : a.state = .subexpression) :
    WsArm a b c (armSubexpression a c) (armSubexpression b c) := by
  obtain ⟨e0, e2, e4, e1, e5, e6, e7, e8, e9, e10⟩ := posEq_erase h
  unfold armSubexpression
  repeat' split
  all_goals
    constructor <;>
      simp_all [posEq_iff, eraseChars, push]

theorem stateStep_spaces (cc : CharClass) (σ : Lexer) (c : Char) (hs : σ.state = .spaces) :
    stateStep cc σ c = Step.ofPair (armSpaces σ c) := by
  unfold stateStep; rw [hs]

theorem stateStep_subexpression (cc : CharClass) (σ : Lexer) (c : Char) (hs : σ.state = .subexpression) :
    stateStep cc σ c = Step.ofPair (armSubexpression σ c) := by
  unfold stateStep; rw [hs]

theorem finish_ws (cc : CharClass) (a b : Lexer) (c : Char) (u u' z : List Char) (p q : Lexer × Bool)
    (ha : a.currentCharacters = u ++ z) (hb : b.currentCharacters = u' ++ z) (h : WsArm a b c p q) :
    ∃ σ1 σ1' ot ot', finishChar cc p.1 c none p.2 = (σ1, ot) ∧ finishChar cc q.1 c none q.2 = (σ1', ot') ∧
      WsStep σ1 σ1' ot ot' u u' z c := by
  obtain ⟨hsn, hpos, hchars, hws, htype⟩ := h
  rw [← hsn]
  cases hp2 : p.2 with
  | false =>
    refine ⟨_, _, _, _, by simp only [finishChar, Bool.false_eq_true, ↓reduceIte]; rfl,
      by simp only [finishChar, Bool.false_eq_true, ↓reduceIte]; rfl, Or.inl ⟨rfl, rfl, ?_⟩⟩
    rcases hchars with ⟨h1, h2⟩ | ⟨h0, _⟩
    · refine ⟨?_, by simpa using hws, by simpa using htype, ?_, ?_⟩
      · rw [eraseChars_bump, eraseChars_bump]; exact bumpColumn_congr c hpos
      · simp [h1, ha]
      · simp [h2, hb]
    · rw [hp2] at h0; cases h0
  | true =>
    have hnt : p.1.state ≠ .noToken := by rcases hws with h | h <;> (rw [h]; decide)
    rcases htype with hty | hty
    · obtain ⟨a1, b1, t, t', h1, h2, hpe, ht1, ht2, htx1, htx2⟩ :=
        finishChar_ws_pair cc p.1 q.1 c hpos hnt .whitespace hty (Or.inl rfl)
      refine ⟨a1, b1, some t, some t', h1, h2, Or.inr ?_⟩
      rcases hchars with ⟨c1, c2⟩ | ⟨_, c1, c2⟩
      · exact ⟨t, t', z ++ [c], rfl, rfl, by rw [ht1, ht2], Or.inl ht1, by simp [htx1, c1, ha], by simp [htx2, c2, hb], hpe⟩
      · exact ⟨t, t', z, rfl, rfl, by rw [ht1, ht2], Or.inl ht1, by simp [htx1, c1, ha], by simp [htx2, c2, hb], hpe⟩
    · obtain ⟨a1, b1, t, t', h1, h2, hpe, ht1, ht2, htx1, htx2⟩ :=
        finishChar_ws_pair cc p.1 q.1 c hpos hnt .subexpression hty (Or.inr rfl)
      refine ⟨a1, b1, some t, some t', h1, h2, Or.inr ?_⟩
      rcases hchars with ⟨c1, c2⟩ | ⟨_, c1, c2⟩
      · exact ⟨t, t', z ++ [c], rfl, rfl, by rw [ht1, ht2], Or.inr ht1, by simp [htx1, c1, ha], by simp [htx2, c2, hb], hpe⟩
      · exact ⟨t, t', z, rfl, rfl, by rw [ht1, ht2], Or.inr ht1, by simp [htx1, c1, ha], by simp [htx2, c2, hb], hpe⟩

/-- one character on two lexers inside the same whitespace token -/
theorem processChar_ws (cc : CharClass) (σ σ' : Lexer) (u u' z : List Char) (c : Char) (h : WsRel σ σ' u u' z) :
    ∃ σ1 σ1' ot ot', processChar cc σ c = .ok (σ1, ot) ∧ processChar cc σ' c = .ok (σ1', ot') ∧
      WsStep σ1 σ1' ot ot' u u' z c := by
  obtain ⟨hpos, hws, hty, hch, hch'⟩ := h
  obtain ⟨e0, e2, e4, e1, e5, e6, e7, e8, e9, e10⟩ := posEq_erase hpos
  have hpos0 : PosEq (eraseChars { σ with charactersLexed := σ.charactersLexed + 1 })
      (eraseChars { σ' with charactersLexed := σ'.charactersLexed + 1 }) := by
    rw [posEq_iff]; simp [eraseChars, *]
  unfold processChar
  simp only []
  rcases hws with hs | hs
  · rw [stateStep_spaces cc _ c (by simpa using hs), stateStep_spaces cc _ c (by simpa [e1] using hs)]
    have harm := armSpaces_ws { σ with charactersLexed := σ.charactersLexed + 1 }
      { σ' with charactersLexed := σ'.charactersLexed + 1 } c hpos0 (by simpa using hs) (by simpa using hty)
    obtain ⟨σ1, σ1', ot, ot', h1, h2, hstep⟩ := finish_ws cc _ _ c u u' z _ _ (by simpa using hch) (by simpa using hch') harm
    exact ⟨σ1, σ1', ot, ot', by simp only [Step.ofPair, h1], by simp only [Step.ofPair, h2], hstep⟩
  · rw [stateStep_subexpression cc _ c (by simpa using hs), stateStep_subexpression cc _ c (by simpa [e1] using hs)]
    have harm := armSubexpression_ws { σ with charactersLexed := σ.charactersLexed + 1 }
      { σ' with charactersLexed := σ'.charactersLexed + 1 } c hpos0 (by simpa using hs)
    obtain ⟨σ1, σ1', ot, ot', h1, h2, hstep⟩ := finish_ws cc _ _ c u u' z _ _ (by simpa using hch) (by simpa using hch') harm
    exact ⟨σ1, σ1', ot, ot', by simp only [Step.ofPair, h1], by simp only [Step.ofPair, h2], hstep⟩

/-- results of two runs that started inside the same whitespace token: both fail, or both succeed with
`toks ++ t :: rest` / `toks ++ t' :: rest'` where `t`, `t'` are the whitespace token (texts `u ++ z'` / `u' ++ z'`, same
type) and `rest`, `rest'` agree in types and texts -/
def WsOut (toks : List LexerToken) (u u' : List Char) :
    Outcome (List LexerToken × Lexer) → Outcome (List LexerToken × Lexer) → Prop
  | .ok p, .ok q => ∃ t t' z' rest rest', p.1 = toks ++ t :: rest ∧ q.1 = toks ++ t' :: rest' ∧
      t.tokenType = t'.tokenType ∧ (t.tokenType = .whitespace ∨ t.tokenType = .subexpression) ∧
      t.text = u ++ z' ∧ t'.text = u' ++ z' ∧ SameTT rest rest'
  | .err _, .err _ => True
  | .fuelOut, .fuelOut => True
  | _, _ => False

theorem wsOut_of_ext {toks : List LexerToken} {u u' z' : List Char} {t t' : LexerToken}
    {r r' : Outcome (List LexerToken × Lexer)} (hty : t.tokenType = t'.tokenType)
    (hws : t.tokenType = .whitespace ∨ t.tokenType = .subexpression) (h1 : t.text = u ++ z') (h2 : t'.text = u' ++ z')
    (h : OutSameExt (toks ++ [t]) (toks ++ [t']) r r') : WsOut toks u u' r r' := by
  cases r <;> cases r' <;> simp only [OutSameExt, WsOut] at h ⊢
  obtain ⟨rest, rest', e1, e2, hs⟩ := h
  exact ⟨t, t', z', rest, rest', by simp [e1], by simp [e2], hty, hws, h1, h2, hs⟩

theorem lexFinish_err {σ : Lexer} (l : List LexerToken) (h : σ.result = .err) : lexFinish σ l = .err .syntax := by
  simp [lexFinish, h]

theorem isErr_true_iff {σ : Lexer} : σ.result.isErr = true ↔ σ.result = .err := by
  cases h : σ.result <;> simp [LexResult.isErr]

theorem processChar_inv2 (cc : CharClass) (hcc : cc.Sane) (σ σ1 : Lexer) (c : Char) (ot : Option LexerToken)
    (hi : Inv σ) (h : processChar cc σ c = .ok (σ1, ot)) : Inv σ1 := by
  obtain ⟨s, t, hp, his⟩ := processChar_ok cc hcc σ c hi
  rw [hp] at h
  simp only [Outcome.ok.injEq, Prod.mk.injEq] at h
  rw [← h.1]; exact his

theorem WsRel_atEnd {σ σ' : Lexer} {u u' z : List Char} (h : WsRel σ σ' u u' z) :
    WsRel { σ with atEnd := true } { σ' with atEnd := true } u u' z := by
  obtain ⟨hpos, hws, hty, hch, hch'⟩ := h
  obtain ⟨e0, e2, e4, e1, e5, e6, e7, e8, e9, e10⟩ := posEq_erase hpos
  exact ⟨by rw [posEq_iff]; simp [eraseChars, *], hws, hty, hch, hch'⟩

theorem utf8Len_pos_of_ne_nil {cs : List Char} (h : cs ≠ []) : utf8Len cs > 0 := by
  cases cs with
  | nil => exact absurd rfl h
  | cons x r => have := Char.utf8Size_pos x; simp [utf8Len]; omega

theorem lexEnd_ws (cc : CharClass) (hcc : cc.Sane) (toks : List LexerToken) (u u' : List Char) :
    ∀ (fuel : Nat) (σ σ' : Lexer) (z : List Char), WsRel σ σ' u u' z → Inv σ → Inv σ' →
      WsOut toks u u' (lexEnd cc fuel σ toks) (lexEnd cc fuel σ' toks)
  | 0, _, _, _, _, _, _ => by simp [lexEnd, WsOut]
  | fuel + 1, σ, σ', z, h, hi, hi' => by
    obtain ⟨e0, e2, e4, e1, e5, e6, e7, e8, e9, e10⟩ := posEq_erase h.pos
    simp only [lexEnd]
    have hEb : σ'.result.isErr = σ.result.isErr := by rw [e9]
    rw [hEb]
    by_cases hE : σ.result.isErr = true
    · rw [if_pos hE, if_pos hE]
      have hr := isErr_true_iff.mp hE
      rw [lexFinish_err _ hr, lexFinish_err _ (by rw [e9]; exact hr)]
      trivial
    · rw [if_neg hE, if_neg hE]
      (try simp only [])
      obtain ⟨σ1, σ1', ot, ot', h1, h2, hstep⟩ := processChar_ws cc _ _ u u' z '\x00' (WsRel_atEnd h)
      have hia : Inv { σ with atEnd := true } := Inv_congr rfl rfl hi
      have hia' : Inv { σ' with atEnd := true } := Inv_congr rfl rfl hi'
      have hi1 := processChar_inv2 cc hcc _ _ _ _ hia h1
      have hi1' := processChar_inv2 cc hcc _ _ _ _ hia' h2
      rw [h1, h2]
      rcases hstep with ⟨rfl, rfl, hrel⟩ | ⟨t, t', z', rfl, rfl, hty, hwst, ht1, ht2, hpe⟩
      · -- nothing emitted: both runs end with an unterminated token
        simp only []
        obtain ⟨f0, f2, f4, f1, f5, f6, f7, f8, f9, f10⟩ := posEq_erase hrel.pos
        have hl1 : utf8Len σ1.currentCharacters > 0 := utf8Len_pos_of_ne_nil (by rw [hrel.chars]; simp)
        have hl2 : utf8Len σ1'.currentCharacters > 0 := utf8Len_pos_of_ne_nil (by rw [hrel.chars']; simp)
        cases hr : σ1.result with
        | ok =>
          have hr' : σ1'.result = .ok := by rw [f9]; exact hr
          simp only [hl1, hl2, hr, hr', LexResult.isOk, decide_true, Bool.and_self, ↓reduceIte]
          rw [lexFinish_err _ rfl, lexFinish_err _ rfl]; trivial
        | err =>
          have hr' : σ1'.result = .err := by rw [f9]; exact hr
          simp only [hr, hr', LexResult.isOk, Bool.and_false, Bool.false_eq_true, ↓reduceIte]
          rw [lexFinish_err _ hr, lexFinish_err _ hr']; trivial
      · simp only []
        obtain ⟨f0, f3, f2, f4, f1, f5, f6, f7, f8, f9, f10⟩ := (posEq_iff σ1 σ1').mp hpe
        rw [f9]
        cases σ1.result with
        | err => trivial
        | ok =>
          simp only []
          have := lexEnd_congr cc hcc (toks ++ [t]) (toks ++ [t']) fuel σ1 σ1' [] [] hpe hi1 hi1' (SameTT.refl [])
          simp only [List.append_nil] at this
          exact wsOut_of_ext hty hwst ht1 ht2 this

theorem lexLoop_ws (cc : CharClass) (hcc : cc.Sane) (toks : List LexerToken) (u u' : List Char) :
    ∀ (input : List Char) (σ σ' : Lexer) (z : List Char), WsRel σ σ' u u' z → Inv σ → Inv σ' →
      WsOut toks u u' (lexLoop cc input σ toks) (lexLoop cc input σ' toks)
  | [], σ, σ', z, h, hi, hi' => by
    simp only [lexLoop]
    exact lexEnd_ws cc hcc toks u u' endFuel σ σ' z h hi hi'
  | c :: rest, σ, σ', z, h, hi, hi' => by
    obtain ⟨e0, e2, e4, e1, e5, e6, e7, e8, e9, e10⟩ := posEq_erase h.pos
    simp only [lexLoop]
    have hEb : σ'.result.isErr = σ.result.isErr := by rw [e9]
    rw [hEb]
    by_cases hE : σ.result.isErr = true
    · rw [if_pos hE, if_pos hE]
      have hr := isErr_true_iff.mp hE
      rw [lexFinish_err _ hr, lexFinish_err _ (by rw [e9]; exact hr)]
      trivial
    · rw [if_neg hE, if_neg hE]
      obtain ⟨σ1, σ1', ot, ot', h1, h2, hstep⟩ := processChar_ws cc σ σ' u u' z c h
      have hi1 := processChar_inv2 cc hcc _ _ _ _ hi h1
      have hi1' := processChar_inv2 cc hcc _ _ _ _ hi' h2
      rw [h1, h2]
      rcases hstep with ⟨rfl, rfl, hrel⟩ | ⟨t, t', z', rfl, rfl, hty, hwst, ht1, ht2, hpe⟩
      · exact lexLoop_ws cc hcc toks u u' rest σ1 σ1' _ hrel hi1 hi1'
      · simp only []
        obtain ⟨f0, f3, f2, f4, f1, f5, f6, f7, f8, f9, f10⟩ := (posEq_iff σ1 σ1').mp hpe
        rw [f9]
        cases σ1.result with
        | err => trivial
        | ok =>
          simp only []
          have := lexLoop_congr cc hcc (toks ++ [t]) (toks ++ [t']) rest σ1 σ1' [] [] hpe hi1 hi1' (SameTT.refl [])
          simp only [List.append_nil] at this
          exact wsOut_of_ext hty hwst ht1 ht2 this

/-- the lexer is inside a Whitespace token without newline whose text so far is `cs` -/
structure InWhitespace (σ : Lexer) (cs : List Char) : Prop where
  wsA : WsA σ cs
  type : σ.currentTokenType = some .whitespace

theorem inWhitespace_blank (cc : CharClass) (σ : Lexer) (cs : List Char) (c : Char) (h : InWhitespace σ cs)
    (hc : IsBlank c) :
    ∃ σ1, processChar cc σ c = .ok (σ1, none) ∧ InWhitespace σ1 (cs ++ [c]) ∧
      PosEq (eraseChars σ) (eraseChars σ1) := by
  obtain ⟨⟨h1, h2, h3, h4, h5⟩, hty⟩ := h
  rcases hc with rfl | rfl
  all_goals
    simp only [processChar, stateStep, h1, Step.ofPair, armSpaces, finishChar]
    refine ⟨_, rfl, ⟨?_, ?_⟩, ?_⟩
    · constructor <;> simp [bumpColumn, push, h1, h2, h3, h4, h5]
    · simp [bumpColumn, hty]
    · rw [posEq_iff]; simp [bumpColumn, eraseChars, h1]

theorem inWhitespace_run (cc : CharClass) : ∀ (ws : List Char) (σ : Lexer) (cs : List Char) (toks : List LexerToken),
    InWhitespace σ cs → (∀ c ∈ ws, IsBlank c) →
    ∃ σ1, runChars cc ws σ toks = .ok (σ1, toks) ∧ InWhitespace σ1 (cs ++ ws) ∧ PosEq (eraseChars σ) (eraseChars σ1)
  | [], σ, cs, toks, h, _ => ⟨σ, rfl, by simpa using h, PosEq.refl _⟩
  | c :: ws, σ, cs, toks, h, hb => by
    obtain ⟨σ1, hp, h1, hpe1⟩ := inWhitespace_blank cc σ cs c h (hb c (by simp))
    obtain ⟨σ2, hr, h2, hpe2⟩ := inWhitespace_run cc ws σ1 (cs ++ [c]) toks h1 (fun x hx => hb x (by simp [hx]))
    exact ⟨σ2, by rw [runChars_none cc c ws σ σ1 toks h.wsA.ok hp]; exact hr, by simpa using h2, hpe1.trans hpe2⟩

theorem inv_of_spaces {σ : Lexer} (h : σ.state = .spaces) : Inv σ := fun hf => by rw [h] at hf; cases hf

/-- inserting or removing spaces/tabs inside an existing Whitespace token, state form: from a lexer inside a
Whitespace token (`InWhitespace σ cs`), the runs on `r ++ b` and on `r' ++ b` (`r`, `r'` runs of spaces/tabs) both fail,
or both succeed with `toks ++ t :: rest` and `toks ++ t' :: rest'` where `t`, `t'` have the same (whitespace) type and
texts `cs ++ r ++ z'`, `cs ++ r' ++ z'`, and `rest`, `rest'` agree in types and texts -/
theorem lexLoop_whitespace_local (cc : CharClass) (hcc : cc.Sane) (σ : Lexer) (cs r r' b : List Char)
    (toks : List LexerToken) (h : InWhitespace σ cs) (hr : ∀ c ∈ r, IsBlank c) (hr' : ∀ c ∈ r', IsBlank c) :
    WsOut toks (cs ++ r) (cs ++ r') (lexLoop cc (r ++ b) σ toks) (lexLoop cc (r' ++ b) σ toks) := by
  obtain ⟨σ1, hrun1, hin1, hpe1⟩ := inWhitespace_run cc r σ cs toks h hr
  obtain ⟨σ1', hrun1', hin1', hpe1'⟩ := inWhitespace_run cc r' σ cs toks h hr'
  rw [lexLoop_append cc r b σ σ1 toks toks hrun1, lexLoop_append cc r' b σ σ1' toks toks hrun1']
  have hrel : WsRel σ1 σ1' (cs ++ r) (cs ++ r') [] :=
    ⟨hpe1.symm.trans hpe1', Or.inl hin1.wsA.state, Or.inl hin1.type, by simp [hin1.wsA.chars],
      by simp [hin1'.wsA.chars]⟩
  exact lexLoop_ws cc hcc toks _ _ b σ1 σ1' [] hrel (inv_of_spaces hin1.wsA.state) (inv_of_spaces hin1'.wsA.state)

def inWhitespaceB (σ : Lexer) (cs : List Char) : Bool :=
  σ.state == .spaces && σ.currentCharacters == cs && σ.couldBeSubExpression == false && σ.shouldCreate == true &&
  σ.result == .ok && σ.currentTokenType == some .whitespace

theorem inWhitespace_of_check {σ : Lexer} {cs : List Char} (h : inWhitespaceB σ cs = true) : InWhitespace σ cs := by
  simp only [inWhitespaceB, Bool.and_eq_true, beq_iff_eq] at h
  obtain ⟨⟨⟨⟨⟨h1, h2⟩, h3⟩, h4⟩, h5⟩, h6⟩ := h
  exact ⟨⟨h1, h2, h3, h4, h5⟩, h6⟩

/-- the same for `lex` from the start: `p` is a prefix after which the lexer is inside a Whitespace token -/
theorem lexFull_whitespace_local (cc : CharClass) (hcc : cc.Sane) (p r r' b cs : List Char) (σ : Lexer)
    (toks : List LexerToken) (hrun : runChars cc p (Lexer.init theTree) [] = .ok (σ, toks)) (h : InWhitespace σ cs)
    (hr : ∀ c ∈ r, IsBlank c) (hr' : ∀ c ∈ r', IsBlank c) :
    WsOut toks (cs ++ r) (cs ++ r') (lexFull cc (p ++ (r ++ b))) (lexFull cc (p ++ (r' ++ b))) := by
  unfold lexFull
  rw [new_eq]
  simp only []
  rw [lexLoop_append cc p (r ++ b) _ σ [] toks hrun, lexLoop_append cc p (r' ++ b) _ σ [] toks hrun]
  exact lexLoop_whitespace_local cc hcc σ cs r r' b toks h hr hr'

end Garnish.Model.Lexer
