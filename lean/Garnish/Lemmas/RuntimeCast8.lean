/-
Refinement lemmas for casting.rs, part 8: `iterate_concatenation_mut` as a whole with a state-carrying check, the three
closures `type_cast` passes (`concatenation_len`'s, the add-all closure, the windowed closure of the slice arm) and what
they select on values (`flatItems`, Abs/Casts `concatWindow`).
-/
import Garnish.Lemmas.RuntimeCast7
import Garnish.Lemmas.RuntimeCast4
set_option linter.unusedSimpArgs false
set_option linter.unusedVariables false
namespace Garnish.Lemmas.Runtime
open Garnish Gen Garnish.Abs Garnish.Model.Equality Garnish.Model.Runtime

variable {F σ α : Type} {S : RStore F σ} (fo : FloatOps F)

/-- `iterate_concatenation_mut` on a concatenation, with a state-carrying check; the borrowed registers are given back -/
theorem iterateConcatenation_pick (L : StoreLaws S) {checkFn : α → Number F → Nat → RM σ (Option Nat × α)}
    {dec : Nat → Pick} {Q : α → List Nat → σ → Prop} (hp : PickRefines S checkFn dec Q) (fuel : Nat)
    {s : σ} {addr : Nat} {vl vr : Val F} (h : Decodes (S.view s) addr (.concat vl vr))
    (hf : nodes vl + nodes vr + 1 ≤ fuel) (hb : (flatItems vl ++ flatItems vr).length ≤ 2147483647)
    (acc : α) (built : List Nat) (hq : Q acc built s) :
    ∃ r idx' acc' s' new, iterateConcatenation fo S false fuel addr checkFn acc s = .ok (((r, idx'), acc'), s') ∧
      Eff S s s' (S.regs s) (S.vals s) ∧ Q acc' (built ++ new) s' ∧
      DecodesList (S.view s') new (pickItems dec 0 (flatItems vl ++ flatItems vr)) ∧
      (pickStops dec 0 (flatItems vl ++ flatItems vr) = false → idx' = (flatItems vl ++ flatItems vr).length) := by
  obtain ⟨la, ra, hc, dl, dr⟩ := concat_of h
  have hlen : getRegisterLen S s = .ok ((S.regs s).length, s) := rfl
  have hvis : visitAll false [vl, vr] = flatItems vl ++ flatItems vr := by
    simp [visitAll, visit_false]
  rw [iterateConcatenation, bind_ok (getMethod_of false hc)]
  simp only [Bool.false_eq_true, if_false]
  obtain ⟨s1, h1, e1⟩ := L.pushRegister ra s
  have q1 := hp.push s acc built ra _ s1 hq h1
  obtain ⟨s2, h2, e2⟩ := L.pushRegister la s1
  have q2 := hp.push s1 acc built la _ s2 q1 h2
  rw [e1.regs, e1.vals] at e2
  have e02 := e1.trans e2
  have hloop := iterLoop_pick fo L hp (S.regs s) fuel [la, ra] [vl, vr] 0 acc built s2
    (by rw [e2.regs]; rfl) (.cons (e02.dec dl) (.cons (e02.dec dr) .nil))
    (by simp only [nodesAll]; omega) (by rw [hvis]; simpa using hb) q2
  obtain ⟨r, idx', acc', s3, extra, new, h3, e3, hx, q3, d3, hns⟩ := hloop
  rw [e2.vals] at e3
  -- the clean-up loop, keeping the invariant
  have hclear : ∀ (fuel : Nat) (extra : List Nat) (st : σ), S.regs st = extra ++ S.regs s → extra.length + 1 ≤ fuel →
      Q acc' (built ++ new) st →
      ∃ st', clearBorrowed S (S.regs s).length fuel st = .ok ((), st') ∧ Eff S st st' (S.regs s) (S.vals st) ∧
        Q acc' (built ++ new) st' := by
    intro fuel
    induction fuel with
    | zero => intro extra st _ hf _; omega
    | succ fuel ih =>
      intro extra st hregs hf hqq
      have hlen' : getRegisterLen S st = .ok ((extra ++ S.regs s).length, st) := by
        show Outcome.ok ((S.regs st).length, st) = _
        rw [hregs]
      rw [clearBorrowed, bind_ok hlen']
      cases extra with
      | nil =>
        simp only [List.nil_append, Nat.lt_irrefl, gt_iff_lt, if_false]
        exact ⟨st, rfl, ⟨Keeps.refl S st, by simpa using hregs, rfl, rfl, rfl⟩, hqq⟩
      | cons x xs =>
        have hgt : (x :: xs ++ S.regs s).length > (S.regs s).length := by simp; omega
        simp only [hgt, if_true]
        obtain ⟨st1, hp1, ep1⟩ := L.popRegisterCons st x (xs ++ S.regs s) hregs
        have qq1 := hp.pop st acc' (built ++ new) _ st1 hqq hp1
        obtain ⟨st2, hp2, ep2, qq2⟩ := ih xs st1 ep1.regs (by simp at hf; omega) qq1
        rw [ep1.vals] at ep2
        exact ⟨st2, by rw [bind_ok hp1]; exact hp2, ep1.trans ep2, qq2⟩
  obtain ⟨s4, h4, e4, q4⟩ := hclear fuel extra s3 e3.regs (by simp only [nodesAll] at hx; omega) q3
  rw [e3.vals] at e4
  refine ⟨r, idx', acc', s4, new, ?_, (e02.trans e3).trans e4, q4, ?_, ?_⟩
  · rw [bind_ok hlen, bind_ok h1, bind_ok h2, bind_ok h3]
    simp only []
    rw [bind_ok h4]; rfl
  · rw [← hvis]; exact decodesList_keeps e4.keeps d3
  · intro hno
    rw [← hvis] at hno
    obtain ⟨_, _, hidx⟩ := hns hno
    rw [hidx, hvis]; simp

/-! ### the three closures -/

theorem pickItems_skip (xs : List (Val F)) : ∀ k, pickItems (fun _ => Pick.skip) k xs = [] := by
  induction xs with
  | nil => intro k; rfl
  | cons x xs ih => intro k; simp [pickItems, ih]

theorem pickStops_skip (xs : List (Val F)) : ∀ k, pickStops (fun _ => Pick.skip) k xs = false := by
  induction xs with
  | nil => intro k; rfl
  | cons x xs ih => intro k; simp [pickStops, ih]

theorem pickItems_add (xs : List (Val F)) : ∀ k, pickItems (fun _ => Pick.add) k xs = xs := by
  induction xs with
  | nil => intro k; rfl
  | cons x xs ih => intro k; simp [pickItems, ih]

theorem pickStops_add (xs : List (Val F)) : ∀ k, pickStops (fun _ => Pick.add) k xs = false := by
  induction xs with
  | nil => intro k; rfl
  | cons x xs ih => intro k; simp [pickStops, ih]

/-- the closure of `concatenation_len` -/
theorem lenFn_refines : PickRefines S (fun (_ : Unit) (_ : Number F) (_ : Nat) => (pure (none, ()) : RM σ (Option Nat × Unit)))
    (fun _ => Pick.skip) (fun _ _ _ => True) where
  skip _ _ _ _ _ _ _ _ := rfl
  stop _ _ _ _ _ _ h _ := by cases h
  add _ _ _ _ _ _ h _ := by cases h
  pop _ _ _ _ _ _ _ := trivial
  push _ _ _ _ _ _ _ _ := trivial

/-- `concatenation_len`: the number of items the iterator yields; only the borrowed registers moved -/
theorem castConcatenationLen_spec (L : StoreLaws S) (fuel : Nat) {s : σ} {addr : Nat} {vl vr : Val F}
    (h : Decodes (S.view s) addr (.concat vl vr)) (hf : nodes vl + nodes vr + 1 ≤ fuel)
    (hb : (flatItems vl ++ flatItems vr).length ≤ 2147483647) :
    ∃ s', castConcatenationLen fo S fuel addr s = .ok ((flatItems vl ++ flatItems vr).length, s') ∧
      Eff S s s' (S.regs s) (S.vals s) := by
  obtain ⟨r, idx', acc', s', new, h1, e1, _, _, hidx⟩ :=
    iterateConcatenation_pick fo L (lenFn_refines (S := S)) fuel h hf hb () [] trivial
  refine ⟨s', ?_, e1⟩
  rw [castConcatenationLen, bind_ok h1, hidx (pickStops_skip _ 0)]; rfl

/-- the closure that adds every visited item to the list under construction -/
theorem addFn_refines (L : StoreLaws S)
    (hpush : ∀ x s u s', S.pushRegister x s = .ok (u, s') → S.building s' = S.building s) :
    PickRefines S (fun (listIndex : Nat) (_ : Number F) (addr : Nat) => (do
        let listIndex ← S.addToList listIndex addr
        pure (none, listIndex) : RM σ (Option Nat × Nat)))
      (fun _ => Pick.add) (fun acc built s => S.building s = some (acc, built)) where
  skip _ _ _ _ _ _ h _ := by cases h
  stop _ _ _ _ _ _ h _ := by cases h
  add s acc built k addr _ _ hq := by
    obtain ⟨t', s', h1, e1, b1⟩ := L.addToList acc built addr s hq
    exact ⟨t', s', by rw [bind_ok h1]; rfl, e1, b1⟩
  pop s acc built o s' hq h := (L.popRegisterBuilding s o s' h).trans hq
  push s acc built x u s' hq h := (hpush x s u s' h).trans hq

/-- the decision of the windowed closure of the slice arm -/
def winDec (start end_ : Number F) (k : Nat) : Pick :=
  if Model.Runtime.numLt fo (.int k) start then .skip
  else if Model.Runtime.numGt fo (.int k) end_ then .stop
  else .add

theorem winFn_refines (L : StoreLaws S)
    (hpush : ∀ x s u s', S.pushRegister x s = .ok (u, s') → S.building s' = S.building s) (start end_ : Number F) :
    PickRefines S (fun (listIndex : Nat) (currentIndex : Number F) (addr : Nat) => (do
        if Model.Runtime.numLt fo currentIndex start then pure (none, listIndex)
        else if Model.Runtime.numGt fo currentIndex end_ then pure (some addr, listIndex)
        else do
          let listIndex ← S.addToList listIndex addr
          pure (none, listIndex) : RM σ (Option Nat × Nat)))
      (winDec fo start end_) (fun acc built s => S.building s = some (acc, built)) where
  skip s acc built k addr _ hd _ := by
    unfold winDec at hd
    by_cases h1 : Model.Runtime.numLt fo (.int k) start = true
    · simp only [h1, if_true]; rfl
    · by_cases h2 : Model.Runtime.numGt fo (.int k) end_ = true
      · simp only [h1, h2, if_true, if_false] at hd; cases hd
      · simp only [h1, h2, if_false] at hd; cases hd
  stop s acc built k addr _ hd _ := by
    unfold winDec at hd
    by_cases h1 : Model.Runtime.numLt fo (.int k) start = true
    · simp only [h1, if_true] at hd; cases hd
    · by_cases h2 : Model.Runtime.numGt fo (.int k) end_ = true
      · simp only [h1, h2, if_true, if_false, Bool.false_eq_true]; rfl
      · simp only [h1, h2, if_false] at hd; cases hd
  add s acc built k addr _ hd hq := by
    unfold winDec at hd
    by_cases h1 : Model.Runtime.numLt fo (.int k) start = true
    · simp only [h1, if_true] at hd; cases hd
    · by_cases h2 : Model.Runtime.numGt fo (.int k) end_ = true
      · simp only [h1, h2, if_true, if_false] at hd; cases hd
      · obtain ⟨t', s', h1', e1, b1⟩ := L.addToList acc built addr s hq
        refine ⟨t', s', ?_, e1, b1⟩
        simp only [h1, h2, if_false, Bool.false_eq_true]
        rw [bind_ok h1']; rfl
  pop s acc built o s' hq h := (L.popRegisterBuilding s o s' h).trans hq
  push s acc built x u s' hq h := (hpush x s u s' h).trans hq

theorem pickItems_win (start end_ : Number F) : ∀ (xs : List (Val F)) (k : Nat),
    pickItems (winDec fo start end_) k xs = concatWindow fo start end_ xs k
  | [], k => rfl
  | x :: xs, k => by
    have ih := pickItems_win start end_ xs (k + 1)
    simp only [pickItems, concatWindow, winDec]
    have e1 : Model.Runtime.numLt fo (.int (k : Int)) start = Abs.numLt fo (.int (k : Int)) start := rfl
    have e2 : Model.Runtime.numGt fo (.int (k : Int)) end_ = Abs.numGt fo (.int (k : Int)) end_ := rfl
    rw [e1, e2]
    by_cases h1 : Abs.numLt fo (.int (k : Int)) start = true
    · simp only [h1, if_true]; exact ih
    · by_cases h2 : Abs.numGt fo (.int (k : Int)) end_ = true
      · simp only [h1, h2, if_true, if_false, Bool.false_eq_true]
      · simp only [h1, h2, if_false, Bool.false_eq_true]; rw [← ih]

end Garnish.Lemmas.Runtime
