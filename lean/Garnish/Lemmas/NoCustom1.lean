/-
`nc` / `ncL`: no `custom` anywhere in a value, hereditarily; closure under the list operations, `flatItems`, `lookupSym`, `lookupRev`.
-/
import Garnish.Abs.Machine
set_option linter.unusedSimpArgs false
set_option linter.unusedVariables false
namespace Garnish.Lemmas.NoCustom
open Garnish Gen Garnish.Abs

variable {F : Type}

mutual
/-- no `custom` anywhere in the value, hereditarily -/
def nc : Val F → Bool
  | .custom => false
  | .pair l r | .concat l r | .range l r | .slice l r | .part l r => nc l && nc r
  | .list items => ncL items
  | _ => true
def ncL : List (Val F) → Bool
  | [] => true
  | x :: xs => nc x && ncL xs
end

theorem ncL_iff : ∀ (xs : List (Val F)), ncL xs = true ↔ ∀ x ∈ xs, nc x = true
  | [] => by simp [ncL]
  | x :: xs => by simp [ncL, ncL_iff xs]

theorem ncL_append (xs ys : List (Val F)) : ncL (xs ++ ys) = (ncL xs && ncL ys) := by
  induction xs with
  | nil => simp [ncL]
  | cons x xs ih => simp [ncL, ih, Bool.and_assoc]

theorem ncL_get {xs : List (Val F)} (h : ncL xs = true) {i : Nat} {x : Val F} (hx : xs[i]? = some x) : nc x = true :=
  (ncL_iff xs).mp h x (List.mem_of_getElem? hx)

theorem ncL_take {xs : List (Val F)} (h : ncL xs = true) (n : Nat) : ncL (xs.take n) = true :=
  (ncL_iff _).mpr fun x hx => (ncL_iff xs).mp h x (List.mem_of_mem_take hx)

theorem ncL_drop {xs : List (Val F)} (h : ncL xs = true) (n : Nat) : ncL (xs.drop n) = true :=
  (ncL_iff _).mpr fun x hx => (ncL_iff xs).mp h x (List.mem_of_mem_drop hx)

theorem ncL_reverse {xs : List (Val F)} (h : ncL xs = true) : ncL xs.reverse = true :=
  (ncL_iff _).mpr fun x hx => (ncL_iff xs).mp h x (List.mem_reverse.mp hx)

theorem ncL_tail {xs : List (Val F)} (h : ncL xs = true) : ncL xs.tail = true := by
  cases xs with
  | nil => rfl
  | cons x xs => simp [ncL] at h; exact h.2

theorem nc_ofBool (b : Bool) : nc (Val.ofBool b : Val F) = true := by cases b <;> rfl

theorem nc_flatItems : ∀ (v : Val F), nc v = true → ncL (flatItems v) = true
  | .concat l r, h => by
    simp [nc] at h
    rw [flatItems, ncL_append, nc_flatItems l h.1, nc_flatItems r h.2]; rfl
  | .list items, h => by simpa [nc, flatItems] using h
  | .unit, _ | .tru, _ | .fls, _ | .num _, _ | .char _, _ | .byte _, _ | .sym _, _ | .expr _, _ | .ext _, _
  | .type _, _ | .chars _, _ | .bytes _, _ | .symList _, _ => by simp [flatItems, ncL, nc]
  | .pair l r, h | .range l r, h | .slice l r, h | .part l r, h => by simp [flatItems, ncL]; exact h
  | .custom, h => by simp [nc] at h

theorem nc_lookupSym (s : Nat) : ∀ (xs : List (Val F)), ncL xs = true → ∀ v, lookupSym s xs = some v → nc v = true
  | [], _, v, h => by simp [lookupSym] at h
  | x :: rest, hx, v, h => by
    simp [ncL] at hx
    have ih := nc_lookupSym s rest hx.2 v
    unfold lookupSym at h
    split at h
    · rename_i heq; cases heq
    · rename_i k w rest' heq
      cases heq
      split at h
      · cases h
        have := hx.1; simp [nc] at this; exact this
      · exact ih h
    · rename_i y rest' _ heq
      cases heq
      exact ih h

theorem nc_lookupRev (s : Nat) : ∀ (c : Val F), nc c = true → ∀ v, lookupRev s c = some v → nc v = true
  | .concat l r, hc, v, h => by
    simp [nc] at hc
    simp only [lookupRev] at h
    cases hr : lookupRev s r with
    | some x => rw [hr] at h; simp [Option.orElse] at h; subst h; exact nc_lookupRev s r hc.2 x hr
    | none => rw [hr] at h; simp [Option.orElse] at h; exact nc_lookupRev s l hc.1 v h
  | .list items, hc, v, h => by simp [nc] at hc; exact nc_lookupSym s items hc v (by simpa [lookupRev] using h)
  | .pair l r, hc, v, h => by
    have : lookupRev s (.pair l r) = lookupSym s [.pair l r] := rfl
    rw [this] at h; exact nc_lookupSym s _ (by simp [ncL]; exact hc) v h
  | .unit, _, v, h | .tru, _, v, h | .fls, _, v, h | .num _, _, v, h | .char _, _, v, h | .byte _, _, v, h
  | .sym _, _, v, h | .expr _, _, v, h | .ext _, _, v, h | .type _, _, v, h | .chars _, _, v, h | .bytes _, _, v, h
  | .symList _, _, v, h | .range _ _, _, v, h | .slice _ _, _, v, h | .part _ _, _, v, h | .custom, _, v, h => by
    simp [lookupRev, lookupSym] at h

end Garnish.Lemmas.NoCustom
