/-
Fragment membership depends on the token TYPES only, part 1: the recogniser `parseG` commutes with every map of tokens
that keeps the token type (`parseG_map`).
-/
import Garnish.Lemmas.ParseNumbered3

namespace Garnish.Spec
open Garnish Garnish.Gen Garnish.Model.Parser

/-- apply `f` to every token of a syntax tree -/
def Ex.map (f : PToken → PToken) : Ex → Ex
  | .atom pre a => .atom (pre.map f) (f a)
  | .br pre o wsA e wsB c => .br (pre.map f) (f o) (wsA.map f) (e.map f) (wsB.map f) (f c)
  | .brT pre o wsA e ws1 t ws2 c => .brT (pre.map f) (f o) (wsA.map f) (e.map f) (ws1.map f) (f t) (ws2.map f) (f c)
  | .bin e ws1 op ws2 x => .bin (e.map f) (ws1.map f) (f op) (ws2.map f) (x.map f)
  | .suf e s => .suf (e.map f) (f s)
  | .lst e ws x => .lst (e.map f) (ws.map f) (x.map f)
  | .sep e ws1 t ws2 x => .sep (e.map f) (ws1.map f) (f t) (ws2.map f) (x.map f)
  | .brC pre o wsA e ws1 k wsB c => .brC (pre.map f) (f o) (wsA.map f) (e.map f) (ws1.map f) (f k) (wsB.map f) (f c)
  | .lead op ws x => .lead (f op) (ws.map f) (x.map f)

def PMode.map (f : PToken → PToken) : PMode → PMode
  | .opd => .opd
  | .tail e inG => .tail (e.map f) inG
  | .expr inG => .expr inG

section
variable {f : PToken → PToken}

theorem takeWhile_mapT (p : PToken → Bool) (hp : ∀ t, p (f t) = p t) :
    ∀ l : List PToken, (l.map f).takeWhile p = (l.takeWhile p).map f
  | [] => rfl
  | a :: l => by
    simp only [List.map_cons, List.takeWhile_cons, hp a]
    split
    · rw [List.map_cons, takeWhile_mapT p hp l]
    · rfl

theorem dropWhile_mapT (p : PToken → Bool) (hp : ∀ t, p (f t) = p t) :
    ∀ l : List PToken, (l.map f).dropWhile p = (l.dropWhile p).map f
  | [] => rfl
  | a :: l => by
    simp only [List.map_cons, List.dropWhile_cons, hp a]
    split
    · exact dropWhile_mapT p hp l
    · rfl

theorem all_mapT (p : PToken → Bool) (hp : ∀ t, p (f t) = p t) (l : List PToken) : (l.map f).all p = l.all p := by
  induction l with
  | nil => rfl
  | cons a l ih => simp only [List.map_cons, List.all_cons, hp a, ih]

theorem any_mapT (p : PToken → Bool) (hp : ∀ t, p (f t) = p t) (l : List PToken) : (l.map f).any p = l.any p := by
  induction l with
  | nil => rfl
  | cons a l ih => simp only [List.map_cons, List.any_cons, hp a, ih]

theorem Ex.endsSuffix_map (e : Ex) : (e.map f).endsSuffix = e.endsSuffix := by cases e <;> rfl
theorem Ex.isOpd_map (e : Ex) : (e.map f).isOpd = e.isOpd := by cases e <;> rfl

variable (hf : ∀ t, (f t).type = t.type)
include hf

theorem tp_trivia (t : PToken) : isTriviaTok (f t) = isTriviaTok t := by simp only [isTriviaTok, hf]
theorem tp_prefix (t : PToken) : isPrefixTok (f t) = isPrefixTok t := by simp only [isPrefixTok, hf]
theorem tp_atom (t : PToken) : isAtom10 (f t) = isAtom10 t := by simp only [isAtom10, hf]
theorem tp_open (t : PToken) : isOpenTok (f t) = isOpenTok t := by simp only [isOpenTok, hf]
theorem tp_sep (t : PToken) : isSepTok (f t) = isSepTok t := by simp only [isSepTok, hf]
theorem tp_opt (t : PToken) : isOptTok (f t) = isOptTok t := by simp only [isOptTok, hf]
theorem tp_binop (t : PToken) : isBinopTok (f t) = isBinopTok t := by simp only [isBinopTok, hf]
theorem tp_suffix (t : PToken) : isSuffixTok (f t) = isSuffixTok t := by simp only [isSuffixTok, hf]
theorem tp_comma (t : PToken) : isCommaTok (f t) = isCommaTok t := by simp only [isCommaTok, hf]
theorem tp_closer (t : PToken) : isCloserTok (f t) = isCloserTok t := by simp only [isCloserTok, hf]
theorem tp_fill (t : PToken) : isFillTok (f t) = isFillTok t := by simp only [isFillTok, tp_trivia hf, tp_sep hf]
theorem tp_gfill (b : Bool) (t : PToken) : isGFill b (f t) = isGFill b t := by
  simp only [isGFill, tp_trivia hf, tp_sep hf]
theorem tp_opens (t : PToken) : Ex.opensGroup (f t) = Ex.opensGroup t := by simp only [Ex.opensGroup, hf]
theorem tp_close (a c : PToken) : Ex.closeMatches (f a) (f c) = Ex.closeMatches a c := by
  simp only [Ex.closeMatches, hf]
theorem tp_fillA (S : Bool) (t : PToken) :
    (fun w => isTriviaTok w || (S && isSepTok w)) (f t) = (fun w => isTriviaTok w || (S && isSepTok w)) t := by
  simp only [tp_trivia hf, tp_sep hf]
theorem tp_lstws (S inG : Bool) (t : PToken) :
    (fun w : PToken => w.type == .whitespace || (S && inG && isSepTok w)) (f t) =
      (fun w : PToken => w.type == .whitespace || (S && inG && isSepTok w)) t := by
  simp only [hf, tp_sep hf]

/-- the result of the recogniser on mapped tokens -/
def mapRes (f : PToken → PToken) (x : Option (Ex × List PToken)) : Option (Ex × List PToken) :=
  x.map (fun p => (p.1.map f, p.2.map f))

omit hf in
theorem mapRes_none : mapRes f none = none := rfl
omit hf in
theorem mapRes_some (e : Ex) (r : List PToken) : mapRes f (some (e, r)) = some (e.map f, r.map f) := rfl

/-- **the recogniser reads token types only** -/
theorem parseG_map (F : Fl) : ∀ (fuel : Nat) (mode : PMode) (toks : List PToken),
    parseG F fuel (mode.map f) (toks.map f) = mapRes f (parseG F fuel mode toks)
  | 0, _, _ => by simp only [parseG]; rfl
  | fuel + 1, .expr inG, toks => by
    simp only [PMode.map, parseG]
    cases toks with
    | nil => rfl
    | cons t r =>
      simp only [List.map_cons, tp_opt hf]
      split
      · rw [dropWhile_mapT _ (tp_trivia hf), takeWhile_mapT _ (tp_trivia hf)]
        have ih := parseG_map F fuel .opd (r.dropWhile isTriviaTok)
        simp only [PMode.map] at ih
        rw [ih]
        cases parseG F fuel .opd (r.dropWhile isTriviaTok) with
        | none => rfl
        | some p =>
          obtain ⟨x, r2⟩ := p
          simp only [mapRes_some]
          exact parseG_map F fuel (.tail (.lead t (r.takeWhile isTriviaTok) x) inG) r2
      · have ih := parseG_map F fuel .opd (t :: r)
        simp only [PMode.map, List.map_cons] at ih
        rw [ih]
        cases parseG F fuel .opd (t :: r) with
        | none => rfl
        | some p =>
          obtain ⟨x, r2⟩ := p
          simp only [mapRes_some]
          exact parseG_map F fuel (.tail x inG) r2
  | fuel + 1, .opd, toks => by
    simp only [PMode.map, parseG]
    rw [dropWhile_mapT _ (tp_prefix hf), takeWhile_mapT _ (tp_prefix hf)]
    cases toks.dropWhile isPrefixTok with
    | nil => rfl
    | cons a r =>
      simp only [List.map_cons, tp_atom hf, tp_open hf, tp_opens hf]
      split
      · rfl
      · split
        · rw [dropWhile_mapT _ (tp_fillA hf F.S), takeWhile_mapT _ (tp_fillA hf F.S)]
          have ih := parseG_map F fuel (.expr (Ex.opensGroup a))
            (r.dropWhile (fun w => isTriviaTok w || (F.S && isSepTok w)))
          simp only [PMode.map] at ih
          rw [ih]
          cases parseG F fuel (.expr (Ex.opensGroup a)) (r.dropWhile (fun w => isTriviaTok w || (F.S && isSepTok w))) with
          | none => rfl
          | some p =>
            obtain ⟨e, r3⟩ := p
            simp only [mapRes_some]
            rw [dropWhile_mapT _ (tp_gfill hf _), takeWhile_mapT _ (tp_gfill hf _)]
            cases r3.dropWhile (isGFill (F.S && Ex.opensGroup a)) with
            | nil => rfl
            | cons c r5 =>
              simp only [List.map_cons, tp_close hf, hf, tp_comma hf]
              split
              · rfl
              · split
                · rw [dropWhile_mapT _ (tp_fill hf), takeWhile_mapT _ (tp_fill hf)]
                  cases r5.dropWhile isFillTok with
                  | nil => rfl
                  | cons c2 r6 =>
                    simp only [List.map_cons, tp_close hf]
                    split <;> rfl
                · split
                  · rw [dropWhile_mapT _ (tp_trivia hf), takeWhile_mapT _ (tp_trivia hf)]
                    cases r5.dropWhile isTriviaTok with
                    | nil => rfl
                    | cons c2 r6 =>
                      simp only [List.map_cons, tp_close hf]
                      split <;> rfl
                  · rfl
        · rfl
  | fuel + 1, .tail e inG, toks => by
    simp only [PMode.map, parseG]
    rw [dropWhile_mapT _ (tp_gfill hf _), takeWhile_mapT _ (tp_gfill hf _)]
    cases toks.dropWhile (isGFill (F.S && inG)) with
    | nil => rfl
    | cons t r1 =>
      simp only [List.map_cons, tp_binop hf, tp_opt hf, tp_suffix hf, tp_prefix hf, tp_atom hf, tp_open hf, tp_sep hf,
        Ex.endsSuffix_map, List.isEmpty_map, any_mapT (fun w : PToken => w.type == .whitespace || (F.S && inG && isSepTok w)) (tp_lstws hf F.S inG)]
      split
      · rw [dropWhile_mapT _ (tp_trivia hf), takeWhile_mapT _ (tp_trivia hf)]
        cases r1.dropWhile isTriviaTok with
        | nil => rfl
        | cons h r2 =>
          simp only [List.map_cons, tp_closer hf]
          split
          · rfl
          · have ih := parseG_map F fuel .opd (h :: r2)
            simp only [PMode.map, List.map_cons] at ih
            rw [ih]
            cases parseG F fuel .opd (h :: r2) with
            | none => rfl
            | some p =>
              obtain ⟨x, r3⟩ := p
              simp only [mapRes_some]
              exact parseG_map F fuel (.tail (.bin e (toks.takeWhile (isGFill (F.S && inG))) t
                (r1.takeWhile isTriviaTok) x) inG) r3
      · split
        · exact parseG_map F fuel (.tail (.suf e t) inG) r1
        · split
          · have ih := parseG_map F fuel .opd (t :: r1)
            simp only [PMode.map, List.map_cons] at ih
            rw [ih]
            cases parseG F fuel .opd (t :: r1) with
            | none => rfl
            | some p =>
              obtain ⟨x, r3⟩ := p
              simp only [mapRes_some]
              exact parseG_map F fuel (.tail (.lst e (toks.takeWhile (isGFill (F.S && inG))) x) inG) r3
          · split
            · rw [dropWhile_mapT _ (tp_fill hf), takeWhile_mapT _ (tp_fill hf)]
              cases r1.dropWhile isFillTok with
              | nil => rfl
              | cons h r2 =>
                simp only [List.map_cons, tp_prefix hf, tp_atom hf, tp_open hf]
                split
                · have ih := parseG_map F fuel .opd (h :: r2)
                  simp only [PMode.map, List.map_cons] at ih
                  rw [ih]
                  cases parseG F fuel .opd (h :: r2) with
                  | none => rfl
                  | some p =>
                    obtain ⟨x, r3⟩ := p
                    simp only [mapRes_some]
                    exact parseG_map F fuel (.tail (.sep e (toks.takeWhile (isGFill (F.S && inG))) t
                      (r1.takeWhile isFillTok) x) inG) r3
                · rfl
            · rfl

end

end Garnish.Spec
