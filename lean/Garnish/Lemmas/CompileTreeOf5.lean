/-
`treeOf` (5): the tree of a program, that it represents the program (`Rep`) and that `validate_parse_tree` accepts it.
-/
import Garnish.Lemmas.CompileTreeOf4
namespace Garnish.Abs.Tree
open Garnish Garnish.Gen Garnish.Spec Garnish.Abs Garnish.Model.Parser Garnish.Model.Literals Garnish.Model.Build
open Sk

variable {F : Type} (pr : Printer F) (pf : List Char → Option F)

theorem nbOf_good (bodies : List (Nat × Expr F)) : ∀ (n id : Nat), okOf pr pf bodies n id →
    ∃ b s, lookupBody bodies id = some b ∧ nbOf pr bodies n id = some s ∧ Good pf bodies s b
  | 0, _, h => by simp only [okOf] at h
  | n + 1, id, h => by
    simp only [okOf] at h
    obtain ⟨b, hb, hf⟩ := h
    exact ⟨b, skel pr (nbOf pr bodies n) b, hb, by simp [nbOf, hb], (rep_skel (nbOf_good bodies n) b hf).1⟩

/-- the skeleton of a program: nested bodies rendered to depth `depth` -/
def skelOf (p : Program F) (depth : Nat) : Sk := skel pr (nbOf pr p.bodies depth) p.main

/-- **`treeOf`**: the parse tree of a program (node array and root), every compound operand in a group -/
def treeOf (p : Program F) (depth : Nat) : Array ParseNode × Nat := ((skelOf pr p depth).toArray, (skelOf pr p depth).root)

/-- the programs `treeOf` renders faithfully: the constructs of `fragE`, nested to depth at most `depth` -/
def InFrag (p : Program F) (depth : Nat) : Prop := fragE pr pf (okOf pr pf p.bodies depth) p.main

theorem treeOf_size (p : Program F) (depth : Nat) : (treeOf pr p depth).1.size = (skelOf pr p depth).size :=
  Sk.toArray_size _

theorem treeOf_rep (p : Program F) (depth : Nat) (h : InFrag pr pf p depth) :
    Rep pf (treeOf pr p depth).1 p.bodies 0 (treeOf pr p depth).1.size (treeOf pr p depth).2 p.main := by
  have := (rep_skel (nbOf_good pr pf p.bodies depth) p.main h).1 _ 0 none (Sk.toArray_agree (skelOf pr p depth))
  rw [treeOf_size]
  simpa [treeOf, skelOf] using this

theorem treeOf_shape (p : Program F) (depth : Nat) :
    Shape (treeOf pr p depth).1 0 (treeOf pr p depth).1.size (treeOf pr p depth).2 := by
  have := shape_of_agree _ 0 none (Sk.toArray_agree (skelOf pr p depth))
  rw [treeOf_size]
  simpa [treeOf] using this

theorem treeOf_valid (p : Program F) (depth : Nat) :
    validateParseTree (treeOf pr p depth).2 (treeOf pr p depth).1 = .ok () := by
  obtain ⟨pn, h1, _, _, h4⟩ := (Sk.toArray_agree (skelOf pr p depth)).rootNode
  exact validate_ok (treeOf_shape pr p depth) (by simpa [treeOf] using h1) h4

end Garnish.Abs.Tree
