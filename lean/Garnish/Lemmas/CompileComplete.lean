/-
The technical condition `complete` of `WFProgram` discharged: when the nested bodies are named by their jump
entries (`labels`), the layout loop finishes within its fuel (= total size of the table of bodies + 2).
A pending root weighs the size of its expression (a nested id weighs 1); laying out a root costs one step and
replaces its weight by that of the roots it pushes, which is at least one less — except for a nested body, whose
size is paid once per id, because the ids laid out are distinct.
-/
import Garnish.Lemmas.CompileNodup
namespace Garnish.Abs
open Garnish Gen Garnish.Spec

variable {F : Type}

def rootW (r : Root F) : Nat :=
  match r.kind with
  | .code e => exprSize e
  | .ref _ => 1

def listW : List (Root F) → Nat
  | [] => 0
  | r :: rs => rootW r + listW rs

theorem listW_append (a b : List (Root F)) : listW (a ++ b) = listW a + listW b := by
  induction a with
  | nil => simp [listW]
  | cons x xs ih => simp [listW, ih]; omega

theorem listW_reverse (a : List (Root F)) : listW a.reverse = listW a := by
  induction a with
  | nil => rfl
  | cons x xs ih => simp [listW, listW_append, ih]; omega

def itemsW : List (Expr F × Nat) → Nat
  | [] => 0
  | it :: its => exprSize it.1 + itemsW its

theorem listW_armRoots (cur join : Nat) (items : List (Expr F × Nat)) : listW (armRoots cur join items) = itemsW items := by
  simp only [armRoots]
  rw [listW_reverse]
  induction items with
  | nil => rfl
  | cons it its ih => simp [listW, itemsW, rootW, ih]

mutual
theorem emit_weight (root cur : Nat) : ∀ (e : Expr F) (s : LState F),
    listW (emit root cur e s).pending + 1 ≤ listW s.pending + exprSize e
  | .lit v, s => by simp [emit, exprSize]
  | .input, s => by simp [emit, exprSize]
  | .ident sym, s => by simp [emit, exprSize]
  | .emptyNested, s => by simp [emit, exprSize]
  | .nested id, s => by simp [emit, exprSize, listW, rootW]; omega
  | .unary op x, s => by have := emit_weight root cur x s; simp only [emit, exprSize, push_pending]; omega
  | .reapply x, s => by have := emit_weight root cur x s; simp only [emit, exprSize, push_pending]; omega
  | .prefixApply sym x, s => by
    have := emit_weight root cur x (s.pushConst .resolve (.sym sym))
    simp only [emit, exprSize, push_pending, pushConst_pending] at this ⊢; omega
  | .suffixApply x sym, s => by
    have := emit_weight root cur x (s.pushConst .resolve (.sym sym))
    simp only [emit, exprSize, push_pending, pushConst_pending] at this ⊢; omega
  | .binary op l r, s => by
    have h1 := emit_weight root cur l s
    have h2 := emit_weight root cur r (emit root cur l s)
    simp only [emit, exprSize, push_pending]; omega
  | .pair l r, s => by
    have h1 := emit_weight root cur r s
    have h2 := emit_weight root cur l (emit root cur r s)
    simp only [emit, exprSize, push_pending]; omega
  | .applyTo x f, s => by
    have h1 := emit_weight root cur f s
    have h2 := emit_weight root cur x (emit root cur f s)
    simp only [emit, exprSize, push_pending]; omega
  | .infixApply a sym b, s => by
    have h1 := emit_weight root cur a (s.pushConst .resolve (.sym sym))
    have h2 := emit_weight root cur b (emit root cur a (s.pushConst .resolve (.sym sym)))
    simp only [emit, exprSize, push_pending, pushConst_pending] at h1 h2 ⊢; omega
  | .seq a b, s => by
    have h1 := emit_weight root cur a s
    have h2 := emit_weight root cur b ((emit root cur a s).push .updateValue none)
    simp only [emit, exprSize, push_pending] at h1 h2 ⊢; omega
  | .sideAfter x b, s => by
    have h1 := emit_weight root cur x s
    have h2 := emit_weight root cur b ((emit root cur x s).push .startSideEffect none)
    simp only [emit, exprSize, push_pending] at h1 h2 ⊢; omega
  | .list items, s => by
    have h1 := emitList_weight root cur items s
    simp only [emit, exprSize, push_pending]; omega
  | .cond onTrue c t, s => by
    have h1 := emit_weight root cur c s
    simp only [emit, exprSize, condTail, pushJump_pending, pushRoot_pending, push_pending, listW, rootW]; omega
  | .and l r, s => by
    have h1 := emit_weight root cur l s
    simp only [emit, exprSize, logicalTail, pushJump_pending, pushRoot_pending, push_pending, listW, rootW]; omega
  | .or l r, s => by
    have h1 := emit_weight root cur l s
    simp only [emit, exprSize, logicalTail, pushJump_pending, pushRoot_pending, push_pending, listW, rootW]; omega
  | .chain arms none, s => by
    have h1 := emitArms_weight root cur arms s
    simp only [emit, exprSize]
    have hf : ∀ (u : LState F) (items : List (Expr F × Nat)), listW (finishChain cur u items).pending = itemsW items + listW u.pending := by
      intro u items
      cases items with
      | nil => simp [finishChain, itemsW]
      | cons it its => simp only [finishChain]; rw [listW_append, listW_armRoots]
    rw [hf]
    have hc : listW (chainNoFinal arms (emitArms root cur arms s).1).pending = listW (emitArms root cur arms s).1.pending := by
      cases arms <;> simp [chainNoFinal]
    rw [hc]; omega
  | .chain arms (some e), s => by
    have h1 := emitArms_weight root cur arms s
    have h2 := emit_weight root cur e (emitArms root cur arms s).1
    simp only [emit, exprSize]
    have hf : ∀ (u : LState F) (items : List (Expr F × Nat)), listW (finishChain cur u items).pending = itemsW items + listW u.pending := by
      intro u items
      cases items with
      | nil => simp [finishChain, itemsW]
      | cons it its => simp only [finishChain]; rw [listW_append, listW_armRoots]
    rw [hf]; omega

theorem emitList_weight (root cur : Nat) : ∀ (items : List (Expr F)) (s : LState F),
    listW (emitList root cur items s).pending ≤ listW s.pending + exprsSize items
  | [], s => by simp [emitList, exprsSize]
  | x :: xs, s => by
    have h1 := emit_weight root cur x s
    have h2 := emitList_weight root cur xs (emit root cur x s)
    simp only [emitList, exprsSize]; omega

theorem emitArms_weight (root cur : Nat) : ∀ (arms : List (Bool × Expr F × Expr F)) (s : LState F),
    listW (emitArms root cur arms s).1.pending + itemsW (emitArms root cur arms s).2 ≤ listW s.pending + armsSize arms
  | [], s => by simp [emitArms, armsSize, itemsW]
  | (b, c, t) :: rest, s => by
    have h1 := emit_weight root cur c s
    have h2 := emitArms_weight root cur rest (((emit root cur c s).pushJump 0).push (jumpIf b) (some (emit root cur c s).jumps.size))
    simp only [emitArms, armsSize, itemsW, push_pending, pushJump_pending] at h2 ⊢; omega
end

/-! ### the loop -/
section loop
variable (bodies : List (Nat × Expr F))

/-- what laying out a nested body may cost: the size of the body its id names -/
def cr (id : Nat) : Nat :=
  match lookupBody bodies id with
  | some b => exprSize b
  | none => 0

def refId (r : Root F) : Option Nat :=
  match r.kind with
  | .ref id => some id
  | .code _ => none

def sumCr : List Nat → Nat
  | [] => 0
  | id :: ids => cr bodies id + sumCr ids

def listC (l : List (Root F)) : Nat := sumCr bodies (l.filterMap refId)

theorem layoutRoot_budget {s : LState F} {r : Root F} {rest : List (Root F)} (hp : s.pending = r :: rest)
    (hc : r.containing < s.jumps.size)
    (q : s.done.length + listW s.pending ≤ listC bodies s.done + 1) :
    (layoutRoot bodies r { s with pending := rest }).done.length + listW (layoutRoot bodies r { s with pending := rest }).pending
      ≤ listC bodies (layoutRoot bodies r { s with pending := rest }).done + 1 := by
  rw [layoutRoot_eq]
  simp only
  generalize hs1 : LState.mk s.instrs (s.jumps.setIfInBounds r.patch s.instrs.size) s.consts rest (r :: s.done)
    s.depths (s.pendDep.headD 0) s.pendDep.tail = s1
  have s1_pending : s1.pending = rest := by rw [← hs1]
  have s1_done : s1.done = r :: s.done := by rw [← hs1]
  have hc1 : r.containing < s1.jumps.size := by rw [← hs1]; simpa using hc
  generalize hs2 : bodyState bodies r s1 = s2
  have hpend : ∀ (terms : List Instr) (u : LState F), (addTerms s.instrs.size s2.instrs.back? terms u).pending = u.pending ∧
      (addTerms s.instrs.size s2.instrs.back? terms u).done = u.done := by
    intro terms
    induction terms with
    | nil => intro u; exact ⟨rfl, rfl⟩
    | cons t ts ih => intro u; simp only [addTerms]; split <;> simp [ih, LState.push]
  rw [(hpend _ _).1, (hpend _ _).2]
  rw [hp] at q
  simp only [listW] at q
  have hbody : s2.done = r :: s.done ∧ (match rootBody bodies r with
      | some b => listW s2.pending + 1 ≤ listW rest + exprSize b
      | none => listW s2.pending = listW rest) := by
    rw [← hs2]
    simp only [bodyState]
    cases hb : rootBody bodies r with
    | none => exact ⟨s1_done, by rw [s1_pending]⟩
    | some b =>
      have := emit_weight r.patch r.containing b s1
      rw [s1_pending] at this
      exact ⟨by rw [(emit_pre r.patch r.containing b s1 hc1).1.done]; exact s1_done, this⟩
  obtain ⟨hd, hw⟩ := hbody
  rw [hd]
  simp only [List.length_cons, listC, List.filterMap_cons]
  cases hk : r.kind with
  | code e =>
    have hb : rootBody bodies r = some e := by simp [rootBody, hk]
    rw [hb] at hw
    simp only [refId, hk, rootW] at q ⊢
    simp only [listC] at q
    omega
  | ref id =>
    simp only [refId, hk, sumCr, rootW] at q ⊢
    simp only [listC] at q
    cases hl : lookupBody bodies id with
    | none =>
      have hb : rootBody bodies r = none := by simp [rootBody, hk, hl]
      rw [hb] at hw
      simp only [cr, hl]
      omega
    | some b =>
      have hb : rootBody bodies r = some b := by simp [rootBody, hk, hl]
      rw [hb] at hw
      simp only [cr, hl]
      omega

theorem layoutRoots_budget : ∀ (fuel : Nat) (s : LState F), Inv s →
    s.done.length + listW s.pending ≤ listC bodies s.done + 1 →
    (layoutRoots bodies fuel s).done.length + listW (layoutRoots bodies fuel s).pending
      ≤ listC bodies (layoutRoots bodies fuel s).done + 1
  | 0, s, _, q => q
  | fuel + 1, s, inv, q => by
    cases hp : s.pending with
    | nil => simp only [layoutRoots, hp]; rw [hp] at q; exact q
    | cons r rest =>
      simp only [layoutRoots, hp]
      obtain ⟨inv', _⟩ := layoutRoot_facts bodies inv hp
      exact layoutRoots_budget fuel _ inv'
        (layoutRoot_budget bodies hp (inv.cont r (by rw [hp]; exact List.mem_cons_self)) q)

/-- if roots are still pending at the end, every unit of fuel laid out one root -/
theorem layoutRoots_steps : ∀ (fuel : Nat) (s : LState F), Inv s → (layoutRoots bodies fuel s).pending ≠ [] →
    (layoutRoots bodies fuel s).done.length = s.done.length + fuel
  | 0, s, _, _ => rfl
  | fuel + 1, s, inv, h => by
    cases hp : s.pending with
    | nil => simp only [layoutRoots, hp] at h; exact absurd rfl h
    | cons r rest =>
      simp only [layoutRoots, hp] at h ⊢
      obtain ⟨inv', _, _, _, hdone, _⟩ := layoutRoot_facts bodies inv hp
      rw [layoutRoots_steps fuel _ inv' h, hdone]
      simp; omega

/-- total size of the bodies of the table -/
def totalSize : List (Nat × Expr F) → Nat
  | [] => 0
  | (_, b) :: rest => exprSize b + totalSize rest

theorem totalSize_le : ∀ (bs : List (Nat × Expr F)), totalSize bs ≤ bodiesSize bs
  | [] => Nat.le_refl _
  | (_, b) :: rest => by have := totalSize_le rest; simp only [totalSize, bodiesSize]; omega

theorem cr_cons (k : Nat) (b : Expr F) (rest : List (Nat × Expr F)) (x : Nat) :
    cr ((k, b) :: rest) x = if k = x then exprSize b else cr rest x := by
  simp only [cr, lookupBody]
  by_cases h : k = x
  · subst h; simp
  · have hb : (k == x) = false := by simpa using h
    simp [hb, h]

theorem sumCr_cons_table (k : Nat) (b : Expr F) (rest : List (Nat × Expr F)) : ∀ (ids : List Nat), ids.Nodup →
    sumCr ((k, b) :: rest) ids ≤ (if k ∈ ids then exprSize b else 0) + sumCr rest ids
  | [], _ => by simp [sumCr]
  | x :: xs, hn => by
    obtain ⟨hx, hxs⟩ := List.nodup_cons.1 hn
    have ih := sumCr_cons_table k b rest xs hxs
    simp only [sumCr]
    rw [cr_cons]
    by_cases hkx : k = x
    · subst hkx
      have hk : k ∉ xs := hx
      simp only [hk, if_false] at ih
      simp only [if_true, List.mem_cons, true_or]
      omega
    · have hm : (k ∈ x :: xs) ↔ k ∈ xs := by simp [hkx]
      simp only [hkx, if_false, hm]
      omega

theorem sumCr_nil (ids : List Nat) : sumCr ([] : List (Nat × Expr F)) ids = 0 := by
  induction ids with
  | nil => rfl
  | cons x xs ih => simp [sumCr, cr, lookupBody, ih]

theorem sumCr_le : ∀ (bs : List (Nat × Expr F)) (ids : List Nat), ids.Nodup → sumCr bs ids ≤ totalSize bs
  | [], ids, _ => by rw [sumCr_nil]; exact Nat.zero_le _
  | (k, b) :: rest, ids, hn => by
    have h1 := sumCr_cons_table k b rest ids hn
    have h2 := sumCr_le rest ids hn
    simp only [totalSize]
    split at h1 <;> omega

end loop

end Garnish.Abs
