/-
C04, builder half — the order of the out-of-line parts, part 13: the visits that schedule out of line, with `LInv`.
-/
import Garnish.Lemmas.BuildLifo12
namespace Garnish.Lemmas.BuildSeq
open Garnish Garnish.Gen Garnish.Model.Parser Garnish.Model.Literals Garnish.Model.Build Garnish.Lemmas.Build
open Garnish.Lemmas.BuildTotal
open Garnish.Lemmas.BuildOrder (Above Attr)

variable {F : Type} {root : Nat} {tree : Array ParseNode} {G : Nat → Prop} {m0 : Nat}

theorem logical_isLate {d : Definition} (h : isLogical d = true) : isLate d = true := by
  cases d <;> simp [isLogical] at h <;> rfl

section pre
variable {ph : Nat → Phase} {ctx : Ctx F} {ni : Nat} {pn : ParseNode}

theorem PreL.rootVisit (p : PreL root tree G m0 ph ctx ni pn) {ctx' : Ctx F} {r : Nat} (hr : pn.right = some r)
    (hlate : ph ni = .p2 → isLate pn.definition = true) (hoolr : oolR pn.definition = true)
    (b : BuildNode) (hb : b.parseNodeIndex = r) (hbi : b.conditionalItems = #[]) (hbu : b.state = .uninitialized)
    (hbc : b.conditionalParent = none)
    (l : List (Option Nat))
    (hM : ctx'.data.metadata.toList = ctx.data.metadata.toList ++ l) (hl : ∀ m, m ∈ l → m = none ∨ m = some ni)
    (hS : ctx'.stack = ctx.stack) (hR : ctx'.rootStack = ctx.rootStack.push r) (hN : ctx'.nodes = putNode ctx.nodes r b)
    (hnl1 : ph ni = .p1 → ∀ c, ¬ ILink tree ni c)
    (hdirect : ∀ (bn : BuildNode), ctx.nodes[ni]? = some (some bn) →
      isDirect pn.definition = true ∨ (isJumpIf pn.definition = true ∧ bn.conditionalParent = none)) :
    PostL root tree G m0 ph ctx' := by
  have hchild' : ∀ c, c ∈ [] ++ [r] → IsChild tree ni c ∧ (LateRight tree ni c → Phase.p3 = .p3) ∧ (ph ni = .p2 → LateRight tree ni c) := by
    intro c hc
    have : c = r := by simpa using hc
    subst this
    exact ⟨p.pre.childR hr, fun _ => rfl, fun h2 => p.pre.lateRight (hlate h2) hr⟩
  have h1 := step_inv_exp p.pre.V p.pre.inv p.pre.hG p.pre.hph p.pre.hns p.pre.hpn .p3 (Or.inr rfl) (fun h => by cases h) [] [r] [] [r]
    [(r, b)] (by rw [hS]; simp) (by rw [hR]; simp) (by rw [hN]; rfl) (fun x hx => by cases hx) (fun _ _ => List.nodup_nil)
    (fun x hx => hx) (fun h => h) (by simp) hchild'
    (fun q hq => by
      have : q = (r, b) := by simpa using hq
      subst this; exact hb)
    (fun q hq => by
      have : q = (r, b) := by simpa using hq
      subst this; exact Or.inr ⟨by simp, hbi⟩) (fun h => by cases h)
  have st := mkStep (M := ctx.data.metadata) (M' := ctx'.data.metadata) p.pre.V p.pre.inv p.pre.hG p.pre.hph p.pre.hpn .p3
    (Or.inr rfl) (fun h => by cases h) [] [r] [] [(r, b)] l
    (by rw [hS]; simp) (by rw [hN]; rfl) hM hl (fun h => by cases h) (fun c hc => by cases hc) h1.1.stackNodup (by simp) hchild'
    (fun q hq => by
      have : q = (r, b) := by simpa using hq
      subst this; exact Or.inr ⟨by simp, hbu⟩)
    (fun c hc => by
      have : c = r := by simpa using hc
      subst this; exact ⟨b, by simp⟩)
    (fun h => absurd rfl h) (conf_nil tree ni .p3 []) (fun _ => Or.inl rfl)
    (fun h => absurd h (oolR_not_sideEffect hoolr))
    (fun c hc => by
      have : c = r := by simpa using hc
      subst this; exact ⟨pn, p.pre.hpn, hr, hoolr⟩)
  have hr0 : ph r = .p0 ∧ r ≠ ni := by
    have := st.hfreshrs r (by simp)
    refine ⟨?_, this.2⟩
    have hfr := Garnish.Lemmas.BuildOrder.children_fresh p.pre.V p.pre.inv p.pre.hG p.pre.hph ([] ++ [r]) hchild' r (by simp)
    exact hfr.1
  have hncp : NCP tree G root r := by
    refine p.ncp (Or.inr hr) (oolR_not_else hoolr) (fun ⟨_, hleft⟩ => p.pre.lr_ne hleft hr rfl)
  have sl := mkStepL st [(r, b)] (by rw [hN]; rfl) (by rw [hR]; simp) (fun c h => by cases h) (fun _ => rfl)
    (fun h c hc => absurd hc (hnl1 h c))
    (fun c hc => by
      have : c = r := by simpa using hc
      subst this; exact ⟨hr0.1, hr⟩)
    (fun _ bn hn => hdirect bn hn)
    (fun _ r' bn hr' hn => by
      rw [hr] at hr'; cases hr'
      refine ⟨fun _ => by simp, fun hj cp parent hcp _ => ?_⟩
      rcases hdirect bn hn with h | ⟨_, h⟩
      · rw [jumpIf_not_direct hj] at h; cases h
      · rw [h] at hcp; cases hcp)
    (fun _ hd => absurd hd (oolR_not_else hoolr))
    (fun c hc bn => by
      have : c = r := by simpa using hc
      subst this; exact p.linv.noNode c (Or.inl hr0.1) bn)
    (fun c hc => by
      have : c = r := by simpa using hc
      subst this; exact p.pre.child_lt (p.pre.childR hr))
    (fun q hq => by
      have : q = (r, b) := by simpa using hq
      subst this; exact Or.inr (by simp))
    (fun c hc => by
      have : c = r := by simpa using hc
      subst this; exact ⟨b, by simp⟩)
    (fun q hq hqn => by
      have : q = (r, b) := by simpa using hq
      subst this; exact absurd hqn hr0.2)
    (fun q hq _ => by
      have : q = (r, b) := by simpa using hq
      subst this; exact ⟨hbi, by rw [hbc]; exact hncp⟩)
    (fun h => by rw [h] at hoolr; simp [oolR, isLate] at hoolr)
  exact ⟨_, h1.1, h1.2, step_finv st p.inv, stepL_linv sl p.inv.1 p.linv⟩

theorem PreL.stackVisit (p : PreL root tree G m0 ph ctx ni pn) {ctx' : Ctx F} {r : Nat} (hr : pn.right = some r)
    (hp1 : ph ni = .p1) (hnl : isLate pn.definition = false) (hk : layout pn.definition = .gr)
    (b : BuildNode) (hb : b.parseNodeIndex = r) (hbi : b.conditionalItems = #[]) (hbu : b.state = .uninitialized)
    (hbc : b.conditionalParent = none)
    (hD : ctx'.data = ctx.data)
    (hS : ctx'.stack = ctx.stack.push r) (hR : ctx'.rootStack = ctx.rootStack) (hN : ctx'.nodes = putNode ctx.nodes r b) :
    PostL root tree G m0 ph ctx' := by
  have hchild' : ∀ c, c ∈ [r] ++ [] → IsChild tree ni c ∧ (LateRight tree ni c → Phase.p3 = .p3) ∧ (ph ni = .p2 → LateRight tree ni c) := by
    intro c hc
    have : c = r := by simpa using hc
    subst this
    exact ⟨p.pre.childR hr, fun _ => rfl, fun h2 => by rw [hp1] at h2; cases h2⟩
  have h1 := step_inv_exp p.pre.V p.pre.inv p.pre.hG p.pre.hph p.pre.hns p.pre.hpn .p3 (Or.inr rfl) (fun h => by cases h) [r] [] [r] []
    [(r, b)] (by rw [hS]; simp) (by rw [hR]; simp) (by rw [hN]; rfl) (fun x hx => Or.inr hx) (fun _ h => h)
    (fun x hx => by cases hx) (fun _ => List.nodup_nil) (by simp) hchild'
    (fun q hq => by
      have : q = (r, b) := by simpa using hq
      subst this; exact hb)
    (fun q hq => by
      have : q = (r, b) := by simpa using hq
      subst this; exact Or.inr ⟨by simp, hbi⟩) (fun h => by cases h)
  have hnse : pn.definition ≠ .sideEffect := fun e => by rw [layout_sideEffect e] at hk; cases hk
  have hcsr : ∀ c, c ∈ [r] ↔ c ∈ csOf .gr pn.left (some r) := fun c => by simp [csOf]
  have st := mkStep (M := ctx.data.metadata) (M' := ctx'.data.metadata) p.pre.V p.pre.inv p.pre.hG p.pre.hph p.pre.hpn .p3
    (Or.inr rfl) (fun h => by cases h) [r] [] [r] [(r, b)] []
    (by rw [hS]; simp) (by rw [hN]; rfl) (by rw [hD]; simp) (fun m hm => by cases hm) (fun h => by cases h) (fun c hc => hc)
    h1.1.stackNodup (by simp) hchild'
    (fun q hq => by
      have : q = (r, b) := by simpa using hq
      subst this; exact Or.inr ⟨by simp, hbu⟩)
    (fun c hc => by
      have : c = r := by simpa using hc
      subst this; exact ⟨b, by simp⟩)
    (fun _ => hp1)
    (conf_layout p.pre.hpn pn.left (some r) rfl hr .gr hk .p3 (fun h => absurd rfl h) [r] [r] rfl hcsr)
    (fun h => by cases h) (fun h => absurd h hnse) (fun c hc => by cases hc)
  have hdefs : isDirect pn.definition = false ∧ isJumpIf pn.definition = false ∧ pn.definition ≠ .elseJump ∧
      isLogical pn.definition = false := by
    cases hd : pn.definition <;> rw [hd] at hk <;> simp [layout] at hk <;> exact ⟨rfl, rfl, by decide, rfl⟩
  have hncp : NCP tree G root r :=
    p.ncp (Or.inr hr) hdefs.2.2.1 (fun ⟨h, _⟩ => by rw [hdefs.2.2.2] at h; cases h)
  have hr0 := st.hfreshcs r (by simp)
  have sl := mkStepL st [(r, b)] (by rw [hN]; rfl) (by rw [hR]; simp) (fun c _ h => by cases h) (fun h => absurd rfl h)
    (fun _ => all_layout p.pre.hpn pn.left (some r) rfl hr .gr hk [r] hcsr)
    (fun c hc => by cases hc) (fun h => absurd rfl h)
    (fun _ r' bn _ _ => ⟨(fun h => by
        rcases h with h | ⟨h, _⟩
        · rw [hdefs.1] at h; cases h
        · rw [hdefs.2.1] at h; cases h), (fun h => by rw [hdefs.2.1] at h; cases h)⟩)
    (fun _ hd => absurd hd hdefs.2.2.1)
    (fun c hc bn => by
      have : c = r := by simpa using hc
      subst this; exact p.linv.noNode c (Or.inl hr0.1) bn)
    (fun c hc => by
      have : c = r := by simpa using hc
      subst this; exact p.pre.child_lt (p.pre.childR hr))
    (fun q hq => by
      have : q = (r, b) := by simpa using hq
      subst this; exact Or.inr (by simp))
    (fun c hc => by
      have : c = r := by simpa using hc
      subst this; exact ⟨b, by simp⟩)
    (fun q hq hqn => by
      have : q = (r, b) := by simpa using hq
      subst this; exact absurd hqn hr0.2.1)
    (fun q hq _ => by
      have : q = (r, b) := by simpa using hq
      subst this; exact ⟨hbi, by rw [hbc]; exact hncp⟩)
    (fun _ h => by cases h)
  exact ⟨_, h1.1, h1.2, step_finv st p.inv, stepL_linv sl p.inv.1 p.linv⟩

theorem PreL.condVisit (p : PreL root tree G m0 ph ctx ni pn) {ctx' : Ctx F} {r : Nat} (hr : pn.right = some r)
    (hlate : isLate pn.definition = true) (hj : isJumpIf pn.definition = true) {node : BuildNode}
    (hnode : ctx.nodes[ni]? = some (some node)) (hst : node.state = .initialized)
    {cp : Nat} (hcpn : node.conditionalParent = some cp) {parent : BuildNode} (hcp : ctx.nodes[cp]? = some (some parent))
    (item : ConditionItem) (hitem : item.nodeIndex = r) (l : List (Option Nat))
    (hM : ctx'.data.metadata.toList = ctx.data.metadata.toList ++ l) (hl : ∀ m, m ∈ l → m = none ∨ m = some ni)
    (hS : ctx'.stack = ctx.stack) (hR : ctx'.rootStack = ctx.rootStack)
    (hN : ctx'.nodes = putNode ctx.nodes cp { parent with conditionalItems := parent.conditionalItems.push item }) :
    PostL root tree G m0 ph ctx' := by
  have h1 := cond_inv_exp p.pre.V p.pre.inv p.pre.hG p.pre.hph p.pre.hns p.pre.hpn hr hlate hcp item hitem hS hR hN
  have st := mkStep_cond (M := ctx.data.metadata) (M' := ctx'.data.metadata) p.pre.V p.pre.inv p.pre.hG p.pre.hph p.pre.hpn
    p.inv.1.nodup hr hlate hcp item l hS hN hM hl
  have hr0 : ph r = .p0 := by
    rcases (st.hfreshrs r (by simp)).1 with h | ⟨o, h⟩
    · exact h
    · -- a recorded arm is not an unscheduled child: `child_fresh`
      have hnot : ¬ SchedDone tree ph ni r := by
        intro ⟨_, hs2⟩
        have := hs2 ⟨pn, p.pre.hpn, hr, hlate⟩
        rcases p.pre.hph with h1 | h1 <;> rw [h1] at this <;> cases this
      exact (child_fresh p.pre.V p.pre.inv p.pre.hG (p.pre.childR hr) hnot).1
  have sl := mkStepL_cond st hr hj hnode hcpn hcp item hitem hR hN (p.notP1 hnode hst) hr0
  exact ⟨_, h1.1, h1.2, step_finv st p.inv, stepL_linv sl p.inv.1 p.linv⟩

theorem PreL.elseVisit (p : PreL root tree G m0 ph ctx ni pn) {ctx' : Ctx F} (hdef : pn.definition = .elseJump)
    {node : BuildNode} (hnode : ctx.nodes[ni]? = some (some node)) (hst : node.state = .initialized)
    (hcpn : node.conditionalParent = none) (containing jumpToIndex : Nat) (l : List (Option Nat))
    (hM : ctx'.data.metadata.toList = ctx.data.metadata.toList ++ l) (hl : ∀ m, m ∈ l → m = none ∨ m = some ni)
    (hS : ctx'.stack = ctx.stack)
    (hR : ctx'.rootStack.toList = ctx.rootStack.toList ++ node.conditionalItems.toList.map (·.nodeIndex))
    (hN : ctx'.nodes = assign ctx.nodes (node.conditionalItems.toList.map (itemNode containing jumpToIndex))) :
    PostL root tree G m0 ph ctx' := by
  have hnse : pn.definition ≠ .sideEffect := by rw [hdef]; decide
  have h1 := else_inv_exp p.pre.V p.pre.inv p.pre.hG p.pre.hph p.pre.hns hnode containing jumpToIndex hS hR hN
  have st := mkStep_else (M := ctx.data.metadata) (M' := ctx'.data.metadata) p.pre.V p.pre.inv p.pre.hG p.pre.hph p.pre.hpn hnse
    p.inv.1.nodup hnode containing jumpToIndex l hS hN hM hl
  have hni3 : ph ni ≠ .p3 := p.pre.hph |> fun h => by rcases h with h | h <;> rw [h] <;> intro h' <;> cases h'
  have hidx : ∀ x, x ∈ node.conditionalItems.toList.map (·.nodeIndex) → ph x = .pc ni ∧ x ≠ ni ∧ x < ctx.nodes.size ∧
      NCP tree G root x ∧ ∀ (bn : BuildNode), ctx.nodes[x]? ≠ some (some bn) := by
    intro x hx
    obtain ⟨it, hit, hxe⟩ := List.mem_map.1 hx
    subst hxe
    obtain ⟨hxG, hpc⟩ := p.pre.inv.items ni node hnode hni3 it hit
    have hxn : it.nodeIndex ≠ ni := by
      intro e; rw [e] at hpc
      rcases p.pre.hph with h1 | h1 <;> rw [h1] at hpc <;> cases hpc
    refine ⟨hpc, hxn, by rw [p.pre.inv.size]; exact G_lt p.pre.V hxG, ?_, p.linv.noNode _ (Or.inr ⟨ni, hpc⟩)⟩
    obtain ⟨k, kn, _, q1, q2, q3, _⟩ := p.linv.recd _ ni hpc
    have hkG : G k := def_G p.pre.V q1 (by intro e; rw [e] at q2; simp [isJumpIf] at q2)
    refine NCP.other hkG q1 (Or.inr q3) (jumpIf_not_else q2) (fun ⟨h, _⟩ => ?_)
    cases hd : kn.definition <;> rw [hd] at q2 h <;> simp [isJumpIf, isLogical] at q2 h
  have sl := mkStepL_else st hdef hnode hcpn containing jumpToIndex hR hN (p.notP1 hnode hst) hidx
  exact ⟨_, h1.1, h1.2, step_finv st p.inv, stepL_linv sl p.inv.1 p.linv⟩

end pre

end Garnish.Lemmas.BuildSeq
