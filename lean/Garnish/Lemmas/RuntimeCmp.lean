/-
Refinement lemmas for comparison.rs, part 2: `get_range`, the Slice/Slice arm and the whole type-pair `match`
of `perform_comparison` against the code-faithful value-level comparison `compareValsR`.
-/
import Garnish.Lemmas.RuntimeCmpList
import Garnish.Lemmas.RuntimeArith
set_option linter.unusedSimpArgs false
set_option linter.unusedVariables false
namespace Garnish.Lemmas.Runtime
open Garnish Gen Garnish.Abs Garnish.Model.Equality Garnish.Model.Runtime

variable {F σ : Type} {S : RStore F σ} (fo : FloatOps F)

theorem getRangeRaw_of {s : σ} {a x y : Nat} (h : (S.view s).range a = some (x, y)) :
    getRangeRaw S a s = .ok ((x, y), s) := by
  simp [getRangeRaw, RM.lift, h, fetch, Outcome.ofOption, Outcome.bind]

theorem getRangeRaw_none {s : σ} {a : Nat} (h : (S.view s).range a = none) :
    getRangeRaw S a s = .err .data := by
  simp [getRangeRaw, RM.lift, h, fetch, Outcome.ofOption, Outcome.bind]

theorem rangeLen_rm (s e : Number F) (s0 : σ) :
    (Model.Runtime.rangeLen fo s e : RM σ (Number F)) s0 = match Abs.rangeLen fo s e with
      | some len => .ok (len, s0)
      | none => .err .number := by
  simp only [Model.Runtime.rangeLen, Abs.rangeLen]
  cases h1 : Number.subtract fo e s with
  | none => rfl
  | some d =>
    rw [bind_ok (orNumErr_some d s0)]
    simp only []
    cases h2 : Number.increment fo d <;> rfl

/-- `get_range` on a decodable address -/
theorem getRange_spec (L : StoreLaws S) {s0 : σ} {ra : Nat} {vr : Val F} (h : Decodes (S.view s0) ra vr) :
    match rangeStartR fo vr with
    | .ok s1 => ∃ e len, getRange fo S ra s0 = .ok ((s1, e, len), s0)
    | .error e => getRange fo S ra s0 = .err e := by
  by_cases hr : vr.typeOf = .range
  · cases h <;> simp [Val.typeOf] at hr
    rename_i sa ea vs ve ds de _ hrange
    rw [getRange, bind_ok (getRangeRaw_of hrange)]
    simp only []
    rw [bind_ok (getDataType_of ds), bind_ok (getDataType_of de)]
    by_cases hn : vs.typeOf = .number ∧ ve.typeOf = .number
    · obtain ⟨x, rfl⟩ := typeOf_number hn.1
      obtain ⟨y, rfl⟩ := typeOf_number hn.2
      simp only [Val.typeOf, rangeStartR]
      rw [bind_ok (getNumber_of ds), bind_ok (getNumber_of de), bind_apply, rangeLen_rm]
      cases Abs.rangeLen fo x y with
      | none => rfl
      | some len => exact ⟨y, len, rfl⟩
    · have e1 : rangeStartR fo (.range vs ve) = .error .state := by
        cases vs <;> cases ve <;> first | rfl | (exfalso; exact hn ⟨rfl, rfl⟩)
      rw [e1]
      simp only []
      generalize vs.typeOf = t1 at hn ⊢
      generalize ve.typeOf = t2 at hn ⊢
      cases t1
      case number =>
        cases t2
        case number => exact absurd ⟨rfl, rfl⟩ hn
        all_goals rfl
      all_goals rfl
  · have e1 : rangeStartR fo vr = .error .data := by
      cases vr <;> first | rfl | (exfalso; exact hr rfl)
    rw [e1]
    simp only []
    have : (S.view s0).range ra = none := by
      cases hx : (S.view s0).range ra with
      | none => rfl
      | some p =>
        have := L.rangeTyped s0 ra p hx
        rw [EqualityRefine.decodes_typeOf h] at this
        exact absurd (Option.some.inj this) hr
    rw [getRange, bind_err (getRangeRaw_none this)]

theorem getSlice_of {s : σ} {a x y : Nat} (h : (S.view s).slice a = some (x, y)) :
    getSlice S a s = .ok ((x, y), s) := by
  simp [getSlice, RM.lift, h, fetch, Outcome.ofOption, Outcome.bind]

theorem getChar_of {s : σ} {a c : Nat} (h : Decodes (S.view s) a (.char c)) : getChar S a s = .ok (c, s) := by
  cases h with
  | char _ hn => simp [getChar, RM.lift, hn, fetch, Outcome.ofOption, Outcome.bind]

theorem getByte_of {s : σ} {a c : Nat} (h : Decodes (S.view s) a (.byte c)) : getByte S a s = .ok (c, s) := by
  cases h with
  | byte _ hn => simp [getByte, RM.lift, hn, fetch, Outcome.ofOption, Outcome.bind]

theorem chars_of {s : σ} {a : Nat} {cs : List Nat} (h : Decodes (S.view s) a (.chars cs)) :
    (S.view s).chars a = some cs := by cases h; assumption

theorem bytes_of {s : σ} {a : Nat} {cs : List Nat} (h : Decodes (S.view s) a (.bytes cs)) :
    (S.view s).bytes a = some cs := by cases h; assumption

/-- the shared body of the two text arms of the Slice/Slice `match` -/
theorem sliceGo_spec (L : StoreLaws S) (s0 : σ) (fuel : Nat)
    (getFunc : σ → Nat → Number F → Outcome (Option Nat)) (lenFunc : σ → Nat → Outcome Nat)
    (seq : Nat → Option (List Nat)) (hI : Indexes (lenFunc s0) (getFunc s0) seq)
    {lva lra rva rra : Nat} {a b : List Nat} {lr rr : Val F}
    (hsa : seq lva = some a) (hsb : seq rva = some b)
    (dlr : Decodes (S.view s0) lra lr) (drr : Decodes (S.view s0) rra rr)
    (ha : a.length ≤ 2147483647) (hb : b.length ≤ 2147483647) (hf : min a.length b.length + 1 ≤ fuel) :
    let body : RM σ (Option Ordering) := do
      let (start1, _, _) ← getRange fo S lra
      let (start2, _, _) ← getRange fo S rra
      Model.Runtime.cmpList fo fuel lva rva start1 start2 getFunc lenFunc
    match sliceGoR fo a b lr rr with
    | some (.ok c) => ∀ falseOrd, body s0 = .ok (ordOf falseOrd c, s0)
    | some (.error e) => body s0 = .err e
    | none => True := by
  intro body
  unfold sliceGoR
  have g1 := getRange_spec fo L dlr
  have g2 := getRange_spec fo L drr
  cases h1 : rangeStartR fo lr with
  | error e => rw [h1] at g1; simp only [] at g1 ⊢; exact bind_err g1
  | ok s1 =>
    rw [h1] at g1
    obtain ⟨e1, len1, g1⟩ := g1
    cases h2 : rangeStartR fo rr with
    | error e =>
      rw [h2] at g2; simp only [] at g2 ⊢
      show (getRange fo S lra >>= _) s0 = _
      rw [bind_ok g1]; exact bind_err g2
    | ok s2 =>
      rw [h2] at g2
      obtain ⟨e2, len2, g2⟩ := g2
      simp only []
      cases s1 with
      | float f => simp [cmpFromR]
      | int i =>
        cases s2 with
        | float f => simp [cmpFromR]
        | int j =>
          by_cases hij : 0 ≤ i ∧ 0 ≤ j
          · simp only [cmpFromR, hij, and_self, if_true, Option.map]
            intro falseOrd
            show (getRange fo S lra >>= _) s0 = _
            rw [bind_ok g1]
            simp only []
            rw [bind_ok g2]
            simp only []
            have ei : i = (i.toNat : Int) := by omega
            have ej : j = (j.toNat : Int) := by omega
            rw [ei, ej]
            simp only [Int.toNat_natCast]
            exact cmpList_spec fo getFunc lenFunc seq s0 hI lva rva a b hsa hsb ha hb _ _ fuel hf
          · simp [cmpFromR, hij]

theorem sliceComparison_spec (L : StoreLaws S) (s0 : σ) (fuel : Nat) (falseOrd : Ordering)
    {lva lra rva rra : Nat} {lv lr rv rr : Val F}
    (dlv : Decodes (S.view s0) lva lv) (drv : Decodes (S.view s0) rva rv)
    (dlr : Decodes (S.view s0) lra lr) (drr : Decodes (S.view s0) rra rr)
    (ha : textLen lv ≤ 2147483647) (hb : textLen rv ≤ 2147483647)
    (hf : min (textLen lv) (textLen rv) + 1 ≤ fuel) :
    CmpOutcome (compareSlicesR fo lv lr rv rr) falseOrd
      (sliceComparison fo S fuel falseOrd lva lra rva rra lv.typeOf rv.typeOf s0) s0 := by
  cases lv <;> cases rv
  case bytes.bytes a b =>
    have := sliceGo_spec fo L s0 fuel S.byteItem S.byteLen _ (L.byteIdx s0) (bytes_of dlv) (bytes_of drv) dlr drr
      ha hb hf
    show CmpOutcome (sliceGoR fo a b lr rr) falseOrd _ s0
    unfold CmpOutcome
    cases hg : sliceGoR fo a b lr rr with
    | none => trivial
    | some r =>
      rw [hg] at this
      cases r with
      | ok c => exact this falseOrd
      | error e => exact this
  case chars.chars a b =>
    have := sliceGo_spec fo L s0 fuel S.charItem S.charLen _ (L.charIdx s0) (chars_of dlv) (chars_of drv) dlr drr
      ha hb hf
    show CmpOutcome (sliceGoR fo a b lr rr) falseOrd _ s0
    unfold CmpOutcome
    cases hg : sliceGoR fo a b lr rr with
    | none => trivial
    | some r =>
      rw [hg] at this
      cases r with
      | ok c => exact this falseOrd
      | error e => exact this
  all_goals rfl

theorem comparisonMatch_spec (L : StoreLaws S) (s0 : σ) (fuel : Nat) (falseOrd : Ordering)
    {left right : Nat} {vl vr : Val F}
    (hl : Decodes (S.view s0) left vl) (hr : Decodes (S.view s0) right vr)
    (ha : textLen vl ≤ 2147483647) (hb : textLen vr ≤ 2147483647)
    (hf : min (textLen vl) (textLen vr) + 1 ≤ fuel) :
    CmpOutcome (compareValsR fo vl vr) falseOrd
      (comparisonMatch fo S fuel falseOrd left right vl.typeOf vr.typeOf s0) s0 := by
  cases vl <;> cases vr
  case num.num a b =>
    show (getNumber S left >>= _) s0 = _
    rw [bind_ok (getNumber_of hl), bind_ok (getNumber_of hr)]
    simp only [compareVals]
    cases Number.partialCmp fo a b <;> rfl
  case char.char a b =>
    show (getChar S left >>= _) s0 = _
    rw [bind_ok (getChar_of hl), bind_ok (getChar_of hr)]; rfl
  case byte.byte a b =>
    show (getByte S left >>= _) s0 = _
    rw [bind_ok (getByte_of hl), bind_ok (getByte_of hr)]; rfl
  case chars.chars a b =>
    show Model.Runtime.cmpList fo fuel left right (.int 0) (.int 0) S.charItem S.charLen s0 = _
    have := cmpList_spec fo S.charItem S.charLen _ s0 (L.charIdx s0) left right a b (chars_of hl) (chars_of hr)
      ha hb 0 0 fuel hf
    simp only [Int.natCast_zero] at this
    rw [this, cmpListFrom_zero]; rfl
  case bytes.bytes a b =>
    show Model.Runtime.cmpList fo fuel left right (.int 0) (.int 0) S.byteItem S.byteLen s0 = _
    have := cmpList_spec fo S.byteItem S.byteLen _ s0 (L.byteIdx s0) left right a b (bytes_of hl) (bytes_of hr)
      ha hb 0 0 fuel hf
    simp only [Int.natCast_zero] at this
    rw [this, cmpListFrom_zero]; rfl
  case slice.slice lv lr rv rr =>
    cases hl with
    | slice _ hsl dlv dlr =>
      cases hr with
      | slice _ hsr drv drr =>
        have := sliceComparison_spec fo L s0 fuel falseOrd dlv drv dlr drr ha hb hf
        show CmpOutcome (compareSlicesR fo lv lr rv rr) falseOrd ((getSlice S left >>= _) s0) s0
        rw [bind_ok (getSlice_of hsl)]
        simp only []
        rw [bind_ok (getSlice_of hsr)]
        simp only []
        rw [bind_ok (getDataType_of dlv), bind_ok (getDataType_of drv)]
        exact this
  all_goals rfl


end Garnish.Lemmas.Runtime
