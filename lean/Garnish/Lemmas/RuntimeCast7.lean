/-
Refinement lemmas for casting.rs, part 7: `iterate_concatenation_mut` with a check function that CHANGES the store and
carries state (the closures of the `(Concatenation, List)` arm and of the concatenation sub-arm of `(Slice, List)`
add the visited item to the list under construction). Lemmas/RuntimeConcat.lean treats read-only checks; here the check
is described by a decision per running index (`Pick`: skip the item, add it, or stop the walk) and an invariant `Q`
relating the closure state to what has been added.
-/
import Garnish.Lemmas.RuntimeCast3
import Garnish.Lemmas.RuntimeConcat2
set_option linter.unusedSimpArgs false
set_option linter.unusedVariables false
namespace Garnish.Lemmas.Runtime
open Garnish Gen Garnish.Abs Garnish.Model.Equality Garnish.Model.Runtime

variable {F σ α : Type} {S : RStore F σ} (fo : FloatOps F)

inductive Pick where
  | skip | add | stop
deriving DecidableEq

/-- the items a walk with decisions `dec` adds, starting at running index `k` -/
def pickItems (dec : Nat → Pick) : Nat → List (Val F) → List (Val F)
  | _, [] => []
  | k, v :: vs =>
    match dec k with
    | .skip => pickItems dec (k + 1) vs
    | .add => v :: pickItems dec (k + 1) vs
    | .stop => []

/-- whether the walk stops inside the list -/
def pickStops (dec : Nat → Pick) : Nat → List (Val F) → Bool
  | _, [] => false
  | k, _ :: vs =>
    match dec k with
    | .stop => true
    | _ => pickStops dec (k + 1) vs

theorem pickItems_append (dec : Nat → Pick) : ∀ (k : Nat) (xs ys : List (Val F)),
    pickItems dec k (xs ++ ys) =
      if pickStops dec k xs then pickItems dec k xs else pickItems dec k xs ++ pickItems dec (k + xs.length) ys
  | k, [], ys => by simp [pickItems, pickStops]
  | k, x :: xs, ys => by
    have ih := pickItems_append dec (k + 1) xs ys
    have hk : k + 1 + xs.length = k + (xs.length + 1) := by omega
    rcases hdk : dec k with _ | _ | _ <;>
      simp [List.cons_append, pickItems, pickStops, List.length_cons, hdk, ih, hk] <;> split <;> simp

theorem pickStops_append (dec : Nat → Pick) : ∀ (k : Nat) (xs ys : List (Val F)),
    pickStops dec k (xs ++ ys) = (pickStops dec k xs || pickStops dec (k + xs.length) ys)
  | k, [], ys => by simp [pickStops]
  | k, x :: xs, ys => by
    have ih := pickStops_append dec (k + 1) xs ys
    have hk : k + 1 + xs.length = k + (xs.length + 1) := by omega
    rcases hdk : dec k with _ | _ | _ <;>
      simp [List.cons_append, pickStops, List.length_cons, hdk, ih, hk]

/-- the contract of a state-carrying check function: what it does for each decision, and that the work-list's own
register traffic does not disturb its invariant -/
structure PickRefines (S : RStore F σ) (checkFn : α → Number F → Nat → RM σ (Option Nat × α)) (dec : Nat → Pick)
    (Q : α → List Nat → σ → Prop) : Prop where
  skip : ∀ s acc built k addr, k ≤ 2147483647 → dec k = .skip → Q acc built s →
    checkFn acc (.int k) addr s = .ok ((none, acc), s)
  stop : ∀ s acc built k addr, k ≤ 2147483647 → dec k = .stop → Q acc built s →
    checkFn acc (.int k) addr s = .ok ((some addr, acc), s)
  add : ∀ s acc built k addr, k ≤ 2147483647 → dec k = .add → Q acc built s →
    ∃ acc' s', checkFn acc (.int k) addr s = .ok ((none, acc'), s') ∧ Eff S s s' (S.regs s) (S.vals s) ∧
      Q acc' (built ++ [addr]) s'
  pop : ∀ s acc built o s', Q acc built s → S.popRegister s = .ok (o, s') → Q acc built s'
  push : ∀ s acc built x u s', Q acc built s → S.pushRegister x s = .ok (u, s') → Q acc built s'

/-- the inner `while i < len` over one list operand -/
theorem iterListLoop_pick (L : StoreLaws S) {checkFn : α → Number F → Nat → RM σ (Option Nat × α)}
    {dec : Nat → Pick} {Q : α → List Nat → σ → Prop} (hp : PickRefines S checkFn dec Q)
    (r : Nat) (vs : List (Val F)) (index : Nat) (hb : index + vs.length ≤ 2147483647) :
    ∀ (rem i : Nat) (acc : α) (built : List Nat) (s : σ), rem + i = vs.length →
      Decodes (S.view s) r (.list vs) → Q acc built s →
      ∃ o acc' s' new, iterListLoop fo S checkFn r index rem i acc s = .ok ((o, acc'), s') ∧
        Eff S s s' (S.regs s) (S.vals s) ∧ Q acc' (built ++ new) s' ∧
        DecodesList (S.view s') new (pickItems dec (index + i) (vs.drop i)) ∧
        o.isSome = pickStops dec (index + i) (vs.drop i) := by
  intro rem
  induction rem with
  | zero =>
    intro i acc built s hri hd hq
    have : vs.drop i = [] := List.drop_eq_nil_of_le (by omega)
    exact ⟨none, acc, s, [], rfl, Eff.refl S s, by simpa using hq, by rw [this]; exact .nil, by rw [this]; rfl⟩
  | succ rem ih =>
    intro i acc built s hri hd hq
    have hlt' : i < vs.length := by omega
    obtain ⟨items, hi, hdl⟩ := listItems_of hd
    have hl := EqualityRefine.decodesList_length hdl
    have hlt : i < items.length := by omega
    obtain ⟨_, hget⟩ := L.listIdx s r items hi
    obtain ⟨_, dv⟩ := decodesList_getElem hdl i hlt
    have hsz : (sizeToNumber i : Number F) = .int i := sizeToNumber_small (by omega)
    have hsx : (sizeToNumber index : Number F) = .int index := sizeToNumber_small (by omega)
    have hg := hget i hlt
    rw [List.getElem?_eq_getElem hlt] at hg
    have hdrop : vs.drop i = vs[i] :: vs.drop (i + 1) := List.drop_eq_getElem_cons hlt'
    have hk : index + i ≤ 2147483647 := by omega
    rw [iterListLoop]
    simp only [hsz, hsx]
    rw [bind_ok (readR_ok (g := fun st => S.listItem st r (.int i)) hg)]
    simp only []
    rw [bind_ok (pure_apply items[i] s), plus_nat fo index i (by omega), bind_ok (orNumErr_some _ s)]
    rw [hdrop]
    simp only [pickItems, pickStops]
    cases hdk : dec (index + i) with
    | skip =>
      rw [bind_ok (hp.skip s acc built (index + i) items[i] hk hdk hq)]
      simp only []
      obtain ⟨o2, acc2, s2, new2, h2, e2, q2, d2, st2⟩ := ih (i + 1) acc built s (by omega) hd hq
      rw [show index + (i + 1) = index + i + 1 by omega] at d2 st2
      exact ⟨o2, acc2, s2, new2, h2, e2, q2, d2, st2⟩
    | stop =>
      rw [bind_ok (hp.stop s acc built (index + i) items[i] hk hdk hq)]
      simp only []
      exact ⟨some items[i], acc, s, [], rfl, Eff.refl S s, by simpa using hq, .nil, rfl⟩
    | add =>
      obtain ⟨acc1, s1, h1, e1, q1⟩ := hp.add s acc built (index + i) items[i] hk hdk hq
      rw [bind_ok h1]
      simp only []
      obtain ⟨o2, acc2, s2, new2, h2, e2, q2, d2, st2⟩ :=
        ih (i + 1) acc1 (built ++ [items[i]]) s1 (by omega) (e1.dec hd) q1
      rw [show index + (i + 1) = index + i + 1 by omega] at d2 st2
      rw [e1.regs, e1.vals] at e2
      refine ⟨o2, acc2, s2, items[i] :: new2, h2, e1.trans e2, by simpa using q2, ?_, st2⟩
      exact .cons ((e1.trans e2).dec dv) d2

/-- what one run of the outer loop establishes -/
def PickOut (S : RStore F σ) (dec : Nat → Pick) (Q : α → List Nat → σ → Prop) (base : List Nat) (s : σ)
    (res : Outcome (((Option Nat × Nat) × α) × σ)) (index : Nat) (built : List Nat) (pvs : List (Val F)) : Prop :=
  ∃ r idx' acc' s' extra new, res = .ok (((r, idx'), acc'), s') ∧
    Eff S s s' (extra ++ base) (S.vals s) ∧ extra.length ≤ nodesAll pvs ∧ Q acc' (built ++ new) s' ∧
    DecodesList (S.view s') new (pickItems dec index (visitAll false pvs)) ∧
    (pickStops dec index (visitAll false pvs) = false →
      r = none ∧ extra = [] ∧ idx' = index + (visitAll false pvs).length)

/-- the outer `while get_register_len() > start_register`, left to right -/
theorem iterLoop_pick (L : StoreLaws S) {checkFn : α → Number F → Nat → RM σ (Option Nat × α)}
    {dec : Nat → Pick} {Q : α → List Nat → σ → Prop} (hp : PickRefines S checkFn dec Q) (base : List Nat) :
    ∀ (fuel : Nat) (ps : List Nat) (pvs : List (Val F)) (index : Nat) (acc : α) (built : List Nat) (s : σ),
      S.regs s = ps ++ base → DecodesList (S.view s) ps pvs → nodesAll pvs + 1 ≤ fuel →
      index + (visitAll false pvs).length ≤ 2147483647 → Q acc built s →
      PickOut S dec Q base s (iterLoop fo S false checkFn base.length fuel index acc s) index built pvs := by
  intro fuel
  induction fuel with
  | zero => intro ps pvs index acc built s _ _ hf _ _; omega
  | succ fuel ih =>
    intro ps pvs index acc built s hregs hd hf hb hq
    have hlen : getRegisterLen S s = .ok ((ps ++ base).length, s) := by
      show Outcome.ok ((S.regs s).length, s) = _
      rw [hregs]
    rw [iterLoop, bind_ok hlen]
    cases hd with
    | nil =>
      simp only [List.nil_append, Nat.lt_irrefl, gt_iff_lt, if_false]
      exact ⟨none, index, acc, s, [], [], rfl, ⟨Keeps.refl S s, by simpa using hregs, rfl, rfl, rfl⟩, Nat.le_refl _,
        by simpa using hq, .nil, fun _ => ⟨rfl, rfl, rfl⟩⟩
    | cons dp dps =>
      rename_i p ps' v vs
      have hgt : (p :: ps' ++ base).length > base.length := by simp; omega
      simp only [hgt, if_true]
      obtain ⟨s1, h1, e1⟩ := L.popRegisterCons s p (ps' ++ base) hregs
      have hq1 := hp.pop s acc built _ s1 hq h1
      rw [bind_ok h1]
      simp only []
      have dp1 := e1.dec dp
      have dps1 := decodesList_keeps e1.keeps dps
      rw [bind_ok (getDataType_of dp1)]
      have hvl := length_le_nodesAll dps
      by_cases hcat : v.typeOf = .concatenation
      · obtain ⟨vl, vr, rfl⟩ := typeOf_concat hcat
        obtain ⟨la, ra, hc, dl, dr⟩ := concat_of dp1
        simp only [Val.typeOf]
        rw [bind_ok2 (getMethod_of false hc)]
        simp only [Bool.false_eq_true, if_false]
        obtain ⟨s2, h2, e2⟩ := L.pushRegister ra s1
        have hq2 := hp.push s1 acc built ra _ s2 hq1 h2
        rw [e1.regs, e1.vals] at e2
        obtain ⟨s3, h3, e3⟩ := L.pushRegister la s2
        have hq3 := hp.push s2 acc built la _ s3 hq2 h3
        rw [e2.regs, e2.vals] at e3
        rw [bind_ok2 h2, bind_ok2 h3, bind_ok (pure_apply _ s3)]
        simp only []
        have e03 := (e1.trans e2).trans e3
        have key := ih (la :: ra :: ps') (vl :: vr :: vs) index acc built s3 e3.regs
          (.cons ((e2.trans e3).dec dl) (.cons ((e2.trans e3).dec dr) (decodesList_keeps (e2.trans e3).keeps dps1)))
          (by simp only [nodesAll, nodes] at hf ⊢; omega)
          (by simpa [visitAll, visit, List.append_assoc] using hb) hq3
        obtain ⟨r, idx', acc', s', extra, new, hr, er, hx, hqq, hdd, hns⟩ := key
        rw [e3.vals] at er
        refine ⟨r, idx', acc', s', extra, new, hr, e03.trans er, by simp only [nodesAll, nodes] at hx ⊢; omega, hqq, ?_, ?_⟩
        · simpa [visitAll, visit, List.append_assoc] using hdd
        · simpa [visitAll, visit, List.append_assoc] using hns
      · by_cases hlist : v.typeOf = .list
        · obtain ⟨xs, rfl⟩ := typeOf_list hlist
          obtain ⟨items, hi, hdl⟩ := listItems_of dp1
          have hl := EqualityRefine.decodesList_length hdl
          obtain ⟨hlen', _⟩ := L.listIdx s1 p items hi
          have hb' : index + xs.length ≤ 2147483647 := by
            simp only [visitAll, visit, List.length_append] at hb; omega
          obtain ⟨o, acc2, s2, new2, ho, e2, q2, d2, st2⟩ :=
            iterListLoop_pick fo L hp p xs index hb' xs.length 0 acc built s1 (by omega) dp1 hq1
          simp only [Nat.add_zero, List.drop_zero] at d2 st2
          rw [e1.regs, e1.vals] at e2
          simp only [Val.typeOf]
          rw [bind_ok2 (readR_ok (g := fun st => S.listLen st p) hlen'), hl, bind_ok2 ho, bind_ok (pure_apply _ s2)]
          have hpa := pickItems_append dec index xs (visitAll false vs)
          have hsa := pickStops_append dec index xs (visitAll false vs)
          cases hox : o with
          | some w =>
            have hst : pickStops dec index xs = true := by rw [← st2, hox]; rfl
            simp only []
            refine ⟨some w, index + xs.length, acc2, s2, ps', new2, rfl, e1.trans e2,
              by simp only [nodesAll, nodes]; omega, q2, ?_, ?_⟩
            · simp only [visitAll, visit, hpa, hst, if_true]; exact d2
            · intro hno; simp only [visitAll, visit, hsa, hst, Bool.true_or] at hno; cases hno
          | none =>
            have hst : pickStops dec index xs = false := by rw [← st2, hox]; rfl
            simp only []
            have key := ih ps' vs (index + xs.length) acc2 (built ++ new2) s2 e2.regs
              (decodesList_keeps e2.keeps dps1)
              (by simp only [nodesAll, nodes] at hf ⊢; omega)
              (by simp only [visitAll, visit, List.length_append] at hb; omega) q2
            obtain ⟨r, idx', acc', s', extra, new, hr, er, hx, hqq, hdd, hns⟩ := key
            rw [e2.vals] at er
            refine ⟨r, idx', acc', s', extra, new2 ++ new, hr, (e1.trans e2).trans er,
              by simp only [nodesAll, nodes]; omega, by simpa [List.append_assoc] using hqq, ?_, ?_⟩
            · simp only [visitAll, visit, hpa, hst, Bool.false_eq_true, if_false]
              exact EqualityRefine.decodesList_append (decodesList_keeps er.keeps d2) hdd
            · intro hno
              simp only [visitAll, visit, hsa, hst, Bool.false_or] at hno
              obtain ⟨h1', h2', h3'⟩ := hns hno
              refine ⟨h1', h2', ?_⟩
              simp only [visitAll, visit, List.length_append]; omega
        · -- any other value is one item
          have hvis := visit_other false hlist hcat
          have hb' : index ≤ 2147483647 := by omega
          have hsx : (sizeToNumber index : Number F) = .int index := sizeToNumber_small hb'
          have hn1 : nodes v = 1 := nodes_other hcat
          have hb2 : index + 1 + (visitAll false vs).length ≤ 2147483647 := by
            simp only [visitAll, hvis, List.length_append, List.length_singleton] at hb; omega
          have hvall : visitAll false (v :: vs) = v :: visitAll false vs := by
            simp only [visitAll, hvis, List.singleton_append]
          generalize htt : v.typeOf = t at hcat hlist
          cases t
          case concatenation => exact absurd rfl hcat
          case list => exact absurd rfl hlist
          all_goals
            simp only []
            unfold PickOut
            rw [hsx, hvall]
            simp only [pickItems, pickStops, List.length_cons]
            cases hdk : dec index with
            | skip =>
              rw [bind_ok2 (hp.skip s1 acc built index p hb' hdk hq1), bind_ok (pure_apply _ s1)]
              simp only []
              have key := ih ps' vs (index + 1) acc built s1 e1.regs dps1 (by simp only [nodesAll] at hf ⊢; omega) hb2 hq1
              obtain ⟨r, idx', acc', s', extra, new, hr, er, hx, hqq, hdd, hns⟩ := key
              rw [e1.vals] at er
              refine ⟨r, idx', acc', s', extra, new, hr, e1.trans er, by simp only [nodesAll]; omega, hqq, hdd, ?_⟩
              intro hno
              obtain ⟨h1', h2', h3'⟩ := hns hno
              exact ⟨h1', h2', by omega⟩
            | stop =>
              rw [bind_ok2 (hp.stop s1 acc built index p hb' hdk hq1), bind_ok (pure_apply _ s1)]
              simp only []
              exact ⟨some p, index + 1, acc, s1, ps', [], rfl, e1, by simp only [nodesAll]; omega, by simpa using hq1,
                .nil, fun hno => by cases hno⟩
            | add =>
              obtain ⟨acc1, s2, h2, e2, q2⟩ := hp.add s1 acc built index p hb' hdk hq1
              rw [e1.regs, e1.vals] at e2
              rw [bind_ok2 h2, bind_ok (pure_apply _ s2)]
              simp only []
              have key := ih ps' vs (index + 1) acc1 (built ++ [p]) s2 e2.regs (decodesList_keeps e2.keeps dps1)
                (by simp only [nodesAll] at hf ⊢; omega) hb2 q2
              obtain ⟨r, idx', acc', s', extra, new, hr, er, hx, hqq, hdd, hns⟩ := key
              rw [e2.vals] at er
              refine ⟨r, idx', acc', s', extra, p :: new, hr, (e1.trans e2).trans er, by simp only [nodesAll]; omega,
                by simpa using hqq, .cons ((e2.trans er).dec dp1) hdd, ?_⟩
              intro hno
              obtain ⟨h1', h2', h3'⟩ := hns hno
              exact ⟨h1', h2', by omega⟩

end Garnish.Lemmas.Runtime
