/-
Unfoldings of the data block: bisimulation principle, decodable addresses, stability of shapes, and what one
clone step of `clone_index_stack` produces for every kind of cell except lists.
-/
import Garnish.Lemmas.Optimize
namespace Garnish.BasicOpt
open Garnish

/-! ### unfoldings: bisimulation principle, decodable addresses, stability of shapes -/

/-- pairwise relation of two lists (core has no `Forall₂`) -/
inductive AllRel {α β} (R : α → β → Prop) : List α → List β → Prop where
  | nil : AllRel R [] []
  | cons {a b l l'} : R a b → AllRel R l l' → AllRel R (a :: l) (b :: l')

/-- Prop-level bisimulation principle: related addresses have equal shapes up to related children -/
theorem bisim_unfold (h h' : Array Cell) (R : Nat → Nat → Prop)
    (hR : ∀ a a', R a a' → ∃ s s', shape h a = some s ∧ shape h' a' = some s' ∧ s.label = s'.label ∧
      s.inl = s'.inl ∧ AllRel R s.kids s'.kids) :
    ∀ (fuel a a' : Nat), R a a' → unfold h fuel a = unfold h' fuel a' := by
  intro fuel
  induction fuel with
  | zero => intro a a' _; simp [unfold]
  | succ f ih =>
    intro a a' hr
    obtain ⟨s, s', hs, hs', hl, hi, hk⟩ := hR a a' hr
    have hkids : ∀ (l l' : List Nat), AllRel R l l' → allSome (unfold h f) l = allSome (unfold h' f) l' := by
      intro l l' hk
      induction hk with
      | nil => rfl
      | cons hab _ ih2 => simp [allSome, ih _ _ hab, ih2]
    have hkids := hkids _ _ hk
    simp [unfold, hs, hs', hkids, hl, hi]

/-- an address with an unfolding: the graph below it is acyclic and every node has a shape -/
def Dec (cells : Array Cell) (a : Nat) : Prop := ∃ fuel t, unfold cells fuel a = some t

theorem allSome_some_mem {α β} {f : α → Option β} : ∀ {l : List α} {r : List β}, allSome f l = some r →
    ∀ x ∈ l, ∃ y, f x = some y
  | [], _, _, x, hx => by simp at hx
  | a :: l, r, h, x, hx => by
    simp only [allSome] at h
    cases hfa : f a with
    | none => simp [hfa] at h
    | some y =>
      cases hl : allSome f l with
      | none => simp [hfa, hl] at h
      | some ys =>
        rcases List.mem_cons.mp hx with rfl | hm
        · exact ⟨y, hfa⟩
        · exact allSome_some_mem hl x hm

theorem Dec.shape {cells : Array Cell} {a : Nat} (h : Dec cells a) :
    ∃ sh, shape cells a = some sh ∧ ∀ k ∈ sh.kids, Dec cells k := by
  obtain ⟨fuel, t, ht⟩ := h
  cases fuel with
  | zero => simp [unfold] at ht
  | succ f =>
    simp only [unfold] at ht
    cases hs : BasicOpt.shape cells a with
    | none => simp [hs] at ht
    | some sh =>
      simp only [hs, Option.map_eq_some_iff] at ht
      obtain ⟨ts, hts, _⟩ := ht
      refine ⟨sh, rfl, ?_⟩
      intro k hk
      obtain ⟨y, hy⟩ := allSome_some_mem hts k hk
      exact ⟨f, y, hy⟩

/-- every cell of `cells` other than a `CloneItem` is still there in `cells'` -/
def AgreeNC (cells cells' : Array Cell) : Prop :=
  ∀ (i : Nat) (c : Cell), cells[i]? = some c → (∀ x, c ≠ .cloneItem x) → cells'[i]? = some c

theorem inlineCells_agree {cells cells' : Array Cell} (hag : AgreeNC cells cells') (p : Cell → Bool)
    (hp : ∀ x, p (.cloneItem x) = false) :
    ∀ (n a : Nat) (l : List Cell), inlineCells cells p a n = some l → inlineCells cells' p a n = some l
  | 0, a, l, h => by simpa [inlineCells] using h
  | n + 1, a, l, h => by
    simp only [inlineCells] at h ⊢
    cases hc : cells[a]? with
    | none => simp [hc] at h
    | some c =>
      rw [hc] at h
      simp only at h
      split at h
      · rename_i hpc
        have hne : ∀ x, c ≠ .cloneItem x := by
          intro x hx; rw [hx, hp x] at hpc; exact Bool.false_ne_true hpc
        rw [hag a c hc hne]
        simp only [hpc, if_true]
        simp only [Option.map_eq_some_iff] at h ⊢
        obtain ⟨t, ht, rfl⟩ := h
        exact ⟨t, inlineCells_agree hag p hp n (a + 1) t ht, rfl⟩
      · simp at h

theorem listItems_agree {cells cells' : Array Cell} (hag : AgreeNC cells cells') :
    ∀ (n a : Nat) (l : List Nat), listItems cells a n = some l → listItems cells' a n = some l
  | 0, a, l, h => by simpa [listItems] using h
  | n + 1, a, l, h => by
    simp only [listItems] at h ⊢
    cases hc : cells[a]? with
    | none => simp [hc] at h
    | some c =>
      rw [hc] at h
      cases c <;> simp only [] at h <;> try (simp at h; done)
      rw [hag a _ hc (by intro x hx; cases hx)]
      simp only [Option.map_eq_some_iff] at h ⊢
      obtain ⟨t, ht, rfl⟩ := h
      exact ⟨t, listItems_agree hag n (a + 1) t ht, rfl⟩

theorem assocItems_agree {cells cells' : Array Cell} (hag : AgreeNC cells cells') :
    ∀ (n a : Nat) (l : List Cell × List Nat), assocItems cells a n = some l → assocItems cells' a n = some l
  | 0, a, l, h => by simpa [assocItems] using h
  | n + 1, a, l, h => by
    simp only [assocItems] at h ⊢
    cases hc : cells[a]? with
    | none => simp [hc] at h
    | some c =>
      rw [hc] at h
      cases c <;> simp only [] at h <;> try (simp at h; done)
      rw [hag a _ hc (by intro x hx; cases hx)]
      simp only [Option.map_eq_some_iff] at h ⊢
      obtain ⟨t, ht, rfl⟩ := h
      exact ⟨t, assocItems_agree hag n (a + 1) t ht, rfl⟩

theorem framePoint_agree {cells cells' : Array Cell} (hag : AgreeNC cells cells') {a : Nat} {c : Cell}
    (h : framePoint cells a = some c) : framePoint cells' a = some c := by
  cases a with
  | zero => simp [framePoint] at h
  | succ a =>
    simp only [framePoint] at h ⊢
    cases hc : cells[a]? with
    | none => simp [hc] at h
    | some d =>
      rw [hc] at h
      cases d <;> simp only [] at h <;> try (simp at h; done)
      rw [hag a _ hc (by intro x hx; cases hx)]
      exact h

theorem shape_agree {cells cells' : Array Cell} (hag : AgreeNC cells cells') {a : Nat} {sh : Shape}
    (h : shape cells a = some sh) : shape cells' a = some sh := by
  unfold shape at h ⊢
  cases hc : cells[a]? with
  | none => simp [hc] at h
  | some c =>
    rw [hc] at h
    cases c <;> simp only [] at h <;> try (simp at h; done)
    all_goals rw [hag a _ hc (by intro x hx; cases hx)]
    all_goals simp only []
    all_goals first
      | exact h
      | (simp only [Option.map_eq_some_iff] at h ⊢
         obtain ⟨t, ht, rfl⟩ := h
         first
           | exact ⟨t, inlineCells_agree hag _ (by intro x; rfl) _ _ _ ht, rfl⟩
           | exact ⟨t, framePoint_agree hag ht, rfl⟩)
      | (split at h
         · rename_i items keys targets h1 h2
           rw [listItems_agree hag _ _ _ h1, assocItems_agree hag _ _ _ h2]
           exact h
         · simp at h)

theorem AgreeNC.refl (cells : Array Cell) : AgreeNC cells cells := fun _ _ h _ => h

/-- a decodable address unfolds to the same tree in any heap that keeps all non-`CloneItem` cells -/
theorem unfold_agree {cells cells' : Array Cell} (hag : AgreeNC cells cells') {a : Nat} (hd : Dec cells a) :
    ∀ fuel, unfold cells fuel a = unfold cells' fuel a := by
  intro fuel
  refine bisim_unfold cells cells' (fun x x' => x' = x ∧ Dec cells x) ?_ fuel a a ⟨rfl, hd⟩
  intro x x' ⟨hx, hdx⟩
  subst hx
  obtain ⟨sh, hsh, hk⟩ := hdx.shape
  refine ⟨sh, sh, hsh, shape_agree hag hsh, rfl, rfl, ?_⟩
  have : ∀ l : List Nat, (∀ k ∈ l, Dec cells k) → AllRel (fun x x' => x' = x ∧ Dec cells x) l l := by
    intro l
    induction l with
    | nil => intro _; exact AllRel.nil
    | cons k l ih => intro hl; exact AllRel.cons ⟨rfl, hl k (by simp)⟩ (ih (fun k' hk' => hl k' (by simp [hk'])))
  exact this _ hk


/-! ### what one clone step produces, arm by arm -/

/-- the shape of a cell that is read without its neighbours -/
def soloShape : Cell → Option Shape
  | .pair l r => some ⟨.pair 0 0, [], [l, r]⟩
  | .range l r => some ⟨.range 0 0, [], [l, r]⟩
  | .slice l r => some ⟨.slice 0 0, [], [l, r]⟩
  | .partial_ l r => some ⟨.partial_ 0 0, [], [l, r]⟩
  | .concatenation l r => some ⟨.concatenation 0 0, [], [l, r]⟩
  | .value p v => some ⟨.value 0 0, [], [p, v]⟩
  | .valueRoot v => some ⟨.valueRoot 0, [], [v]⟩
  | .register p v => some ⟨.register 0 0, [], [p, v]⟩
  | .registerRoot v => some ⟨.registerRoot 0, [], [v]⟩
  | .instructionWithData code d => some ⟨.instructionWithData code 0, [], [d]⟩
  | .unit => some ⟨.unit, [], []⟩ | .tru => some ⟨.tru, [], []⟩ | .fls => some ⟨.fls, [], []⟩
  | .type t => some ⟨.type t, [], []⟩ | .number n => some ⟨.number n, [], []⟩
  | .char n => some ⟨.char n, [], []⟩ | .byte n => some ⟨.byte n, [], []⟩ | .symbol n => some ⟨.symbol n, [], []⟩
  | .expression n => some ⟨.expression n, [], []⟩ | .external n => some ⟨.external n, [], []⟩
  | .custom => some ⟨.custom, [], []⟩ | .empty => some ⟨.empty, [], []⟩
  | .jumpPoint n => some ⟨.jumpPoint n, [], []⟩ | .instruction n => some ⟨.instruction n, [], []⟩
  | _ => none

theorem shape_of_solo {cells : Array Cell} {a : Nat} {c : Cell} {sh : Shape}
    (hc : cells[a]? = some c) (hs : soloShape c = some sh) : shape cells a = some sh := by
  unfold shape
  rw [hc]
  cases c <;> simp only [soloShape] at hs ⊢ <;> first | exact hs | (simp at hs)

theorem solo_of_shape {cells : Array Cell} {a : Nat} {c : Cell} {sh sh' : Shape}
    (hc : cells[a]? = some c) (hs : soloShape c = some sh') (h : shape cells a = some sh) : sh = sh' := by
  rw [shape_of_solo hc hs] at h
  exact (Option.some.inj h).symm

theorem pushLast_one {s s' : Store} {c : Cell} {r : Nat} (h : Store.pushLast s [c] 0 = .ok (s', r)) :
    r = s.cells.size ∧ s'.cells = s.cells.push c := by
  simp only [Store.pushLast, bind_eq_ok] at h
  obtain ⟨⟨s1, i1⟩, h1, h2⟩ := h
  simp only [Outcome.ok.injEq, Prod.mk.injEq] at h2
  obtain ⟨h3, h4⟩ := h2
  subst h3
  obtain ⟨hi, hc, _⟩ := push_ok h1
  exact ⟨by rw [← h4, hi], hc⟩

theorem pushLast_two {s s' : Store} {c d : Cell} {r : Nat} (h : Store.pushLast s [c, d] 0 = .ok (s', r)) :
    r = s.cells.size + 1 ∧ s'.cells = (s.cells.push c).push d := by
  simp only [Store.pushLast, bind_eq_ok] at h
  obtain ⟨⟨s1, i1⟩, h1, ⟨s2, i2⟩, h2, h3⟩ := h
  simp only [Outcome.ok.injEq, Prod.mk.injEq] at h3
  obtain ⟨h3, h4⟩ := h3
  subst h3
  obtain ⟨_, hc1, _⟩ := push_ok h1
  obtain ⟨hi2, hc2, _⟩ := push_ok h2
  refine ⟨by rw [← h4, hi2, hc1]; simp, by rw [hc2, hc1]⟩

theorem shape_push_solo (A : Array Cell) (c : Cell) (sh : Shape) (hs : soloShape c = some sh) :
    shape (A.push c) A.size = some sh := shape_of_solo (by simp) hs

/-- cloning a cell that is read without its neighbours: the copy has the same label and its links are the
looked-up links of the original -/
theorem cloneCell_shape_solo {cur cur2 : Store} {ls le index ni : Nat} {c : Cell} {sh : Shape}
    (hs : soloShape c = some sh) (hclone : Store.cloneCell cur ls le index c = .ok (cur2, ni)) :
    ∃ sh', shape cur2.cells ni = some sh' ∧ sh'.label = sh.label ∧ sh'.inl = sh.inl ∧
      AllRel (fun x x' => Store.lookup cur ls le x = .ok x') sh.kids sh'.kids := by
  cases c <;> simp only [soloShape, Option.some.injEq] at hs <;> try (simp at hs; done)
  all_goals subst hs
  all_goals simp only [Store.cloneCell, Store.relink, bind_eq_ok, pure_eq_ok] at hclone
  all_goals first
    | (obtain ⟨hi, hc, _⟩ := push_ok hclone
       rw [hi, hc]
       exact ⟨_, shape_push_solo _ _ _ rfl, rfl, rfl, AllRel.nil⟩)
    | (obtain ⟨cells, ⟨l', hl, r', hr, hcs⟩, hp⟩ := hclone
       subst hcs
       obtain ⟨hi, hc⟩ := pushLast_one hp
       rw [hi, hc]
       exact ⟨_, shape_push_solo _ _ _ rfl, rfl, rfl, AllRel.cons hl (AllRel.cons hr AllRel.nil)⟩)
    | (obtain ⟨cells, ⟨l', hl, hcs⟩, hp⟩ := hclone
       subst hcs
       obtain ⟨hi, hc⟩ := pushLast_one hp
       rw [hi, hc]
       exact ⟨_, shape_push_solo _ _ _ rfl, rfl, rfl, AllRel.cons hl AllRel.nil⟩)

theorem jumpBefore_ok {s : Store} {index p : Nat} (h : Store.jumpBefore s index = .ok p) :
    ∃ i, index = i + 1 ∧ s.cells[i]? = some (.jumpPoint p) := by
  cases index with
  | zero => simp [Store.jumpBefore] at h
  | succ i =>
    simp only [Store.jumpBefore, bind_eq_ok] at h
    obtain ⟨c, hg, h2⟩ := h
    have hc := get_ok hg
    cases c <;> simp only [pure_eq_ok] at h2 <;> try (simp at h2; done)
    subst h2
    exact ⟨i, rfl, hc⟩

theorem framePoint_push2 (A : Array Cell) (p : Nat) (c : Cell) :
    framePoint ((A.push (.jumpPoint p)).push c) (A.size + 1) = some (.jumpPoint p) := by
  have : ((A.push (Cell.jumpPoint p)).push c)[A.size]? = some (Cell.jumpPoint p) := by
    rw [Array.getElem?_push]; simp
  simp [framePoint, this]

theorem get_push2 (A : Array Cell) (x c : Cell) : ((A.push x).push c)[A.size + 1]? = some c := by
  have : A.size + 1 = (A.push x).size := by simp
  rw [this, Array.getElem?_push]; simp

theorem framePoint_transfer {s0 : Array Cell} {cur : Store} {i point : Nat} {jp : Cell}
    (hA : ∀ (i : Nat) (c : Cell), s0[i]? = some c → cur.cells[i]? = some c)
    (hjp : framePoint s0 (i + 1) = some jp) (hcell : cur.cells[i]? = some (.jumpPoint point)) :
    jp = .jumpPoint point := by
  simp only [framePoint] at hjp
  cases hs0 : s0[i]? with
  | none => simp [hs0] at hjp
  | some d =>
    have := hA i d hs0
    rw [hcell] at this
    simp only [Option.some.injEq] at this
    subst this
    simpa [hs0] using hjp.symm

/-- cloning a frame cell: the return point stored before it is copied with it -/
theorem cloneCell_shape_frame {s0 : Array Cell} {cur cur2 : Store} {ls le index ni : Nat} {c : Cell} {sh : Shape}
    (hA : ∀ (i : Nat) (c : Cell), s0[i]? = some c → cur.cells[i]? = some c)
    (hc : s0[index]? = some c) (hsh : shape s0 index = some sh)
    (hfr : (∃ p r, c = .frame p r) ∨ (∃ p, c = .frameIndex p) ∨ (∃ r, c = .frameRegister r) ∨ c = .frameRoot)
    (hclone : Store.cloneCell cur ls le index c = .ok (cur2, ni)) :
    ∃ sh', shape cur2.cells ni = some sh' ∧ sh'.label = sh.label ∧ sh'.inl = sh.inl ∧
      AllRel (fun x x' => Store.lookup cur ls le x = .ok x') sh.kids sh'.kids := by
  unfold shape at hsh
  rw [hc] at hsh
  rcases hfr with ⟨p, r, rfl⟩ | ⟨p, rfl⟩ | ⟨r, rfl⟩ | rfl
  all_goals simp only [Option.map_eq_some_iff] at hsh
  all_goals obtain ⟨jp, hjp, rfl⟩ := hsh
  all_goals simp only [Store.cloneCell, Store.relink, bind_eq_ok, pure_eq_ok] at hclone
  · obtain ⟨cells, ⟨point, hpt, p', hp', r', hr', hcs⟩, hpl⟩ := hclone
    subst hcs
    obtain ⟨hi, hcells⟩ := pushLast_two hpl
    obtain ⟨i, hidx, hcell⟩ := jumpBefore_ok hpt
    subst hidx
    have hjp' := framePoint_transfer hA hjp hcell
    subst hjp'
    rw [hi, hcells]
    refine ⟨⟨.frame 0 0, [.jumpPoint point], [p', r']⟩, ?_, rfl, rfl, AllRel.cons hp' (AllRel.cons hr' AllRel.nil)⟩
    unfold shape
    rw [get_push2]
    simp [framePoint_push2]
  · obtain ⟨cells, ⟨point, hpt, p', hp', hcs⟩, hpl⟩ := hclone
    subst hcs
    obtain ⟨hi, hcells⟩ := pushLast_two hpl
    obtain ⟨i, hidx, hcell⟩ := jumpBefore_ok hpt
    subst hidx
    have hjp' := framePoint_transfer hA hjp hcell
    subst hjp'
    rw [hi, hcells]
    refine ⟨⟨.frameIndex 0, [.jumpPoint point], [p']⟩, ?_, rfl, rfl, AllRel.cons hp' AllRel.nil⟩
    unfold shape
    rw [get_push2]
    simp [framePoint_push2]
  · obtain ⟨cells, ⟨point, hpt, p', hp', hcs⟩, hpl⟩ := hclone
    subst hcs
    obtain ⟨hi, hcells⟩ := pushLast_two hpl
    obtain ⟨i, hidx, hcell⟩ := jumpBefore_ok hpt
    subst hidx
    have hjp' := framePoint_transfer hA hjp hcell
    subst hjp'
    rw [hi, hcells]
    refine ⟨⟨.frameRegister 0, [.jumpPoint point], [p']⟩, ?_, rfl, rfl, AllRel.cons hp' AllRel.nil⟩
    unfold shape
    rw [get_push2]
    simp [framePoint_push2]
  · obtain ⟨cells, ⟨point, hpt, hcs⟩, hpl⟩ := hclone
    subst hcs
    obtain ⟨hi, hcells⟩ := pushLast_two hpl
    obtain ⟨i, hidx, hcell⟩ := jumpBefore_ok hpt
    subst hidx
    have hjp' := framePoint_transfer hA hjp hcell
    subst hjp'
    rw [hi, hcells]
    refine ⟨⟨.frameRoot, [.jumpPoint point], []⟩, ?_, rfl, rfl, AllRel.nil⟩
    unfold shape
    rw [get_push2]
    simp [framePoint_push2]


theorem inlineCells_props {cells : Array Cell} {p : Cell → Bool} :
    ∀ (n a : Nat) (l : List Cell), inlineCells cells p a n = some l → l.length = n ∧ ∀ c ∈ l, p c = true
  | 0, a, l, h => by
    simp only [inlineCells, Option.some.injEq] at h
    subst h; simp
  | n + 1, a, l, h => by
    simp only [inlineCells] at h
    cases hc : cells[a]? with
    | none => simp [hc] at h
    | some c =>
      rw [hc] at h
      simp only at h
      split at h
      · rename_i hpc
        simp only [Option.map_eq_some_iff] at h
        obtain ⟨t, ht, rfl⟩ := h
        obtain ⟨h1, h2⟩ := inlineCells_props n (a + 1) t ht
        refine ⟨by simp [h1], ?_⟩
        intro c' hc'
        rcases List.mem_cons.mp hc' with rfl | hm
        · exact hpc
        · exact h2 c' hm
      · simp at h

/-- reading back what was appended -/
theorem inlineCells_suffix {p : Cell → Bool} : ∀ (l pre post : List Cell) (cells : Array Cell),
    (∀ c ∈ l, p c = true) → cells.toList = pre ++ l ++ post → inlineCells cells p pre.length l.length = some l
  | [], pre, post, cells, _, _ => by simp [inlineCells]
  | c :: l, pre, post, cells, hp, hcells => by
    simp only [List.length_cons, inlineCells]
    have hget : cells[pre.length]? = some c := by
      rw [← Array.getElem?_toList, hcells]
      simp
    rw [hget]
    simp only [hp c (by simp), if_true]
    have := inlineCells_suffix l (pre ++ [c]) post cells (fun c' hc' => hp c' (by simp [hc'])) (by simp [hcells])
    simp only [List.length_append, List.length_singleton] at this
    rw [this]; rfl

theorem copyCells_spec {p : Cell → Bool} (hp : ∀ x, p (.cloneItem x) = false) :
    ∀ (n : Nat) (s s' : Store) (i : Nat) (l : List Cell), inlineCells s.cells p i n = some l →
      Store.copyCells s i n = .ok s' → s'.cells.toList = s.cells.toList ++ l
  | 0, s, s', i, l, hl, h => by
    simp only [inlineCells, Option.some.injEq] at hl
    simp only [Store.copyCells, Outcome.ok.injEq] at h
    subst hl; subst h; simp
  | n + 1, s, s', i, l, hl, h => by
    simp only [Store.copyCells, bind_eq_ok] at h
    obtain ⟨c, hg, ⟨s1, i1⟩, hpush, hrest⟩ := h
    have hc := get_ok hg
    simp only [inlineCells, hc] at hl
    split at hl
    · simp only [Option.map_eq_some_iff] at hl
      obtain ⟨t, ht, rfl⟩ := hl
      obtain ⟨_, hcells, _⟩ := push_ok hpush
      have hag : AgreeNC s.cells s1.cells := by
        intro j d hj _
        rw [hcells, Array.getElem?_push]
        have : j < s.cells.size := by
          rcases Nat.lt_or_ge j s.cells.size with h | h
          · exact h
          · rw [Array.getElem?_eq_none h] at hj; cases hj
        simp [Nat.ne_of_lt this, hj]
      have ht' := inlineCells_agree hag p hp n (i + 1) t ht
      have := copyCells_spec hp n s1 s' (i + 1) t ht' hrest
      rw [this, hcells]; simp
    · simp at hl


theorem agreeNC_of_all {s0 cells : Array Cell}
    (hA : ∀ (i : Nat) (c : Cell), s0[i]? = some c → cells[i]? = some c) : AgreeNC s0 cells :=
  fun i c h _ => hA i c h

theorem inline_core {p : Cell → Bool} (hp : ∀ x, p (.cloneItem x) = false) {s0 : Array Cell} {cur s1 s2 : Store}
    {index li n : Nat} {hdr : Cell} {inl : List Cell}
    (hA : ∀ (i : Nat) (c : Cell), s0[i]? = some c → cur.cells[i]? = some c)
    (hinl : inlineCells s0 p (index + 1) n = some inl)
    (hpush : cur.push hdr = .ok (s1, li)) (hcopy : Store.copyCells s1 (index + 1) n = .ok s2) :
    li = cur.cells.size ∧ s2.cells[li]? = some hdr ∧ inlineCells s2.cells p (li + 1) n = some inl := by
  obtain ⟨hi, hcells, _⟩ := push_ok hpush
  have hag1 : AgreeNC s0 s1.cells := by
    intro j d hj _
    have := hA j d hj
    rw [hcells, Array.getElem?_push]
    have hlt : j < cur.cells.size := by
      rcases Nat.lt_or_ge j cur.cells.size with h | h
      · exact h
      · rw [Array.getElem?_eq_none h] at this; cases this
    simp [Nat.ne_of_lt hlt, this]
  have hinl1 := inlineCells_agree hag1 p hp _ _ _ hinl
  have hlist := copyCells_spec hp _ _ _ _ _ hinl1 hcopy
  obtain ⟨hlen, hall⟩ := inlineCells_props _ _ _ hinl
  have hl2 : s2.cells.toList = (cur.cells.toList ++ [hdr]) ++ inl ++ [] := by
    rw [hlist, hcells]; simp
  have hread := inlineCells_suffix inl _ [] s2.cells hall hl2
  have hhdr : s2.cells[li]? = some hdr := by
    rw [← Array.getElem?_toList, hl2, hi]; simp
  simp only [List.length_append, List.length_singleton, Array.length_toList, hlen] at hread
  rw [← hi] at hread
  exact ⟨hi, hhdr, hread⟩

/-- cloning text, bytes or a symbol list: the inline cells are copied behind the header -/
theorem cloneCell_shape_inline {s0 : Array Cell} {cur cur2 : Store} {ls le index ni : Nat} {c : Cell} {sh : Shape}
    (hA : ∀ (i : Nat) (c : Cell), s0[i]? = some c → cur.cells[i]? = some c)
    (hc : s0[index]? = some c) (hsh : shape s0 index = some sh)
    (hin : (∃ n, c = .charList n) ∨ (∃ n, c = .byteList n) ∨ (∃ n, c = .symbolList n))
    (hclone : Store.cloneCell cur ls le index c = .ok (cur2, ni)) :
    ∃ sh', shape cur2.cells ni = some sh' ∧ sh'.label = sh.label ∧ sh'.inl = sh.inl ∧
      AllRel (fun x x' => Store.lookup cur ls le x = .ok x') sh.kids sh'.kids := by
  unfold shape at hsh
  rw [hc] at hsh
  rcases hin with ⟨n, rfl⟩ | ⟨n, rfl⟩ | ⟨n, rfl⟩
  all_goals simp only [Option.map_eq_some_iff] at hsh
  all_goals obtain ⟨inl, hinl, rfl⟩ := hsh
  all_goals simp only [Store.cloneCell, bind_eq_ok, pure_eq_ok, Prod.mk.injEq] at hclone
  all_goals obtain ⟨⟨s1, li⟩, hpush, s2, hcopy, hs2, hli⟩ := hclone
  all_goals subst hs2
  all_goals subst hli
  all_goals obtain ⟨_, hhdr, hread⟩ := inline_core (by intro x; rfl) hA hinl hpush hcopy
  all_goals refine ⟨⟨_, inl, []⟩, ?_, rfl, rfl, AllRel.nil⟩
  all_goals unfold shape
  all_goals rw [hhdr]
  all_goals simp only [hread, Option.map_some]

theorem shape_cell {cells : Array Cell} {a : Nat} {sh : Shape} (h : shape cells a = some sh) :
    ∃ c, cells[a]? = some c := by
  unfold shape at h
  cases hc : cells[a]? with
  | none => simp [hc] at h
  | some c => exact ⟨c, rfl⟩

theorem shape_bound {cells : Array Cell} {a : Nat} {sh : Shape} (h : shape cells a = some sh) : a < cells.size := by
  obtain ⟨c, hc⟩ := shape_cell h
  rcases Nat.lt_or_ge a cells.size with h | h
  · exact h
  · rw [Array.getElem?_eq_none h] at hc; cases hc

/-- only a `List` cell has a `List` label -/
theorem label_list {cells : Array Cell} {a n k : Nat} {sh : Shape} (h : shape cells a = some sh)
    (hl : sh.label = .list n k) : cells[a]? = some (.list n k) := by
  unfold shape at h
  cases hc : cells[a]? with
  | none => simp [hc] at h
  | some c =>
    rw [hc] at h
    cases c <;> simp only [] at h <;> try (simp at h; done)
    all_goals first
      | (simp only [Option.some.injEq] at h; subst h; simp only [] at hl; first | (cases hl; done) | (rw [hl]))
      | (simp only [Option.map_eq_some_iff] at h; obtain ⟨t, _, rfl⟩ := h; simp only [] at hl
         first | (cases hl; done) | (rw [hl]))
      | (split at h
         · simp only [Option.some.injEq] at h; subst h; simp only [] at hl; rw [hl]
         · simp at h)

theorem AllRel.right_mem {α β} {R : α → β → Prop} : ∀ {l : List α} {l' : List β}, AllRel R l l' →
    ∀ b ∈ l', ∃ a ∈ l, R a b
  | _, _, .nil, b, hb => by simp at hb
  | _, _, .cons hab t, b, hb => by
    rcases List.mem_cons.mp hb with rfl | hb
    · exact ⟨_, by simp, hab⟩
    · obtain ⟨a, ha, hr⟩ := AllRel.right_mem t b hb
      exact ⟨a, by simp [ha], hr⟩

end Garnish.BasicOpt
