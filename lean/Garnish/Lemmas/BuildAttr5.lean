/-
C04, builder half — part 5: the loops and `build`.
-/
import Garnish.Lemmas.BuildAttr4
namespace Garnish.Lemmas.BuildAttr
open Garnish Garnish.Gen Garnish.Model.Parser Garnish.Model.Literals Garnish.Model.Build Garnish.Lemmas.Build
open Garnish.Lemmas.BuildTotal (assign assign_get assign_size getElem?_putNode size_putNode toList_of_back)

variable {F : Type} {tree : Array ParseNode} {m0 : Nat}

/-- rewriting a build node without touching its index and its conditional parent -/
theorem ainv_putNode_same {skip : Option Nat} {ctx ctx' : Ctx F} (h : AInv tree m0 skip ctx) {i : Nat} {bn bn' : BuildNode}
    (hb : ctx.nodes[i]? = some (some bn)) (hp : bn'.parseNodeIndex = bn.parseNodeIndex)
    (hc : bn'.conditionalParent = bn.conditionalParent)
    (hD : ctx'.data = ctx.data) (hS : ctx'.stack = ctx.stack) (hR : ctx'.rootStack = ctx.rootStack)
    (hN : ctx'.nodes = putNode ctx.nodes i bn') : AInv tree m0 skip ctx' := by
  have hget : ∀ (x : Nat) (b : BuildNode), ctx'.nodes[x]? = some (some b) →
      ∃ b0, ctx.nodes[x]? = some (some b0) ∧ b.parseNodeIndex = b0.parseNodeIndex ∧ b.conditionalParent = b0.conditionalParent := by
    intro x b hx
    rw [hN, getElem?_putNode] at hx
    rcases Classical.em (i = x) with hix | hix
    · rw [if_pos hix] at hx
      subst hix
      split at hx
      · cases hx; exact ⟨bn, hb, hp, hc⟩
      · cases hx
    · rw [if_neg hix] at hx
      exact ⟨b, hx, rfl, rfl⟩
  have hsome : ∀ (x : Nat) (b0 : BuildNode), ctx.nodes[x]? = some (some b0) → ∃ b, ctx'.nodes[x]? = some (some b) := by
    intro x b0 hx
    have := BuildAttr.assign_some [(i, bn')] ctx.nodes x b0 hx
    rw [hN]; exact this
  refine ⟨by rw [hN, size_putNode]; exact h.size, by rw [hD]; exact h.msize, ?_, ?_, ?_⟩
  · intro x b hx
    obtain ⟨b0, hb0, e1, _⟩ := hget x b hx
    rw [e1]; exact h.pni x b0 hb0
  · intro x b cp hx hcp
    obtain ⟨b0, hb0, _, e2⟩ := hget x b hx
    obtain ⟨b1, hb1⟩ := h.cpOk x b0 cp hb0 (by rw [← e2]; exact hcp)
    exact hsome cp b1 hb1
  · intro x b hx hsk
    obtain ⟨b0, hb0, _, _⟩ := hget x b hx
    rw [hD, hS, hR]; exact h.done x b0 hb0 hsk

theorem afterHandle_attr {ctx : Ctx F} (h : AInv tree m0 none ctx) (ni : Nat) :
    Sat (fun nodes => AInv tree m0 none ({ ctx with nodes := nodes } : Ctx F)) (afterHandle ctx.nodes ni) := by
  unfold afterHandle
  split
  · rename_i node hnode
    split
    · split
      · have h1 : AInv tree m0 none ({ ctx with nodes := putNode ctx.nodes ni { node with contributesToList := false } } : Ctx F) :=
          ainv_putNode_same (bn' := { node with contributesToList := false }) h hnode rfl rfl rfl rfl rfl rfl
        refine sat_bind (getNode_sat_eq _ _) (fun parentNode hp => ?_)
        exact ainv_putNode_same (bn' := { parentNode with childCount := parentNode.childCount + 1 }) h1 hp rfl rfl rfl rfl rfl rfl
      · exact h
    · exact h
  · exact h

variable (parseFloat : List Char → Option F)

theorem innerLoop_attr (crj : Nat) : ∀ (fuel : Nat) (ctx : Ctx F), AInv tree m0 none ctx →
    Sat (fun r => AInv tree m0 none r.1 ∧ r.1.stack.toList = []) (innerLoop parseFloat tree crj fuel ctx) := by
  intro fuel
  induction fuel with
  | zero => intro ctx _; exact sat_fuelOut
  | succ k ih =>
    intro ctx h
    unfold innerLoop
    split
    · rename_i hnone
      refine ⟨h, ?_⟩
      have hsz : ctx.stack.size = 0 := by
        rcases Nat.eq_zero_or_pos ctx.stack.size with h0 | h0
        · exact h0
        · have : ctx.stack.back? = some ctx.stack[ctx.stack.size - 1] := by
            simp [Array.back?, Array.getElem?_eq_getElem (show ctx.stack.size - 1 < ctx.stack.size by omega)]
          rw [this] at hnone; cases hnone
      apply List.eq_nil_of_length_eq_zero; simpa using hsz
    · rename_i ni hback
      split
      · exact sat_buildErr
      · rename_i pn hpn
        have hl := toList_of_back hback
        have hpop : AInv tree m0 (some ni) ({ ctx with stack := ctx.stack.pop } : Ctx F) := by
          refine ⟨h.size, h.msize, h.pni, h.cpOk, fun x bn hx hsk => ?_⟩
          rcases h.done x bn hx (by intro he; cases he) with h1 | h1 | h1
          · rw [hl] at h1
            rcases List.mem_append.1 h1 with h2 | h2
            · exact Or.inl h2
            · simp only [List.mem_singleton] at h2
              subst h2; exact absurd rfl hsk
          · exact Or.inr (Or.inl h1)
          · exact Or.inr (Or.inr h1)
        refine sat_bind (handleParseNode_attr parseFloat hpop hpn crj) (fun ctx1 h1 => ?_)
        refine sat_bind (afterHandle_attr h1 ni) (fun nodes hnodes => ?_)
        exact ih _ hnodes

theorem rootJump_meta (data : BState F) (nodes : Nodes) (rootIndex : Nat) :
    Sat (fun r => r.1.metadata = data.metadata) (rootJump data nodes rootIndex) := by
  unfold rootJump
  dsimp only
  split
  · split
    · split
      · rename_i d' hset
        unfold setJump? at hset
        split at hset
        · cases hset; rfl
        · cases hset
      · exact sat_buildErr
    · rfl
  · rfl

/-- changing `data` so that the metadata only grows -/
theorem ainv_data {ctx ctx' : Ctx F} (h : AInv tree m0 none ctx) (l : List (Option Nat))
    (hM : ctx'.data.metadata.toList = ctx.data.metadata.toList ++ l) (hN : ctx'.nodes = ctx.nodes)
    (hS : ctx'.stack = ctx.stack) (hR : ctx'.rootStack = ctx.rootStack) : AInv tree m0 none ctx' := by
  refine ⟨hN ▸ h.size, ?_, hN ▸ h.pni, hN ▸ h.cpOk, fun x bn hx hsk => ?_⟩
  · have := congrArg List.length hM
    simp only [Array.length_toList, List.length_append] at this
    have := h.msize
    omega
  · rw [hN] at hx
    rcases h.done x bn hx hsk with h1 | h1 | h1
    · exact Or.inl (hS ▸ h1)
    · exact Or.inr (Or.inl (hR ▸ h1))
    · exact Or.inr (Or.inr (emitted_mono hM h1))

theorem rootLoop_attr : ∀ (rootFuel stepFuel : Nat) (ctx : Ctx F), AInv tree m0 none ctx → ctx.stack.toList = [] →
    Sat (fun c => AInv tree m0 none c ∧ c.stack.toList = [] ∧ c.rootStack.back? = none)
      (Garnish.Model.Build.rootLoop parseFloat tree rootFuel stepFuel ctx) := by
  intro rootFuel
  induction rootFuel with
  | zero => intro _ ctx _ _; exact sat_fuelOut
  | succ k ih =>
    intro stepFuel ctx h hs
    unfold Garnish.Model.Build.rootLoop
    split
    · rename_i hnone; exact ⟨h, hs, hnone⟩
    · rename_i r hback
      dsimp only
      refine sat_bind (rootJump_meta _ _ _) (fun res hres => ?_)
      obtain ⟨data, crj⟩ := res
      dsimp only at hres ⊢
      have hl := toList_of_back hback
      have h1 : AInv tree m0 none (⟨data, ctx.nodes, ctx.rootStack.pop, #[r]⟩ : Ctx F) := by
        refine ⟨h.size, by show m0 ≤ data.metadata.size; rw [hres]; exact h.msize, h.pni, h.cpOk, fun x bn hx hsk => ?_⟩
        rcases h.done x bn hx hsk with h2 | h2 | h2
        · rw [hs] at h2; cases h2
        · rw [hl] at h2
          rcases List.mem_append.1 h2 with h3 | h3
          · exact Or.inr (Or.inl h3)
          · simp only [List.mem_singleton] at h3
            subst h3; exact Or.inl (by simp)
        · exact Or.inr (Or.inr (by show Emitted tree m0 data.metadata x; rw [hres]; exact h2))
      refine sat_bind (innerLoop_attr parseFloat crj stepFuel _ h1) (fun res2 h2 => ?_)
      obtain ⟨ctx2, fuel2⟩ := res2
      obtain ⟨hinv2, hs2⟩ := h2
      dsimp only at hinv2 hs2 ⊢
      -- the terminators only append metadata
      have key : ∀ (last : Option Instr) (rs : Nat) (endL : List Instr),
          ∃ l, (pushEndInstructions last rs ctx2.data endL).metadata.toList = ctx2.data.metadata.toList ++ l := by
        intro last rs endL
        exact (pushEndInstructions_ext (d0 := ctx2.data) last rs endL ctx2.data (Ext.refl _)).metadata
      obtain ⟨l, hl'⟩ := key
        (if (ctx2.data.instrs.size == 0) = true then none else ctx2.data.instrs[ctx2.data.instrs.size - 1]?)
        (getInstructionLen data)
        (match ctx2.nodes[r]? with
          | some (some node) =>
            match node.rootEndInstruction with
            | some endInstruction => endInstruction
            | none => [(Instruction.endExpression, none)]
          | _ => [(Instruction.endExpression, none)])
      exact ih fuel2 _ (ainv_data hinv2 l hl' rfl rfl rfl) hs2


/-- what the final `allScheduled` check says about one index -/
theorem allScheduled_get {nodes : Nodes} (hsz : nodes.size = tree.size) (h : allScheduled nodes tree = true) {x : Nat} {pn : ParseNode}
    (hx : tree[x]? = some pn) (hd : pn.definition ≠ .subexpression) : ∃ bn, nodes[x]? = some (some bn) := by
  have hxlt : x < tree.size := by
    rcases Nat.lt_or_ge x tree.size with h1 | h1
    · exact h1
    · rw [Array.getElem?_eq_none h1] at hx; cases hx
  unfold allScheduled at h
  rw [List.all_eq_true] at h
  have hn : nodes.toList[x]? = some nodes[x] := by simp [hsz, hxlt]
  have hmem : (nodes[x], pn) ∈ nodes.toList.zip tree.toList := by
    rw [List.mem_iff_getElem?]
    exact ⟨x, List.getElem?_zip_eq_some.2 ⟨hn, by simpa using hx⟩⟩
  have := h _ hmem
  cases ho : nodes[x]'(by omega) with
  | none =>
    rw [ho] at this
    simp at this
    exact absurd this hd
  | some bn => exact ⟨bn, by simp [hsz, hxlt, ho]⟩

/-- nodes that must be attributed after a successful build: everything except the forwarding definitions and
`Subexpression` (which the validation allows to stay outside the tree) -/
def attributable (d : Definition) : Bool := emits d && d != .subexpression

theorem buildCore_attr (fuel root : Nat) (data : BState F) :
    Sat (fun r => ∀ (x : Nat) (pn : ParseNode), tree[x]? = some pn → attributable pn.definition = true →
      ∃ k, data.metadata.size ≤ k ∧ r.1.metadata[k]? = some (some x)) (buildCore parseFloat fuel root tree data) := by
  unfold buildCore
  dsimp only
  refine sat_bind (setNodeIdx_sat_eq _ _ _ _) (fun N hN => ?_)
  subst hN
  have hget : ∀ (x : Nat) (bn : BuildNode),
      (putNode (Array.replicate tree.size none) root (BuildNode.new root (getJumpTableLen data)))[x]? = some (some bn) →
      x = root ∧ bn = BuildNode.new root (getJumpTableLen data) := by
    intro x bn hx
    rw [getElem?_putNode] at hx
    rcases Classical.em (root = x) with hrx | hrx
    · rw [if_pos hrx] at hx
      split at hx
      · cases hx; exact ⟨hrx.symm, rfl⟩
      · cases hx
    · rw [if_neg hrx] at hx
      simp [Array.getElem?_replicate] at hx
  have hinv : AInv tree data.metadata.size none
      (⟨data, putNode (Array.replicate tree.size none) root (BuildNode.new root (getJumpTableLen data)), #[root], #[]⟩ : Ctx F) := by
    refine ⟨by simp [size_putNode], Nat.le_refl _, ?_, ?_, ?_⟩
    · intro x bn hx
      obtain ⟨h1, h2⟩ := hget x bn hx
      subst h2; subst h1; rfl
    · intro x bn cp hx hcp
      obtain ⟨_, h2⟩ := hget x bn hx
      subst h2
      simp [BuildNode.new] at hcp
    · intro x bn hx _
      obtain ⟨h1, _⟩ := hget x bn hx
      subst h1
      exact Or.inr (Or.inl (by simp))
  refine sat_bind (rootLoop_attr parseFloat fuel fuel _ hinv rfl) (fun ctx hctx => ?_)
  obtain ⟨hA, hs, hnone⟩ := hctx
  split
  · rename_i hall
    intro x pn hx hattr
    simp only [attributable, Bool.and_eq_true, bne_iff_ne, ne_eq] at hattr
    obtain ⟨bn, hbn⟩ := allScheduled_get hA.size hall hx hattr.2
    have hrs : ctx.rootStack.toList = [] := by
      have hsz : ctx.rootStack.size = 0 := by
        rcases Nat.eq_zero_or_pos ctx.rootStack.size with h0 | h0
        · exact h0
        · have : ctx.rootStack.back? = some ctx.rootStack[ctx.rootStack.size - 1] := by
            simp [Array.back?, Array.getElem?_eq_getElem (show ctx.rootStack.size - 1 < ctx.rootStack.size by omega)]
          rw [this] at hnone; cases hnone
      apply List.eq_nil_of_length_eq_zero; simpa using hsz
    rcases hA.done x bn hbn (by intro he; cases he) with h1 | h1 | h1
    · rw [hs] at h1; cases h1
    · rw [hrs] at h1; cases h1
    · exact h1 pn hx hattr.1
  · exact sat_buildErr

/-- after a successful `build` every attributable node of the vector has an instruction of this build attributed to it -/
theorem build_attr (fuel root : Nat) (data : BState F) :
    Sat (fun r => ∀ (x : Nat) (pn : ParseNode), tree[x]? = some pn → attributable pn.definition = true →
      ∃ k, data.metadata.size ≤ k ∧ r.1.metadata[k]? = some (some x)) (build parseFloat fuel root tree data) := by
  unfold build
  split
  · rename_i hempty
    intro x pn hx _
    have : tree.size = 0 := by simpa [Array.isEmpty] using hempty
    have hxlt : x < tree.size := by
      rcases Nat.lt_or_ge x tree.size with h1 | h1
      · exact h1
      · rw [Array.getElem?_eq_none h1] at hx; cases hx
    omega
  · exact sat_bind (Q := fun _ => True) sat_true (fun _ _ => buildCore_attr parseFloat fuel root data)

end Garnish.Lemmas.BuildAttr
