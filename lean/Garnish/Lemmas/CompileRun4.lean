/-
`run_located`, concluded: apply (frames), bodies (restart loops), the induction on the evaluator's fuel, and the
whole-program statement relative to `Env` (every body laid out at the jump entry that is its id).
-/
import Garnish.Lemmas.CompileRun3
namespace Garnish.Abs
open Garnish Gen Garnish.Spec

variable {F : Type} {fo : FloatOps F} {host : Host F} {P : Prog F} {bodies : List (Nat × Expr F)}

theorem simA_step {fuel : Nat} (env : Env P bodies) (ihB : SimB fo host P bodies fuel) :
    SimA fo host P bodies (fuel + 1) := by
  intro cur instr useRight f x st res st' h pcA rs vs fr hlt
  have hlt' : ¬ (P.instrs.size ≤ pcA + 1) := by omega
  simp only [applyValsS] at h
  simp only [applyStep]
  cases hk : applyKind fo instr useRight f x with
  | enter j input =>
    simp only [hk] at h
    cases hb : lookupBody bodies j with
    | none => simp [hb] at h
    | some body =>
      simp only [hb] at h
      obtain ⟨t, hjt, hloc, hwf, hend⟩ := env.body j body hb
      have hsz := lt_size_of_get hend
      have hpos := len_pos body
      cases he : evalBodyS fo host bodies j fuel body { st with inp := input } with
      | err e => simp [he] at h
      | fuelOut => simp [he] at h
      | ok p =>
        obtain ⟨v, st1⟩ := p
        simp only [he, Out.ok.injEq, Prod.mk.injEq] at h
        obtain ⟨rfl, rfl⟩ := h
        obtain ⟨rs', hr, _⟩ := ihB j body { st with inp := input } v st1 he t rs (st.inp :: vs) (⟨pcA + 1, rs⟩ :: fr)
          hloc hwf hjt hsz
        have ht : ¬ (P.instrs.size ≤ t) := by omega
        refine ⟨v, ⟨t, rs, input :: st.inp :: vs, ⟨pcA + 1, rs⟩ :: fr, st.trace⟩, rfl, ?_, ?_⟩
        · simp [jumpTarget, hjt, finish, ht, bind, Except.bind]
        · exact hr.snoc (step_endExpression_return hend hlt)
  | external n arg =>
    simp only [hk] at h
    cases ha : host.apply n arg with
    | none =>
      simp only [ha, Out.ok.injEq, Prod.mk.injEq] at h
      obtain ⟨rfl, rfl⟩ := h
      exact ⟨.unit, _, rfl, by simp [finish, hlt', ha], .refl _⟩
    | some v =>
      simp only [ha, Out.ok.injEq, Prod.mk.injEq] at h
      obtain ⟨rfl, rfl⟩ := h
      exact ⟨v, _, rfl, by simp [finish, hlt', ha], .refl _⟩
  | out o =>
    simp only [hk] at h
    rcases settle_cases (host := host) st o with ⟨v, st1, hs⟩ | ⟨e, hs⟩ <;> simp [hs] at h
    obtain ⟨rfl, rfl⟩ := h
    have hp := pushOut_of_settle (host := host) (s := ⟨pcA, rs, st.inp :: vs, fr, st.trace⟩) rfl hs
    have hi := settle_inp hs
    refine ⟨v, ⟨pcA + 1, v :: rs, st.inp :: vs, fr, st1.trace⟩, rfl, by simp [hp, finish, hlt', bind, Except.bind], ?_⟩
    rw [hi]
    exact .refl _

theorem simB_step {fuel : Nat} (ih : SimE fo host P bodies fuel) (ihB : SimB fo host P bodies fuel) :
    SimB fo host P bodies (fuel + 1) := by
  intro cur body st v st' h t rs vs fr hloc hwf hjt hlt
  have hpos := len_pos body
  simp only [evalBodyS] at h
  rcases eval_cases (fo := fo) (host := host) (bodies := bodies) (cur := cur) (fuel := fuel) (x := body) (st := st)
    with ⟨w, st1, hx⟩ | ⟨w, st1, hx⟩ | ⟨e, hx⟩ | hx <;> simp only [hx] at h
  · simp only [Out.ok.injEq, Prod.mk.injEq] at h
    obtain ⟨rfl, rfl⟩ := h
    exact ⟨rs, (ih body cur st _ _ hx cur t rs vs fr t hloc hwf hjt (by omega) hlt).toReach, fun _ => rfl⟩
  · obtain ⟨extra, hr, he⟩ := ih body cur st _ _ hx cur t rs vs fr t hloc hwf hjt (by omega) hlt
    obtain ⟨rs', hr2, he2⟩ := ihB cur body { st1 with inp := w } v st' h t (extra ++ rs) vs fr hloc hwf hjt hlt
    refine ⟨rs', hr.trans hr2, fun ht => ?_⟩
    rw [he2 ht, he ht]
    rfl
  · simp at h
  · simp at h

theorem simE_step {fuel : Nat} (ih : SimE fo host P bodies fuel) (ihL : SimL fo host P bodies fuel)
    (ihC : SimC fo host P bodies fuel) (ihA : SimA fo host P bodies fuel) (ihCN : SimCN fo host P bodies fuel) :
    SimE fo host P bodies (fuel + 1) := by
  intro e
  cases e with
  | lit v => exact sim_lit v
  | input => exact sim_input
  | ident sym => exact sim_ident sym
  | unary op x => exact sim_unary ih ihA op x
  | binary op l r => exact sim_binary ih ihA op l r
  | pair l r => exact sim_pair ih l r
  | applyTo x f => exact sim_applyTo ih ihA x f
  | list items => exact sim_list ihL items
  | cond onTrue c t => exact sim_cond ih onTrue c t
  | chain arms final => exact sim_chain ihC ihCN arms final
  | and l r => exact sim_and ih l r
  | or l r => exact sim_or ih l r
  | seq a b => exact sim_seq ih a b
  | sideAfter x b => exact sim_sideAfter ih x b
  | nested id => exact sim_nested id
  | emptyNested => exact sim_emptyNested
  | reapply x => exact sim_reapply ih x
  | prefixApply sym x => exact sim_prefixApply ih ihA sym x
  | suffixApply x sym => exact sim_suffixApply ih ihA x sym
  | infixApply a sym b => exact sim_infixApply ih ihA a sym b

/-- `run_located`: all six simulation statements (for the strict evaluator), for every fuel -/
theorem sim_all (fo : FloatOps F) (host : Host F) {P : Prog F} {bodies : List (Nat × Expr F)} (env : Env P bodies) :
    ∀ fuel, SimE fo host P bodies fuel ∧ SimL fo host P bodies fuel ∧ SimC fo host P bodies fuel ∧
      SimA fo host P bodies fuel ∧ SimB fo host P bodies fuel ∧ SimCN fo host P bodies fuel := by
  intro fuel
  induction fuel with
  | zero =>
    refine ⟨?_, ?_, ?_, ?_, ?_, ?_⟩
    · intro e cur st res st' h; simp [evalFS] at h
    · intro cur items st acc r st' h; simp [evalListS] at h
    · intro cur arms fe st res st' h; simp [evalChainS] at h
    · intro cur instr useRight f x st res st' h; simp [applyValsS] at h
    · intro cur body st v st' h; simp [evalBodyS] at h
    · intro cur arms st res st' h; simp [evalChainS] at h
  | succ fuel ih =>
    obtain ⟨ihE, ihL, ihC, ihA, ihB, ihCN⟩ := ih
    exact ⟨simE_step ihE ihL ihC ihA ihCN, simL_step ihE ihL, simC_step ihE ihC, simA_step env ihB, simB_step ihE ihB,
      simCN_step ihE ihCN⟩

/-- `run_located` for one expression, in the form of DESIGN §6 C01 (ii) -/
theorem run_located (fo : FloatOps F) (host : Host F) {P : Prog F} {bodies : List (Nat × Expr F)} (env : Env P bodies)
    {fuel cur : Nat} {e : Expr F} {st st' : St F} {res : Res F}
    (h : evalFS fo host bodies cur fuel e st = .ok (res, st'))
    {root pc entry : Nat} (rs vs : List (Val F)) (fr : List (Frame F))
    (hloc : Located P root cur pc e) (hwf : wfC e = true)
    (hj : P.jumps[cur]? = some entry) (hent : entry < P.instrs.size) (hlt : pc + len e < P.instrs.size) :
    ResOK fo host P entry pc (pc + len e) (tailR e) rs vs fr st res st' :=
  (sim_all fo host env fuel).1 e cur st res st' h root pc rs vs fr entry hloc hwf hj hent hlt

/-- whole program: if the evaluator gives `v`, the machine started at the entry of body `0` with the input as
the only input value halts with `v` as the current value, nothing else on any stack, and the same trace -/
theorem run_program (fo : FloatOps F) (host : Host F) {P : Prog F} {p : Program F} (env : Env P p.bodies)
    (hmain : lookupBody p.bodies 0 = some p.main) (htail : tailR p.main = true)
    {fuel : Nat} {input v : Val F} {st : St F}
    (h : evalProgramS fo host fuel p input = .ok (v, st)) :
    ∃ t n s, P.jumps[0]? = some t ∧
      run fo host P n { pc := t, regs := [], vals := [input], frames := [], trace := [] } = (.halted s, n) ∧
      s.vals = [v] ∧ s.regs = [] ∧ s.frames = [] ∧ s.trace = st.trace := by
  obtain ⟨t, hjt, hloc, hwf, hend⟩ := env.body 0 p.main hmain
  have hsz := lt_size_of_get hend
  simp only [evalProgramS] at h
  obtain ⟨rs', hr, he⟩ := (sim_all fo host env fuel).2.2.2.2.1 0 p.main ⟨input, []⟩ v st h t [] [] [] hloc hwf hjt hsz
  rw [he htail] at hr
  obtain ⟨n, hn⟩ := hr.run_halts (step_endExpression_halt hend)
  exact ⟨t, n, _, hjt, hn, rfl, rfl, rfl, rfl⟩

end Garnish.Abs
