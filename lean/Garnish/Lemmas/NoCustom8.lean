/-
`DynOK`: the residual dynamic side condition; `ApplyDomainOn` / `LookupOn` / `PathOn` from `NoCustom` + `DynOK`.
-/
import Garnish.Lemmas.NoCustom7
set_option linter.unusedSimpArgs false
set_option linter.unusedVariables false
namespace Garnish.Lemmas.NoCustom
open Garnish Gen Garnish.Abs Garnish.Model.Equality Garnish.Model.Runtime Garnish.Lemmas.Runtime
open Garnish.Lemmas.Runtime.On Garnish.Props.C06

variable {F σ : Type} (fo : FloatOps F)

/-- a symbol look-up into a LIST needs the store's `get_list_item_with_symbol` clause -/
def ListSymAlt (S : RStore F σ) (Inv : σ → Prop) (key cur : Val F) : Prop :=
  (∀ y, key = .sym y → ∀ vs, cur ≠ .list vs) ∨ ListSymOn S Inv

/-- the `ListSymAlt` condition along a path -/
def PathLS (S : RStore F σ) (Inv : σ → Prop) : List (SymPart F) → Val F → Prop
  | [], _ => True
  | p :: ps, cur => ((∀ y, p = .sym y → ∀ vs, cur ≠ .list vs) ∨ ListSymOn S Inv) ∧
      ∀ v, pathLookup fo p cur = .some v → PathLS S Inv ps v

/-- what remains of `ApplyDomainOn` once "no custom" is known -/
def ApplyDyn (S : RStore F σ) (Inv : σ → Prop) (ur : Bool) (vl vr : Val F) : Prop :=
  match applyArm vl.typeOf vr.typeOf with
  | .accSym => (∀ vs, vl ≠ .list vs) ∨ ListSymOn S Inv
  | .path => ∀ items ps, vl = .list items → vr = .symList ps → PathLS fo S Inv ps (.list items)
  | .partial_ => ∀ j input, vl = .part (.expr j) input → ur = true →
      (∀ x y, input ≠ .slice x y) ∧ (∀ x y, vr ≠ .slice x y)
  | _ => True

/-- **the residual DYNAMIC side condition** of the relativised refinement, once the depth conditions come from stack
balance and the "no custom" conditions from the `NoCustom` invariant. It demands, per instruction:
* comparisons: `CompareDomain` (texts shorter than 2^31, fuel ≥ the shorter length + 1, the code-faithful comparison
  agrees with Abs/Ops — i.e. no slice of text / bytes with a range `sliceStart` rejects);
* `Concat`: neither operand is a slice;
* `Apply` / `EmptyApply`: `ApplyDomain` (look-up arms: `AccessDomain`, integer key; path: `PathDomain`; slice over a
  range) and `ApplyDyn` (symbol look-up into a list only with `ListSymOn`; `input <> argument` without slice operands);
* `Access`: `AccessOK` (sequences shorter than 2^31, fuel, integer keys, ordered ranges), `ListSymAlt`, merge arm without
  number operands;
* `Resolve`: the same look-up domain for the key in the current input value;
* `Equal` / `NotEqual`: `EqualDomain` (no slices, fuel); `AccessLengthInternal`: `LengthDomain`, fuel.
Every other instruction: nothing. -/
def DynOK (S : RStore F σ) (Inv : σ → Prop) (P : Prog F) (fuel : Nat) (m : MState F) (instr : Instruction)
    (operand : Option Nat) : Prop :=
  match instr with
  | .lessThan | .lessThanOrEqual | .greaterThan | .greaterThanOrEqual =>
    ∀ vr vl rs, m.regs = vr :: vl :: rs → CompareDomain fo fuel vl vr
  | .concat => ∀ vr vl rs, m.regs = vr :: vl :: rs → (∀ x y, vl ≠ .slice x y) ∧ (∀ x y, vr ≠ .slice x y)
  | .apply => ∀ vr vl rs, m.regs = vr :: vl :: rs → ApplyDomain fo fuel vl vr ∧ ApplyDyn fo S Inv true vl vr
  | .emptyApply => ∀ vl rs, m.regs = vl :: rs → ApplyDomain fo fuel vl .unit ∧ ApplyDyn fo S Inv false vl .unit
  | .access => ∀ vr vl rs, m.regs = vr :: vl :: rs → AccessOK fo fuel vl vr ∧
      (accessArm vl.typeOf vr.typeOf = .get → ListSymAlt S Inv vr vl) ∧
      (accessArm vl.typeOf vr.typeOf = .merge → (∀ n, vl ≠ .num n) ∧ (∀ n, vr ≠ .num n))
  | .resolve => ∀ k key, operand = some k → P.consts[k]? = some key → ∀ cur vs, m.vals = cur :: vs →
      (AccessDomain cur ∧ accessFuel cur ≤ fuel ∧ ∀ n, key = .num n → (∃ i, n = .int i) ∧ RangeOrdered fo n cur) ∧
      ListSymAlt S Inv key cur
  | .equal | .notEqual => ∀ vr vl rs, m.regs = vr :: vl :: rs → EqualDomain fuel vl vr
  | .accessLengthInternal => ∀ v rs, m.regs = v :: rs → LengthDomain v ∧ accessFuel v ≤ fuel
  | _ => True

variable {S : RStore F σ} {Inv : σ → Prop}

theorem nc_pathLookup {p : SymPart F} {cur v : Val F} (hc : nc cur = true) (h : pathLookup fo p cur = .some v) :
    nc v = true := by
  cases p with
  | sym y => exact nc_accessSym hc h
  | num n => exact nc_accessInt fo hc h

theorem pathOn_of : ∀ (ps : List (SymPart F)) (cur : Val F), nc cur = true → PathLS fo S Inv ps cur →
    PathOn fo S Inv ps cur
  | [], _, _, _ => trivial
  | p :: ps, cur, hc, h => ⟨ncConcat_of_nc hc, h.1, fun v hv => pathOn_of ps v (nc_pathLookup fo hc hv) (h.2 v hv)⟩

theorem applyDomainOn_of {ur : Bool} {vl vr : Val F} (hl : nc vl = true) (hr : nc vr = true)
    (h : ApplyDyn fo S Inv ur vl vr) : ApplyDomainOn fo S Inv ur vl vr := by
  unfold ApplyDomainOn
  unfold ApplyDyn at h
  cases harm : applyArm vl.typeOf vr.typeOf <;> rw [harm] at h <;> simp only [] at h ⊢
  case accInt => exact fun i _ v hv => nc_ne (nc_accessInt fo hl hv)
  case accSym => exact ⟨h, fun y _ v hv => nc_ne (nc_accessSym hl hv)⟩
  case path =>
    intro items ps h1 h2
    subst h1
    exact ⟨pathOn_of fo ps _ hl (h items ps rfl h2), fun v hv => nc_ne (nc_accessPath fo ps _ v hl hv)⟩
  case expression => exact nc_ne hr
  case partial_ =>
    intro j input h1
    subst h1
    refine ⟨?_, h j input rfl⟩
    cases ur
    · simp [nc] at hl; exact nc_ne hl
    · intro hc; cases hc

theorem lookupOn_of {key cur : Val F} (hc : nc cur = true) (h : ListSymAlt S Inv key cur) : LookupOn fo S Inv key cur :=
  ⟨ncConcat_of_nc hc, h, fun v hv => nc_ne (nc_getAccess fo hc hv)⟩

end Garnish.Lemmas.NoCustom
