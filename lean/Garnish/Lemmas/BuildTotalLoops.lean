/-
Totality of the emitting traversal of `build` — part 6: `handle_parse_node`, the two loops, `build`.
-/
import Garnish.Lemmas.BuildTotalHandlers2
namespace Garnish.Lemmas.BuildTotal
open Garnish Garnish.Gen Garnish.Model.Parser Garnish.Model.Literals Garnish.Model.Build Garnish.Lemmas.Build

variable {F : Type} {root : Nat} {tree : Array ParseNode} {G : Nat → Prop}

/-! ### the `add_fn` closures return -/

theorem addUnit_good (pn : ParseNode) (d : BState F) : Good (fun _ => True) (addUnit d pn) := trivial
theorem addFalse_good (pn : ParseNode) (d : BState F) : Good (fun _ => True) (addFalse d pn) := trivial
theorem addTrue_good (pn : ParseNode) (d : BState F) : Good (fun _ => True) (addTrue d pn) := trivial
theorem parseAddSymbolText_good (pn : ParseNode) (d : BState F) : Good (fun _ => True) (parseAddSymbolText d pn) := trivial
theorem noOperand_good (pn : ParseNode) (d : BState F) :
    Good (fun _ => True) ((fun (data : BState F) (_ : ParseNode) => Outcome.ok (data, (none : Option Nat))) d pn) := trivial

section
variable (parseFloat : List Char → Option F)

theorem parseAddNumber_good (pn : ParseNode) (d : BState F) : Good (fun _ => True) (parseAddNumber parseFloat d pn) := by
  unfold parseAddNumber parseSimpleNumber
  exact good_bind (parseNumberInternal_good parseFloat _ _) (fun _ _ => trivial)
theorem parseAddCharList_good (pn : ParseNode) (d : BState F) : Good (fun _ => True) (parseAddCharList parseFloat d pn) := by
  unfold parseAddCharList
  exact good_bind (parseCharList_good parseFloat _) (fun _ _ => trivial)
theorem parseAddByteList_good {pn : ParseNode} (h : Good (fun _ => True) (parseByteList parseFloat pn.lexToken.text)) (d : BState F) :
    Good (fun _ => True) (parseAddByteList parseFloat d pn) := by
  unfold parseAddByteList
  exact good_bind h (fun _ _ => trivial)
theorem parseAddSymbolLiteral_good {pn : ParseNode} (h : dropFirstByte pn.lexToken.text ≠ none) (d : BState F) :
    Good (fun _ => True) (parseAddSymbolLiteral d pn) := by
  unfold parseAddSymbolLiteral
  split
  · rename_i heq; exact absurd heq h
  · exact trivial

theorem handleParseNode_total {ph : Nat → Phase} {ctx : Ctx F} {ni : Nat} {pn : ParseNode} (p : Pre root tree G ph ctx ni pn)
    (hlit : LitSafe parseFloat pn) (crj : Nat) :
    Good (Post root tree G ph) (handleParseNode parseFloat ctx crj ni pn) := by
  unfold handleParseNode
  split
  · rename_i heq; exact handleValuePrimitive_total p (by rw [heq]; decide) (by rw [heq]; rfl) (addUnit_good pn)
  · rename_i heq; exact handleValuePrimitive_total p (by rw [heq]; decide) (by rw [heq]; rfl) (addFalse_good pn)
  · rename_i heq; exact handleValuePrimitive_total p (by rw [heq]; decide) (by rw [heq]; rfl) (addTrue_good pn)
  · rename_i heq; exact handleValuePrimitive_total p (by rw [heq]; decide) (by rw [heq]; rfl) (parseAddNumber_good parseFloat pn)
  · rename_i heq; exact handleValuePrimitive_total p (by rw [heq]; decide) (by rw [heq]; rfl) (parseAddCharList_good parseFloat pn)
  · rename_i heq; exact handleValuePrimitive_total p (by rw [heq]; decide) (by rw [heq]; rfl) (parseAddByteList_good parseFloat (hlit.byteList heq))
  · rename_i heq; exact handleValuePrimitive_total p (by rw [heq]; decide) (by rw [heq]; rfl) (parseAddSymbolLiteral_good (hlit.symbol heq))
  · rename_i heq; exact handleValueLike_total p (by rw [heq]; decide) (by rw [heq]; rfl) (noOperand_good pn) _
  · rename_i heq; exact handleValueLike_total p (by rw [heq]; decide) (by rw [heq]; rfl) (parseAddSymbolText_good pn) _
  · rename_i heq; exact handleValueLike_total p (by rw [heq]; decide) (by rw [heq]; rfl) (parseAddSymbolText_good pn) _
  · rename_i heq; exact handleValueLike_total p (by rw [heq]; decide) (by rw [heq]; rfl) (noOperand_good pn) _
  · rename_i heq; exact handleUnaryPrefix_total p (by rw [heq]; decide) (by rw [heq]; rfl) _
  · rename_i heq; exact handleUnaryPrefix_total p (by rw [heq]; decide) (by rw [heq]; rfl) _
  · rename_i heq; exact handleUnaryPrefix_total p (by rw [heq]; decide) (by rw [heq]; rfl) _
  · rename_i heq; exact handleUnaryPrefix_total p (by rw [heq]; decide) (by rw [heq]; rfl) _
  · rename_i heq; exact handleUnaryPrefix_total p (by rw [heq]; decide) (by rw [heq]; rfl) _
  · rename_i heq; exact handleUnaryPrefix_total p (by rw [heq]; decide) (by rw [heq]; rfl) _
  · rename_i heq; exact handleUnaryPrefix_total p (by rw [heq]; decide) (by rw [heq]; rfl) _
  · rename_i heq; exact handleUnarySuffix_total p (by rw [heq]; decide) (by rw [heq]; rfl) _
  · rename_i heq; exact handleUnarySuffix_total p (by rw [heq]; decide) (by rw [heq]; rfl) _
  · rename_i heq; exact handleUnarySuffix_total p (by rw [heq]; decide) (by rw [heq]; rfl) _
  · rename_i heq; exact handleBinaryOperationWithPush_total p (by rw [heq]; decide) (by rw [heq]; rfl) _ false
  · rename_i heq; exact handleBinaryOperationWithPush_total p (by rw [heq]; decide) (by rw [heq]; rfl) _ false
  · rename_i heq; exact handleBinaryOperationWithPush_total p (by rw [heq]; decide) (by rw [heq]; rfl) _ false
  · rename_i heq; exact handleBinaryOperationWithPush_total p (by rw [heq]; decide) (by rw [heq]; rfl) _ false
  · rename_i heq; exact handleBinaryOperationWithPush_total p (by rw [heq]; decide) (by rw [heq]; rfl) _ false
  · rename_i heq; exact handleBinaryOperationWithPush_total p (by rw [heq]; decide) (by rw [heq]; rfl) _ false
  · rename_i heq; exact handleBinaryOperationWithPush_total p (by rw [heq]; decide) (by rw [heq]; rfl) _ false
  · rename_i heq; exact handleBinaryOperationWithPush_total p (by rw [heq]; decide) (by rw [heq]; rfl) _ false
  · rename_i heq; exact handleBinaryOperationWithPush_total p (by rw [heq]; decide) (by rw [heq]; rfl) _ false
  · rename_i heq; exact handleBinaryOperationWithPush_total p (by rw [heq]; decide) (by rw [heq]; rfl) _ false
  · rename_i heq; exact handleBinaryOperationWithPush_total p (by rw [heq]; decide) (by rw [heq]; rfl) _ false
  · rename_i heq; exact handleBinaryOperationWithPush_total p (by rw [heq]; decide) (by rw [heq]; rfl) _ false
  · rename_i heq; exact handleBinaryOperationWithPush_total p (by rw [heq]; decide) (by rw [heq]; rfl) _ false
  · rename_i heq; exact handleBinaryOperationWithPush_total p (by rw [heq]; decide) (by rw [heq]; rfl) _ false
  · rename_i heq; exact handleBinaryOperationWithPush_total p (by rw [heq]; decide) (by rw [heq]; rfl) _ false
  · rename_i heq; exact handleBinaryOperationWithPush_total p (by rw [heq]; decide) (by rw [heq]; rfl) _ false
  · rename_i heq; exact handleBinaryOperationWithPush_total p (by rw [heq]; decide) (by rw [heq]; rfl) _ false
  · rename_i heq; exact handleBinaryOperationWithPush_total p (by rw [heq]; decide) (by rw [heq]; rfl) _ false
  · rename_i heq; exact handleBinaryOperationWithPush_total p (by rw [heq]; decide) (by rw [heq]; rfl) _ false
  · rename_i heq; exact handleBinaryOperationWithPush_total p (by rw [heq]; decide) (by rw [heq]; rfl) _ false
  · rename_i heq; exact handleBinaryOperationWithPush_total p (by rw [heq]; decide) (by rw [heq]; rfl) _ false
  · rename_i heq; exact handleBinaryOperationWithPush_total p (by rw [heq]; decide) (by rw [heq]; rfl) _ false
  · rename_i heq; exact handleBinaryOperationWithPush_total p (by rw [heq]; decide) (by rw [heq]; rfl) _ false
  · rename_i heq; exact handleBinaryOperationWithPush_total p (by rw [heq]; decide) (by rw [heq]; rfl) _ false
  · rename_i heq; exact handleBinaryOperationWithPush_total p (by rw [heq]; decide) (by rw [heq]; rfl) _ false
  · rename_i heq; exact handleBinaryOperationWithPush_total p (by rw [heq]; decide) (by rw [heq]; rfl) _ false
  · rename_i heq; exact handleBinaryOperationWithPush_total p (by rw [heq]; decide) (by rw [heq]; rfl) _ false
  · rename_i heq; exact handleBinaryOperationWithPush_total p (by rw [heq]; decide) (by rw [heq]; rfl) _ false
  · rename_i heq; exact handleBinaryOperationWithPush_total p (by rw [heq]; decide) (by rw [heq]; rfl) _ false
  · rename_i heq; exact handleBinaryOperationWithPush_total p (by rw [heq]; decide) (by rw [heq]; rfl) _ true
  · rename_i heq; exact handleBinaryOperationWithPush_total p (by rw [heq]; decide) (by rw [heq]; rfl) _ true
  · rename_i heq; exact handleList_total p (by rw [heq]; decide) (by rw [heq]; rfl)
  · rename_i heq; exact handleList_total p (by rw [heq]; decide) (by rw [heq]; rfl)
  · rename_i heq; exact handleLogicalBinary_total p (by rw [heq]; rfl) (by rw [heq]; decide) _
  · rename_i heq; exact handleLogicalBinary_total p (by rw [heq]; rfl) (by rw [heq]; decide) _
  · rename_i heq; exact handleGroup_total p heq
  · rename_i heq; exact handleSideEffect_total p (by rw [heq]; decide) (by rw [heq]; rfl)
  · rename_i heq; exact handleNestedExpression_total p heq crj
  · rename_i heq; exact handleJumpIf_total p (by rw [heq]; rfl) (by rw [heq]; decide) _
  · rename_i heq; exact handleJumpIf_total p (by rw [heq]; rfl) (by rw [heq]; decide) _
  · rename_i heq; exact handleElseJump_total p (by rw [heq]; decide) (by rw [heq]; rfl)
  · rename_i heq; exact handleReapply_total p (by rw [heq]; decide) (by rw [heq]; rfl)
  · rename_i heq; exact handleSubexpression_total p (by rw [heq]; decide) (by rw [heq]; rfl)
  · rename_i heq; exact handleSubexpression_total p (by rw [heq]; decide) (by rw [heq]; rfl)
  · rename_i heq; exact handleUnaryFixApply_total p (by rw [heq]; decide) (by rw [heq]; rfl) (Or.inl rfl)
  · rename_i heq; exact handleUnaryFixApply_total p (by rw [heq]; decide) (by rw [heq]; rfl) (Or.inr rfl)
  · rename_i heq; exact handleInfixApply_total p (by rw [heq]; decide) (by rw [heq]; rfl)
  · exact good_buildErr


/-! ### the loops -/

theorem afterHandle_good {ph : Nat → Phase} {ctx : Ctx F} (h : Inv root tree G ph ctx) (ni : Nat) :
    Good (fun nodes => Inv root tree G ph ({ ctx with nodes := nodes } : Ctx F)) (afterHandle ctx.nodes ni) := by
  unfold afterHandle
  split
  · rename_i node hnode
    split
    · split
      · have h1 : Inv root tree G ph ({ ctx with nodes := putNode ctx.nodes ni { node with contributesToList := false } } : Ctx F) :=
          inv_putNode_same (bn' := { node with contributesToList := false }) h hnode rfl rfl rfl rfl rfl rfl
        refine good_bind (getNode_good _ _) (fun parentNode hp => ?_)
        exact inv_putNode_same (bn' := { parentNode with childCount := parentNode.childCount + 1 }) h1 hp rfl rfl rfl rfl rfl rfl
      · exact inv_congr h rfl rfl rfl
    · exact inv_congr h rfl rfl rfl
  · exact inv_congr h rfl rfl rfl

theorem innerLoop_total (V : Validated root tree G)
    (hlit : ∀ (i : Nat) (pn : ParseNode), tree[i]? = some pn → LitSafe parseFloat pn) (crj : Nat) :
    ∀ (fuel : Nat) (ph : Nat → Phase) (ctx : Ctx F), Inv root tree G ph ctx → total ph tree.size < fuel →
      Good (fun r => ∃ ph', Inv root tree G ph' r.1 ∧ total ph' tree.size < r.2 ∧ total ph' tree.size ≤ total ph tree.size)
        (innerLoop parseFloat tree crj fuel ctx) := by
  intro fuel
  induction fuel with
  | zero => intro ph ctx _ hlt; omega
  | succ k ih =>
    intro ph ctx h hlt
    unfold innerLoop
    split
    · exact ⟨ph, h, hlt, Nat.le_refl _⟩
    · rename_i ni hback
      obtain ⟨hpop, hns, hG, hph⟩ := inv_pop_stack h hback
      split
      · exact good_buildErr
      · rename_i pn hpn
        have p : Pre root tree G ph ({ ctx with stack := ctx.stack.pop } : Ctx F) ni pn := ⟨V, hpop, hG, hph, hns, hpn⟩
        refine good_bind (handleParseNode_total parseFloat p (hlit ni pn hpn) crj) (fun ctx1 h1 => ?_)
        obtain ⟨ph1, hinv1, hlt1⟩ := h1
        refine good_bind (afterHandle_good hinv1 ni) (fun nodes hnodes => ?_)
        refine good_mono (ih ph1 _ hnodes (by omega)) (fun r hr => ?_)
        obtain ⟨ph', h1', h2', h3'⟩ := hr
        exact ⟨ph', h1', h2', by omega⟩

theorem rootJump_good (data : BState F) (nodes : Nodes) (rootIndex : Nat) : Good (fun _ => True) (rootJump data nodes rootIndex) := by
  unfold rootJump
  dsimp only
  repeat' (first | exact trivial | exact good_buildErr | split)

theorem rootLoop_total (V : Validated root tree G)
    (hlit : ∀ (i : Nat) (pn : ParseNode), tree[i]? = some pn → LitSafe parseFloat pn) :
    ∀ (rootFuel stepFuel : Nat) (ph : Nat → Phase) (ctx : Ctx F), Inv root tree G ph ctx →
      total ph tree.size < rootFuel → total ph tree.size < stepFuel →
      Good (fun _ => True) (Garnish.Model.Build.rootLoop parseFloat tree rootFuel stepFuel ctx) := by
  intro rootFuel
  induction rootFuel with
  | zero => intro _ ph ctx _ hlt _; omega
  | succ k ih =>
    intro stepFuel ph ctx h hlt1 hlt2
    unfold Garnish.Model.Build.rootLoop
    split
    · exact trivial
    · rename_i r hback
      dsimp only
      refine good_bind (rootJump_good _ _ _) (fun res _ => ?_)
      obtain ⟨data, crj⟩ := res
      dsimp only
      obtain ⟨ph1, hinv1, hdec1⟩ := inv_pop_root (ctx' := (⟨data, ctx.nodes, ctx.rootStack.pop, #[r]⟩ : Ctx F)) V h hback rfl rfl rfl
      refine good_bind (innerLoop_total parseFloat V hlit crj stepFuel ph1 _ hinv1 (by omega)) (fun res2 h2 => ?_)
      obtain ⟨ctx2, fuel2⟩ := res2
      obtain ⟨ph2, hinv2, hlt2', hle2⟩ := h2
      dsimp only at hinv2 hlt2' hle2 ⊢
      exact ih fuel2 ph2 _ (inv_congr hinv2 rfl rfl rfl) (by omega) hlt2'

/-! ### `build` -/

theorem buildCore_total (V : Validated root tree G)
    (hlit : ∀ (i : Nat) (pn : ParseNode), tree[i]? = some pn → LitSafe parseFloat pn) (data : BState F) :
    Good (fun _ => True) (buildCore parseFloat (defaultFuel tree.size) root tree data) := by
  unfold buildCore
  dsimp only
  have hroot : root < tree.size := G_lt V V.rootIn
  rw [setNodeIdx_eq (by simpa using hroot)]
  simp only [bind_ok]
  let ph0 : Nat → Phase := fun x => if x = root then .pr else .p0
  have hget : ∀ (x : Nat) (bn : BuildNode),
      (putNode (Array.replicate tree.size none) root (BuildNode.new root (getJumpTableLen data)))[x]? = some (some bn) →
      x = root ∧ bn = BuildNode.new root (getJumpTableLen data) := by
    intro x bn hx
    rw [getElem?_putNode] at hx
    rcases Classical.em (root = x) with hrx | hrx
    · rw [if_pos hrx] at hx
      split at hx
      · cases hx; exact ⟨hrx.symm, rfl⟩
      · cases hx
    · rw [if_neg hrx] at hx
      simp [Array.getElem?_replicate] at hx
  have hinv : Inv root tree G ph0
      (⟨data, putNode (Array.replicate tree.size none) root (BuildNode.new root (getJumpTableLen data)), #[root], #[]⟩ : Ctx F) := by
    refine ⟨by simp, fun x hx => by simp at hx, by simp, fun x hx => ?_, by simp [size_putNode], ?_, ?_, ?_, ?_, ?_, ?_⟩
    · have : x = root := by simpa using hx
      subst this; exact ⟨V.rootIn, by simp [ph0]⟩
    · intro x bn _ hp2
      simp only [ph0] at hp2
      split at hp2 <;> cases hp2
    · intro x bn hx _ it hit
      obtain ⟨_, hb⟩ := hget x bn hx
      subst hb
      simp [BuildNode.new] at hit
    · intro x bn hx _
      obtain ⟨_, hb⟩ := hget x bn hx
      subst hb
      simp [BuildNode.new]
    · intro c _ hc0
      simp only [ph0] at hc0
      split at hc0
      · rename_i hcr; exact Or.inl hcr
      · exact absurd rfl hc0
    · intro x pn _ hp2
      simp only [ph0] at hp2
      split at hp2 <;> cases hp2
    · intro x bn hx
      obtain ⟨hxr, hb⟩ := hget x bn hx
      subst hb; subst hxr; rfl
  have htot : total ph0 tree.size < defaultFuel tree.size := by
    have := total_le ph0 tree.size
    unfold defaultFuel; omega
  refine good_bind (rootLoop_total parseFloat V hlit _ _ ph0 _ hinv htot htot) (fun ctx _ => ?_)
  split
  · exact trivial
  · exact good_buildErr

/-- the emitting traversal with the validation in front: `build` returns `ok` or `err` for every node vector whose
literal texts are safe, with the fuel `defaultFuel n = 20·n + 100` -/
theorem build_total (hlit : ∀ (i : Nat) (pn : ParseNode), tree[i]? = some pn → LitSafe parseFloat pn) (data : BState F) :
    Good (fun _ => True) (build parseFloat (defaultFuel tree.size) root tree data) := by
  unfold build
  split
  · exact trivial
  · cases hv : validateParseTree root tree with
    | ok u =>
      cases u
      simp only [bind_ok]
      obtain ⟨G, V⟩ := validateParseTree_ok hv
      exact buildCore_total parseFloat V hlit data
    | err e => exact trivial
    | panic s => exact absurd hv (satNP_noPanic (validateParseTree_np root tree) s)
    | fuelOut => exact absurd hv (validateParseTree_terminates root tree)

end

end Garnish.Lemmas.BuildTotal
