/-
C04, builder half — the order of the out-of-line parts, part 6: a node whose last visit comes before the last visit of the
node that is finishing now is finished (`last_done`); the elementary fields of `LInv` are kept.
-/
import Garnish.Lemmas.BuildLifo5
namespace Garnish.Lemmas.BuildSeq
open Garnish Garnish.Gen Garnish.Model.Parser Garnish.Model.Literals Garnish.Model.Build Garnish.Lemmas.Build
open Garnish.Lemmas.BuildTotal
open Garnish.Lemmas.BuildOrder (Above above_append_left above_append_mem above_append_right above_mem above_irrefl
  above_top_false above_init Attr Moving nm1 nm2 nm3 nmr nm23 nm123 get_append attr_append)

variable {F : Type} {root : Nat} {tree : Array ParseNode} {G : Nat → Prop} {m0 : Nat}
variable {ph ph' : Nat → Phase} {ctx ctx' : Ctx F} {ni : Nat} {pn : ParseNode} {vni : Phase} {cs rs suf rsuf : List Nat}
  {l : List (Option Nat)} {M M' : Array (Option Nat)}

/-- an in-line child that is scheduled and has nothing active below it is finished, with everything in line below it -/
theorem all_done (V : Validated root tree G) {S R : List Nat} {nodes : Nodes}
    (ho : SInv root tree G m0 ph S nodes M) (hl : LInv root tree G m0 ph nodes R M) {w a : Nat} (hw : G w) (ha : ILink tree w a)
    (ha0 : ph a ≠ .p0) (hna : ∀ x, IDesc tree a x → ¬ Act ph x) : ∀ x, IDesc tree a x → ph x = .p3 := by
  have key : ∀ y c, G y → ILink tree y c → ph c ≠ .p0 → ¬ Act ph c → ph c = .p3 := by
    intro y c hy hc h0 hact
    have h1 := ho.inl y c hy hc
    cases hp : ph c with
    | p0 => exact absurd hp h0
    | pc o => exact absurd hp (h1.2 o)
    | pr => exact absurd hp h1.1
    | p1 => exact absurd (Or.inl hp) hact
    | p2 => exact absurd (Or.inr hp) hact
    | p3 => rfl
  have haG := (child_facts V hw ha.isChild).1
  intro x hx
  induction hx with
  | refl => exact key w a hw ha ha0 (hna a (IDesc.refl a))
  | @step u x hu hlk ih =>
    have huG := idesc_G V haG hu
    exact key u x huG hlk (hl.sched u x huG hlk (Or.inr ih)) (hna x (IDesc.step hu hlk))

/-- `y1` finishes before `ni`, and `ni` is finishing now: `y1` is finished -/
theorem last_done (sl : StepL root tree G ph ph' ctx ctx' ni pn vni cs rs suf rsuf l M M')
    (ho : SInv root tree G m0 ph (ctx.stack.toList ++ [ni]) ctx.nodes M)
    (hl : LInv root tree G m0 ph ctx.nodes ctx.rootStack.toList M) (hv3 : vni = .p3) {y1 : Nat} (hy1 : G y1)
    (h : LastB tree G y1 ni) : ph y1 = .p3 := by
  have V := sl.st.V
  have hinv := sl.st.hinv
  have hact := sl.st.hph
  have hact0 : ph ni ≠ .p0 := hact.ne0
  rcases h with ⟨w, a, b, hw, hord, hda, hdb⟩ | ⟨c, hc, hdc⟩ | ⟨c, hc, hdc⟩
  · have hbG := (child_facts V hw hord.right.isChild).1
    have hna : ∀ x, IDesc tree a x → ¬ Act ph x := by
      intro x hx hax
      obtain ⟨hb1, hab⟩ := ho.sibAbove w a b x hw hord hx hax
      rcases idesc_climb V hinv hbG hdb hact.ne0 with e | e
      · subst e; exact sl.st.top ho x hab
      · rw [hb1] at e; rcases e with e | e <;> cases e
    have hwv := idesc_parent_visited V hinv hw hord.right.isChild hdb hact.ne0
    exact all_done V ho hl hw hord.left (hl.sched w a hw hord.left hwv) hna y1 hda
  · have hna : ∀ x, IDesc tree c x → ¬ Act ph x := fun x hx hax => sl.st.top ho x (ho.preAbove ni c x sl.st.hG hc hx hax).2
    have hp2 : ph ni = .p2 := by
      rcases hact with h1 | h2
      · have hcs := sl.hall h1 c hc.ilink
        have := (sl.st.hpre c hc hcs).1
        rw [hv3] at this; cases this
      · exact h2
    exact all_done V ho hl sl.st.hG hc.ilink (hl.sched ni c sl.st.hG hc.ilink (Or.inl hp2)) hna y1 hdc
  · rcases hact with h1 | h2
    · rcases idesc_parent_visited V hinv hy1 hc.ilink.isChild hdc hact0 with e | e
      · exact absurd (ho.postBelow y1 c ni hy1 hc hdc (Or.inl h1) e) (sl.st.top ho y1)
      · exact e
    · exact ho.postAfter y1 c ni hy1 hc hdc (Or.inl h2)

/-! ### the elementary fields -/

theorem stepL_reach (sl : StepL root tree G ph ph' ctx ctx' ni pn vni cs rs suf rsuf l M M')
    (hl : LInv root tree G m0 ph ctx.nodes ctx.rootStack.toList M) : ∀ x, ph' x ≠ .p0 → Sub tree root x := by
  intro x hx
  have hni := hl.reach ni sl.st.hph.ne0
  rcases sl.st.cases x with e | ⟨e, _⟩ | ⟨e, hm⟩ | ⟨h1, h2⟩
  · subst e; exact hni
  · exact Sub.step hni (sl.st.hfreshcs x e).2.2
  · rcases hm with h0 | ⟨o, ho'⟩
    · exact Sub.step hni (sl.st.hool x e h0).isChild
    · exact hl.reach x (by rw [ho']; intro h; cases h)
  · rw [sl.st.hother x h1 h2] at hx; exact hl.reach x hx

theorem stepL_noNode (sl : StepL root tree G ph ph' ctx ctx' ni pn vni cs rs suf rsuf l M M')
    (hl : LInv root tree G m0 ph ctx.nodes ctx.rootStack.toList M) :
    ∀ (x : Nat), (ph' x = .p0 ∨ ∃ o, ph' x = .pc o) → ∀ (bn : BuildNode), ctx'.nodes[x]? ≠ some (some bn) := by
  intro x hx bn' hb
  -- x was unscheduled or recorded before the step
  have hold : ph x = .p0 ∨ ∃ o, ph x = .pc o := by
    rcases sl.st.cases x with e | ⟨_, h0⟩ | ⟨_, hm⟩ | ⟨h1, h2⟩
    · subst e
      rw [sl.st.hni'] at hx
      rcases hx with h | ⟨o, h⟩ <;> rcases sl.st.hv with e | e <;> rw [e] at h <;> cases h
    · exact Or.inl h0
    · exact hm
    · rw [sl.st.hother x h1 h2] at hx; exact hx
  have hno := hl.noNode x hold
  obtain ⟨hmem, _, _⟩ := sl.hnNew x bn' hb hno
  rcases hmem with hc | ⟨_, hr⟩
  · rw [sl.st.hcs' x hc] at hx; rcases hx with h | ⟨o, h⟩ <;> cases h
  · rw [hr] at hx; rcases hx with h | ⟨o, h⟩ <;> cases h

theorem stepL_hasNode (sl : StepL root tree G ph ph' ctx ctx' ni pn vni cs rs suf rsuf l M M')
    (hl : LInv root tree G m0 ph ctx.nodes ctx.rootStack.toList M) :
    ∀ (x : Nat), ph' x ≠ .p0 → (∀ o, ph' x ≠ .pc o) → ∃ bn : BuildNode, ctx'.nodes[x]? = some (some bn) := by
  intro x h0 hc
  have hold : ph x ≠ .p0 → (∀ o, ph x ≠ .pc o) → ∃ bn : BuildNode, ctx'.nodes[x]? = some (some bn) := by
    intro a b
    obtain ⟨bn, hb⟩ := hl.hasNode x a b
    exact sl.hnKeep x bn hb
  rcases sl.st.cases x with e | ⟨e, _⟩ | ⟨e, _⟩ | ⟨h1, h2⟩
  · subst e
    exact hold sl.st.hph.ne0 (fun o h => by rcases sl.st.hph with e | e <;> rw [e] at h <;> cases h)
  · exact sl.hnGet x (Or.inl e)
  · rcases sl.hrsph x e with hp | ⟨o, hp⟩
    · exact sl.hnGet x (Or.inr ⟨e, hp⟩)
    · exact absurd hp (hc o)
  · have := sl.st.hother x h1 h2
    rw [this] at h0
    exact hold h0 (fun o h => hc o (by rw [this]; exact h))

theorem stepL_cpOk (sl : StepL root tree G ph ph' ctx ctx' ni pn vni cs rs suf rsuf l M M')
    (hl : LInv root tree G m0 ph ctx.nodes ctx.rootStack.toList M) :
    ∀ (x : Nat) (bn : BuildNode), ctx'.nodes[x]? = some (some bn) → CPdyn tree G root x bn.conditionalParent := by
  intro x bn' hb
  rcases Classical.em (∃ bn0 : BuildNode, ctx.nodes[x]? = some (some bn0)) with h | h
  · obtain ⟨bn, h1, h2, _⟩ := sl.hnOld x bn' hb h
    rw [h2]; exact hl.cpOk x bn h1
  · exact (sl.hnNew x bn' hb (fun bn hbn => h ⟨bn, hbn⟩)).2.2

theorem stepL_onRoot (sl : StepL root tree G ph ph' ctx ctx' ni pn vni cs rs suf rsuf l M M')
    (hl : LInv root tree G m0 ph ctx.nodes ctx.rootStack.toList M) : ∀ x, ph' x = .pr → x ∈ ctx'.rootStack.toList := by
  intro x hx
  rw [sl.hR]
  rcases sl.st.cases x with e | ⟨e, _⟩ | ⟨e, _⟩ | ⟨h1, h2⟩
  · subst e; rw [sl.st.hni'] at hx; rcases sl.st.hv with e | e <;> rw [e] at hx <;> cases hx
  · rw [sl.st.hcs' x e] at hx; cases hx
  · exact List.mem_append_right _ ((sl.hrsuf x).2 ⟨e, hx⟩)
  · rw [sl.st.hother x h1 h2] at hx; exact List.mem_append_left _ (hl.onRoot x hx)

theorem stepL_sched (sl : StepL root tree G ph ph' ctx ctx' ni pn vni cs rs suf rsuf l M M')
    (hl : LInv root tree G m0 ph ctx.nodes ctx.rootStack.toList M) :
    ∀ y c, G y → ILink tree y c → (ph' y = .p2 ∨ ph' y = .p3) → ph' c ≠ .p0 := by
  intro y c hy hc hyv
  rcases sl.st.vis' hyv with e | ⟨_, hyv0, _⟩
  · subst e
    rcases sl.st.hph with h1 | h2
    · rw [sl.st.hcs' c (sl.hall h1 c hc)]; intro h; cases h
    · exact sl.ne0 (hl.sched y c hy hc (Or.inl h2))
  · exact sl.ne0 (hl.sched y c hy hc hyv0)

theorem stepL_recd (sl : StepL root tree G ph ph' ctx ctx' ni pn vni cs rs suf rsuf l M M')
    (hl : LInv root tree G m0 ph ctx.nodes ctx.rootStack.toList M) :
    ∀ x o, ph' x = .pc o → ∃ (k : Nat) (kn : ParseNode) (bn : BuildNode), tree[k]? = some kn ∧ isJumpIf kn.definition = true ∧
      kn.right = some x ∧ CP tree G root k o ∧ ph' k = .p3 ∧ ctx'.nodes[o]? = some (some bn) ∧ x ∈ itemsOf bn := by
  intro x o hx
  have hold : ph x = .pc o → ph' x = .pc o → ∃ (k : Nat) (kn : ParseNode) (bn : BuildNode), tree[k]? = some kn ∧
      isJumpIf kn.definition = true ∧ kn.right = some x ∧ CP tree G root k o ∧ ph' k = .p3 ∧
      ctx'.nodes[o]? = some (some bn) ∧ x ∈ itemsOf bn := by
    intro hp _
    obtain ⟨k, kn, bn, h1, h2, h3, h4, h5, h6, h7⟩ := hl.recd x o hp
    have hkn : k ≠ ni := fun e => sl.st.hph.ne3 (e ▸ h5)
    obtain ⟨bn', hb'⟩ := sl.hnKeep o bn h6
    obtain ⟨bn0, hb0, _, hit⟩ := sl.hnOld o bn' hb' ⟨bn, h6⟩
    rw [h6] at hb0; cases hb0
    refine ⟨k, kn, bn', h1, h2, h3, h4, by rw [sl.st.keep (nm3 h5) hkn]; exact h5, hb', ?_⟩
    rcases hit with e | ⟨c, _, _, e⟩ <;> rw [e]
    · exact h7
    · exact List.mem_append_left _ h7
  rcases sl.st.cases x with e | ⟨e, _⟩ | ⟨e, _⟩ | ⟨h1, h2⟩
  · subst e; rw [sl.st.hni'] at hx; rcases sl.st.hv with e | e <;> rw [e] at hx <;> cases hx
  · rw [sl.st.hcs' x e] at hx; cases hx
  · rcases sl.hrsFrom x e with ⟨h0, hr⟩ | ⟨_, _, hp, _⟩
    · obtain ⟨hj, bn, parent, hn, hcp, hpar, bn', hb', hit⟩ := sl.hcond x o e hx
      have hv3 := sl.hrs3 (List.ne_nil_of_mem e)
      refine ⟨ni, pn, bn', sl.st.hpn, hj, hr, ?_, by rw [sl.st.hni']; exact hv3, hb', by rw [hit]; simp⟩
      have := hl.cpOk ni bn hn
      rw [hcp] at this; exact this
    · rw [hp] at hx; cases hx
  · have := sl.st.hother x h1 h2
    rw [this] at hx
    exact hold hx (by rw [this]; exact hx)

end Garnish.Lemmas.BuildSeq
