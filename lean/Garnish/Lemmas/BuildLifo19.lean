/-
C04, builder half — the order of the out-of-line parts, part 19: `build`.
-/
import Garnish.Lemmas.BuildLifo18
namespace Garnish.Lemmas.BuildSeq
open Garnish Garnish.Gen Garnish.Model.Parser Garnish.Model.Literals Garnish.Model.Build Garnish.Lemmas.Build
open Garnish.Lemmas.BuildTotal
open Garnish.Lemmas.BuildOrder (Above Attr)
open Garnish.Lemmas.BuildAttr (setNodeIdx_sat_eq)

variable {F : Type} {root : Nat} {tree : Array ParseNode} {G : Nat → Prop}

/-- what a successful build guarantees about the out-of-line parts -/
def LFacts (tree : Array ParseNode) (root m0 : Nat) (M : Array (Option Nat)) : Prop :=
  (∀ x z, PrecL tree (InTree tree root) root x z → ∀ kx kz : Nat, m0 ≤ kx → m0 ≤ kz → M[kx]? = some (some x) →
    M[kz]? = some (some z) → kx < kz) ∧
  (∀ x kx : Nat, m0 ≤ kx → M[kx]? = some (some x) → Sub tree root x) ∧
  (∀ x kx y c : Nat, m0 ≤ kx → M[kx]? = some (some x) → Sub tree root y → IsChild tree y c → Sub tree c x →
    ILink tree y c ∨ (OolChild tree y c ∧ ∃ s, Sched tree (InTree tree root) root c s y)) ∧
  (∀ (x kx : Nat) (pn : ParseNode), m0 ≤ kx → M[kx]? = some (some x) → tree[x]? = some pn → pn.definition ≠ .group) ∧
  (∀ (x kx : Nat), m0 ≤ kx → M[kx]? = some (some x) → ∃ pn, tree[x]? = some pn)

mutual
theorem CP.toTree (V : Validated root tree G) : ∀ {x cp : Nat}, Sub tree root x → CP tree G root x cp →
    CP tree (InTree tree root) root x cp
  | _, _, _, .logical h1 h2 h3 => .logical h1 h2 h3
  | _, _, hx, .inherit h1 h2 h3 h4 =>
    .inherit h1 h2 h3 (CP.toTree V (anc_reachable V (else_G V h1 h2) hx (Sub.step (Sub.refl _) ⟨_, h1, h3⟩)) h4)
  | _, _, hx, .top h1 h2 h3 h4 =>
    .top h1 h2 h3 (NCP.toTree V (anc_reachable V (else_G V h1 h2) hx (Sub.step (Sub.refl _) ⟨_, h1, h3⟩)) h4)
theorem NCP.toTree (V : Validated root tree G) : ∀ {x : Nat}, Sub tree root x → NCP tree G root x →
    NCP tree (InTree tree root) root x
  | _, _, .root => .root
  | _, hx, .other h0 h1 h2 h3 h4 =>
    .other (Or.inl (anc_reachable V h0 hx (Sub.step (Sub.refl _) ⟨_, h1, h2⟩))) h1 h2 h3 h4
end

theorem Sched.toTree (V : Validated root tree G) {r s k : Nat} (hk : Sub tree root k) (h : Sched tree G root r s k) :
    Sched tree (InTree tree root) root r s k := by
  obtain ⟨pn, h1, h2, h3⟩ := h
  refine ⟨pn, h1, h2, ?_⟩
  rcases h3 with ⟨e, h4 | ⟨h4, h5⟩⟩ | ⟨h4, h5, h6⟩
  · exact Or.inl ⟨e, Or.inl h4⟩
  · exact Or.inl ⟨e, Or.inr ⟨h4, h5.toTree V hk⟩⟩
  · exact Or.inr ⟨h4, h5.toTree V hk, h6⟩

section
variable (parseFloat : List Char → Option F)

theorem buildCore_lifo (V : Validated root tree G) (fuel : Nat) (data : BState F) :
    Sat (fun r => LFacts tree root data.metadata.size r.1.metadata) (buildCore parseFloat fuel root tree data) := by
  unfold buildCore
  dsimp only
  refine sat_bind (setNodeIdx_sat_eq _ _ _ _) (fun N hN => ?_)
  subst hN
  let ph0 : Nat → Phase := fun x => if x = root then .pr else .p0
  have hph0 : ∀ x, (x = root ∧ ph0 x = .pr) ∨ (x ≠ root ∧ ph0 x = .p0) := by
    intro x; simp only [ph0]
    rcases Classical.em (x = root) with h | h
    · exact Or.inl ⟨h, by simp [h]⟩
    · exact Or.inr ⟨h, by simp [h]⟩
  have hget : ∀ (x : Nat) (bn : BuildNode),
      (putNode (Array.replicate tree.size none) root (BuildNode.new root (getJumpTableLen data)))[x]? = some (some bn) →
      x = root ∧ bn = BuildNode.new root (getJumpTableLen data) := by
    intro x bn hx
    rw [getElem?_putNode] at hx
    rcases Classical.em (root = x) with hrx | hrx
    · rw [if_pos hrx] at hx
      split at hx
      · cases hx; exact ⟨hrx.symm, rfl⟩
      · cases hx
    · rw [if_neg hrx] at hx
      simp [Array.getElem?_replicate] at hx
  have hroot : root < tree.size := G_lt V V.rootIn
  have hgetroot : (putNode (Array.replicate tree.size none) root (BuildNode.new root (getJumpTableLen data)))[root]? =
      some (some (BuildNode.new root (getJumpTableLen data))) := by
    rw [getElem?_putNode, if_pos rfl, if_pos (by simpa using hroot)]
  have hinv : Inv root tree G ph0
      (⟨data, putNode (Array.replicate tree.size none) root (BuildNode.new root (getJumpTableLen data)), #[root], #[]⟩ : Ctx F) := by
    refine ⟨by simp, fun x hx => by simp at hx, by simp, fun x hx => ?_, by simp [size_putNode], ?_, ?_, ?_, ?_, ?_, ?_⟩
    · have : x = root := by simpa using hx
      subst this; exact ⟨V.rootIn, by simp [ph0]⟩
    · intro x bn _ hp2
      simp only [ph0] at hp2
      split at hp2 <;> cases hp2
    · intro x bn hx _ it hit
      obtain ⟨_, hb⟩ := hget x bn hx
      subst hb
      simp [BuildNode.new] at hit
    · intro x bn hx _
      obtain ⟨_, hb⟩ := hget x bn hx
      subst hb
      simp [BuildNode.new]
    · intro c _ hc0
      simp only [ph0] at hc0
      split at hc0
      · rename_i hcr; exact Or.inl hcr
      · exact absurd rfl hc0
    · intro x pn _ hp2
      simp only [ph0] at hp2
      split at hp2 <;> cases hp2
    · intro x bn hx
      obtain ⟨hxr, hb⟩ := hget x bn hx
      subst hb; subst hxr; rfl
  have hnoattr : ∀ x, ¬ Attr data.metadata.size data.metadata x := by
    intro x ⟨k, hk, hm⟩
    rw [Array.getElem?_eq_none hk] at hm; cases hm
  have hnact : ∀ x, ¬ Act ph0 x := by
    intro x hx
    rcases hph0 x with ⟨_, h⟩ | ⟨_, h⟩ <;> rcases hx with h' | h' <;> rw [h] at h' <;> cases h'
  have hnvis : ∀ x, ¬ (ph0 x = .p2 ∨ ph0 x = .p3) := by
    intro x hx
    rcases hph0 x with ⟨_, h⟩ | ⟨_, h⟩ <;> rcases hx with h' | h' <;> rw [h] at h' <;> cases h'
  have hn3 : ∀ x, ph0 x ≠ .p3 := fun x h => hnvis x (Or.inr h)
  have hnpc : ∀ x o, ph0 x ≠ .pc o := by
    intro x o h'
    rcases hph0 x with ⟨_, h⟩ | ⟨_, h⟩ <;> rw [h] at h' <;> cases h'
  have hpr : ∀ x, ph0 x = .pr → x = root := by
    intro x h'
    rcases hph0 x with ⟨h, _⟩ | ⟨_, h⟩
    · exact h
    · rw [h] at h'; cases h'
  have hstarted : ∀ x, (ph0 x = .pr ∨ ph0 x = .p1 ∨ ph0 x = .p2 ∨ ph0 x = .p3) → x = root := by
    intro x h'
    rcases hph0 x with ⟨h, _⟩ | ⟨_, h⟩
    · exact h
    · rw [h] at h'; rcases h' with h' | h' | h' | h' <;> cases h'
  -- the root is nobody's child
  have hnoparent : ∀ k, G k → ¬ IsChild tree k root := fun k hk hc => child_ne_root V hk hc rfl
  have ho : FInv root tree G data.metadata.size ph0 []
      (putNode (Array.replicate tree.size none) root (BuildNode.new root (getJumpTableLen data))) data.metadata := by
    refine ⟨⟨List.nodup_nil, ?_, ?_, ?_, ?_, ?_, ?_, ?_, ?_, ?_, ?_, ?_, ?_, ?_⟩, ⟨?_, ?_, ?_⟩, Nat.le_refl _⟩
    · intro x hx; exact absurd hx (hnact x)
    · intro x hx; exact absurd hx (hnoattr x)
    · intro y pn _ _ hy; exact absurd hy (hnoattr y)
    · intro y c hy hc
      have hcr := child_ne_root V hy hc.isChild
      simp only [ph0, hcr, if_false]
      exact ⟨(fun h => by cases h), (fun o h => by cases h)⟩
    · intro y a b x _ _ _ hx; exact absurd hx (hnact x)
    · intro y a b x _ _ _ _; exact hnact x
    · intro y c x _ _ _ hx; exact absurd hx (hnact x)
    · intro y c x _ _ _ _; exact hnact x
    · intro y c z _ _ _ hz; exact absurd hz (hnact z)
    · intro y c z _ _ _ hz; exact absurd hz (hnvis z)
    · intro ρ y r x _ _ _ _ _; exact hnact x
    · intro x bn hx _
      obtain ⟨_, hb⟩ := hget x bn hx
      subst hb; rfl
    · intro x z _ kx kz hkx _ hmx _
      rw [Array.getElem?_eq_none hkx] at hmx; cases hmx
    · intro y pn _ _ hy; exact absurd hy (hnvis y)
    · intro y pn c x kx _ _ _ _ _ hkx hmx
      rw [Array.getElem?_eq_none hkx] at hmx; cases hmx
    · intro y pn c x kx _ _ _ _ _ hkx hmx
      rw [Array.getElem?_eq_none hkx] at hmx; cases hmx
  have hl : LInv root tree G data.metadata.size ph0
      (putNode (Array.replicate tree.size none) root (BuildNode.new root (getJumpTableLen data))) [root] data.metadata := by
    refine ⟨?_, ?_, ?_, ?_, ?_, ?_, ?_, ?_, ?_, ?_, ?_, ?_, ?_, ?_, ?_, ?_, ?_⟩
    · intro x hx
      rcases hph0 x with ⟨h, _⟩ | ⟨_, h⟩
      · rw [h]; exact Sub.refl _
      · exact absurd h hx
    · intro x hx bn hb
      obtain ⟨hxr, _⟩ := hget x bn hb
      rcases hx with h | ⟨o, h⟩
      · rcases hph0 x with ⟨_, h'⟩ | ⟨h', _⟩
        · rw [h'] at h; cases h
        · exact h' hxr
      · exact hnpc x o h
    · intro x hx _
      rcases hph0 x with ⟨h, _⟩ | ⟨_, h⟩
      · rw [h]; exact ⟨_, hgetroot⟩
      · exact absurd h hx
    · intro x bn hb
      obtain ⟨hxr, hbn⟩ := hget x bn hb
      subst hbn; subst hxr
      exact NCP.root
    · intro x hx; rw [hpr x hx]; simp
    · intro y c _ _ hy; exact absurd hy (hnvis y)
    · intro x o hx; exact absurd hx (hnpc x o)
    · intro r s k _ hs; exact absurd hs (hn3 s)
    · intro r s k _ hk; exact absurd hk (hn3 k)
    · intro r s k ha hr
      have := hstarted r hr
      subst this
      exact absurd ha.ool.isChild (hnoparent k (ha.kG V))
    · intro r1 r2 x hrel hsx hxp
      have hx := hpr x hxp
      subst hx
      obtain ⟨_, hr2G, _⟩ := hrel.facts V
      obtain ⟨ρ, s1, k1, s2, k2, hρ, hd1, hd2, hs1, hs2, _⟩ := hrel
      have hk2G := idesc_G V (idesc_G V hρ hd2) hs2.idesc
      -- r2 is an ancestor of the root, so it is the root, which is nobody's child
      cases hsx with
      | refl => exact absurd hs2.ool.isChild (hnoparent k2 hk2G)
      | step h1 h2 => exact absurd h2 (hnoparent _ (sub_G V hr2G h1))
    · intro r1 r2 x _ _ hx; exact absurd hx (hnact x)
    · intro r1 r2 s k1 k2 bn _ _ _ hr2; exact absurd hr2 (hnpc r2 s)
    · intro k r hk hool hr
      have := hstarted r hr
      subst this
      exact absurd hool.isChild (hnoparent k hk)
    · intro y c hy hc _ _
      rcases hph0 c with ⟨h, _⟩ | ⟨_, h⟩
      · subst h; exact absurd hc (hnoparent y hy)
      · exact h
    · intro x pn _ _ hx; exact absurd hx (hnoattr x)
    · intro x z _ kx kz hkx _ hmx _
      rw [Array.getElem?_eq_none hkx] at hmx; cases hmx
  refine sat_bind (rootLoop_lifo parseFloat V fuel fuel ph0 _ hinv ho hl) (fun ctx hctx => ?_)
  obtain ⟨ph', hinv', ho', hl'⟩ := hctx
  split
  · refine ⟨fun x z hp => hl'.ordL x z ?_, ?_, ?_, ?_, ?_⟩
    · obtain ⟨r1, r2, hrel, h1, h2⟩ := hp
      exact ⟨r1, r2, hrel.mono (fun y hy => inTree_G V hy), h1, h2⟩
    · intro x kx hkx hmx
      have := ho'.1.attrVisited x ⟨kx, hkx, hmx⟩
      exact hl'.reach x (by rcases this with h | h <;> rw [h] <;> intro h' <;> cases h')
    · intro x kx y c hkx hmx hy hc hcx
      have hyG := sub_G V V.rootIn hy
      have hcG := (child_facts V hyG hc).1
      have hxv := ho'.1.attrVisited x ⟨kx, hkx, hmx⟩
      have hx0 : ph' x ≠ .p0 := by rcases hxv with h | h <;> rw [h] <;> intro h' <;> cases h'
      have hcv : ph' c = .p2 ∨ ph' c = .p3 := by
        rcases sub_climb V hinv' hcG hcx hx0 with e | e
        · subst e; exact hxv
        · exact e
      rcases Classical.em (ILink tree y c) with hil | hil
      · exact Or.inl hil
      · rcases Classical.em (OolChild tree y c) with hoo | hoo
        · obtain ⟨s, hs⟩ := hl'.schedEx y c hyG hoo (by rcases hcv with h | h <;> simp [h])
          exact Or.inr ⟨hoo, s, hs.toTree V hy⟩
        · have := hl'.ignored y c hyG hc hil hoo
          rw [this] at hcv; rcases hcv with h | h <;> cases h
    · intro x kx pn hkx hmx hpn hd
      exact hl'.noGroup x pn hpn hd ⟨kx, hkx, hmx⟩
    · intro x kx hkx hmx
      have := ho'.1.attrVisited x ⟨kx, hkx, hmx⟩
      have hxr := hl'.reach x (by rcases this with h | h <;> rw [h] <;> intro h' <;> cases h')
      obtain ⟨pn, hpn, _⟩ := V.closed x (sub_G V V.rootIn hxr)
      exact ⟨pn, hpn⟩
  · exact sat_buildErr

/-- after a successful `build`: the out-of-line parts are emitted last-pushed-first -/
theorem build_lifo (fuel root : Nat) (data : BState F) :
    Sat (fun r => LFacts tree root data.metadata.size r.1.metadata) (build parseFloat fuel root tree data) := by
  unfold build
  split
  · rename_i hempty
    have hsz : tree.size = 0 := by simpa [Array.isEmpty] using hempty
    have hnone : ∀ (y : Nat) (pn : ParseNode), tree[y]? ≠ some pn := by
      intro y pn h
      rw [Array.getElem?_eq_none (by omega)] at h; cases h
    have hm : ∀ (k : Nat) (v : Option Nat), data.metadata.size ≤ k →
        (pushInstr (pushToJumpTable data (getInstructionLen data)) Instruction.endExpression none none).metadata[k]? = some v →
        v = none := by
      intro k v hk hv
      simp only [pushInstr, pushToJumpTable] at hv
      rw [Array.getElem?_push] at hv
      split at hv
      · cases hv; rfl
      · rw [Array.getElem?_eq_none hk] at hv; cases hv
    refine ⟨?_, ?_, ?_, ?_, ?_⟩
    · intro x z hp
      obtain ⟨r1, r2, ⟨ρ, s1, k1, s2, k2, _, _, _, ⟨pn, h1, _⟩, _⟩, _⟩ := hp
      exact absurd h1 (hnone _ _)
    · intro x kx hkx hmx
      have := hm kx _ hkx hmx; cases this
    · intro x kx y c hkx hmx
      have := hm kx _ hkx hmx; cases this
    · intro x kx pn hkx hmx
      have := hm kx _ hkx hmx; cases this
    · intro x kx hkx hmx
      have := hm kx _ hkx hmx; cases this
  · cases hv : validateParseTree root tree with
    | ok u =>
      cases u
      simp only [bind_ok]
      obtain ⟨G, V⟩ := validateParseTree_ok hv
      exact buildCore_lifo parseFloat V fuel data
    | err e => exact sat_err
    | panic s => exact sat_panic
    | fuelOut => exact sat_fuelOut

end

end Garnish.Lemmas.BuildSeq
