/-
Lemmas/RuntimeStep2.lean over `StoreLawsOn`: a handler that refines a value-level outcome simulates `pushOut` under
`HostRefinesI`; the generic binary / unary arm (with `MDeep` of what remains after the pops).
-/
import Garnish.Lemmas.RuntimeOnLogic
import Garnish.Lemmas.RuntimeStep8
set_option linter.unusedSimpArgs false
set_option linter.unusedVariables false
namespace Garnish.Lemmas.Runtime.On
open Garnish Gen Garnish.Abs Garnish.Model.Equality Garnish.Model.Runtime Garnish.Lemmas.Runtime
open Garnish.Props.RuntimeRefine

variable {F σ : Type} {S : RStore F σ} {Inv : σ → Prop} {Rd : σ → Nat → Prop} {P : Prog F} {host : Host F}

theorem stepSim_of (fo : FloatOps F) (L : StoreLawsOn S Inv Rd) (fuel : Nat) (H : OtherHandlers σ) {s : σ} {m : MState F}
    (hsim : Sim S P s m) {instr : Instruction} {operand : Option Nat}
    (hfetch : P.instrs[m.pc]? = some (instr, operand)) {r : Except ErrClass (MState F × Nat)}
    (hstep : Abs.step fo host P m = finish P r)
    (hh : HandlerSimOn S Inv P s (dispatch fo S fuel H instr operand s) r) :
    StepSimOn fo host S Inv P fuel H s m := stepSimOn_of fo L fuel H hsim hfetch hstep hh

theorem handlerSim_ofEff {s s1 : σ} {m md : MState F} (hd : SimD S P s m.regs m.vals m.frames)
    {res : Outcome (Option Nat × σ)} {next : Option Nat} {R V : List Nat} {n : Nat}
    (h1 : res = .ok (next, s1)) (e : EffI S Inv s s1 R V)
    (hr : DecodesList (S.view s1) R md.regs) (hv : DecodesList (S.view s1) V md.vals) (hf : md.frames = m.frames)
    (hn : next.getD (S.cursor s + 1) = n) : HandlerSimOn S Inv P s res (.ok (md, n)) :=
  handlerSimOn_ofEff hd h1 e.toEff e.inv hr hv hf hn

theorem Sim.tail {s s1 : σ} {R V : List Nat} (e : EffI S Inv s s1 R V) {ps : List Nat} {pvs : List (Val F)}
    (h : DecodesList (S.view s) ps pvs) : DecodesList (S.view s1) ps pvs := decodesList_keeps e.keeps h

/-- a handler that refines a value-level outcome simulates `pushOut` (any number of operands popped: `rest` /
`mrest` are what remains); `hdefer` says the deferred operands are the ones at `la`, `ra` (`none` for the unary
filler) -/
theorem handlerSim_of_refines (HR : HostRefinesI S Inv host) {s : σ} {m : MState F} (hpc : S.cursor s = m.pc)
    {rest : List Nat} {mrest : List (Val F)} (hrest : DecodesList (S.view s) rest mrest)
    (hvals : DecodesList (S.view s) (S.vals s) m.vals) (hfr : FramesRel (S.view s) (S.frames s) m.frames)
    (hprog : (∀ i, S.instruction s i = P.instrs[i]?) ∧ (∀ j, S.jumpTable s j = P.jumps[j]?) ∧
      S.instrLen s = P.instrs.size)
    {la ra : Nat} {o : OpOut F} {res : Outcome (Option Nat × σ)} {next : Option Nat}
    (hnext : next.getD (S.cursor s + 1) = m.pc + 1)
    (href : RefinesOutI S Inv s res next rest la ra o)
    (hdefer : ∀ op a b, o = .defer op a b →
      Decodes (S.view s) la a ∧ (Decodes (S.view s) ra b ∨ (b = .unit ∧ ra = 0))) :
    HandlerSimOn S Inv P s res (seqR m (pushOut host { m with regs := mrest } o)) := by
  have base : SimD S P s mrest m.vals m.frames → True := fun _ => trivial
  cases o with
  | err e => trivial
  | val v =>
    obtain ⟨a, s1, h1, d1, e1⟩ := href
    refine ⟨next, s1, h1, hnext, e1.keeps.cur, ?_⟩
    refine ⟨⟨e1.regs ▸ .cons d1 (decodesList_keeps e1.keeps hrest), e1.vals ▸ decodesList_keeps e1.keeps hvals,
      e1.frames ▸ framesRel_keeps e1.keeps hfr, fun i => by rw [e1.keeps.instr]; exact hprog.1 i,
      fun j => by rw [e1.keeps.jump]; exact hprog.2.1 j, by rw [e1.keeps.ilen]; exact hprog.2.2⟩,
      e1.keeps.dec, e1.inv⟩
  | defer op a b =>
    obtain ⟨s0, e0, hprot⟩ := href
    obtain ⟨da, db⟩ := hdefer op a b rfl
    have hrest0 := decodesList_keeps e0.keeps hrest
    have hvals0 := decodesList_keeps e0.keeps hvals
    have hfr0 := framesRel_keeps e0.keeps hfr
    -- the host's answer, for either kind of right operand
    have hans : HostAnswerI S Inv (S.deferOp op (a.typeOf, la) (b.typeOf, ra)) s0 (host.defer op a b) := by
      rcases db with db | ⟨rfl, rfl⟩
      · exact HR.defer op la ra a b s0 e0.inv (e0.dec da) (e0.dec db)
      · exact HR.deferUnary op la a s0 e0.inv (e0.dec da)
    unfold DeferProtocolI at hprot
    simp only [pushOut, seqR]
    cases hh : host.defer op a b with
    | some v =>
      rw [hh] at hans
      obtain ⟨x, s1, h1, d1, he⟩ := hans
      rw [h1] at hprot
      simp only [] at hprot ⊢
      refine ⟨next, s1, hprot, hnext, he.keeps.cur.trans e0.keeps.cur, ?_⟩
      refine ⟨⟨he.regs ▸ e0.regs ▸ .cons d1 (decodesList_keeps he.keeps hrest0),
        he.vals ▸ e0.vals ▸ decodesList_keeps he.keeps hvals0,
        he.frames ▸ e0.frames ▸ framesRel_keeps he.keeps hfr0,
        fun i => by rw [he.keeps.instr, e0.keeps.instr]; exact hprog.1 i,
        fun j => by rw [he.keeps.jump, e0.keeps.jump]; exact hprog.2.1 j,
        by rw [he.keeps.ilen, e0.keeps.ilen]; exact hprog.2.2⟩,
        (e0.keeps.trans he.keeps).dec, he.inv⟩
    | none =>
      rw [hh] at hans
      obtain ⟨s1, h1, he⟩ := hans
      rw [h1] at hprot
      simp only [] at hprot ⊢
      obtain ⟨u, s2, h2, d2, e2⟩ := hprot he.inv
      refine ⟨next, s2, h2, hnext, e2.keeps.cur.trans (he.keeps.cur.trans e0.keeps.cur), ?_⟩
      have k12 := he.keeps.trans e2.keeps
      refine ⟨⟨e2.regs ▸ he.regs ▸ e0.regs ▸ .cons d2 (decodesList_keeps k12 hrest0),
        e2.vals ▸ he.vals ▸ e0.vals ▸ decodesList_keeps k12 hvals0,
        e2.frames ▸ he.frames ▸ e0.frames ▸ framesRel_keeps k12 hfr0,
        fun i => by rw [e2.keeps.instr, he.keeps.instr, e0.keeps.instr]; exact hprog.1 i,
        fun j => by rw [e2.keeps.jump, he.keeps.jump, e0.keeps.jump]; exact hprog.2.1 j,
        by rw [e2.keeps.ilen, he.keeps.ilen, e0.keeps.ilen]; exact hprog.2.2⟩,
        (e0.keeps.trans k12).dec, e2.inv⟩



section
variable (fo : FloatOps F)

/-- a binary instruction of the generic arm -/
theorem stepSim_binary (L : StoreLawsOn S Inv Rd) (HR : HostRefinesI S Inv host) (fuel : Nat) (H : OtherHandlers σ)
    {s : σ} {m : MState F} (hsim : Sim S P s m) {op : Instruction} {operand : Option Nat}
    (hfetch : P.instrs[m.pc]? = some (op, operand)) (hgen : isGeneric op = true)
    {vr vl : Val F} {rs : List (Val F)} (hregs : m.regs = vr :: vl :: rs) {o : OpOut F}
    (hu : unaryOp fo op vr = none) (hb : binaryOp fo op vl vr = some o)
    (href : ∀ r l rest, S.regs s = r :: l :: rest → Deep S s rest → Decodes (S.view s) l vl → Decodes (S.view s) r vr →
      RefinesOutI S Inv s (dispatch fo S fuel H op operand s) none rest l r o)
    (hdefer : ∀ op' a b, o = .defer op' a b → a = vl ∧ b = vr) (hi : Inv s) (hm : MDeep m rs) :
    StepSimOn fo host S Inv P fuel H s m := by
  obtain ⟨hpc, hd⟩ := hsim
  have hdr := hd.regs
  rw [hregs] at hdr
  obtain ⟨r, as1, e1, dr, t1⟩ := decodesList_cons_inv hdr
  obtain ⟨l, rest, e2, dl, t2⟩ := decodesList_cons_inv t1
  subst e2
  refine stepSim_of fo L fuel H ⟨hpc, hd⟩ hfetch
    (by rw [step_generic_binary fo hfetch hgen hregs hu hb, seqNext_eq]) ?_
  exact handlerSim_of_refines HR hpc t2 hd.vals hd.frames ⟨hd.instrs, hd.jumps, hd.ilen⟩ (by simp [hpc])
    (href r l rest e1 (deep_of_sim hd t2 hm) dl dr)
    (fun op' a b ho => by obtain ⟨rfl, rfl⟩ := hdefer op' a b ho; exact ⟨dl, Or.inl dr⟩)

/-- a unary instruction of the generic arm -/
theorem stepSim_unary (L : StoreLawsOn S Inv Rd) (HR : HostRefinesI S Inv host) (fuel : Nat) (H : OtherHandlers σ)
    {s : σ} {m : MState F} (hsim : Sim S P s m) {op : Instruction} {operand : Option Nat}
    (hfetch : P.instrs[m.pc]? = some (op, operand)) (hgen : isGeneric op = true)
    {v : Val F} {rs : List (Val F)} (hregs : m.regs = v :: rs) {o : OpOut F}
    (hu : unaryOp fo op v = some o)
    (href : ∀ a rest, S.regs s = a :: rest → Deep S s rest → Decodes (S.view s) a v →
      RefinesOutI S Inv s (dispatch fo S fuel H op operand s) none rest a 0 o)
    (hdefer : ∀ op' a b, o = .defer op' a b → a = v ∧ b = .unit) (hi : Inv s) (hm : MDeep m rs) :
    StepSimOn fo host S Inv P fuel H s m := by
  obtain ⟨hpc, hd⟩ := hsim
  have hdr := hd.regs
  rw [hregs] at hdr
  obtain ⟨a, rest, e1, da, t1⟩ := decodesList_cons_inv hdr
  refine stepSim_of fo L fuel H ⟨hpc, hd⟩ hfetch
    (by rw [step_generic_unary fo hfetch hgen hregs hu, seqNext_eq]) ?_
  exact handlerSim_of_refines HR hpc t1 hd.vals hd.frames ⟨hd.instrs, hd.jumps, hd.ilen⟩ (by simp [hpc])
    (href a rest e1 (deep_of_sim hd t1 hm) da)
    (fun op' x b ho => by obtain ⟨rfl, rfl⟩ := hdefer op' x b ho; exact ⟨da, Or.inr ⟨rfl, rfl⟩⟩)


end

end Garnish.Lemmas.Runtime.On
