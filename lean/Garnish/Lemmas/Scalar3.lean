/-
In a scalar state the residual side condition `DynOK` of every instruction of the scalar class holds (`dynOK_of_scalar`): comparisons
and equality of scalars need fuel 1 resp. 3, `Apply` on scalars enters a body, asks the host or defers.
-/
import Garnish.Lemmas.Scalar2
import Garnish.Lemmas.DynFree
set_option linter.unusedSimpArgs false
set_option linter.unusedVariables false
namespace Garnish.Lemmas.Scalar
open Garnish Gen Garnish.Abs Garnish.Model.Equality Garnish.Model.Runtime Garnish.Lemmas.Runtime
open Garnish.Lemmas.Runtime.On Garnish.Lemmas.NoCustom Garnish.Props.RuntimeRefine

variable {F σ : Type} (fo : FloatOps F)

theorem textLen_scalar {v : Val F} (h : scalar v = true) : textLen v = 0 := by
  cases v <;> first | rfl | (cases h; done)

theorem noSlice_scalar {v : Val F} (h : scalar v = true) : NoSlice v := by
  cases v <;> first | rfl | (cases h; done)

theorem vsize_scalar {v : Val F} (h : scalar v = true) : vsize v = 1 := by
  cases v <;> first | rfl | (cases h; done)

theorem compareDomain_scalar {vl vr : Val F} {fuel : Nat} (hl : scalar vl = true) (hr : scalar vr = true)
    (hf : 1 ≤ fuel) : CompareDomain fo fuel vl vr := by
  refine ⟨by rw [textLen_scalar hl]; omega, by rw [textLen_scalar hr]; omega,
    by rw [textLen_scalar hl, textLen_scalar hr]; simpa using hf, ?_⟩
  apply C12_compareValsR_agrees
  intro lv lr rv rr h1 _ _
  subst h1; cases hl

theorem equalDomain_scalar {vl vr : Val F} {fuel : Nat} (hl : scalar vl = true) (hr : scalar vr = true)
    (hf : 3 ≤ fuel) : EqualDomain fuel vl vr :=
  ⟨noSlice_scalar hl, noSlice_scalar hr, by unfold eqFuel; rw [vsize_scalar hl, vsize_scalar hr]; omega⟩

theorem applyDomain_scalar {vl vr : Val F} {fuel : Nat} (hl : scalar vl = true) (hr : scalar vr = true) :
    ApplyDomain fo fuel vl vr := by
  unfold ApplyDomain
  cases vl <;> first | (cases hl; done) | skip
  all_goals (cases vr <;> first | (cases hr; done) | trivial)

theorem applyDyn_scalar (S : RStore F σ) (Inv : σ → Prop) (ur : Bool) {vl vr : Val F} (hl : scalar vl = true)
    (hr : scalar vr = true) : ApplyDyn fo S Inv ur vl vr := by
  unfold ApplyDyn
  cases vl <;> first | (cases hl; done) | skip
  all_goals (cases vr <;> first | (cases hr; done) | trivial)

/-- in a scalar state the residual side condition of every instruction of the scalar class holds (fuel ≥ 3 for the
equality work-list) -/
theorem dynOK_of_scalar (S : RStore F σ) (Inv : σ → Prop) (P : Prog F) {fuel : Nat} (hf : 3 ≤ fuel) {m : MState F}
    (hs : ScalarState m) {i : Instruction} (o : Option Nat) (hi : scalarInstr i = true) :
    DynOK fo S Inv P fuel m i o := by
  have two : ∀ vr vl rs, m.regs = vr :: vl :: rs → scalar vr = true ∧ scalar vl = true := fun vr vl rs h =>
    ⟨(head_scalar hs.regs h).1, (head_scalar (head_scalar hs.regs h).2 rfl).1⟩
  cases i <;> first
    | trivial
    | (cases hi; done)
    | exact fun vr vl rs h => compareDomain_scalar fo (two vr vl rs h).2 (two vr vl rs h).1 (by omega)
    | exact fun vr vl rs h => equalDomain_scalar (two vr vl rs h).2 (two vr vl rs h).1 hf
    | exact fun vr vl rs h => ⟨applyDomain_scalar fo (two vr vl rs h).2 (two vr vl rs h).1,
        applyDyn_scalar fo S Inv true (two vr vl rs h).2 (two vr vl rs h).1⟩
    | exact fun vl rs h => ⟨applyDomain_scalar fo (head_scalar hs.regs h).1 rfl,
        applyDyn_scalar fo S Inv false (head_scalar hs.regs h).1 rfl⟩

end Garnish.Lemmas.Scalar
