/-
Totality of the emitting traversal of `build` on validated trees — part 1: phases, the potential, the invariant.

Every node of the marked set `G` (Lemmas/Build.lean, `Validated`) goes through the phases
  p0 (not scheduled) → [pc h (recorded as an arm of the else-chain headed by h)] → [pr (pending root)] →
  p1 (on `stack`, first visit pending) → [p2 (on `stack`, second visit pending)] → p3 (done)
and never goes back: a node is scheduled only by its unique parent, in one fixed visit of that parent (`Inv.fresh`).
`total ph n = Σ_{i<n} rank (ph i)` drops by at least one in every iteration of either work-list loop and starts below
`5·n`, which bounds the iterations by `defaultFuel n = 20·n + 100`.  The phases are ghost state: `Inv ph ctx` ties them
to the real `stack` / `root_stack` / `nodes`.
-/
import Garnish.Lemmas.Build
namespace Garnish.Lemmas.BuildTotal
open Garnish Garnish.Gen Garnish.Model.Parser Garnish.Model.Literals Garnish.Model.Build Garnish.Lemmas.Build

/-! ### outcomes that are values or errors -/

/-- `Good P x` : `x` is neither a panic nor out of fuel, and if it is `ok a` then `P a` -/
def Good {α : Type} (P : α → Prop) : Outcome α → Prop
  | .ok a => P a
  | .err _ => True
  | .panic _ => False
  | .fuelOut => False

section
variable {α β : Type} {P : α → Prop}
@[simp] theorem good_ok {a : α} : Good P (.ok a) ↔ P a := Iff.rfl
@[simp] theorem good_err {e : ErrClass} : Good P (.err e : Outcome α) := trivial
@[simp] theorem good_buildErr : Good P (buildErr : Outcome α) := trivial

theorem good_bind {x : Outcome α} {f : α → Outcome β} {Q : α → Prop} {R : β → Prop}
    (hx : Good Q x) (hf : ∀ a, Q a → Good R (f a)) : Good R (Outcome.bind x f) := by
  cases x <;> simp_all [Outcome.bind, Good]

theorem good_mono {x : Outcome α} {Q : α → Prop} (hx : Good Q x) (h : ∀ a, Q a → P a) : Good P x := by
  cases x <;> simp_all [Good]

theorem good_of_satNP {x : Outcome α} (h : SatNP P x) (hf : x ≠ .fuelOut) : Good P x := by
  cases x <;> simp_all [Good, SatNP]

theorem good_returns {x : Outcome α} (h : Good P x) : (∃ a, x = .ok a) ∨ (∃ e, x = .err e) := by
  cases x with
  | ok a => exact Or.inl ⟨a, rfl⟩
  | err e => exact Or.inr ⟨e, rfl⟩
  | panic s => exact absurd h id
  | fuelOut => exact absurd h id
end

/-! ### phases and the potential -/

inductive Phase where
  | p0
  | pc (owner : Nat)
  | pr
  | p1
  | p2
  | p3
deriving DecidableEq, Repr

def Phase.rank : Phase → Nat
  | .p0 => 5
  | .pc _ => 4
  | .pr => 3
  | .p1 => 2
  | .p2 => 1
  | .p3 => 0

def total (ph : Nat → Phase) : Nat → Nat
  | 0 => 0
  | n + 1 => total ph n + (ph n).rank

theorem total_le (ph : Nat → Phase) : ∀ n, total ph n ≤ 5 * n := by
  intro n
  induction n with
  | zero => simp [total]
  | succ k ih =>
    have : (ph k).rank ≤ 5 := by cases ph k <;> simp [Phase.rank]
    simp only [total]; omega

theorem total_mono {ph ph' : Nat → Phase} : ∀ n, (∀ x, x < n → (ph' x).rank ≤ (ph x).rank) → total ph' n ≤ total ph n := by
  intro n
  induction n with
  | zero => intro _; simp [total]
  | succ k ih =>
    intro h
    have := ih (fun x hx => h x (by omega))
    have := h k (by omega)
    simp only [total]; omega

/-- pointwise not larger and strictly smaller somewhere below `n` -/
theorem total_lt {ph ph' : Nat → Phase} : ∀ n, (∀ x, x < n → (ph' x).rank ≤ (ph x).rank) →
    (∃ x, x < n ∧ (ph' x).rank < (ph x).rank) → total ph' n < total ph n := by
  intro n
  induction n with
  | zero => intro _ ⟨x, hx, _⟩; omega
  | succ k ih =>
    intro h ⟨x, hx, hlt⟩
    simp only [total]
    have hk := h k (by omega)
    rcases Nat.lt_or_ge x k with h1 | h1
    · have := ih (fun y hy => h y (by omega)) ⟨x, h1, hlt⟩
      omega
    · have : x = k := by omega
      subst this
      have := total_mono (ph := ph) (ph' := ph') x (fun y hy => h y (by omega))
      omega

/-! ### tree facts from the validation -/

def IsChild (tree : Array ParseNode) (p c : Nat) : Prop :=
  ∃ pn, tree[p]? = some pn ∧ (pn.left = some c ∨ pn.right = some c)

/-- definitions whose handler schedules the right child in its second visit -/
def isLate (d : Definition) : Bool :=
  d == .jumpIfTrue || d == .jumpIfFalse || d == .and || d == .or

def LateRight (tree : Array ParseNode) (p c : Nat) : Prop :=
  ∃ pn, tree[p]? = some pn ∧ pn.right = some c ∧ isLate pn.definition = true

section tree
variable {root : Nat} {tree : Array ParseNode} {G : Nat → Prop}

theorem G_lt (V : Validated root tree G) {i : Nat} (h : G i) : i < tree.size := by
  obtain ⟨pn, hpn, _⟩ := V.closed i h
  rcases Nat.lt_or_ge i tree.size with h1 | h1
  · exact h1
  · rw [Array.getElem?_eq_none h1] at hpn; cases hpn

theorem child_facts (V : Validated root tree G) {p c : Nat} (hp : G p) (hc : IsChild tree p c) :
    G c ∧ ∃ cn, tree[c]? = some cn ∧ cn.parent = some p := by
  obtain ⟨pn, hpn, hlr⟩ := hc
  obtain ⟨pn', hpn', hl, hr, _⟩ := V.closed p hp
  rw [hpn] at hpn'; cases hpn'
  rcases hlr with h | h
  · exact hl c h
  · exact hr c h

theorem parent_unique (V : Validated root tree G) {p p' c : Nat} (hp : G p) (hp' : G p')
    (hc : IsChild tree p c) (hc' : IsChild tree p' c) : p = p' := by
  obtain ⟨_, cn, h1, h2⟩ := child_facts V hp hc
  obtain ⟨_, cn', h1', h2'⟩ := child_facts V hp' hc'
  rw [h1] at h1'; cases h1'
  rw [h2] at h2'; cases h2'; rfl

theorem child_ne_root (V : Validated root tree G) {p c : Nat} (hp : G p) (hc : IsChild tree p c) : c ≠ root := by
  intro h; subst h
  obtain ⟨_, cn, h1, h2⟩ := child_facts V hp hc
  obtain ⟨rn, h3, h4⟩ := V.rootParent
  rw [h1] at h3; cases h3
  rw [h2] at h4; cases h4

theorem left_ne_right (V : Validated root tree G) {p : Nat} (hp : G p) {pn : ParseNode} (hpn : tree[p]? = some pn) {l r : Nat}
    (hl : pn.left = some l) (hr : pn.right = some r) : l ≠ r := by
  obtain ⟨pn', hpn', _, _, hd⟩ := V.closed p hp
  rw [hpn] at hpn'; cases hpn'
  exact hd l r hl hr
end tree


/-! ### the invariant -/

/-- the parent `p` has passed the visit in which it schedules its child `c` -/
def SchedDone (tree : Array ParseNode) (ph : Nat → Phase) (p c : Nat) : Prop :=
  (ph p = .p2 ∨ ph p = .p3) ∧ (LateRight tree p c → ph p = .p3)

structure Inv {F : Type} (root : Nat) (tree : Array ParseNode) (G : Nat → Prop) (ph : Nat → Phase) (ctx : Ctx F) : Prop where
  stackNodup : ctx.stack.toList.Nodup
  stackOk : ∀ x, x ∈ ctx.stack.toList → G x ∧ (ph x = .p1 ∨ ph x = .p2)
  rootNodup : ctx.rootStack.toList.Nodup
  rootOk : ∀ x, x ∈ ctx.rootStack.toList → G x ∧ ph x = .pr
  size : ctx.nodes.size = tree.size
  init : ∀ (x : Nat) (bn : BuildNode), ctx.nodes[x]? = some (some bn) → ph x = .p2 → bn.state = .initialized
  items : ∀ (x : Nat) (bn : BuildNode), ctx.nodes[x]? = some (some bn) → ph x ≠ .p3 →
    ∀ it, it ∈ bn.conditionalItems.toList → G it.nodeIndex ∧ ph it.nodeIndex = .pc x
  itemsNodup : ∀ (x : Nat) (bn : BuildNode), ctx.nodes[x]? = some (some bn) → ph x ≠ .p3 →
    (bn.conditionalItems.toList.map (·.nodeIndex)).Nodup
  fresh : ∀ c, G c → ph c ≠ .p0 → c = root ∨ ∃ p, G p ∧ IsChild tree p c ∧ SchedDone tree ph p c
  p2two : ∀ (x : Nat) (pn : ParseNode), tree[x]? = some pn → ph x = .p2 →
    pn.definition ≠ .group ∧ pn.definition ≠ .nestedExpression
  pni : ∀ (x : Nat) (bn : BuildNode), ctx.nodes[x]? = some (some bn) → bn.parseNodeIndex = x

/-! ### node assignments -/

/-- `nodes[i] = Some(b)` for the listed pairs, in order -/
def assign (nodes : Nodes) (asg : List (Nat × BuildNode)) : Nodes :=
  asg.foldl (fun N p => putNode N p.1 p.2) nodes

theorem getElem?_putNode (nodes : Nodes) (i : Nat) (b : BuildNode) (x : Nat) :
    (putNode nodes i b)[x]? = if i = x then (if i < nodes.size then some (some b) else none) else nodes[x]? := by
  unfold putNode
  rw [Array.getElem?_setIfInBounds]

theorem size_putNode (nodes : Nodes) (i : Nat) (b : BuildNode) : (putNode nodes i b).size = nodes.size := by
  simp [putNode]

theorem assign_size : ∀ (asg : List (Nat × BuildNode)) (nodes : Nodes), (assign nodes asg).size = nodes.size := by
  intro asg
  induction asg with
  | nil => intro nodes; rfl
  | cons p rest ih => intro nodes; simp only [assign, List.foldl_cons] at ih ⊢; rw [ih]; exact size_putNode _ _ _

theorem assign_get : ∀ (asg : List (Nat × BuildNode)) (nodes : Nodes) (x : Nat) (v : Option BuildNode),
    (assign nodes asg)[x]? = some v →
    (∃ b, (x, b) ∈ asg ∧ v = some b) ∨ (nodes[x]? = some v ∧ ∀ b, (x, b) ∉ asg) := by
  intro asg
  induction asg with
  | nil => intro nodes x v h; exact Or.inr ⟨h, fun b hb => by cases hb⟩
  | cons p rest ih =>
    intro nodes x v h
    obtain ⟨i, b⟩ := p
    simp only [assign, List.foldl_cons] at ih h
    rcases ih (putNode nodes i b) x v h with ⟨b', hb', hv⟩ | ⟨hget, hno⟩
    · exact Or.inl ⟨b', List.mem_cons_of_mem _ hb', hv⟩
    · rw [getElem?_putNode] at hget
      split at hget
      · rename_i hix
        subst hix
        split at hget
        · cases hget; exact Or.inl ⟨b, List.mem_cons_self, rfl⟩
        · cases hget
      · rename_i hix
        refine Or.inr ⟨hget, fun b' hb' => ?_⟩
        rcases List.mem_cons.1 hb' with h1 | h1
        · cases h1; exact hix rfl
        · exact hno b' h1

end Garnish.Lemmas.BuildTotal
