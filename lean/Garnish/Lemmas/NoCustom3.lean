/-
`OutNC`: the value of an outcome is custom-free; `unaryOp` / `binaryOp` of custom-free operands (all of Abs/Ops' tables).
-/
import Garnish.Lemmas.NoCustom2
set_option linter.unusedSimpArgs false
set_option linter.unusedVariables false
namespace Garnish.Lemmas.NoCustom
open Garnish Gen Garnish.Abs

variable {F : Type} (fo : FloatOps F)

/-- the value an outcome carries is custom-free -/
def OutNC : OpOut F → Prop
  | .val v => nc v = true
  | _ => True

theorem nc_numResult (o : Option (Number F)) : nc (numResult o) = true := by cases o <;> rfl

theorem outNC_arithBinary (op : Instruction) (nop : NumOp) (l r : Val F) : OutNC (arithBinary fo op nop l r) := by
  unfold arithBinary
  split
  · exact nc_numResult _
  · trivial

theorem outNC_arithUnary (op : Instruction) (nop : NumOp) (v : Val F) : OutNC (arithUnary fo op nop v) := by
  unfold arithUnary
  split
  · exact nc_numResult _
  · trivial

theorem nc_cmpOp (accept : Ordering → Bool) (l r : Val F) : nc (cmpOp fo accept l r) = true := by
  unfold cmpOp
  split <;> first | exact nc_ofBool _ | rfl

theorem outNC_access {l r : Val F} (hl : nc l = true) (hr : nc r = true) : OutNC (access fo l r) := by
  have hm : OutNC (match mergeSymList l r with | some v => OpOut.val v | none => .err .data) := by
    cases h : mergeSymList l r with
    | none => trivial
    | some v =>
      show nc v = true
      cases l <;> cases r <;> simp [mergeSymList] at h <;> (subst h; rfl)
  have hg : OutNC (match getAccess fo r l with
      | .some v => OpOut.val v | .none => .val .unit | .unsupported => .defer .access l r | .err e => .err e) := by
    cases h : getAccess fo r l with
    | some v => exact nc_getAccess fo hl h
    | none => rfl
    | unsupported => trivial
    | err e => trivial
  unfold access
  simp only []
  split <;> first | exact hm | exact hg | trivial

theorem outNC_left {v : Val F} (hv : nc v = true) : OutNC (accessLeftInternal v) := by
  unfold accessLeftInternal
  split <;> simp [OutNC, nc] at hv ⊢ <;> first | exact hv.1 | trivial | skip

theorem outNC_right {v : Val F} (hv : nc v = true) : OutNC (accessRightInternal v) := by
  unfold accessRightInternal
  split <;> simp [OutNC, nc] at hv ⊢ <;> first | exact hv.2 | trivial | skip

theorem outNC_length (v : Val F) : OutNC (accessLengthInternal fo v) := by
  unfold accessLengthInternal
  split <;> first | rfl | trivial | (split <;> first | rfl | trivial)

theorem outNC_makeRange (a b : Bool) (l r : Val F) : OutNC (makeRange fo a b l r) := by
  unfold makeRange
  split
  · simp only []
    split <;> first | rfl | trivial
  · trivial

theorem outNC_unaryOp {op : Instruction} {v : Val F} {o : OpOut F} (hv : nc v = true) (h : unaryOp fo op v = some o) :
    OutNC o := by
  cases op <;> simp [unaryOp, numOpOf] at h <;> subst h <;> first
    | exact outNC_arithUnary fo _ _ _
    | exact nc_ofBool _
    | rfl
    | exact outNC_left hv
    | exact outNC_right hv
    | exact outNC_length fo v

theorem outNC_binaryOp {op : Instruction} {l r : Val F} {o : OpOut F} (hl : nc l = true) (hr : nc r = true)
    (h : binaryOp fo op l r = some o) : OutNC o := by
  cases op <;> simp [binaryOp, numOpOf] at h <;> subst h <;> first
    | exact outNC_arithBinary fo _ _ _ _
    | exact nc_ofBool _
    | exact nc_cmpOp fo _ _ _
    | (show nc (typeEqual l r) = true; unfold typeEqual; exact nc_ofBool _)
    | (show (nc l && nc r) = true; rw [hl, hr]; rfl)
    | exact outNC_access fo hl hr
    | exact outNC_makeRange fo _ _ _ _

end Garnish.Lemmas.NoCustom
