/-
`dispatch_shadow` for `AccessLengthInternal`: congruence of the fuel-recursive concatenation iteration under `shadow`.
-/
import Garnish.Lemmas.RuntimeOnL1
set_option linter.unusedSimpArgs false
set_option linter.unusedVariables false
namespace Garnish.Lemmas.Runtime.OnL
open Garnish Gen Garnish.Abs Garnish.Model.Equality Garnish.Model.Runtime Garnish.Lemmas.Runtime
open Garnish.Props.RuntimeRefine Garnish.Lemmas.Runtime.On

variable {F σ : Type} {S : RStore F σ} (fo : FloatOps F)
variable (X : Nat → Nat → RM σ Nat) (Y : Nat → RM σ Nat)

theorem iterListLoop_shadow {α : Type} (checkFn : α → Number F → Nat → RM σ (Option Nat × α)) (r index : Nat) :
    ∀ rem : Nat, iterListLoop fo (shadow S X Y) checkFn r index rem = iterListLoop fo S checkFn r index rem
  | 0 => rfl
  | rem + 1 => by
    funext i acc
    unfold iterListLoop
    rw [iterListLoop_shadow checkFn r index rem]

theorem iterLoop_shadow {α : Type} (rev : Bool) (checkFn : α → Number F → Nat → RM σ (Option Nat × α)) (sr : Nat) :
    ∀ fuel : Nat, iterLoop fo (shadow S X Y) rev checkFn sr fuel = iterLoop fo S rev checkFn sr fuel
  | 0 => rfl
  | fuel + 1 => by
    funext index acc
    unfold iterLoop
    rw [iterLoop_shadow rev checkFn sr fuel]
    simp only [iterListLoop_shadow]
    rfl

theorem clearBorrowed_shadow (sr : Nat) : ∀ fuel : Nat, clearBorrowed (shadow S X Y) sr fuel = clearBorrowed S sr fuel
  | 0 => rfl
  | fuel + 1 => by
    unfold clearBorrowed
    rw [clearBorrowed_shadow sr fuel]
    rfl

theorem iterateConcatenation_shadow {α : Type} (rev : Bool) (fuel addr : Nat)
    (checkFn : α → Number F → Nat → RM σ (Option Nat × α)) (acc : α) :
    iterateConcatenation fo (shadow S X Y) rev fuel addr checkFn acc = iterateConcatenation fo S rev fuel addr checkFn acc := by
  unfold iterateConcatenation
  simp only [iterLoop_shadow, clearBorrowed_shadow]
  rfl

theorem accessLengthInternalH_shadow (fuel : Nat) :
    accessLengthInternalH fo (shadow S X Y) fuel = accessLengthInternalH fo S fuel := by
  unfold accessLengthInternalH concatenationLen
  simp only [iterateConcatenation_shadow]
  rfl

theorem ds_accessLengthInternal (fuel : Nat) (cast : RM σ (Option Nat)) (operand : Option Nat) :
    dispatch fo (shadow S X Y) fuel (fullHandlers fo (shadow S X Y) fuel cast) .accessLengthInternal operand =
      dispatch fo S fuel (fullHandlers fo S fuel cast) .accessLengthInternal operand :=
  accessLengthInternalH_shadow fo X Y fuel

end Garnish.Lemmas.Runtime.OnL
