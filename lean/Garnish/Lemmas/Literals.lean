/-
Helper lemmas for property C14 (literals): the spelling functions of Spec/Spell.lean against the code model
Model/Literals.lean. Property statements are in Props/C14.lean.
-/
import Garnish.Spec.Spell
import Garnish.Model.Literals
import Garnish.Model.Lexer
set_option linter.unusedSimpArgs false
namespace Garnish.Lemmas.Literals
open Garnish Garnish.Spec.Spell Garnish.Model.Literals

theorem digitChar_toNat : ∀ d, d < 36 → (digitChar d).toNat = if d < 10 then 48 + d else 87 + d := by
  decide

theorem toDigit_digitChar (d r : Nat) (h : d < r) (hr : r ≤ 36) : toDigit (digitChar d) r = some d := by
  have hd : d < 36 := by omega
  unfold toDigit
  simp only [digitChar_toNat d hd]
  by_cases h10 : d < 10
  · have h1 : 48 ≤ 48 + d ∧ 48 + d ≤ 57 := by omega
    simp [h10, h1, h]
  · have h1 : ¬ (48 ≤ 87 + d ∧ 87 + d ≤ 57) := by omega
    have h2 : 97 ≤ 87 + d ∧ 87 + d ≤ 122 := by omega
    have h3 : 87 + d - 97 + 10 = d := by omega
    simp [h10, h1, h2, h3, h]

/-- the step of `digitsValue` -/
def dstep (r : Nat) : Option Nat → Char → Option Nat := fun acc c =>
  match acc, toDigit c r with
  | some a, some d => some (a * r + d)
  | _, _ => none

theorem digitsValue_cons (r : Nat) (c : Char) (cs : List Char) :
    digitsValue r (c :: cs) = (c :: cs).foldl (dstep r) (some 0) := rfl

theorem foldl_spellAux (r : Nat) (hr2 : 2 ≤ r) (hr : r ≤ 36) :
    ∀ fuel n acc, n < fuel →
      (spellAux r fuel n acc).foldl (dstep r) (some 0) = acc.foldl (dstep r) (some n) := by
  intro fuel
  induction fuel with
  | zero => intro n acc h; omega
  | succ fuel ih =>
    intro n acc h
    have hmod : n % r < r := Nat.mod_lt _ (by omega)
    simp only [spellAux]
    split
    · rename_i h0
      have hn : n < r := by
        rcases Nat.lt_or_ge n r with h | h
        · exact h
        · have := Nat.div_pos h (by omega : 0 < r); omega
      have : n % r = n := Nat.mod_eq_of_lt hn
      rw [this] at hmod
      simp [List.foldl, dstep, toDigit_digitChar _ _ hmod hr, this]
    · rename_i h0
      have hlt : n / r < n := Nat.div_lt_self (by
        rcases Nat.eq_zero_or_pos n with h | h
        · subst h; simp at h0
        · exact h) hr2
      rw [ih (n / r) _ (by omega)]
      simp only [List.foldl, dstep, toDigit_digitChar _ _ hmod hr]
      have : n / r * r + n % r = n := by rw [Nat.mul_comm]; exact Nat.div_add_mod n r
      rw [this]

theorem spellAux_ne_nil (r fuel n : Nat) (acc : List Char) : spellAux r (fuel + 1) n acc ≠ [] := by
  induction fuel generalizing n acc with
  | zero => simp [spellAux]
  | succ fuel ih =>
    rw [spellAux]
    split
    · simp
    · exact ih _ _

theorem spellNat_ne_nil (r n : Nat) : spellNat r n ≠ [] := spellAux_ne_nil r n n []

theorem digitsValue_spellNat (r n : Nat) (hr2 : 2 ≤ r) (hr : r ≤ 36) : digitsValue r (spellNat r n) = some n := by
  have h := foldl_spellAux r hr2 hr (n + 1) n [] (by omega)
  have hne := spellNat_ne_nil r n
  unfold spellNat at *
  match hs : spellAux r (n + 1) n [] with
  | [] => exact absurd hs hne
  | c :: cs =>
    rw [digitsValue_cons, ← hs, h]; rfl

/-- every character of a spelling is a digit below the radix; the first one is not zero unless `n = 0` -/
theorem spellAux_chars (r : Nat) (hr : 0 < r) (P : Char → Prop) (hP : ∀ d, d < r → P (digitChar d)) :
    ∀ fuel n acc, (∀ c ∈ acc, P c) → ∀ c ∈ spellAux r fuel n acc, P c := by
  intro fuel
  induction fuel with
  | zero => intro n acc h; simpa [spellAux] using h
  | succ fuel ih =>
    intro n acc h
    have hmod : n % r < r := Nat.mod_lt _ hr
    have h' : ∀ c ∈ digitChar (n % r) :: acc, P c := by
      intro c hc
      rcases List.mem_cons.mp hc with h1 | h1
      · subst h1; exact hP _ hmod
      · exact h c h1
    simp only [spellAux]
    split
    · exact h'
    · exact ih _ _ h'

theorem spellNat_chars (r n : Nat) (hr : 0 < r) (P : Char → Prop) (hP : ∀ d, d < r → P (digitChar d)) :
    ∀ c ∈ spellNat r n, P c := spellAux_chars r hr P hP _ _ _ (by simp)

theorem spellAux_head (r : Nat) (hr2 : 2 ≤ r) :
    ∀ fuel n acc, n < fuel → 0 < n → ∃ d rest, 0 < d ∧ d < r ∧ spellAux r fuel n acc = digitChar d :: rest := by
  intro fuel
  induction fuel with
  | zero => intro n acc h; omega
  | succ fuel ih =>
    intro n acc h hn
    simp only [spellAux]
    split
    · rename_i h0
      have hlt : n < r := by
        rcases Nat.lt_or_ge n r with h | h
        · exact h
        · have := Nat.div_pos h (by omega : 0 < r); omega
      exact ⟨n % r, acc, by rw [Nat.mod_eq_of_lt hlt]; exact hn, Nat.mod_lt _ (by omega), rfl⟩
    · rename_i h0
      have hlt : n / r < n := Nat.div_lt_self hn hr2
      exact ih _ _ (by omega) (Nat.pos_of_ne_zero h0)

theorem spellNat_head (r n : Nat) (hr2 : 2 ≤ r) (hn : 0 < n) :
    ∃ d rest, 0 < d ∧ d < r ∧ spellNat r n = digitChar d :: rest :=
  spellAux_head r hr2 _ _ _ (by omega) hn

/-! ### `parse_number_internal` in two phases -/

section
variable {F : Type} (pf : List Char → Option F)

/-- the first phase of `parse_number_internal`: radix and digits part -/
def radixSplit (input : List Char) (defaultRadix : Nat) : Outcome (Nat × List Char) :=
  match splitAtUnderscore input with
  | none => .ok (defaultRadix, input)
  | some (part, afterUnderscore) =>
    match part with
    | '0' :: _ =>
      let trimmed := trimStartMatches '0' part
      match u32FromStr trimmed with
      | none => dataErr
      | some v =>
        if v < 2 ∨ v > 36 then dataErr
        else .ok (v, afterUnderscore)
    | _ => .ok (defaultRadix, input)

/-- the second phase of `parse_number_internal`: strip the `_`, `i32::from_str_radix`, float fall-back in radix 10 -/
def readDigits (radix : Nat) (input : List Char) : Outcome (Number F) :=
  let stripped := input.filter (· != '_')
  match i32FromStrRadix stripped radix with
  | some v => .ok (.int v)
  | none =>
    if radix == 10 then
      match pf stripped with
      | some v => .ok (.float v)
      | none => dataErr
    else dataErr

theorem parseNumberInternal_eq (input : List Char) (d : Nat) :
    parseNumberInternal pf input d = Outcome.bind (radixSplit input d) fun p => readDigits pf p.1 p.2 := rfl

theorem splitAtUnderscore_none (s : List Char) (h : '_' ∉ s) : splitAtUnderscore s = none := by
  induction s with
  | nil => rfl
  | cons c rest ih =>
    have hc : c ≠ '_' := fun e => h (by simp [e])
    have hr : '_' ∉ rest := fun e => h (by simp [e])
    simp [splitAtUnderscore, hc, ih hr]

theorem splitAtUnderscore_append (p rest : List Char) (h : '_' ∉ p) :
    splitAtUnderscore (p ++ '_' :: rest) = some (p, rest) := by
  induction p with
  | nil => simp [splitAtUnderscore]
  | cons c p ih =>
    have hc : c ≠ '_' := fun e => h (by simp [e])
    have hr : '_' ∉ p := fun e => h (by simp [e])
    simp [splitAtUnderscore, hc, ih hr]

theorem splitAtUnderscore_cons_part (c : Char) (rest part after : List Char)
    (h : splitAtUnderscore (c :: rest) = some (part, after)) : part = [] ∨ ∃ p, part = c :: p := by
  simp only [splitAtUnderscore] at h
  split at h
  · simp at h; exact Or.inl h.1
  · split at h
    · simp at h
    · simp at h; exact Or.inr ⟨_, h.1.symm⟩

theorem radixSplit_noSplit (input : List Char) (d : Nat) (h : splitAtUnderscore input = none) :
    radixSplit input d = .ok (d, input) := by
  simp [radixSplit, h]

theorem radixSplit_plain (c : Char) (rest : List Char) (d : Nat) (h0 : c ≠ '0') :
    radixSplit (c :: rest) d = .ok (d, c :: rest) := by
  unfold radixSplit
  split
  · rfl
  · rename_i part after hs
    rcases splitAtUnderscore_cons_part _ _ _ _ hs with h | ⟨p, h⟩
    · subst h; rfl
    · subst h
      split
      · rename_i x heq
        simp at heq; exact absurd heq.1 h0
      · rfl

theorem radixSplit_prefix (p after : List Char) (d v : Nat) (hp : '_' ∉ p)
    (hv : u32FromStr (trimStartMatches '0' ('0' :: p)) = some v) (h2 : 2 ≤ v) (h36 : v ≤ 36) :
    radixSplit ('0' :: p ++ '_' :: after) d = .ok (v, after) := by
  have hs : splitAtUnderscore ('0' :: p ++ '_' :: after) = some ('0' :: p, after) :=
    splitAtUnderscore_append ('0' :: p) after (by simp [hp])
  unfold radixSplit
  rw [hs]
  simp only [hv]
  have : ¬ (v < 2 ∨ v > 36) := by omega
  simp [this]

theorem radixSplit_prefix_bad (p after : List Char) (d : Nat) (hp : '_' ∉ p)
    (hv : ∀ v, u32FromStr (trimStartMatches '0' ('0' :: p)) = some v → v < 2 ∨ v > 36) :
    radixSplit ('0' :: p ++ '_' :: after) d = .err .data := by
  have hs : splitAtUnderscore ('0' :: p ++ '_' :: after) = some ('0' :: p, after) :=
    splitAtUnderscore_append ('0' :: p) after (by simp [hp])
  unfold radixSplit
  rw [hs]
  simp only
  split
  · rfl
  · rename_i v h
    simp [hv v h, dataErr]

end

/-! ### digit strings through `from_str_radix`, separators, prefixes -/

theorem digitChar_ne (d : Nat) (hd : d < 36) (c : Char)
    (hc : c.toNat < 48 ∨ (57 < c.toNat ∧ c.toNat < 97) ∨ 122 < c.toNat) : digitChar d ≠ c := by
  intro e
  have := digitChar_toNat d hd
  rw [e] at this
  split at this <;> omega

theorem digitChar_ne_zero (d : Nat) (hd : d < 36) (h0 : 0 < d) : digitChar d ≠ '0' := by
  intro e
  have := digitChar_toNat d hd
  rw [e] at this
  have h48 : ('0' : Char).toNat = 48 := by decide
  split at this <;> omega

theorem i32FromStrRadix_head (c : Char) (rest : List Char) (r : Nat) (hp : c ≠ '+') (hm : c ≠ '-') :
    i32FromStrRadix (c :: rest) r =
      match digitsValue r (c :: rest) with
      | some v => if (v : Int) ≤ I32_MAX then some (v : Int) else none
      | none => none := by
  unfold i32FromStrRadix
  split <;> first | rfl | (simp_all; done) | (simp_all; rfl)

theorem u32FromStr_head (c : Char) (rest : List Char) (hp : c ≠ '+') (hm : c ≠ '-') :
    u32FromStr (c :: rest) =
      match digitsValue 10 (c :: rest) with
      | some v => if v ≤ 4294967295 then some v else none
      | none => none := by
  unfold u32FromStr
  split <;> first | rfl | (simp_all; done) | (simp_all; rfl)

theorem spellNat_eq_cons (r n : Nat) (hr : 0 < r) : ∃ d rest, d < r ∧ spellNat r n = digitChar d :: rest := by
  have hne := spellNat_ne_nil r n
  have hch := spellNat_chars r n hr (fun c => ∃ d, d < r ∧ c = digitChar d) (fun d h => ⟨d, h, rfl⟩)
  match hs : spellNat r n with
  | [] => exact absurd hs hne
  | c :: rest =>
    obtain ⟨d, hd, e⟩ := hch c (by simp [hs])
    exact ⟨d, rest, hd, by rw [e]⟩

theorem spellNat_not_mem (r n : Nat) (hr : 0 < r) (hr36 : r ≤ 36) (c : Char)
    (hc : c.toNat < 48 ∨ (57 < c.toNat ∧ c.toNat < 97) ∨ 122 < c.toNat) : c ∉ spellNat r n := by
  intro hm
  exact spellNat_chars r n hr (fun x => x ≠ c) (fun d h => digitChar_ne d (by omega) c hc) c hm rfl

theorem underscore_not_mem_spellNat (r n : Nat) (hr : 0 < r) (hr36 : r ≤ 36) : '_' ∉ spellNat r n :=
  spellNat_not_mem r n hr hr36 '_' (by decide)

theorem filter_insertSepsFrom (seps : List Nat) (i : Nat) (ds : List Char) (h : '_' ∉ ds) :
    (insertSepsFrom seps i ds).filter (· != '_') = ds := by
  induction ds generalizing i with
  | nil => rfl
  | cons d ds ih =>
    have hd : d ≠ '_' := fun e => h (by simp [e])
    have hr : '_' ∉ ds := fun e => h (by simp [e])
    simp [insertSepsFrom, List.filter_cons, hd, ih (i + 1) hr]

theorem i32FromStrRadix_spellNat (r n : Nat) (hr2 : 2 ≤ r) (hr : r ≤ 36) :
    i32FromStrRadix (spellNat r n) r = if n ≤ 2147483647 then some (n : Int) else none := by
  obtain ⟨d, rest, hd, hs⟩ := spellNat_eq_cons r n (by omega)
  have hv := digitsValue_spellNat r n hr2 hr
  rw [hs] at hv ⊢
  rw [i32FromStrRadix_head _ _ _ (digitChar_ne d (by omega) '+' (by decide)) (digitChar_ne d (by omega) '-' (by decide)), hv]
  simp only [I32_MAX]
  by_cases h : n ≤ 2147483647
  · have : (n : Int) ≤ 2147483647 := by omega
    simp [h, this]
  · have : ¬ (n : Int) ≤ 2147483647 := by omega
    simp [h, this]

theorem u32FromStr_spellNat (n : Nat) :
    u32FromStr (spellNat 10 n) = if n ≤ 4294967295 then some n else none := by
  obtain ⟨d, rest, hd, hs⟩ := spellNat_eq_cons 10 n (by omega)
  have hv := digitsValue_spellNat 10 n (by omega) (by omega)
  rw [hs] at hv ⊢
  rw [u32FromStr_head _ _ (digitChar_ne d (by omega) '+' (by decide)) (digitChar_ne d (by omega) '-' (by decide)), hv]

section
variable {F : Type} (pf : List Char → Option F)

theorem readDigits_spell (r n : Nat) (seps : List Nat) (i : Nat) (hr2 : 2 ≤ r) (hr : r ≤ 36) :
    readDigits pf r (insertSepsFrom seps i (spellNat r n)) =
      if n ≤ 2147483647 then .ok (.int n)
      else if r = 10 then (match pf (spellNat 10 n) with | some v => .ok (.float v) | none => .err .data)
      else .err .data := by
  unfold readDigits
  simp only [filter_insertSepsFrom seps i _ (underscore_not_mem_spellNat r n (by omega) hr),
    i32FromStrRadix_spellNat r n hr2 hr]
  by_cases h : n ≤ 2147483647
  · simp [h]
  · by_cases h10 : r = 10
    · subst h10; simp [h, dataErr] <;> rfl
    · simp [h, h10, dataErr]

/-- the plain (unprefixed) form: all of the text is digits in the default radix -/
theorem parse_plain (r n : Nat) (seps : List Nat) (hr2 : 2 ≤ r) (hr : r ≤ 36) (hv : n = 0 → 0 ∉ seps) :
    parseNumberInternal pf (insertSeps (spellNat r n) seps) r = readDigits pf r (insertSeps (spellNat r n) seps) := by
  rw [parseNumberInternal_eq]
  rcases Nat.eq_zero_or_pos n with h0 | hpos
  · subst h0
    have hz : spellNat r 0 = ['0'] := by
      simp [spellNat, spellAux, digitChar]
    have hc : seps.count 0 = 0 := List.count_eq_zero.mpr (hv rfl)
    have : insertSeps (spellNat r 0) seps = ['0'] := by
      simp [hz, insertSeps, insertSepsFrom, hc]
    rw [this, radixSplit_noSplit _ _ (by decide)]; rfl
  · obtain ⟨d, rest, hd0, hd, hs⟩ := spellNat_head r n hr2 hpos
    have : insertSeps (spellNat r n) seps = digitChar d :: (List.replicate (seps.count 0) '_' ++ insertSepsFrom seps 1 rest) := by
      simp [hs, insertSeps, insertSepsFrom]
    rw [this, radixSplit_plain _ _ _ (digitChar_ne_zero d (by omega) hd0)]; rfl

/-- the prefixed form: `0`, the radix in decimal, `_`, then anything -/
theorem radixSplit_spelled (R : Nat) (after : List Char) (d : Nat) :
    radixSplit ('0' :: (spellNat 10 R ++ '_' :: after)) d =
      if 2 ≤ R ∧ R ≤ 36 then .ok (R, after) else .err .data := by
  have hnm := underscore_not_mem_spellNat 10 R (by omega) (by omega)
  have happ : '0' :: (spellNat 10 R ++ '_' :: after) = '0' :: spellNat 10 R ++ '_' :: after := by simp
  rw [happ]
  rcases Nat.eq_zero_or_pos R with h0 | hpos
  · subst h0
    have hz : spellNat 10 0 = ['0'] := by decide
    rw [radixSplit_prefix_bad _ _ _ hnm]
    · simp
    · intro v; rw [hz]; simp [trimStartMatches, u32FromStr]
  · obtain ⟨dd, rest, hd0, hd, hs⟩ := spellNat_head 10 R (by omega) hpos
    have htrim : trimStartMatches '0' ('0' :: spellNat 10 R) = spellNat 10 R := by
      have := digitChar_ne_zero dd (by omega) hd0
      simp [trimStartMatches, hs, List.dropWhile, this]
    by_cases hR : 2 ≤ R ∧ R ≤ 36
    · rw [radixSplit_prefix _ _ _ R hnm _ hR.1 hR.2]
      · simp [hR]
      · rw [htrim, u32FromStr_spellNat]; simp; omega
    · rw [radixSplit_prefix_bad _ _ _ hnm]
      · simp [hR]
      · intro v; rw [htrim, u32FromStr_spellNat]
        split
        · intro e; simp at e; omega
        · intro e; simp at e

end
/-! ### `parse_char_list`: the loop is the escape-processing specification -/

theorem appendOk_consOk {α : Type} (a : List α) (c : α) (X : Outcome (List α)) :
    appendOk a (consOk c X) = appendOk (a ++ [c]) X := by
  cases X <;> simp [appendOk, consOk]

theorem appendOk_nil {α : Type} (X : Outcome (List α)) : appendOk [] X = X := by
  cases X <;> simp [appendOk]

theorem appendOk_appendOk {α : Type} (a b : List α) (X : Outcome (List α)) :
    appendOk a (appendOk b X) = appendOk (a ++ b) X := by
  cases X <;> simp [appendOk]

section
variable {F : Type} (pf : List Char → Option F)

/-- the decoder of `\u{…}` in the code: `parse_number_internal(text, 16)` then `char::from_u32(v as u32)` -/
def uniModel (hex : List Char) : Outcome Char :=
  Outcome.bind (parseNumberInternal pf hex 16) fun n =>
    match n with
    | .float _ => dataErr
    | .int v =>
      match charFromI32 v with
      | none => dataErr
      | some ch => .ok ch

/-- `parse_char_list`'s loop followed by its `Ok(new)` -/
def loopResult (q : Nat) (st : CharListState) (body : List Char) : Outcome (List Char) :=
  Outcome.bind (charListLoop pf q st body) fun st => .ok st.new.reverse

theorem loopResult_nil (q : Nat) (st : CharListState) : loopResult pf q st [] = .ok st.new.reverse := rfl

theorem loopResult_cons (q : Nat) (st : CharListState) (c : Char) (rest : List Char) :
    loopResult pf q st (c :: rest) = Outcome.bind (charListStep pf q st c) fun st => loopResult pf q st rest := by
  unfold loopResult
  simp only [charListLoop]
  cases charListStep pf q st c <;> rfl

theorem charListLoop_unesc (q : Nat) : ∀ (body : List Char) (new hex : List Char),
    loopResult pf q ⟨new, false, false, []⟩ body
        = appendOk new.reverse (unesc (uniModel pf) (decide (q ≤ 1)) .normal body) ∧
    loopResult pf q ⟨new, true, false, []⟩ body
        = appendOk new.reverse (unesc (uniModel pf) (decide (q ≤ 1)) .esc body) ∧
    loopResult pf q ⟨new, false, true, hex⟩ body
        = appendOk new.reverse (unesc (uniModel pf) (decide (q ≤ 1)) (.uni hex) body) := by
  intro body
  induction body with
  | nil => intro new hex; simp [loopResult_nil, unesc, appendOk]
  | cons c rest ih =>
    intro new hex
    refine ⟨?_, ?_, ?_⟩
    · -- normal
      rw [loopResult_cons]
      by_cases h1 : c = '\\'
      · simp [charListStep, h1, Outcome.bind, unesc]; exact (ih new []).2.1
      · by_cases h2 : (c = '\n' ∨ c = '\t') ∧ q ≤ 1
        · simp [charListStep, h1, h2, Outcome.bind, unesc]
          simpa [h2.2] using (ih new []).1
        · have h2' : ¬ ((c = '\n' ∨ c = '\t') ∧ decide (q ≤ 1) = true) := by simpa using h2
          simp only [unesc, h1, h2', if_false, appendOk_consOk]
          have := (ih (c :: new) []).1
          simp only [List.reverse_cons] at this
          rw [← this]
          simp [charListStep, h1, Outcome.bind, h2]
    · -- after a backslash
      rw [loopResult_cons]
      have key : ∀ ch : Char,
          loopResult pf q ⟨ch :: new, false, false, []⟩ rest
            = appendOk new.reverse (consOk ch (unesc (uniModel pf) (decide (q ≤ 1)) .normal rest)) := by
        intro ch
        rw [appendOk_consOk, ← List.reverse_cons]; exact (ih (ch :: new) []).1
      by_cases hn : c = 'n'
      · subst hn; simp [charListStep, Outcome.bind, unesc]; exact key _
      by_cases ht : c = 't'
      · subst ht; simp [charListStep, Outcome.bind, unesc]; exact key _
      by_cases hr : c = 'r'
      · subst hr; simp [charListStep, Outcome.bind, unesc]; exact key _
      by_cases h0 : c = '0'
      · subst h0; simp [charListStep, Outcome.bind, unesc]; exact key _
      by_cases hb : c = '\\'
      · subst hb; simp [charListStep, Outcome.bind, unesc]; exact key _
      by_cases hq : c = '"'
      · subst hq; simp [charListStep, Outcome.bind, unesc]; exact key _
      by_cases hu : c = 'u'
      · subst hu; simp [charListStep, Outcome.bind, unesc]; exact (ih new []).2.2
      · simp [charListStep, Outcome.bind, unesc, hn, ht, hr, h0, hb, hq, hu, dataErr, appendOk]
    · -- inside \u
      rw [loopResult_cons]
      by_cases hc : c = '}'
      · subst hc
        simp only [charListStep, unesc, uniModel, if_true, beq_self_eq_true]
        cases hp : parseNumberInternal pf hex.reverse 16 with
        | ok n =>
          cases n with
          | float f => simp [Outcome.bind, dataErr, appendOk]
          | int v =>
            cases hch : charFromI32 v with
            | none => simp [hch, Outcome.bind, dataErr, appendOk]
            | some ch =>
              simp only [hch, Outcome.bind]
              rw [appendOk_consOk, ← List.reverse_cons]; exact (ih (ch :: new) []).1
        | err e => simp [Outcome.bind, appendOk]
        | panic s => simp [Outcome.bind, appendOk]
        | fuelOut => simp [Outcome.bind, appendOk]
      · by_cases ho : c = '{'
        · subst ho; simp [charListStep, Outcome.bind, unesc]; exact (ih new hex).2.2
        · simp [charListStep, Outcome.bind, unesc, hc, ho]; exact (ih new (c :: hex)).2.2
end
/-! ### `parse_char_list` on a quoted body -/

theorem byteLen_foldl_ge (cs : List Char) (a : Nat) : a ≤ cs.foldl (fun n c => n + c.utf8Size) a := by
  induction cs generalizing a with
  | nil => simp
  | cons c cs ih => simp only [List.foldl]; exact Nat.le_trans (Nat.le_add_right _ _) (ih _)

theorem byteLen_cons_pos (c : Char) (cs : List Char) : 0 < byteLen (c :: cs) := by
  unfold byteLen
  simp only [List.foldl]
  have := byteLen_foldl_ge cs (0 + c.utf8Size)
  have := Char.utf8Size_pos c
  omega

theorem takeWhile_replicate_append (q : Nat) (x : Char) (c : Char) (rest : List Char) (h : c ≠ x) :
    (List.replicate q x ++ c :: rest).takeWhile (· == x) = List.replicate q x := by
  induction q with
  | zero => simp [List.takeWhile, h]
  | succ q ih => simp [List.replicate_succ, List.takeWhile, ih]

theorem takeWhile_replicate (q : Nat) (x : Char) :
    (List.replicate q x).takeWhile (· == x) = List.replicate q x := by
  induction q with
  | zero => rfl
  | succ q ih => simp [List.replicate_succ, List.takeWhile, ih]

section
variable {F : Type} (pf : List Char → Option F)

theorem parseCharList_quote (q : Nat) (body : List Char) (h : body.head? ≠ some '"') :
    parseCharList pf (quoteCharList q body) = unescape (uniModel pf) q body := by
  unfold quoteCharList unescape
  cases body with
  | nil =>
    simp only [List.append_nil, unesc]
    unfold parseCharList
    split
    · rfl
    · have : (List.replicate q '"' ++ List.replicate q '"') = List.replicate (q + q) '"' := by
        rw [List.replicate_append_replicate]
      simp only [this, takeWhile_replicate, List.length_replicate]
      have : (q + q) * 2 ≥ q + q := by omega
      simp [this]
  | cons c b =>
    have hc : c ≠ '"' := by simpa using h
    unfold parseCharList
    have hlen : byteLen (List.replicate q '"' ++ c :: b ++ List.replicate q '"') ≠ 0 := by
      cases q with
      | zero => simpa using Nat.ne_of_gt (byteLen_cons_pos c _)
      | succ q => simpa [List.replicate_succ] using Nat.ne_of_gt (byteLen_cons_pos '"' _)
    have htw : (List.replicate q '"' ++ c :: b ++ List.replicate q '"').takeWhile (· == '"') = List.replicate q '"' := by
      rw [List.append_assoc, List.cons_append]; exact takeWhile_replicate_append q '"' c _ hc
    simp only [htw, List.length_replicate, List.length_append, List.length_cons]
    have h1 : ¬ (q * 2 ≥ q + (b.length + 1) + q) := by omega
    have h2 : q + (b.length + 1) + q - q * 2 = b.length + 1 := by omega
    have h3 : ((List.replicate q '"' ++ c :: b ++ List.replicate q '"').drop q).take (b.length + 1) = c :: b := by
      rw [List.append_assoc, List.drop_left' (by simp)]
      rw [show b.length + 1 = (c :: b).length by simp, List.take_left']
      rfl
    simp only [beq_iff_eq, hlen, if_false, h1, h2, h3]
    have := (charListLoop_unesc pf q (c :: b) [] []).1
    simp only [loopResult, List.reverse_nil, appendOk_nil] at this
    exact this
end
/-! ### escaping is undone by escape processing -/

section
variable (uni : List Char → Outcome Char)

theorem unesc_escapeChar (q : Nat) (c : Char) (tail : List Char) :
    unesc uni (decide (q ≤ 1)) .normal (escapeChar q c ++ tail)
      = consOk c (unesc uni (decide (q ≤ 1)) .normal tail) := by
  unfold escapeChar
  by_cases h1 : c = '\\'
  · subst h1; simp [unesc]
  by_cases h2 : c = '"'
  · subst h2; simp [unesc]
  by_cases h3 : c = '\n' ∧ q ≤ 1
  · obtain ⟨e, _⟩ := h3; subst e; simp [unesc, *]
  by_cases h4 : c = '\t' ∧ q ≤ 1
  · obtain ⟨e, _⟩ := h4; subst e; simp [unesc, *]
  by_cases h5 : c = Char.ofNat 0
  · subst h5; simp [unesc, *]
  · have hws : ¬ ((c = '\n' ∨ c = '\t') ∧ decide (q ≤ 1) = true) := by
      simp only [decide_eq_true_eq]
      rintro ⟨e | e, hq⟩
      · exact h3 ⟨e, hq⟩
      · exact h4 ⟨e, hq⟩
    simp only [h1, h2, h3, h4, h5, if_false, List.cons_append, List.nil_append, unesc, hws]

theorem unesc_escapeChars (q : Nat) (cs tail : List Char) :
    unesc uni (decide (q ≤ 1)) .normal (escapeChars q cs ++ tail)
      = appendOk cs (unesc uni (decide (q ≤ 1)) .normal tail) := by
  induction cs with
  | nil => simp [escapeChars, appendOk_nil]
  | cons c cs ih =>
    have : escapeChars q (c :: cs) ++ tail = escapeChar q c ++ (escapeChars q cs ++ tail) := by
      simp [escapeChars, List.flatMap_cons]
    rw [this, unesc_escapeChar, ih]
    cases unesc uni (decide (q ≤ 1)) Mode.normal tail <;> simp [appendOk, consOk]

theorem unesc_escapeCharRaw (q : Nat) (c : Char) (tail : List Char) :
    unesc uni (decide (q ≤ 1)) .normal (escapeCharRaw q c ++ tail)
      = consOk c (unesc uni (decide (q ≤ 1)) .normal tail) := by
  unfold escapeCharRaw
  by_cases h2 : c = '"'
  · subst h2; simp [unesc]
  · simp only [h2, if_false]; exact unesc_escapeChar uni q c tail

theorem unesc_escapeCharsRaw (q : Nat) (cs tail : List Char) :
    unesc uni (decide (q ≤ 1)) .normal (escapeCharsRaw q cs ++ tail)
      = appendOk cs (unesc uni (decide (q ≤ 1)) .normal tail) := by
  induction cs with
  | nil => simp [escapeCharsRaw, appendOk_nil]
  | cons c cs ih =>
    have : escapeCharsRaw q (c :: cs) ++ tail = escapeCharRaw q c ++ (escapeCharsRaw q cs ++ tail) := by
      simp [escapeCharsRaw, List.flatMap_cons]
    rw [this, unesc_escapeCharRaw, ih]
    cases unesc uni (decide (q ≤ 1)) Mode.normal tail <;> simp [appendOk, consOk]

/-- inside `\u`: characters other than the braces are collected up to the closing brace -/
theorem unesc_uni_collect (skip : Bool) (ds hex tail : List Char) (h : ∀ x ∈ ds, x ≠ '}' ∧ x ≠ '{') :
    unesc uni skip (.uni hex) (ds ++ '}' :: tail)
      = Outcome.bind (uni (hex.reverse ++ ds)) fun ch => consOk ch (unesc uni skip .normal tail) := by
  induction ds generalizing hex with
  | nil => simp [unesc]
  | cons d ds ih =>
    have hd := h d (by simp)
    have := ih (d :: hex) (fun x hx => h x (by simp [hx]))
    simp [unesc, hd.1, hd.2, this]

theorem unesc_escapeUnicode (skip : Bool) (c : Char) (tail : List Char) (hu : uni (spellNat 16 c.toNat) = .ok c) :
    unesc uni skip .normal (escapeUnicode c ++ tail) = consOk c (unesc uni skip .normal tail) := by
  have hmem : ∀ x ∈ spellNat 16 c.toNat, x ≠ '}' ∧ x ≠ '{' := by
    intro x hx
    constructor
    · intro e; subst e; exact spellNat_not_mem 16 _ (by omega) (by omega) '}' (by decide) hx
    · intro e; subst e; exact spellNat_not_mem 16 _ (by omega) (by omega) '{' (by decide) hx
  have := unesc_uni_collect uni skip (spellNat 16 c.toNat) [] tail hmem
  simp only [escapeUnicode, List.cons_append, List.append_assoc, List.nil_append]
  simp only [unesc]
  simp [this, hu, Outcome.bind]

end
/-! ### the `\\u{…}` decoder on canonical hex spellings; heads of escaped bodies -/

theorem insertSepsFrom_nil (i : Nat) (ds : List Char) : insertSepsFrom [] i ds = ds := by
  induction ds generalizing i with
  | nil => rfl
  | cons d ds ih => simp [insertSepsFrom, ih]

theorem insertSeps_nil (ds : List Char) : insertSeps ds [] = ds := insertSepsFrom_nil 0 ds

theorem charFromI32_toNat (c : Char) : charFromI32 (c.toNat : Int) = some c := by
  unfold charFromI32
  have hlt : c.toNat < 1114112 := by
    have := c.valid
    simp only [Char.toNat]
    rcases this with h | ⟨_, h⟩ <;> simp only [UInt32.toNat] at * <;> omega
  have hu : ((c.toNat : Int) % 4294967296).toNat = c.toNat := by omega
  simp only [hu]
  have hv : c.toNat.isValidChar := c.valid
  simp only [hv, dite_true]
  congr 1

section
variable {F : Type} (pf : List Char → Option F)

theorem parseNumberInternal_spellNat (r n : Nat) (hr2 : 2 ≤ r) (hr : r ≤ 36) (hn : n ≤ 2147483647) :
    parseNumberInternal pf (spellNat r n) r = .ok (.int n) := by
  have h := parse_plain pf r n [] hr2 hr (by simp)
  have h2 := readDigits_spell pf r n [] 0 hr2 hr
  simp only [insertSeps_nil] at h
  rw [h]
  have : insertSepsFrom [] 0 (spellNat r n) = spellNat r n := insertSepsFrom_nil 0 _
  rw [this] at h2
  rw [h2]; simp [hn]

theorem uniModel_spell (c : Char) : uniModel pf (spellNat 16 c.toNat) = .ok c := by
  have hlt : c.toNat ≤ 2147483647 := by
    have := c.valid
    simp only [Char.toNat]
    rcases this with h | ⟨_, h⟩ <;> simp only [UInt32.toNat] at * <;> omega
  unfold uniModel
  rw [parseNumberInternal_spellNat pf 16 _ (by omega) (by omega) hlt]
  simp [Outcome.bind, charFromI32_toNat]

theorem unesc_escapeCharU (q : Nat) (c : Char) (tail : List Char) :
    unesc (uniModel pf) (decide (q ≤ 1)) .normal (escapeCharU q c ++ tail)
      = consOk c (unesc (uniModel pf) (decide (q ≤ 1)) .normal tail) := by
  unfold escapeCharU
  by_cases h2 : c = '"'
  · subst h2; simp only [if_true]; exact unesc_escapeUnicode _ _ _ _ (uniModel_spell pf '"')
  · simp only [h2, if_false]; exact unesc_escapeChar _ q c tail

theorem unesc_escapeCharsU (q : Nat) (cs tail : List Char) :
    unesc (uniModel pf) (decide (q ≤ 1)) .normal (escapeCharsU q cs ++ tail)
      = appendOk cs (unesc (uniModel pf) (decide (q ≤ 1)) .normal tail) := by
  induction cs with
  | nil => simp [escapeCharsU, appendOk_nil]
  | cons c cs ih =>
    have : escapeCharsU q (c :: cs) ++ tail = escapeCharU q c ++ (escapeCharsU q cs ++ tail) := by
      simp [escapeCharsU, List.flatMap_cons]
    rw [this, unesc_escapeCharU, ih]
    cases unesc (uniModel pf) (decide (q ≤ 1)) Mode.normal tail <;> simp [appendOk, consOk]

end

/-- an escaped body never starts with a quote -/
theorem escapeChar_head (q : Nat) (c : Char) : ∃ x rest, escapeChar q c = x :: rest ∧ x ≠ '"' := by
  unfold escapeChar
  split
  · exact ⟨_, _, rfl, by decide⟩
  split
  · exact ⟨_, _, rfl, by decide⟩
  rename_i h2
  split
  · exact ⟨_, _, rfl, by decide⟩
  split
  · exact ⟨_, _, rfl, by decide⟩
  split
  · exact ⟨_, _, rfl, by decide⟩
  · exact ⟨c, [], rfl, h2⟩

theorem escapeChars_head (q : Nat) (cs : List Char) : (escapeChars q cs).head? ≠ some '"' := by
  cases cs with
  | nil => simp [escapeChars]
  | cons c cs =>
    obtain ⟨x, rest, e, hx⟩ := escapeChar_head q c
    simp [escapeChars, List.flatMap_cons, e, hx]

theorem escapeCharsU_head (q : Nat) (cs : List Char) : (escapeCharsU q cs).head? ≠ some '"' := by
  cases cs with
  | nil => simp [escapeCharsU]
  | cons c cs =>
    by_cases h2 : c = '"'
    · simp [escapeCharsU, List.flatMap_cons, escapeCharU, h2, escapeUnicode]
    · obtain ⟨x, rest, e, hx⟩ := escapeChar_head q c
      simp [escapeCharsU, List.flatMap_cons, escapeCharU, h2, e, hx]

theorem escapeCharsRaw_head (q : Nat) (cs : List Char) (h : cs.head? ≠ some '"') :
    (escapeCharsRaw q cs).head? ≠ some '"' := by
  cases cs with
  | nil => simp [escapeCharsRaw]
  | cons c cs =>
    have h2 : c ≠ '"' := by simpa using h
    obtain ⟨x, rest, e, hx⟩ := escapeChar_head q c
    simp [escapeCharsRaw, List.flatMap_cons, escapeCharRaw, h2, e, hx]

/-! ### UTF-8: the model's `encode_utf8` (via `String.toUTF8`) is the standard's table -/

theorem toList_loop_eq (bs : ByteArray) : ∀ (k i : Nat) (r : List UInt8), bs.size - i = k →
    ByteArray.toList.loop bs i r = r.reverse ++ bs.data.toList.drop i := by
  intro k
  induction k with
  | zero =>
    intro i r h
    rw [ByteArray.toList.loop]
    have h1 : ¬ i < bs.size := by omega
    rw [if_neg h1]
    have h2 : bs.data.toList.length ≤ i := by
      have : bs.data.toList.length = bs.size := Array.length_toList
      omega
    rw [List.drop_eq_nil_of_le h2, List.append_nil]
  | succ k ih =>
    intro i r h
    rw [ByteArray.toList.loop]
    have hi : i < bs.size := by omega
    rw [if_pos hi, ih (i + 1) _ (by omega)]
    have hlen : i < bs.data.toList.length := by
      have : bs.data.toList.length = bs.size := Array.length_toList
      omega
    rw [List.drop_eq_getElem_cons hlen, List.reverse_cons, List.append_assoc]
    congr 2
    show [bs.get! i] ++ _ = _
    have : bs.get! i = bs.data.toList[i] := by
      simp only [ByteArray.get!, Array.getElem_toList]
      have hi' : i < bs.data.size := hi
      exact getElem!_pos bs.data i hi'
    rw [this]; rfl

theorem byteArray_toList (bs : ByteArray) : bs.toList = bs.data.toList := by
  have := toList_loop_eq bs _ 0 [] rfl
  rw [ByteArray.toList, this]; rfl

theorem utf8BytesOf_eq (c : Char) : utf8BytesOf c = (String.utf8EncodeChar c).map UInt8.toNat := by
  simp [utf8BytesOf, Garnish.Model.SipHash.utf8Bytes, String.toUTF8, String.ofList, List.utf8Encode,
    byteArray_toList]

/-- the code's `encode_utf8` is the UTF-8 encoding of the Unicode standard -/
theorem utf8BytesOf_spec (c : Char) : utf8BytesOf c = utf8Encode c := by
  rw [utf8BytesOf_eq]
  have hlt : c.toNat < 1114112 := by
    have := c.valid
    simp only [Char.toNat]
    rcases this with h | ⟨_, h⟩ <;> simp only [UInt32.toNat] at * <;> omega
  have hv : c.val.toNat = c.toNat := rfl
  simp only [String.utf8EncodeChar, utf8Encode, hv]
  generalize c.toNat = n at *
  by_cases h1 : n ≤ 127
  · have : n < 128 := by omega
    simp [h1, this, UInt8.toNat_ofNat']; omega
  by_cases h2 : n ≤ 2047
  · have a : ¬ n < 128 := by omega
    have b : n < 2048 := by omega
    simp [h1, h2, a, b, UInt8.toNat_ofNat']; omega
  by_cases h3 : n ≤ 65535
  · have a : ¬ n < 128 := by omega
    have b : ¬ n < 2048 := by omega
    have d : n < 65536 := by omega
    simp [h1, h2, h3, a, b, d, UInt8.toNat_ofNat']; omega
  · have a : ¬ n < 128 := by omega
    have b : ¬ n < 2048 := by omega
    have d : ¬ n < 65536 := by omega
    simp [h1, h2, h3, a, b, d, UInt8.toNat_ofNat']; omega
/-! ### `parse_byte_list`, quoted form -/

theorem byteListLoop_unescBytes : ∀ (body : List Char) (acc : List Nat) (esc : Bool),
    byteListLoop acc esc body = appendOk acc.reverse (unescBytes esc body) := by
  intro body
  induction body with
  | nil => intro acc esc; cases esc <;> simp [byteListLoop, unescBytes, appendOk]
  | cons c rest ih =>
    intro acc esc
    have key : ∀ b : Nat, byteListLoop (b :: acc) false rest = appendOk acc.reverse (consOk b (unescBytes false rest)) := by
      intro b; rw [ih, appendOk_consOk, List.reverse_cons]
    cases esc with
    | true =>
      by_cases hn : c = 'n'
      · subst hn; simp [byteListLoop, unescBytes]; exact key _
      by_cases ht : c = 't'
      · subst ht; simp [byteListLoop, unescBytes]; exact key _
      by_cases hr : c = 'r'
      · subst hr; simp [byteListLoop, unescBytes]; exact key _
      by_cases h0 : c = '0'
      · subst h0; simp [byteListLoop, unescBytes]; exact key _
      by_cases hb : c = '\\'
      · subst hb; simp [byteListLoop, unescBytes]; exact key _
      by_cases hq : c = '\''
      · subst hq; simp [byteListLoop, unescBytes]; exact key _
      · simp [byteListLoop, unescBytes, hn, ht, hr, h0, hb, hq, dataErr, appendOk]
    | false =>
      by_cases hb : c = '\\'
      · subst hb; simp [byteListLoop, unescBytes]; exact ih _ _
      · simp only [byteListLoop, unescBytes, hb, beq_iff_eq, if_false]
        rw [ih, appendOk_appendOk, utf8BytesOf_spec]; simp

section
variable {F : Type} (pf : List Char → Option F)

theorem parseByteList_quote1 (body : List Char) (h : body.head? ≠ some '\'') :
    parseByteList pf (quoteByteList 1 body) = unescBytes false body := by
  unfold quoteByteList
  cases body with
  | nil => simp [parseByteList, List.takeWhile, unescBytes]
  | cons c b =>
    have hc : c ≠ '\'' := by simpa using h
    unfold parseByteList
    have htw : (List.replicate 1 '\'' ++ c :: b ++ List.replicate 1 '\'').takeWhile (· == '\'') = List.replicate 1 '\'' := by
      rw [List.append_assoc, List.cons_append]; exact takeWhile_replicate_append 1 '\'' c _ hc
    simp only [htw, List.length_replicate, List.length_append, List.length_cons]
    have h1 : ¬ (1 * 2 ≥ 1 + (b.length + 1) + 1) := by omega
    have h2 : 1 + (b.length + 1) + 1 - 1 * 2 = b.length + 1 := by omega
    have h3 : ((List.replicate 1 '\'' ++ c :: b ++ List.replicate 1 '\'').drop 1).take (b.length + 1) = c :: b := by
      rw [List.append_assoc, List.drop_left' (by simp)]
      rw [show b.length + 1 = (c :: b).length by simp, List.take_left']
      rfl
    have h4 : ¬ (1 ≥ 2) := by omega
    simp only [h1, h2, h3, h4, if_false]
    rw [byteListLoop_unescBytes]; simp [appendOk_nil]

end

theorem charOfNat_toNat (b : Nat) (h : b < 128) : (Char.ofNat b).toNat = b := by
  have : b.isValidChar := Or.inl (by omega)
  simp [Char.ofNat, this, Char.ofNatAux, Char.toNat]

theorem unescBytes_escapeByte (b : Nat) (hb : b < 128) (tail : List Char) :
    unescBytes false (escapeByte b ++ tail) = consOk b (unescBytes false tail) := by
  unfold escapeByte
  by_cases h1 : b = 92
  · subst h1; simp [unescBytes]
  by_cases h2 : b = 39
  · subst h2; simp [unescBytes]
  by_cases h3 : b = 10
  · subst h3; simp [unescBytes]
  by_cases h4 : b = 9
  · subst h4; simp [unescBytes]
  by_cases h5 : b = 13
  · subst h5; simp [unescBytes]
  by_cases h6 : b = 0
  · subst h6; simp [unescBytes]
  · have hne : Char.ofNat b ≠ '\\' := by
      intro e
      have := charOfNat_toNat b hb
      rw [e] at this
      have h92 : ('\\' : Char).toNat = 92 := by decide
      omega
    have henc : utf8Encode (Char.ofNat b) = [b] := by
      simp [utf8Encode, charOfNat_toNat b hb, hb]
    simp only [h1, h2, h3, h4, h5, h6, if_false, List.cons_append, List.nil_append, unescBytes, hne, henc]
    cases unescBytes false tail <;> simp [appendOk, consOk]

theorem unescBytes_escapeBytes (bs : List Nat) (hb : ∀ b ∈ bs, b < 128) (tail : List Char) :
    unescBytes false (bs.flatMap escapeByte ++ tail) = appendOk bs (unescBytes false tail) := by
  induction bs with
  | nil => simp [appendOk_nil]
  | cons b bs ih =>
    have : (b :: bs).flatMap escapeByte ++ tail = escapeByte b ++ (bs.flatMap escapeByte ++ tail) := by
      simp [List.flatMap_cons]
    rw [this, unescBytes_escapeByte b (hb b (by simp)), ih (fun x hx => hb x (by simp [hx]))]
    cases unescBytes false tail <;> simp [appendOk, consOk]

theorem escapeBytes_head (bs : List Nat) (hb : ∀ b ∈ bs, b < 128) : (bs.flatMap escapeByte).head? ≠ some '\'' := by
  cases bs with
  | nil => simp
  | cons b bs =>
    have hb' := hb b (by simp)
    have : ∃ x rest, escapeByte b = x :: rest ∧ x ≠ '\'' := by
      unfold escapeByte
      split
      · exact ⟨_, _, rfl, by decide⟩
      rename_i h1
      split
      · exact ⟨_, _, rfl, by decide⟩
      rename_i h2
      split
      · exact ⟨_, _, rfl, by decide⟩
      split
      · exact ⟨_, _, rfl, by decide⟩
      split
      · exact ⟨_, _, rfl, by decide⟩
      split
      · exact ⟨_, _, rfl, by decide⟩
      · refine ⟨_, _, rfl, ?_⟩
        intro e
        have := charOfNat_toNat b hb'
        rw [e] at this
        have h39 : ('\'' : Char).toNat = 39 := by decide
        omega
    obtain ⟨x, rest, e, hx⟩ := this
    simp [List.flatMap_cons, e, hx]

/-- characters that are neither a backslash: each contributes its UTF-8 bytes -/
theorem unescBytes_plain (cs : List Char) (h : '\\' ∉ cs) :
    unescBytes false cs = .ok (cs.flatMap utf8Encode) := by
  induction cs with
  | nil => simp [unescBytes]
  | cons c cs ih =>
    have hc : c ≠ '\\' := fun e => h (by simp [e])
    have hr : '\\' ∉ cs := fun e => h (by simp [e])
    simp [unescBytes, hc, ih hr, appendOk, List.flatMap_cons]

/-! ### byte-offset slicing on ASCII text -/

theorem isAlphanumeric_digitChar : ∀ d, d < 10 → Garnish.Gen.CharRanges.isAlphanumeric (digitChar d) = true := by
  decide +kernel

theorem isAlphanumeric_space : Garnish.Gen.CharRanges.isAlphanumeric ' ' = false := by decide +kernel

theorem utf8Size_ascii (c : Char) (h : c.toNat < 128) : c.utf8Size = 1 := by
  simp only [Char.utf8Size]
  have : c.val ≤ 127 := by
    have h' : c.val.toNat < 128 := h
    exact UInt32.le_iff_toNat_le.mpr (by simp; omega)
  simp [this]

theorem byteLen_ascii_aux (cs : List Char) (h : ∀ c ∈ cs, c.utf8Size = 1) (a : Nat) :
    cs.foldl (fun n c => n + c.utf8Size) a = a + cs.length := by
  induction cs generalizing a with
  | nil => simp
  | cons c cs ih =>
    simp only [List.foldl, List.length_cons]
    rw [ih (fun x hx => h x (by simp [hx])), h c (by simp)]; omega

theorem byteLen_ascii (cs : List Char) (h : ∀ c ∈ cs, c.utf8Size = 1) : byteLen cs = cs.length := by
  unfold byteLen; rw [byteLen_ascii_aux cs h 0]; omega

theorem charIndexOfByte_ascii (cs : List Char) (h : ∀ c ∈ cs, c.utf8Size = 1) :
    ∀ (pos i off : Nat), pos ≤ off → off - pos ≤ cs.length → charIndexOfByte cs pos i off = some (i + (off - pos)) := by
  induction cs with
  | nil =>
    intro pos i off h1 h2
    have : pos = off := by simp at h2; omega
    subst this
    unfold charIndexOfByte; simp
  | cons c cs ih =>
    intro pos i off h1 h2
    unfold charIndexOfByte
    by_cases he : pos = off
    · subst he; simp
    · have hgt : ¬ pos > off := by omega
      simp only [beq_iff_eq, he, if_false, hgt]
      rw [h c (by simp), ih (fun x hx => h x (by simp [hx])) _ _ _ (by omega) (by simp at h2; omega)]
      congr 1; omega

theorem sliceBytes_ascii (input : List Char) (h : ∀ c ∈ input, c.utf8Size = 1) (a b : Nat) (hab : a ≤ b)
    (hb : b ≤ input.length) : sliceBytes input a b = some ((input.drop a).take (b - a)) := by
  unfold sliceBytes
  have : ¬ a > b := by omega
  simp only [this, if_false]
  rw [charIndexOfByte_ascii input h 0 0 a (by omega) (by omega),
    charIndexOfByte_ascii input h 0 0 b (by omega) (by omega)]
  simp

/-! ### `parse_byte_list_numbers` -/

section
variable {F : Type} (pf : List Char → Option F)

/-- what an entry spelling must satisfy: non-empty, made of numeric characters and `_`, ASCII, denotes `b` -/
structure ByteSpelling (spell : Nat → List Char) (b : Nat) : Prop where
  ne : spell b ≠ []
  chars : ∀ c ∈ spell b, (Garnish.Gen.CharRanges.isAlphanumeric c = true ∨ c = '_') ∧ c.toNat < 128 ∧ c ≠ '\''
  value : parseSimpleNumber pf (spell b) = .ok (.int b)

theorem byteNumLoop_digits (ds : List Char) (h : ∀ c ∈ ds, Garnish.Gen.CharRanges.isAlphanumeric c = true ∨ c = '_')
    (cur : List Char) (acc : List Nat) (tail : List Char) :
    byteNumLoop pf ⟨cur, acc⟩ (ds ++ tail) = byteNumLoop pf ⟨ds.reverse ++ cur, acc⟩ tail := by
  induction ds generalizing cur with
  | nil => simp
  | cons d ds ih =>
    have hd := h d (by simp)
    have : (Garnish.Gen.CharRanges.isAlphanumeric d || d == '_') = true := by
      rcases hd with h | h <;> simp [h]
    simp only [List.cons_append, byteNumLoop, byteNumStep, this, if_true, Outcome.bind]
    rw [ih (fun x hx => h x (by simp [hx]))]; simp

theorem byteNumLoop_space (cur : List Char) (acc : List Nat) (tail : List Char) (b : Nat) (hb : b ≤ 255)
    (hne : cur ≠ []) (hv : parseSimpleNumber pf cur.reverse = .ok (.int b)) :
    byteNumLoop pf ⟨cur, acc⟩ (' ' :: tail) = byteNumLoop pf ⟨[], b :: acc⟩ tail := by
  have hlen : cur.length > 0 := List.length_pos_iff.mpr hne
  have h1 : ¬ ((b : Int) < 0 ∨ (b : Int) > 255) := by omega
  simp [byteNumLoop, byteNumStep, isAlphanumeric_space, hlen, hv, Outcome.bind, h1]

theorem byteNumLoop_entries (spell : Nat → List Char) (bs : List Nat) (hs : ∀ b ∈ bs, ByteSpelling pf spell b)
    (hb : ∀ b ∈ bs, b ≤ 255) (hne : bs ≠ []) (acc : List Nat) :
    byteNumLoop pf ⟨[], acc⟩ (joinSpaces (bs.map spell) ++ [' ']) = .ok ⟨[], bs.reverse ++ acc⟩ := by
  induction bs generalizing acc with
  | nil => exact absurd rfl hne
  | cons b bs ih =>
    have hsb := hs b (by simp)
    have hbb := hb b (by simp)
    have step : ∀ tail, byteNumLoop pf ⟨[], acc⟩ (spell b ++ ' ' :: tail) = byteNumLoop pf ⟨[], b :: acc⟩ tail := by
      intro tail
      rw [byteNumLoop_digits pf (spell b) (fun c hc => (hsb.chars c hc).1)]
      rw [byteNumLoop_space pf _ acc tail b hbb (by simpa using hsb.ne) (by simpa using hsb.value)]
    cases bs with
    | nil =>
      simp only [List.map, joinSpaces]
      rw [step]; simp [byteNumLoop]
    | cons b2 bs2 =>
      simp only [List.map, joinSpaces, List.append_assoc, List.cons_append]
      rw [step]
      have := ih (fun x hx => hs x (by simp [hx])) (fun x hx => hb x (by simp [hx])) (by simp) (b :: acc)
      simp only [List.map] at this
      rw [this]; simp

theorem parseByteListNumbers_entries (spell : Nat → List Char) (bs : List Nat)
    (hs : ∀ b ∈ bs, ByteSpelling pf spell b) (hb : ∀ b ∈ bs, b ≤ 255) (hne : bs ≠ []) :
    parseByteListNumbers pf (joinSpaces (bs.map spell)) = .ok bs := by
  unfold parseByteListNumbers
  rw [byteNumLoop_entries pf spell bs hs hb hne []]
  simp [Outcome.bind]

end
/-! ### `parse_byte_list`, numeric form -/

section
variable {F : Type} (pf : List Char → Option F)

theorem parseByteList_quote_nil (q : Nat) : parseByteList pf (quoteByteList q []) = .ok [] := by
  unfold quoteByteList parseByteList
  simp only [List.append_nil, List.replicate_append_replicate, takeWhile_replicate, List.length_replicate]
  have : (q + q) * 2 ≥ q + q := by omega
  simp [this]

theorem parseByteList_numeric (q : Nat) (hq : 2 ≤ q) (body : List Char) (hne : body ≠ [])
    (hascii : ∀ c ∈ body, c.toNat < 128) (hhead : body.head? ≠ some '\'') :
    parseByteList pf (quoteByteList q body) = parseByteListNumbers pf body := by
  unfold quoteByteList
  cases body with
  | nil => exact absurd rfl hne
  | cons c b =>
    have hc : c ≠ '\'' := by simpa using hhead
    unfold parseByteList
    have htw : (List.replicate q '\'' ++ c :: b ++ List.replicate q '\'').takeWhile (· == '\'') = List.replicate q '\'' := by
      rw [List.append_assoc, List.cons_append]; exact takeWhile_replicate_append q '\'' c _ hc
    simp only [htw, List.length_replicate, List.length_append, List.length_cons]
    have h1 : ¬ (q * 2 ≥ q + (b.length + 1) + q) := by omega
    have hall : ∀ x ∈ List.replicate q '\'' ++ c :: b ++ List.replicate q '\'', x.utf8Size = 1 := by
      intro x hx
      apply utf8Size_ascii
      simp only [List.mem_append, List.mem_replicate] at hx
      rcases hx with (⟨_, e⟩ | hx) | ⟨_, e⟩
      · subst e; decide
      · exact hascii x hx
      · subst e; decide
    have hlen : byteLen (List.replicate q '\'' ++ c :: b ++ List.replicate q '\'') = q + (b.length + 1) + q := by
      rw [byteLen_ascii _ hall]; simp; omega
    have hsl := sliceBytes_ascii (List.replicate q '\'' ++ c :: b ++ List.replicate q '\'') hall q (q + (b.length + 1))
      (by omega) (by simp)
    have h3 : ((List.replicate q '\'' ++ c :: b ++ List.replicate q '\'').drop q).take (q + (b.length + 1) - q) = c :: b := by
      rw [List.append_assoc, List.drop_left' (by simp)]
      rw [show q + (b.length + 1) - q = (c :: b).length by simp, List.take_left']
      rfl
    have h4 : q + (b.length + 1) + q - q = q + (b.length + 1) := by omega
    simp only [h1, if_false, hq, if_true, hlen, h4, hsl, h3]

theorem joinSpaces_mem (xs : List (List Char)) (c : Char) (h : c ∈ joinSpaces xs) : c = ' ' ∨ ∃ x ∈ xs, c ∈ x := by
  induction xs with
  | nil => simp [joinSpaces] at h
  | cons x rest ih =>
    cases rest with
    | nil => exact Or.inr ⟨x, by simp, by simpa [joinSpaces] using h⟩
    | cons y r =>
      simp only [joinSpaces, List.mem_append, List.mem_cons] at h
      rcases h with h | h | h
      · exact Or.inr ⟨x, by simp, h⟩
      · exact Or.inl h
      · rcases ih h with h | ⟨z, hz, hc⟩
        · exact Or.inl h
        · exact Or.inr ⟨z, by simp [hz], hc⟩

theorem joinSpaces_head (x : List Char) (rest : List (List Char)) (hx : x ≠ []) :
    (joinSpaces (x :: rest)).head? = x.head? := by
  cases x with
  | nil => exact absurd rfl hx
  | cons c cs => cases rest <;> simp [joinSpaces]

theorem parseByteList_numericWith (spell : Nat → List Char) (q : Nat) (hq : 2 ≤ q) (bs : List Nat)
    (hs : ∀ b ∈ bs, ByteSpelling pf spell b) (hb : ∀ b ∈ bs, b ≤ 255) :
    parseByteList pf (spellBytesNumericWith spell q bs) = .ok bs := by
  unfold spellBytesNumericWith
  cases bs with
  | nil => exact parseByteList_quote_nil pf q
  | cons b rest =>
    have hsb := hs b (by simp)
    have hne : joinSpaces ((b :: rest).map spell) ≠ [] := by
      intro e
      have := joinSpaces_head (spell b) (rest.map spell) hsb.ne
      simp only [List.map] at e
      rw [e] at this
      cases hsp : spell b with
      | nil => exact hsb.ne hsp
      | cons c cs => simp [hsp] at this
    rw [parseByteList_numeric pf q hq _ hne]
    · exact parseByteListNumbers_entries pf spell (b :: rest) hs hb (by simp)
    · intro c hc
      rcases joinSpaces_mem _ c hc with h | ⟨x, hx, hcx⟩
      · subst h; decide
      · obtain ⟨b', hb', e⟩ := List.mem_map.mp hx
        subst e
        exact ((hs b' hb').chars c hcx).2.1
    · simp only [List.map]
      rw [joinSpaces_head _ _ hsb.ne]
      cases hsp : spell b with
      | nil => exact absurd hsp hsb.ne
      | cons c cs =>
        have := (hsb.chars c (by simp [hsp])).2.2
        simp [this]

/-- the canonical decimal entry spelling -/
theorem byteSpelling_decimal (b : Nat) (hb : b ≤ 255) : ByteSpelling pf (spellNat 10) b where
  ne := spellNat_ne_nil 10 b
  chars := by
    intro c hc
    exact spellNat_chars 10 b (by omega)
      (fun c => (Garnish.Gen.CharRanges.isAlphanumeric c = true ∨ c = '_') ∧ c.toNat < 128 ∧ c ≠ '\'')
      (fun d hd => ⟨Or.inl (isAlphanumeric_digitChar d hd), by rw [digitChar_toNat d (by omega)]; split <;> omega,
        digitChar_ne d (by omega) '\'' (by decide)⟩) c hc
  value := by
    unfold parseSimpleNumber
    exact parseNumberInternal_spellNat pf 10 b (by omega) (by omega) (by omega)

end
/-! ### decimal fractions; symbols -/

theorem foldl_dstep_none (r : Nat) (cs : List Char) : cs.foldl (dstep r) none = none := by
  induction cs with
  | nil => rfl
  | cons c cs ih => simpa [List.foldl, dstep] using ih

theorem foldl_dstep_bad (r : Nat) (cs : List Char) (x : Char) (hx : x ∈ cs) (hbad : toDigit x r = none)
    (a : Option Nat) : cs.foldl (dstep r) a = none := by
  induction cs generalizing a with
  | nil => simp at hx
  | cons c cs ih =>
    simp only [List.foldl]
    rcases List.mem_cons.mp hx with e | h
    · subst e
      have : dstep r a x = none := by cases a <;> simp [dstep, hbad]
      rw [this, foldl_dstep_none]
    · exact ih h _

theorem digitsValue_bad (r : Nat) (cs : List Char) (x : Char) (hx : x ∈ cs) (hbad : toDigit x r = none) :
    digitsValue r cs = none := by
  cases cs with
  | nil => rfl
  | cons c cs => rw [digitsValue_cons]; exact foldl_dstep_bad r _ x hx hbad _

section
variable {F : Type} (pf : List Char → Option F)

/-- a decimal fraction is handed to `f64::from_str` unchanged except for the removed `_` -/
theorem parse_fraction (d : Nat) (hd : d < 10) (rest : List Char) (hdot : '.' ∈ rest)
    (hpre : d ≠ 0 ∨ '_' ∉ rest) :
    parseSimpleNumber pf (digitChar d :: rest) =
      match pf ((digitChar d :: rest).filter (· != '_')) with
      | some f => .ok (.float f)
      | none => .err .data := by
  unfold parseSimpleNumber
  rw [parseNumberInternal_eq]
  have hsplit : radixSplit (digitChar d :: rest) 10 = .ok (10, digitChar d :: rest) := by
    rcases hpre with h | h
    · exact radixSplit_plain _ _ _ (digitChar_ne_zero d (by omega) (by omega))
    · apply radixSplit_noSplit
      apply splitAtUnderscore_none
      intro hm
      rcases List.mem_cons.mp hm with e | e
      · exact digitChar_ne d (by omega) '_' (by decide) e.symm
      · exact h e
  rw [hsplit]
  simp only [Outcome.bind, readDigits]
  have hu : digitChar d ≠ '_' := digitChar_ne d (by omega) '_' (by decide)
  have hf : (digitChar d :: rest).filter (· != '_') = digitChar d :: rest.filter (· != '_') := by
    simp [List.filter_cons, hu]
  rw [hf, i32FromStrRadix_head _ _ _ (digitChar_ne d (by omega) '+' (by decide)) (digitChar_ne d (by omega) '-' (by decide))]
  have : digitsValue 10 (digitChar d :: rest.filter (· != '_')) = none := by
    apply digitsValue_bad 10 _ '.' _ (by decide)
    simp [List.mem_filter, hdot]
  simp only [this]
  cases pf (digitChar d :: List.filter (fun x => x != '_') rest) <;> rfl

end

theorem dropWhile_of_head_ne (c : Char) (s : List Char) (h : s.head? ≠ some c) : s.dropWhile (· == c) = s := by
  cases s with
  | nil => rfl
  | cons x xs =>
    have : x ≠ c := by simpa using h
    have hb : (x == c) = false := by simpa using this
    simp [List.dropWhile, hb]

theorem trimMatches_id (c : Char) (s : List Char) (h1 : s.head? ≠ some c) (h2 : s.getLast? ≠ some c) :
    trimMatches c s = s := by
  unfold trimMatches
  rw [dropWhile_of_head_ne c s h1, dropWhile_of_head_ne c s.reverse (by simpa using h2), List.reverse_reverse]

/-! ### the lexer's `CharList` arm on a quote-free body -/
open Garnish.Model.Lexer (Lexer armCharList)

theorem escapeChar_no_quote (q : Nat) (c : Char) (hc : c ≠ '"') : '"' ∉ escapeChar q c := by
  unfold escapeChar
  split; · decide
  split; · decide
  split; · decide
  split; · decide
  · simp; exact fun e => hc e.symm

/-- the lexable spelling contains no quote character at all -/
theorem escapeCharsU_no_quote (q : Nat) (cs : List Char) : '"' ∉ escapeCharsU q cs := by
  induction cs with
  | nil => simp [escapeCharsU]
  | cons c cs ih =>
    simp only [escapeCharsU, List.flatMap_cons, List.mem_append, not_or]
    refine ⟨?_, ih⟩
    unfold escapeCharU
    by_cases h : c = '"'
    · subst h; simp only [if_true]; decide
    · simp only [h, if_false]; exact escapeChar_no_quote q c h

/-- the lexer's `CharList` arm fed character by character until it asks for a new token (`start_new`):
the lexer at that point and the unconsumed input -/
def feedCharList (self : Lexer) : List Char → Option (Lexer × List Char)
  | [] => none
  | c :: rest =>
    let p := armCharList self c
    if p.2 then some (p.1, rest) else feedCharList p.1 rest

theorem armCharList_quote_more (self : Lexer) (h : ¬ self.startQuoteCount = self.endQuoteCount + 1) :
    (armCharList self '"').2 = false ∧ (armCharList self '"').1.startQuoteCount = self.startQuoteCount ∧
    (armCharList self '"').1.endQuoteCount = self.endQuoteCount + 1 ∧
    (armCharList self '"').1.currentCharacters = self.currentCharacters ++ ['"'] := by
  simp [armCharList, h, Garnish.Model.Lexer.push]

theorem armCharList_quote_last (self : Lexer) (h : self.startQuoteCount = self.endQuoteCount + 1) :
    (armCharList self '"').2 = true ∧
    (armCharList self '"').1.currentCharacters = self.currentCharacters ++ ['"'] := by
  simp [armCharList, h, Garnish.Model.Lexer.push]

theorem armCharList_other (self : Lexer) (c : Char) (hc : c ≠ '"') :
    (armCharList self c).2 = false ∧ (armCharList self c).1.startQuoteCount = self.startQuoteCount ∧
    (armCharList self c).1.endQuoteCount = 0 ∧
    (armCharList self c).1.currentCharacters = self.currentCharacters ++ [c] := by
  simp [armCharList, hc, Garnish.Model.Lexer.push]

theorem feedCharList_quotes (q : Nat) (rest : List Char) : ∀ (k : Nat) (self : Lexer),
    self.startQuoteCount = q → self.endQuoteCount + k = q → 0 < k →
    ∃ s, feedCharList self (List.replicate k '"' ++ rest) = some (s, rest) ∧
      s.currentCharacters = self.currentCharacters ++ List.replicate k '"' := by
  intro k
  induction k with
  | zero => intro self _ _ h; omega
  | succ k ih =>
    intro self hs he _
    by_cases hk : k = 0
    · subst hk
      obtain ⟨h1, h2⟩ := armCharList_quote_last self (by omega)
      exact ⟨(armCharList self '"').1, by simp [feedCharList, h1], by simpa using h2⟩
    · obtain ⟨h1, h2, h3, h4⟩ := armCharList_quote_more self (by omega)
      obtain ⟨s, g1, g2⟩ := ih (armCharList self '"').1 (by omega) (by omega) (by omega)
      refine ⟨s, ?_, ?_⟩
      · simp only [List.replicate_succ, List.cons_append, feedCharList, h1]
        simpa using g1
      · rw [g2, h4]; simp [List.replicate_succ]

/-- A body without any quote character followed by the `q` closing quotes is consumed by the lexer's `CharList` state as
ONE token text: the arm does not close early and closes exactly at the last quote. -/
theorem feedCharList_body (q : Nat) (hq : 0 < q) (body rest : List Char) (hb : '"' ∉ body) (self : Lexer)
    (hs : self.startQuoteCount = q) (he : body = [] → self.endQuoteCount = 0) :
    ∃ s, feedCharList self (body ++ List.replicate q '"' ++ rest) = some (s, rest) ∧
      s.currentCharacters = self.currentCharacters ++ body ++ List.replicate q '"' := by
  induction body generalizing self with
  | nil =>
    obtain ⟨s, h1, h2⟩ := feedCharList_quotes q rest q self hs (by rw [he rfl]; omega) hq
    exact ⟨s, by simpa using h1, by simpa using h2⟩
  | cons c body ih =>
    have hc : c ≠ '"' := fun e => hb (by simp [e])
    obtain ⟨h1, h2, h3, h4⟩ := armCharList_other self c hc
    obtain ⟨s, g1, g2⟩ := ih (fun e => hb (by simp [e])) (armCharList self c).1 (by omega) (fun _ => h3)
    refine ⟨s, ?_, ?_⟩
    · simp only [List.cons_append, feedCharList, h1]
      simpa using g1
    · rw [g2, h4]; simp

end Garnish.Lemmas.Literals
