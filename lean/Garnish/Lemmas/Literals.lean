/-
Helper lemmas for property C14 (literals): the spelling functions of Spec/Spell.lean against the code model
Model/Literals.lean. Property statements are in Props/C14.lean.
-/
import Garnish.Spec.Spell
import Garnish.Model.Literals
set_option linter.unusedSimpArgs false
namespace Garnish.Lemmas.Literals
open Garnish Garnish.Spec.Spell Garnish.Model.Literals

theorem digitChar_toNat : ∀ d, d < 36 → (digitChar d).toNat = if d < 10 then 48 + d else 87 + d := by
  decide

theorem toDigit_digitChar (d r : Nat) (h : d < r) (hr : r ≤ 36) : toDigit (digitChar d) r = some d := by
  have hd : d < 36 := by omega
  unfold toDigit
  simp only [digitChar_toNat d hd]
  by_cases h10 : d < 10
  · have h1 : 48 ≤ 48 + d ∧ 48 + d ≤ 57 := by omega
    simp [h10, h1, h]
  · have h1 : ¬ (48 ≤ 87 + d ∧ 87 + d ≤ 57) := by omega
    have h2 : 97 ≤ 87 + d ∧ 87 + d ≤ 122 := by omega
    have h3 : 87 + d - 97 + 10 = d := by omega
    simp [h10, h1, h2, h3, h]

/-- the step of `digitsValue` -/
def dstep (r : Nat) : Option Nat → Char → Option Nat := fun acc c =>
  match acc, toDigit c r with
  | some a, some d => some (a * r + d)
  | _, _ => none

theorem digitsValue_cons (r : Nat) (c : Char) (cs : List Char) :
    digitsValue r (c :: cs) = (c :: cs).foldl (dstep r) (some 0) := rfl

theorem foldl_spellAux (r : Nat) (hr2 : 2 ≤ r) (hr : r ≤ 36) :
    ∀ fuel n acc, n < fuel →
      (spellAux r fuel n acc).foldl (dstep r) (some 0) = acc.foldl (dstep r) (some n) := by
  intro fuel
  induction fuel with
  | zero => intro n acc h; omega
  | succ fuel ih =>
    intro n acc h
    have hmod : n % r < r := Nat.mod_lt _ (by omega)
    simp only [spellAux]
    split
    · rename_i h0
      have hn : n < r := by
        rcases Nat.lt_or_ge n r with h | h
        · exact h
        · have := Nat.div_pos h (by omega : 0 < r); omega
      have : n % r = n := Nat.mod_eq_of_lt hn
      rw [this] at hmod
      simp [List.foldl, dstep, toDigit_digitChar _ _ hmod hr, this]
    · rename_i h0
      have hlt : n / r < n := Nat.div_lt_self (by
        rcases Nat.eq_zero_or_pos n with h | h
        · subst h; simp at h0
        · exact h) hr2
      rw [ih (n / r) _ (by omega)]
      simp only [List.foldl, dstep, toDigit_digitChar _ _ hmod hr]
      have : n / r * r + n % r = n := by rw [Nat.mul_comm]; exact Nat.div_add_mod n r
      rw [this]

theorem spellAux_ne_nil (r fuel n : Nat) (acc : List Char) : spellAux r (fuel + 1) n acc ≠ [] := by
  induction fuel generalizing n acc with
  | zero => simp [spellAux]
  | succ fuel ih =>
    rw [spellAux]
    split
    · simp
    · exact ih _ _

theorem spellNat_ne_nil (r n : Nat) : spellNat r n ≠ [] := spellAux_ne_nil r n n []

theorem digitsValue_spellNat (r n : Nat) (hr2 : 2 ≤ r) (hr : r ≤ 36) : digitsValue r (spellNat r n) = some n := by
  have h := foldl_spellAux r hr2 hr (n + 1) n [] (by omega)
  have hne := spellNat_ne_nil r n
  unfold spellNat at *
  match hs : spellAux r (n + 1) n [] with
  | [] => exact absurd hs hne
  | c :: cs =>
    rw [digitsValue_cons, ← hs, h]; rfl

/-- every character of a spelling is a digit below the radix; the first one is not zero unless `n = 0` -/
theorem spellAux_chars (r : Nat) (hr : 0 < r) (P : Char → Prop) (hP : ∀ d, d < r → P (digitChar d)) :
    ∀ fuel n acc, (∀ c ∈ acc, P c) → ∀ c ∈ spellAux r fuel n acc, P c := by
  intro fuel
  induction fuel with
  | zero => intro n acc h; simpa [spellAux] using h
  | succ fuel ih =>
    intro n acc h
    have hmod : n % r < r := Nat.mod_lt _ hr
    have h' : ∀ c ∈ digitChar (n % r) :: acc, P c := by
      intro c hc
      rcases List.mem_cons.mp hc with h1 | h1
      · subst h1; exact hP _ hmod
      · exact h c h1
    simp only [spellAux]
    split
    · exact h'
    · exact ih _ _ h'

theorem spellNat_chars (r n : Nat) (hr : 0 < r) (P : Char → Prop) (hP : ∀ d, d < r → P (digitChar d)) :
    ∀ c ∈ spellNat r n, P c := spellAux_chars r hr P hP _ _ _ (by simp)

theorem spellAux_head (r : Nat) (hr2 : 2 ≤ r) :
    ∀ fuel n acc, n < fuel → 0 < n → ∃ d rest, 0 < d ∧ d < r ∧ spellAux r fuel n acc = digitChar d :: rest := by
  intro fuel
  induction fuel with
  | zero => intro n acc h; omega
  | succ fuel ih =>
    intro n acc h hn
    simp only [spellAux]
    split
    · rename_i h0
      have hlt : n < r := by
        rcases Nat.lt_or_ge n r with h | h
        · exact h
        · have := Nat.div_pos h (by omega : 0 < r); omega
      exact ⟨n % r, acc, by rw [Nat.mod_eq_of_lt hlt]; exact hn, Nat.mod_lt _ (by omega), rfl⟩
    · rename_i h0
      have hlt : n / r < n := Nat.div_lt_self hn hr2
      exact ih _ _ (by omega) (Nat.pos_of_ne_zero h0)

theorem spellNat_head (r n : Nat) (hr2 : 2 ≤ r) (hn : 0 < n) :
    ∃ d rest, 0 < d ∧ d < r ∧ spellNat r n = digitChar d :: rest :=
  spellAux_head r hr2 _ _ _ (by omega) hn

/-! ### `parse_number_internal` in two phases -/

section
variable {F : Type} (pf : List Char → Option F)

/-- the first phase of `parse_number_internal`: radix and digits part -/
def radixSplit (input : List Char) (defaultRadix : Nat) : Outcome (Nat × List Char) :=
  match splitAtUnderscore input with
  | none => .ok (defaultRadix, input)
  | some (part, afterUnderscore) =>
    match part with
    | '0' :: _ =>
      let trimmed := trimStartMatches '0' part
      match u32FromStr trimmed with
      | none => dataErr
      | some v =>
        if v < 2 ∨ v > 36 then dataErr
        else .ok (v, afterUnderscore)
    | _ => .ok (defaultRadix, input)

/-- the second phase of `parse_number_internal`: strip the `_`, `i32::from_str_radix`, float fall-back in radix 10 -/
def readDigits (radix : Nat) (input : List Char) : Outcome (Number F) :=
  let stripped := input.filter (· != '_')
  match i32FromStrRadix stripped radix with
  | some v => .ok (.int v)
  | none =>
    if radix == 10 then
      match pf stripped with
      | some v => .ok (.float v)
      | none => dataErr
    else dataErr

theorem parseNumberInternal_eq (input : List Char) (d : Nat) :
    parseNumberInternal pf input d = Outcome.bind (radixSplit input d) fun p => readDigits pf p.1 p.2 := rfl

theorem splitAtUnderscore_none (s : List Char) (h : '_' ∉ s) : splitAtUnderscore s = none := by
  induction s with
  | nil => rfl
  | cons c rest ih =>
    have hc : c ≠ '_' := fun e => h (by simp [e])
    have hr : '_' ∉ rest := fun e => h (by simp [e])
    simp [splitAtUnderscore, hc, ih hr]

theorem splitAtUnderscore_append (p rest : List Char) (h : '_' ∉ p) :
    splitAtUnderscore (p ++ '_' :: rest) = some (p, rest) := by
  induction p with
  | nil => simp [splitAtUnderscore]
  | cons c p ih =>
    have hc : c ≠ '_' := fun e => h (by simp [e])
    have hr : '_' ∉ p := fun e => h (by simp [e])
    simp [splitAtUnderscore, hc, ih hr]

theorem splitAtUnderscore_cons_part (c : Char) (rest part after : List Char)
    (h : splitAtUnderscore (c :: rest) = some (part, after)) : part = [] ∨ ∃ p, part = c :: p := by
  simp only [splitAtUnderscore] at h
  split at h
  · simp at h; exact Or.inl h.1
  · split at h
    · simp at h
    · simp at h; exact Or.inr ⟨_, h.1.symm⟩

theorem radixSplit_noSplit (input : List Char) (d : Nat) (h : splitAtUnderscore input = none) :
    radixSplit input d = .ok (d, input) := by
  simp [radixSplit, h]

theorem radixSplit_plain (c : Char) (rest : List Char) (d : Nat) (h0 : c ≠ '0') :
    radixSplit (c :: rest) d = .ok (d, c :: rest) := by
  unfold radixSplit
  split
  · rfl
  · rename_i part after hs
    rcases splitAtUnderscore_cons_part _ _ _ _ hs with h | ⟨p, h⟩
    · subst h; rfl
    · subst h
      split
      · rename_i x heq
        simp at heq; exact absurd heq.1 h0
      · rfl

theorem radixSplit_prefix (p after : List Char) (d v : Nat) (hp : '_' ∉ p)
    (hv : u32FromStr (trimStartMatches '0' ('0' :: p)) = some v) (h2 : 2 ≤ v) (h36 : v ≤ 36) :
    radixSplit ('0' :: p ++ '_' :: after) d = .ok (v, after) := by
  have hs : splitAtUnderscore ('0' :: p ++ '_' :: after) = some ('0' :: p, after) :=
    splitAtUnderscore_append ('0' :: p) after (by simp [hp])
  unfold radixSplit
  rw [hs]
  simp only [hv]
  have : ¬ (v < 2 ∨ v > 36) := by omega
  simp [this]

theorem radixSplit_prefix_bad (p after : List Char) (d : Nat) (hp : '_' ∉ p)
    (hv : ∀ v, u32FromStr (trimStartMatches '0' ('0' :: p)) = some v → v < 2 ∨ v > 36) :
    radixSplit ('0' :: p ++ '_' :: after) d = .err .data := by
  have hs : splitAtUnderscore ('0' :: p ++ '_' :: after) = some ('0' :: p, after) :=
    splitAtUnderscore_append ('0' :: p) after (by simp [hp])
  unfold radixSplit
  rw [hs]
  simp only
  split
  · rfl
  · rename_i v h
    simp [hv v h, dataErr]

end

/-! ### digit strings through `from_str_radix`, separators, prefixes -/

theorem digitChar_ne (d : Nat) (hd : d < 36) (c : Char)
    (hc : c.toNat < 48 ∨ (57 < c.toNat ∧ c.toNat < 97) ∨ 122 < c.toNat) : digitChar d ≠ c := by
  intro e
  have := digitChar_toNat d hd
  rw [e] at this
  split at this <;> omega

theorem digitChar_ne_zero (d : Nat) (hd : d < 36) (h0 : 0 < d) : digitChar d ≠ '0' := by
  intro e
  have := digitChar_toNat d hd
  rw [e] at this
  have h48 : ('0' : Char).toNat = 48 := by decide
  split at this <;> omega

theorem i32FromStrRadix_head (c : Char) (rest : List Char) (r : Nat) (hp : c ≠ '+') (hm : c ≠ '-') :
    i32FromStrRadix (c :: rest) r =
      match digitsValue r (c :: rest) with
      | some v => if (v : Int) ≤ I32_MAX then some (v : Int) else none
      | none => none := by
  unfold i32FromStrRadix
  split <;> first | rfl | (simp_all; done) | (simp_all; rfl)

theorem u32FromStr_head (c : Char) (rest : List Char) (hp : c ≠ '+') (hm : c ≠ '-') :
    u32FromStr (c :: rest) =
      match digitsValue 10 (c :: rest) with
      | some v => if v ≤ 4294967295 then some v else none
      | none => none := by
  unfold u32FromStr
  split <;> first | rfl | (simp_all; done) | (simp_all; rfl)

theorem spellNat_eq_cons (r n : Nat) (hr : 0 < r) : ∃ d rest, d < r ∧ spellNat r n = digitChar d :: rest := by
  have hne := spellNat_ne_nil r n
  have hch := spellNat_chars r n hr (fun c => ∃ d, d < r ∧ c = digitChar d) (fun d h => ⟨d, h, rfl⟩)
  match hs : spellNat r n with
  | [] => exact absurd hs hne
  | c :: rest =>
    obtain ⟨d, hd, e⟩ := hch c (by simp [hs])
    exact ⟨d, rest, hd, by rw [e]⟩

theorem spellNat_not_mem (r n : Nat) (hr : 0 < r) (hr36 : r ≤ 36) (c : Char)
    (hc : c.toNat < 48 ∨ (57 < c.toNat ∧ c.toNat < 97) ∨ 122 < c.toNat) : c ∉ spellNat r n := by
  intro hm
  exact spellNat_chars r n hr (fun x => x ≠ c) (fun d h => digitChar_ne d (by omega) c hc) c hm rfl

theorem underscore_not_mem_spellNat (r n : Nat) (hr : 0 < r) (hr36 : r ≤ 36) : '_' ∉ spellNat r n :=
  spellNat_not_mem r n hr hr36 '_' (by decide)

theorem filter_insertSepsFrom (seps : List Nat) (i : Nat) (ds : List Char) (h : '_' ∉ ds) :
    (insertSepsFrom seps i ds).filter (· != '_') = ds := by
  induction ds generalizing i with
  | nil => rfl
  | cons d ds ih =>
    have hd : d ≠ '_' := fun e => h (by simp [e])
    have hr : '_' ∉ ds := fun e => h (by simp [e])
    simp [insertSepsFrom, List.filter_cons, hd, ih (i + 1) hr]

theorem i32FromStrRadix_spellNat (r n : Nat) (hr2 : 2 ≤ r) (hr : r ≤ 36) :
    i32FromStrRadix (spellNat r n) r = if n ≤ 2147483647 then some (n : Int) else none := by
  obtain ⟨d, rest, hd, hs⟩ := spellNat_eq_cons r n (by omega)
  have hv := digitsValue_spellNat r n hr2 hr
  rw [hs] at hv ⊢
  rw [i32FromStrRadix_head _ _ _ (digitChar_ne d (by omega) '+' (by decide)) (digitChar_ne d (by omega) '-' (by decide)), hv]
  simp only [I32_MAX]
  by_cases h : n ≤ 2147483647
  · have : (n : Int) ≤ 2147483647 := by omega
    simp [h, this]
  · have : ¬ (n : Int) ≤ 2147483647 := by omega
    simp [h, this]

theorem u32FromStr_spellNat (n : Nat) :
    u32FromStr (spellNat 10 n) = if n ≤ 4294967295 then some n else none := by
  obtain ⟨d, rest, hd, hs⟩ := spellNat_eq_cons 10 n (by omega)
  have hv := digitsValue_spellNat 10 n (by omega) (by omega)
  rw [hs] at hv ⊢
  rw [u32FromStr_head _ _ (digitChar_ne d (by omega) '+' (by decide)) (digitChar_ne d (by omega) '-' (by decide)), hv]

section
variable {F : Type} (pf : List Char → Option F)

theorem readDigits_spell (r n : Nat) (seps : List Nat) (i : Nat) (hr2 : 2 ≤ r) (hr : r ≤ 36) :
    readDigits pf r (insertSepsFrom seps i (spellNat r n)) =
      if n ≤ 2147483647 then .ok (.int n)
      else if r = 10 then (match pf (spellNat 10 n) with | some v => .ok (.float v) | none => .err .data)
      else .err .data := by
  unfold readDigits
  simp only [filter_insertSepsFrom seps i _ (underscore_not_mem_spellNat r n (by omega) hr),
    i32FromStrRadix_spellNat r n hr2 hr]
  by_cases h : n ≤ 2147483647
  · simp [h]
  · by_cases h10 : r = 10
    · subst h10; simp [h, dataErr]; rfl
    · simp [h, h10, dataErr]

/-- the plain (unprefixed) form: all of the text is digits in the default radix -/
theorem parse_plain (r n : Nat) (seps : List Nat) (hr2 : 2 ≤ r) (hr : r ≤ 36) (hv : n = 0 → 0 ∉ seps) :
    parseNumberInternal pf (insertSeps (spellNat r n) seps) r = readDigits pf r (insertSeps (spellNat r n) seps) := by
  rw [parseNumberInternal_eq]
  rcases Nat.eq_zero_or_pos n with h0 | hpos
  · subst h0
    have hz : spellNat r 0 = ['0'] := by
      simp [spellNat, spellAux, digitChar]
    have hc : seps.count 0 = 0 := List.count_eq_zero.mpr (hv rfl)
    have : insertSeps (spellNat r 0) seps = ['0'] := by
      simp [hz, insertSeps, insertSepsFrom, hc]
    rw [this, radixSplit_noSplit _ _ (by decide)]; rfl
  · obtain ⟨d, rest, hd0, hd, hs⟩ := spellNat_head r n hr2 hpos
    have : insertSeps (spellNat r n) seps = digitChar d :: (List.replicate (seps.count 0) '_' ++ insertSepsFrom seps 1 rest) := by
      simp [hs, insertSeps, insertSepsFrom]
    rw [this, radixSplit_plain _ _ _ (digitChar_ne_zero d (by omega) hd0)]; rfl

/-- the prefixed form: `0`, the radix in decimal, `_`, then anything -/
theorem radixSplit_spelled (R : Nat) (after : List Char) (d : Nat) :
    radixSplit ('0' :: (spellNat 10 R ++ '_' :: after)) d =
      if 2 ≤ R ∧ R ≤ 36 then .ok (R, after) else .err .data := by
  have hnm := underscore_not_mem_spellNat 10 R (by omega) (by omega)
  have happ : '0' :: (spellNat 10 R ++ '_' :: after) = '0' :: spellNat 10 R ++ '_' :: after := by simp
  rw [happ]
  rcases Nat.eq_zero_or_pos R with h0 | hpos
  · subst h0
    have hz : spellNat 10 0 = ['0'] := by decide
    rw [radixSplit_prefix_bad _ _ _ hnm]
    · simp
    · intro v; rw [hz]; simp [trimStartMatches, u32FromStr]
  · obtain ⟨dd, rest, hd0, hd, hs⟩ := spellNat_head 10 R (by omega) hpos
    have htrim : trimStartMatches '0' ('0' :: spellNat 10 R) = spellNat 10 R := by
      have := digitChar_ne_zero dd (by omega) hd0
      simp [trimStartMatches, hs, List.dropWhile, this]
    by_cases hR : 2 ≤ R ∧ R ≤ 36
    · rw [radixSplit_prefix _ _ _ R hnm _ hR.1 hR.2]
      · simp [hR]
      · rw [htrim, u32FromStr_spellNat]; simp; omega
    · rw [radixSplit_prefix_bad _ _ _ hnm]
      · simp [hR]
      · intro v; rw [htrim, u32FromStr_spellNat]
        split
        · intro e; simp at e; omega
        · intro e; simp at e

end
end Garnish.Lemmas.Literals
