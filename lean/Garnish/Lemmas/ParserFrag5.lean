/-
Operator fragment with trivia, parse level: the decidable recogniser `frag4`, the correctness theorem `parse_frag4`
and trivia insensitivity `parse_frag4_strip`.
-/
import Garnish.Lemmas.ParserFrag4

namespace Garnish.Spec
open Garnish Garnish.Gen Garnish.Model.Parser

/-! ### final checks of `parse` on a state that satisfies the invariant -/

theorem finish_frag {stF : PState} {TF : Tree} {rtF : Nat} {r : ParseResult} (hinvF : FragInv stF TF rtF)
    (hfin : finish stF = .ok r) : toTree r = some TF ∧ r.nodes = stF.nodes := by
  unfold finish at hfin
  rw [hinvF.cfl, composition_final _ hinvF.prev, hinvF.gs] at hfin
  have hne : stF.nodes.isEmpty = false := by
    have := hinvF.pos
    cases hsz : stF.nodes.isEmpty with
    | false => rfl
    | true =>
      have h2 : stF.nodes = #[] := by simpa using hsz
      rw [h2] at this; simp at this
  simp only [Bool.not_true, Bool.false_eq_true, if_false, hne,
    show (#[] : Array (Nat × Bool)).isEmpty = true from rfl] at hfin
  split at hfin
  · cases hfin
  · rename_i nd0 hnd0
    obtain ⟨root, hroot, hr⟩ := bind_ok hfin
    injection hr with hr; subst hr
    have h0mem : 0 ∈ TF.inorder := by rw [hinvF.inord]; exact List.mem_range.mpr hinvF.pos
    have hrt : root = rtF := rootLoop_root hinvF.tree _ _ 0 nd0 root h0mem hnd0 hroot
    subst hrt
    refine ⟨?_, rfl⟩
    rw [toTree_some_iff]
    refine ⟨?_, by rw [hinvF.inord]; exact List.nodup_range⟩
    simp only [rootLink, hne, Bool.false_eq_true, if_false]
    exact hinvF.tree

theorem last_atom_items : ∀ (items : List WItem) (a0 : PToken), isAtom10 a0 = true → (∀ it ∈ items, it.ok) →
    isAtom10 ((a0 :: flatDec items).getLast (by simp)) = true
  | [], a0, h0, _ => by simpa [flatDec] using h0
  | it :: items, a0, _, h => by
    have hok := h it (List.mem_cons_self ..)
    have := last_atom_items items it.atom hok.2.2.2 (fun x hx => h x (List.mem_cons_of_mem _ hx))
    have e : a0 :: flatDec (it :: items) = (a0 :: (it.ws1 ++ it.op :: it.ws2)) ++ (it.atom :: flatDec items) := by
      simp [flatDec, WItem.dec]
    simp only [e]
    rw [List.getLast_append_of_ne_nil _ (by simp)]
    exact this

/-- **stage 4**: `value (trivia* binop trivia* value)*` -/
theorem parse_items (a0 : PToken) (items : List WItem) (ha0 : isAtom10 a0 = true) (hoks : ∀ it ∈ items, it.ok)
    (hnum : NumberedFrom 0 (a0 :: flatDec items)) (r : ParseResult) (h : parse (a0 :: flatDec items) = .ok r) :
    ∃ t, toTree r = some t ∧ refParse Table.gen (a0 :: flatDec items) = .ok (toRd (dfOf r.nodes) t) := by
  obtain ⟨htrim, hts, htr⟩ := trim_id (a0 :: flatDec items) (by simp) (atom10_not_trimmable ha0)
    (atom10_not_trimmable (last_atom_items items a0 ha0 hoks))
  unfold parse at h
  rw [htrim] at h
  simp only [Outcome.bind, List.isEmpty_cons, Bool.false_eq_true, if_false] at h
  obtain ⟨stF, hloop, hfin⟩ := bind_ok h
  simp only [loop] at hloop
  obtain ⟨st0, h0, hloop⟩ := bind_ok hloop
  obtain ⟨hinv0, hdf0⟩ := first_step ha0 h0
  obtain ⟨hc0, hnum'⟩ := hnum
  have href : refParse Table.gen (a0 :: flatDec items) = refLoop Table.gen Frame.top [] 0 (a0 :: flatDec items) := by
    unfold refParse
    simp only [hts, htr]
    simp
  rw [href, ref_first a0 _ 0 ha0]
  obtain ⟨TF, rtF, hinvF, hrefF⟩ := frag_loop_items items st0 stF _ 0
    { Frame.top with cur := .node .nil (getDefinition a0.type).1 0 .nil, last := .operand } (0 + 1) hinv0 rfl
    (by simp [toRd, hdf0, hc0]) hoks hnum' hloop
  obtain ⟨ht, hn⟩ := finish_frag hinvF hfin
  exact ⟨TF, ht, by rw [hn]; exact hrefF⟩

/-- removing the trivia does not change the result of `parse` (any outcome) -/
theorem parse_items_strip (a0 : PToken) (items : List WItem) (ha0 : isAtom10 a0 = true) (hoks : ∀ it ∈ items, it.ok) :
    parse (a0 :: flatDec items) = parse (a0 :: flatStrip items) := by
  have hoks' : ∀ it ∈ items.map (fun it => (⟨[], it.op, [], it.atom⟩ : WItem)), it.ok := by
    intro it hit
    obtain ⟨it0, h0, rfl⟩ := List.mem_map.mp hit
    have := hoks it0 h0
    exact ⟨by simp, this.2.1, by simp, this.2.2.2⟩
  have hstrip : ∀ l : List WItem, flatDec (l.map (fun it => (⟨[], it.op, [], it.atom⟩ : WItem))) = flatStrip l := by
    intro l; induction l with
    | nil => rfl
    | cons x xs ih => simp [flatDec, flatStrip, WItem.dec, ih]
  obtain ⟨htrim, _, _⟩ := trim_id (a0 :: flatDec items) (by simp) (atom10_not_trimmable ha0)
    (atom10_not_trimmable (last_atom_items items a0 ha0 hoks))
  obtain ⟨htrim2, _, _⟩ := trim_id (a0 :: flatStrip items) (by simp) (atom10_not_trimmable ha0)
    (by rw [← hstrip]; exact atom10_not_trimmable (last_atom_items _ a0 ha0 hoks'))
  unfold parse
  rw [htrim, htrim2]
  simp only [Outcome.bind, List.isEmpty_cons, Bool.false_eq_true, if_false, loop]
  rw [flatDec_isEmpty]
  cases h0 : step PState.init a0 (flatStrip items).isEmpty with
  | err e => rfl
  | panic s => rfl
  | fuelOut => rfl
  | ok st0 =>
    simp only []
    obtain ⟨hinv0, _⟩ := first_step ha0 h0
    rw [strip_loop items st0 _ 0 hinv0 hoks]

/-! ### decidable recogniser -/

/-- splits `(trivia* binop trivia* value)*` into items; `none` if the list has another shape -/
def splitAux : (ws1 : List PToken) → (cur : Option (PToken × List PToken)) → List PToken → Option (List WItem)
  | [], none, [] => some []
  | _ :: _, none, [] => none
  | _, some _, [] => none
  | ws1, none, t :: rest =>
    if isTriviaTok t then splitAux (ws1 ++ [t]) none rest
    else if isBinopTok t then splitAux ws1 (some (t, [])) rest else none
  | ws1, some (o, ws2), t :: rest =>
    if isTriviaTok t then splitAux ws1 (some (o, ws2 ++ [t])) rest
    else if isAtom10 t then (splitAux [] none rest).map (fun items => ⟨ws1, o, ws2, t⟩ :: items) else none

/-- **the stage 4 fragment**: `value (trivia* binop trivia* value)*`, trivia = Whitespace / Annotation / LineAnnotation -/
def frag4 : List PToken → Bool
  | a :: rest => isAtom10 a && (splitAux [] none rest).isSome
  | [] => false

def accPrefix (ws1 : List PToken) : Option (PToken × List PToken) → List PToken
  | none => ws1
  | some (o, ws2) => ws1 ++ o :: ws2

theorem splitAux_sound : ∀ (toks ws1 : List PToken) (cur : Option (PToken × List PToken)) (items : List WItem),
    (∀ w ∈ ws1, isTriviaTok w = true) →
    (∀ o ws2, cur = some (o, ws2) → isBinopTok o = true ∧ ∀ w ∈ ws2, isTriviaTok w = true) →
    splitAux ws1 cur toks = some items → accPrefix ws1 cur ++ toks = flatDec items ∧ ∀ it ∈ items, it.ok := by
  intro toks
  induction toks with
  | nil =>
    intro ws1 cur items _ _ h
    cases cur with
    | none =>
      cases ws1 with
      | nil => simp only [splitAux, Option.some.injEq] at h; subst h; simp [accPrefix, flatDec]
      | cons w ws => simp [splitAux] at h
    | some c => cases ws1 <;> simp [splitAux] at h
  | cons t rest ih =>
    intro ws1 cur items hw1 hcur h
    cases cur with
    | none =>
      simp only [splitAux] at h
      split at h
      · rename_i ht
        obtain ⟨e, hok⟩ := ih (ws1 ++ [t]) none items
          (by intro w hw; rcases List.mem_append.mp hw with hw | hw
              · exact hw1 w hw
              · simp at hw; subst hw; exact ht)
          (by intro o ws2 hc; cases hc) h
        exact ⟨by simpa [accPrefix] using e, hok⟩
      · split at h
        · rename_i hb
          obtain ⟨e, hok⟩ := ih ws1 (some (t, [])) items hw1
            (by intro o ws2 hc; injection hc with hc; injection hc with e1 e2; subst e1; subst e2; exact ⟨hb, by simp⟩) h
          exact ⟨by simpa [accPrefix] using e, hok⟩
        · cases h
    | some c =>
      obtain ⟨o, ws2⟩ := c
      obtain ⟨hob, hw2⟩ := hcur o ws2 rfl
      simp only [splitAux] at h
      split at h
      · rename_i ht
        obtain ⟨e, hok⟩ := ih ws1 (some (o, ws2 ++ [t])) items hw1
          (by intro o' ws2' hc; injection hc with hc; injection hc with e1 e2; subst e1; subst e2
              refine ⟨hob, ?_⟩
              intro w hw; rcases List.mem_append.mp hw with hw | hw
              · exact hw2 w hw
              · simp at hw; subst hw; exact ht) h
        exact ⟨by simpa [accPrefix] using e, hok⟩
      · split at h
        · rename_i ha
          cases hrec : splitAux [] none rest with
          | none => simp [hrec] at h
          | some items' =>
            simp only [hrec, Option.map_some, Option.some.injEq] at h
            subst h
            obtain ⟨e, hok⟩ := ih [] none items' (by simp) (by intro o ws2 hc; cases hc) hrec
            refine ⟨?_, ?_⟩
            · simp only [accPrefix, List.nil_append] at e
              simp [accPrefix, flatDec, WItem.dec, e]
            · intro it hit
              rcases List.mem_cons.mp hit with rfl | hit
              · exact ⟨hw1, hob, hw2, ha⟩
              · exact hok it hit
        · cases h

theorem frag4_sound {toks : List PToken} (h : frag4 toks = true) :
    ∃ a0 items, toks = a0 :: flatDec items ∧ isAtom10 a0 = true ∧ ∀ it ∈ items, it.ok := by
  cases toks with
  | nil => simp [frag4] at h
  | cons a rest =>
    simp only [frag4, Bool.and_eq_true] at h
    obtain ⟨ha, hs⟩ := h
    obtain ⟨items, hitems⟩ := Option.isSome_iff_exists.mp hs
    obtain ⟨e, hok⟩ := splitAux_sound rest [] none items (by simp) (by intro o ws2 hc; cases hc) hitems
    exact ⟨a, items, by simpa [accPrefix] using congrArg (a :: ·) e, ha, hok⟩

/-- the token list without its trivia -/
def stripTrivia (toks : List PToken) : List PToken := toks.filter (fun t => !isTriviaTok t)

theorem binop_not_trivia {o : PToken} (ho : isBinopTok o = true) : isTriviaTok o = false := by
  unfold isBinopTok at ho
  unfold isTriviaTok
  revert ho
  cases o.type <;> simp [getDefinition]

theorem atom10_not_trivia {a : PToken} (ha : isAtom10 a = true) : isTriviaTok a = false := by
  obtain ⟨hs, _⟩ := atom10_facts ha
  unfold isTriviaTok
  revert hs
  cases a.type <;> simp [getDefinition]

theorem stripTrivia_flatDec : ∀ items : List WItem, (∀ it ∈ items, it.ok) → stripTrivia (flatDec items) = flatStrip items
  | [], _ => rfl
  | it :: items, h => by
    obtain ⟨hw1, ho, hw2, ha⟩ := h it (List.mem_cons_self ..)
    have ih := stripTrivia_flatDec items (fun x hx => h x (List.mem_cons_of_mem _ hx))
    have f1 : it.ws1.filter (fun t => !isTriviaTok t) = [] := by
      rw [List.filter_eq_nil_iff]; intro w hw; simp [hw1 w hw]
    have f2 : it.ws2.filter (fun t => !isTriviaTok t) = [] := by
      rw [List.filter_eq_nil_iff]; intro w hw; simp [hw2 w hw]
    unfold stripTrivia at ih ⊢
    simp only [flatDec, flatStrip, WItem.dec, List.filter_append, List.filter_cons, f1, f2, binop_not_trivia ho,
      atom10_not_trivia ha, Bool.not_false, if_true, List.nil_append, List.filter_nil, ih]
    simp

/-- **stage 4, recogniser form** -/
theorem parse_frag4 (toks : List PToken) (hf : frag4 toks = true) (hnum : NumberedFrom 0 toks) (r : ParseResult)
    (h : parse toks = .ok r) : ∃ t, toTree r = some t ∧ refParse Table.gen toks = .ok (toRd (dfOf r.nodes) t) := by
  obtain ⟨a0, items, rfl, ha0, hoks⟩ := frag4_sound hf
  exact parse_items a0 items ha0 hoks hnum r h

/-- **trivia insensitivity on the fragment**: `parse` of the list and of the list without trivia are the same result -/
theorem parse_frag4_strip (toks : List PToken) (hf : frag4 toks = true) : parse toks = parse (stripTrivia toks) := by
  obtain ⟨a0, items, rfl, ha0, hoks⟩ := frag4_sound hf
  have : stripTrivia (a0 :: flatDec items) = a0 :: flatStrip items := by
    have := stripTrivia_flatDec items hoks
    unfold stripTrivia at this ⊢
    simp [List.filter_cons, atom10_not_trivia ha0, this]
  rw [this]
  exact parse_items_strip a0 items ha0 hoks

end Garnish.Spec
