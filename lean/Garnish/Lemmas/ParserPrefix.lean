/-
Prefix operators in operand position, model side: the explicit effect of a prefix-operator token (`step_prefix_eq`),
of a run of them (`prefix_run`, `pushP`), the chain of nodes they leave (`chain_isTreeAt`), and the value token that
closes the operand (`value_step`).
-/
import Garnish.Lemmas.ParserAccept2
import Garnish.Lemmas.ParserGSim

namespace Garnish.Spec
open Garnish Garnish.Gen Garnish.Model.Parser

def isPrefixTok (t : PToken) : Bool := (getDefinition t.type).2 == .unaryPrefix

theorem prefix_def_facts (tt : TokenType) (h : (getDefinition tt).2 = SecDef.unaryPrefix) :
    ∃ q, priority (getDefinition tt).1 = some q ∧ 10 < q ∧ ((getDefinition tt).1 != Definition.drop) = true ∧
      (getDefinition tt).1 ≠ Definition.identifier ∧ (getDefinition tt).1 ≠ Definition.access ∧
      (getDefinition tt).1.isValueLike = false ∧ (getDefinition tt).1.isGroupLike = false := by
  revert h
  cases tt <;> simp only [getDefinition] <;> decide

/-- the state after a prefix-operator token -/
def stepP (st : PState) (p : PToken) : PState :=
  { st with nodes := st.nodes.push ⟨(getDefinition p.type).1, .unaryPrefix, st.nextParent, none, some (st.nodes.size + 1), p⟩,
            nextParent := some st.nodes.size, lastLeft := some st.nodes.size, previousSecondDef := .unaryPrefix,
            lastToken := p }

/-- **a prefix-operator token in operand position** (list flag clear, not the last token): it is pushed as the right child
    of `next_parent` with a dangling `right`, and becomes `next_parent` / `last_left` -/
theorem step_prefix_eq (st : PState) (p : PToken) (hp : isPrefixTok p = true) (hc : st.checkForList = false)
    (hnl : st.nextLastLeft = none) (hcg : st.currentGroup = none) (hadj : adjustLastLeft st none = .ok st)
    (hcomp : checkComposition st.previousSecondDef .unaryPrefix false = true) :
    step st p false = .ok (stepP st p) := by
  unfold isPrefixTok at hp
  have hs : (getDefinition p.type).2 = .unaryPrefix := by simpa using hp
  obtain ⟨q, _, _, f1, f2, _, _, _⟩ := prefix_def_facts p.type hs
  unfold step stepP
  have hu : underGroupOf st = .ok none := by simp [underGroupOf, hcg]
  simp only [hu, hadj, Outcome.bind]
  generalize getDefinition p.type = ds at hs f1 f2 ⊢
  obtain ⟨d, s⟩ := ds
  simp only at hs f1 f2 ⊢
  subst hs
  have hmatch : ∀ (par : Option Nat) (nodes : Array ParseNode), (match d with
      | Definition.identifier =>
        match par.bind fun p => nodes[p]? with
        | none => d
        | some p => if (p.definition == Definition.access) = true then Definition.property else d
      | d => d) = d := by
    intro par nodes; cases d <;> first | rfl | exact absurd rfl f2
  simp only [hc, hcomp, Bool.not_true, Bool.false_eq_true, if_false, dispatch, armUnaryPrefix, pushNode, f1, if_true,
    hnl, hmatch]
  congr 1
  simp [Array.size_push]

/-- the conditions under which operand tokens (prefix operators, then a value) are processed as in the fragment:
    all flags neutral, `next_parent = last_left`, and `last_left` is either absent (start of input) or the last node,
    an operator-like node of priority > 10 whose `right` points to the next id -/
structure OpenInv (st : PState) : Prop where
  cfl : st.checkForList = false
  nnl : st.nextLastLeft = none
  gs : st.groupStack = #[]
  cg : st.currentGroup = none
  link : st.nextParent = st.lastLeft
  top : (st.lastLeft = none ∧ st.nodes = #[]) ∨
    (∃ nd q, 0 < st.nodes.size ∧ st.lastLeft = some (st.nodes.size - 1) ∧ st.nodes[st.nodes.size - 1]? = some nd ∧
      priority nd.definition = some q ∧ 10 < q ∧ nd.right = some st.nodes.size ∧ nd.definition.isValueLike = false ∧
      nd.definition.isGroupLike = false)
  prev : st.previousSecondDef = .none ∨ st.previousSecondDef = .binaryLeftToRight ∨
    st.previousSecondDef = .binaryRightToLeft ∨ st.previousSecondDef = .unaryPrefix

theorem OpenInv.adjust {st : PState} (h : OpenInv st) : adjustLastLeft st none = .ok st := by
  rcases h.top with ⟨h1, _⟩ | ⟨nd, q, _, h1, h2, _, _, _, _, h3⟩
  · unfold adjustLastLeft; simp [h1]
  · unfold adjustLastLeft; simp [h1, h2, not_sideEffect_of_not_groupLike h3]

theorem OpenInv.comp_prefix {st : PState} (h : OpenInv st) :
    checkComposition st.previousSecondDef .unaryPrefix false = true := by
  rcases h.prev with h | h | h | h <;> rw [h] <;> rfl

theorem OpenInv.comp_atom {st : PState} (h : OpenInv st) (s : SecDef) (hs : s = .value ∨ s = .identifier) :
    checkComposition st.previousSecondDef s false = true := by
  rcases h.prev with h | h | h | h <;> rw [h] <;> rcases hs with rfl | rfl <;> rfl

theorem OpenInv.stepP {st : PState} (h : OpenInv st) (p : PToken) (hp : isPrefixTok p = true) : OpenInv (stepP st p) := by
  have hs : (getDefinition p.type).2 = .unaryPrefix := by unfold isPrefixTok at hp; simpa using hp
  obtain ⟨q, hq, hq10, _, _, _, f3, f4⟩ := prefix_def_facts p.type hs
  refine ⟨h.cfl, h.nnl, h.gs, h.cg, rfl, Or.inr ?_, Or.inr (Or.inr (Or.inr rfl))⟩
  refine ⟨⟨(getDefinition p.type).1, .unaryPrefix, st.nextParent, none, some (st.nodes.size + 1), p⟩, q, ?_, ?_, ?_,
    hq, hq10, ?_, f3, f4⟩
  · simp [Garnish.Spec.stepP]
  · simp [Garnish.Spec.stepP]
  · simp [Garnish.Spec.stepP]
  · simp [Garnish.Spec.stepP]

/-- the state after a run of prefix-operator tokens -/
def pushP : PState → List PToken → PState
  | st, [] => st
  | st, p :: ps => pushP (stepP st p) ps

theorem pushP_openInv : ∀ (ps : List PToken) (st : PState), OpenInv st → (∀ p ∈ ps, isPrefixTok p = true) →
    OpenInv (pushP st ps)
  | [], _, h, _ => h
  | p :: ps, st, h, hps =>
    pushP_openInv ps _ (h.stepP p (hps p (List.mem_cons_self ..))) (fun x hx => hps x (List.mem_cons_of_mem _ hx))

/-- **a run of prefix-operator tokens followed by something** -/
theorem prefix_run : ∀ (ps : List PToken) (st : PState) (rest : List PToken), OpenInv st →
    (∀ p ∈ ps, isPrefixTok p = true) → rest ≠ [] → loop st (ps ++ rest) = loop (pushP st ps) rest
  | [], _, _, _, _, _ => rfl
  | p :: ps, st, rest, h, hps, hne => by
    have hp := hps p (List.mem_cons_self ..)
    simp only [List.cons_append, loop, pushP]
    have he : (ps ++ rest).isEmpty = false := by cases ps <;> cases rest <;> simp_all
    rw [he, step_prefix_eq st p hp h.cfl h.nnl h.cg h.adjust h.comp_prefix]
    simp only [Outcome.bind]
    exact prefix_run ps _ rest (h.stepP p hp) (fun x hx => hps x (List.mem_cons_of_mem _ hx)) hne

theorem pushP_size : ∀ (ps : List PToken) (st : PState), (pushP st ps).nodes.size = st.nodes.size + ps.length
  | [], _ => rfl
  | p :: ps, st => by
    simp only [pushP, List.length_cons]
    rw [pushP_size ps]
    simp [stepP]; omega

theorem pushP_below : ∀ (ps : List PToken) (st : PState) (j : Nat), j < st.nodes.size →
    (pushP st ps).nodes[j]? = st.nodes[j]?
  | [], _, _, _ => rfl
  | p :: ps, st, j, hj => by
    simp only [pushP]
    rw [pushP_below ps _ j (by simp [stepP]; omega)]
    simp only [stepP, Array.getElem?_push]
    rw [if_neg (by omega)]

theorem pushP_nextParent : ∀ (ps : List PToken) (st : PState), st.nextParent = st.lastLeft →
    (pushP st ps).nextParent = (pushP st ps).lastLeft
  | [], _, h => h
  | p :: ps, st, _ => pushP_nextParent ps _ rfl

/-- the nodes a run of prefix operators leaves, completed by a value node, form the chain tree -/
theorem chain_isTreeAt : ∀ (ps : List PToken) (st : PState) (arr : Array ParseNode) (ka : Nat),
    (∀ j, j < (pushP st ps).nodes.size → arr[j]? = (pushP st ps).nodes[j]?) →
    (∃ ln, arr[(pushP st ps).nodes.size]? = some ln ∧ ln.parent = (pushP st ps).nextParent ∧ ln.left = none ∧
      ln.right = none ∧ tokPos ln = ka) →
    IsTreeAt arr st.nextParent (some st.nodes.size) (chainTree st.nodes.size (ps.map (·.col)) ka)
  | [], st, arr, ka, _, hleaf => by
    obtain ⟨ln, h1, h2, h3, h4, h5⟩ := hleaf
    simp only [pushP] at h1 h2
    simp only [List.map_nil, chainTree]
    exact isTreeAt_node ln h1 h2 (by rw [h3]; exact .nil _) (by rw [h4]; exact .nil _) h5
  | p :: ps, st, arr, ka, hagree, hleaf => by
    simp only [pushP] at hagree hleaf
    have ih := chain_isTreeAt ps (stepP st p) arr ka hagree hleaf
    simp only [List.map_cons, chainTree]
    have hnode : arr[st.nodes.size]? =
        some ⟨(getDefinition p.type).1, .unaryPrefix, st.nextParent, none, some (st.nodes.size + 1), p⟩ := by
      rw [hagree st.nodes.size (by rw [pushP_size]; simp [stepP]; omega),
        pushP_below ps _ st.nodes.size (by simp [stepP])]
      simp [stepP]
    refine isTreeAt_node _ hnode rfl (.nil _) ?_ rfl
    have e1 : (stepP st p).nextParent = some st.nodes.size := rfl
    have e2 : (stepP st p).nodes.size = st.nodes.size + 1 := by simp [stepP]
    rw [e1, e2] at ih
    exact ih

/-- **the value token that closes an operand** whose last node is an operator / prefix operator -/
theorem value_step (st : PState) (a : PToken) (il : Bool) (h : OpenInv st) (hpos : 0 < st.nodes.size)
    (ha : isAtom10 a = true) :
    ∃ st2 nd, step st a il = .ok st2 ∧ st.nodes[st.nodes.size - 1]? = some nd ∧ st2.nodes.size = st.nodes.size + 1 ∧
      (∀ j, j < st.nodes.size → st2.nodes[j]? = st.nodes[j]?) ∧
      st2.nodes[st.nodes.size]? = some ⟨underDef nd.definition (getDefinition a.type).1, (getDefinition a.type).2,
        some (st.nodes.size - 1), none, none, a⟩ ∧
      st2.lastLeft = some st.nodes.size ∧ st2.checkForList = false ∧ st2.nextLastLeft = none ∧
      st2.groupStack = #[] ∧ st2.currentGroup = none ∧
      (st2.previousSecondDef = .value ∨ st2.previousSecondDef = .identifier) := by
  obtain ⟨hsa, hqa⟩ := atom10_facts ha
  obtain ⟨_, a2, _⟩ := prio10_facts hqa
  rcases h.top with ⟨_, h2⟩ | ⟨nd, q, _, hl, hnd, hq, hq10, hr, _, _⟩
  · rw [h2] at hpos; simp at hpos
  · have hptok := parseToken_atom_ok (nodes := st.nodes) (m := st.nodes.size - 1) (qo := q)
      (d := (getDefinition a.type).1) (right := none) (rtl := false) hqa hnd hq hq10 hr
    obtain ⟨st2, h2⟩ := step_atom_ok st a il hsa h.cfl h.cg h.adjust (h.comp_atom _ hsa) (by rw [hl]; exact hptok)
    obtain ⟨nodes'', info2, hpt2, hn2, hl2, hc2, hnl2, hgs2, hcg2, hp2⟩ :=
      step_atom_spec st st2 a il hsa a2 h.cfl h.nnl h.cg h.adjust h2
    rw [hl] at hpt2
    obtain ⟨hinfo2, hg2⟩ := parseToken_atom hqa hnd hq hq10 hr hpt2
    have hsz'' : nodes''.size = st.nodes.size := (parseToken_size_def hpt2).1
    have hrd : renameDef (getDefinition a.type).1 info2.parent nodes'' = underDef nd.definition (getDefinition a.type).1 := by
      rw [hinfo2]
      have hnn : nodes''[st.nodes.size - 1]? = some nd := by rw [hg2]; exact hnd
      unfold renameDef underDef
      cases (getDefinition a.type).1 <;> simp [hnn]
    refine ⟨st2, nd, h2, hnd, ?_, ?_, ?_, hl2, hc2, hnl2, by rw [hgs2, h.gs], hcg2, by rw [hp2]; exact hsa⟩
    · rw [hn2]; simp [hsz'']
    · intro j hj
      rw [hn2, Array.getElem?_push, if_neg (by omega), hg2 j]
    · rw [hn2, Array.getElem?_push, if_pos hsz''.symm, hrd, hinfo2]

end Garnish.Spec
