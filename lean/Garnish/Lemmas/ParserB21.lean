/-
Separators, part 3: the closing bracket directly after a blank-line separator (`step_close_unlink`: the EndGrouping arm
unlinks the separator node — its left operand goes back to where the separator was inserted; the node stays in the
array, unreachable), and the reference parser's separator steps.
-/
import Garnish.Lemmas.ParserB20

namespace Garnish.Spec
open Garnish Garnish.Gen Garnish.Model.Parser

/-- `check last left .. drop trailing subexpression`: the unlinking branch of `endGroupingFixLastLeft` -/
theorem endFix_unlink (st : PState) (g n l P : Nat) (S : ParseNode) (hsz : st.nodes.size = n + 1)
    (hl : st.lastLeft = some n) (hS : st.nodes[n]? = some S) (hSd : S.definition = .subexpression)
    (hSr : S.right = some (n + 1)) (hSp : S.parent = some P) (hSl : S.left = some l) (hln : l < n) (hPn : P < n)
    (hng : n ≠ g) :
    ∃ nodes2, endGroupingFixLastLeft st (n + 1) g = .ok { st with nodes := nodes2 } ∧ nodes2.size = n + 1 ∧
      ∀ j, nodes2[j]? = if j = P then ((if j = l then (st.nodes[j]?).map (setParent (some P)) else st.nodes[j]?)).map
                            (setRight (some l))
                         else if j = l then (st.nodes[j]?).map (setParent (some P)) else st.nodes[j]? := by
  have hng' : (n == g) = false := by simpa using hng
  have hopt : S.definition.isOptional = false := by rw [hSd]; rfl
  obtain ⟨n1, h1⟩ := modifyNode?_isSome (a := st.nodes) (fun nd => { nd with parent := some P }) (show l < st.nodes.size by omega)
  have s1 := modifyNode?_size h1
  obtain ⟨n2, h2⟩ := modifyNode?_isSome (a := n1) (fun nd => { nd with right := some l }) (show P < n1.size by omega)
  have s2 := modifyNode?_size h2
  refine ⟨n2, ?_, by omega, ?_⟩
  · unfold endGroupingFixLastLeft
    simp only [hl, hS, hng', Bool.or_false, hopt, Bool.false_eq_true, if_false]
    rw [modifyNode?_same hS]
    simp only [hSd, hSr, beq_self_eq_true, Bool.and_self, if_true, hSl, hSp, h1, h2]
  · intro j
    rw [modifyNode?_get h2 j, modifyNode?_get h1 j]
    rfl

/-- the state after a closing bracket that unlinks a trailing blank-line separator -/
def stepCU (st : PState) (g : Nat) (fl : Bool) (c : PToken) (nodes2 : Array ParseNode) : PState :=
  { st with nodes := nodes2, groupStack := st.groupStack.pop, checkForList := fl,
            currentGroup := if st.groupStack.pop.isEmpty then none else some (st.groupStack.pop.size - 1),
            lastLeft := some g, previousSecondDef := (getDefinition c.type).2, lastToken := c }

/-- **the closing bracket directly after a blank-line separator** (possibly with trivia / dropped separators in between):
    the separator node `n` is unlinked -/
theorem step_close_unlink (st : PState) (g n l P : Nat) (S G : ParseNode) (fl : Bool) (c : PToken) (il : Bool)
    (hug : underGroupOf st = .ok (some g)) (hadj : adjustLastLeft st (some g) = .ok st) (hnnl : st.nextLastLeft = none)
    (hcomp : checkComposition st.previousSecondDef (getDefinition c.type).2 st.checkForList = true)
    (hback : st.groupStack.back? = some (g, fl)) (hG : st.nodes[g]? = some G) (hcl : closes G.definition c)
    (hsz : st.nodes.size = n + 1) (hl : st.lastLeft = some n) (hS : st.nodes[n]? = some S)
    (hSd : S.definition = .subexpression) (hSr : S.right = some (n + 1)) (hSp : S.parent = some P)
    (hSl : S.left = some l) (hln : l < n) (hPn : P < n) (hng : n ≠ g) :
    ∃ nodes2, step st c il = .ok (stepCU st g fl c nodes2) ∧ nodes2.size = n + 1 ∧
      ∀ j, nodes2[j]? = if j = P then ((if j = l then (st.nodes[j]?).map (setParent (some P)) else st.nodes[j]?)).map
                            (setRight (some l))
                         else if j = l then (st.nodes[j]?).map (setParent (some P)) else st.nodes[j]? := by
  have hsd : (getDefinition c.type).1 = .drop ∧
      ((getDefinition c.type).2 = .endGrouping ∨ (getDefinition c.type).2 = .endSideEffect) := by
    rcases hcl with ⟨_, h⟩ | ⟨_, h⟩ | ⟨_, h⟩ <;> rw [h] <;> simp [getDefinition]
  have hfix : ∀ (stx : PState), stx.lastLeft = st.lastLeft → stx.nodes = st.nodes →
      ∃ nodes2, endGroupingFixLastLeft stx st.nodes.size g = .ok { stx with nodes := nodes2 } ∧ nodes2.size = n + 1 ∧
        ∀ j, nodes2[j]? = if j = P then ((if j = l then (st.nodes[j]?).map (setParent (some P)) else st.nodes[j]?)).map
                            (setRight (some l))
                         else if j = l then (st.nodes[j]?).map (setParent (some P)) else st.nodes[j]? := by
    intro stx h1 h2
    have := endFix_unlink stx g n l P S (by rw [h2]; exact hsz) (by rw [h1]; exact hl) (by rw [h2]; exact hS) hSd hSr hSp hSl
      hln hPn hng
    rw [h2] at this
    rw [hsz]; exact this
  obtain ⟨nodes2, hf, hs2, hg2⟩ := hfix
    { st with previousSecondDef := (getDefinition c.type).2, groupStack := st.groupStack.pop, nextLastLeft := some g,
              checkForList := fl,
              currentGroup := if st.groupStack.pop.isEmpty then none else some (st.groupStack.pop.size - 1) } rfl rfl
  refine ⟨nodes2, ?_, hs2, hg2⟩
  unfold step stepCU
  simp only [hug, hadj, Outcome.bind]
  generalize getDefinition c.type = ds at hsd hcomp hf ⊢
  obtain ⟨d, sc⟩ := ds
  simp only at hsd hcomp hf ⊢
  obtain ⟨hd, hsc⟩ := hsd
  subst hd
  rcases hsc with hsc | hsc <;> subst hsc <;> rcases hcl with ⟨k1, k2⟩ | ⟨k1, k2⟩ | ⟨k1, k2⟩ <;>
  · simp only [hcomp, Bool.not_true, Bool.false_eq_true, if_false, dispatch, armEndGrouping, hback, hG, k1, k2,
      Outcome.bind, bne_self_eq_false, hf]
    simp [pushNode, hnnl]

/-! ### the reference parser's separator steps -/

theorem sep_token_facts {t : PToken} (ht : isSepTok t = true) :
    (t.type = .subexpression ∨ t.type = .expressionSeparator) ∧ isFiller t.type = false ∧ isSeparator t.type = true ∧
      isCloser t.type = false := by
  unfold isSepTok at ht
  revert ht
  cases t.type <;> simp [getDefinition, isFiller, isSeparator, isCloser]

theorem trivia_token_facts {t : PToken} (ht : isTriviaTok t = true) : isFiller t.type = true := by
  unfold isTriviaTok at ht
  simp only [Bool.or_eq_true, beq_iff_eq] at ht
  rcases ht with (h | h) | h <;> rw [h] <;> rfl

/-- skipping trivia and separators, `closerFollows` looks at the first other token -/
theorem closerFollows_skip : ∀ (ws : List PToken) (rest : List PToken), (∀ w ∈ ws, isFillTok w = true) →
    closerFollows (ws ++ rest) = closerFollows rest
  | [], _, _ => rfl
  | w :: ws, rest, h => by
    have hw := h w (List.mem_cons_self ..)
    unfold isFillTok at hw
    have : (isFiller w.type || isSeparator w.type) = true := by
      by_cases htr : isTriviaTok w = true
      · simp [trivia_token_facts htr]
      · have hsp : isSepTok w = true := by simpa [htr] using hw
        simp [(sep_token_facts hsp).2.2.1]
    simp only [List.cons_append, closerFollows, this, if_true]
    exact closerFollows_skip ws rest (fun x hx => h x (List.mem_cons_of_mem _ hx))

/-- a separator that becomes a node (outside of groups, after an operand, not before a closer) -/
theorem ref_sep_stepK (f : Frame) (stack : List Frame) (pos q : Nat) (t : PToken) (rest : List PToken)
    (ht : isSepTok t = true) (hq : priority (getDefinition t.type).1 = some q) (hig : f.inGroup = false)
    (hps : f.prevSep = false) (hcf : closerFollows rest = false) (hl : f.last = .operand ∨ f.last = .suffix) :
    refStep Table.gen f stack pos t rest =
      .ok ({ f with cur := attach Table.gen q false (getDefinition t.type).1 pos f.cur, last := .sep, ws := false,
                    prevSep := true }, stack) := by
  have hs : (getDefinition t.type).2 = .subexpression := by unfold isSepTok at ht; simpa using ht
  have hgen : Table.gen.define = getDefinition := rfl
  have hpr : Table.gen.prio = priority := rfl
  unfold refStep
  rw [hgen]
  generalize getDefinition t.type = ds at hs hq ⊢
  obtain ⟨d, s⟩ := ds
  simp only at hs hq ⊢
  subst hs
  rcases hl with hl | hl <;> simp [hig, hps, hcf, hpr, hq, hl]

/-- a separator that the reference parser drops or treats as whitespace -/
theorem ref_sep_skipK (f : Frame) (stack : List Frame) (pos : Nat) (t : PToken) (rest : List PToken)
    (ht : isSepTok t = true) (hf : f.inGroup = true ∨ f.prevSep = true) :
    ∃ b, refStep Table.gen f stack pos t rest = .ok ({ f with ws := b }, stack) := by
  have hs : (getDefinition t.type).2 = .subexpression := by unfold isSepTok at ht; simpa using ht
  have hgen : Table.gen.define = getDefinition := rfl
  unfold refStep
  rw [hgen]
  generalize getDefinition t.type = ds at hs ⊢
  obtain ⟨d, s⟩ := ds
  simp only at hs ⊢
  subst hs
  by_cases hig : f.inGroup = true
  · exact ⟨true, by simp [hig]⟩
  · have hps : f.prevSep = true := by rcases hf with h | h; exact absurd h hig; exact h
    refine ⟨f.ws, ?_⟩
    have : ({ f with prevSep := true } : Frame) = { f with ws := f.ws } := by cases f; simp_all
    simp [hig, hps, this]

/-- a blank-line separator before a closer is dropped -/
theorem ref_sep_trailK (f : Frame) (stack : List Frame) (pos : Nat) (t : PToken) (rest : List PToken)
    (ht : t.type = .subexpression) (hig : f.inGroup = false) (hcf : closerFollows rest = true) :
    refStep Table.gen f stack pos t rest = .ok ({ f with prevSep := true }, stack) := by
  have hgen : Table.gen.define = getDefinition := rfl
  unfold refStep
  rw [hgen, ht]
  simp [getDefinition, hig, hcf]

/-- a run of trivia and separators where the reference parser keeps nothing (in a group, or after a separator / `{`) -/
theorem ref_skip_fillK : ∀ (ws : List PToken) (f : Frame) (stack : List Frame) (pos : Nat) (rest : List PToken),
    (∀ w ∈ ws, isFillTok w = true) → (f.inGroup = true ∨ f.prevSep = true) →
    ∃ b, refLoop Table.gen f stack pos (ws ++ rest) = refLoop Table.gen { f with ws := b } stack (pos + ws.length) rest := by
  intro ws
  induction ws with
  | nil => intro f stack pos rest _ _; exact ⟨f.ws, rfl⟩
  | cons w ws ih =>
    intro f stack pos rest hws hf
    have hw := hws w (List.mem_cons_self ..)
    have hstep : ∃ b, refStep Table.gen f stack pos w (ws ++ rest) = .ok ({ f with ws := b }, stack) := by
      unfold isFillTok at hw
      by_cases htr : isTriviaTok w = true
      · obtain ⟨b, hb⟩ := ref_skipK [w] f stack pos (ws ++ rest) (by intro x hx; simp at hx; rw [hx]; exact htr)
        -- one step of the loop
        unfold refStep
        have hgen : Table.gen.define = getDefinition := rfl
        rw [hgen]
        unfold isTriviaTok at htr
        simp only [Bool.or_eq_true, beq_iff_eq] at htr
        rcases htr with (h | h) | h <;> rw [h] <;> simp only [getDefinition]
        · exact ⟨true, rfl⟩
        · exact ⟨f.ws, rfl⟩
        · exact ⟨f.ws, rfl⟩
      · have hsp : isSepTok w = true := by simpa [htr] using hw
        exact ref_sep_skipK f stack pos w _ hsp hf
    obtain ⟨b, hb⟩ := hstep
    have hf' : ({ f with ws := b } : Frame).inGroup = true ∨ ({ f with ws := b } : Frame).prevSep = true := hf
    obtain ⟨b', hb'⟩ := ih { f with ws := b } stack (pos + 1) rest (fun x hx => hws x (List.mem_cons_of_mem _ hx)) hf'
    refine ⟨b', ?_⟩
    simp only [List.cons_append, List.length_cons]
    conv => lhs; unfold refLoop
    rw [hb]
    simp only [Outcome.bind]
    rw [hb']
    have : pos + 1 + ws.length = pos + (ws.length + 1) := by omega
    rw [this]

end Garnish.Spec
