/-
C04, builder half — the order of the out-of-line parts, part 2: `conditional_parent` on a validated tree.
-/
import Garnish.Lemmas.BuildLifo
namespace Garnish.Lemmas.BuildSeq
open Garnish Garnish.Gen Garnish.Model.Parser Garnish.Model.Literals Garnish.Model.Build Garnish.Lemmas.Build
open Garnish.Lemmas.BuildTotal

variable {root : Nat} {tree : Array ParseNode} {G : Nat → Prop}

theorem def_G (V : Validated root tree G) {y : Nat} {pn : ParseNode} (hy : tree[y]? = some pn)
    (hd : pn.definition ≠ .subexpression) : G y := by
  rcases Classical.em (G y) with h | h
  · exact h
  · exact absurd (V.rest y pn hy h) hd

theorem logical_G (V : Validated root tree G) {y : Nat} {pn : ParseNode} (hy : tree[y]? = some pn)
    (hd : isLogical pn.definition = true) : G y :=
  def_G V hy (by intro e; rw [e] at hd; simp [isLogical] at hd)

theorem else_G (V : Validated root tree G) {y : Nat} {pn : ParseNode} (hy : tree[y]? = some pn)
    (hd : pn.definition = .elseJump) : G y :=
  def_G V hy (by rw [hd]; intro e; cases e)

theorem else_ilink {e x : Nat} {pn : ParseNode} (h1 : tree[e]? = some pn) (h2 : pn.definition = .elseJump)
    (h3 : pn.left = some x ∨ pn.right = some x) : ILink tree e x := by
  refine ⟨pn, h1, ?_⟩
  rcases h3 with h | h
  · exact Or.inl ⟨h, by rw [h2]; rfl⟩
  · exact Or.inr ⟨h, by rw [h2]; rfl⟩

theorem logical_ilink {y x : Nat} {pn : ParseNode} (h1 : tree[y]? = some pn) (h2 : isLogical pn.definition = true)
    (h3 : pn.left = some x) : ILink tree y x := by
  refine ⟨pn, h1, Or.inl ⟨h3, ?_⟩⟩
  cases hd : pn.definition <;> rw [hd] at h2 <;> simp [isLogical] at h2 <;> rfl

/-- the in-line parent of a node with a conditional parent -/
theorem CP.parent (V : Validated root tree G) : ∀ {x cp : Nat}, CP tree G root x cp → ∃ w, G w ∧ ILink tree w x
  | _, _, .logical h1 h2 h3 => ⟨_, logical_G V h1 h2, logical_ilink h1 h2 h3⟩
  | _, _, .inherit h1 h2 h3 _ => ⟨_, else_G V h1 h2, else_ilink h1 h2 h3⟩
  | _, _, .top h1 h2 h3 _ => ⟨_, else_G V h1 h2, else_ilink h1 h2 h3⟩

/-- the conditional parent is an in-line ancestor, reached through ElseJump nodes (and possibly one And / Or at the top) -/
theorem CP.idesc : ∀ {x cp : Nat}, CP tree G root x cp → IDesc tree cp x
  | _, _, .logical h1 h2 h3 => IDesc.step (IDesc.refl _) (logical_ilink h1 h2 h3)
  | _, _, .inherit h1 h2 h3 h4 => IDesc.step (CP.idesc h4) (else_ilink h1 h2 h3)
  | _, _, .top h1 h2 h3 _ => IDesc.step (IDesc.refl _) (else_ilink h1 h2 h3)

theorem CP.inG (V : Validated root tree G) : ∀ {x cp : Nat}, CP tree G root x cp → G cp
  | _, _, .logical h1 h2 _ => logical_G V h1 h2
  | _, _, .inherit _ _ _ h4 => CP.inG V h4
  | _, _, .top h1 h2 _ _ => else_G V h1 h2

/-- a node has a conditional parent or none, not both -/
theorem CP.excl (V : Validated root tree G) {x cp : Nat} (h : CP tree G root x cp) (hn : NCP tree G root x) : False := by
  obtain ⟨w, hw, hl⟩ := h.parent V
  cases hn with
  | root => exact child_ne_root V hw hl.isChild rfl
  | @other y _ pn hy hpn hc hne hnl =>
    have hyw := parent_unique V hy hw ⟨pn, hpn, hc⟩ hl.isChild
    subst hyw
    cases h with
    | logical h1 h2 h3 =>
      have := parent_unique V hy (logical_G V h1 h2) ⟨pn, hpn, hc⟩ ⟨_, h1, Or.inl h3⟩
      subst this
      rw [hpn] at h1; cases h1
      exact hnl ⟨h2, h3⟩
    | inherit h1 h2 h3 _ =>
      have := parent_unique V hy (else_G V h1 h2) ⟨pn, hpn, hc⟩ ⟨_, h1, h3⟩
      subst this
      rw [hpn] at h1; cases h1
      exact hne h2
    | top h1 h2 h3 _ =>
      have := parent_unique V hy (else_G V h1 h2) ⟨pn, hpn, hc⟩ ⟨_, h1, h3⟩
      subst this
      rw [hpn] at h1; cases h1
      exact hne h2

/-- the conditional parent is unique -/
theorem CP.unique (V : Validated root tree G) : ∀ {x a b : Nat}, CP tree G root x a → CP tree G root x b → a = b
  | _, _, _, .logical (y := y) (pn := pn) h1 h2 h3, hb => by
    have hy := logical_G V h1 h2
    cases hb with
    | logical h1' h2' h3' => exact parent_unique V hy (logical_G V h1' h2') ⟨_, h1, Or.inl h3⟩ ⟨_, h1', Or.inl h3'⟩
    | inherit h1' h2' h3' _ =>
      have := parent_unique V hy (else_G V h1' h2') ⟨_, h1, Or.inl h3⟩ ⟨_, h1', h3'⟩
      subst this
      rw [h1] at h1'; cases h1'
      rw [h2'] at h2; exact absurd h2 (by simp [isLogical])
    | top h1' h2' h3' _ => exact parent_unique V hy (else_G V h1' h2') ⟨_, h1, Or.inl h3⟩ ⟨_, h1', h3'⟩
  | _, _, _, .inherit (e := e) h1 h2 h3 h4, hb => by
    have he := else_G V h1 h2
    cases hb with
    | logical h1' h2' h3' =>
      have := parent_unique V he (logical_G V h1' h2') ⟨_, h1, h3⟩ ⟨_, h1', Or.inl h3'⟩
      subst this
      rw [h1] at h1'; cases h1'
      rw [h2] at h2'; exact absurd h2' (by simp [isLogical])
    | inherit h1' h2' h3' h4' =>
      have := parent_unique V he (else_G V h1' h2') ⟨_, h1, h3⟩ ⟨_, h1', h3'⟩
      subst this
      exact CP.unique V h4 h4'
    | top h1' h2' h3' h4' =>
      have := parent_unique V he (else_G V h1' h2') ⟨_, h1, h3⟩ ⟨_, h1', h3'⟩
      subst this
      exact absurd h4' (fun hn => CP.excl V h4 hn)
  | _, _, _, .top (e := e) h1 h2 h3 h4, hb => by
    have he := else_G V h1 h2
    cases hb with
    | logical h1' h2' h3' => exact parent_unique V he (logical_G V h1' h2') ⟨_, h1, h3⟩ ⟨_, h1', Or.inl h3'⟩
    | inherit h1' h2' h3' h4' =>
      have := parent_unique V he (else_G V h1' h2') ⟨_, h1, h3⟩ ⟨_, h1', h3'⟩
      subst this
      exact absurd h4 (fun hn => CP.excl V h4' hn)
    | top h1' h2' h3' _ => exact parent_unique V he (else_G V h1' h2') ⟨_, h1, h3⟩ ⟨_, h1', h3'⟩

/-- the proper ancestors of a node on an in-line path are comparable with every ancestor of the node -/
theorem sub_parent (V : Validated root tree G) {r x w : Nat} (hr : G r) (h : Sub tree r x) (hne : x ≠ r) (hw : G w)
    (hc : IsChild tree w x) : Sub tree r w := by
  cases h with
  | refl => exact absurd rfl hne
  | @step w' _ h1 h2 =>
    have := parent_unique V (sub_G V hr h1) hw h2 hc
    subst this
    exact h1

/-- `r` (a node that is not an in-line child) above a node of an in-line path below `a`: `r` is above `a` -/
theorem sub_of_idesc (V : Validated root tree G) {a y r : Nat} (ha : G a) (hr : G r) (hnl : ∀ w, G w → ¬ ILink tree w r)
    (hd : IDesc tree a y) (hs : Sub tree r y) : Sub tree r a := by
  induction hd with
  | refl => exact hs
  | @step w x hw hl ih =>
    rcases Classical.em (x = r) with e | e
    · subst e; exact absurd hl (hnl w (idesc_G V ha hw))
    · exact ih (sub_parent V hr hs e (idesc_G V ha hw) hl.isChild)

end Garnish.Lemmas.BuildSeq
