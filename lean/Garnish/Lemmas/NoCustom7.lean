/-
From `NoCustom` to the side conditions of the relativised refinement (`≠ custom`, `ncNodes`, `ncConcat`, `NoCustomTop`); `noCustom_reach`.
-/
import Garnish.Lemmas.NoCustom6
import Garnish.Lemmas.RuntimeOnBalanced3
set_option linter.unusedSimpArgs false
set_option linter.unusedVariables false
namespace Garnish.Lemmas.NoCustom
open Garnish Gen Garnish.Abs Garnish.Model.Equality Garnish.Model.Runtime Garnish.Lemmas.Runtime
open Garnish.Lemmas.Runtime.On Garnish.Props.C06

variable {F : Type} {fo : FloatOps F} {host : Host F} {P : Prog F}

theorem nc_ne {v : Val F} (h : nc v = true) : v ≠ .custom := by
  intro hv; subst hv; cases h

theorem ncNodes_of_nc : ∀ (v : Val F), nc v = true → ncNodes v
  | .concat l r, h => by simp [nc] at h; exact ⟨ncNodes_of_nc l h.1, ncNodes_of_nc r h.2⟩
  | .custom, h => by cases h
  | .unit, _ | .tru, _ | .fls, _ | .num _, _ | .char _, _ | .byte _, _ | .sym _, _ | .expr _, _ | .ext _, _
  | .type _, _ | .chars _, _ | .bytes _, _ | .symList _, _ | .pair _ _, _ | .list _, _ | .range _ _, _
  | .slice _ _, _ | .part _ _, _ => trivial

theorem ncConcat_of_nc {v : Val F} (h : nc v = true) : ncConcat v := by
  cases v <;> first | trivial | (simp [nc] at h; exact ⟨ncNodes_of_nc _ h.1, ncNodes_of_nc _ h.2⟩)

theorem noCustomTop_of {m : MState F} (h : NoCustom m) : NoCustomTop m :=
  ⟨fun v hv => nc_ne ((ncL_iff _).mp h.regs v hv), fun v hv => nc_ne ((ncL_iff _).mp h.vals v hv)⟩

/-- the invariant holds in every state reached from a custom-free start -/
theorem noCustom_reach (HN : HostNoCustom host) (hc : ConstsNC P) {entries : List Nat} {s0 s : MState F}
    (h0 : NoCustom s0) (hr : ReachK fo host P entries s0 s) : NoCustom s := by
  induction hr with
  | refl => exact h0
  | snoc _ hs _ ih => exact step_nc HN hc ih (Or.inl hs)

theorem noCustom_start {entry : Nat} {vals : List (Val F)} {tr : List (HostCall F)} (hv : ncL vals = true) :
    NoCustom (⟨entry, [], vals, [], tr⟩ : MState F) := ⟨rfl, hv, fun _ h => by cases h⟩

end Garnish.Lemmas.NoCustom
