/-
C06 static half on compiled code, part 7: facts about the ghost depths that hold for every expression, well formed
or not (they are needed before the well-formedness of a pending root's body is known): `emit` appends one depth
per instruction, and the first instruction is entered at the depth at which the emission starts.
-/
import Garnish.Lemmas.CompileDepth6
namespace Garnish.Abs
open Garnish Gen Garnish.Spec Garnish.Props.C06

variable {F : Type}

theorem chainNoFinal_dstep (arms : List (Bool × Expr F × Expr F)) (s : LState F) :
    DepStep s (chainNoFinal arms s) (match arms with | [] => 1 | _ :: _ => 0) := by
  cases arms with
  | nil => exact .push _ _ _
  | cons a as => exact .refl _

mutual
theorem emit_dstep (root cur : Nat) : ∀ (e : Expr F) (s : LState F), DepStep s (emit root cur e s) (len e)
  | .lit v, s => by simp only [emit, len]; exact .pushConst s _ _
  | .input, s => by simp only [emit, len]; exact .push s _ _
  | .ident sym, s => by simp only [emit, len]; exact .pushConst s _ _
  | .emptyNested, s => by simp only [emit, len]; exact .pushConst s _ _
  | .nested id, s => by
    simp only [emit, len]
    exact ((DepStep.pushJump _ _).trans (.pushConst _ _ _)).trans (.pushRoot _ _) |>.cast (by omega)
  | .unary op x, s => by simp only [emit, len]; exact (emit_dstep root cur x s).trans (.push _ _ _)
  | .binary op l r, s => by
    simp only [emit, len]; exact ((emit_dstep root cur l s).trans (emit_dstep root cur r _)).trans (.push _ _ _)
  | .pair l r, s => by
    simp only [emit, len]
    exact (((emit_dstep root cur r s).trans (emit_dstep root cur l _)).trans (.push _ _ _)).cast (by omega)
  | .applyTo x f, s => by
    simp only [emit, len]
    exact (((emit_dstep root cur f s).trans (emit_dstep root cur x _)).trans (.push _ _ _)).cast (by omega)
  | .list items, s => by simp only [emit, len]; exact (emitList_dstep root cur items s).trans (.push _ _ _)
  | .cond onTrue c t, s => by
    simp only [emit, len, condTail]
    exact ((emit_dstep root cur c s).trans (((((DepStep.pushJump _ _).trans (.push _ _ _)).trans (.push _ _ _)).trans
      (.pushRoot _ _)).trans (.pushJump _ _))).cast (by omega)
  | .and l r, s => by
    simp only [emit, len, logicalTail]
    exact ((emit_dstep root cur l s).trans ((((DepStep.pushJump _ _).trans (.push _ _ _)).trans
      (.pushRoot _ _)).trans (.pushJump _ _))).cast (by omega)
  | .or l r, s => by
    simp only [emit, len, logicalTail]
    exact ((emit_dstep root cur l s).trans ((((DepStep.pushJump _ _).trans (.push _ _ _)).trans
      (.pushRoot _ _)).trans (.pushJump _ _))).cast (by omega)
  | .seq a b, s => by
    simp only [emit, len]
    exact (((emit_dstep root cur a s).trans (.push _ _ _)).trans (emit_dstep root cur b _)).cast (by omega)
  | .sideAfter x b, s => by
    simp only [emit, len]
    exact ((((emit_dstep root cur x s).trans (.push _ _ _)).trans (emit_dstep root cur b _)).trans (.push _ _ _)).cast (by omega)
  | .reapply x, s => by
    simp only [emit, len]
    exact (((emit_dstep root cur x s).trans (.push _ _ _)).trans (.push _ _ _)).cast (by omega)
  | .prefixApply sym x, s => by
    simp only [emit, len]
    exact (((DepStep.pushConst s _ _).trans (emit_dstep root cur x _)).trans (.push _ _ _)).cast (by omega)
  | .suffixApply x sym, s => by
    simp only [emit, len]
    exact (((DepStep.pushConst s _ _).trans (emit_dstep root cur x _)).trans (.push _ _ _)).cast (by omega)
  | .infixApply a sym b, s => by
    simp only [emit, len]
    exact (((((DepStep.pushConst s _ _).trans (emit_dstep root cur a _)).trans (emit_dstep root cur b _)).trans
      (.push _ _ _)).trans (.push _ _ _)).cast (by omega)
  | .chain arms none, s => by
    simp only [emit]
    rw [len_chain]
    exact ((emitArms_dstep root cur arms s).trans (chainNoFinal_dstep arms _)).trans finishChain_dep.1 |>.cast
      (by cases arms <;> simp)
  | .chain arms (some e), s => by
    simp only [emit]
    rw [len_chain]
    exact ((emitArms_dstep root cur arms s).trans (emit_dstep root cur e _)).trans finishChain_dep.1 |>.cast (by simp)

theorem emitList_dstep (root cur : Nat) : ∀ (items : List (Expr F)) (s : LState F),
    DepStep s (emitList root cur items s) (lenList items)
  | [], s => by simp only [emitList, lenList]; exact .refl s
  | x :: xs, s => by
    simp only [emitList, lenList]; exact (emit_dstep root cur x s).trans (emitList_dstep root cur xs _)

theorem emitArms_dstep (root cur : Nat) : ∀ (arms : List (Bool × Expr F × Expr F)) (s : LState F),
    DepStep s (emitArms root cur arms s).1 (lenArms arms)
  | [], s => by simp only [emitArms, lenArms]; exact .refl s
  | (onTrue, c, t) :: rest, s => by
    simp only [emitArms, lenArms]
    exact (((emit_dstep root cur c s).trans ((DepStep.pushJump _ _).trans (.push _ _ _))).trans
      (emitArms_dstep root cur rest _)).cast (by omega)
end

theorem al_emit' {root cur : Nat} {e : Expr F} {s : LState F} (hal : Al s) (hc : cur < s.jumps.size) :
    Al (emit root cur e s) := by
  have h1 := (emit_pre root cur e s hc).2
  have h2 := (emit_dstep root cur e s).dsize
  simp only [Al] at hal ⊢
  omega

mutual
/-- the first instruction of an expression is entered at the depth at which its emission starts -/
theorem emit_first' (root cur : Nat) : ∀ (e : Expr F) (s : LState F), Al s →
    (emit root cur e s).depths[s.instrs.size]? = some s.dep
  | .lit v, s, hal => by simp only [emit]; exact first_pushConst hal _ _
  | .input, s, hal => by simp only [emit]; exact first_push hal _ _
  | .ident sym, s, hal => by simp only [emit]; exact first_pushConst hal _ _
  | .emptyNested, s, hal => by simp only [emit]; exact first_pushConst hal _ _
  | .nested id, s, hal => by
    simp only [emit]
    exact first_app (first_pushConst (s := s.pushJump 0) hal _ _) (.pushRoot _ _)
  | .unary op x, s, hal => by
    simp only [emit]; exact first_app (emit_first' root cur x s hal) (.push _ _ _)
  | .binary op l r, s, hal => by
    simp only [emit]
    exact first_app (emit_first' root cur l s hal) ((emit_dstep root cur r _).app.trans (.push _ _ _))
  | .pair l r, s, hal => by
    simp only [emit]
    exact first_app (emit_first' root cur r s hal) ((emit_dstep root cur l _).app.trans (.push _ _ _))
  | .applyTo x f, s, hal => by
    simp only [emit]
    exact first_app (emit_first' root cur f s hal) ((emit_dstep root cur x _).app.trans (.push _ _ _))
  | .list [], s, hal => by simp only [emit, emitList]; exact first_push hal _ _
  | .list (x :: xs), s, hal => by
    simp only [emit, emitList]
    exact first_app (emit_first' root cur x s hal) ((emitList_dstep root cur xs _).app.trans (.push _ _ _))
  | .cond onTrue c t, s, hal => by
    have h := emit_dstep root cur (.cond onTrue c t) s
    have hc := emit_dstep root cur c s
    simp only [emit]
    simp only [emit] at h
    refine first_app (emit_first' root cur c s hal) ?_
    simp only [condTail]
    exact ((((AppD.pushJump _ _).trans (.push _ _ _)).trans (.push _ _ _)).trans (.pushRoot _ _)).trans (.pushJump _ _)
  | .and l r, s, hal => by
    simp only [emit, logicalTail]
    exact first_app (emit_first' root cur l s hal)
      ((((AppD.pushJump _ _).trans (.push _ _ _)).trans (.pushRoot _ _)).trans (.pushJump _ _))
  | .or l r, s, hal => by
    simp only [emit, logicalTail]
    exact first_app (emit_first' root cur l s hal)
      ((((AppD.pushJump _ _).trans (.push _ _ _)).trans (.pushRoot _ _)).trans (.pushJump _ _))
  | .seq a b, s, hal => by
    simp only [emit]
    exact first_app (emit_first' root cur a s hal) ((AppD.push _ _ _).trans (emit_dstep root cur b _).app)
  | .sideAfter x b, s, hal => by
    simp only [emit]
    exact first_app (emit_first' root cur x s hal)
      (((AppD.push _ _ _).trans (emit_dstep root cur b _).app).trans (.push _ _ _))
  | .reapply x, s, hal => by
    simp only [emit]
    exact first_app (emit_first' root cur x s hal) ((AppD.push _ _ _).trans (.push _ _ _))
  | .prefixApply sym x, s, hal => by
    simp only [emit]
    exact first_app (first_pushConst hal _ _) ((emit_dstep root cur x _).app.trans (.push _ _ _))
  | .suffixApply x sym, s, hal => by
    simp only [emit]
    exact first_app (first_pushConst hal _ _) ((emit_dstep root cur x _).app.trans (.push _ _ _))
  | .infixApply a sym b, s, hal => by
    simp only [emit]
    exact first_app (first_pushConst hal _ _)
      ((((emit_dstep root cur a _).app.trans (emit_dstep root cur b _).app).trans (.push _ _ _)).trans (.push _ _ _))
  | .chain [] none, s, hal => by
    simp only [emit, emitArms, chainNoFinal, finishChain]; exact first_push hal _ _
  | .chain ((onTrue, c, t) :: rest) none, s, hal => by
    simp only [emit, emitArms, chainNoFinal]
    have a1 := ((AppD.pushJump (emit root cur c s) 0).trans
      (.push _ (jumpIf onTrue) (some (emit root cur c s).jumps.size))).trans (emitArms_dstep root cur rest _).app
    exact first_app (first_app (emit_first' root cur c s hal) a1) finishChain_dep.1.app
  | .chain [] (some e), s, hal => by
    simp only [emit, emitArms]
    exact first_app (emit_first' root cur e s hal) finishChain_dep.1.app
  | .chain ((onTrue, c, t) :: rest) (some e), s, hal => by
    simp only [emit, emitArms]
    have a1 := ((AppD.pushJump (emit root cur c s) 0).trans
      (.push _ (jumpIf onTrue) (some (emit root cur c s).jumps.size))).trans (emitArms_dstep root cur rest _).app
    have a2 := (emit_dstep root cur e (emitArms root cur rest
      (((emit root cur c s).pushJump 0).push (jumpIf onTrue) (some (emit root cur c s).jumps.size))).1).app
    exact first_app (first_app (first_app (emit_first' root cur c s hal) a1) a2) finishChain_dep.1.app
end

end Garnish.Abs
