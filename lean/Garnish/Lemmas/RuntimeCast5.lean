/-
Refinement lemmas for casting.rs, part 5: the `(Slice, List)` arm — `get_slice`, `get_range` (its three failures as
Abs/Casts `sliceToList` has them), then by the type of the sliced value: a list, a text, a byte list (integer extents
inside the sequence: `SegOK`), a concatenation (any number extent: the window of Abs/Casts `concatWindow`), anything
that is no sequence (unit).
-/
import Garnish.Lemmas.RuntimeCast8
set_option linter.unusedSimpArgs false
set_option linter.unusedVariables false
namespace Garnish.Lemmas.Runtime
open Garnish Gen Garnish.Abs Garnish.Model.Equality Garnish.Model.Runtime

variable {F σ : Type} {S : RStore F σ} {C : CastOps σ} {env : CastEnv F} (fo : FloatOps F)

/-- an integer extent `a ..= b` that lies inside a sequence of length `n` (possibly empty: `b < a`; the start is at most the length) -/
def SegOK (fuel n : Nat) (s e : Number F) : Prop :=
  ∃ a b : Int, s = .int a ∧ e = .int b ∧ 0 ≤ a ∧ a ≤ n ∧ -1 ≤ b ∧ b < n ∧ n < 2147483647 ∧
    (b + 1 - a).toNat + 1 ≤ fuel

/-- the slices the refinement covers -/
def SliceDomain (fuel : Nat) (x rng : Val F) : Prop :=
  ∀ s e len, rng = .range (.num s) (.num e) → Abs.rangeLen fo s e = some len →
    match x with
    | .list vs => SegOK fuel vs.length s e
    | .chars cs => SegOK fuel cs.length s e
    | .bytes bs => SegOK fuel bs.length s e
    | .concat a b => nodes a + nodes b + 1 ≤ fuel ∧ (flatItems a ++ flatItems b).length ≤ 2147483647
    | _ => True

/-! ### the value-level side -/

theorem sliceToList_nonrange (st : StoreKind) (x : Val F) {rng : Val F} (h : rng.typeOf ≠ .range) :
    sliceToList fo st x rng = .err .data := by
  cases rng <;> first | rfl | (exfalso; exact h rfl)

theorem sliceToList_nonnum (st : StoreKind) (x : Val F) {a b : Val F}
    (hn : ¬ (a.typeOf = .number ∧ b.typeOf = .number)) : sliceToList fo st x (.range a b) = .err .state := by
  cases a <;> cases b <;> first | rfl | (exfalso; exact hn ⟨rfl, rfl⟩)

theorem sliceLoop_simple_int (strict : Bool) (n declared : Nat) (a e : Int)
    (get : Number F → Except ErrClass (Val F)) (f : Int → Val F)
    (hcount : countLoop fo strict (n + 1) (.int a) (.int e) = .ok ((intsFrom a n).map .int, false))
    (hget : ∀ j ∈ intsFrom a n, get (.int j) = .ok (f j)) :
    sliceLoop fo .simple strict n declared (.int a) (.int e) get = .val (.list ((intsFrom a n).map f)) := by
  have hm : mapItems get ((intsFrom a n).map (Number.int (F := F))) =
      .ok (((intsFrom a n).map (Number.int (F := F))).map
        (fun idx : Number F => match idx with | .int k => f k | .float _ => Val.unit)) := by
    apply mapItems_ok
    intro i hi
    simp only [List.mem_map] at hi
    obtain ⟨k, hk, rfl⟩ := hi
    exact hget k hk
  simp only [sliceLoop, loopFuel, hcount, Bool.false_eq_true, if_false, hm, buildList, List.map_map]
  congr 2

/-- what `SegOK` gives: the ends, their arithmetic facts, and the length of the range -/
theorem segOK_facts {fuel n : Nat} {s e len : Number F} (h : SegOK fuel n s e) (hlen : Abs.rangeLen fo s e = some len) :
    ∃ a b : Int, s = .int a ∧ e = .int b ∧ 0 ≤ a ∧ a ≤ n ∧ -1 ≤ b ∧ b < n ∧ n < 2147483647 ∧ (b + 1 - a).toNat + 1 ≤ fuel ∧
      numToSize fo len = (b - a + 1).toNat ∧ a.toNat + (b - a + 1).toNat ≤ n ∧ a = (a.toNat : Int) := by
  obtain ⟨a, b, rfl, rfl, h0, hamax, hb, hbn, hn, hf⟩ := h
  have hl1 : InRange (b - a) := by unfold InRange; omega
  have hl2 : InRange (b - a + 1) := by unfold InRange; omega
  rw [rangeLen_int fo a b hl1 hl2] at hlen
  cases hlen
  exact ⟨a, b, rfl, rfl, h0, hamax, hb, hbn, hn, hf, rfl, by omega, by omega⟩

/-- a list slice inside the list: its items -/
theorem sliceToList_list (vs : List (Val F)) (a b : Int) (h0 : 0 ≤ a) (hb : -1 ≤ b) (hbn : b < vs.length)
    (hn : vs.length < 2147483647) (ha : a ≤ vs.length) :
    sliceToList fo .simple (.list vs) (.range (.num (.int a)) (.num (.int b))) =
      .val (.list ((vs.drop a.toNat).take (b - a + 1).toNat)) := by
  have hl1 : InRange (b - a) := by unfold InRange; omega
  have hl2 : InRange (b - a + 1) := by unfold InRange; omega
  have hcount := countLoop_int fo ((b - a + 1).toNat + 1) a b (by omega) (by omega) (Nat.le_succ _)
  have hget : ∀ j ∈ intsFrom a (b - a + 1).toNat,
      sliceListItem fo .simple vs (.int j) = .ok ((fun j : Int => vs[j.toNat]?.getD Val.unit) j) := by
    intro j hj
    have := mem_intsFrom _ _ _ hj
    have hj0 : ¬ j < 0 := by omega
    simp [sliceListItem, hj0]
  simp only [sliceToList, rangeLen_int fo a b hl1 hl2, numToSize,
    sliceLoop_simple_int fo false _ _ a b _ _ hcount hget]
  have hseg := intsFrom_map_segment vs (fun v => v) Val.unit (b - a + 1).toNat a.toNat (by omega)
  rw [show ((a.toNat : Nat) : Int) = a by omega] at hseg
  rw [hseg, List.map_id']

/-- a text / byte-list slice inside the sequence: its elements (`mk` = `.char` / `.byte`) -/
theorem sliceLoop_seq (mk : Nat → Val F) (xs : List Nat) (declared : Nat) (a b : Int) (h0 : 0 ≤ a) (hb : -1 ≤ b)
    (hbn : b < xs.length) (hn : xs.length < 2147483647) (ha : a ≤ xs.length) :
    sliceLoop fo .simple true (b - a + 1).toNat declared (.int a) (.int (b + 1)) (sliceSeqItem fo .simple mk xs) =
      .val (.list (((xs.drop a.toNat).take (b - a + 1).toNat).map mk)) := by
  have hcount := countLoop_int_strict fo ((b - a + 1).toNat + 1) a (b + 1) (by omega) (by omega) (by omega)
  rw [show (b + 1 - a).toNat = (b - a + 1).toNat by omega] at hcount
  have hget : ∀ j ∈ intsFrom a (b - a + 1).toNat,
      sliceSeqItem fo .simple mk xs (.int j) = .ok ((fun j : Int => mk (xs[j.toNat]?.getD 0)) j) := by
    intro j hj
    have := mem_intsFrom _ _ _ hj
    have hj0 : ¬ j < 0 := by omega
    have hlt : j.toNat < xs.length := by omega
    simp [sliceSeqItem, hj0, List.getElem?_eq_getElem hlt]
  rw [sliceLoop_simple_int fo true _ _ a (b + 1) _ _ hcount hget]
  have hseg := intsFrom_map_segment xs mk 0 (b - a + 1).toNat a.toNat (by omega)
  rw [show ((a.toNat : Nat) : Int) = a by omega] at hseg
  rw [hseg]

theorem sliceToList_chars (cs : List Nat) (a b : Int) (h0 : 0 ≤ a) (hb : -1 ≤ b) (hbn : b < cs.length)
    (hn : cs.length < 2147483647) (ha : a ≤ cs.length) :
    sliceToList fo .simple (.chars cs) (.range (.num (.int a)) (.num (.int b))) =
      .val (.list (((cs.drop a.toNat).take (b - a + 1).toNat).map .char)) := by
  have hl1 : InRange (b - a) := by unfold InRange; omega
  have hl2 : InRange (b - a + 1) := by unfold InRange; omega
  simp only [sliceToList, rangeLen_int fo a b hl1 hl2, numToSize, cast_increment_int fo b (by omega) (by omega),
    sliceLoop_seq fo .char cs _ a b h0 hb hbn hn ha]

theorem sliceToList_bytes (bs : List Nat) (a b : Int) (h0 : 0 ≤ a) (hb : -1 ≤ b) (hbn : b < bs.length)
    (hn : bs.length < 2147483647) (ha : a ≤ bs.length) :
    sliceToList fo .simple (.bytes bs) (.range (.num (.int a)) (.num (.int b))) =
      .val (.list (((bs.drop a.toNat).take (b - a + 1).toNat).map .byte)) := by
  have hl1 : InRange (b - a) := by unfold InRange; omega
  have hl2 : InRange (b - a + 1) := by unfold InRange; omega
  simp only [sliceToList, rangeLen_int fo a b hl1 hl2, numToSize, cast_increment_int fo b (by omega) (by omega),
    sliceLoop_seq fo .byte bs _ a b h0 hb hbn hn ha]

/-! ### the code side -/

theorem listLen_of (L : StoreLaws S) {s : σ} {a : Nat} {vs : List (Val F)} (h : Decodes (S.view s) a (.list vs)) :
    S.listLen s a = .ok vs.length := by
  obtain ⟨items, hli, hdl⟩ := listItems_of h
  rw [(L.listIdx s a items hli).1, EqualityRefine.decodesList_length hdl]

/-- `(Slice, List)` -/
theorem castBody_sliceList (L : StoreLawsC S C env) (fuel : Nat) {s s0 : σ} {rest : List Nat} {l r : Nat}
    {x rng : Val F} (e0 : Eff S s s0 rest (S.vals s)) (hl : Decodes (S.view s0) l (.slice x rng))
    (hdom : SliceDomain fo fuel x rng) :
    RefinesCast S s ((castBody fo S C fuel l r .slice .list >>= fun _ => pure (none : Option Nat)) s0) none rest l r
      (sliceToList fo .simple x rng) := by
  have harm : castArm .slice .list = .sliceList := rfl
  cases hl with
  | @slice _ va ra _ _ _ hs dv dr =>
  unfold castBody
  rw [harm]
  simp only []
  rw [bind_ok2 (getSlice_of hs)]
  simp only []
  by_cases hr : rng.typeOf = .range
  · obtain ⟨a, b, rfl⟩ := typeOf_inv_range hr
    by_cases hn : a.typeOf = .number ∧ b.typeOf = .number
    · obtain ⟨sn, rfl⟩ := typeOf_number hn.1
      obtain ⟨en, rfl⟩ := typeOf_number hn.2
      cases hlen : Abs.rangeLen fo sn en with
      | none =>
        have hg : getRange fo S ra s0 = .err .number := by rw [getRange_num fo dr, hlen]
        simp only [sliceToList, hlen]
        exact bind_err (bind_err hg)
      | some len =>
        have hg : getRange fo S ra s0 = .ok ((sn, en, len), s0) := by rw [getRange_num fo dr, hlen]
        have hd := hdom sn en len rfl hlen
        rw [bind_ok2 hg]
        simp only []
        rw [bind_ok2 (getDataType_of dv)]
        cases x
        case list vs =>
          obtain ⟨a, b, rfl, rfl, h0, han, hb, hbn, hnn, hf, _, hseg, haeq⟩ := segOK_facts fo hd hlen
          rw [sliceToList_list fo vs a b h0 hb hbn hnn han]
          simp only [Val.typeOf]
          rw [bind_ok2 (readR_ok (g := fun st => S.listLen st va) (listLen_of L.toStoreLaws dv))]
          have hk : (b + 1 - ((a.toNat : Nat) : Int)).toNat = (b - a + 1).toNat := by omega
          have := buildTail (n := vs.length) L.toStoreLaws e0 (fun t s1 e1 hb1 =>
            sliceListLoop_spec fo L.toStoreLaws va vs (by omega) b hbn _ fuel a.toNat t [] s1 rfl (by omega)
              (e1.dec dv) hb1)
          rw [hk, ← haeq] at this
          exact this
        case chars cs =>
          obtain ⟨a, b, rfl, rfl, h0, han, hb, hbn, hnn, hf, _, hseg, haeq⟩ := segOK_facts fo hd hlen
          rw [sliceToList_chars fo cs a b h0 hb hbn hnn han]
          simp only [Val.typeOf]
          rw [cast_increment_int fo b (by omega) (by omega), bind_ok2 (orNumErr_some _ s0)]
          obtain ⟨hlen', hitem⟩ := charSeq_laws L.toStoreLaws va cs
          have := listFromSeq_full fo L.toStoreLaws L.charAdder fuel va (.chars cs) cs (by omega) e0 dv hlen' hitem
            a.toNat (b + 1) (by omega) (by omega)
          have hk : (b + 1 - ((a.toNat : Nat) : Int)).toNat = (b - a + 1).toNat := by omega
          rw [hk, ← haeq] at this
          exact this
        case bytes bs =>
          obtain ⟨a, b, rfl, rfl, h0, han, hb, hbn, hnn, hf, _, hseg, haeq⟩ := segOK_facts fo hd hlen
          rw [sliceToList_bytes fo bs a b h0 hb hbn hnn han]
          simp only [Val.typeOf]
          rw [cast_increment_int fo b (by omega) (by omega), bind_ok2 (orNumErr_some _ s0)]
          obtain ⟨hlen', hitem⟩ := byteSeq_laws L.toStoreLaws va bs
          have := listFromSeq_full fo L.toStoreLaws L.byteAdder fuel va (.bytes bs) bs (by omega) e0 dv hlen' hitem
            a.toNat (b + 1) (by omega) (by omega)
          have hk : (b + 1 - ((a.toNat : Nat) : Int)).toNat = (b - a + 1).toNat := by omega
          rw [hk, ← haeq] at this
          exact this
        case concat ca cb =>
          obtain ⟨hfu, hmx⟩ := hd
          have hval : sliceToList fo .simple (.concat ca cb) (.range (.num sn) (.num en)) =
              .val (.list (concatWindow fo sn en (flatItems ca ++ flatItems cb) 0)) := by
            simp only [sliceToList, hlen, buildList]
          rw [hval]
          simp only [Val.typeOf]
          rw [numberToSize_some, bind_ok2 (orNumErr_some _ s0)]
          obtain ⟨t0, s1, h1, e1, b1⟩ := L.startList (numToSize fo len) s0
          obtain ⟨rr, idx', acc', s2, new, h2, e2, q2, d2, _⟩ :=
            iterateConcatenation_pick fo L.toStoreLaws (winFn_refines fo L.toStoreLaws L.buildPushRegister sn en) fuel
              (e1.dec dv) hfu hmx t0 [] b1
          rw [pickItems_win] at d2
          rw [e1.regs, e1.vals] at e2
          obtain ⟨a, s3, h3, d3, e3⟩ := L.endList acc' new _ s2 (by simpa using q2) d2
          rw [e2.regs, e2.vals] at e3
          obtain ⟨s4, h4, e4⟩ := L.pushRegister a s3
          rw [e3.regs, e3.vals, e0.regs, e0.vals] at e4
          refine ⟨a, s4, ?_, e4.dec d3, ((e0.trans (e1.trans e2)).trans e3).trans e4⟩
          rw [bind_ok2 h1, bind_ok2 h2]
          simp only []
          rw [bind_ok2 h3, bind_ok h4]; rfl
        all_goals
          simp only [sliceToList, hlen, Val.typeOf]
          exact castPushUnit L.toStoreLaws e0
    · rw [sliceToList_nonnum fo _ _ hn]
      exact bind_err (bind_err (getRange_nonnum fo dr hn))
  · rw [sliceToList_nonrange fo _ _ hr]
    exact bind_err (bind_err (getRange_nonrange fo L.toStoreLaws dr hr))

end Garnish.Lemmas.Runtime
