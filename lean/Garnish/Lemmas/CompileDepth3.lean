/-
C06 static half on compiled code, part 3: the first instruction of an expression is entered at the depth at
which the expression starts (`emit_first`), and the statement `EmitE` of the main lemma with its glue.
-/
import Garnish.Lemmas.CompileDepth2
namespace Garnish.Abs
open Garnish Gen Garnish.Spec Garnish.Props.C06

variable {F : Type}

theorem first_push {s : LState F} (hal : Al s) (i : Instruction) (d : Option Nat) :
    (s.push i d).depths[s.instrs.size]? = some s.dep := by
  have hal' : s.depths.size = s.instrs.size := hal
  simp [LState.push, ← hal']

theorem first_pushConst {s : LState F} (hal : Al s) (i : Instruction) (v : Val F) :
    (s.pushConst i v).depths[s.instrs.size]? = some s.dep := by
  have hal' : s.depths.size = s.instrs.size := hal
  simp [LState.pushConst, ← hal']

/-- extend a first-depth fact along appended depths -/
theorem first_app {s t t' : LState F} {k : Nat} (h : t.depths[s.instrs.size]? = some k) (a : AppD t t') :
    t'.depths[s.instrs.size]? = some k := by
  rw [a.depths _ (Array.getElem?_eq_some_iff.mp h).1]; exact h

mutual
theorem emit_first (root cur : Nat) : ∀ (e : Expr F) (s : LState F), Al s → wfE e = true →
    (emit root cur e s).depths[s.instrs.size]? = some s.dep
  | .lit v, s, hal, _ => by simp only [emit]; exact first_pushConst hal _ _
  | .input, s, hal, _ => by simp only [emit]; exact first_push hal _ _
  | .ident sym, s, hal, _ => by simp only [emit]; exact first_pushConst hal _ _
  | .emptyNested, s, hal, _ => by simp only [emit]; exact first_pushConst hal _ _
  | .nested id, s, hal, _ => by
    simp only [emit]
    exact first_app (first_pushConst (s := s.pushJump 0) hal _ _) (.pushRoot _ _)
  | .unary op x, s, hal, hw => by
    simp only [wfE, Bool.and_eq_true] at hw
    simp only [emit]
    exact first_app (emit_first root cur x s hal hw.2) (.push _ _ _)
  | .binary op l r, s, hal, hw => by
    simp only [wfE, Bool.and_eq_true] at hw
    simp only [emit]
    exact first_app (emit_first root cur l s hal hw.1.2) ((emit_dep root cur r _ hw.2).1.app.trans (.push _ _ _))
  | .pair l r, s, hal, hw => by
    simp only [wfE, Bool.and_eq_true] at hw
    simp only [emit]
    exact first_app (emit_first root cur r s hal hw.2) ((emit_dep root cur l _ hw.1).1.app.trans (.push _ _ _))
  | .applyTo x f, s, hal, hw => by
    simp only [wfE, Bool.and_eq_true] at hw
    simp only [emit]
    exact first_app (emit_first root cur f s hal hw.2) ((emit_dep root cur x _ hw.1).1.app.trans (.push _ _ _))
  | .list [], s, hal, _ => by simp only [emit, emitList]; exact first_push hal _ _
  | .list (x :: xs), s, hal, hw => by
    simp only [wfE, wfEList, Bool.and_eq_true] at hw
    simp only [emit, emitList]
    exact first_app (emit_first root cur x s hal hw.1) ((emitList_dep root cur xs _ hw.2).1.app.trans (.push _ _ _))
  | .cond onTrue c t, s, hal, hw => by
    simp only [wfE, Bool.and_eq_true] at hw
    simp only [emit]
    exact first_app (emit_first root cur c s hal hw.1) (condTail_dep (k := s.dep) (emit_dep root cur c s hw.1).2).1.app
  | .and l r, s, hal, hw => by
    simp only [wfE, Bool.and_eq_true] at hw
    simp only [emit]
    exact first_app (emit_first root cur l s hal hw.1) (logicalTail_dep (.inl rfl)).1.app
  | .or l r, s, hal, hw => by
    simp only [wfE, Bool.and_eq_true] at hw
    simp only [emit]
    exact first_app (emit_first root cur l s hal hw.1) (logicalTail_dep (.inr rfl)).1.app
  | .seq a b, s, hal, hw => by
    simp only [wfE, Bool.and_eq_true] at hw
    simp only [emit]
    exact first_app (emit_first root cur a s hal hw.1) ((AppD.push _ _ _).trans (emit_dep root cur b _ hw.2).1.app)
  | .sideAfter x b, s, hal, hw => by
    simp only [wfE, Bool.and_eq_true] at hw
    simp only [emit]
    exact first_app (emit_first root cur x s hal hw.1.1)
      (((AppD.push _ _ _).trans (emit_dep root cur b _ hw.1.2).1.app).trans (.push _ _ _))
  | .reapply x, s, hal, hw => by
    simp only [wfE] at hw
    simp only [emit]
    exact first_app (emit_first root cur x s hal hw) ((AppD.push _ _ _).trans (.push _ _ _))
  | .prefixApply sym x, s, hal, hw => by
    simp only [wfE] at hw
    simp only [emit]
    exact first_app (first_pushConst hal _ _) ((emit_dep root cur x _ hw).1.app.trans (.push _ _ _))
  | .suffixApply x sym, s, hal, hw => by
    simp only [wfE] at hw
    simp only [emit]
    exact first_app (first_pushConst hal _ _) ((emit_dep root cur x _ hw).1.app.trans (.push _ _ _))
  | .infixApply a sym b, s, hal, hw => by
    simp only [wfE, Bool.and_eq_true] at hw
    simp only [emit]
    exact first_app (first_pushConst hal _ _)
      ((((emit_dep root cur a _ hw.1).1.app.trans (emit_dep root cur b _ hw.2).1.app).trans (.push _ _ _)).trans (.push _ _ _))
  | .chain arms none, s, _, hw => by simp [wfE_chain] at hw
  | .chain [] (some e), s, hal, hw => by
    simp only [wfE_chain, Bool.and_eq_true] at hw
    simp only [emit, emitArms]
    exact first_app (emit_first root cur e s hal hw.2) finishChain_dep.1.app
  | .chain ((onTrue, c, t) :: rest) (some e), s, hal, hw => by
    simp only [wfE_chain, wfEArms, Bool.and_eq_true] at hw
    simp only [emit, emitArms]
    have a1 := ((AppD.pushJump (emit root cur c s) 0).trans
      (.push _ (jumpIf onTrue) (some (emit root cur c s).jumps.size))).trans (emitArms_dep root cur rest _ hw.1.2).1.app
    have a2 := (emit_dep root cur e (emitArms root cur rest
      (((emit root cur c s).pushJump 0).push (jumpIf onTrue) (some (emit root cur c s).jumps.size))).1 hw.2).1.app
    exact first_app (first_app (first_app (emit_first root cur c s hal hw.1.1.1) a1) a2) finishChain_dep.1.app
end

/-- the terminators of the pending root `r` (which starts at depth `dr`, so ends at `dr + 1`) jump to a join
whose instruction is entered at depth `dr + 1` -/
def JoinOK (sF : LState F) (r : Root F) (dr : Nat) : Prop :=
  ∀ j, (Instruction.jumpTo, some j) ∈ r.term → ∃ tj, sF.jumps[j]? = some tj ∧
    (sF.instrs.size ≤ tj ∨ sF.depths[tj]? = some (dr + 1))

/-- the body `c` that `^~` jumps to starts at depth 0 -/
def ContOK (sF : LState F) (c : Nat) : Prop :=
  ∀ t, sF.jumps[c]? = some t → sF.instrs.size ≤ t ∨ sF.depths[t]? = some 0

/-- everything the layout of the pending root `r` (starting at depth `dr`) will need: its terminators return to a
join of the right depth; if it is a piece of the current body, that piece is well formed, has `^~` in tail
positions only (and then starts at depth 0) and its containing body starts at depth 0; a nested body starts at 0 -/
def TermOK (sF : LState F) (r : Root F) (dr : Nat) : Prop :=
  JoinOK sF r dr ∧
  (∀ b, r.kind = .code b → wfE b = true ∧ (noR b = true ∨ (tailR b = true ∧ dr = 0)) ∧ ContOK sF r.containing ∧
    ((∃ j, r.term = [(.jumpTo, some j)]) ∨ (∃ j, r.term = [(.tis, none), (.jumpTo, some j)]))) ∧
  (∀ id, r.kind = .ref id → dr = 0)

/-- the statement of the main lemma for one expression emitted from `s`: in the final layout state `sF` every
instruction of its main line is `EdgeOK` -/
def EmitE (sF : LState F) (root cur : Nat) (e : Expr F) (s : LState F) : Prop :=
  ∀ sM, cur < s.jumps.size → PendOK s → Al s → W2 s.jumps.size (emit root cur e s) sM → Ev sM sF → AppD sM sF →
  (∀ p ∈ sM.pending.zip sM.pendDep, s.jumps.size ≤ p.1.patch → RootD sF p.1 p.2) →
  wfE e = true → (noR e = true ∨ (tailR e = true ∧ s.dep = 0)) →
  (∀ t, sF.jumps[cur]? = some t → sF.instrs.size ≤ t ∨ sF.depths[t]? = some 0) →
  (sF.instrs.size ≤ s.instrs.size + len e ∨ sF.depths[s.instrs.size + len e]? = some (s.dep + 1)) →
  (∀ pc, s.instrs.size ≤ pc → pc < s.instrs.size + len e → EdgeOK sF pc) ∧
  (∀ p ∈ (emit root cur e s).pending.zip (emit root cur e s).pendDep, p ∉ s.pending.zip s.pendDep → TermOK sF p.1 p.2)

theorem sub_edges {sF : LState F} {x : Expr F} {s t sM : LState F} {root cur : Nat}
    (ihx : EmitE sF root cur x t) (hc : cur < s.jumps.size) (hp : PendOK s) (hal : Al t) (hst : Pre s t)
    (hts : W2 s.jumps.size (emit root cur x t) sM) (hev : Ev sM sF) (had : AppD sM sF)
    (hroots : ∀ p ∈ sM.pending.zip sM.pendDep, s.jumps.size ≤ p.1.patch → RootD sF p.1 p.2)
    (hwf : wfE x = true) (htl : noR x = true ∨ (tailR x = true ∧ t.dep = 0))
    (hcur : ∀ t, sF.jumps[cur]? = some t → sF.instrs.size ≤ t ∨ sF.depths[t]? = some 0)
    (hnext : sF.instrs.size ≤ t.instrs.size + len x ∨ sF.depths[t.instrs.size + len x]? = some (t.dep + 1)) :
    (∀ pc, t.instrs.size ≤ pc → pc < t.instrs.size + len x → EdgeOK sF pc) ∧
    (∀ p ∈ (emit root cur x t).pending.zip (emit root cur x t).pendDep, p ∉ t.pending.zip t.pendDep → TermOK sF p.1 p.2) := by
  have := hst.jsize
  exact ihx sM (by omega) (hp.of_pre hst) hal (hts.mono this) hev had (fun p hp h => hroots p hp (by omega)) hwf htl hcur hnext

/-- the depth at which the expression emitted next (from `t`) starts, read off the final state -/
theorem next_first {sF sM t : LState F} {root cur : Nat} {x : Expr F} (hal : Al t) (hw : wfE x = true)
    (h1 : AppD (emit root cur x t) sM) (h2 : AppD sM sF) : sF.depths[t.instrs.size]? = some t.dep :=
  first_app (first_app (emit_first root cur x t hal hw) h1) h2

theorem EdgeOK.mk {sF : LState F} {pc k : Nat} {es : List (Nat × Nat)} (hd : sF.depths[pc]? = some k)
    (he : edges sF.toProg pc k = some es) (hes : ∀ e ∈ es, sF.instrs.size ≤ e.1 ∨ sF.depths[e.1]? = some e.2) :
    EdgeOK sF pc := ⟨k, es, hd, he, hes⟩

/-- an instruction with the single successor `pc + 1` -/
theorem EdgeOK.next {sF : LState F} {pc k k' : Nat} (hd : sF.depths[pc]? = some k)
    (he : edges sF.toProg pc k = some [(pc + 1, k')])
    (hn : sF.instrs.size ≤ pc + 1 ∨ sF.depths[pc + 1]? = some k') : EdgeOK sF pc :=
  .mk hd he (fun e hm => by simp only [List.mem_singleton] at hm; subst hm; exact hn)

theorem tail_noR {e : Expr F} {d : Nat} (h : noR e = true ∨ (tailR e = true ∧ d = 0)) (ht : tailR e = noR e) :
    noR e = true := by
  rcases h with h | ⟨h, _⟩
  · exact h
  · rw [← ht]; exact h

end Garnish.Abs
