/-
C04, builder half — evaluation order, part 1: the static shape of every handler, in-line descendants, the order
invariant `SInv` and what it implies for the node that is being visited (`prec_key`).

Every handler of `handle_parse_node` that schedules children on `stack` does so in the node's first visit, in a fixed
arrangement (`layout`, bottom of the work list on the left, `N` = the node itself, which is pushed back when its own
instruction is emitted in a second visit):
  lrn  [N, R, L]   left, right, node      binary operators, InfixApply, List / CommaList, ElseJump
  rln  [N, L, R]   right, left, node      Pair, ApplyTo
  lnr  [R, N, L]   left, node, right      Subexpression, ExpressionSeparator, value-like nodes (with side-effect blocks)
  ln   [N, L]      left, node             unary suffix, SuffixApply, And / Or, JumpIfTrue / JumpIfFalse (right: out of line)
  rn   [N, R]      right, node            unary prefix, PrefixApply, Reapply, SideEffect
  gr   [R]         right (no own visit)   Group
  none []                                  NestedExpression (right: out of line), Drop
A child that is not mentioned is never looked at by the handler.  The right child of And / Or / JumpIf… and of a
NestedExpression is emitted out of line: it is pushed on `root_stack` and built after the root that contains its owner.
-/
import Garnish.Lemmas.BuildOrder4
namespace Garnish.Lemmas.BuildSeq
open Garnish Garnish.Gen Garnish.Model.Parser Garnish.Model.Literals Garnish.Model.Build Garnish.Lemmas.Build
open Garnish.Lemmas.BuildTotal
open Garnish.Lemmas.BuildOrder (Above above_append_left above_append_mem above_append_right above_mem above_irrefl
  above_top_false above_init Attr)

/-! ### the arrangement of a node and its in-line children on the work list -/

inductive Lay where
  | lrn | rln | lnr | ln | rn | gr | none
deriving DecidableEq, Repr

def layout (d : Definition) : Lay :=
  match d with
  | .pair | .applyTo => .rln
  | .addition | .subtraction | .multiplicationSign | .division | .access | .range | .startExclusiveRange | .endExclusiveRange
  | .exclusiveRange | .exponentialSign | .remainder | .integerDivision | .bitwiseAnd | .bitwiseOr | .bitwiseXor
  | .bitwiseRightShift | .bitwiseLeftShift | .xor | .typeEqual | .typeCast | .equality | .inequality | .lessThan
  | .lessThanOrEqual | .greaterThan | .greaterThanOrEqual | .apply | .partialApply | .concatenation | .infixApply
  | .list | .commaList | .elseJump => .lrn
  | .subexpression | .expressionSeparator | .unit | .false | .true | .number | .charList | .byteList | .symbol | .value
  | .identifier | .property | .expressionTerminator => .lnr
  | .emptyApply | .accessRightInternal | .accessLengthInternal | .suffixApply | .or | .and | .jumpIfFalse | .jumpIfTrue => .ln
  | .absoluteValue | .opposite | .bitwiseNot | .not | .tis | .typeOf | .accessLeftInternal | .prefixApply | .reapply
  | .sideEffect => .rn
  | .group => .gr
  | .nestedExpression | .drop => .none

/-- the left child is scheduled on `stack` -/
def inlL : Lay → Bool
  | .lrn | .rln | .lnr | .ln => true
  | _ => false
/-- the right child is scheduled on `stack` -/
def inlR : Lay → Bool
  | .lrn | .rln | .lnr | .rn | .gr => true
  | _ => false
/-- the right child is scheduled above the node (emitted before the node's second visit) -/
def preR : Lay → Bool
  | .lrn | .rln | .rn => true
  | _ => false
/-- the right child is emitted out of line -/
def oolR (d : Definition) : Bool := isLate d || d == .nestedExpression

theorem oolR_not_inlR {d : Definition} (h : oolR d = true) : inlR (layout d) = false := by
  cases d <;> simp [oolR, isLate] at h <;> rfl

/-- `c` is a child of `y` that `y`'s handler schedules on `stack` -/
def ILink (tree : Array ParseNode) (y c : Nat) : Prop :=
  ∃ pn, tree[y]? = some pn ∧
    ((pn.left = some c ∧ inlL (layout pn.definition) = true) ∨ (pn.right = some c ∧ inlR (layout pn.definition) = true))

/-- `a`, `b` are the two in-line children of `y`, `a` the one that is emitted first -/
def Ord (tree : Array ParseNode) (y a b : Nat) : Prop :=
  ∃ pn l r, tree[y]? = some pn ∧ pn.left = some l ∧ pn.right = some r ∧
    ((layout pn.definition = .rln ∧ a = r ∧ b = l) ∨
     ((layout pn.definition = .lrn ∨ layout pn.definition = .lnr) ∧ a = l ∧ b = r))

/-- `c` is an in-line child of `y` that is emitted before `y`'s second visit -/
def PreC (tree : Array ParseNode) (y c : Nat) : Prop :=
  ∃ pn, tree[y]? = some pn ∧
    ((pn.left = some c ∧ inlL (layout pn.definition) = true) ∨ (pn.right = some c ∧ preR (layout pn.definition) = true))

/-- `c` is an in-line child of `y` that is emitted after `y`'s second visit -/
def PostC (tree : Array ParseNode) (y c : Nat) : Prop :=
  ∃ pn, tree[y]? = some pn ∧ pn.right = some c ∧ layout pn.definition = .lnr

/-- `r` is the child of `y` that is emitted out of line -/
def OolChild (tree : Array ParseNode) (y r : Nat) : Prop :=
  ∃ pn, tree[y]? = some pn ∧ pn.right = some r ∧ oolR pn.definition = true

/-- in-line descendants: reached through in-line links only -/
inductive IDesc (tree : Array ParseNode) : Nat → Nat → Prop
  | refl (a : Nat) : IDesc tree a a
  | step {a w x : Nat} : IDesc tree a w → ILink tree w x → IDesc tree a x

/-- all descendants -/
inductive Sub (tree : Array ParseNode) : Nat → Nat → Prop
  | refl (a : Nat) : Sub tree a a
  | step {a w x : Nat} : Sub tree a w → IsChild tree w x → Sub tree a x

section statics
variable {tree : Array ParseNode}

theorem ILink.isChild {y c : Nat} (h : ILink tree y c) : IsChild tree y c := by
  obtain ⟨pn, h1, h2⟩ := h
  rcases h2 with ⟨h3, _⟩ | ⟨h3, _⟩
  · exact ⟨pn, h1, Or.inl h3⟩
  · exact ⟨pn, h1, Or.inr h3⟩

theorem preR_inlR {k : Lay} (h : preR k = true) : inlR k = true := by cases k <;> simp [preR] at h <;> rfl

theorem PreC.ilink {y c : Nat} (h : PreC tree y c) : ILink tree y c := by
  obtain ⟨pn, h1, h2⟩ := h
  rcases h2 with ⟨h3, h4⟩ | ⟨h3, h4⟩
  · exact ⟨pn, h1, Or.inl ⟨h3, h4⟩⟩
  · exact ⟨pn, h1, Or.inr ⟨h3, preR_inlR h4⟩⟩

theorem PostC.ilink {y c : Nat} (h : PostC tree y c) : ILink tree y c := by
  obtain ⟨pn, h1, h2, h3⟩ := h
  exact ⟨pn, h1, Or.inr ⟨h2, by rw [h3]; rfl⟩⟩

theorem Ord.left {y a b : Nat} (h : Ord tree y a b) : ILink tree y a := by
  obtain ⟨pn, l, r, h1, hl, hr, h2⟩ := h
  rcases h2 with ⟨hk, ha, _⟩ | ⟨hk, ha, _⟩
  · subst ha; exact ⟨pn, h1, Or.inr ⟨hr, by rw [hk]; rfl⟩⟩
  · subst ha; exact ⟨pn, h1, Or.inl ⟨hl, by rcases hk with hk | hk <;> rw [hk] <;> rfl⟩⟩

theorem Ord.right {y a b : Nat} (h : Ord tree y a b) : ILink tree y b := by
  obtain ⟨pn, l, r, h1, hl, hr, h2⟩ := h
  rcases h2 with ⟨hk, _, hb⟩ | ⟨hk, _, hb⟩
  · subst hb; exact ⟨pn, h1, Or.inl ⟨hl, by rw [hk]; rfl⟩⟩
  · subst hb; exact ⟨pn, h1, Or.inr ⟨hr, by rcases hk with hk | hk <;> rw [hk] <;> rfl⟩⟩

theorem OolChild.isChild {y r : Nat} (h : OolChild tree y r) : IsChild tree y r := by
  obtain ⟨pn, h1, h2, _⟩ := h; exact ⟨pn, h1, Or.inr h2⟩

theorem IDesc.sub {a x : Nat} (h : IDesc tree a x) : Sub tree a x := by
  induction h with
  | refl => exact Sub.refl _
  | step _ hl ih => exact Sub.step ih hl.isChild

theorem IDesc.trans {a b c : Nat} (h1 : IDesc tree a b) (h2 : IDesc tree b c) : IDesc tree a c := by
  induction h2 with
  | refl => exact h1
  | step _ hl ih => exact IDesc.step ih hl

theorem Sub.trans {a b c : Nat} (h1 : Sub tree a b) (h2 : Sub tree b c) : Sub tree a c := by
  induction h2 with
  | refl => exact h1
  | step _ hl ih => exact Sub.step ih hl

end statics

section tree
variable {root : Nat} {tree : Array ParseNode} {G : Nat → Prop}

/-- an out-of-line child is not an in-line child -/
theorem ool_not_ilink (V : Validated root tree G) {y r : Nat} (hy : G y) (ho : OolChild tree y r) : ¬ ILink tree y r := by
  intro hi
  obtain ⟨pn, h1, h2, h3⟩ := ho
  obtain ⟨pn', h1', h4⟩ := hi
  rw [h1] at h1'; cases h1'
  rcases h4 with ⟨h5, _⟩ | ⟨_, h6⟩
  · exact left_ne_right V hy h1 h5 h2 rfl
  · rw [oolR_not_inlR h3] at h6; cases h6

theorem idesc_G (V : Validated root tree G) {a x : Nat} (ha : G a) (h : IDesc tree a x) : G x := by
  induction h with
  | refl => exact ha
  | step _ hc ih => exact (child_facts V ih hc.isChild).1

theorem sub_G (V : Validated root tree G) {a x : Nat} (ha : G a) (h : Sub tree a x) : G x := by
  induction h with
  | refl => exact ha
  | step _ hc ih => exact (child_facts V ih hc).1

/-- the parent of a proper in-line descendant is an in-line descendant -/
theorem idesc_parent (V : Validated root tree G) {a x w : Nat} (ha : G a) (h : IDesc tree a x) (hne : x ≠ a) (hw : G w)
    (hc : IsChild tree w x) : IDesc tree a w ∧ ILink tree w x := by
  cases h with
  | refl => exact absurd rfl hne
  | @step _ w' h1 h2 =>
    have := parent_unique V (idesc_G V ha h1) hw h2.isChild hc
    subst this
    exact ⟨h1, h2⟩

end tree

end Garnish.Lemmas.BuildSeq
