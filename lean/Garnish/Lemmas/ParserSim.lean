/-
Array-level half of the simulation for the operator fragment: what the parent walk of `parse_token` plus the two pushes of
a (binary operator, atom) pair do to a node array that represents an index tree (`Spec.IsTreeAt`).
`walk_insert`: the walk result `walkSpec` on the right spine determines `absorbI`, and any array that differs from the
old one exactly by the modifications `parse_token` makes (re-parent the walked-over subtree, redirect the stop node's
`right`) and contains the two new nodes represents the new tree.
-/
import Garnish.Lemmas.ParserTree
import Garnish.Lemmas.ParserSteps

namespace Garnish.Spec
open Garnish Garnish.Gen Garnish.Model.Parser

theorem IsTreeAt.frame {nodes arr : Array ParseNode} {p link : Option Nat} {t : Tree} (h : IsTreeAt nodes p link t)
    (ha : ∀ j ∈ t.inorder, arr[j]? = nodes[j]?) : IsTreeAt arr p link t := by
  induction h with
  | nil p => exact .nil p
  | node p i n l r hn hp _ _ ihl ihr =>
    refine .node p i n l r ?_ hp (ihl ?_) (ihr ?_)
    · rw [ha i (by simp [Tree.inorder])]; exact hn
    · intro j hj; exact ha j (by simp [Tree.inorder, hj])
    · intro j hj; exact ha j (by simp [Tree.inorder, hj])

theorem isTreeAt_node {arr : Array ParseNode} {p : Option Nat} {i k : Nat} {l r : Tree} (nd : ParseNode)
    (h1 : arr[i]? = some nd) (h2 : nd.parent = p) (hl : IsTreeAt arr (some i) nd.left l)
    (hr : IsTreeAt arr (some i) nd.right r) (hk : tokPos nd = k) : IsTreeAt arr p (some i) (.node l i k r) := by
  subst hk; exact .node p i nd l r h1 h2 hl hr

theorem walkSpec_append (nodes : Array ParseNode) (q : Nat) (rtl : Bool) :
    ∀ (a b : List Nat) (tl : Option Nat),
      walkSpec nodes q rtl tl (a ++ b) =
        match walkSpec nodes q rtl tl a with
        | (tl', some x) => (tl', some x)
        | (tl', none) => walkSpec nodes q rtl tl' b := by
  intro a
  induction a with
  | nil => intro b tl; simp [walkSpec]
  | cons y rest ih =>
    intro b tl
    simp only [List.cons_append, walkSpec]
    split
    · rfl
    · exact ih b (some y)

/-- the bottom node of the right spine does not stop the new operator (it is a value: priority 10 < any operator) -/
def bottomOK (pr : Nat → Nat) (q : Nat) (rtl : Bool) : Tree → Prop
  | .nil => True
  | .node _ i _ .nil => stops q rtl (pr i) = false
  | .node _ _ _ r => bottomOK pr q rtl r

/-- the two nodes pushed by the pair: operator `n` (parent `par`, left `tlv`, right `n+1`) and leaf `n+1` -/
structure NewNodes (arr : Array ParseNode) (n ko ka : Nat) (par : Option Nat) (tlv : Nat) : Prop where
  op : ∃ on, arr[n]? = some on ∧ on.parent = par ∧ on.left = some tlv ∧ on.right = some (n + 1) ∧ tokPos on = ko
  leaf : ∃ ln, arr[n + 1]? = some ln ∧ ln.parent = some n ∧ ln.left = none ∧ ln.right = none ∧ tokPos ln = ka

theorem newOp_isTreeAt {arr : Array ParseNode} {n ko ka : Nat} {par : Option Nat} {tlv : Nat} {s : Tree}
    (hnew : NewNodes arr n ko ka par tlv) (hs : IsTreeAt arr (some n) (some tlv) s) :
    IsTreeAt arr par (some n) (newOp s n ko ka) := by
  obtain ⟨on, h1, h2, h3, h4, h5⟩ := hnew.op
  obtain ⟨ln, g1, g2, g3, g4, g5⟩ := hnew.leaf
  refine isTreeAt_node on h1 h2 (by rw [h3]; exact hs) ?_ h5
  rw [h4]
  exact isTreeAt_node ln g1 g2 (by rw [g3]; exact .nil _) (by rw [g4]; exact .nil _) g5

/-- **the walk and the insertion**: for a subtree `t` hanging at `link = some i` -/
theorem walk_insert (nodes : Array ParseNode) (q : Nat) (rtl : Bool) (n ko ka : Nat) :
    ∀ {p link : Option Nat} {t : Tree}, IsTreeAt nodes p link t → ∀ i, link = some i → t.inorder.Nodup →
      bottomOK (prioAt nodes) q rtl t → ∀ tl0 : Option Nat,
      (∀ tl x, walkSpec nodes q rtl tl0 (rspineUp t) = (tl, some x) →
        ∃ tlv t' nx, tl = some tlv ∧ tlv ∈ t.inorder ∧ x ∈ t.inorder ∧ tlv ≠ x ∧ nodes[x]? = some nx ∧
          nx.right = some tlv ∧ absorbI (prioAt nodes) q rtl n ko ka t = some t' ∧
          ∀ arr : Array ParseNode, (∀ j ∈ t.inorder, j ≠ tlv → j ≠ x → arr[j]? = nodes[j]?) →
            arr[tlv]? = (nodes[tlv]?).map (setParent (some n)) → arr[x]? = (nodes[x]?).map (setRight (some n)) →
            NewNodes arr n ko ka (some x) tlv → IsTreeAt arr p link t') ∧
      (∀ tl, walkSpec nodes q rtl tl0 (rspineUp t) = (tl, none) →
        tl = some i ∧ absorbI (prioAt nodes) q rtl n ko ka t = none ∧
          ∀ arr : Array ParseNode, (∀ j ∈ t.inorder, j ≠ i → arr[j]? = nodes[j]?) →
            arr[i]? = (nodes[i]?).map (setParent (some n)) → IsTreeAt arr (some n) link t) := by
  intro p link t h
  induction h with
  | nil p => intro i hi; cases hi
  | node p i nd l r hn hpar hl hr _ ihr =>
    intro i' hi' hnd hbot tl0
    injection hi' with hi'; subst hi'
    simp only [Tree.inorder] at hnd
    rw [List.nodup_append] at hnd
    obtain ⟨ndl, ndir, hdisj⟩ := hnd
    rw [List.nodup_cons] at ndir
    obtain ⟨hir, ndr⟩ := ndir
    have hil : i ∉ l.inorder := fun hm => hdisj i hm i (List.mem_cons_self ..) rfl
    -- the reparented version of the whole subtree (used in both `none` conclusions)
    have reparent : ∀ arr : Array ParseNode,
        (∀ j ∈ (Tree.node l i (tokPos nd) r).inorder, j ≠ i → arr[j]? = nodes[j]?) →
        arr[i]? = (nodes[i]?).map (setParent (some n)) →
        IsTreeAt arr (some n) (some i) (.node l i (tokPos nd) r) := by
      intro arr hfr hi
      rw [hn] at hi
      refine isTreeAt_node (setParent (some n) nd) hi rfl ?_ ?_ rfl
      · exact hl.frame (fun j hj => hfr j (by simp [Tree.inorder, hj]) (fun e => hil (e ▸ hj)))
      · exact hr.frame (fun j hj => hfr j (by simp [Tree.inorder, hj]) (fun e => hir (e ▸ hj)))
    cases hrl : nd.right with
    | none =>
      rw [hrl] at hr
      cases hr
      simp only [bottomOK] at hbot
      have hstop : (decide (q < prioAt nodes i) || (q == prioAt nodes i && rtl)) = false := hbot
      simp only [rspineUp, List.nil_append, walkSpec, hstop, Bool.false_eq_true, if_false]
      constructor
      · intro tl x hw; injection hw with _ h2; cases h2
      · intro tl hw
        injection hw with h1 _
        refine ⟨h1.symm, ?_, reparent⟩
        simp [absorbI, hbot]
    | some ri =>
      have hr' := hr
      rw [hrl] at hr'
      have hrne : r ≠ .nil := by intro e; subst e; cases hr'
      have hbotr : bottomOK (prioAt nodes) q rtl r := by
        cases r with
        | nil => exact absurd rfl hrne
        | node rl rj rk rr => simpa [bottomOK] using hbot
      obtain ⟨ihS, ihN⟩ := ihr ri hrl ndr hbotr tl0
      simp only [rspineUp, walkSpec_append]
      cases hw : walkSpec nodes q rtl tl0 (rspineUp r) with
      | mk tlr parr =>
        cases parr with
        | some x =>
          obtain ⟨tlv, r', nx, e1, m1, m2, ne, hx, hxr, habs, harr⟩ := ihS tlr x hw
          constructor
          · intro tl x' hw'
            simp only at hw'
            injection hw' with h1 h2
            injection h2 with h2
            subst h1; subst h2
            refine ⟨tlv, .node l i (tokPos nd) r', nx, e1, by simp [Tree.inorder, m1], by simp [Tree.inorder, m2], ne, hx,
              hxr, by simp [absorbI, habs], ?_⟩
            intro arr hfr htl hxx hnew
            have hitl : i ≠ tlv := fun e => hir (e ▸ m1)
            have hix : i ≠ x := fun e => hir (e ▸ m2)
            refine isTreeAt_node nd (by rw [hfr i (by simp [Tree.inorder]) hitl hix]; exact hn) hpar ?_ ?_ rfl
            · exact hl.frame (fun j hj => hfr j (by simp [Tree.inorder, hj])
                (fun e => hdisj j hj tlv (List.mem_cons_of_mem _ m1) e)
                (fun e => hdisj j hj x (List.mem_cons_of_mem _ m2) e))
            · exact harr arr (fun j hj => hfr j (by simp [Tree.inorder, hj])) htl hxx hnew
          · intro tl hw'; simp only at hw'; injection hw' with _ h2; cases h2
        | none =>
          obtain ⟨etl, habs, harr⟩ := ihN tlr hw
          subst etl
          simp only [walkSpec]
          by_cases hs : (decide (q < prioAt nodes i) || (q == prioAt nodes i && rtl)) = true
          · simp only [hs, if_true]
            constructor
            · intro tl x' hw'
              injection hw' with h1 h2
              injection h2 with h2
              subst h1; subst h2
              have hri : ri ∈ r.inorder := hr'.root_mem
              have hne : ri ≠ i := fun e => hir (e ▸ hri)
              refine ⟨ri, .node l i (tokPos nd) (newOp r n ko ka), nd, rfl, by simp [Tree.inorder, hri],
                by simp [Tree.inorder], hne, hn, hrl, ?_, ?_⟩
              · have : stops q rtl (prioAt nodes i) = true := hs
                simp [absorbI, habs, this]
              · intro arr hfr htl hxx hnew
                rw [hn] at hxx
                refine isTreeAt_node (setRight (some n) nd) hxx hpar ?_ ?_ rfl
                · exact hl.frame (fun j hj => hfr j (by simp [Tree.inorder, hj])
                    (fun e => hdisj j hj ri (List.mem_cons_of_mem _ hri) e) (fun e => hil (e ▸ hj)))
                · show IsTreeAt arr (some i) (some n) (newOp r n ko ka)
                  refine newOp_isTreeAt hnew ?_
                  have := harr arr (fun j hj hjr => hfr j (by simp [Tree.inorder, hj]) hjr (fun e => hir (e ▸ hj))) htl
                  rw [hrl] at this
                  exact this
            · intro tl hw'; injection hw' with _ h2; cases h2
          · have hs' : (decide (q < prioAt nodes i) || (q == prioAt nodes i && rtl)) = false := by
              simpa using hs
            simp only [hs', Bool.false_eq_true, if_false]
            constructor
            · intro tl x' hw'; injection hw' with _ h2; cases h2
            · intro tl hw'
              injection hw' with h1 _
              have : stops q rtl (prioAt nodes i) = false := hs'
              exact ⟨h1.symm, by simp [absorbI, habs, this], reparent⟩

end Garnish.Spec
