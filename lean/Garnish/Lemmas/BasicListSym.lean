import Garnish.Props.C19StoreOn
namespace Garnish.Lemmas.Runtime.BasicSym
open Garnish Gen Garnish.Model.Equality Garnish.Model.Runtime Garnish.Model.Runtime.Basic Garnish.BasicOpt
open Garnish.Lemmas.Runtime.Basic

variable {F : Type}

/-- the data block after building `(:k = ()), (:k = $?)` with `k = 5`: symbol, unit, pair, true, pair, then the list
header `List(2, 2)`, its two items and its two association cells (stable sort: insertion order among equal keys) -/
def dupCells : Array Cell :=
  #[.symbol 5, .unit, .pair 0 1, .tru, .pair 0 3, .list 2 2, .listItem 2, .listItem 4, .associativeItem 5 1, .associativeItem 5 3]

def dupB : BState :=
  { BState.init with store := { Store.fresh with cells := dupCells, size := 10 } }

theorem mem_dup {i : Nat} {c : Cell} (h : dupCells[i]? = some c) : c ∈ dupCells.toList := by
  rw [← Array.getElem?_toList] at h; exact List.mem_of_getElem? h

theorem dupB_inv : BInv dupB := by
  refine ⟨by decide, by decide, ?_, ?_, ?_, ⟨?_, ?_, ?_⟩⟩
  · intro a h; cases h
  · intro i p v h; have := mem_dup h; simp [dupCells] at this
  · intro i p r h; rcases h with h | h <;> (have := mem_dup h; simp [dupCells] at this)
  · intro a h; cases h
  · intro i p h; rcases h with ⟨r, h⟩ | h <;> (have := mem_dup h; simp [dupCells] at this)
  · intro i r h; rcases h with ⟨p, h⟩ | h <;> (have := mem_dup h; simp [dupCells] at this)

/-- **`ListSymOn` is false of `BasicGarnishData`**: the binary search over the key table ends on the LAST of equal
keys (`if key > sym { base } else { mid }`), the table is sorted stably, so the second item's value is returned where
the contract asks for the first (the real store answers the same: LIST suite, `(l (p (s 5) U) (p (s 5) T))`, `sym:5` = `T`) -/
theorem basic_not_listSymOn (nc : NumCode F) : ¬ ListSymOn (basicRStore nc) BInv := by
  intro hls
  have hd : DecodesList ((basicRStore nc).view dupB) [2, 4] [.pair (.sym 5) .unit, .pair (.sym 5) .tru] :=
    .cons (.pair rfl rfl (.sym rfl rfl) (.unit rfl)) (.cons (.pair rfl rfl (.sym rfl rfl) (.tru rfl)) .nil)
  have := hls dupB 5 [2, 4] _ 5 dupB_inv rfl hd
  simp only [Abs.lookupSym, beq_self_eq_true, if_true] at this
  obtain ⟨r, h1, h2⟩ := this
  have hr : (basicRStore nc).listItemWithSymbol dupB 5 5 = .ok (some 3) := by
    show listItemWithSymbolB dupCells 5 5 = .ok (some 3)
    rfl
  rw [hr] at h1
  cases h1
  cases h2 with
  | unit ht =>
    have : (some Ty.true : Option Ty) = some Ty.unit := ht
    cases this

end Garnish.Lemmas.Runtime.BasicSym
