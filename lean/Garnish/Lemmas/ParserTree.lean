/-
Tree-level half of the simulation "model of `parse` = reference parser" for the operator fragment:
index trees (`Spec.Tree`), the insertion `insertI` that one (binary operator, atom) pair performs on them, its in-order
sequence, and its image under `toRd` = what `Spec.attach` + `Spec.plug` do on reference trees.
Nothing here mentions node arrays.
-/
import Garnish.Lemmas.RefParse
import Garnish.Lemmas.Tree

namespace Garnish.Spec
open Garnish Garnish.Gen Garnish.Model.Parser

/-- right spine, bottom-up (the order in which `parse_token` walks it) -/
def rspineUp : Tree → List Nat
  | .nil => []
  | .node _ i _ r => rspineUp r ++ [i]

/-- the subtree a (binary operator `n`, atom `n+1`) pair puts on top of `s` -/
def newOp (s : Tree) (n ko ka : Nat) : Tree := .node s n ko (.node .nil (n + 1) ka .nil)

/-- insertion of the pair, walking up the right spine from the bottom; `pr i` = priority of node `i`;
    `none` = the walk passed the whole tree -/
def absorbI (pr : Nat → Nat) (q : Nat) (rtl : Bool) (n ko ka : Nat) : Tree → Option Tree
  | .nil => none
  | .node l i k r =>
    match absorbI pr q rtl n ko ka r with
    | some r' => some (.node l i k r')
    | none => if stops q rtl (pr i) then some (.node l i k (newOp r n ko ka)) else none

def insertI (pr : Nat → Nat) (q : Nat) (rtl : Bool) (n ko ka : Nat) (t : Tree) : Tree :=
  match absorbI pr q rtl n ko ka t with
  | some t' => t'
  | none => newOp t n ko ka

theorem newOp_inorder (s : Tree) (n ko ka : Nat) : (newOp s n ko ka).inorder = s.inorder ++ [n, n + 1] := by
  simp [newOp, Tree.inorder]

theorem absorbI_inorder (pr : Nat → Nat) (q : Nat) (rtl : Bool) (n ko ka : Nat) :
    ∀ t t', absorbI pr q rtl n ko ka t = some t' → t'.inorder = t.inorder ++ [n, n + 1] := by
  intro t
  induction t with
  | nil => intro t' h; simp [absorbI] at h
  | node l i k r _ ihr =>
    intro t' h
    simp only [absorbI] at h
    cases hr : absorbI pr q rtl n ko ka r with
    | some r' =>
      simp only [hr, Option.some.injEq] at h; subst h
      simp [Tree.inorder, ihr r' hr]
    | none =>
      simp only [hr] at h
      split at h
      · simp only [Option.some.injEq] at h; subst h
        simp [Tree.inorder, newOp_inorder]
      · cases h

theorem insertI_inorder (pr : Nat → Nat) (q : Nat) (rtl : Bool) (n ko ka : Nat) (t : Tree) :
    (insertI pr q rtl n ko ka t).inorder = t.inorder ++ [n, n + 1] := by
  unfold insertI
  cases h : absorbI pr q rtl n ko ka t with
  | some t' => exact absorbI_inorder pr q rtl n ko ka t t' h
  | none => exact newOp_inorder t n ko ka

/-- reference tree of an index tree; `df i` = definition of node `i` -/
def toRd (df : Nat → Definition) : Tree → RTree
  | .nil => .nil
  | .node l i k r => .node (toRd df l) (df i) k (toRd df r)

theorem toRd_congr (df df' : Nat → Definition) : ∀ t : Tree, (∀ i ∈ t.inorder, df i = df' i) → toRd df t = toRd df' t
  | .nil, _ => rfl
  | .node l i k r, h => by
    simp only [toRd]
    rw [toRd_congr df df' l (fun j hj => h j (by simp [Tree.inorder, hj])),
      toRd_congr df df' r (fun j hj => h j (by simp [Tree.inorder, hj])), h i (by simp [Tree.inorder])]

theorem toRd_isNil (df : Nat → Definition) (t : Tree) : (toRd df t).isNil = true ↔ t = .nil := by
  cases t <;> simp [toRd, RTree.isNil]

/-- **what `attach` + `plug` do on the reference tree is `insertI` on the index tree** -/
theorem absorb_toRd (df : Nat → Definition) (pr : Nat → Nat) (q : Nat) (rtl : Bool) (n ko ka : Nat) (x : RTree)
    (hx : (if df n == Definition.access then asProperty x else x) = .node .nil (df (n + 1)) ka .nil) :
    ∀ t : Tree, (∀ i ∈ t.inorder, Table.gen.prio (df i) = some (pr i)) →
      match absorb Table.gen q rtl (df n) ko (toRd df t), absorbI pr q rtl n ko ka t with
      | some R', some t' => plug R' x = toRd df t' ∧ R'.isNil = false
      | none, none => True
      | _, _ => False := by
  intro t
  induction t with
  | nil => intro _; simp [toRd, absorb, absorbI]
  | node l i k r _ ihr =>
    intro hp
    have hpr : ∀ j ∈ r.inorder, Table.gen.prio (df j) = some (pr j) :=
      fun j hj => hp j (by simp [Tree.inorder, hj])
    have hpi : Table.gen.prio (df i) = some (pr i) := hp i (by simp [Tree.inorder])
    have ih := ihr hpr
    simp only [toRd, absorb, absorbI]
    cases hR : absorb Table.gen q rtl (df n) ko (toRd df r) with
    | some R' =>
      cases hI : absorbI pr q rtl n ko ka r with
      | some r' =>
        simp only [hR, hI] at ih ⊢
        obtain ⟨h1, h2⟩ := ih
        refine ⟨?_, rfl⟩
        simp only [plug, h2, Bool.false_eq_true, if_false, h1, toRd]
      | none => simp [hR, hI] at ih
    | none =>
      cases hI : absorbI pr q rtl n ko ka r with
      | some r' => simp [hR, hI] at ih
      | none =>
        simp only [hpi]
        by_cases hs : stops q rtl (pr i) = true
        · simp only [hs, if_true]
          refine ⟨?_, rfl⟩
          simp only [plug, RTree.isNil, Bool.false_eq_true, if_false, if_true, hx, toRd, newOp]
        · simp [hs]

theorem insertI_toRd (df : Nat → Definition) (pr : Nat → Nat) (q : Nat) (rtl : Bool) (n ko ka : Nat) (x : RTree)
    (hx : (if df n == Definition.access then asProperty x else x) = .node .nil (df (n + 1)) ka .nil)
    (t : Tree) (hp : ∀ i ∈ t.inorder, Table.gen.prio (df i) = some (pr i)) :
    plug (attach Table.gen q rtl (df n) ko (toRd df t)) x = toRd df (insertI pr q rtl n ko ka t) := by
  have h := absorb_toRd df pr q rtl n ko ka x hx t hp
  unfold attach insertI
  cases hR : absorb Table.gen q rtl (df n) ko (toRd df t) with
  | some R' =>
    cases hI : absorbI pr q rtl n ko ka t with
    | some t' => simp only [hR, hI] at h; exact h.1
    | none => simp [hR, hI] at h
  | none =>
    cases hI : absorbI pr q rtl n ko ka t with
    | some t' => simp [hR, hI] at h
    | none => simp only [plug, RTree.isNil, if_true, hx, toRd, newOp]

end Garnish.Spec
