/-
`StoreLaws` for `BasicGarnishData`, continued: the input-value stack (`push_value_stack`, `pop_value_stack`).
-/
import Garnish.Lemmas.BasicLaws3
set_option linter.unusedSimpArgs false
set_option linter.unusedVariables false
set_option maxHeartbeats 1000000
namespace Garnish.Lemmas.Runtime.Basic
open Garnish Gen Garnish.Model.Equality Garnish.Model.Runtime Garnish.Model.Runtime.Basic Garnish.BasicOpt
open Garnish.Lemmas.Runtime Garnish.Lemmas.EqualityRefine

variable {F : Type}

/-- **`push_value_stack(a)`** for a readable address -/
theorem pushValue_law (nc : NumCode F) {st : BState} (hinv : BInv st) {a : Nat}
    (ha : isNode st.store.cells a = true) :
    ∃ st', (basicRStore nc).pushValueStack a st = .ok ((), st') ∧
      Eff (basicRStore nc) st st' ((basicRStore nc).regs st) (a :: (basicRStore nc).vals st) ∧ BInv st' := by
  have key : ∀ c, (∀ s1 i, st.store.push c = .ok (s1, i) →
        st.store.pushValue a = .ok { s1 with currentValue := some i }) →
      valsOf (st.store.cells.push c) (some st.store.cells.size) =
        a :: valsOf st.store.cells st.store.currentValue →
      (∀ p v, c = Cell.register p v → False) →
      (∀ p r, (c = Cell.frame p r ∨ c = Cell.frameRegister r) → False) → frameKind c = false →
      ∃ st', (basicRStore nc).pushValueStack a st = .ok ((), st') ∧
        Eff (basicRStore nc) st st' ((basicRStore nc).regs st) (a :: (basicRStore nc).vals st) ∧ BInv st' := by
    intro c hop hvals hcreg hcfr hnf
    obtain ⟨s1, hp, hcells, hfit⟩ := push_total c hinv.fits
    obtain ⟨_, _, hf⟩ := push_ok hp
    have hopr := hop s1 _ hp
    have hw := pushValue_wfq hinv.wfq ha hopr
    have hsub : Sub st.store.cells s1.cells := by rw [hcells]; simpa using sub_append st.store.cells #[c]
    refine ⟨_, liftUnit_ok (f := fun s => s.pushValue a) hopr,
      ⟨keeps_sub nc (s' := { s1 with currentValue := some st.store.cells.size }) hsub, ?_, ?_, rfl, ?_⟩, ?_⟩
    · exact regs_sub (s' := { s1 with currentValue := some st.store.cells.size }) hinv hsub hf.2.2.2.2.1
    · show valsOf s1.cells (some st.store.cells.size) = _
      rw [hcells]; exact hvals
    · exact frames_sub (s' := { s1 with currentValue := some st.store.cells.size }) hinv hsub hf.2.2.2.2.2
    · refine binv_push_cell hinv (c := c) hcells hw ⟨by simpa using hfit.1, hfit.2⟩ ?_
        (fun p v h => (hcreg p v h).elim) (fun p r h => (hcfr p r h).elim) hf.2.2.2.2.2 hnf
      intro x hx
      exact Or.inl (by rw [← hf.2.2.2.2.1]; exact hx)
  cases hcur : st.store.currentValue with
  | none =>
    refine key (.valueRoot a) ?_ ?_ ?_ ?_ rfl
    · intro s1 i hp; simp [Store.pushValue, hcur, hp, bind, Outcome.bind, pure]
    · rw [valsOf_root (v := a) (by simp), hcur]; rfl
    · intro p v h; cases h
    · intro p r h; rcases h with h | h <;> cases h
  | some p =>
    have hps := hinv.wfq.val
    rw [hcur] at hps
    have hplt : p < st.store.cells.size := svAt_lt hps
    refine key (.value p a) ?_ ?_ ?_ ?_ rfl
    · intro s1 i hp; simp [Store.pushValue, hcur, hp, bind, Outcome.bind, pure]
    · rw [valsOf_value (p := p) (v := a) (by simp) hplt, hcur]
      congr 1
      exact valsOf_sub (by simpa using sub_append st.store.cells #[Cell.value p a]) (fun x hx => by cases hx; exact hplt)
    · intro p' v h; cases h
    · intro p' r h; rcases h with h | h <;> cases h

/-- **`pop_value_stack`** -/
theorem popValue_law (nc : NumCode F) {st : BState} (hinv : BInv st) :
    (∀ (hnil : (basicRStore nc).vals st = []), ∃ st', (basicRStore nc).popValueStack st = .ok (none, st') ∧
      Eff (basicRStore nc) st st' ((basicRStore nc).regs st) [] ∧ BInv st') ∧
    (∀ a rest, (basicRStore nc).vals st = a :: rest → ∃ st', (basicRStore nc).popValueStack st = .ok (some a, st') ∧
      Eff (basicRStore nc) st st' ((basicRStore nc).regs st) rest ∧ BInv st') := by
  have same : ∀ (o : Option Nat), headSV st.store.cells o = true →
      Eff (basicRStore nc) st { st with store := { st.store with currentValue := o } }
        ((basicRStore nc).regs st) (valsOf st.store.cells o) ∧
      BInv { st with store := { st.store with currentValue := o } } := fun o ho =>
    ⟨⟨⟨fun _ _ h => h, rfl, rfl, rfl, rfl⟩, rfl, rfl, rfl, rfl⟩,
      hinv.wfq.withHeads _ o _ hinv.wfq.reg ho hinv.wfq.frm, hinv.fits, hinv.regHead, hinv.regPrev, hinv.frameSaved,
      ⟨hinv.ftyped.head, hinv.ftyped.prev, hinv.ftyped.reg⟩⟩
  have hpop : (basicRStore nc).popValueStack st =
      .ok ((st.store.popValue).2, { st with store := (st.store.popValue).1 }) := rfl
  cases hcur : st.store.currentValue with
  | none =>
    have hv : (basicRStore nc).vals st = [] := by show valsOf _ st.store.currentValue = []; rw [hcur]; rfl
    have hp : st.store.popValue = (st.store, none) := by simp [Store.popValue, hcur]
    constructor
    · intro _
      refine ⟨st, by rw [hpop, hp], ?_, hinv⟩
      have := Eff.refl (basicRStore nc) st
      rw [hv] at this; exact this
    · intro a rest h; rw [hv] at h; cases h
  | some i =>
    have his := hinv.wfq.val
    rw [hcur] at his
    rcases sv_cell his with ⟨p, v, hc⟩ | ⟨v, hc⟩
    · obtain ⟨hp, hps⟩ := hinv.wfq.chain i p v hc
      have hvals : (basicRStore nc).vals st = v :: valsOf st.store.cells (some p) := by
        show valsOf _ st.store.currentValue = _
        rw [hcur]; exact valsOf_value hc hp
      have hpv : st.store.popValue = ({ st.store with currentValue := some p }, some v) := by
        simp [Store.popValue, hcur, hc]
      obtain ⟨he, hi⟩ := same (some p) hps
      constructor
      · intro hnil; rw [hvals] at hnil; cases hnil
      · intro a rest h
        rw [hvals] at h
        simp only [List.cons.injEq] at h
        obtain ⟨rfl, rfl⟩ := h
        exact ⟨_, by rw [hpop, hpv], he, hi⟩
    · have hvals : (basicRStore nc).vals st = [v] := by
        show valsOf _ st.store.currentValue = _
        rw [hcur]; exact valsOf_root hc
      have hpv : st.store.popValue = ({ st.store with currentValue := none }, some v) := by
        simp [Store.popValue, hcur, hc]
      obtain ⟨he, hi⟩ := same none rfl
      constructor
      · intro hnil; rw [hvals] at hnil; cases hnil
      · intro a rest h
        rw [hvals] at h
        simp only [List.cons.injEq] at h
        obtain ⟨rfl, rfl⟩ := h
        exact ⟨_, by rw [hpop, hpv], he, hi⟩

end Garnish.Lemmas.Runtime.Basic
