/-
Step-level facts about the parser model (Garnish/Model/Parser.lean, frozen) that the C18 (trivia insensitivity) and the
C02/C04 fragment statements rest on:
  * what a successful `parse_token` leaves unchanged (`parseToken_size_def`),
  * the state after a binary-operator token (`step_binop_post`) and after a value token (`step_atom_post`),
  * a Whitespace / Annotation token that follows a node which is neither value-like nor group-like only changes
    `previous_second_def` and `last_token` (`step_trivia`),
  * a value token does not look at `last_token`, and at `previous_second_def` only through the composition check
    (`step_atom_indep`); a binary-operator token neither, nor at `check_for_list` (`step_binop_indep`).
-/
import Garnish.Model.Parser

namespace Garnish.Model.Parser
open Garnish Garnish.Gen

theorem bind_ok {α β : Type} {x : Outcome α} {g : α → Outcome β} {y : β} (h : Outcome.bind x g = .ok y) :
    ∃ a, x = .ok a ∧ g a = .ok y := by
  cases x with
  | ok a => exact ⟨a, rfl, h⟩
  | err e => cases h
  | panic s => cases h
  | fuelOut => cases h

theorem modifyNode?_size {nodes nodes' : Array ParseNode} {i : Nat} {f : ParseNode → ParseNode}
    (h : modifyNode? nodes i f = some nodes') : nodes'.size = nodes.size := by
  unfold modifyNode? at h
  split at h
  · injection h with h; subst h; simp
  · cases h

/-- a successful `parse_token` keeps the number of nodes and returns the definition it was given -/
theorem parseToken_size_def {id : Nat} {d : Definition} {left right : Option Nat} {nodes nodes' : Array ParseNode}
    {ug : Option Nat} {rtl : Bool} {info : Info}
    (h : parseToken id d left right nodes ug rtl = .ok (nodes', info)) : nodes'.size = nodes.size ∧ info.definition = d := by
  unfold parseToken at h
  split at h
  · cases h
  · obtain ⟨⟨tl, par⟩, _, h⟩ := bind_ok h
    simp only at h
    obtain ⟨nodes1, h1, h⟩ := bind_ok h
    have hs1 : nodes1.size = nodes.size := by
      split at h1
      · injection h1 with h1; subst h1; rfl
      · split at h1
        · cases h1
        · rename_i hm; injection h1 with h1; subst h1; exact modifyNode?_size hm
    split at h
    · injection h with h; injection h with e1 e2; subst e1; subst e2; exact ⟨hs1, rfl⟩
    · split at h
      · cases h
      · split at h
        · cases h
        · rename_i nodes2 hm2
          have hs2 := modifyNode?_size hm2
          split at h
          · injection h with h; injection h with e1 e2; subst e1; subst e2; exact ⟨by omega, rfl⟩
          · split at h
            · injection h with h; injection h with e1 e2; subst e1; subst e2; exact ⟨by omega, rfl⟩
            · rename_i nodes3 hm3
              have hs3 := modifyNode?_size hm3
              injection h with h; injection h with e1 e2; subst e1; subst e2; exact ⟨by omega, rfl⟩

/-- the node `last_left` points to is an operator-like node: neither value-like nor group-like
    (after it, whitespace cannot start an implicit list and no side-effect adjustment happens) -/
def TrivOK (st : PState) : Prop :=
  ∃ i n, st.lastLeft = some i ∧ st.nodes[i]? = some n ∧ n.definition.isValueLike = false ∧ n.definition.isGroupLike = false

theorem not_sideEffect_of_not_groupLike {d : Definition} (h : d.isGroupLike = false) : (d == Definition.sideEffect) = false := by
  cases d <;> simp_all [Definition.isGroupLike]

theorem adjustLastLeft_trivOK {st : PState} (h : TrivOK st) (ug : Option Nat) : adjustLastLeft st ug = .ok st := by
  obtain ⟨i, n, hl, hn, _, hg⟩ := h
  unfold adjustLastLeft
  simp [hl, hn, not_sideEffect_of_not_groupLike hg]

def isTriviaTok (t : PToken) : Bool := t.type == .whitespace || t.type == .annotation || t.type == .lineAnnotation
def isAtomTok (t : PToken) : Bool :=
  ((getDefinition t.type).2 == .value || (getDefinition t.type).2 == .identifier) &&
    (priority (getDefinition t.type).1).isSome
def isBinopTok (t : PToken) : Bool :=
  (getDefinition t.type).2 == .binaryLeftToRight || (getDefinition t.type).2 == .binaryRightToLeft

theorem checkComposition_trivia (prev : SecDef) (cfl : Bool) :
    checkComposition prev .whitespace cfl = true ∧ checkComposition prev .annotation cfl = true := by
  cases prev <;> cases cfl <;> exact ⟨rfl, rfl⟩

/-- **a trivia token after an operator-like node**: only `previous_second_def` and `last_token` change -/
theorem step_trivia (st : PState) (w : PToken) (il : Bool) (hw : isTriviaTok w = true) (ht : TrivOK st)
    (hnl : st.nextLastLeft = none) :
    step st w il = Outcome.bind (underGroupOf st) fun _ =>
      .ok { st with previousSecondDef := (getDefinition w.type).2, lastToken := w } := by
  have hadj := adjustLastLeft_trivOK ht
  obtain ⟨i, n, hl, hn, hv, hg⟩ := ht
  unfold step
  cases hu : underGroupOf st with
  | err e => rfl
  | panic s => rfl
  | fuelOut => rfl
  | ok ug =>
    simp only [Outcome.bind, hadj]
    unfold isTriviaTok at hw
    have hcases : w.type = .whitespace ∨ w.type = .annotation ∨ w.type = .lineAnnotation := by
      simp only [Bool.or_eq_true, beq_iff_eq] at hw
      rcases hw with (h | h) | h
      · exact Or.inl h
      · exact Or.inr (Or.inl h)
      · exact Or.inr (Or.inr h)
    rcases hcases with h | h | h
    · rw [h]
      simp only [getDefinition, (checkComposition_trivia _ _).1, Bool.not_true, Bool.false_eq_true, if_false, dispatch,
        setupSpaceListCheck, hl, hn, hv, hg, Bool.false_and, Bool.or_self, Outcome.bind, pushNode, bne_self_eq_false]
      simp [hl, hnl]
    · rw [h]
      simp only [getDefinition, (checkComposition_trivia _ _).2, Bool.not_true, Bool.false_eq_true, if_false, dispatch,
        Outcome.bind, pushNode, bne_self_eq_false]
      simp [hl, hnl]
    · rw [h]
      simp only [getDefinition, (checkComposition_trivia _ _).2, Bool.not_true, Bool.false_eq_true, if_false, dispatch,
        Outcome.bind, pushNode, bne_self_eq_false]
      simp [hl, hnl]

/-- **a value token does not look at `last_token`**, and at `previous_second_def` only through the composition check
    (when the list flag is clear and `last_left` is an operator-like node) -/
theorem step_atom_indep (st : PState) (s : SecDef) (w a : PToken) (il : Bool) (ha : isAtomTok a = true)
    (ht : TrivOK st) (hc : st.checkForList = false)
    (hcomp : checkComposition s (getDefinition a.type).2 false =
      checkComposition st.previousSecondDef (getDefinition a.type).2 false) :
    step { st with previousSecondDef := s, lastToken := w } a il = step st a il := by
  have ht2 : TrivOK { st with previousSecondDef := s, lastToken := w } := ht
  unfold step
  have hu : underGroupOf { st with previousSecondDef := s, lastToken := w } = underGroupOf st := rfl
  rw [hu]
  cases underGroupOf st with
  | err e => rfl
  | panic s => rfl
  | fuelOut => rfl
  | ok ug =>
    simp only [Outcome.bind, adjustLastLeft_trivOK ht, adjustLastLeft_trivOK ht2]
    unfold isAtomTok at ha
    generalize getDefinition a.type = ds at ha hcomp
    obtain ⟨d, sa⟩ := ds
    simp only [hc] at hcomp ⊢
    simp only at ha hcomp
    rw [hcomp]
    split
    · rfl
    · have hsa : sa = .value ∨ sa = .identifier := by
        simp only [Bool.and_eq_true, Bool.or_eq_true, beq_iff_eq] at ha
        exact ha.1
      rcases hsa with hsa | hsa <;> subst hsa <;>
      · simp only [dispatch, parseValueLike, hc, Bool.false_eq_true, if_false, parseTokenLeftToRight, parseTokenSt]
        cases parseToken st.nodes.size d st.lastLeft none st.nodes ug false with
        | err e => rfl
        | panic s => rfl
        | fuelOut => rfl
        | ok res =>
          obtain ⟨nodes', info⟩ := res
          simp only [Outcome.bind, pushNode]
          cases hdrop : (info.definition != Definition.drop) <;> cases hnl : st.nextLastLeft <;> simp [hnl]

theorem binop_def_facts (tt : TokenType)
    (h : ((getDefinition tt).2 == SecDef.binaryLeftToRight || (getDefinition tt).2 == SecDef.binaryRightToLeft) = true) :
    ((getDefinition tt).1 != Definition.drop) = true ∧ (getDefinition tt).1 ≠ Definition.identifier ∧
      (getDefinition tt).1.isValueLike = false ∧ (getDefinition tt).1.isGroupLike = false := by
  revert h
  cases tt <;> simp only [getDefinition] <;> decide

theorem adjustLastLeft_keeps {st st' : PState} {ug : Option Nat} (h : adjustLastLeft st ug = .ok st') :
    st'.nextLastLeft = st.nextLastLeft ∧ st'.nodes = st.nodes ∧ st'.checkForList = st.checkForList := by
  unfold adjustLastLeft at h
  split at h
  · injection h with h; subst h; exact ⟨rfl, rfl, rfl⟩
  · split at h
    · cases h
    · split at h
      · dsimp only at h
        split at h <;> (injection h with h; subst h; exact ⟨rfl, rfl, rfl⟩)
      · injection h with h; subst h; exact ⟨rfl, rfl, rfl⟩

/-- **the state after a binary-operator token**: the list flag is clear, `last_left` is the operator node just pushed -/
theorem step_binop_post (st st1 : PState) (o : PToken) (il : Bool) (ho : isBinopTok o = true)
    (hnl : st.nextLastLeft = none) (h : step st o il = .ok st1) :
    st1.checkForList = false ∧ st1.nextLastLeft = none ∧ TrivOK st1 ∧ st1.previousSecondDef = (getDefinition o.type).2 := by
  unfold step at h
  obtain ⟨ug, _, h⟩ := bind_ok h
  obtain ⟨sta, hadj, h⟩ := bind_ok h
  obtain ⟨k1, k2, _⟩ := adjustLastLeft_keeps hadj
  unfold isBinopTok at ho
  obtain ⟨f1, f2, f3, f4⟩ := binop_def_facts o.type ho
  generalize getDefinition o.type = ds at h ho f1 f2 f3 f4
  obtain ⟨d, so⟩ := ds
  simp only at h ho f1 f2 f3 f4
  split at h
  · cases h
  · have hso : so = .binaryLeftToRight ∨ so = .binaryRightToLeft := by
      simpa [Bool.or_eq_true, beq_iff_eq] using ho
    have hdisp : ∀ (stx : PState) (ar : Option Nat),
        dispatch stx sta.nodes.size o d so ar ug =
          parseTokenSt { stx with nextParent := some sta.nodes.size } sta.nodes.size d stx.lastLeft ar ug
            (so == .binaryRightToLeft) := by
      intro stx ar
      rcases hso with hso | hso <;> subst hso <;> rfl
    rw [k2] at hdisp
    rw [hdisp] at h
    simp only [parseTokenSt] at h
    obtain ⟨⟨stp, info⟩, hd, h⟩ := bind_ok h
    obtain ⟨⟨nodes', info'⟩, hpt, hd⟩ := bind_ok hd
    injection hd with hd; injection hd with e1 e2; subst e1; subst e2
    obtain ⟨hsz, hdef⟩ := parseToken_size_def hpt
    simp only [pushNode, hdef, f1, if_true, k1, hnl] at h
    injection h with h; subst h
    have hmatch : (match d with
        | Definition.identifier =>
          match info'.parent.bind fun p => nodes'[p]? with
          | none => d
          | some p => if (p.definition == Definition.access) = true then Definition.property else d
        | d => d) = d := by
      cases d <;> first | rfl | exact absurd rfl f2
    refine ⟨rfl, rfl, ?_, rfl⟩
    refine ⟨st.nodes.size, ⟨d, so, info'.parent, info'.left, info'.right, o⟩, ?_, ?_, f3, f4⟩
    · dsimp only
      rw [if_neg]
      simp [Array.size_push]
    · rw [k2] at hsz
      show (nodes'.push _)[st.nodes.size]? = _
      simp [← hsz, hmatch]

/-- between two steps `next_last_left` is always `None` -/
theorem step_nextLastLeft (st st' : PState) (t : PToken) (il : Bool) (h : step st t il = .ok st') :
    st'.nextLastLeft = none := by
  unfold step at h
  obtain ⟨ug, _, h⟩ := bind_ok h
  obtain ⟨sta, _, h⟩ := bind_ok h
  generalize getDefinition t.type = ds at h
  obtain ⟨d, s⟩ := ds
  simp only at h
  split at h
  · cases h
  · obtain ⟨⟨std, info⟩, _, h⟩ := bind_ok h
    simp only at h
    split at h <;> (injection h with h; subst h; first | rfl | assumption)

theorem composition_trivia_atom (so sw sa : SecDef)
    (ho : so = .binaryLeftToRight ∨ so = .binaryRightToLeft) (hw : sw = .whitespace ∨ sw = .annotation)
    (ha : sa = .value ∨ sa = .identifier) :
    checkComposition sw sa false = checkComposition so sa false := by
  rcases ho with rfl | rfl <;> rcases hw with rfl | rfl <;> rcases ha with rfl | rfl <;> rfl

/-- **trivia between a binary operator and the atom that follows it is invisible**: the two windows
    `op trivia atom` and `op atom` lead to the same state (hence the same node array) -/
theorem window_binop_trivia_atom (st : PState) (o w a : PToken) (post : List PToken) (ho : isBinopTok o = true)
    (hw : isTriviaTok w = true) (ha : isAtomTok a = true) (hnl : st.nextLastLeft = none) :
    loop st (o :: w :: a :: post) = loop st (o :: a :: post) := by
  simp only [loop, List.isEmpty_cons]
  cases h1 : step st o false with
  | err e => rfl
  | panic s => rfl
  | fuelOut => rfl
  | ok st1 =>
    obtain ⟨p1, p2, p3, p4⟩ := step_binop_post st st1 o false ho hnl h1
    simp only [Outcome.bind]
    rw [step_trivia st1 w false hw p3 p2]
    cases hu : underGroupOf st1 with
    | ok ug =>
      simp only [Outcome.bind]
      have hsw : (getDefinition w.type).2 = .whitespace ∨ (getDefinition w.type).2 = .annotation := by
        unfold isTriviaTok at hw
        simp only [Bool.or_eq_true, beq_iff_eq] at hw
        rcases hw with (h | h) | h <;> rw [h] <;> simp [getDefinition]
      have hso : (getDefinition o.type).2 = .binaryLeftToRight ∨ (getDefinition o.type).2 = .binaryRightToLeft := by
        unfold isBinopTok at ho; simpa [Bool.or_eq_true, beq_iff_eq] using ho
      have hsa : (getDefinition a.type).2 = .value ∨ (getDefinition a.type).2 = .identifier := by
        unfold isAtomTok at ha
        simp only [Bool.and_eq_true, Bool.or_eq_true, beq_iff_eq] at ha
        exact ha.1
      rw [step_atom_indep st1 _ w a _ ha p3 p1 (by rw [p4]; exact composition_trivia_atom _ _ _ hso hsw hsa)]
    | err e =>
      simp only [Outcome.bind]
      unfold step; rw [hu]; rfl
    | panic s =>
      simp only [Outcome.bind]
      unfold step; rw [hu]; rfl
    | fuelOut =>
      simp only [Outcome.bind]
      unfold step; rw [hu]; rfl

/-- the same anywhere in a token list -/
theorem loop_binop_trivia_atom (o w a : PToken) (post : List PToken) (ho : isBinopTok o = true)
    (hw : isTriviaTok w = true) (ha : isAtomTok a = true) :
    ∀ (pre : List PToken) (st : PState), st.nextLastLeft = none →
      loop st (pre ++ o :: w :: a :: post) = loop st (pre ++ o :: a :: post) := by
  intro pre
  induction pre with
  | nil => intro st hnl; exact window_binop_trivia_atom st o w a post ho hw ha hnl
  | cons x pre ih =>
    intro st hnl
    simp only [List.cons_append, loop]
    have e1 : (pre ++ o :: w :: a :: post).isEmpty = false := by cases pre <;> rfl
    have e2 : (pre ++ o :: a :: post).isEmpty = false := by cases pre <;> rfl
    rw [e1, e2]
    cases hs : step st x false with
    | ok st' => simp only [Outcome.bind]; exact ih st' (step_nextLastLeft st st' x false hs)
    | err e => rfl
    | panic s => rfl
    | fuelOut => rfl

/-! ### the parent walk of `parse_token` on a well-formed parent chain (towards the fragment theorems of C02 / C04) -/

/-- `c` is a parent chain of `nodes`: every element's `parent` is the next element, the last one has no parent,
    and every node on it has a priority -/
def Chain (nodes : Array ParseNode) : List Nat → Prop
  | [] => True
  | x :: rest =>
    (∃ n p, nodes[x]? = some n ∧ priority n.definition = some p ∧ n.parent = rest.head?) ∧ Chain nodes rest

/-- priority of the node at index `x` (0 if absent) -/
def prioAt (nodes : Array ParseNode) (x : Nat) : Nat :=
  match nodes[x]? with
  | some n => (priority n.definition).getD 0
  | none => 0

/-- what the walk computes on a chain: `(true_left, parent)` — it stops below the first node that binds looser
    (or equally loose when the new operator is right-to-left), everything below becomes the left operand -/
def walkSpec (nodes : Array ParseNode) (q : Nat) (rtl : Bool) : Option Nat → List Nat → Option Nat × Option Nat
  | tl, [] => (tl, none)
  | tl, x :: rest =>
    if decide (q < prioAt nodes x) || (q == prioAt nodes x && rtl) then (tl, some x) else walkSpec nodes q rtl (some x) rest

/-- **on a parent chain (outside of brackets) the capped walk of `parse_token` never hits its cap or runs out of fuel and
    returns exactly `walkSpec`** -/
theorem walkLoop_chain (nodes : Array ParseNode) (q : Nat) (rtl : Bool) :
    ∀ (c : List Nat) (fuel count : Nat) (tl : Option Nat), Chain nodes c → count + c.length ≤ nodes.size →
      c.length ≤ fuel → walkLoop nodes q none rtl fuel count tl c.head? = .ok (walkSpec nodes q rtl tl c) := by
  intro c
  induction c with
  | nil => intro fuel count tl _ _ _; unfold walkLoop; rfl
  | cons x rest ih =>
    intro fuel count tl hc hcount hfuel
    obtain ⟨⟨n, p, hn, hp, hpar⟩, hrest⟩ := hc
    cases fuel with
    | zero => simp at hfuel
    | succ fuel =>
      simp only [List.length_cons] at hcount hfuel
      unfold walkLoop
      simp only [List.head?_cons, hn, hp, walkSpec, prioAt, Option.getD_some, Bool.and_false, Bool.or_false]
      split
      · rfl
      · have hle : ¬ (count + 1 > nodes.size) := by omega
        simp only [hle, if_false, hpar]
        exact ih fuel (count + 1) (some x) hrest (by omega) (by omega)

end Garnish.Model.Parser
