/-
F-C19-3, stated precisely: `create_index_stack` lists a value once per path to it, so the number of loop iterations
is the size of the TREE unfolding of the graph below the argument (`TreeCount`), and it is compared with
`(data_block.size / 2)²`.  `createIndexStack_limit`: the call succeeds iff that size is within the limit, and fails
with `CloneLimitReached` otherwise — also on acyclic graphs, whose tree size is exponential in the depth of sharing.
-/
import Garnish.Lemmas.Optimize
set_option maxHeartbeats 1000000
namespace Garnish.BasicOpt
open Garnish

/-- the addresses `create_index_stack` pushes for the cell at `index`, in push order (`none`: the arm fails, or the
cell is an unfinished list) -/
def pushedKids (cells : Array Cell) (index : Nat) : Option (List Nat) :=
  match cells[index]? with
  | none => none
  | some c =>
    match c with
    | .pair l r | .range l r | .slice l r | .partial_ l r | .concatenation l r => some [r, l]
    | .list n _ => listItems cells (index + 1) n
    | .uninitializedList _ _ => none
    | .value p v | .register p v | .frame p v => some [p, v]
    | .valueRoot v | .registerRoot v | .instructionWithData _ v | .frameIndex v | .frameRegister v => some [v]
    | _ => some []

mutual
/-- `TreeCount cells a n`: the tree unfolding of the graph below `a` (along `pushedKids`) has `n` nodes -/
inductive TreeCount (cells : Array Cell) : Nat → Nat → Prop where
  | node {a : Nat} {ks : List Nat} {n : Nat} : pushedKids cells a = some ks → TreeCounts cells ks n →
      TreeCount cells a (n + 1)
inductive TreeCounts (cells : Array Cell) : List Nat → Nat → Prop where
  | nil : TreeCounts cells [] 0
  | cons {a : Nat} {ks : List Nat} {n m : Nat} : TreeCount cells a n → TreeCounts cells ks m →
      TreeCounts cells (a :: ks) (n + m)
end

theorem TreeCounts.append {cells : Array Cell} : ∀ {l1 l2 : List Nat} {n m : Nat},
    TreeCounts cells l1 n → TreeCounts cells l2 m → TreeCounts cells (l1 ++ l2) (n + m)
  | [], _, _, _, .nil, h2 => by simpa using h2
  | _ :: _, _, _, _, .cons ha ht, h2 => by
    have := TreeCounts.append ht h2
    rw [Nat.add_assoc]
    exact .cons ha this

theorem TreeCount.pos {cells : Array Cell} {a n : Nat} (h : TreeCount cells a n) : 1 ≤ n := by
  cases h; omega

theorem TreeCounts.zero {cells : Array Cell} {q : List Nat} (h : TreeCounts cells q 0) : q = [] := by
  cases q with
  | nil => rfl
  | cons a ks =>
    exfalso
    generalize hz : (0 : Nat) = z at h
    cases h with
    | cons ha ht => have := ha.pos; omega

/-! ### pushes never fail when the block can grow -/

/-- the cursor is within the allocated size and the growth step is positive (every store built by the public
operations: `push_to_data_block` grows by a positive step exactly when the cursor reaches the size) -/
def Fits (s : Store) : Prop := s.cells.size ≤ s.size ∧ 1 ≤ s.grow

instance (s : Store) : Decidable (Fits s) := by unfold Fits; infer_instance

theorem push_total {s : Store} (c : Cell) (hf : Fits s) :
    ∃ s', s.push c = .ok (s', s.cells.size) ∧ s'.cells = s.cells.push c ∧ Fits s' := by
  obtain ⟨h1, h2⟩ := hf
  unfold Store.push
  simp only
  by_cases hge : s.cells.size ≥ s.size
  · simp only [hge, if_true]
    rw [if_neg (by simp; omega)]
    exact ⟨_, rfl, rfl, by simp [Fits]; omega⟩
  · simp only [hge, if_false]
    exact ⟨_, rfl, rfl, by simp [Fits]; omega⟩

theorem push1_total {s : Store} (a : Nat) (hf : Fits s) :
    ∃ s', Store.push1 s a = .ok s' ∧ s'.cells.toList = s.cells.toList ++ [Cell.cloneItem a] ∧ Fits s' := by
  obtain ⟨s1, h1, hc1, hg1⟩ := push_total (.cloneItem a) hf
  exact ⟨s1, by simp [Store.push1, h1, bind, Outcome.bind, pure], by rw [hc1]; simp, hg1⟩

theorem push2_total {s : Store} (a b : Nat) (hf : Fits s) :
    ∃ s', Store.push2 s a b = .ok s' ∧ s'.cells.toList = s.cells.toList ++ [Cell.cloneItem a, Cell.cloneItem b] ∧
      Fits s' := by
  obtain ⟨s1, h1, hc1, hg1⟩ := push_total (.cloneItem a) hf
  obtain ⟨s2, h2, hc2, hg2⟩ := push_total (s := s1) (.cloneItem b) hg1
  have e : s1.cells.size = s.cells.size + 1 := by rw [hc1]; simp
  exact ⟨s2, by simp [Store.push2, h1, h2, bind, Outcome.bind, pure], by rw [hc2, hc1]; simp, hg2⟩

theorem pushListItems_total {s0 : Array Cell} : ∀ (n : Nat) (s : Store) (i : Nat) (items : List Nat),
    (∀ j, j < s0.size → s.cells[j]? = s0[j]?) → Fits s → listItems s0 i n = some items →
    ∃ s', Store.pushListItems s i n = .ok s' ∧ s'.cells.toList = s.cells.toList ++ items.map .cloneItem ∧ Fits s'
  | 0, s, i, items, _, hf, h => by
    simp only [listItems, Option.some.injEq] at h
    subst h
    exact ⟨s, rfl, by simp, hf⟩
  | n + 1, s, i, items, hag, hf, h => by
    simp only [listItems] at h
    cases hc : s0[i]? with
    | none => simp [hc] at h
    | some c =>
      rw [hc] at h
      cases c <;> simp only [] at h <;> try (simp at h; done)
      rename_i item
      simp only [Option.map_eq_some_iff] at h
      obtain ⟨rest, hrest, rfl⟩ := h
      have hi : i < s0.size := by
        rcases Nat.lt_or_ge i s0.size with h | h
        · exact h
        · rw [Array.getElem?_eq_none h] at hc; cases hc
      have hget : s.get i = .ok (.listItem item) := by
        unfold Store.get; rw [hag i hi, hc]
      obtain ⟨s1, h1, hc1, hg1⟩ := push_total (s := s) (.cloneItem item) hf
      obtain ⟨s2, h2, hc2, hg2⟩ := pushListItems_total n s1 (i + 1) rest (fun j hj => by
        have hj' : s.cells[j]? = s0[j]? := hag j hj
        have hjs : j < s.cells.size := by
          rcases Nat.lt_or_ge j s.cells.size with h | h
          · exact h
          · rw [Array.getElem?_eq_none h] at hj'
            have : s0[j]? = some s0[j] := by simp [hj]
            rw [this] at hj'; cases hj'
        rw [hc1, Array.getElem?_push]
        simp [Nat.ne_of_lt hjs, hj']) hg1 hrest
      refine ⟨s2, ?_, ?_, hg2⟩
      · simp only [Store.pushListItems, hget, h1, bind, Outcome.bind]
        exact h2
      · rw [hc2, hc1]; simp

/-- the body of the `match` in `create_index_stack` pushes exactly `pushedKids` -/
theorem pushChildren_total {s0 : Array Cell} {s : Store} {a : Nat} {c : Cell} {ks : List Nat}
    (hag : ∀ j, j < s0.size → s.cells[j]? = s0[j]?) (hf : Fits s) (hc : s0[a]? = some c)
    (hk : pushedKids s0 a = some ks) :
    ∃ s', Store.pushChildren s a c = .ok s' ∧ s'.cells.toList = s.cells.toList ++ ks.map .cloneItem ∧ Fits s' := by
  unfold pushedKids at hk
  rw [hc] at hk
  cases c <;> simp only [Option.some.injEq] at hk <;> try (cases hk; done)
  all_goals first
    | (subst hk; exact ⟨s, rfl, by simp, hf⟩)
    | (subst hk; simpa [Store.pushChildren] using push2_total _ _ hf)
    | (subst hk; simpa [Store.pushChildren] using push1_total _ hf)
    | exact pushListItems_total _ _ _ _ hag hf hk

/-! ### the loop counts the tree -/

theorem getElem?_of_toList {A : Array Cell} {pre post : List Cell} {c : Cell} (h : A.toList = pre ++ c :: post) :
    A[pre.length]? = some c := by
  rw [← Array.getElem?_toList, h]; simp

/-- **the `while current < cursor` loop** with the queue `q` still to process (`done` already processed), `it`
iterations so far and `W` = the tree size of everything queued: it ends normally iff `it + W` stays within the limit,
and reports `CloneLimitReached` otherwise -/
theorem indexLoop_count {s0 : Array Cell} {maxIter : Nat} :
    ∀ (W : Nat) (q done : List Nat) (cur : Store) (fuel it : Nat),
      TreeCounts s0 q W → cur.cells.toList = s0.toList ++ done.map .cloneItem ++ q.map .cloneItem → Fits cur →
      maxIter + 2 ≤ fuel + it → it ≤ maxIter →
      (it + W ≤ maxIter → ∃ s', Store.indexLoop maxIter fuel cur (s0.size + done.length) it = .ok s') ∧
      (maxIter < it + W → Store.indexLoop maxIter fuel cur (s0.size + done.length) it = .err .data) := by
  intro W
  induction W with
  | zero =>
    intro q done cur fuel it hq hcells hf hfuel hit
    have hq0 := hq.zero
    subst hq0
    obtain ⟨f, rfl⟩ : ∃ f, fuel = f + 1 := ⟨fuel - 1, by omega⟩
    have hsz : cur.cells.size = s0.size + done.length := by
      have := congrArg List.length hcells
      simpa using this
    refine ⟨fun _ => ⟨cur, ?_⟩, fun h => by omega⟩
    simp [Store.indexLoop, Store.cursor, hsz]
  | succ W ih =>
    intro q done cur fuel it hq hcells hf hfuel hit
    obtain ⟨f, rfl⟩ : ∃ f, fuel = f + 1 := ⟨fuel - 1, by omega⟩
    generalize hWt : W + 1 = Wt at hq
    cases hq with
    | nil => omega
    | cons ha hrest =>
      rename_i a q' n m
      generalize hnn : n = nn at ha
      cases ha with
      | node hk hks =>
        rename_i ks n'
        -- the cell at `current` is `CloneItem a`
        have hcur : cur.cells[s0.size + done.length]? = some (.cloneItem a) := by
          have : cur.cells.toList = (s0.toList ++ done.map .cloneItem) ++ Cell.cloneItem a :: q'.map .cloneItem := by
            rw [hcells]; simp
          have := getElem?_of_toList this
          simpa using this
        have hlt : s0.size + done.length < cur.cells.size := by
          rcases Nat.lt_or_ge (s0.size + done.length) cur.cells.size with h | h
          · exact h
          · rw [Array.getElem?_eq_none h] at hcur; cases hcur
        have hag : ∀ j, j < s0.size → cur.cells[j]? = s0[j]? := by
          intro j hj
          rw [← Array.getElem?_toList, hcells, List.append_assoc, List.getElem?_append_left (by simpa using hj)]
          simp
        obtain ⟨c, hc⟩ : ∃ c, s0[a]? = some c := by
          unfold pushedKids at hk
          cases hca : s0[a]? with
          | none => simp [hca] at hk
          | some c => exact ⟨c, rfl⟩
        have ha_lt : a < s0.size := by
          rcases Nat.lt_or_ge a s0.size with h | h
          · exact h
          · rw [Array.getElem?_eq_none h] at hc; cases hc
        obtain ⟨cur2, hpc, hcells2, hf2⟩ := pushChildren_total hag hf hc hk
        have hget1 : cur.get (s0.size + done.length) = .ok (.cloneItem a) := by unfold Store.get; rw [hcur]
        have hget2 : cur.get a = .ok c := by unfold Store.get; rw [hag a ha_lt, hc]
        have hbody : Store.indexLoop maxIter (f + 1) cur (s0.size + done.length) it =
            (if it + 1 > maxIter then .err .data
             else Store.indexLoop maxIter f cur2 (s0.size + done.length + 1) (it + 1)) := by
          simp [Store.indexLoop, Store.cursor, hlt, hget1, hget2, hpc, bind, Outcome.bind]
        rw [hbody]
        by_cases hover : it + 1 > maxIter
        · simp only [hover, if_true]
          exact ⟨fun h => by omega, fun _ => trivial⟩
        · simp only [hover, if_false]
          have hq2 : TreeCounts s0 (q' ++ ks) W := by
            have := TreeCounts.append hrest hks
            have e : m + n' = W := by omega
            rw [e] at this; exact this
          have hcells3 : cur2.cells.toList = s0.toList ++ (done ++ [a]).map .cloneItem ++ (q' ++ ks).map .cloneItem := by
            rw [hcells2, hcells]; simp
          have := ih (q' ++ ks) (done ++ [a]) cur2 f (it + 1) hq2 hcells3 hf2 (by omega) (by omega)
          have e : s0.size + (done ++ [a]).length = s0.size + done.length + 1 := by simp; omega
          rw [e] at this
          obtain ⟨g1, g2⟩ := this
          exact ⟨fun h => g1 (by omega), fun h => g2 (by omega)⟩

/-- the limit `create_index_stack(from)` computes: `(data_block.size / 2)²` after its first push -/
def cloneLimit (s : Store) : Nat := ((if s.cells.size ≥ s.size then s.size + s.grow else s.size) / 2) ^ 2

/-- **F-C19-3 as a theorem** (`cloneLimit_iff`): on a store whose cursor is within its size, for an argument whose
tree unfolding has `T` nodes, `create_index_stack` succeeds iff `T ≤ (size/2)²` and fails with
`CloneLimitReached` iff `T` exceeds it -/
theorem createIndexStack_limit {s : Store} {a T : Nat} (hf : Fits s) (hT : TreeCount s.cells a T) :
    (T ≤ cloneLimit s → ∃ s' st, Store.createIndexStack s a = .ok (s', st)) ∧
    (cloneLimit s < T → Store.createIndexStack s a = .err .data) := by
  obtain ⟨s1, hp, hc1, hf1⟩ := push_total (.cloneItem a) hf
  have hsize1 : s1.size = (if s.cells.size ≥ s.size then s.size + s.grow else s.size) := by
    unfold Store.push at hp
    simp only at hp
    by_cases hge : s.cells.size ≥ s.size
    · simp only [hge, if_true] at hp ⊢
      split at hp
      · simp at hp
      · simp only [Outcome.ok.injEq, Prod.mk.injEq] at hp
        rw [← hp.1]
    · simp only [hge, if_false] at hp ⊢
      simp only [Outcome.ok.injEq, Prod.mk.injEq] at hp
      rw [← hp.1]
  have hq : TreeCounts s.cells [a] (T + 0) := .cons hT .nil
  have hcells : s1.cells.toList = s.cells.toList ++ ([] : List Nat).map Cell.cloneItem ++ [a].map Cell.cloneItem := by
    rw [hc1]; simp
  have hmain := indexLoop_count (maxIter := (s1.size / 2) ^ 2) (T + 0) [a] [] s1 ((s1.size / 2) ^ 2 + 2) 0 hq hcells hf1
    (by omega) (Nat.zero_le _)
  simp only [List.length_nil, Nat.add_zero, Nat.zero_add] at hmain
  have hlim : cloneLimit s = (s1.size / 2) ^ 2 := by simp [cloneLimit, hsize1]
  rw [hlim]
  obtain ⟨g1, g2⟩ := hmain
  constructor
  · intro h
    obtain ⟨s', hs'⟩ := g1 h
    exact ⟨s', s.cells.size, by simp [Store.createIndexStack, hp, hs', bind, Outcome.bind, pure]⟩
  · intro h
    simp [Store.createIndexStack, hp, g2 h, bind, Outcome.bind]

theorem createIndexStack_ok_iff {s : Store} {a T : Nat} (hf : Fits s) (hT : TreeCount s.cells a T) :
    (∃ s' st, Store.createIndexStack s a = .ok (s', st)) ↔ T ≤ cloneLimit s := by
  obtain ⟨g1, g2⟩ := createIndexStack_limit hf hT
  constructor
  · rintro ⟨s', st, h⟩
    rcases Nat.lt_or_ge (cloneLimit s) T with hlt | hge
    · rw [g2 hlt] at h; cases h
    · exact hge
  · exact g1

/-- `clone_data` fails on a value whose tree unfolding exceeds the limit -/
theorem cloneData_limit {s : Store} {a T : Nat} (hf : Fits s) (hT : TreeCount s.cells a T)
    (h : cloneLimit s < T) : Store.cloneData s a = .err .data := by
  simp [Store.cloneData, (createIndexStack_limit hf hT).2 h, bind, Outcome.bind]

/-! ### a computable tree count -/

def sumOpt : List (Option Nat) → Option Nat
  | [] => some 0
  | none :: _ => none
  | some n :: rest => (sumOpt rest).map (n + ·)

/-- the tree size with fuel (`none`: cyclic, deeper than the fuel, or a malformed cell) -/
def treeCount (cells : Array Cell) : Nat → Nat → Option Nat
  | 0, _ => none
  | fuel + 1, a =>
    match pushedKids cells a with
    | none => none
    | some ks => (sumOpt (ks.map (treeCount cells fuel))).map (· + 1)

theorem treeCount_sound {cells : Array Cell} : ∀ (fuel a n : Nat), treeCount cells fuel a = some n → TreeCount cells a n
  | 0, _, _, h => by simp [treeCount] at h
  | fuel + 1, a, n, h => by
    simp only [treeCount] at h
    cases hk : pushedKids cells a with
    | none => simp [hk] at h
    | some ks =>
      rw [hk] at h
      simp only [Option.map_eq_some_iff] at h
      obtain ⟨m, hm, rfl⟩ := h
      have : ∀ (l : List Nat) (m : Nat), sumOpt (l.map (treeCount cells fuel)) = some m → TreeCounts cells l m := by
        intro l
        induction l with
        | nil => intro m hm; simp [sumOpt] at hm; subst hm; exact .nil
        | cons x xs ih =>
          intro m hm
          simp only [List.map_cons] at hm
          cases hx : treeCount cells fuel x with
          | none => simp [hx, sumOpt] at hm
          | some nx =>
            rw [hx] at hm
            simp only [sumOpt, Option.map_eq_some_iff] at hm
            obtain ⟨r, hr, rfl⟩ := hm
            exact .cons (treeCount_sound fuel x nx hx) (ih r hr)
      exact .node hk (this ks m hm)

end Garnish.BasicOpt
