/-
Refinement lemmas for C11: the register work-list algorithm of `perform_equality_check`
(Model/Equality.lean) computes the value-level equality `valEq` (Abs/Ops.lean) of the decoded operands
and restores the register stack.
-/
import Garnish.Model.Equality
import Garnish.Abs.Ops
set_option linter.unusedSimpArgs false
set_option linter.unusedVariables false
namespace Garnish.Lemmas.EqualityRefine
open Garnish Gen Garnish.Abs Garnish.Model.Equality

variable {F : Type} (fo : FloatOps F)

/-! ### the Outcome monad -/

@[simp] theorem ok_bind {α β} (a : α) (f : α → Outcome β) : (Outcome.ok a >>= f) = f a := rfl
@[simp] theorem pure_eq_ok {α} (a : α) : (pure a : Outcome α) = .ok a := rfl
@[simp] theorem fetch_some {α} (a : α) : fetch (some a) = .ok a := rfl

/-! ### leaf comparisons -/

theorem symPartEq_eq (a b : SymPart F) : Model.Equality.symPartEq fo a b = Abs.symPartEq fo a b := by
  cases a <;> cases b <;> rfl

theorem cmpIter_nat : ∀ (xs ys : List Nat),
    compareIndexIteratorValues (fun a b => a == b) xs ys = .ok (xs == ys)
  | [], [] => rfl
  | [], _ :: _ => rfl
  | _ :: _, [] => rfl
  | x :: xs, y :: ys => by
    by_cases h : x = y
    · subst h; simp [compareIndexIteratorValues, cmpIter_nat xs ys]
    · simp [compareIndexIteratorValues, h]

theorem cmpIter_sym : ∀ (xs ys : List (SymPart F)),
    compareIndexIteratorValues (Model.Equality.symPartEq fo) xs ys = .ok (symPartsEq fo xs ys)
  | [], [] => rfl
  | [], _ :: _ => rfl
  | _ :: _, [] => rfl
  | x :: xs, y :: ys => by
    cases h : Abs.symPartEq fo x y <;>
      simp [compareIndexIteratorValues, symPartEq_eq, symPartsEq, h, cmpIter_sym xs ys]

theorem cmpListPrim (items : Nat → Option (List Nat)) (getFn : Nat → Option Nat) (la pa : Nat)
    (cs : List Nat) (c : Nat) (h1 : items la = some cs) (h2 : getFn pa = some c) :
    compareListToPrimitive items getFn la pa = .ok (cs == [c]) := by
  unfold compareListToPrimitive
  rw [h1, h2]
  match cs with
  | [] => simp
  | [x] => simp
  | _ :: _ :: _ => simp

theorem list_beq_comm (a b : List Nat) : (a == b) = (b == a) := BEq.comm

theorem Ty_toNat_inj (a b : Ty) : (a.toNat == b.toNat) = (a == b) := by
  cases a <;> cases b <;> rfl

/-! ### decoding facts -/

theorem decodes_typeOf {view : StoreView F} {a : Nat} {v : Val F} (h : Decodes view a v) :
    view.typeOf a = some v.typeOf := by
  cases h <;> simp [Val.typeOf, *]

theorem decodesList_append {view : StoreView F} : ∀ {as bs : List Nat} {xs ys : List (Val F)},
    DecodesList view as xs → DecodesList view bs ys → DecodesList view (as ++ bs) (xs ++ ys)
  | [], _, [], _, _, h2 => h2
  | a :: as, _, x :: xs, _, h1, h2 => by
    cases h1 with
    | cons h h' => exact .cons h (decodesList_append h' h2)
  | [], _, _ :: _, _, h1, _ => by cases h1
  | _ :: _, _, [], _, h1, _ => by cases h1

theorem flatItems_other (v : Val F) (h1 : v.typeOf ≠ .list) (h2 : v.typeOf ≠ .concatenation) :
    flatItems v = [v] := by
  cases v <;> simp_all [flatItems, Val.typeOf]

/-- the concatenation iterator's addresses decode to the flat items of the decoded operand -/
theorem flatOf_decodes {view : StoreView F} {a : Nat} {items : List Nat} (hf : FlatOf view a items) :
    ∀ {v : Val F}, Decodes view a v → DecodesList view items (flatItems v) := by
  induction hf with
  | list ht hi =>
    intro v hv
    have := decodes_typeOf hv
    cases hv <;> simp_all [Val.typeOf, flatItems]
  | concat ht hc _ _ ihl ihr =>
    intro v hv
    have := decodes_typeOf hv
    cases hv <;> simp_all [Val.typeOf, flatItems]
    exact decodesList_append (ihl (by assumption)) (ihr (by assumption))
  | other ht h1 h2 =>
    intro v hv
    have := decodes_typeOf hv
    rw [ht] at this
    have e : _ = v.typeOf := Option.some.inj this
    rw [flatItems_other v (e ▸ h1) (e ▸ h2)]
    exact .cons hv .nil


/-! ### value-level facts about flat items -/

theorem normList_append (xs ys : List (Val F)) : normList (xs ++ ys) = normList xs ++ normList ys := by
  induction xs with
  | nil => simp [normList]
  | cons x xs ih => simp [normList, ih]

theorem normConcat_eq : ∀ (v : Val F), normConcat v = normList (flatItems v)
  | .concat l r => by
    simp only [normConcat, flatItems, normList_append, normConcat_eq l, normConcat_eq r]
  | .list items => by simp [normConcat, flatItems]
  | .unit | .tru | .fls | .num _ | .char _ | .byte _ | .sym _ | .expr _ | .ext _ | .type _ | .chars _
  | .bytes _ | .symList _ | .pair _ _ | .range _ _ | .slice _ _ | .part _ _ | .custom => by
    simp [normConcat, flatItems, normList]

theorem vsizeList_append (xs ys : List (Val F)) : vsizeList (xs ++ ys) = vsizeList xs + vsizeList ys := by
  induction xs with
  | nil => simp [vsizeList]
  | cons x xs ih => simp [vsizeList, ih]; omega

theorem vsizeList_flatItems : ∀ (v : Val F), vsizeList (flatItems v) ≤ vsize v
  | .concat l r => by
    have := vsizeList_flatItems l
    have := vsizeList_flatItems r
    simp only [flatItems, vsizeList_append, vsize]; omega
  | .list items => by simp [flatItems, vsize]
  | .unit | .tru | .fls | .num _ | .char _ | .byte _ | .sym _ | .expr _ | .ext _ | .type _ | .chars _
  | .bytes _ | .symList _ | .pair _ _ | .range _ _ | .slice _ _ | .part _ _ | .custom => by
    simp [flatItems, vsizeList]

theorem noSliceList_append (xs ys : List (Val F)) :
    noSliceList (xs ++ ys) = (noSliceList xs && noSliceList ys) := by
  induction xs with
  | nil => simp [noSliceList]
  | cons x xs ih => simp [noSliceList, ih, Bool.and_assoc]

theorem noSliceList_flatItems : ∀ (v : Val F), noSlice v = true → noSliceList (flatItems v) = true
  | .concat l r, h => by
    simp only [noSlice, Bool.and_eq_true] at h
    simp [flatItems, noSliceList_append, noSliceList_flatItems l h.1, noSliceList_flatItems r h.2]
  | .list items, h => by simpa [flatItems, noSlice] using h
  | .slice _ _, h => by simp [noSlice] at h
  | .pair _ _, h => by simp [flatItems, noSliceList, h]
  | .unit, _ | .tru, _ | .fls, _ | .num _, _ | .char _, _ | .byte _, _ | .sym _, _ | .expr _, _ | .ext _, _
  | .type _, _ | .chars _, _ | .bytes _, _ | .symList _, _ | .range _ _, _ | .part _ _, _ | .custom, _ => by
    simp [flatItems, noSliceList, noSlice]

theorem vsize_pos (v : Val F) : 0 < vsize v := by
  cases v <;> simp [vsize] <;> omega

/-! ### pending work: pairs of addresses above the caller's registers, with the values they denote -/

/-- one pending comparison: `l`/`r` are the addresses, `vl`/`vr` the values they decode to -/
structure Pend (F : Type) where
  l : Nat
  r : Nat
  vl : Val F
  vr : Val F

/-- the registers a list of pending comparisons occupies (first entry on top; right above left) -/
def flat : List (Pend F) → List Nat
  | [] => []
  | p :: ps => p.r :: p.l :: flat ps

def pendSize : List (Pend F) → Nat
  | [] => 0
  | p :: ps => vsize p.vl + vsize p.vr + pendSize ps

def Pend.good (view : StoreView F) (p : Pend F) : Prop :=
  Decodes view p.l p.vl ∧ Decodes view p.r p.vr ∧ NoSlice p.vl ∧ NoSlice p.vr

def pendAll (ps : List (Pend F)) : Bool := ps.all (fun p => valEq fo p.vl p.vr)

theorem flat_append (ps qs : List (Pend F)) : flat (ps ++ qs) = flat ps ++ flat qs := by
  induction ps with
  | nil => rfl
  | cons p ps ih => simp [flat, ih]

theorem pendSize_append (ps qs : List (Pend F)) : pendSize (ps ++ qs) = pendSize ps + pendSize qs := by
  induction ps with
  | nil => simp [pendSize]
  | cons p ps ih => simp [pendSize, ih]; omega

theorem pendAll_append (ps qs : List (Pend F)) : pendAll fo (ps ++ qs) = (pendAll fo ps && pendAll fo qs) := by
  simp [pendAll, List.all_append]

/-- what `push_iterator_values` leaves on the registers: item pairs, the last pushed on top -/
def pendPush (acc : List (Pend F)) : List Nat → List (Val F) → List Nat → List (Val F) → List (Pend F)
  | a :: as, x :: xs, b :: bs, y :: ys => pendPush (⟨a, b, x, y⟩ :: acc) as xs bs ys
  | _, _, _, _ => acc

theorem decodesList_length {view : StoreView F} : ∀ {as : List Nat} {xs : List (Val F)},
    DecodesList view as xs → as.length = xs.length
  | [], [], _ => rfl
  | _ :: _, _ :: _, h => by
    cases h with
    | cons _ h' => simp [decodesList_length h']
  | [], _ :: _, h => by cases h
  | _ :: _, [], h => by cases h

/-- `push_iterator_values` on two decoded item sequences -/
theorem pushIter_spec {view : StoreView F} : ∀ (as : List Nat) (xs : List (Val F)) (bs : List Nat) (ys : List (Val F))
    (acc : List (Pend F)) (regs : List Nat),
    DecodesList view as xs → DecodesList view bs ys →
    pushIteratorValues (flat acc ++ regs) as bs
      = .ok (decide (xs.length = ys.length), flat (pendPush acc as xs bs ys) ++ regs)
  | [], [], [], [], acc, regs, _, _ => by simp [pushIteratorValues, pendPush, matchLastIterValues]
  | [], [], _ :: _, _ :: _, acc, regs, _, _ => by simp [pushIteratorValues, pendPush, matchLastIterValues]
  | _ :: _, _ :: _, [], [], acc, regs, _, _ => by simp [pushIteratorValues, pendPush, matchLastIterValues]
  | a :: as, x :: xs, b :: bs, y :: ys, acc, regs, h1, h2 => by
    cases h1 with
    | cons h1 h1' =>
      cases h2 with
      | cons h2 h2' =>
        have := pushIter_spec as xs bs ys (⟨a, b, x, y⟩ :: acc) regs h1' h2'
        simp only [flat, List.cons_append] at this
        simp [pushIteratorValues, pendPush, this]
  | [], _ :: _, _, _, _, _, h, _ => by cases h
  | _ :: _, [], _, _, _, _, h, _ => by cases h
  | _, _, [], _ :: _, _, _, _, h => by cases h
  | _, _, _ :: _, [], _, _, _, h => by cases h

theorem pendPush_good {view : StoreView F} : ∀ (as : List Nat) (xs : List (Val F)) (bs : List Nat) (ys : List (Val F))
    (acc : List (Pend F)),
    DecodesList view as xs → DecodesList view bs ys → noSliceList xs = true → noSliceList ys = true →
    (∀ p ∈ acc, p.good view) → ∀ p ∈ pendPush acc as xs bs ys, p.good view
  | a :: as, x :: xs, b :: bs, y :: ys, acc, h1, h2, n1, n2, hacc => by
    cases h1 with
    | cons h1 h1' =>
      cases h2 with
      | cons h2 h2' =>
        simp only [noSliceList, Bool.and_eq_true] at n1 n2
        simp only [pendPush]
        apply pendPush_good as xs bs ys _ h1' h2' n1.2 n2.2
        intro p hp
        cases hp with
        | head => exact ⟨h1, h2, n1.1, n2.1⟩
        | tail _ hp => exact hacc p hp
  | [], _, _, _, acc, _, _, _, _, hacc => by simpa [pendPush] using hacc
  | _ :: _, [], _, _, acc, _, _, _, _, hacc => by simpa [pendPush] using hacc
  | _ :: _, _ :: _, [], _, acc, _, _, _, _, hacc => by simpa [pendPush] using hacc
  | _ :: _, _ :: _, _ :: _, [], acc, _, _, _, _, hacc => by simpa [pendPush] using hacc

theorem pendPush_size : ∀ (as : List Nat) (xs : List (Val F)) (bs : List Nat) (ys : List (Val F)) (acc : List (Pend F)),
    pendSize (pendPush acc as xs bs ys) ≤ pendSize acc + vsizeList xs + vsizeList ys
  | a :: as, x :: xs, b :: bs, y :: ys, acc => by
    have := pendPush_size as xs bs ys (⟨a, b, x, y⟩ :: acc)
    simp only [pendPush, pendSize, vsizeList] at this ⊢
    omega
  | [], _, _, _, acc => by simp [pendPush]; omega
  | _ :: _, [], _, _, acc => by simp [pendPush]; omega
  | _ :: _, _ :: _, [], _, acc => by simp [pendPush]; omega
  | _ :: _, _ :: _, _ :: _, [], acc => by simp [pendPush]; omega

/-- the verdict of the length check together with the pending item pairs is the sequence equality -/
theorem pendPush_all {view : StoreView F} : ∀ (as : List Nat) (xs : List (Val F)) (bs : List Nat) (ys : List (Val F))
    (acc : List (Pend F)),
    DecodesList view as xs → DecodesList view bs ys →
    (decide (xs.length = ys.length) && pendAll fo (pendPush acc as xs bs ys))
      = (pendAll fo acc && nvalsEq fo (normList xs) (normList ys))
  | [], [], [], [], acc, _, _ => by simp [pendPush, normList, nvalsEq]
  | [], [], _ :: _, _ :: _, acc, _, _ => by simp [pendPush, normList, nvalsEq]
  | _ :: _, _ :: _, [], [], acc, _, _ => by simp [pendPush, normList, nvalsEq]
  | a :: as, x :: xs, b :: bs, y :: ys, acc, h1, h2 => by
    cases h1 with
    | cons h1 h1' =>
      cases h2 with
      | cons h2 h2' =>
        have := pendPush_all as xs bs ys (⟨a, b, x, y⟩ :: acc) h1' h2'
        simp only [pendPush, normList, nvalsEq, List.length_cons, Nat.add_right_cancel_iff]
        rw [this]
        simp only [pendAll, List.all_cons, valEq]
        cases nvalEq fo (norm x) (norm y) <;> simp
  | [], _ :: _, _, _, _, h, _ => by cases h
  | _ :: _, [], _, _, _, h, _ => by cases h
  | _, _, [], _ :: _, _, _, h => by cases h
  | _, _, _ :: _, [], _, _, h => by cases h


/-! ### one round of `data_equal` -/

set_option maxHeartbeats 2000000 in
theorem rangeEnd_spec {view : StoreView F} {a1 a2 : Nat} {v1 v2 : Val F}
    (h1 : Decodes view a1 v1) (h2 : Decodes view a2 v2) :
    rangeEndEqual fo view a1 a2 = .ok (rangeEndEq fo (norm v1) (norm v2)) := by
  cases h1 <;> cases h2 <;> simp [rangeEndEqual, rangeEndEq, norm, *]

theorem norm_concat (a b : Val F) : norm (.concat a b) = .seq (normList (flatItems a ++ flatItems b)) := by
  simp [norm, normConcat_eq, normList_append]

/-- what one call of `data_equal` on decoded operands does: it returns a partial verdict `b` and pushes
pending comparisons `qs` of strictly smaller total size, such that the value-level equality of the
operands is `b ∧ all pending pairs equal`. -/
def StepSpec (view : StoreView F) (regs : List Nat) (l r : Nat) (vl vr : Val F) : Prop :=
  ∃ (b : Bool) (qs : List (Pend F)),
    dataEqual fo view regs l r = .ok (b, flat qs ++ regs) ∧
    (∀ q ∈ qs, q.good view) ∧
    pendSize qs < vsize vl + vsize vr ∧
    valEq fo vl vr = (b && pendAll fo qs)

/-- an arm that decides on the spot and pushes nothing -/
theorem step_decided {view : StoreView F} {regs : List Nat} {l r : Nat} {vl vr : Val F}
    (h : dataEqual fo view regs l r = .ok (valEq fo vl vr, regs)) : StepSpec fo view regs l r vl vr := by
  refine ⟨valEq fo vl vr, [], by simpa [flat] using h, by simp, ?_, by simp [pendAll]⟩
  have := vsize_pos vl
  simp [pendSize]; omega

/-- an arm that hands two item iterators to `push_iterator_values` -/
theorem step_seq {view : StoreView F} {regs : List Nat} {l r : Nat} {vl vr : Val F}
    {as bs : List Nat} {xs ys : List (Val F)}
    (hde : dataEqual fo view regs l r = pushIteratorValues regs as bs)
    (h1 : DecodesList view as xs) (h2 : DecodesList view bs ys)
    (n1 : noSliceList xs = true) (n2 : noSliceList ys = true)
    (hs : vsizeList xs + vsizeList ys < vsize vl + vsize vr)
    (hv : valEq fo vl vr = nvalsEq fo (normList xs) (normList ys)) : StepSpec fo view regs l r vl vr := by
  refine ⟨decide (xs.length = ys.length), pendPush [] as xs bs ys, ?_, ?_, ?_, ?_⟩
  · rw [hde]; exact pushIter_spec as xs bs ys [] regs h1 h2
  · exact pendPush_good as xs bs ys [] h1 h2 n1 n2 (by simp)
  · have := pendPush_size as xs bs ys ([] : List (Pend F))
    simp only [pendSize] at this
    omega
  · have := pendPush_all fo as xs bs ys [] h1 h2
    rw [this, hv]; simp [pendAll]

set_option hygiene false in
/-- closes the arms that decide without pushing (and the impossible slice operands) -/
macro "eq_decided" : tactic => `(tactic| first
  | (exfalso; simp [NoSlice, noSlice] at nl; done)
  | (exfalso; simp [NoSlice, noSlice] at nr; done)
  | (apply step_decided
     simp [dataEqual, compareNat, valEq, norm, nvalEq, cmpIter_nat, cmpIter_sym, Ty_toNat_inj, *]
     done))

set_option maxHeartbeats 8000000 in
theorem dataEqual_step {view : StoreView F} {l r : Nat} {vl vr : Val F} (regs : List Nat)
    (hl : Decodes view l vl) (hr : Decodes view r vr) (nl : NoSlice vl) (nr : NoSlice vr) :
    StepSpec fo view regs l r vl vr := by
  cases hl with
  | pair ht hp ha hb =>
    cases hr with
    | pair ht' hp' hc hd =>
      rename_i a b va vb c d vc vd
      simp only [NoSlice, noSlice, Bool.and_eq_true] at nl nr
      refine ⟨true, [⟨b, d, vb, vd⟩, ⟨a, c, va, vc⟩], ?_, ?_, ?_, ?_⟩
      · simp [dataEqual, ht, ht', hp, hp', flat]
      · intro q hq
        simp only [List.mem_cons, List.mem_nil_iff, or_false] at hq
        rcases hq with rfl | rfl
        · exact ⟨hb, hd, nl.2, nr.2⟩
        · exact ⟨ha, hc, nl.1, nr.1⟩
      · simp [pendSize, vsize]; omega
      · simp [pendAll, valEq, norm, nvalEq, Bool.and_comm]
    | _ => eq_decided
  | list ht hi hd =>
    cases hr with
    | list ht' hi' hd' =>
      simp only [NoSlice, noSlice] at nl nr
      exact step_seq fo (by simp [dataEqual, ht, ht', hi, hi']) hd hd' nl nr
        (by simp [vsize]; omega) (by simp [valEq, norm, nvalEq])
    | concat ht' hc' hdl hdr hfl hfr hci =>
      simp only [NoSlice, noSlice, Bool.and_eq_true] at nl nr
      rename_i vl' vr' _ _
      have := vsizeList_flatItems vl'
      have := vsizeList_flatItems vr'
      exact step_seq fo (by simp [dataEqual, ht, ht', hi, hci]) hd
        (decodesList_append (flatOf_decodes hfl hdl) (flatOf_decodes hfr hdr)) nl
        (by simp [noSliceList_append, noSliceList_flatItems _ nr.1, noSliceList_flatItems _ nr.2])
        (by simp [vsize, vsizeList_append]; omega) (by simp [valEq, norm_concat, norm, nvalEq])
    | _ => eq_decided
  | concat ht hc hdl hdr hfl hfr hci =>
    rename_i vl' vr' _ _
    have hdec := decodesList_append (flatOf_decodes hfl hdl) (flatOf_decodes hfr hdr)
    have := vsizeList_flatItems vl'
    have := vsizeList_flatItems vr'
    cases hr with
    | list ht' hi' hd' =>
      simp only [NoSlice, noSlice, Bool.and_eq_true] at nl nr
      exact step_seq fo (by simp [dataEqual, ht, ht', hi', hci]) hdec hd'
        (by simp [noSliceList_append, noSliceList_flatItems _ nl.1, noSliceList_flatItems _ nl.2]) nr
        (by simp [vsize, vsizeList_append]; omega) (by simp [valEq, norm_concat, norm, nvalEq])
    | concat ht' hc' hdl' hdr' hfl' hfr' hci' =>
      simp only [NoSlice, noSlice, Bool.and_eq_true] at nl nr
      rename_i vl'' vr'' _ _
      have := vsizeList_flatItems vl''
      have := vsizeList_flatItems vr''
      exact step_seq fo (by simp [dataEqual, ht, ht', hci, hci']) hdec
        (decodesList_append (flatOf_decodes hfl' hdl') (flatOf_decodes hfr' hdr'))
        (by simp [noSliceList_append, noSliceList_flatItems _ nl.1, noSliceList_flatItems _ nl.2])
        (by simp [noSliceList_append, noSliceList_flatItems _ nr.1, noSliceList_flatItems _ nr.2])
        (by simp [vsize, vsizeList_append]; omega) (by simp [valEq, norm_concat, nvalEq])
    | _ => eq_decided
  | range ht hg hs he =>
    cases hr with
    | range ht' hg' hs' he' =>
      apply step_decided
      simp [dataEqual, ht, ht', hg, hg', rangeEnd_spec fo hs hs', rangeEnd_spec fo he he', valEq, norm, nvalEq]
    | _ => eq_decided
  | char ht hc =>
    cases hr with
    | chars ht' hcs =>
      apply step_decided
      simp [dataEqual, ht, ht', cmpListPrim _ _ _ _ _ _ hcs hc, valEq, norm, nvalEq]
      first | done | exact BEq.comm | exact eq_comm | (constructor <;> intro h <;> exact h.symm)
    | _ => eq_decided
  | chars ht hcs =>
    cases hr with
    | char ht' hc =>
      apply step_decided
      simp [dataEqual, ht, ht', cmpListPrim _ _ _ _ _ _ hcs hc, valEq, norm, nvalEq]
    | _ => eq_decided
  | byte ht hc =>
    cases hr with
    | bytes ht' hcs =>
      apply step_decided
      simp [dataEqual, ht, ht', cmpListPrim _ _ _ _ _ _ hcs hc, valEq, norm, nvalEq]
      first | done | exact BEq.comm | exact eq_comm | (constructor <;> intro h <;> exact h.symm)
    | _ => eq_decided
  | bytes ht hcs =>
    cases hr with
    | byte ht' hc =>
      apply step_decided
      simp [dataEqual, ht, ht', cmpListPrim _ _ _ _ _ _ hcs hc, valEq, norm, nvalEq]
    | _ => eq_decided
  | slice => exfalso; simp [NoSlice, noSlice] at nl
  | _ => cases hr <;> eq_decided

/-! ### the work-list loop -/

theorem popTo_append (xs rest : List Nat) : popTo rest.length (xs ++ rest) = rest := by
  induction xs with
  | nil => cases rest <;> simp [popTo]
  | cons x xs ih =>
    have : (x :: (xs ++ rest)).length > rest.length := by simp; omega
    show popTo rest.length (x :: (xs ++ rest)) = rest
    rw [popTo, if_pos this, ih]

/-- invariant of `perform_equality_check`: with pending comparisons `ps` above `rest`, the loop returns
the conjunction of their value-level equalities and leaves exactly `rest` -/
theorem eqLoop_spec {view : StoreView F} (rest : List Nat) : ∀ (fuel : Nat) (ps : List (Pend F)),
    (∀ p ∈ ps, p.good view) → pendSize ps < fuel →
    eqLoop fo view rest.length fuel (flat ps ++ rest) = .ok (pendAll fo ps, rest)
  | 0, _, _, h => by omega
  | fuel + 1, [], _, _ => by simp [eqLoop, flat, pendAll]
  | fuel + 1, p :: ps, hg, hf => by
    obtain ⟨hdl, hdr, nl, nr⟩ := hg p (by simp)
    obtain ⟨b, qs, hde, hq, hsz, hv⟩ := dataEqual_step fo (flat ps ++ rest) hdl hdr nl nr
    have hlen : rest.length < (flat ps ++ rest).length + 1 + 1 := by simp; omega
    simp only [eqLoop, flat, List.cons_append, List.length_cons, gt_iff_lt, hlen, if_true, hde, ok_bind]
    cases b with
    | false =>
      have : pendAll fo (p :: ps) = false := by
        simp only [pendAll, List.all_cons] at hv ⊢
        simp [hv]
      rw [this, ← List.append_assoc, popTo_append]
      rfl
    | true =>
      simp only [pendSize] at hf
      have ih := eqLoop_spec rest fuel (qs ++ ps)
        (by
          intro x hx
          rcases List.mem_append.mp hx with h | h
          · exact hq x h
          · exact hg x (by simp [h]))
        (by rw [pendSize_append]; omega)
      rw [flat_append, List.append_assoc] at ih
      simp only [Bool.not_true, Bool.false_eq_true, if_false]
      rw [ih, pendAll_append]
      simp only [pendAll, List.all_cons] at hv ⊢
      simp [hv]

end Garnish.Lemmas.EqualityRefine
