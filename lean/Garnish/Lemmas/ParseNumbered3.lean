/-
The decidable fragment on which the numbering of the parse result is complete (`frag9N`): the lists of `frag9` without a
trailing blank line before a `}` (decided on the syntax tree the recogniser `exOf` builds: `Ex.garb = 0`), and the three
facts of `WellNumbered` at the level of `parse` / `toTree`.
-/
import Garnish.Lemmas.ParseNumbered1
import Garnish.Lemmas.ParseNumbered2

namespace Garnish.Spec
open Garnish Garnish.Gen Garnish.Model.Parser

/-- `fragF` without trailing blank lines before `}` -/
def fragFN (F : Fl) (toks : List PToken) : Bool :=
  match exOf F toks with
  | some e => e.ok F false && decide (e.toks = toks) && e.garb == 0
  | none => false

theorem fragFN_sound {F : Fl} {toks : List PToken} (h : fragFN F toks = true) :
    ∃ e : Ex, e.ok F false = true ∧ e.toks = toks ∧ e.garb = 0 := by
  unfold fragFN at h
  cases he : exOf F toks with
  | none => simp [he] at h
  | some e =>
    simp only [he, Bool.and_eq_true, decide_eq_true_eq, beq_iff_eq] at h
    exact ⟨e, h.1.1, h.1.2, h.2⟩

theorem fragFN_sub {F : Fl} {toks : List PToken} (h : fragFN F toks = true) : fragF F toks = true := by
  unfold fragFN at h
  unfold fragF
  cases he : exOf F toks with
  | none => simp [he] at h
  | some e =>
    simp only [he, Bool.and_eq_true] at h ⊢
    exact h.1

/-- `expr trivia* ,` without trailing blank lines before `}` -/
def fragTCN (F : Fl) (toks : List PToken) : Bool :=
  match toks.reverse with
  | [] => false
  | k :: r => isCommaTok k && fragFN F (r.dropWhile isTriviaTok).reverse

theorem fragTCN_sub {F : Fl} {toks : List PToken} (h : fragTCN F toks = true) : fragTC F toks = true := by
  unfold fragTCN at h
  unfold fragTC
  cases hr : toks.reverse with
  | nil => rw [hr] at h; cases h
  | cons k r =>
    rw [hr] at h
    simp only [Bool.and_eq_true] at h ⊢
    exact ⟨h.1, fragFN_sub h.2⟩

theorem fragTCN_sound {F : Fl} {toks : List PToken} (h : fragTCN F toks = true) :
    ∃ (e : Ex) (ws1 : List PToken) (k : PToken), e.ok F false = true ∧ e.garb = 0 ∧ (∀ w ∈ ws1, isTriviaTok w = true) ∧
      isCommaTok k = true ∧ toks = e.toks ++ (ws1 ++ [k]) := by
  unfold fragTCN at h
  cases hr : toks.reverse with
  | nil => rw [hr] at h; cases h
  | cons k r =>
    rw [hr] at h
    simp only [Bool.and_eq_true] at h
    obtain ⟨e, hok, he, hg⟩ := fragFN_sound h.2
    refine ⟨e, (r.takeWhile isTriviaTok).reverse, k, hok, hg, ?_, h.1, ?_⟩
    · intro w hw
      rw [List.mem_reverse] at hw
      exact mem_takeWhile_p _ _ _ hw
    · have : toks = (k :: r).reverse := by rw [← hr, List.reverse_reverse]
      rw [this, he]
      have hsplit : r.reverse = (r.dropWhile isTriviaTok).reverse ++ (r.takeWhile isTriviaTok).reverse := by
        rw [← List.reverse_append, List.takeWhile_append_dropWhile]
      simp [hsplit]

/-- `frag9` without a trailing blank line before a `}` -/
def frag9N (toks : List PToken) : Bool := fragFN ⟨true, true, true⟩ toks || fragTCN ⟨true, true, true⟩ toks

/-- **the nodes are numbered in in-order and all of them are in the tree** -/
theorem parse_inorder_range {toks : List PToken} (hf : frag9N toks = true) (hnum : NumberedFrom 0 toks)
    {r : ParseResult} {t : Tree} (hp : parse toks = .ok r) (ht : toTree r = some t) :
    t.inorder = List.range r.nodes.size := by
  unfold frag9N at hf
  rcases Bool.or_eq_true _ _ |>.mp hf with h | h
  · obtain ⟨e, hok, rfl, hg⟩ := fragFN_sound h
    obtain ⟨r', t', h1, h2, h3, h4⟩ := parse_ex_numbered e hok hnum
    rw [hp] at h1; cases h1
    rw [ht] at h2; cases h2
    exact sortedIn_full h3 (by rw [hg] at h4; exact h4)
  · obtain ⟨e, ws1, k, hok, hg, hw1, hk, rfl⟩ := fragTCN_sound h
    obtain ⟨r', t', h1, h2, h3, h4⟩ := parse_ex_comma_numbered e hok ws1 k hw1 hk hnum
    rw [hp] at h1; cases h1
    rw [ht] at h2; cases h2
    exact sortedIn_full h3 (by rw [hg] at h4; exact h4)

/-! ### every token list: the tokens in the nodes, bracket nodes -/

theorem numbered_get : ∀ (toks : List PToken) (k : Nat) (t : PToken), NumberedFrom k toks → t ∈ toks →
    toks[t.col - k]? = some t
  | [], _, _, _, h => by cases h
  | x :: rest, k, t, hn, h => by
    rcases List.mem_cons.mp h with e | e
    · subst e
      have : t.col = k := hn.1
      simp [this]
    · have ih := numbered_get rest (k + 1) t hn.2 e
      have hge : k + 1 ≤ t.col := by
        have := (List.getElem?_eq_some_iff.mp ih).1
        -- from the recursive call the index is in range; positions grow
        exact numbered_ge rest (k + 1) t hn.2 e
      have e2 : t.col - k = (t.col - (k + 1)) + 1 := by omega
      rw [e2, List.getElem?_cons_succ]; exact ih
where
  numbered_ge : ∀ (toks : List PToken) (k : Nat) (t : PToken), NumberedFrom k toks → t ∈ toks → k ≤ t.col
    | [], _, _, _, h => by cases h
    | x :: rest, k, t, hn, h => by
      rcases List.mem_cons.mp h with e | e
      · subst e; exact Nat.le_of_eq hn.1.symm
      · have := numbered_ge rest (k + 1) t hn.2 e; omega

/-- every node of the result carries the input token at its position; a bracket node has no left child -/
theorem parse_nodes_facts {toks : List PToken} (hnum : NumberedFrom 0 toks) {r : ParseResult} (hp : parse toks = .ok r) :
    ∀ (i : Nat) (n : ParseNode), r.nodes[i]? = some n →
      toks[n.lexToken.col]? = some n.lexToken ∧ (Num.isBr n.definition = true → n.left = none) := by
  have := Num.parse_lgood (fun t => toks[t.col]? = some t) toks (fun t ht => by
    have := numbered_get toks 0 t hnum ht
    simpa using this)
  rw [hp] at this
  exact this

/-- in a tree read off a node array whose bracket nodes have no left child, bracket nodes have no left subtree -/
theorem bracket_left_nil {nodes : Array ParseNode} (hb : ∀ (i : Nat) (n : ParseNode), nodes[i]? = some n →
      Num.isBr n.definition = true → n.left = none) :
    ∀ {p link : Option Nat} {t : Tree}, IsTreeAt nodes p link t →
      ∀ l i k rt, t = .node l i k rt → Num.isBr (dfOf nodes i) = true → l = .nil := by
  intro p link t h
  cases h with
  | nil => intro l i k rt e; cases e
  | node p i n l r hn hp hl hr =>
    intro l' i' k' rt' e hbr
    cases e
    have hd : dfOf nodes i = n.definition := by simp [dfOf, hn]
    rw [hd] at hbr
    have := hb i n hn hbr
    rw [this] at hl
    cases hl
    rfl

end Garnish.Spec
