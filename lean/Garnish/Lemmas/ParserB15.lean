/-
Implicit space lists, part 1 (model side).  Whitespace after a value or a closed bracket sets `check_for_list`; the first
token of the next operand (a value, a prefix operator or an opening bracket) then first inserts a `List` node (priority 220,
token = the token just before) exactly like a binary operator, and is itself processed as if that operator had just been
read: `listState` is the state "after the List operator", and the three step lemmas say that the list-mode step equals the
ordinary step from `listState`.
-/
import Garnish.Lemmas.ParserB21

namespace Garnish.Spec
open Garnish Garnish.Gen Garnish.Model.Parser

theorem prio10_not_bracket {d : Definition} (h : priority d = some 10) : isBracketDef d = false := by
  revert h; cases d <;> decide

/-! ### trivia after a value or a closed bracket -/

/-- the state after a trivia token that follows a value or a closed bracket -/
def trivSt (st : PState) (w : PToken) : PState :=
  { st with checkForList := (if w.type == .whitespace then true else st.checkForList),
            previousSecondDef := (getDefinition w.type).2, lastToken := w }

/-- a trivia token after a value or a closed bracket: whitespace sets the list flag -/
theorem step_triviaU_ready {st : PState} {ug p : Option Nat} {base : Nat} {E : Tree} {re cb : Nat}
    (hinv : UInv st ug p base E re cb) (hr : Ready st) (w : PToken) (il : Bool) (hw : isTriviaTok w = true) :
    step st w il = .ok (trivSt st w) := by
  have hadj := hinv.adjust
  have hug := hinv.hug
  have hnl := hinv.nnl
  obtain ⟨i, n, hl, hn, hcnd⟩ := hinv.ready_cond hr
  unfold isTriviaTok at hw
  have hcases : w.type = .whitespace ∨ w.type = .annotation ∨ w.type = .lineAnnotation := by
    simp only [Bool.or_eq_true, beq_iff_eq] at hw
    rcases hw with (h | h) | h
    · exact Or.inl h
    · exact Or.inr (Or.inl h)
    · exact Or.inr (Or.inr h)
  unfold step trivSt
  simp only [hug, Outcome.bind, hadj]
  rcases hcases with h | h | h
  · rw [h]
    simp only [getDefinition, (checkComposition_trivia _ _).1, Bool.not_true, Bool.false_eq_true, if_false, dispatch,
      setupSpaceListCheck, hl, hn, hcnd, if_true, Outcome.bind, pushNode, bne_self_eq_false]
    simp [hnl]
  · rw [h]
    simp only [getDefinition, (checkComposition_trivia _ _).2, Bool.not_true, Bool.false_eq_true, if_false, dispatch,
      Outcome.bind, pushNode, bne_self_eq_false]
    simp [hl, hnl]
  · rw [h]
    simp only [getDefinition, (checkComposition_trivia _ _).2, Bool.not_true, Bool.false_eq_true, if_false, dispatch,
      Outcome.bind, pushNode, bne_self_eq_false]
    simp [hl, hnl]

theorem getD_getLast_cons {α : Type} (a : α) (l : List α) (x y : α) :
    ((a :: l).getLast?).getD x = ((a :: l).getLast?).getD y := by
  rw [List.getLast?_eq_some_getLast (List.cons_ne_nil a l)]; rfl

theorem getD_map_getLast_cons {α β : Type} (f : α → β) (a : α) (l : List α) (x y : β) :
    (((a :: l).getLast?).map f).getD x = (((a :: l).getLast?).map f).getD y := by
  rw [List.getLast?_eq_some_getLast (List.cons_ne_nil a l)]; rfl

/-- a run of trivia tokens with at least one whitespace token (or the list flag already set) after a value or a closed
    bracket: the list flag is set, `last_token` is the last token of the run -/
theorem trivia_runU_ws {ug p : Option Nat} {base : Nat} {E : Tree} {re cb : Nat} :
    ∀ (ws : List PToken) (st : PState) (rest : List PToken), UInv st ug p base E re cb → Ready st →
    (∀ w ∈ ws, isTriviaTok w = true) → (st.checkForList = true ∨ ∃ w ∈ ws, w.type = .whitespace) →
    ∃ st', loop st (ws ++ rest) = loop st' rest ∧ UInv st' ug p base E re cb ∧ st'.nodes = st.nodes ∧
      st'.groupStack = st.groupStack ∧ st'.currentGroup = st.currentGroup ∧ st'.checkForList = true ∧
      st'.lastLeft = st.lastLeft ∧ st'.lastToken = (ws.getLast?).getD st.lastToken ∧
      st'.previousSecondDef = ((ws.getLast?).map (fun w => (getDefinition w.type).2)).getD st.previousSecondDef
  | [], st, _, h, _, _, hc => by
    refine ⟨st, rfl, h, rfl, rfl, rfl, ?_, rfl, rfl, rfl⟩
    rcases hc with hc | ⟨w, hw, _⟩
    · exact hc
    · cases hw
  | w :: ws, st, rest, h, hr, hws, hc => by
    have hw := hws w (List.mem_cons_self ..)
    have hstep := step_triviaU_ready h hr w (ws ++ rest).isEmpty hw
    have hr' : Ready (trivSt st w) := hr
    have hc' : (trivSt st w).checkForList = true ∨ ∃ w' ∈ ws, w'.type = .whitespace := by
      show (if w.type == .whitespace then true else st.checkForList) = true ∨ _
      rcases hc with hc | ⟨w', hw', hwt⟩
      · left; split <;> simp [hc]
      · rcases List.mem_cons.mp hw' with e | e
        · subst e; left; simp [hwt]
        · exact Or.inr ⟨w', e, hwt⟩
    obtain ⟨st', h1, h2, h3, h4, h5, h6, h7, h8, h9⟩ :=
      trivia_runU_ws ws (trivSt st w) rest (h.trivia _ w hw) hr' (fun x hx => hws x (List.mem_cons_of_mem _ hx)) hc'
    refine ⟨st', ?_, h2, h3, h4, h5, h6, h7, ?_, ?_⟩
    · simp only [List.cons_append, loop]
      rw [hstep]
      simp only [Outcome.bind]
      exact h1
    · rw [h8]
      cases ws with
      | nil => rfl
      | cons w2 ws2 => rw [List.getLast?_cons_cons]; exact getD_getLast_cons _ _ _ _
    · rw [h9]
      cases ws with
      | nil => rfl
      | cons w2 ws2 => rw [List.getLast?_cons_cons]; exact getD_map_getLast_cons _ _ _ _ _

end Garnish.Spec
