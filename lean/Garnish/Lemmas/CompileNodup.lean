/-
The technical condition `distinct` of `WFProgram` discharged: the roots that the layout loop lays out have pairwise
distinct jump entries — for every program. (`emit` gives every root it pushes a jump entry of its own.)
-/
import Garnish.Lemmas.CompileDepth9
namespace Garnish.Abs
open Garnish Gen Garnish.Spec

variable {F : Type}

def pats (l : List (Root F)) : List Nat := l.map (·.patch)

theorem nodup_reverse' {α : Type} {l : List α} (h : l.Nodup) : l.reverse.Nodup := by
  rw [List.Nodup, List.pairwise_reverse]
  exact h.imp (fun hab => fun e => hab e.symm)

theorem nodup_middle' {α : Type} {l1 l2 : List α} {a : α} (h1 : (l1 ++ l2).Nodup) (h2 : a ∉ l1 ++ l2) :
    (l1 ++ a :: l2).Nodup := by
  rw [List.nodup_append] at h1 ⊢
  obtain ⟨x, y, z⟩ := h1
  simp only [List.mem_append, not_or] at h2
  refine ⟨x, List.nodup_cons.2 ⟨h2.2, y⟩, fun p hp q hq => ?_⟩
  simp only [List.mem_cons] at hq
  rcases hq with rfl | hq
  · exact fun e => h2.1 (e ▸ hp)
  · exact z p hp q hq

theorem nodup_cons_lt {l : List (Root F)} {r : Root F} (h : (pats l).Nodup) (hlt : ∀ q ∈ l, q.patch < r.patch) :
    (pats (r :: l)).Nodup := by
  simp only [pats, List.map_cons, List.nodup_cons]
  refine ⟨fun hm => ?_, h⟩
  obtain ⟨q, hq, he⟩ := List.mem_map.1 hm
  have := hlt q hq
  omega

theorem condTail_nodup {cur : Nat} {b : Bool} {t : Expr F} {s1 : LState F} (hp : PendOK s1) (h : (pats s1.pending).Nodup) :
    (pats (condTail cur b t s1).pending).Nodup := by
  simp only [condTail, pushJump_pending, pushRoot_pending, push_pending]
  exact nodup_cons_lt h (fun q hq => hp q hq)

theorem logicalTail_nodup {cur : Nat} {i : Instruction} {r : Expr F} {s1 : LState F} (hp : PendOK s1)
    (h : (pats s1.pending).Nodup) : (pats (logicalTail cur i r s1).pending).Nodup := by
  simp only [logicalTail, pushJump_pending, pushRoot_pending, push_pending]
  exact nodup_cons_lt h (fun q hq => hp q hq)

theorem pats_armRoots (cur join : Nat) (items : List (Expr F × Nat)) :
    pats (armRoots cur join items) = (items.map (·.2)).reverse := by
  simp [pats, armRoots, List.map_reverse, Function.comp_def]

theorem finishChain_nodup {cur : Nat} {s2 : LState F} {items : List (Expr F × Nat)}
    (h : (pats s2.pending ++ items.map (·.2)).Nodup) : (pats (finishChain cur s2 items).pending).Nodup := by
  cases items with
  | nil => simp only [finishChain]; simpa using h
  | cons it its =>
    simp only [finishChain]
    show (pats (armRoots cur s2.jumps.size (it :: its) ++ s2.pending)).Nodup
    rw [pats, List.map_append]
    change (pats (armRoots cur s2.jumps.size (it :: its)) ++ pats s2.pending).Nodup
    rw [pats_armRoots]
    rw [List.nodup_append] at h ⊢
    obtain ⟨h1, h2, h3⟩ := h
    refine ⟨nodup_reverse' h2, h1, fun a ha b hb => ?_⟩
    exact fun e => h3 b hb a (List.mem_reverse.1 ha) e.symm

mutual
theorem emit_nodup (root cur : Nat) : ∀ (e : Expr F) (s : LState F), cur < s.jumps.size → PendOK s →
    (pats s.pending).Nodup → (pats (emit root cur e s).pending).Nodup
  | .lit v, s, _, _, h => by simp only [emit, pushConst_pending, push_pending]; exact h
  | .input, s, _, _, h => by simp only [emit, pushConst_pending, push_pending]; exact h
  | .ident sym, s, _, _, h => by simp only [emit, pushConst_pending, push_pending]; exact h
  | .emptyNested, s, _, _, h => by simp only [emit, pushConst_pending, push_pending]; exact h
  | .nested id, s, _, hp, h => by
    simp only [emit, pushRoot_pending, pushConst_pending, pushJump_pending]
    exact nodup_cons_lt h (fun q hq => hp q hq)
  | .unary op x, s, hc, hp, h => by simp only [emit, push_pending]; exact emit_nodup root cur x s hc hp h
  | .binary op l r, s, hc, hp, h => by
    simp only [emit, push_pending]
    obtain ⟨p1, _⟩ := emit_pre root cur l s hc
    exact emit_nodup root cur r _ (by have := p1.jsize; omega) (hp.of_pre p1) (emit_nodup root cur l s hc hp h)
  | .pair l r, s, hc, hp, h => by
    simp only [emit, push_pending]
    obtain ⟨p1, _⟩ := emit_pre root cur r s hc
    exact emit_nodup root cur l _ (by have := p1.jsize; omega) (hp.of_pre p1) (emit_nodup root cur r s hc hp h)
  | .applyTo x f, s, hc, hp, h => by
    simp only [emit, push_pending]
    obtain ⟨p1, _⟩ := emit_pre root cur f s hc
    exact emit_nodup root cur x _ (by have := p1.jsize; omega) (hp.of_pre p1) (emit_nodup root cur f s hc hp h)
  | .list items, s, hc, hp, h => by
    simp only [emit, push_pending]; exact emitList_nodup root cur items s hc hp h
  | .cond onTrue c t, s, hc, hp, h => by
    simp only [emit]
    obtain ⟨p1, _⟩ := emit_pre root cur c s hc
    exact condTail_nodup (hp.of_pre p1) (emit_nodup root cur c s hc hp h)
  | .and l r, s, hc, hp, h => by
    simp only [emit]
    obtain ⟨p1, _⟩ := emit_pre root cur l s hc
    exact logicalTail_nodup (hp.of_pre p1) (emit_nodup root cur l s hc hp h)
  | .or l r, s, hc, hp, h => by
    simp only [emit]
    obtain ⟨p1, _⟩ := emit_pre root cur l s hc
    exact logicalTail_nodup (hp.of_pre p1) (emit_nodup root cur l s hc hp h)
  | .seq a b, s, hc, hp, h => by
    simp only [emit]
    obtain ⟨p1, _⟩ := emit_pre root cur a s hc
    exact emit_nodup root cur b _ (by have := p1.jsize; simp; omega)
      (by intro q hq; have := (hp.of_pre p1) q (by simpa using hq); simpa using this)
      (by simpa using emit_nodup root cur a s hc hp h)
  | .sideAfter x b, s, hc, hp, h => by
    simp only [emit, push_pending]
    obtain ⟨p1, _⟩ := emit_pre root cur x s hc
    exact emit_nodup root cur b _ (by have := p1.jsize; simp; omega)
      (by intro q hq; have := (hp.of_pre p1) q (by simpa using hq); simpa using this)
      (by simpa using emit_nodup root cur x s hc hp h)
  | .reapply x, s, hc, hp, h => by simp only [emit, push_pending]; exact emit_nodup root cur x s hc hp h
  | .prefixApply sym x, s, hc, hp, h => by
    simp only [emit, push_pending]
    exact emit_nodup root cur x _ (by simpa using hc) (by intro q hq; simpa using hp q (by simpa using hq)) (by simpa using h)
  | .suffixApply x sym, s, hc, hp, h => by
    simp only [emit, push_pending]
    exact emit_nodup root cur x _ (by simpa using hc) (by intro q hq; simpa using hp q (by simpa using hq)) (by simpa using h)
  | .infixApply a sym b, s, hc, hp, h => by
    simp only [emit, push_pending]
    have c0 : cur < (s.pushConst .resolve (.sym sym)).jumps.size := by simpa using hc
    have hp0 : PendOK (s.pushConst .resolve (.sym sym)) := by intro q hq; simpa using hp q (by simpa using hq)
    obtain ⟨p1, _⟩ := emit_pre root cur a _ c0
    exact emit_nodup root cur b _ (by have := p1.jsize; omega) (hp0.of_pre p1)
      (emit_nodup root cur a _ c0 hp0 (by simpa using h))
  | .chain arms none, s, hc, hp, h => by
    simp only [emit]
    refine finishChain_nodup ?_
    have := emitArms_nodup root cur arms s hc hp h
    cases arms with
    | nil => simpa [chainNoFinal, emitArms] using this
    | cons a as => simpa [chainNoFinal] using this
  | .chain arms (some e), s, hc, hp, h => by
    simp only [emit]
    refine finishChain_nodup ?_
    obtain ⟨p1, _, ok1⟩ := emitArms_pre root cur arms s hc
    have c1 : cur < (emitArms root cur arms s).1.jumps.size := by have := p1.jsize; omega
    obtain ⟨p2, _⟩ := emit_pre root cur e _ c1
    have hA := emitArms_nodup root cur arms s hc hp h
    rw [List.nodup_append] at hA ⊢
    obtain ⟨hA1, hA2, hA3⟩ := hA
    refine ⟨emit_nodup root cur e _ c1 (hp.of_pre p1) hA1, hA2, fun a ha b hb => ?_⟩
    obtain ⟨q, hq, rfl⟩ := List.mem_map.1 ha
    obtain ⟨it, hit, rfl⟩ := List.mem_map.1 hb
    rcases p2.pend q hq with h' | ⟨h', _⟩
    · exact hA3 _ (List.mem_map.2 ⟨q, h', rfl⟩) _ (List.mem_map.2 ⟨it, hit, rfl⟩)
    · have := (ok1 it hit).2; omega

theorem emitList_nodup (root cur : Nat) : ∀ (items : List (Expr F)) (s : LState F), cur < s.jumps.size → PendOK s →
    (pats s.pending).Nodup → (pats (emitList root cur items s).pending).Nodup
  | [], s, _, _, h => by simpa only [emitList] using h
  | x :: xs, s, hc, hp, h => by
    simp only [emitList]
    obtain ⟨p1, _⟩ := emit_pre root cur x s hc
    exact emitList_nodup root cur xs _ (by have := p1.jsize; omega) (hp.of_pre p1) (emit_nodup root cur x s hc hp h)

theorem emitArms_nodup (root cur : Nat) : ∀ (arms : List (Bool × Expr F × Expr F)) (s : LState F), cur < s.jumps.size →
    PendOK s → (pats s.pending).Nodup →
    (pats (emitArms root cur arms s).1.pending ++ (emitArms root cur arms s).2.map (·.2)).Nodup
  | [], s, _, _, h => by simpa only [emitArms, List.map_nil, List.append_nil] using h
  | (b, c, t) :: rest, s, hc, hp, h => by
    simp only [emitArms, List.map_cons]
    obtain ⟨p1, _⟩ := emit_pre root cur c s hc
    have j1 := p1.jsize
    have hp1 := hp.of_pre p1
    have ca : cur < (((emit root cur c s).pushJump 0).push (jumpIf b) (some (emit root cur c s).jumps.size)).jumps.size := by
      simp; omega
    have hpa : PendOK (((emit root cur c s).pushJump 0).push (jumpIf b) (some (emit root cur c s).jumps.size)) := by
      intro q hq; have := hp1 q (by simpa using hq); simp; omega
    obtain ⟨p2, _, ok2⟩ := emitArms_pre root cur rest _ ca
    have ih := emitArms_nodup root cur rest _ ca hpa (by simpa using emit_nodup root cur c s hc hp h)
    refine nodup_middle' ih (fun hm => ?_)
    simp only [List.mem_append] at hm
    rcases hm with hm | hm
    · obtain ⟨q, hq, he⟩ := List.mem_map.1 hm
      rcases p2.pend q hq with h' | ⟨h', _⟩
      · have := hp1 q (by simpa using h'); omega
      · simp at h'; omega
    · obtain ⟨it, hit, he⟩ := List.mem_map.1 hm
      have := (ok2 it hit).1
      simp at this; omega
end

section loop
variable (bodies : List (Nat × Expr F))

/-- the jump entries of the roots pending and laid out are pairwise distinct and allocated -/
structure NInv (s : LState F) : Prop where
  nodup : (pats (s.pending ++ s.done)).Nodup
  done : ∀ q ∈ s.done, q.patch < s.jumps.size

theorem layoutRoot_ninv {s : LState F} {r : Root F} {rest : List (Root F)} (inv : Inv s) (n : NInv s) (hp : s.pending = r :: rest) :
    NInv (layoutRoot bodies r { s with pending := rest }) := by
  have hr_mem : r ∈ s.pending := by rw [hp]; exact List.mem_cons_self
  have hrest : ∀ q ∈ rest, q ∈ s.pending := fun q hq => by rw [hp]; exact List.mem_cons_of_mem _ hq
  rw [layoutRoot_eq]
  simp only
  generalize hs1 : LState.mk s.instrs (s.jumps.setIfInBounds r.patch s.instrs.size) s.consts rest (r :: s.done)
    s.depths (s.pendDep.headD 0) s.pendDep.tail = s1
  have s1_jsize : s1.jumps.size = s.jumps.size := by rw [← hs1]; simp
  have s1_pending : s1.pending = rest := by rw [← hs1]
  have s1_done : s1.done = r :: s.done := by rw [← hs1]
  have hp1 : PendOK s1 := fun q hq => by rw [s1_pending] at hq; rw [s1_jsize]; exact inv.pend q (hrest q hq)
  have hcont1 : r.containing < s1.jumps.size := by rw [s1_jsize]; exact inv.cont r hr_mem
  have hn0 := n.nodup
  rw [hp, pats, List.map_append, List.map_cons, List.nodup_append] at hn0
  obtain ⟨hn1, hn2, hn3⟩ := hn0
  have hrestN : (pats s1.pending).Nodup := by rw [s1_pending]; exact (List.nodup_cons.1 hn1).2
  generalize hs2 : bodyState bodies r s1 = s2
  have hb : Pre s1 s2 ∧ (pats s2.pending).Nodup := by
    rw [← hs2]
    simp only [bodyState]
    cases rootBody bodies r with
    | none => exact ⟨.refl s1, hrestN⟩
    | some b => exact ⟨(emit_pre r.patch r.containing b s1 hcont1).1, emit_nodup r.patch r.containing b s1 hcont1 hp1 hrestN⟩
  obtain ⟨p12, hn2'⟩ := hb
  have pT := addTerms_pre s.instrs.size s2.instrs.back? r.term s2
  have p1' := p12.trans pT
  have hpend : (addTerms s.instrs.size s2.instrs.back? r.term s2).pending = s2.pending := by
    have : ∀ (terms : List Instr) (u : LState F), (addTerms s.instrs.size s2.instrs.back? terms u).pending = u.pending := by
      intro terms
      induction terms with
      | nil => intro u; rfl
      | cons t ts ih => intro u; simp only [addTerms]; split <;> simp [ih]
    exact this _ _
  refine ⟨?_, fun q hq => ?_⟩
  · rw [hpend, p1'.done, s1_done, pats, List.map_append, List.nodup_append]
    refine ⟨hn2', ?_, fun a ha b hb => ?_⟩
    · rw [List.map_cons, List.nodup_cons]
      refine ⟨fun hm => ?_, hn2⟩
      exact hn3 r.patch (by simp) r.patch hm rfl
    · obtain ⟨q, hq, rfl⟩ := List.mem_map.1 ha
      simp only [List.map_cons, List.mem_cons] at hb
      rcases p12.pend q hq with h' | ⟨h', _⟩
      · rw [s1_pending] at h'
        rcases hb with rfl | hb
        · intro e
          have := (List.nodup_cons.1 hn1).1
          exact this (List.mem_map.2 ⟨q, h', e⟩)
        · exact hn3 q.patch (by simp only [List.map_cons, List.mem_cons]; exact .inr (List.mem_map.2 ⟨q, h', rfl⟩)) b hb
      · rcases hb with rfl | hb
        · have := inv.pend r hr_mem; omega
        · obtain ⟨q', hq', rfl⟩ := List.mem_map.1 hb
          have := n.done q' hq'; omega
  · rw [p1'.done, s1_done] at hq
    have := p1'.jsize
    simp only [List.mem_cons] at hq
    rcases hq with rfl | hq
    · have := inv.pend q hr_mem; omega
    · have := n.done q hq; omega

theorem layoutRoots_ninv : ∀ (fuel : Nat) (s : LState F), Inv s → NInv s → NInv (layoutRoots bodies fuel s)
  | 0, s, _, n => n
  | fuel + 1, s, inv, n => by
    cases hp : s.pending with
    | nil => simp only [layoutRoots, hp]; exact n
    | cons r rest =>
      simp only [layoutRoots, hp]
      obtain ⟨inv', _⟩ := layoutRoot_facts bodies inv hp
      exact layoutRoots_ninv fuel _ inv' (layoutRoot_ninv bodies inv n hp)

end loop

end Garnish.Abs
