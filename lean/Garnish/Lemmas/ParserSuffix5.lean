/-
Suffix operators, part 5: parse-level theorem `parse_sitems` and the decidable recogniser `frag3` of
  (prefix* value suffix*) (trivia* binop trivia* prefix* value suffix*)*.
-/
import Garnish.Lemmas.ParserSuffix4

namespace Garnish.Spec
open Garnish Garnish.Gen Garnish.Model.Parser

theorem composition_finalS (s : SecDef) (h : s = .value ∨ s = .identifier ∨ s = .unarySuffix) :
    checkComposition s .none false = true := by
  rcases h with rfl | rfl | rfl <;> rfl

theorem finish_S {stF : PState} {TF : Tree} {rtF : Nat} (hinvF : SInv stF TF rtF) :
    ∃ r, finish stF = .ok r ∧ toTree r = some TF ∧ r.nodes = stF.nodes := by
  have hnd : TF.inorder.Nodup := by rw [hinvF.inord]; exact List.nodup_range
  have h0mem : 0 ∈ TF.inorder := by rw [hinvF.inord]; exact List.mem_range.mpr hinvF.pos
  have hsome : ∃ nd0, stF.nodes[0]? = some nd0 := by
    cases hnd0 : stF.nodes[0]? with
    | none => rw [Array.getElem?_eq_none_iff] at hnd0; have := hinvF.pos; omega
    | some nd => exact ⟨nd, rfl⟩
  obtain ⟨nd0, hnd0⟩ := hsome
  have hne : stF.nodes.isEmpty = false := by
    have := hinvF.pos
    cases hsz : stF.nodes.isEmpty with
    | false => rfl
    | true =>
      have h2 : stF.nodes = #[] := by simpa using hsz
      rw [h2] at this; simp at this
  refine ⟨{ root := rtF, nodes := stF.nodes }, ?_, ?_, rfl⟩
  · unfold finish
    rw [hinvF.cfl, composition_finalS _ hinvF.prev, hinvF.gs]
    simp only [Bool.not_true, Bool.false_eq_true, if_false, hne,
      show (#[] : Array (Nat × Bool)).isEmpty = true from rfl, hnd0, rootLoop_ok hinvF.tree hnd 0 nd0 h0mem hnd0,
      Outcome.bind]
  · rw [toTree_some_iff]
    refine ⟨?_, hnd⟩
    simp only [rootLink, hne, Bool.false_eq_true, if_false]
    exact hinvF.tree

theorem suffix_not_trimmable {s : PToken} (hs : isSuffixTok s = true) : isTrimmable s = false := by
  unfold isSuffixTok at hs
  unfold isTrimmable
  revert hs
  cases s.type <;> simp [getDefinition]

theorem last_nt : ∀ (items : List SItem) (x : PToken) (sufs : List PToken), isTrimmable x = false →
    (∀ s ∈ sufs, isTrimmable s = false) → (∀ it ∈ items, it.ok) →
    isTrimmable ((x :: (sufs ++ flatDecS items)).getLast (by simp)) = false
  | [], x, sufs, hx, hs, _ => by
    have hall : ∀ y ∈ x :: (sufs ++ flatDecS []), isTrimmable y = false := by
      intro y hy
      simp only [flatDecS, List.append_nil, List.mem_cons] at hy
      rcases hy with h | h
      · rw [h]; exact hx
      · exact hs _ h
    exact hall _ (List.getLast_mem _)
  | sit :: items, x, sufs, _, _, hoks => by
    obtain ⟨hok, hsufs⟩ := hoks sit (List.mem_cons_self ..)
    have ih := last_nt items sit.item.atom sit.sufs (atom10_not_trimmable hok.2.2.2.2)
      (fun s hs => suffix_not_trimmable (hsufs s hs)) (fun y hy => hoks y (List.mem_cons_of_mem _ hy))
    have e : x :: (sufs ++ flatDecS (sit :: items)) =
        (x :: (sufs ++ (sit.item.ws1 ++ sit.item.op :: (sit.item.ws2 ++ sit.item.pre)))) ++
          (sit.item.atom :: (sit.sufs ++ flatDecS items)) := by
      simp [flatDecS, SItem.dec, OItem.dec]
    simp only [e]
    rw [List.getLast_append_of_ne_nil _ (by simp)]
    exact ih

/-- **stage 3, items form**: acceptance, proper tree, reference tree -/
theorem parse_sitems (pre0 : List PToken) (a0 : PToken) (sufs0 : List PToken) (items : List SItem)
    (hpre0 : ∀ p ∈ pre0, isPrefixTok p = true) (ha0 : isAtom10 a0 = true) (hsufs0 : ∀ s ∈ sufs0, isSuffixTok s = true)
    (hoks : ∀ it ∈ items, it.ok) (hnum : NumberedFrom 0 (pre0 ++ a0 :: (sufs0 ++ flatDecS items))) :
    ∃ r t, parse (pre0 ++ a0 :: (sufs0 ++ flatDecS items)) = .ok r ∧ toTree r = some t ∧
      refParse Table.gen (pre0 ++ a0 :: (sufs0 ++ flatDecS items)) = .ok (toRd (dfOf r.nodes) t) := by
  have hne : pre0 ++ a0 :: (sufs0 ++ flatDecS items) ≠ [] := by simp
  have hhead : isTrimmable ((pre0 ++ a0 :: (sufs0 ++ flatDecS items)).head hne) = false := by
    cases pre0 with
    | nil => exact atom10_not_trimmable ha0
    | cons p ps => exact prefix_not_trimmable (hpre0 p (List.mem_cons_self ..))
  have hlast : isTrimmable ((pre0 ++ a0 :: (sufs0 ++ flatDecS items)).getLast hne) = false := by
    rw [List.getLast_append_of_ne_nil _ (by simp)]
    exact last_nt items a0 sufs0 (atom10_not_trimmable ha0) (fun s hs => suffix_not_trimmable (hsufs0 s hs)) hoks
  obtain ⟨htrim, hts, htr⟩ := trim_id _ hne hhead hlast
  obtain ⟨st0, hloop0, hinv0, href0⟩ := first_operand pre0 a0 (sufs0 ++ flatDecS items) hpre0 ha0 hnum
  have hnum' : NumberedFrom (pre0.length + 1) (sufs0 ++ flatDecS items) := by
    have := numbered_append pre0 (a0 :: (sufs0 ++ flatDecS items)) 0 hnum
    rw [Nat.zero_add] at this
    exact this.2
  obtain ⟨st1, T1, rt1, f1, hl1, hinv1, href1, hlast1, hcur1⟩ := suffix_loop sufs0 st0 _ 0
    { Frame.top with cur := toRd (dfOf st0.nodes) (chainTree 0 (pre0.map (·.col)) a0.col), last := .operand }
    (pre0.length + 1) (flatDecS items) hinv0.toS (Or.inl rfl) rfl hsufs0 hnum'
  have hnum'' : NumberedFrom (pre0.length + 1 + sufs0.length) (flatDecS items) := numbered_append _ _ _ hnum'
  obtain ⟨stF, TF, rtF, hlF, hinvF, hrefF⟩ := frag_loop_sitems items st1 T1 rt1 f1 (pre0.length + 1 + sufs0.length)
    hinv1 hlast1 hcur1 hoks hnum''
  obtain ⟨r, hr, ht, hn⟩ := finish_S hinvF
  refine ⟨r, TF, ?_, ht, ?_⟩
  · unfold parse
    rw [htrim]
    have he : (pre0 ++ a0 :: (sufs0 ++ flatDecS items)).isEmpty = false := by cases pre0 <;> rfl
    simp only [Outcome.bind, he, Bool.false_eq_true, if_false, hloop0, hl1, hlF, hr]
  · have href : refParse Table.gen (pre0 ++ a0 :: (sufs0 ++ flatDecS items)) =
        refLoop Table.gen Frame.top [] 0 (pre0 ++ a0 :: (sufs0 ++ flatDecS items)) := by
      unfold refParse
      simp only [hts, htr]
      have hlen : ¬ (0 ≥ (pre0 ++ a0 :: (sufs0 ++ flatDecS items)).length) := by simp
      simp only [List.drop_zero, Nat.sub_zero, List.take_length, hlen, if_false]
    rw [href, href0, href1, hn]
    exact hrefF

/-! ### decidable recogniser -/

inductive Acc3 where
  | start (ws1 : List PToken)
  | afterOp (ws1 : List PToken) (o : PToken) (ws2 : List PToken)
  | inPre (ws1 : List PToken) (o : PToken) (ws2 pre : List PToken)
  | inSuf (ws1 : List PToken) (o : PToken) (ws2 pre : List PToken) (a : PToken) (sufs : List PToken)

/-- splits `(trivia* binop trivia* prefix* value suffix*)*` into items -/
def splitS : Acc3 → List PToken → Option (List SItem)
  | .start [], [] => some []
  | .start (_ :: _), [] => none
  | .afterOp _ _ _, [] => none
  | .inPre _ _ _ _, [] => none
  | .inSuf ws1 o ws2 pre a sufs, [] => some [⟨⟨ws1, o, ws2, pre, a⟩, sufs⟩]
  | .start ws1, t :: rest =>
    if isTriviaTok t then splitS (.start (ws1 ++ [t])) rest
    else if isBinopTok t then splitS (.afterOp ws1 t []) rest else none
  | .afterOp ws1 o ws2, t :: rest =>
    if isTriviaTok t then splitS (.afterOp ws1 o (ws2 ++ [t])) rest
    else if isPrefixTok t then splitS (.inPre ws1 o ws2 [t]) rest
    else if isAtom10 t then splitS (.inSuf ws1 o ws2 [] t []) rest else none
  | .inPre ws1 o ws2 pre, t :: rest =>
    if isPrefixTok t then splitS (.inPre ws1 o ws2 (pre ++ [t])) rest
    else if isAtom10 t then splitS (.inSuf ws1 o ws2 pre t []) rest else none
  | .inSuf ws1 o ws2 pre a sufs, t :: rest =>
    if isSuffixTok t then splitS (.inSuf ws1 o ws2 pre a (sufs ++ [t])) rest
    else if isTriviaTok t then (splitS (.start [t]) rest).map (fun items => ⟨⟨ws1, o, ws2, pre, a⟩, sufs⟩ :: items)
    else if isBinopTok t then (splitS (.afterOp [] t []) rest).map (fun items => ⟨⟨ws1, o, ws2, pre, a⟩, sufs⟩ :: items)
    else none

def Acc3.toks : Acc3 → List PToken
  | .start ws1 => ws1
  | .afterOp ws1 o ws2 => ws1 ++ o :: ws2
  | .inPre ws1 o ws2 pre => ws1 ++ o :: (ws2 ++ pre)
  | .inSuf ws1 o ws2 pre a sufs => ws1 ++ o :: (ws2 ++ (pre ++ a :: sufs))

def Acc3.ok : Acc3 → Prop
  | .start ws1 => ∀ w ∈ ws1, isTriviaTok w = true
  | .afterOp ws1 o ws2 => (∀ w ∈ ws1, isTriviaTok w = true) ∧ isBinopTok o = true ∧ ∀ w ∈ ws2, isTriviaTok w = true
  | .inPre ws1 o ws2 pre =>
    (∀ w ∈ ws1, isTriviaTok w = true) ∧ isBinopTok o = true ∧ (∀ w ∈ ws2, isTriviaTok w = true) ∧
      ∀ p ∈ pre, isPrefixTok p = true
  | .inSuf ws1 o ws2 pre a sufs =>
    (∀ w ∈ ws1, isTriviaTok w = true) ∧ isBinopTok o = true ∧ (∀ w ∈ ws2, isTriviaTok w = true) ∧
      (∀ p ∈ pre, isPrefixTok p = true) ∧ isAtom10 a = true ∧ ∀ s ∈ sufs, isSuffixTok s = true

theorem splitS_sound : ∀ (toks : List PToken) (acc : Acc3) (items : List SItem), acc.ok →
    splitS acc toks = some items → acc.toks ++ toks = flatDecS items ∧ ∀ it ∈ items, it.ok := by
  intro toks
  induction toks with
  | nil =>
    intro acc items hacc h
    cases acc with
    | start ws1 =>
      cases ws1 with
      | nil => simp only [splitS, Option.some.injEq] at h; subst h; simp [Acc3.toks, flatDecS]
      | cons w ws => simp [splitS] at h
    | afterOp ws1 o ws2 => simp [splitS] at h
    | inPre ws1 o ws2 pre => simp [splitS] at h
    | inSuf ws1 o ws2 pre a sufs =>
      simp only [splitS, Option.some.injEq] at h; subst h
      obtain ⟨h1, h2, h3, h4, h5, h6⟩ := hacc
      refine ⟨by simp [Acc3.toks, flatDecS, SItem.dec, OItem.dec], ?_⟩
      intro it hit
      simp only [List.mem_singleton] at hit
      subst hit
      exact ⟨⟨h1, h2, h3, h4, h5⟩, h6⟩
  | cons t rest ih =>
    intro acc items hacc h
    cases acc with
    | start ws1 =>
      simp only [splitS] at h
      split at h
      · rename_i ht
        obtain ⟨e, hok⟩ := ih (.start (ws1 ++ [t])) items (mem_snoc hacc ht) h
        exact ⟨by simpa [Acc3.toks] using e, hok⟩
      · split at h
        · rename_i hb
          obtain ⟨e, hok⟩ := ih (.afterOp ws1 t []) items ⟨hacc, hb, by simp⟩ h
          exact ⟨by simpa [Acc3.toks] using e, hok⟩
        · cases h
    | afterOp ws1 o ws2 =>
      obtain ⟨h1, h2, h3⟩ := hacc
      simp only [splitS] at h
      split at h
      · rename_i ht
        obtain ⟨e, hok⟩ := ih (.afterOp ws1 o (ws2 ++ [t])) items ⟨h1, h2, mem_snoc h3 ht⟩ h
        exact ⟨by simpa [Acc3.toks] using e, hok⟩
      · split at h
        · rename_i hp
          obtain ⟨e, hok⟩ := ih (.inPre ws1 o ws2 [t]) items ⟨h1, h2, h3, by simpa using hp⟩ h
          exact ⟨by simpa [Acc3.toks] using e, hok⟩
        · split at h
          · rename_i ha
            obtain ⟨e, hok⟩ := ih (.inSuf ws1 o ws2 [] t []) items ⟨h1, h2, h3, by simp, ha, by simp⟩ h
            exact ⟨by simpa [Acc3.toks] using e, hok⟩
          · cases h
    | inPre ws1 o ws2 pre =>
      obtain ⟨h1, h2, h3, h4⟩ := hacc
      simp only [splitS] at h
      split at h
      · rename_i hp
        obtain ⟨e, hok⟩ := ih (.inPre ws1 o ws2 (pre ++ [t])) items ⟨h1, h2, h3, mem_snoc h4 hp⟩ h
        exact ⟨by simpa [Acc3.toks] using e, hok⟩
      · split at h
        · rename_i ha
          obtain ⟨e, hok⟩ := ih (.inSuf ws1 o ws2 pre t []) items ⟨h1, h2, h3, h4, ha, by simp⟩ h
          exact ⟨by simpa [Acc3.toks] using e, hok⟩
        · cases h
    | inSuf ws1 o ws2 pre a sufs =>
      obtain ⟨h1, h2, h3, h4, h5, h6⟩ := hacc
      simp only [splitS] at h
      split at h
      · rename_i hs
        obtain ⟨e, hok⟩ := ih (.inSuf ws1 o ws2 pre a (sufs ++ [t])) items ⟨h1, h2, h3, h4, h5, mem_snoc h6 hs⟩ h
        exact ⟨by simpa [Acc3.toks] using e, hok⟩
      · split at h
        · rename_i ht
          cases hrec : splitS (.start [t]) rest with
          | none => simp [hrec] at h
          | some items' =>
            simp only [hrec, Option.map_some, Option.some.injEq] at h
            subst h
            obtain ⟨e, hok⟩ := ih (.start [t]) items' (by intro w hw; simp at hw; subst hw; exact ht) hrec
            simp only [Acc3.toks] at e
            refine ⟨by simp [Acc3.toks, flatDecS, SItem.dec, OItem.dec, ← e], ?_⟩
            intro it hit
            rcases List.mem_cons.mp hit with rfl | hit
            · exact ⟨⟨h1, h2, h3, h4, h5⟩, h6⟩
            · exact hok it hit
        · split at h
          · rename_i hb
            cases hrec : splitS (.afterOp [] t []) rest with
            | none => simp [hrec] at h
            | some items' =>
              simp only [hrec, Option.map_some, Option.some.injEq] at h
              subst h
              obtain ⟨e, hok⟩ := ih (.afterOp [] t []) items' ⟨by simp, hb, by simp⟩ hrec
              simp only [Acc3.toks, List.nil_append] at e
              refine ⟨by simp [Acc3.toks, flatDecS, SItem.dec, OItem.dec, ← e], ?_⟩
              intro it hit
              rcases List.mem_cons.mp hit with rfl | hit
              · exact ⟨⟨h1, h2, h3, h4, h5⟩, h6⟩
              · exact hok it hit
          · cases h

/-- **the stage 3 fragment**: `(prefix* value suffix*) (trivia* binop trivia* prefix* value suffix*)*` -/
def frag3 (toks : List PToken) : Bool :=
  match toks.dropWhile isPrefixTok with
  | a :: rest => isAtom10 a && (splitS (.start []) (rest.dropWhile isSuffixTok)).isSome
  | [] => false

theorem frag3_sound {toks : List PToken} (h : frag3 toks = true) :
    ∃ pre0 a0 sufs0 items, toks = pre0 ++ a0 :: (sufs0 ++ flatDecS items) ∧ (∀ p ∈ pre0, isPrefixTok p = true) ∧
      isAtom10 a0 = true ∧ (∀ s ∈ sufs0, isSuffixTok s = true) ∧ ∀ it ∈ items, it.ok := by
  unfold frag3 at h
  cases hd : toks.dropWhile isPrefixTok with
  | nil => simp [hd] at h
  | cons a rest =>
    simp only [hd, Bool.and_eq_true] at h
    obtain ⟨ha, hs⟩ := h
    obtain ⟨items, hitems⟩ := Option.isSome_iff_exists.mp hs
    obtain ⟨e, hok⟩ := splitS_sound _ (.start []) items (by simp [Acc3.ok]) hitems
    simp only [Acc3.toks, List.nil_append] at e
    refine ⟨toks.takeWhile isPrefixTok, a, rest.takeWhile isSuffixTok, items, ?_, ?_, ha, ?_, hok⟩
    · rw [← e, List.takeWhile_append_dropWhile, ← hd, List.takeWhile_append_dropWhile]
    · intro p hp; exact takeWhile_all _ _ p hp
    · intro s hs'; exact takeWhile_all _ _ s hs'

/-- **stage 3, recogniser form** -/
theorem parse_frag3 (toks : List PToken) (hf : frag3 toks = true) (hnum : NumberedFrom 0 toks) :
    ∃ r t, parse toks = .ok r ∧ toTree r = some t ∧ refParse Table.gen toks = .ok (toRd (dfOf r.nodes) t) := by
  obtain ⟨pre0, a0, sufs0, items, rfl, hpre0, ha0, hsufs0, hoks⟩ := frag3_sound hf
  exact parse_sitems pre0 a0 sufs0 items hpre0 ha0 hsufs0 hoks hnum

end Garnish.Spec
