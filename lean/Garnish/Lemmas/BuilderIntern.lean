/-
The addresses of the constants the builder adds to a fresh `SimpleGarnishData`.

The statement-level builder model (Model/Build.lean) keeps one entry per `add_*` / `parse_add_*` call in `consts` — the
VALUE — and uses the index of the entry as operand.  The Rust builder uses the address the data object returns:
`add_unit` / `add_false` / `add_true` answer 0 / 1 / 2 (the preallocated cells of `SimpleDataList::default()`), every
other constant goes through `cache_add` (Model/Runtime/SimpleStore.lean `SimState.cacheAdd`: a hit answers with a stored
address, a miss pushes).  `addAll` replays the calls in order on the data list, `builderData` / `builderAddr` are the
data list it leaves and the map "index of the model's constant ↦ address the data object returned" — so the program the
Rust builder leaves in a fresh `SimpleGarnishData` is `relocBy (builderAddr hit P) (builderData hit P) P`.

`builder_constsAgree`: for a sound hit decision (`HitSound`: a hit holds the value — repo fix "cache_add confirms hits by
comparison") and constants that are leaves (`isLeafS`: everything `build` adds) the map satisfies `ConstsAgree` — with
any amount of sharing the cache produces.  `builder_seeded`, `builder_leaves`: the data list starts with Unit, False,
True and holds leaves only.  `addConst_is_cacheAdd`: the replay is `SimState.cacheAdd` cell for cell.
-/
import Garnish.Lemmas.RuntimeRelocBy
import Garnish.Props.C01TextStoreSimple
namespace Garnish.Lemmas.BuilderIntern
open Garnish Garnish.Gen Garnish.Abs Garnish.Model.Runtime Garnish.Props.C01TextStore
open Garnish.Lemmas.Runtime.On

variable {F : Type}

/-- `SimpleDataList::default()` -/
def seed : Array (Val F) := #[.unit, .fls, .tru]

/-- one `add_*` call of the builder on the data list `C` -/
def addConst (hit : List (SimCell F) → SimCell F → Option Nat) (C : Array (Val F)) (v : Val F) : Array (Val F) × Nat :=
  match v with
  | .unit => (C, 0)
  | .fls => (C, 1)
  | .tru => (C, 2)
  | v =>
    match hit (C.toList.map simCellOfVal) (simCellOfVal v) with
    | some a => (C, a)
    | none => (C.push v, C.size)

/-- the calls in order: the data list they leave and the addresses they returned -/
def addAll (hit : List (SimCell F) → SimCell F → Option Nat) : List (Val F) → Array (Val F) → Array (Val F) × List Nat
  | [], C => (C, [])
  | v :: vs, C => ((addAll hit vs (addConst hit C v).1).1, (addConst hit C v).2 :: (addAll hit vs (addConst hit C v).1).2)

def builderData (hit : List (SimCell F) → SimCell F → Option Nat) (P : Prog F) : Array (Val F) :=
  (addAll hit P.consts.toList seed).1

/-- index of the model's constant ↦ address the data object returned (past the data list where there is no constant) -/
def builderAddr (hit : List (SimCell F) → SimCell F → Option Nat) (P : Prog F) (k : Nat) : Nat :=
  ((addAll hit P.consts.toList seed).2[k]?).getD ((builderData hit P).size + k)

/-- Unit, False, True at 0, 1, 2 -/
def SeededV (C : Array (Val F)) : Prop := C[0]? = some .unit ∧ C[1]? = some .fls ∧ C[2]? = some .tru

/-- the cell determines the leaf -/
theorem simCellOfVal_inj {v w : Val F} (hv : isLeafS v = true) (hw : isLeafS w = true)
    (h : simCellOfVal v = simCellOfVal w) : v = w := by
  cases v <;> cases w <;>
    first
      | rfl
      | (simp [isLeafS] at hv; done)
      | (simp [isLeafS] at hw; done)
      | (simp [simCellOfVal] at h; done)
      | (simp only [simCellOfVal, SimCell.symList.injEq] at h
         rename_i ps qs
         rw [← symOf_map ps hv, ← symOf_map qs hw, h])
      | (simp [simCellOfVal] at h; simp [h])

/-- `C'` extends `C` -/
def Ext (C C' : Array (Val F)) : Prop := ∀ (a : Nat) (v : Val F), C[a]? = some v → C'[a]? = some v

theorem Ext.refl (C : Array (Val F)) : Ext C C := fun _ _ h => h
theorem Ext.trans {A B C : Array (Val F)} (h1 : Ext A B) (h2 : Ext B C) : Ext A C := fun a v h => h2 a v (h1 a v h)

theorem ext_push (C : Array (Val F)) (v : Val F) : Ext C (C.push v) := by
  intro a w h
  have hlt : a < C.size := by
    rcases Nat.lt_or_ge a C.size with h1 | h1
    · exact h1
    · rw [Array.getElem?_eq_none h1] at h; cases h
  rw [Array.getElem?_push, if_neg (by omega)]; exact h

theorem SeededV.ext {C C' : Array (Val F)} (h : SeededV C) (he : Ext C C') : SeededV C' :=
  ⟨he 0 _ h.1, he 1 _ h.2.1, he 2 _ h.2.2⟩

/-- one call: the list is extended, stays seeded and made of leaves, and the returned address holds the value -/
theorem addConst_spec {hit : List (SimCell F) → SimCell F → Option Nat} (hs : HitSound hit) {C : Array (Val F)} {v : Val F}
    (hseed : SeededV C) (hC : C.toList.all isLeafS = true) (hv : isLeafS v = true) :
    Ext C (addConst hit C v).1 ∧ (addConst hit C v).1.toList.all isLeafS = true ∧
      (addConst hit C v).1[(addConst hit C v).2]? = some v := by
  have hpush : Ext C (C.push v) ∧ (C.push v).toList.all isLeafS = true ∧ (C.push v)[C.size]? = some v :=
    ⟨ext_push C v, by simp [hC, hv], by simp⟩
  have hcache : ∀ (hnu : v ≠ .unit) (hnf : v ≠ .fls) (hnt : v ≠ .tru),
      addConst hit C v = (match hit (C.toList.map simCellOfVal) (simCellOfVal v) with
        | some a => (C, a) | none => (C.push v, C.size)) := by
    intro hnu hnf hnt
    cases v <;> first | rfl | exact absurd rfl hnu | exact absurd rfl hnf | exact absurd rfl hnt
  have key : ∀ (hnu : v ≠ .unit) (hnf : v ≠ .fls) (hnt : v ≠ .tru),
      Ext C (addConst hit C v).1 ∧ (addConst hit C v).1.toList.all isLeafS = true ∧
        (addConst hit C v).1[(addConst hit C v).2]? = some v := by
    intro hnu hnf hnt
    rw [hcache hnu hnf hnt]
    cases hh : hit (C.toList.map simCellOfVal) (simCellOfVal v) with
    | none => exact hpush
    | some a =>
      refine ⟨Ext.refl C, hC, ?_⟩
      have h1 := hs _ _ _ hh
      rw [List.getElem?_map] at h1
      cases hca : C.toList[a]? with
      | none => rw [hca] at h1; cases h1
      | some w =>
        rw [hca] at h1
        simp only [Option.map_some, Option.some.injEq] at h1
        have hwl : isLeafS w = true := by
          have := List.all_eq_true.1 hC w (List.mem_of_getElem? hca)
          exact this
        have := simCellOfVal_inj hwl hv h1
        subst this
        show C[a]? = some w
        simpa using hca
  cases v with
  | unit => exact ⟨Ext.refl C, hC, hseed.1⟩
  | fls => exact ⟨Ext.refl C, hC, hseed.2.1⟩
  | tru => exact ⟨Ext.refl C, hC, hseed.2.2⟩
  | _ => exact key (by intro h; cases h) (by intro h; cases h) (by intro h; cases h)

/-- all calls: every returned address holds its value in the final list -/
theorem addAll_spec {hit : List (SimCell F) → SimCell F → Option Nat} (hs : HitSound hit) :
    ∀ (vs : List (Val F)) (C : Array (Val F)), SeededV C → C.toList.all isLeafS = true → vs.all isLeafS = true →
      Ext C (addAll hit vs C).1 ∧ (addAll hit vs C).1.toList.all isLeafS = true ∧
        (addAll hit vs C).2.length = vs.length ∧
        ∀ (k : Nat) (v : Val F), vs[k]? = some v → ∃ a, (addAll hit vs C).2[k]? = some a ∧ (addAll hit vs C).1[a]? = some v := by
  intro vs
  induction vs with
  | nil => intro C _ hC _; exact ⟨Ext.refl C, hC, rfl, fun k v h => by cases h⟩
  | cons v vs ih =>
    intro C hseed hC hvs
    rw [List.all_cons, Bool.and_eq_true] at hvs
    obtain ⟨h1, h2, h3⟩ := addConst_spec hs hseed hC hvs.1
    obtain ⟨g1, g2, g3, g4⟩ := ih (addConst hit C v).1 (hseed.ext h1) h2 hvs.2
    refine ⟨h1.trans g1, g2, by simp [addAll, g3], fun k w hk => ?_⟩
    cases k with
    | zero =>
      simp only [List.getElem?_cons_zero, Option.some.injEq] at hk
      subst hk
      exact ⟨(addConst hit C v).2, rfl, g1 _ _ h3⟩
    | succ k =>
      simp only [List.getElem?_cons_succ] at hk
      obtain ⟨a, ha1, ha2⟩ := g4 k w hk
      exact ⟨a, by simpa [addAll] using ha1, ha2⟩

theorem seededV_seed : SeededV (seed : Array (Val F)) := ⟨rfl, rfl, rfl⟩

variable {hit : List (SimCell F) → SimCell F → Option Nat}

/-- **the builder's own address map agrees with its constants** -/
theorem builder_constsAgree (hs : HitSound hit) (P : Prog F) (hleaf : P.consts.toList.all isLeafS = true) :
    ConstsAgree (builderAddr hit P) (builderData hit P) P := by
  obtain ⟨_, _, hlen, hget⟩ := addAll_spec hs P.consts.toList seed seededV_seed (by rfl) hleaf
  intro k
  cases hk : P.consts[k]? with
  | some v =>
    have hk' : P.consts.toList[k]? = some v := by simpa using hk
    obtain ⟨a, ha1, ha2⟩ := hget k v hk'
    show (builderData hit P)[builderAddr hit P k]? = some v
    unfold builderAddr
    rw [ha1]; exact ha2
  | none =>
    have hge : P.consts.size ≤ k := by
      rcases Nat.lt_or_ge k P.consts.size with h | h
      · rw [Array.getElem?_eq_getElem h] at hk; cases hk
      · exact h
    have hnone : (addAll hit P.consts.toList seed).2[k]? = none := by
      apply List.getElem?_eq_none; rw [hlen]; simpa using hge
    show (builderData hit P)[builderAddr hit P k]? = none
    unfold builderAddr
    rw [hnone]
    exact Array.getElem?_eq_none (by simp)

theorem builder_seeded (hs : HitSound hit) (P : Prog F) (hleaf : P.consts.toList.all isLeafS = true) :
    (builderData hit P)[0]? = some .unit ∧ (builderData hit P)[1]? = some .fls ∧ (builderData hit P)[2]? = some .tru :=
  seededV_seed.ext (addAll_spec hs P.consts.toList seed seededV_seed (by rfl) hleaf).1

theorem builder_leaves (hs : HitSound hit) (P : Prog F) (hleaf : P.consts.toList.all isLeafS = true) :
    (builderData hit P).toList.all isLeafS = true :=
  (addAll_spec hs P.consts.toList seed seededV_seed (by rfl) hleaf).2.1

/-- the replay is `cache_add` of the data-object model, cell for cell -/
theorem addConst_is_cacheAdd (C : Array (Val F)) (v : Val F) (hnu : v ≠ .unit) (hnf : v ≠ .fls) (hnt : v ≠ .tru)
    (st : SimState F) (hst : st.cells = C.toList.map simCellOfVal) :
    ∃ st', SimState.cacheAdd hit (simCellOfVal v) st = .ok ((addConst hit C v).2, st') ∧
      st'.cells = (addConst hit C v).1.toList.map simCellOfVal := by
  have hcache : addConst hit C v = (match hit (C.toList.map simCellOfVal) (simCellOfVal v) with
      | some a => (C, a) | none => (C.push v, C.size)) := by
    cases v <;> first | rfl | exact absurd rfl hnu | exact absurd rfl hnf | exact absurd rfl hnt
  rw [hcache]
  unfold SimState.cacheAdd
  rw [hst]
  cases hit (C.toList.map simCellOfVal) (simCellOfVal v) with
  | some a => exact ⟨st, rfl, hst⟩
  | none => exact ⟨{ st with cells := C.toList.map simCellOfVal ++ [simCellOfVal v] }, by simp, by simp⟩

end Garnish.Lemmas.BuilderIntern
