/-
The tie between the two builder models (12): nodes that are visited once — groups, nested expressions.
-/
import Garnish.Lemmas.CompileTree11
namespace Garnish.Abs.Tree
open Garnish Garnish.Gen Garnish.Spec Garnish.Abs Garnish.Model.Parser Garnish.Model.Literals Garnish.Model.Build

variable {F : Type} {pf : List Char → Option F} {tree : Array ParseNode} {bodies : List (Nat × Expr F)}

theorem single_visit {crj lo hi i cur : Nat} {lp : Option (Nat × Definition)} {cp : Ex} {pbn : BuildNode}
    {pn : ParseNode} {data data1 : BState F} {nodes nodesH : Nodes} {RS RS1 S S1 : Array Nat}
    (pre : Pre tree nodes lo hi i cur lp cp pbn) (hin : lo ≤ i ∧ i < hi) (hpn : tree[i]? = some pn)
    (hh : handleParseNode pf ⟨data, nodes, RS, S⟩ crj i pn = .ok ⟨data1, nodesH, RS1, S1⟩)
    (hi' : nodesH[i]? = some (some (mkNode i cur lp cp)))
    (hpar : ∀ par d, lp = some (par, d) → nodesH[par]? = nodes[par]?) :
    Steps pf tree crj 1 ⟨data, nodes, RS, S.push i⟩ ⟨data1, counted nodesH i (mkNode i cur lp cp) lp pbn, RS1, S1⟩ := by
  refine Steps.one hpn hh ?_
  refine afterHandle_counted hi' rfl rfl (fun par d hl => ?_)
  obtain ⟨h1, h2, _⟩ := pre.par par d hl
  exact ⟨by omega, by rw [hpar par d hl]; exact h2⟩

theorem counted_some {nodesH : Nodes} {i : Nat} {lp : Option (Nat × Definition)} {b pbn : BuildNode}
    (hi : nodesH[i]? = some (some b)) (hne : ∀ par d, lp = some (par, d) → par ≠ i) :
    ∃ b', (counted nodesH i b lp pbn)[i]? = some (some b') ∧ b'.rootEndInstruction = b.rootEndInstruction := by
  cases lp with
  | none => exact ⟨b, hi, rfl⟩
  | some pd =>
    obtain ⟨par, d⟩ := pd
    refine ⟨{ b with contributesToList := false }, ?_, rfl⟩
    simp only [counted]
    rw [get_putNode_ne (hne par d rfl), get_putNode_same (lt_of_get hi)]

/-- `( e )`: the group node forwards to its content; its own build node stays as it is -/
theorem sim_group {hi i r : Nat} {e : Expr F} {pn : ParseNode} (hpn : tree[i]? = some pn) (hd : pn.definition = .group)
    (hr : pn.right = some r) (hri : i + 1 ≤ r ∧ r < hi) (hrt : r < tree.size)
    (ih : SimT pf tree bodies (i + 1) hi r e) : SimT pf tree bodies i hi i e := by
  intro crj root cur data nodes RS S s lp cp pbn pre hdat hcur
  have hlt : i < nodes.size := lt_of_get pre.node
  have hrlt : r < nodes.size := by rw [pre.size]; exact hrt
  have hne : ∀ par d, lp = some (par, d) → par ≠ i ∧ par ≠ r := fun par d h => by
    have := (pre.par par d h).1; exact ⟨by omega, by omega⟩
  generalize hH : putNode nodes r (BuildNode.new r cur) = nodesH
  have hHi : nodesH[i]? = some (some (mkNode i cur lp cp)) := by rw [← hH, get_putNode_ne (by omega)]; exact pre.node
  have hHr : nodesH[r]? = some (some (mkNode r cur none Ex.none)) := by rw [← hH, get_putNode_same hrlt]; rfl
  have hHo : ∀ y, y ≠ r → nodesH[y]? = nodes[y]? := fun y h => by rw [← hH, get_putNode_ne (Ne.symm h)]
  have hhF : handleParseNode pf ⟨data, nodes, RS, S⟩ crj i pn = .ok ⟨data, nodesH, RS, S.push r⟩ := by
    simp only [handleParseNode, hd, handleGroup, hr, getNode, pre.node, Outcome.bind]
    rw [setNodeIdx_ok hrlt, ← hH]
    rfl
  have st1 := single_visit (pf := pf) pre ⟨Nat.le_refl _, by omega⟩ hpn hhF hHi (fun par d h => hHo par (hne par d h).2)
  generalize hA : counted nodesH i (mkNode i cur lp cp) lp pbn = A at st1
  have hAi : ∃ b, A[i]? = some (some b) ∧ b.rootEndInstruction = (mkNode i cur lp cp).rootEndInstruction := by
    rw [← hA]; exact counted_some hHi (fun p d h => (hne p d h).1)
  have hAo : ∀ y, y ≠ i → (∀ par d, lp = some (par, d) → y ≠ par) → A[y]? = nodesH[y]? := fun y h1 h2 => by
    rw [← hA]; exact counted_other h1 h2
  have hAsz : A.size = nodes.size := by rw [← hA, counted_size, ← hH]; simp
  have preC : Pre tree A (i + 1) hi r cur none Ex.none pbn :=
    Pre.child none pbn (by rw [hAsz, pre.size]) (by rw [hAo r (by omega) (fun p d h => Ne.symm (hne p d h).2), hHr])
      (fun ⟨_, h⟩ => by cases h)
  obtain ⟨k1, data1, C, RS1, R1, stC, hk1, hd1, hrs1, hp1, done1, _⟩ := ih crj root cur data A RS S s none Ex.none pbn preC hdat hcur
  obtain ⟨bA, hbA, hbAe⟩ := hAi
  refine ⟨1 + k1, data1, C, RS1, R1, st1.trans stC, (by omega), hd1, hrs1, hp1, ?_,
    ⟨bA, by rw [done1.frame i (by simp only [Ival]; omega) (fun _ _ h => by cases h)]; exact hbA, hbAe⟩⟩
  refine (Done.wrap (i := i) (lp := lp) (pbn := pbn) (N := nodes) done1 hAsz (fun y h1 h2 h3 => ?_) ⟨bA, hbA⟩
    (by simp only [Ival]; omega) (fun par d h => ⟨?_, ?_⟩)).cong (ival_succ i hi (by omega))
  · have : y ≠ r := fun e => h2 (by subst e; exact hri)
    rw [hAo y h1 h3, hHo y this]
  · have := (pre.par par d h).1; simp only [Ival]; omega
  · subst h
    rw [← hA]
    refine counted_parent ?_
    rw [hHo par (hne par d rfl).2]
    exact (pre.par par d rfl).2.1

/-- `{ }`: the value names the containing expression -/
theorem sim_emptyNested {i : Nat} {pn : ParseNode} (hpn : tree[i]? = some pn) (hd : pn.definition = .nestedExpression)
    (hr : pn.right = none) : SimT pf tree bodies i (i + 1) i .emptyNested := by
  intro crj root cur data nodes RS S s lp cp pbn pre hdat hcur
  have hne : ∀ par d, lp = some (par, d) → par ≠ i := fun par d h => by have := (pre.par par d h).1; omega
  have hhF : handleParseNode pf ⟨data, nodes, RS, S⟩ crj i pn =
      .ok ⟨pushInstr (addConst data (.expr cur)).1 .put (some (addConst data (.expr cur)).2) (some i), nodes, RS, S⟩ := by
    simp only [handleParseNode, hd, handleNestedExpression, hr, pre.node]
    rfl
  have st1 := single_visit (pf := pf) pre ⟨Nat.le_refl _, by omega⟩ hpn hhF pre.node (fun _ _ _ => rfl)
  obtain ⟨bA, hbA, hbAe⟩ := counted_some (lp := lp) (pbn := pbn) pre.node hne
  refine ⟨1, _, _, RS, [], st1, (by simp only [wsum_nil]; omega), ?_, by simp, rfl, ?_, ⟨bA, hbA, hbAe⟩⟩
  · simp only [emit]; exact hdat.pushConst _ _ _
  · refine ⟨by simp, fun x hx hp => ?_, fun par d h => ?_, fun q hq => (by cases hq), fun x hx => ?_, List.Pairwise.nil⟩
    · exact counted_other (fun e => hx (by subst e; exact ⟨Nat.le_refl _, by omega⟩)) hp
    · subst h; exact counted_parent (pre.par par d rfl).2.1
    · have : x = i := by have := hx.1; have := hx.2; omega
      subst this
      exact .inl ⟨bA, hbA⟩

/-- `{ body }`: a jump entry, the expression value, and the body as a pending root -/
theorem sim_nested {hi i r id : Nat} {b : Expr F} {pn : ParseNode} (hpn : tree[i]? = some pn)
    (hd : pn.definition = .nestedExpression) (hr : pn.right = some r) (hri : i + 1 ≤ r ∧ r < hi) (hrt : r < tree.size)
    (hbody : lookupBody bodies id = some b) (hrep : Rep pf tree bodies (i + 1) hi r b) :
    SimT pf tree bodies i hi i (.nested id) := by
  intro crj root cur data nodes RS S s lp cp pbn pre hdat hcur
  have hrlt : r < nodes.size := by rw [pre.size]; exact hrt
  have hne : ∀ par d, lp = some (par, d) → par ≠ i ∧ par ≠ r := fun par d h => by
    have := (pre.par par d h).1; exact ⟨by omega, by omega⟩
  have hj : data.jumps.size = s.jumps.size := by rw [hdat.jumps]
  generalize hH : putNode nodes r (BuildNode.newWithJump r s.jumps.size s.jumps.size) = nodesH
  have hHi : nodesH[i]? = some (some (mkNode i cur lp cp)) := by rw [← hH, get_putNode_ne (by omega)]; exact pre.node
  have hHr : nodesH[r]? = some (some (BuildNode.newWithJump r s.jumps.size s.jumps.size)) := by
    rw [← hH, get_putNode_same hrlt]
  have hHo : ∀ y, y ≠ r → nodesH[y]? = nodes[y]? := fun y h => by rw [← hH, get_putNode_ne (Ne.symm h)]
  have hhF : handleParseNode pf ⟨data, nodes, RS, S⟩ crj i pn =
      .ok ⟨pushInstr (addConst (pushToJumpTable data 0) (.expr s.jumps.size)).1 .put
        (some (addConst (pushToJumpTable data 0) (.expr s.jumps.size)).2) (some i), nodesH, RS.push r, S⟩ := by
    simp only [handleParseNode, hd, handleNestedExpression, hr, getJumpTableLen, hj, Outcome.bind]
    rw [setNodeIdx_ok hrlt, ← hH]
  have st1 := single_visit (pf := pf) pre ⟨Nat.le_refl _, by omega⟩ hpn hhF hHi (fun par d h => hHo par (hne par d h).2)
  generalize hA : counted nodesH i (mkNode i cur lp cp) lp pbn = A at st1
  have hAo : ∀ y, y ≠ i → (∀ par d, lp = some (par, d) → y ≠ par) → A[y]? = nodesH[y]? := fun y h1 h2 => by
    rw [← hA]; exact counted_other h1 h2
  refine ⟨1, _, A, RS.push r, [⟨r, i + 1, hi, ⟨.ref id, s.jumps.size, [(.endExpression, none)], s.jumps.size⟩⟩], st1,
    (by simp only [wsum_nil, wsum_cons]; omega), ?_, by simp, by simp [emit, LState.pushRoot, LState.pushConst, LState.pushJump], ?_,
    by rw [← hA]; exact counted_some hHi (fun p d h => (hne p d h).1)⟩
  · simp only [emit]
    have := (hdat.pushJump 0).pushConst .put (.expr s.jumps.size) (some i)
    exact ⟨this.instrs, this.jumps, this.consts⟩
  · refine ⟨by rw [← hA, counted_size, ← hH]; simp, fun x hx hp => ?_, fun par d h => ?_, fun q hq => ?_, fun x hx => ?_,
      List.pairwise_singleton _ _⟩
    · have h1 : x ≠ i := fun e => hx (by subst e; exact ⟨Nat.le_refl _, by omega⟩)
      have h2 : x ≠ r := fun e => hx (by subst e; exact ⟨by omega, hri.2⟩)
      rw [hAo x h1 hp, hHo x h2]
    · subst h
      rw [← hA]
      refine counted_parent ?_
      rw [hHo par (hne par d rfl).2]
      exact (pre.par par d rfl).2.1
    · simp only [List.mem_singleton] at hq
      subst hq
      refine ⟨fun x h1 h2 => ⟨by simp only at h1; omega, h2⟩, hri.1, hri.2, ?_, ?_⟩
      · rw [hAo r (by omega) (fun p d h => Ne.symm (hne p d h).2), hHr]; rfl
      · exact ⟨b, hbody, hrep, rfl, rfl⟩
    · by_cases hxi : x = i
      · subst hxi
        left
        rw [← hA]
        obtain ⟨b', hb', _⟩ := counted_some (lp := lp) (pbn := pbn) hHi (fun p d h => (hne p d h).1)
        exact ⟨b', hb'⟩
      · right
        exact ⟨_, List.mem_singleton.2 rfl, by have := hx.1; simp only; omega, hx.2⟩

end Garnish.Abs.Tree
