/-
The parser's node array represents the elaborated program (6): `parse_rep`.

`WellNumbered toks r t` — three facts about the result of `parse` that the proofs behind `parse_fragF` maintain
(`NInv.inord`: the in-order walk is sorted) or that hold by construction of the nodes, but that the exported statements
(`toTree r = some t`, `ProperTree r`) do not contain; all three are decidable (`wellNumbered`):
  * `inord`    the in-order walk of the tree is `0, 1, …, nodes.size - 1`: the nodes are numbered in source order and all
               of them are in the tree (false after a trailing blank line before `}`: the separator node stays in the
               array, unlinked);
  * `linked`   a node carries the text of the token at its position (`lexToken.col`);
  * `brackets` a `( … )` / `{ … }` node has no left child (`toRG` does not look at it).
-/
import Garnish.Lemmas.SourceRep6
namespace Garnish.Abs.Source
open Garnish Garnish.Gen Garnish.Spec Garnish.Abs Garnish.Abs.Tree Garnish.Model.Parser Garnish.Model.Literals
open Garnish.Model.Build

variable {F : Type} {pf : List Char → Option F} {κ : Nat → Nat} {toks : List PToken}

structure WellNumbered (toks : List PToken) (r : ParseResult) (t : Spec.Tree) : Prop where
  inord : t.inorder = List.range r.nodes.size
  linked : Linked toks r.nodes
  brackets : bracketsOK (dfOf r.nodes) t = true

def linkedB (toks : List PToken) (nodes : Array ParseNode) : Bool :=
  nodes.toList.all (fun n => textAt toks n.lexToken.col == n.lexToken.text)

/-- the executable form of `WellNumbered` -/
def wellNumbered (toks : List PToken) (r : ParseResult) (t : Spec.Tree) : Bool :=
  t.inorder == List.range r.nodes.size && linkedB toks r.nodes && bracketsOK (dfOf r.nodes) t

theorem wellNumbered_sound {r : ParseResult} {t : Spec.Tree} (h : wellNumbered toks r t = true) : WellNumbered toks r t := by
  simp only [wellNumbered, Bool.and_eq_true, beq_iff_eq] at h
  refine ⟨h.1.1, fun i n hn => ?_, h.2⟩
  have := h.1.2
  simp only [linkedB, List.all_eq_true] at this
  have hm : n ∈ r.nodes.toList := by
    rw [Array.mem_toList_iff, Array.mem_iff_getElem?]; exact ⟨i, hn⟩
  simpa [tokPos] using this n hm

theorem lookup_nodup {id : Nat} {b : Expr F} : ∀ (bs : List (Nat × Expr F)), nodupB (bs.map (·.1)) = true →
    (id, b) ∈ bs → lookupBody bs id = some b
  | [], _, h => by cases h
  | (k, c) :: rest, hnd, h => by
    simp only [List.map, nodupB, Bool.and_eq_true, Bool.not_eq_true', List.contains_eq_mem, decide_eq_false_iff_not] at hnd
    simp only [lookupBody]
    rcases List.mem_cons.mp h with e | e
    · cases e; simp
    · have hne : ¬ k = id := by
        intro e'; subst e'
        exact hnd.1 (List.mem_map.mpr ⟨(k, b), e, rfl⟩)
      simp only [beq_iff_eq, hne, if_false]
      exact lookup_nodup rest hnd.2 e

/-- **`parse_rep`**: the node array of a proper, well-numbered parse result represents the program its reference tree
elaborates to (for every naming `κ` of the bodies); the program is body `0` of its table; `build`'s own check of the tree
succeeds -/
theorem parse_rep (r : ParseResult) (t : Spec.Tree) (p : Program F) (ht : toTree r = some t) (hwn : WellNumbered toks r t)
    (hel : elabWith pf κ toks (toRG (dfOf r.nodes) t) = some p) :
    Rep pf r.nodes p.bodies 0 r.nodes.size r.root p.main ∧ lookupBody p.bodies 0 = some p.main ∧
      validateParseTree r.root r.nodes = .ok () := by
  obtain ⟨htree, _⟩ := (toTree_some_iff r t).mp ht
  unfold elabWith at hel
  cases hgo : go pf κ toks (toRG (dfOf r.nodes) t) with
  | none => rw [hgo] at hel; cases hel
  | some x =>
    rw [hgo] at hel
    simp only at hel
    split at hel
    · rename_i hids
      cases hel
      have hne : t ≠ .nil := fun e => go_ne_nil hgo ((toRG_nil_iff _ _).mpr e)
      cases t with
      | nil => exact absurd rfl hne
      | node l i k rt =>
        obtain ⟨hlink, n, hn, hpar, _⟩ := isTreeAt_inv htree
        have hroot : r.root = i := by
          unfold rootLink at hlink
          split at hlink
          · cases hlink
          · cases hlink; rfl
        have hin : (Spec.Tree.node l i k rt).inorder = List.range' 0 (r.nodes.size - 0) := by
          rw [hwn.inord, List.range_eq_range']; rfl
        simp only [idsOK, Bool.and_eq_true, Bool.not_eq_true', List.contains_eq_mem, decide_eq_false_iff_not] at hids
        have hB : ∀ id b, (id, b) ∈ x.bodies → lookupBody ((0, x.e) :: x.bodies) id = some b := by
          intro id b hm
          have hid : ¬ 0 = id := by
            intro e; subst e
            exact hids.1 (List.mem_map.mpr ⟨(0, b), hm, rfl⟩)
          simp only [lookupBody, beq_iff_eq, hid, if_false]
          exact lookup_nodup x.bodies hids.2 hm
        have out := out_of_tree (pf := pf) (κ := κ) hwn.linked (.node l i k rt) none _ 0 r.nodes.size x hne htree hin
          hwn.brackets hgo hB
        rw [hroot]
        refine ⟨out.rep, by simp [lookupBody], ?_⟩
        exact validate_ok (shape_of_tree (.node l i k rt) none _ 0 r.nodes.size hne htree hin) hn hpar
    · cases hel

end Garnish.Abs.Source
