/-
C06 static half on compiled code, part 6: `emit_edges` — in the final layout state every instruction of the main
line that `emit` writes for a well-formed expression (with `^~` in tail positions only, when it starts at depth 0)
is entered at its ghost depth with its operands present, and each of its edges carries the ghost depth of its target;
and the roots it pushes return to joins of the right depth.
-/
import Garnish.Lemmas.CompileDepth5
namespace Garnish.Abs
open Garnish Gen Garnish.Spec Garnish.Props.C06

variable {F : Type} {sF : LState F} {root cur : Nat}

mutual
theorem emit_edges : ∀ (e : Expr F) (s : LState F), EmitE sF root cur e s
  | .lit v, s => by
    intro sM hc hp hal hw hev had hroots hwf htl hcur hnext
    simp only [emit] at hw
    simp only [len] at hnext
    refine ⟨fun pc h1 h2 => ?_, fun p hp' hnp => absurd hp' hnp⟩
    simp only [len] at h2
    obtain rfl : pc = s.instrs.size := by omega
    exact .next (depth_at_const hal hw.app had) (edges_push1 (const_at hw.w.1 hev).1 (.inl rfl)) hnext
  | .ident sym, s => by
    intro sM hc hp hal hw hev had hroots hwf htl hcur hnext
    simp only [emit] at hw
    simp only [len] at hnext
    refine ⟨fun pc h1 h2 => ?_, fun p hp' hnp => absurd hp' hnp⟩
    simp only [len] at h2
    obtain rfl : pc = s.instrs.size := by omega
    exact .next (depth_at_const hal hw.app had) (edges_push1 (const_at hw.w.1 hev).1 (.inr (.inr rfl))) hnext
  | .emptyNested, s => by
    intro sM hc hp hal hw hev had hroots hwf htl hcur hnext
    simp only [emit] at hw
    simp only [len] at hnext
    refine ⟨fun pc h1 h2 => ?_, fun p hp' hnp => absurd hp' hnp⟩
    simp only [len] at h2
    obtain rfl : pc = s.instrs.size := by omega
    exact .next (depth_at_const hal hw.app had) (edges_push1 (const_at hw.w.1 hev).1 (.inl rfl)) hnext
  | .input, s => by
    intro sM hc hp hal hw hev had hroots hwf htl hcur hnext
    simp only [emit] at hw
    simp only [len] at hnext
    refine ⟨fun pc h1 h2 => ?_, fun p hp' hnp => absurd hp' hnp⟩
    simp only [len] at h2
    obtain rfl : pc = s.instrs.size := by omega
    exact .next (depth_at hal hw.app had) (edges_push1 (instr_at hw.w.1 hev) (.inr (.inl rfl))) hnext
  | .nested id, s => by
    intro sM hc hp hal hw hev had hroots hwf htl hcur hnext
    simp only [emit] at hw
    simp only [len] at hnext
    refine ⟨fun pc h1 h2 => ?_, fun p hp' hnp => ?_⟩
    · simp only [len] at h2
      obtain rfl : pc = s.instrs.size := by omega
      have i1 := (const_at (t := s.pushJump 0) ((App.pushRoot _ _).trans hw.w.1) hev).1
      have d1 := depth_at_const (t := s.pushJump 0) (hal.pushJump 0) ((AppD.pushRoot _ _).trans hw.app) had
      simp only [pushJump_instrs, pushJump_dep] at i1 d1
      exact .next d1 (edges_push1 i1 (.inl rfl)) hnext
    · simp only [emit, LState.pushRoot, List.zip_cons_cons, List.mem_cons] at hp'
      rcases hp' with rfl | hp'
      · exact ⟨fun j hj => by simp at hj, fun b hb => by simp at hb, fun _ _ => rfl⟩
      · exact absurd hp' hnp
  | .unary op x, s => by
    intro sM hc hp hal hw hev had hroots hwf htl hcur hnext
    simp only [wfE, Bool.and_eq_true] at hwf
    obtain ⟨_, z1⟩ := emit_pre root cur x s hc
    have k1 := (emit_dep root cur x s hwf.2).2
    have al1 := hal.emit (root := root) hc hwf.2
    simp only [emit] at hw
    have hn : noR x = true := by simpa [noR] using tail_noR htl (by simp [tailR])
    have d1 := depth_at al1 hw.app had
    have rx := sub_edges (emit_edges x s) hc hp hal (.refl s) (hw.pre (.push _ _ _)) hev had hroots hwf.2 (.inl hn) hcur
      (.inr (by rw [← z1, ← k1]; exact d1))
    refine ⟨fun pc h1 h2 => ?_, fun p hp' hnp => ?_⟩
    · by_cases hlt : pc < s.instrs.size + len x
      · exact rx.1 pc h1 hlt
      · obtain rfl : pc = (emit root cur x s).instrs.size := by simp only [len] at h2; omega
        rw [k1] at d1
        exact .next d1 (edges_un (instr_at hw.w.1 hev) hwf.1) (hnext_cast hnext (by simp only [len]; omega))
    · simp only [emit] at hp'
      exact rx.2 p hp' hnp
  | .binary op l r, s => by
    intro sM hc hp hal hw hev had hroots hwf htl hcur hnext
    simp only [wfE, Bool.and_eq_true] at hwf
    obtain ⟨p1, z1⟩ := emit_pre root cur l s hc
    have c1 : cur < (emit root cur l s).jumps.size := by have := p1.jsize; omega
    obtain ⟨_, z2⟩ := emit_pre root cur r (emit root cur l s) c1
    have k1 := (emit_dep root cur l s hwf.1.2).2
    have k2 := (emit_dep root cur r (emit root cur l s) hwf.2).2
    have al1 := hal.emit (root := root) hc hwf.1.2
    have al2 := al1.emit (root := root) c1 hwf.2
    simp only [emit] at hw
    have hn : noR l = true ∧ noR r = true := by simpa [noR] using tail_noR htl (by simp [tailR])
    have d2 := depth_at al2 hw.app had
    have dl := next_first (root := root) (cur := cur) al1 hwf.2 ((AppD.push _ _ _).trans hw.app) had
    have r1 := sub_edges (emit_edges l s) hc hp hal (.refl s)
      ((hw.pre (.push _ _ _)).pre (emit_pre2 root cur r _ c1 hwf.2)) hev had hroots hwf.1.2 (.inl hn.1) hcur
      (.inr (by rw [← z1, ← k1]; exact dl))
    have r2 := sub_edges (emit_edges r _) hc hp al1 p1 (hw.pre (.push _ _ _)) hev had hroots hwf.2 (.inl hn.2) hcur
      (.inr (by rw [← z2, ← k2]; exact d2))
    refine ⟨fun pc h1 h2 => ?_, fun p hp' hnp => ?_⟩
    · by_cases hlt : pc < s.instrs.size + len l
      · exact r1.1 pc h1 hlt
      · by_cases hlt2 : pc < (emit root cur l s).instrs.size + len r
        · exact r2.1 pc (by omega) hlt2
        · obtain rfl : pc = (emit root cur r (emit root cur l s)).instrs.size := by simp only [len] at h2; omega
          rw [k2, k1] at d2
          have hnext' : sF.instrs.size ≤ (emit root cur r (emit root cur l s)).instrs.size + 1 ∨
              sF.depths[(emit root cur r (emit root cur l s)).instrs.size + 1]? = some (s.dep + 1) :=
            hnext_cast hnext (by simp only [len]; omega)
          rcases edges_bin (k := s.dep) (instr_at hw.w.1 hev) hwf.1.1 with he | he
          · exact .next d2 he hnext'
          · exact .mk d2 he (by simp)
    · simp only [emit] at hp'
      by_cases hin : p ∈ (emit root cur l s).pending.zip (emit root cur l s).pendDep
      · exact r1.2 p hin hnp
      · exact r2.2 p hp' hin
  | .pair l r, s => by
    intro sM hc hp hal hw hev had hroots hwf htl hcur hnext
    simp only [wfE, Bool.and_eq_true] at hwf
    obtain ⟨p1, z1⟩ := emit_pre root cur r s hc
    have c1 : cur < (emit root cur r s).jumps.size := by have := p1.jsize; omega
    obtain ⟨_, z2⟩ := emit_pre root cur l (emit root cur r s) c1
    have k1 := (emit_dep root cur r s hwf.2).2
    have k2 := (emit_dep root cur l (emit root cur r s) hwf.1).2
    have al1 := hal.emit (root := root) hc hwf.2
    have al2 := al1.emit (root := root) c1 hwf.1
    simp only [emit] at hw
    have hn : noR l = true ∧ noR r = true := by simpa [noR] using tail_noR htl (by simp [tailR])
    have d2 := depth_at al2 hw.app had
    have dl := next_first (root := root) (cur := cur) al1 hwf.1 ((AppD.push _ _ _).trans hw.app) had
    have r1 := sub_edges (emit_edges r s) hc hp hal (.refl s)
      ((hw.pre (.push _ _ _)).pre (emit_pre2 root cur l _ c1 hwf.1)) hev had hroots hwf.2 (.inl hn.2) hcur
      (.inr (by rw [← z1, ← k1]; exact dl))
    have r2 := sub_edges (emit_edges l _) hc hp al1 p1 (hw.pre (.push _ _ _)) hev had hroots hwf.1 (.inl hn.1) hcur
      (.inr (by rw [← z2, ← k2]; exact d2))
    refine ⟨fun pc h1 h2 => ?_, fun p hp' hnp => ?_⟩
    · by_cases hlt : pc < s.instrs.size + len r
      · exact r1.1 pc h1 hlt
      · by_cases hlt2 : pc < (emit root cur r s).instrs.size + len l
        · exact r2.1 pc (by omega) hlt2
        · obtain rfl : pc = (emit root cur l (emit root cur r s)).instrs.size := by simp only [len] at h2; omega
          rw [k2, k1] at d2
          have hnext' : sF.instrs.size ≤ (emit root cur l (emit root cur r s)).instrs.size + 1 ∨
              sF.depths[(emit root cur l (emit root cur r s)).instrs.size + 1]? = some (s.dep + 1) :=
            hnext_cast hnext (by simp only [len]; omega)
          exact .next d2 (edges_makePair (k := s.dep) (instr_at hw.w.1 hev)) hnext' 
    · simp only [emit] at hp'
      by_cases hin : p ∈ (emit root cur r s).pending.zip (emit root cur r s).pendDep
      · exact r1.2 p hin hnp
      · exact r2.2 p hp' hin
  | .applyTo l r, s => by
    intro sM hc hp hal hw hev had hroots hwf htl hcur hnext
    simp only [wfE, Bool.and_eq_true] at hwf
    obtain ⟨p1, z1⟩ := emit_pre root cur r s hc
    have c1 : cur < (emit root cur r s).jumps.size := by have := p1.jsize; omega
    obtain ⟨_, z2⟩ := emit_pre root cur l (emit root cur r s) c1
    have k1 := (emit_dep root cur r s hwf.2).2
    have k2 := (emit_dep root cur l (emit root cur r s) hwf.1).2
    have al1 := hal.emit (root := root) hc hwf.2
    have al2 := al1.emit (root := root) c1 hwf.1
    simp only [emit] at hw
    have hn : noR l = true ∧ noR r = true := by simpa [noR] using tail_noR htl (by simp [tailR])
    have d2 := depth_at al2 hw.app had
    have dl := next_first (root := root) (cur := cur) al1 hwf.1 ((AppD.push _ _ _).trans hw.app) had
    have r1 := sub_edges (emit_edges r s) hc hp hal (.refl s)
      ((hw.pre (.push _ _ _)).pre (emit_pre2 root cur l _ c1 hwf.1)) hev had hroots hwf.2 (.inl hn.2) hcur
      (.inr (by rw [← z1, ← k1]; exact dl))
    have r2 := sub_edges (emit_edges l _) hc hp al1 p1 (hw.pre (.push _ _ _)) hev had hroots hwf.1 (.inl hn.1) hcur
      (.inr (by rw [← z2, ← k2]; exact d2))
    refine ⟨fun pc h1 h2 => ?_, fun p hp' hnp => ?_⟩
    · by_cases hlt : pc < s.instrs.size + len r
      · exact r1.1 pc h1 hlt
      · by_cases hlt2 : pc < (emit root cur r s).instrs.size + len l
        · exact r2.1 pc (by omega) hlt2
        · obtain rfl : pc = (emit root cur l (emit root cur r s)).instrs.size := by simp only [len] at h2; omega
          rw [k2, k1] at d2
          have hnext' : sF.instrs.size ≤ (emit root cur l (emit root cur r s)).instrs.size + 1 ∨
              sF.depths[(emit root cur l (emit root cur r s)).instrs.size + 1]? = some (s.dep + 1) :=
            hnext_cast hnext (by simp only [len]; omega)
          exact .next d2 (edges_apply (k := s.dep) (instr_at hw.w.1 hev)) hnext' 
    · simp only [emit] at hp'
      by_cases hin : p ∈ (emit root cur r s).pending.zip (emit root cur r s).pendDep
      · exact r1.2 p hin hnp
      · exact r2.2 p hp' hin
  | .seq a b, s => by
    intro sM hc hp hal hw hev had hroots hwf htl hcur hnext
    simp only [wfE, Bool.and_eq_true] at hwf
    obtain ⟨p1, z1⟩ := emit_pre root cur a s hc
    have c1 : cur < ((emit root cur a s).push .updateValue none).jumps.size := by have := p1.jsize; simp; omega
    obtain ⟨_, z2⟩ := emit_pre root cur b ((emit root cur a s).push .updateValue none) c1
    have k1 := (emit_dep root cur a s hwf.1).2
    have al1 := hal.emit (root := root) hc hwf.1
    have alu := al1.push .updateValue none
    have ku : ((emit root cur a s).push .updateValue none).dep = s.dep := by simp [k1, fall]
    simp only [emit] at hw
    have hna : noR a = true := by
      rcases htl with h | ⟨h, _⟩
      · simp only [noR, Bool.and_eq_true] at h; exact h.1
      · simp only [tailR, Bool.and_eq_true] at h; exact h.1
    have htb : noR b = true ∨ (tailR b = true ∧ ((emit root cur a s).push .updateValue none).dep = 0) := by
      rcases htl with h | ⟨h, h0⟩
      · simp only [noR, Bool.and_eq_true] at h; exact .inl h.2
      · simp only [tailR, Bool.and_eq_true] at h; exact .inr ⟨h.2, by rw [ku]; exact h0⟩
    have pb := emit_pre2 root cur b _ c1 hwf.2
    have du := depth_at al1 (pb.app.trans hw.app) had
    have db := next_first (root := root) (cur := cur) alu hwf.2 hw.app had
    rw [ku] at db
    simp only [push_isize] at db
    have ra := sub_edges (emit_edges a s) hc hp hal (.refl s) ((hw.pre pb).pre (.push _ _ _)) hev had hroots hwf.1 (.inl hna) hcur
      (.inr (by rw [← z1, ← k1]; exact du))
    have rb := sub_edges (emit_edges b _) hc hp alu (p1.trans (.push _ _ _)) hw hev had hroots hwf.2 htb hcur
      (by rw [ku]; exact hnext_cast hnext (by simp only [len, push_isize]; omega))
    refine ⟨fun pc h1 h2 => ?_, fun p hp' hnp => ?_⟩
    · by_cases hlt : pc < s.instrs.size + len a
      · exact ra.1 pc h1 hlt
      · by_cases heq : pc = (emit root cur a s).instrs.size
        · subst heq
          rw [k1] at du
          exact .next du (edges_pop1 (instr_at (hw.pre pb).w.1 hev) (.inl rfl)) (.inr db)
        · exact rb.1 pc (by simp; omega) (by simp only [len] at h2; simp; omega)
    · simp only [emit] at hp'
      by_cases hin : p ∈ (emit root cur a s).pending.zip (emit root cur a s).pendDep
      · exact ra.2 p hin hnp
      · exact rb.2 p hp' hin
  | .sideAfter x b, s => by
    intro sM hc hp hal hw hev had hroots hwf htl hcur hnext
    simp only [wfE, Bool.and_eq_true] at hwf
    obtain ⟨p1, z1⟩ := emit_pre root cur x s hc
    have c1 : cur < ((emit root cur x s).push .startSideEffect none).jumps.size := by have := p1.jsize; simp; omega
    obtain ⟨_, z2⟩ := emit_pre root cur b ((emit root cur x s).push .startSideEffect none) c1
    have k1 := (emit_dep root cur x s hwf.1.1).2
    have al1 := hal.emit (root := root) hc hwf.1.1
    have alu := al1.push .startSideEffect none
    have ku : ((emit root cur x s).push .startSideEffect none).dep = s.dep + 1 := by simp [k1, fall]
    have k2 := (emit_dep root cur b ((emit root cur x s).push .startSideEffect none) hwf.1.2).2
    have al2 := alu.emit (root := root) c1 hwf.1.2
    simp only [emit] at hw
    have hn : noR x = true := by
      have := tail_noR htl (by simp [tailR]); simp only [noR, Bool.and_eq_true] at this; exact this.1
    have pb := emit_pre2 root cur b _ c1 hwf.1.2
    have hwb := hw.pre (.push _ _ _)
    have du := depth_at al1 (pb.app.trans hwb.app) had
    have db := next_first (root := root) (cur := cur) alu hwf.1.2 hwb.app had
    rw [ku] at db
    simp only [push_isize] at db
    have de := depth_at al2 hw.app had
    have rx := sub_edges (emit_edges x s) hc hp hal (.refl s) ((hwb.pre pb).pre (.push _ _ _)) hev had hroots hwf.1.1 (.inl hn) hcur
      (.inr (by rw [← z1, ← k1]; exact du))
    have rb := sub_edges (emit_edges b _) hc hp alu (p1.trans (.push _ _ _)) hwb hev had hroots hwf.1.2 (.inl hwf.2) hcur
      (.inr (by rw [← z2, ← k2]; exact de))
    refine ⟨fun pc h1 h2 => ?_, fun p hp' hnp => ?_⟩
    · by_cases hlt : pc < s.instrs.size + len x
      · exact rx.1 pc h1 hlt
      · by_cases heq : pc = (emit root cur x s).instrs.size
        · subst heq
          rw [k1] at du
          exact .next du (edges_startSE (instr_at (hwb.pre pb).w.1 hev)) (.inr db)
        · by_cases hlt2 : pc < ((emit root cur x s).push .startSideEffect none).instrs.size + len b
          · exact rb.1 pc (by simp; omega) hlt2
          · obtain rfl : pc = (emit root cur b ((emit root cur x s).push .startSideEffect none)).instrs.size := by
              simp only [len] at h2; simp at hlt2 z2; omega
            rw [k2, ku] at de
            exact .next de (edges_pop1 (k := s.dep + 1) (instr_at hw.w.1 hev) (.inr (.inl rfl)))
              (hnext_cast hnext (by simp only [len]; simp at z2; omega))
    · simp only [emit] at hp'
      by_cases hin : p ∈ (emit root cur x s).pending.zip (emit root cur x s).pendDep
      · exact rx.2 p hin hnp
      · exact rb.2 p hp' hin
  | .reapply x, s => by
    intro sM hc hp hal hw hev had hroots hwf htl hcur hnext
    simp only [wfE] at hwf
    obtain ⟨p1, z1⟩ := emit_pre root cur x s hc
    have k1 := (emit_dep root cur x s hwf).2
    have al1 := hal.emit (root := root) hc hwf
    have alu := al1.push .updateValue none
    simp only [emit] at hw
    have ht : noR x = true ∧ s.dep = 0 := by
      rcases htl with h | ⟨h, h0⟩
      · simp [noR] at h
      · simp only [tailR] at h; exact ⟨h, h0⟩
    have hwu := hw.pre (.push _ _ _)
    have du := depth_at al1 hwu.app had
    have dj := depth_at alu hw.app had
    have rx := sub_edges (emit_edges x s) hc hp hal (.refl s) (hwu.pre (.push _ _ _)) hev had hroots hwf (.inl ht.1) hcur
      (.inr (by rw [← z1, ← k1]; exact du))
    refine ⟨fun pc h1 h2 => ?_, fun p hp' hnp => ?_⟩
    · by_cases hlt : pc < s.instrs.size + len x
      · exact rx.1 pc h1 hlt
      · by_cases heq : pc = (emit root cur x s).instrs.size
        · subst heq
          rw [k1] at du
          refine .next du (edges_pop1 (instr_at hwu.w.1 hev) (.inl rfl)) (.inr ?_)
          simpa [k1, fall] using dj
        · obtain rfl : pc = ((emit root cur x s).push .updateValue none).instrs.size := by
            simp only [len] at h2; simp; omega
          have hjc : cur < sF.jumps.size := by
            have := p1.jsize; have := hw.w.1.jsize; have := hev.jsize; simp at *; omega
          obtain ⟨t, ht'⟩ := jumps_some hjc
          have dj' : sF.depths[((emit root cur x s).push .updateValue none).instrs.size]? = some 0 := by
            simpa [k1, fall, ht.2] using dj
          refine .mk dj' (edges_jumpTo (instr_at hw.w.1 hev) ht') (fun e hm => ?_)
          simp only [List.mem_singleton] at hm
          subst hm
          exact hcur t ht'
    · simp only [emit] at hp'
      exact rx.2 p hp' hnp
  | .prefixApply sym x, s => by
    intro sM hc hp hal hw hev had hroots hwf htl hcur hnext
    simp only [wfE] at hwf
    have c0 : cur < (s.pushConst .resolve (.sym sym)).jumps.size := by simpa using hc
    obtain ⟨_, z1⟩ := emit_pre root cur x (s.pushConst .resolve (.sym sym)) c0
    have alu := hal.pushConst .resolve (.sym sym)
    have k1 := (emit_dep root cur x (s.pushConst .resolve (.sym sym)) hwf).2
    have al1 := alu.emit (root := root) c0 hwf
    simp only [emit] at hw
    have hn : noR x = true := by simpa [noR] using tail_noR htl (by simp [tailR])
    have px := emit_pre2 root cur x _ c0 hwf
    have hwx := hw.pre (.push _ _ _)
    have d0 := depth_at_const hal (px.app.trans hwx.app) had
    have dx := next_first (root := root) (cur := cur) alu hwf hwx.app had
    have da := depth_at al1 hw.app had
    have rx := sub_edges (emit_edges x _) hc hp alu (.pushConst s _ _) hwx hev had hroots hwf (.inl hn) hcur
      (.inr (by rw [← z1, ← k1]; exact da))
    refine ⟨fun pc h1 h2 => ?_, fun p hp' hnp => ?_⟩
    · by_cases heq : pc = s.instrs.size
      · subst heq
        refine .next d0 (edges_push1 (const_at (hwx.pre px).w.1 hev).1 (.inr (.inr rfl))) (.inr ?_)
        simpa using dx
      · by_cases hlt : pc < (s.pushConst .resolve (.sym sym)).instrs.size + len x
        · exact rx.1 pc (by simp; omega) hlt
        · obtain rfl : pc = (emit root cur x (s.pushConst .resolve (.sym sym))).instrs.size := by
            simp only [len] at h2; simp at hlt z1; omega
          have : (emit root cur x (s.pushConst .resolve (.sym sym))).dep = s.dep + 2 := by rw [k1]; simp
          rw [this] at da
          exact .next da (edges_apply (k := s.dep) (instr_at hw.w.1 hev))
            (hnext_cast hnext (by simp only [len]; simp at z1; omega))
    · simp only [emit] at hp'
      exact rx.2 p hp' hnp
  | .suffixApply x sym, s => by
    intro sM hc hp hal hw hev had hroots hwf htl hcur hnext
    simp only [wfE] at hwf
    have c0 : cur < (s.pushConst .resolve (.sym sym)).jumps.size := by simpa using hc
    obtain ⟨_, z1⟩ := emit_pre root cur x (s.pushConst .resolve (.sym sym)) c0
    have alu := hal.pushConst .resolve (.sym sym)
    have k1 := (emit_dep root cur x (s.pushConst .resolve (.sym sym)) hwf).2
    have al1 := alu.emit (root := root) c0 hwf
    simp only [emit] at hw
    have hn : noR x = true := by simpa [noR] using tail_noR htl (by simp [tailR])
    have px := emit_pre2 root cur x _ c0 hwf
    have hwx := hw.pre (.push _ _ _)
    have d0 := depth_at_const hal (px.app.trans hwx.app) had
    have dx := next_first (root := root) (cur := cur) alu hwf hwx.app had
    have da := depth_at al1 hw.app had
    have rx := sub_edges (emit_edges x _) hc hp alu (.pushConst s _ _) hwx hev had hroots hwf (.inl hn) hcur
      (.inr (by rw [← z1, ← k1]; exact da))
    refine ⟨fun pc h1 h2 => ?_, fun p hp' hnp => ?_⟩
    · by_cases heq : pc = s.instrs.size
      · subst heq
        refine .next d0 (edges_push1 (const_at (hwx.pre px).w.1 hev).1 (.inr (.inr rfl))) (.inr ?_)
        simpa using dx
      · by_cases hlt : pc < (s.pushConst .resolve (.sym sym)).instrs.size + len x
        · exact rx.1 pc (by simp; omega) hlt
        · obtain rfl : pc = (emit root cur x (s.pushConst .resolve (.sym sym))).instrs.size := by
            simp only [len] at h2; simp at hlt z1; omega
          have : (emit root cur x (s.pushConst .resolve (.sym sym))).dep = s.dep + 2 := by rw [k1]; simp
          rw [this] at da
          exact .next da (edges_apply (k := s.dep) (instr_at hw.w.1 hev))
            (hnext_cast hnext (by simp only [len]; simp at z1; omega))
    · simp only [emit] at hp'
      exact rx.2 p hp' hnp
  | .infixApply a sym b, s => edges_infix (fun t => emit_edges a t) (fun t => emit_edges b t)
  | .list items, s => edges_list (fun u => emitList_edges items u)
  | .cond onTrue c t, s => edges_cond (fun u => emit_edges c u)
  | .and l r, s =>
    edges_logicalE (instr := .and) (r := r) (l := l) (.inl rfl) (fun u => by simp only [emit]) (by simp only [len])
      (fun h => by simp only [wfE, Bool.and_eq_true] at h; exact h.1)
      (fun h => by
        rcases h with h | ⟨h, _⟩
        · simp only [noR, Bool.and_eq_true] at h; exact h.1
        · simp only [tailR, Bool.and_eq_true] at h; exact h.1)
      (fun h => by simp only [wfE, Bool.and_eq_true] at h; exact h.2)
      (fun h => by
        rcases h with h | ⟨h, h0⟩
        · simp only [noR, Bool.and_eq_true] at h; exact .inl h.2
        · simp only [tailR, Bool.and_eq_true] at h; exact .inr ⟨h.2, h0⟩)
      (fun u => emit_edges l u)
  | .or l r, s =>
    edges_logicalE (instr := .or) (r := r) (l := l) (.inr rfl) (fun u => by simp only [emit]) (by simp only [len])
      (fun h => by simp only [wfE, Bool.and_eq_true] at h; exact h.1)
      (fun h => by
        rcases h with h | ⟨h, _⟩
        · simp only [noR, Bool.and_eq_true] at h; exact h.1
        · simp only [tailR, Bool.and_eq_true] at h; exact h.1)
      (fun h => by simp only [wfE, Bool.and_eq_true] at h; exact h.2)
      (fun h => by
        rcases h with h | ⟨h, h0⟩
        · simp only [noR, Bool.and_eq_true] at h; exact .inl h.2
        · simp only [tailR, Bool.and_eq_true] at h; exact .inr ⟨h.2, h0⟩)
      (fun u => emit_edges l u)
  | .chain arms none, s => by
    intro sM hc hp hal hw hev had hroots hwf htl hcur hnext
    simp [wfE_chain] at hwf
  | .chain arms (some fe), s => edges_chain (fun u => emitArms_edges arms u) (fun u => emit_edges fe u)

theorem emitList_edges : ∀ (items : List (Expr F)) (s : LState F), ListE sF root cur items s
  | [], s => by
    intro sM hc hp hal hw hev had hroots hwf hn hcur hnext
    refine ⟨fun pc h1 h2 => ?_, fun p hp' hnp => absurd hp' hnp⟩
    simp only [lenList] at h2; omega
  | x :: xs, s => by
    intro sM hc hp hal hw hev had hroots hwf hn hcur hnext
    simp only [wfEList, Bool.and_eq_true] at hwf
    simp only [noRList, Bool.and_eq_true] at hn
    obtain ⟨p1, z1⟩ := emit_pre root cur x s hc
    have j1 := p1.jsize
    have c1 : cur < (emit root cur x s).jumps.size := by omega
    have k1 := (emit_dep root cur x s hwf.1).2
    have al1 := hal.emit (root := root) hc hwf.1
    have hw' : W2 s.jumps.size (emitList root cur xs (emit root cur x s)) sM := by simpa only [emitList] using hw
    have px : Pre2 (emit root cur x s) (emitList root cur xs (emit root cur x s)) :=
      ⟨(emitList_pre root cur xs _ c1).1, (emitList_dep root cur xs _ hwf.2).1.app⟩
    have hnx : sF.instrs.size ≤ s.instrs.size + len x ∨ sF.depths[s.instrs.size + len x]? = some (s.dep + 1) := by
      cases xs with
      | nil =>
        have e2 : s.dep + [x].length = s.dep + 1 := by simp
        rw [e2] at hnext
        exact hnext_cast hnext (by simp [lenList])
      | cons y ys =>
        simp only [wfEList, Bool.and_eq_true] at hwf
        have hwy : AppD (emit root cur y (emit root cur x s)) sM := by
          have := (emitList_dep root cur ys (emit root cur y (emit root cur x s)) hwf.2.2).1.app
          exact this.trans (by simpa only [emitList] using hw'.app)
        have := next_first (root := root) (cur := cur) al1 hwf.2.1 hwy had
        exact .inr (by rw [← z1, ← k1]; exact this)
    have rx := sub_edges (emit_edges x s) hc hp hal (.refl s) (hw'.pre px) hev had hroots hwf.1 (.inl hn.1) hcur hnx
    have rxs := emitList_edges xs _ sM c1 (hp.of_pre p1) al1 (hw'.mono j1) hev had (fun p hp h => hroots p hp (by omega))
      hwf.2 hn.2 hcur (by
        rw [k1]
        have e2 : s.dep + (x :: xs).length = s.dep + 1 + xs.length := by simp; omega
        rw [e2] at hnext
        exact hnext_cast hnext (by simp only [lenList]; omega))
    refine ⟨fun pc h1 h2 => ?_, fun p hp' hnp => ?_⟩
    · by_cases hlt : pc < s.instrs.size + len x
      · exact rx.1 pc h1 hlt
      · exact rxs.1 pc (by omega) (by simp only [lenList] at h2; omega)
    · simp only [emitList] at hp'
      by_cases hin : p ∈ (emit root cur x s).pending.zip (emit root cur x s).pendDep
      · exact rx.2 p hin hnp
      · exact rxs.2 p hp' hin

theorem emitArms_edges : ∀ (arms : List (Bool × Expr F × Expr F)) (s : LState F), ArmsE sF root cur arms s
  | [], s => by
    intro sM join hc hp hal hwi happ hev had hroots hwf hnc harm hcur hnextA
    refine ⟨fun pc h1 h2 => ?_, fun p hp' hnp => absurd hp' hnp⟩
    simp only [lenArms] at h2; omega
  | (b, c, t) :: rest, s => by
    intro sM join hc hp hal hwi happ hev had hroots hwf hnc harm hcur hnextA
    simp only [wfEArms, Bool.and_eq_true] at hwf
    obtain ⟨p1, z1⟩ := emit_pre root cur c s hc
    have j1 := p1.jsize
    have k1 := (emit_dep root cur c s hwf.1.1).2
    have al1 := hal.emit (root := root) hc hwf.1.1
    have ala : Al (((emit root cur c s).pushJump 0).push (jumpIf b) (some (emit root cur c s).jumps.size)) :=
      (al1.pushJump 0).push _ _
    have ka : (((emit root cur c s).pushJump 0).push (jumpIf b) (some (emit root cur c s).jumps.size)).dep = s.dep := by
      cases b <;> simp [jumpIf, fall, k1]
    have ca : cur < (((emit root cur c s).pushJump 0).push (jumpIf b) (some (emit root cur c s).jumps.size)).jumps.size := by
      simp; omega
    obtain ⟨p2, z2, ok2⟩ := emitArms_pre root cur rest
      (((emit root cur c s).pushJump 0).push (jumpIf b) (some (emit root cur c s).jumps.size)) ca
    have j2 := p2.jsize
    obtain ⟨da, kr⟩ := emitArms_dep root cur rest
      (((emit root cur c s).pushJump 0).push (jumpIf b) (some (emit root cur c s).jumps.size)) hwf.2
    simp only [emitArms, List.map_cons] at hwi happ harm
    have pa : Pre2 (emit root cur c s)
        (((emit root cur c s).pushJump 0).push (jumpIf b) (some (emit root cur c s).jumps.size)) :=
      (Pre2.pushJump _ 0).trans (.push _ _ _)
    have hwc : W2 s.jumps.size (emit root cur c s) sM :=
      ⟨((hwi.pre p2).pre pa.pre).dropGe (fun i hi => by
        simp only [List.mem_cons, List.mem_map] at hi
        rcases hi with rfl | ⟨it, hit, rfl⟩
        · exact Nat.le_refl _
        · have := (ok2 it hit).1; simp at this; omega), (pa.app.trans da.app).trans happ⟩
    have dj := depth_at (t := (emit root cur c s).pushJump 0) (i := jumpIf b) (d := some (emit root cur c s).jumps.size)
      (al1.pushJump 0) (da.app.trans happ) had
    simp only [pushJump_instrs, pushJump_dep, k1] at dj
    have rc := sub_edges (emit_edges c s) hc hp hal (.refl s) hwc hev had hroots hwf.1.1
      (.inl (hnc (b, c, t) List.mem_cons_self)) hcur (.inr (by rw [← z1]; exact dj))
    have hwr := (hwi.mono (lo' := (((emit root cur c s).pushJump 0).push (jumpIf b)
      (some (emit root cur c s).jumps.size)).jumps.size) (by simp; omega)).tailIdx (by simp)
    have rr := emitArms_edges rest _ sM join ca (by
        intro r hr; have := (hp.of_pre p1) r (by simpa using hr); simp; omega) ala hwr happ hev had
      (fun p hp h => hroots p hp (by simp at h; omega)) hwf.2 (fun arm hm => hnc arm (List.mem_cons_of_mem _ hm))
      (fun it hit => by rw [ka]; exact harm it (List.mem_cons_of_mem _ hit)) hcur
      (by rw [ka]; exact hnext_cast hnextA (by simp only [lenArms, push_isize, pushJump_instrs]; omega))
    refine ⟨fun pc h1 h2 => ?_, fun p hp' hnp => ?_⟩
    · by_cases hlt : pc < s.instrs.size + len c
      · exact rc.1 pc h1 hlt
      · by_cases heq : pc = (emit root cur c s).instrs.size
        · subst heq
          have i1 := instr_at (t := (emit root cur c s).pushJump 0) (hwi.pre p2).1 hev
          simp only [pushJump_instrs] at i1
          have hjlt : (emit root cur c s).jumps.size < sF.jumps.size := by
            have := hwi.1.jsize; have := hev.jsize; simp at j2; omega
          obtain ⟨tb, htb⟩ := jumps_some hjlt
          refine .mk dj (edges_jumpIf i1 htb) (fun e hm => ?_)
          simp only [List.mem_cons, List.not_mem_nil, or_false] at hm
          rcases hm with rfl | rfl
          · exact harm (t, (emit root cur c s).jumps.size) List.mem_cons_self tb htb
          · cases rest with
            | nil =>
              exact hnext_cast hnextA (by simp only [lenArms]; omega)
            | cons r0 rest' =>
              obtain ⟨b0, c0, t0⟩ := r0
              have := first_app (first_app (emitArms_first root cur b0 c0 t0 rest' _ ala hwf.2) happ) had
              rw [ka] at this
              simp only [push_isize, pushJump_instrs] at this
              exact .inr this
        · exact rr.1 pc (by simp; omega) (by simp only [lenArms] at h2; simp; omega)
    · simp only [emitArms] at hp'
      by_cases hin : p ∈ (emit root cur c s).pending.zip (emit root cur c s).pendDep
      · exact rc.2 p hin hnp
      · refine rr.2 p hp' ?_
        simpa using hin
end

end Garnish.Abs
