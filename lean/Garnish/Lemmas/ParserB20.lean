/-
Separators, part 2 (model side): separators as whitespace inside a `( )` group.  After such a separator
`previous_second_def` is `Subexpression`, which the invariant `UInv` does not allow (a binary operator may not follow);
`FInv` is `UInv` up to `previous_second_def`, closed under trivia and — inside a group — separator tokens.
-/
import Garnish.Lemmas.ParserB19

namespace Garnish.Spec
open Garnish Garnish.Gen Garnish.Model.Parser

theorem UInv.ready_cond {st : PState} {ug p : Option Nat} {base : Nat} {E : Tree} {re cb : Nat}
    (hinv : UInv st ug p base E re cb) (hr : Ready st) :
    ∃ i n, st.lastLeft = some i ∧ st.nodes[i]? = some n ∧
      (n.definition.isValueLike || (n.definition.isGroupLike && some i != ug)) = true := by
  obtain ⟨i, n, hl, hn, hc⟩ := hr
  refine ⟨i, n, hl, hn, ?_⟩
  rcases hc with hc | hc
  · simp [hc]
  · have hgl := (bracket_facts hc).2.1
    have hne : some i ≠ ug := by
      intro e
      subst e
      have hfr := hinv.n.frame
      cases hfr with
      | bracket g re' G pg _ _ _ _ =>
        -- `i` would be both the closed bracket inside the frame and the open bracket below it
        cases hb : hinv.bot with
        | plain hl' hb' _ _ =>
          obtain ⟨nd, hnd, _, hng⟩ := hb'
          rw [hl] at hl'; injection hl' with hl'
          rw [← hl', hn] at hnd; injection hnd with hnd
          rw [← hnd, hgl] at hng; cases hng
        | closed cb' G' _ hl' _ _ hsp _ =>
          rw [hl] at hl'; injection hl' with hl'
          have hm := onSpine_mem _ E hsp
          have := (hinv.n.mem _ hm).1
          omega
    simp [hgl, hne]

/-- a step looks at `previous_second_def` only through the composition check -/
theorem step_prev_indep (st : PState) (ug : Option Nat) (s' : SecDef) (t : PToken) (il : Bool)
    (hug : underGroupOf st = .ok ug) (hadj : adjustLastLeft st ug = .ok st)
    (hadj' : adjustLastLeft { st with previousSecondDef := s' } ug = .ok { st with previousSecondDef := s' })
    (hc : checkComposition st.previousSecondDef (getDefinition t.type).2 st.checkForList =
      checkComposition s' (getDefinition t.type).2 st.checkForList) :
    step st t il = step { st with previousSecondDef := s' } t il := by
  have hu : underGroupOf { st with previousSecondDef := s' } = underGroupOf st := rfl
  unfold step
  simp only [hu, hug, hadj, hadj', Outcome.bind]
  generalize getDefinition t.type = ds at hc ⊢
  obtain ⟨d, sd⟩ := ds
  simp only at hc ⊢
  rw [hc]

def normP (st : PState) : PState := { st with previousSecondDef := .whitespace }

/-- `UInv` up to `previous_second_def`, which may also be `Subexpression` -/
structure FInv (st : PState) (ug p : Option Nat) (base : Nat) (E : Tree) (re cb : Nat) : Prop where
  inv : UInv (normP st) ug p base E re cb
  prev : st.previousSecondDef = .value ∨ st.previousSecondDef = .identifier ∨ st.previousSecondDef = .unarySuffix ∨
    st.previousSecondDef = .endGrouping ∨ st.previousSecondDef = .whitespace ∨ st.previousSecondDef = .annotation ∨
    st.previousSecondDef = .subexpression

theorem bot_congr {st st' : PState} {E : Tree} {cb : Nat} (h : Bot st E cb) (hn : st'.nodes = st.nodes)
    (hl : st'.lastLeft = st.lastLeft) : Bot st' E cb := by
  cases h with
  | plain h1 h2 h3 h4 =>
    have : st.nodes.size = st'.nodes.size := by rw [hn]
    rw [this]
    exact .plain (by rw [hl, hn]; exact h1) (by rw [hn]; exact h2) (by rw [hn]; exact h3) (by rw [hn]; exact h4)
  | closed cb G h1 h2 h3 h4 h5 h6 =>
    exact .closed cb G (by rw [hn]; exact h1) (by rw [hl]; exact h2) (by rw [hn]; exact h3) h4 h5 h6

theorem UInv.toF {st : PState} {ug p : Option Nat} {base : Nat} {E : Tree} {re cb : Nat}
    (h : UInv st ug p base E re cb) : FInv st ug p base E re cb := by
  refine ⟨⟨h.n, h.nnl, h.hug, bot_congr h.bot rfl rfl, h.spine, Or.inr (Or.inr (Or.inr (Or.inr (Or.inl rfl))))⟩, ?_⟩
  rcases h.prev with h | h | h | h | h | h
  · exact Or.inl h
  · exact Or.inr (Or.inl h)
  · exact Or.inr (Or.inr (Or.inl h))
  · exact Or.inr (Or.inr (Or.inr (Or.inl h)))
  · exact Or.inr (Or.inr (Or.inr (Or.inr (Or.inl h))))
  · exact Or.inr (Or.inr (Or.inr (Or.inr (Or.inr (Or.inl h)))))

theorem FInv.adjust {st : PState} {ug p : Option Nat} {base : Nat} {E : Tree} {re cb : Nat}
    (h : FInv st ug p base E re cb) (s : SecDef) :
    adjustLastLeft { st with previousSecondDef := s } ug = .ok { st with previousSecondDef := s } := by
  obtain ⟨i, nd, h1, h2, h3⟩ := h.inv.bot.noop_data
  exact adjust_noop _ ug (Or.inr ⟨i, nd, h1, h2, Or.inl h3⟩)

theorem FInv.adjust' {st : PState} {ug p : Option Nat} {base : Nat} {E : Tree} {re cb : Nat}
    (h : FInv st ug p base E re cb) : adjustLastLeft st ug = .ok st := by
  obtain ⟨i, nd, h1, h2, h3⟩ := h.inv.bot.noop_data
  exact adjust_noop _ ug (Or.inr ⟨i, nd, h1, h2, Or.inl h3⟩)

theorem FInv.hug {st : PState} {ug p : Option Nat} {base : Nat} {E : Tree} {re cb : Nat}
    (h : FInv st ug p base E re cb) : underGroupOf st = .ok ug := h.inv.hug

/-- composition with a token class that may follow trivia and separators alike -/
theorem FInv.comp_eq {st : PState} {ug p : Option Nat} {base : Nat} {E : Tree} {re cb : Nat}
    (h : FInv st ug p base E re cb) (x : SecDef)
    (hx : x = .whitespace ∨ x = .annotation ∨ x = .subexpression ∨ x = .endGrouping ∨ x = .endSideEffect) (c : Bool) :
    checkComposition st.previousSecondDef x c = checkComposition .whitespace x c := by
  rcases h.prev with h | h | h | h | h | h | h <;> rw [h] <;> rcases hx with rfl | rfl | rfl | rfl | rfl <;> cases c <;> rfl

/-- a trivia token, or — inside a group — a separator, after an operand: only the list flag, `previous_second_def` and
    `last_token` change -/
theorem step_fillU {st : PState} {ug p : Option Nat} {base : Nat} {E : Tree} {re cb : Nat} {inG : Bool}
    (hinv : UInv st ug p base E re cb) (hk : KindOK st ug inG) (w : PToken) (il : Bool)
    (hw : isTriviaTok w = true ∨ (inG = true ∧ isSepTok w = true)) :
    ∃ c, step st w il =
        .ok { st with checkForList := c, previousSecondDef := (getDefinition w.type).2, lastToken := w } ∧
      (st.checkForList = true → c = true) ∧
      (Ready st → (w.type = .whitespace ∨ isSepTok w = true) → c = true) := by
  have hadj := hinv.adjust
  have hug := hinv.hug
  have hnl := hinv.nnl
  obtain ⟨i, n, hl, hn, _⟩ := hinv.bot.noop_data
  have hrc : Ready st → (n.definition.isValueLike || (n.definition.isGroupLike && some i != ug)) = true := by
    intro hr
    obtain ⟨i', n', hl', hn', hc⟩ := hinv.ready_cond hr
    rw [hl] at hl'; injection hl' with hl'; subst hl'
    rw [hn] at hn'; injection hn' with hn'; subst hn'
    exact hc
  -- the whitespace-like case
  have hws : ∀ (d : Definition) (sd : SecDef), getDefinition w.type = (d, sd) →
      checkComposition st.previousSecondDef sd st.checkForList = true → d = .drop ∨ True →
      dispatch { st with previousSecondDef := sd } st.nodes.size w d sd (if il = true then none else some (st.nodes.size + 1)) ug =
        setupSpaceListCheck { st with previousSecondDef := sd } ug →
      ∃ c, step st w il = .ok { st with checkForList := c, previousSecondDef := (getDefinition w.type).2, lastToken := w } ∧
        (st.checkForList = true → c = true) ∧ (Ready st → c = true) := by
    intro d sd hds hcomp _ hdisp
    unfold step
    simp only [hug, Outcome.bind, hadj, hds, hcomp, Bool.not_true, Bool.false_eq_true, if_false, hdisp]
    cases hcnd : (n.definition.isValueLike || (n.definition.isGroupLike && some i != ug)) with
    | true =>
      refine ⟨true, ?_, fun _ => rfl, fun _ => rfl⟩
      simp only [setupSpaceListCheck, hl, hn, hcnd, if_true, Outcome.bind, pushNode, bne_self_eq_false,
        Bool.false_eq_true, if_false]
      simp [hnl]
    | false =>
      refine ⟨st.checkForList, ?_, fun h => h, fun hr => by rw [hrc hr] at hcnd; cases hcnd⟩
      simp only [setupSpaceListCheck, hl, hn, hcnd, Outcome.bind, pushNode, bne_self_eq_false,
        Bool.false_eq_true, if_false]
      simp [hnl]
  rcases hw with hw | ⟨hg, hw⟩
  · unfold isTriviaTok at hw
    have hcases : w.type = .whitespace ∨ w.type = .annotation ∨ w.type = .lineAnnotation := by
      simp only [Bool.or_eq_true, beq_iff_eq] at hw
      rcases hw with (h | h) | h
      · exact Or.inl h
      · exact Or.inr (Or.inl h)
      · exact Or.inr (Or.inr h)
    rcases hcases with h | h | h
    · obtain ⟨c, h1, h2, h3⟩ := hws .drop .whitespace (by rw [h]; rfl) (checkComposition_trivia _ _).1 (Or.inl rfl) rfl
      exact ⟨c, h1, h2, fun hr _ => h3 hr⟩
    · refine ⟨st.checkForList, ?_, fun h => h, fun _ hx => ?_⟩
      · unfold step
        simp only [hug, Outcome.bind, hadj]
        rw [h]
        simp only [getDefinition, (checkComposition_trivia _ _).2, Bool.not_true, Bool.false_eq_true, if_false, dispatch,
          pushNode, bne_self_eq_false]
        simp [hl, hnl]
      · rcases hx with hx | hx
        · rw [h] at hx; cases hx
        · unfold isSepTok at hx; rw [h] at hx; simp [getDefinition] at hx
    · refine ⟨st.checkForList, ?_, fun h => h, fun _ hx => ?_⟩
      · unfold step
        simp only [hug, Outcome.bind, hadj]
        rw [h]
        simp only [getDefinition, (checkComposition_trivia _ _).2, Bool.not_true, Bool.false_eq_true, if_false, dispatch,
          pushNode, bne_self_eq_false]
        simp [hl, hnl]
      · rcases hx with hx | hx
        · rw [h] at hx; cases hx
        · unfold isSepTok at hx; rw [h] at hx; simp [getDefinition] at hx
  · subst hg
    have hs : (getDefinition w.type).2 = .subexpression := by unfold isSepTok at hw; simpa using hw
    cases hds : getDefinition w.type with
    | mk d sd =>
      rw [hds] at hs
      simp only at hs
      subst hs
      obtain ⟨c, h1, h2, h3⟩ := hws d .subexpression hds hinv.comp_sep (Or.inr trivial)
        (by simp only [dispatch]
            exact armSub_group (st := { st with previousSecondDef := SecDef.subexpression }) hug hk _ _ _)
      exact ⟨c, by rw [hds] at h1; exact h1, h2, fun hr _ => h3 hr⟩

/-- the same from a state that satisfies `FInv` -/
theorem step_fillF {st : PState} {ug p : Option Nat} {base : Nat} {E : Tree} {re cb : Nat} {inG : Bool}
    (hinv : FInv st ug p base E re cb) (hk : KindOK st ug inG) (w : PToken) (il : Bool)
    (hw : isTriviaTok w = true ∨ (inG = true ∧ isSepTok w = true)) :
    ∃ c, step st w il =
        .ok { st with checkForList := c, previousSecondDef := (getDefinition w.type).2, lastToken := w } ∧
      (st.checkForList = true → c = true) ∧
      (Ready st → (w.type = .whitespace ∨ isSepTok w = true) → c = true) := by
  have hsd : (getDefinition w.type).2 = .whitespace ∨ (getDefinition w.type).2 = .annotation ∨
      (getDefinition w.type).2 = .subexpression ∨ (getDefinition w.type).2 = .endGrouping ∨
      (getDefinition w.type).2 = .endSideEffect := by
    rcases hw with hw | ⟨_, hw⟩
    · rcases trivia_secdef hw with h | h
      · exact Or.inl h
      · exact Or.inr (Or.inl h)
    · unfold isSepTok at hw; exact Or.inr (Or.inr (Or.inl (by simpa using hw)))
  have hindep := step_prev_indep st ug .whitespace w il hinv.hug hinv.adjust' (hinv.adjust _)
    (hinv.comp_eq _ hsd _)
  obtain ⟨c, h1, h2, h3⟩ := step_fillU (st := normP st) hinv.inv hk w il hw
  exact ⟨c, by rw [hindep]; exact h1, h2, h3⟩

theorem FInv.fill {st : PState} {ug p : Option Nat} {base : Nat} {E : Tree} {re cb : Nat}
    (h : FInv st ug p base E re cb) (c : Bool) (sd : SecDef)
    (hsd : sd = .whitespace ∨ sd = .annotation ∨ sd = .subexpression) (w : PToken) :
    FInv { st with checkForList := c, previousSecondDef := sd, lastToken := w } ug p base E re cb := by
  refine ⟨⟨h.inv.n, h.inv.nnl, h.inv.hug, bot_congr h.inv.bot rfl rfl, h.inv.spine,
    Or.inr (Or.inr (Or.inr (Or.inr (Or.inl rfl))))⟩, ?_⟩
  rcases hsd with h | h | h
  · exact Or.inr (Or.inr (Or.inr (Or.inr (Or.inl h))))
  · exact Or.inr (Or.inr (Or.inr (Or.inr (Or.inr (Or.inl h)))))
  · exact Or.inr (Or.inr (Or.inr (Or.inr (Or.inr (Or.inr h)))))

/-- the tokens that are whitespace for the innermost frame -/
def isGFill (inG : Bool) (t : PToken) : Bool := isTriviaTok t || (inG && isSepTok t)

def setsList (t : PToken) : Bool := t.type == .whitespace || isSepTok t

/-- a run of trivia tokens (inside a group: and separators) after an operand -/
theorem fill_runU {ug p : Option Nat} {base : Nat} {E : Tree} {re cb : Nat} (inG : Bool) :
    ∀ (ws : List PToken) (st : PState) (rest : List PToken), FInv st ug p base E re cb → KindOK st ug inG →
    (∀ w ∈ ws, isGFill inG w = true) →
    ∃ st', loop st (ws ++ rest) = loop st' rest ∧ FInv st' ug p base E re cb ∧ st'.nodes = st.nodes ∧
      st'.groupStack = st.groupStack ∧ st'.currentGroup = st.currentGroup ∧ st'.lastLeft = st.lastLeft ∧
      st'.nextLastLeft = st.nextLastLeft ∧
      st'.lastToken = (ws.getLast?).getD st.lastToken ∧
      st'.previousSecondDef = ((ws.getLast?).map (fun w => (getDefinition w.type).2)).getD st.previousSecondDef ∧
      (Ready st → (st.checkForList = true ∨ ∃ w ∈ ws, setsList w = true) → st'.checkForList = true)
  | [], st, _, h, _, _ => by
    refine ⟨st, rfl, h, rfl, rfl, rfl, rfl, rfl, rfl, rfl, fun _ hc => ?_⟩
    rcases hc with hc | ⟨w, hw, _⟩
    · exact hc
    · cases hw
  | w :: ws, st, rest, h, hk, hws => by
    have hw := hws w (List.mem_cons_self ..)
    have hw' : isTriviaTok w = true ∨ (inG = true ∧ isSepTok w = true) := by
      unfold isGFill at hw
      simp only [Bool.or_eq_true, Bool.and_eq_true] at hw
      exact hw
    obtain ⟨c, hstep, hc1, hc2⟩ := step_fillF h hk w (ws ++ rest).isEmpty hw'
    have hsd : (getDefinition w.type).2 = .whitespace ∨ (getDefinition w.type).2 = .annotation ∨
        (getDefinition w.type).2 = .subexpression := by
      rcases hw' with hw' | ⟨_, hw'⟩
      · rcases trivia_secdef hw' with h | h
        · exact Or.inl h
        · exact Or.inr (Or.inl h)
      · unfold isSepTok at hw'; exact Or.inr (Or.inr (by simpa using hw'))
    obtain ⟨st', h1, h2, h3, h4, h5, h6, h6', h7, h8, h9⟩ :=
      fill_runU inG ws { st with checkForList := c, previousSecondDef := (getDefinition w.type).2, lastToken := w } rest
        (h.fill c _ hsd w) hk (fun x hx => hws x (List.mem_cons_of_mem _ hx))
    refine ⟨st', ?_, h2, h3, h4, h5, h6, h6', ?_, ?_, ?_⟩
    · simp only [List.cons_append, loop]
      rw [hstep]
      simp only [Outcome.bind]
      exact h1
    · rw [h7]
      cases ws with
      | nil => rfl
      | cons w2 ws2 => rw [List.getLast?_cons_cons]; exact getD_getLast_cons' _ _ _ _
    · rw [h8]
      cases ws with
      | nil => rfl
      | cons w2 ws2 => rw [List.getLast?_cons_cons]; exact getD_map_getLast_cons' _ _ _ _ _
    · intro hr hc
      apply h9 hr
      rcases hc with hc | ⟨w', hw', hwt⟩
      · exact Or.inl (hc1 hc)
      · rcases List.mem_cons.mp hw' with e | e
        · subst e
          left
          apply hc2 hr
          unfold setsList at hwt
          simp only [Bool.or_eq_true, beq_iff_eq] at hwt
          exact hwt
        · exact Or.inr ⟨w', e, hwt⟩
where
  getD_getLast_cons' {α : Type} (a : α) (l : List α) (x y : α) :
      ((a :: l).getLast?).getD x = ((a :: l).getLast?).getD y := by
    rw [List.getLast?_eq_some_getLast (List.cons_ne_nil a l)]; rfl
  getD_map_getLast_cons' {α β : Type} (f : α → β) (a : α) (l : List α) (x y : β) :
      (((a :: l).getLast?).map f).getD x = (((a :: l).getLast?).map f).getD y := by
    rw [List.getLast?_eq_some_getLast (List.cons_ne_nil a l)]; rfl

/-- the closing bracket after trivia / separators -/
theorem step_closeF {st : PState} {g : Nat} {E : Tree} {re cb : Nat} (hinv : FInv st (some g) (some g) (g + 1) E re cb)
    (G : ParseNode) (hG : st.nodes[g]? = some G) (fl : Bool) (hback : st.groupStack.back? = some (g, fl)) (c : PToken)
    (hcl : closes G.definition c) (il : Bool) :
    step st c il = .ok (stepC st g fl c) := by
  have hsd : (getDefinition c.type).2 = .endGrouping ∨ (getDefinition c.type).2 = .endSideEffect := by
    rcases hcl with ⟨_, h⟩ | ⟨_, h⟩ | ⟨_, h⟩ <;> rw [h] <;> simp [getDefinition]
  have hindep := step_prev_indep st (some g) .whitespace c il hinv.hug hinv.adjust' (hinv.adjust _)
    (hinv.comp_eq _ (hsd.elim (fun h => Or.inr (Or.inr (Or.inr (Or.inl h)))) (fun h => Or.inr (Or.inr (Or.inr (Or.inr h))))) _)
  rw [hindep]
  exact step_closeU (st := normP st) hinv.inv G hG fl hback c hcl il

end Garnish.Spec
