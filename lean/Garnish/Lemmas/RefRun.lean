/-
The reference parser run over a prefix of the tokens (`refRun`): `refLoop` over `a ++ b` is the run over `a` followed by
`refLoop` over `b`.  The run preserves the simulation of Lemmas/RefSim, does not depend on the tokens after the segment
when the segment ends with a value or a closer, and never looks below the stack it started with.
-/
import Garnish.Lemmas.RefTrivia2

namespace Garnish.Spec
open Garnish Garnish.Gen Garnish.Model.Parser

/-- run over the segment `ts`; `rest` = the tokens after the segment -/
def refRun (tbl : Table) : Frame → List Frame → Nat → List PToken → List PToken → Outcome (Frame × List Frame)
  | f, stack, _, [], _ => .ok (f, stack)
  | f, stack, pos, t :: ts, rest =>
    Outcome.bind (refStep tbl f stack pos t (ts ++ rest)) fun (f, stack) => refRun tbl f stack (pos + 1) ts rest

theorem refLoop_append (tbl : Table) : ∀ (a b : List PToken) (f : Frame) (stack : List Frame) (pos : Nat),
    refLoop tbl f stack pos (a ++ b) =
      Outcome.bind (refRun tbl f stack pos a b) fun (f, stack) => refLoop tbl f stack (pos + a.length) b
  | [], b, f, stack, pos => rfl
  | t :: a, b, f, stack, pos => by
    simp only [List.cons_append, refLoop, refRun]
    cases refStep tbl f stack pos t (a ++ b) with
    | ok fs =>
      obtain ⟨f', stack'⟩ := fs
      simp only [Outcome.bind]
      rw [refLoop_append tbl a b f' stack' (pos + 1)]
      have : pos + 1 + a.length = pos + (a.length + 1) := by omega
      simp only [List.length_cons, this]
      rfl
    | err e => rfl
    | panic s => rfl
    | fuelOut => rfl

theorem refRun_sim {E : RTree → RTree → Prop} (hE : EOK E) (tbl : Table) : ∀ (ts : List PToken) {f f' : Frame}
    {stack stack' : List Frame} (pos pos' : Nat) (rest : List PToken), FSim E f f' → LSim E stack stack' →
    ORel (SSim E) (refRun tbl f stack pos ts rest) (refRun tbl f' stack' pos' ts rest)
  | [], _, _, _, _, _, _, _, h, hs => ⟨h, hs⟩
  | t :: ts, f, f', stack, stack', pos, pos', rest, h, hs => by
    simp only [refRun]
    have hst := refStep_sim hE tbl h hs pos pos' t (ts ++ rest)
    cases h1 : refStep tbl f stack pos t (ts ++ rest) <;> cases h2 : refStep tbl f' stack' pos' t (ts ++ rest) <;>
      rw [h1, h2] at hst <;> simp only [ORel] at hst <;> simp only [Outcome.bind, ORel] <;> try exact hst
    exact refRun_sim hE tbl ts (pos + 1) (pos' + 1) rest hst.1 hst.2

/-- the run over a segment depends on the following tokens only through `closerFollows` -/
theorem refRun_rest_congr (tbl : Table) : ∀ (ts : List PToken) (f : Frame) (stack : List Frame) (pos : Nat)
    {r r' : List PToken}, closerFollows r = closerFollows r' → refRun tbl f stack pos ts r = refRun tbl f stack pos ts r'
  | [], _, _, _, _, _, _ => rfl
  | t :: ts, f, stack, pos, r, r', h => by
    simp only [refRun]
    rw [refStep_rest_congr tbl f stack pos t (closerFollows_append_congr h ts)]
    cases refStep tbl f stack pos t (ts ++ r') with
    | ok fs => obtain ⟨f', stack'⟩ := fs; exact refRun_rest_congr tbl ts f' stack' (pos + 1) h
    | err e => rfl
    | panic s => rfl
    | fuelOut => rfl

/-- the last token of a complete operand: a value or a closer -/
def endsOperand (z : PToken) : Bool :=
  ((getDefinition z.type).2 == .value || (getDefinition z.type).2 == .identifier || (getDefinition z.type).2 == .endGrouping) &&
    !(isFiller z.type || isSeparator z.type)

theorem closerFollows_last {z : PToken} (hz : (isFiller z.type || isSeparator z.type) = false) :
    ∀ (x r r' : List PToken), closerFollows (x ++ z :: r) = closerFollows (x ++ z :: r')
  | [], r, r' => by simp [closerFollows, hz]
  | t :: x, r, r' => by
    simp only [List.cons_append, closerFollows]
    split
    · exact closerFollows_last hz x r r'
    · rfl

theorem refStep_rest_irrelevant {z : PToken} (hz : endsOperand z = true) (f : Frame) (stack : List Frame) (pos : Nat)
    (r r' : List PToken) : refStep Table.gen f stack pos z r = refStep Table.gen f stack pos z r' := by
  unfold endsOperand at hz
  unfold refStep
  have hd : Table.gen.define z.type = getDefinition z.type := rfl
  rw [hd]
  generalize getDefinition z.type = ds at hz
  obtain ⟨d, s⟩ := ds
  simp only at hz
  cases s <;> simp at hz <;> rfl

/-- a segment that ends with a value or a closer is processed the same way whatever follows it -/
theorem refRun_ends {z : PToken} (hz : endsOperand z = true) : ∀ (ms : List PToken) (f : Frame) (stack : List Frame)
    (pos : Nat) (r r' : List PToken),
    refRun Table.gen f stack pos (ms ++ [z]) r = refRun Table.gen f stack pos (ms ++ [z]) r'
  | [], f, stack, pos, r, r' => by
    simp only [List.nil_append, refRun]
    rw [refStep_rest_irrelevant hz f stack pos r r']
  | t :: ms, f, stack, pos, r, r' => by
    have hz' : (isFiller z.type || isSeparator z.type) = false := by
      unfold endsOperand at hz
      simp only [Bool.and_eq_true, Bool.not_eq_true'] at hz
      exact hz.2
    simp only [List.cons_append, refRun]
    have e : ∀ q : List PToken, ms ++ [z] ++ q = ms ++ z :: q := by intro q; simp
    rw [e r, e r', refStep_rest_congr Table.gen f stack pos t (closerFollows_last hz' ms r r')]
    cases refStep Table.gen f stack pos t (ms ++ z :: r') with
    | ok fs => obtain ⟨f', stack'⟩ := fs; exact refRun_ends hz ms f' stack' (pos + 1) r r'
    | err e => rfl
    | panic s => rfl
    | fuelOut => rfl

/-! ### the stack below -/

theorem refStep_base (tbl : Table) (f : Frame) (stack base : List Frame) (pos : Nat) (t : PToken) (rest : List PToken)
    {f' : Frame} {stack' : List Frame} (h : refStep tbl f stack pos t rest = .ok (f', stack')) :
    refStep tbl f (stack ++ base) pos t rest = .ok (f', stack' ++ base) := by
  unfold refStep at h ⊢
  generalize tbl.define t.type = ds at h ⊢
  obtain ⟨d, s⟩ := ds
  cases s with
  | none => cases h
  | startSideEffect => cases h
  | endSideEffect => cases h
  | annotation => simp only at h ⊢; injection h with h; injection h with e1 e2; rw [e1, e2]
  | whitespace => simp only at h ⊢; injection h with h; injection h with e1 e2; rw [← e1, e2]
  | value | identifier =>
    simp only at h ⊢
    split at h
    · cases h
    · rename_i hnd
      rw [if_neg hnd]
      cases hb : beforeOperand tbl f pos with
      | ok g =>
        rw [hb] at h; simp only [Outcome.bind] at h ⊢
        injection h with h; injection h with e1 e2; rw [← e1, e2]
      | err _ => rw [hb] at h; cases h
      | panic _ => rw [hb] at h; cases h
      | fuelOut => rw [hb] at h; cases h
  | unaryPrefix =>
    simp only at h ⊢
    cases hb : beforeOperand tbl f pos with
    | ok g =>
      rw [hb] at h; simp only [Outcome.bind] at h ⊢
      injection h with h; injection h with e1 e2; rw [← e1, e2]
    | err _ => rw [hb] at h; cases h
    | panic _ => rw [hb] at h; cases h
    | fuelOut => rw [hb] at h; cases h
  | startGrouping =>
    simp only at h ⊢
    cases hb : beforeOperand tbl f pos with
    | ok g =>
      rw [hb] at h; simp only [Outcome.bind] at h ⊢
      injection h with h; injection h with e1 e2; rw [← e1, ← e2]; rfl
    | err _ => rw [hb] at h; cases h
    | panic _ => rw [hb] at h; cases h
    | fuelOut => rw [hb] at h; cases h
  | binaryLeftToRight | binaryRightToLeft | optionalBinaryLeftToRight | unarySuffix =>
    simp only at h ⊢
    cases hq : tbl.prio d with
    | none => rw [hq] at h; cases h
    | some q =>
      rw [hq] at h; simp only at h ⊢
      split at h
      · cases h
      · rename_i hc
        rw [if_neg hc]
        injection h with h; injection h with e1 e2; rw [← e1, e2]
  | endGrouping =>
    simp only at h ⊢
    cases hctx : f.ctx with
    | none => rw [hctx] at h; cases h
    | some gp =>
      obtain ⟨gd, gpos⟩ := gp
      rw [hctx] at h
      cases stack with
      | nil => cases h
      | cons parent st =>
        simp only [List.cons_append] at h ⊢
        split at h
        · cases h
        · rename_i h1
          split at h
          · cases h
          · rename_i h2
            rw [if_neg h1, if_neg h2]
            injection h with h; injection h with e1 e2; rw [← e1, e2]
  | subexpression =>
    simp only at h ⊢
    split at h
    · rename_i c1
      rw [if_pos c1]
      injection h with h; injection h with e1 e2; rw [← e1, e2]
    · rename_i c1
      rw [if_neg c1]
      split at h
      · rename_i c2
        rw [if_pos c2]
        injection h with h; injection h with e1 e2; rw [← e1, e2]
      · rename_i c2
        rw [if_neg c2]
        split at h
        · cases h
        · rename_i c3
          rw [if_neg c3]
          cases hq : tbl.prio d with
          | none => rw [hq] at h; cases h
          | some q =>
            rw [hq] at h; simp only at h ⊢
            injection h with h; injection h with e1 e2; rw [← e1, e2]

theorem refRun_base (tbl : Table) (base : List Frame) : ∀ (ts : List PToken) (f : Frame) (stack : List Frame) (pos : Nat)
    (rest : List PToken) {f' : Frame} {stack' : List Frame}, refRun tbl f stack pos ts rest = .ok (f', stack') →
    refRun tbl f (stack ++ base) pos ts rest = .ok (f', stack' ++ base)
  | [], f, stack, pos, rest, f', stack', h => by
    simp only [refRun] at h ⊢
    injection h with h; injection h with e1 e2; rw [e1, e2]
  | t :: ts, f, stack, pos, rest, f', stack', h => by
    simp only [refRun] at h ⊢
    cases hs : refStep tbl f stack pos t (ts ++ rest) with
    | ok fs =>
      obtain ⟨f1, stack1⟩ := fs
      rw [hs] at h
      simp only [Outcome.bind] at h
      rw [refStep_base tbl f stack base pos t _ hs]
      simp only [Outcome.bind]
      exact refRun_base tbl base ts f1 stack1 (pos + 1) rest h
    | err _ => rw [hs] at h; cases h
    | panic _ => rw [hs] at h; cases h
    | fuelOut => rw [hs] at h; cases h

end Garnish.Spec
