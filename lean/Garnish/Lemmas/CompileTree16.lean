/-
The tie between the two builder models (16): one root — the jump entry, the inner loop, the terminators.
-/
import Garnish.Lemmas.CompileTree15
import Garnish.Lemmas.CompileDepth9
namespace Garnish.Abs.Tree
open Garnish Garnish.Gen Garnish.Spec Garnish.Abs Garnish.Model.Parser Garnish.Model.Literals Garnish.Model.Build

variable {F : Type} {pf : List Char → Option F} {tree : Array ParseNode} {bodies : List (Nat × Expr F)}

/-- the terminator loop of `build` is `addTerms` -/
theorem pushEnd_addTerms (start : Nat) (last : Option Instr) : ∀ (terms : List Instr) (data : BState F) (s : LState F),
    DataEq data s → DataEq (pushEndInstructions last start data terms) (addTerms start last terms s)
  | [], _, _, h => h
  | t :: ts, data, s, h => by
    simp only [pushEndInstructions, addTerms]
    cases last with
    | none =>
      have : ¬ ((none : Option Instr) = some t ∧ t.1 = .endExpression ∧ s.instrs.size > start) := fun x => by cases x.1
      rw [if_neg this]
      exact pushEnd_addTerms start none ts _ _ (h.push _ _ _)
    | some x =>
      simp only [getInstructionLen, h.instrs, Option.some.injEq]
      by_cases hc : x = t ∧ t.1 = .endExpression ∧ s.instrs.size > start
      · rw [if_pos hc, if_pos hc]; exact pushEnd_addTerms start (some x) ts _ _ h
      · rw [if_neg hc, if_neg hc]; exact pushEnd_addTerms start (some x) ts _ _ (h.push _ _ _)

theorem back_of_toList {a : Array Nat} {l : List Nat} {x : Nat} (h : a.toList = l ++ [x]) :
    a.back? = some x ∧ a.pop.toList = l := by
  have hs : a.size = l.length + 1 := by rw [← Array.length_toList, h]; simp
  constructor
  · rw [Array.back?, ← Array.getElem?_toList, h, hs]; simp
  · rw [Array.toList_pop, h]; simp

/-- a run of the inner loop that empties the work list ends the loop -/
theorem innerLoop_of_steps {crj k sf : Nat} {A B : Ctx F} (h : Steps pf tree crj k A B) (hB : B.stack = #[]) (hsf : k + 1 ≤ sf) :
    innerLoop pf tree crj sf A = .ok (B, sf - k) := by
  have e : sf = (sf - k - 1 + 1) + k := by omega
  rw [e, h]
  simp only [innerLoop, hB]
  have : (sf - k - 1 + 1 + k - k) = sf - k - 1 + 1 := by omega
  rw [this]
  rfl

/-- the work list cannot be emptied in no step -/
theorem steps_pos {crj k i : Nat} {d d' : BState F} {n n' : Nodes} {RS RS' : Array Nat}
    (h : Steps pf tree crj k ⟨d, n, RS, #[i]⟩ ⟨d', n', RS', #[]⟩) : 1 ≤ k := by
  rcases Nat.eq_zero_or_pos k with hk | hk
  · subst hk
    have := h 1
    simp only [Nat.add_zero] at this
    have e1 : innerLoop pf tree crj 1 ⟨d', n', RS', #[]⟩ = .ok (⟨d', n', RS', #[]⟩, 1) := rfl
    rw [e1] at this
    simp only [innerLoop] at this
    have hb : (#[i] : Array Nat).back? = some i := rfl
    simp only [hb] at this
    cases htr : tree[i]? with
    | none => rw [htr] at this; cases this
    | some pn =>
      rw [htr] at this
      simp only at this
      cases hh : handleParseNode pf ⟨d, n, RS, (#[i] : Array Nat).pop⟩ crj i pn with
      | ok c =>
        rw [hh] at this
        simp only [Outcome.bind] at this
        cases ha : afterHandle c.nodes i with
        | ok nn => rw [ha] at this; cases this
        | err e => rw [ha] at this; cases this
        | panic s => rw [ha] at this; cases this
        | fuelOut => rw [ha] at this; cases this
      | err e => rw [hh] at this; cases this
      | panic s => rw [hh] at this; cases this
      | fuelOut => rw [hh] at this; cases this
  · exact hk

/-- **one iteration of the root loop**, once the jump entry of the root is settled (`rootJump`): the inner loop emits the
root's main line, the terminator loop appends what `addTerms` appends -/
theorem root_iter {r lo hi cur crj rf sf : Nat} {b : Expr F} {ex : Ex} {ctx : Ctx F} {RSp : List Nat} {data1 : BState F}
    {s1 : LState F} (hrep : Rep pf tree bodies lo hi r b) (hex : ex.cond = none)
    (hrs : ctx.rootStack.toList = RSp ++ [r])
    (hj : rootJump ctx.data ctx.nodes r = .ok (data1, crj))
    (hsz : ctx.nodes.size = tree.size) (hnode : ctx.nodes[r]? = some (some (mkNode r cur none ex)))
    (hdat : DataEq data1 s1) (hcur : cur < s1.jumps.size) (hsf : 2 * (hi - lo) + 1 ≤ sf) (root : Nat) :
    ∃ (k : Nat) (data3 : BState F) (nodes2 : Nodes) (RS2 : Array Nat) (newR : List (RRec F)),
      Model.Build.rootLoop pf tree (rf + 1) sf ctx = Model.Build.rootLoop pf tree rf (sf - k) ⟨data3, nodes2, RS2, #[]⟩ ∧
      1 ≤ k ∧ k + wsum newR ≤ 2 * (hi - lo) ∧
      DataEq data3 (addTerms s1.instrs.size (emit root cur b s1).instrs.back? (ex.ends.getD [(.endExpression, none)])
        (emit root cur b s1)) ∧
      RS2.toList = RSp ++ (newR.map (·.idx)).reverse ∧
      (emit root cur b s1).pending = newR.map (·.root) ++ s1.pending ∧
      Done pf tree bodies (Ival lo hi) none (mkNode r cur none ex) 1 ctx.nodes nodes2 newR := by
  obtain ⟨hback, hpop⟩ := back_of_toList hrs
  have pre : Pre tree ctx.nodes lo hi r cur none ex (mkNode r cur none ex) :=
    ⟨hsz, hnode, fun _ _ h => (by cases h), fun ⟨c, h⟩ => (by rw [hex] at h; cases h)⟩
  obtain ⟨k, data2, nodes2, RS2, newR, st, hk, hd2, hrs2, hp2, done, bz, hbz, hbze⟩ :=
    sim_of_rep hrep crj root cur data1 ctx.nodes ctx.rootStack.pop #[] s1 none ex _ pre hdat hcur
  have hkpos := steps_pos st
  have hin := innerLoop_of_steps st rfl (by omega : k + 1 ≤ sf)
  refine ⟨k, pushEndInstructions (if data2.instrs.size == 0 then none else data2.instrs[data2.instrs.size - 1]?)
    (getInstructionLen data1) data2 (ex.ends.getD [(.endExpression, none)]), nodes2, RS2, newR, ?_, hkpos, hk, ?_, ?_, hp2, done⟩
  · simp only [Model.Build.rootLoop, hback, hj, Outcome.bind]
    have e : (#[r] : Array Nat) = (#[] : Array Nat).push r := rfl
    rw [e, hin]
    simp only [hbz]
    cases hends : ex.ends with
    | none => rw [hends] at hbze; simp only [hbze, Option.getD]
    | some t => rw [hends] at hbze; simp only [hbze, Option.getD]
  · have hlast : (if data2.instrs.size == 0 then none else data2.instrs[data2.instrs.size - 1]?) =
        (emit root cur b s1).instrs.back? := by
      rw [← hd2.instrs]
      by_cases h0 : data2.instrs.size = 0
      · simp [h0, Array.back?]
      · simp [h0, Array.back?]
    rw [hlast]
    have := pushEnd_addTerms (getInstructionLen data1) (emit root cur b s1).instrs.back? (ex.ends.getD [(.endExpression, none)]) _ _ hd2
    simp only [getInstructionLen, hdat.instrs] at this ⊢
    exact this
  · rw [hrs2, hpop]

end Garnish.Abs.Tree
