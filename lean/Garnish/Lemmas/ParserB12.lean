/-
Brackets, part 12: the expression syntax `Ex` of the fragment with groups `( .. )` and nested expressions `{ .. }`,
the induction over it (`ex_ok`), the end of the parse (`finish_U`), the parse-level theorem `parse_ex`, and the decidable
recogniser `frag5`.

  operand ::= prefix* value | prefix* ( trivia* expr trivia* ) | prefix* { trivia* expr trivia* }
  expr    ::= operand | expr trivia* binop trivia* operand | expr suffix
-/
import Garnish.Lemmas.ParserB18

namespace Garnish.Spec
open Garnish Garnish.Gen Garnish.Model.Parser

inductive Ex where
  | atom (pre : List PToken) (a : PToken)
  | br (pre : List PToken) (o : PToken) (wsA : List PToken) (e : Ex) (wsB : List PToken) (c : PToken)
  | bin (e : Ex) (ws1 : List PToken) (op : PToken) (ws2 : List PToken) (x : Ex)
  | suf (e : Ex) (s : PToken)
  | lst (e : Ex) (ws : List PToken) (x : Ex)

namespace Ex

def toks : Ex → List PToken
  | atom pre a => pre ++ [a]
  | br pre o wsA e wsB c => pre ++ (o :: (wsA ++ (e.toks ++ (wsB ++ [c]))))
  | bin e ws1 op ws2 x => e.toks ++ (ws1 ++ (op :: (ws2 ++ x.toks)))
  | suf e s => e.toks ++ [s]
  | lst e ws x => e.toks ++ (ws ++ x.toks)

def isOpd : Ex → Bool
  | atom .. => true
  | br .. => true
  | _ => false

def endsSuffix : Ex → Bool
  | suf .. => true
  | _ => false

def closeMatches (o c : PToken) : Bool :=
  (o.type == .startGroup && c.type == .endGroup) || (o.type == .startExpression && c.type == .endExpression)

/-- `,` and infix identifiers -/
def isOptTok (t : PToken) : Bool := (getDefinition t.type).2 == .optionalBinaryLeftToRight

/-- well-formedness; `L`: implicit space lists allowed; `C`: `,` and infix identifiers allowed as binary operators -/
def ok (L C : Bool) : Ex → Bool
  | atom pre a => pre.all isPrefixTok && isAtom10 a
  | br pre o wsA e wsB c =>
    pre.all isPrefixTok && isOpenTok o && closeMatches o c && wsA.all isTriviaTok && e.ok L C && wsB.all isTriviaTok
  | bin e ws1 op ws2 x =>
    e.ok L C && ws1.all isTriviaTok && (isBinopTok op || (C && isOptTok op)) && ws2.all isTriviaTok && x.isOpd && x.ok L C
  | suf e s => e.ok L C && isSuffixTok s
  | lst e ws x =>
    L && e.ok L C && !e.endsSuffix && ws.all isTriviaTok && ws.any (fun w => w.type == .whitespace) && x.isOpd && x.ok L C

theorem toks_ne : ∀ e : Ex, e.toks ≠ []
  | atom pre a => by simp [toks]
  | br pre o wsA e wsB c => by simp [toks]
  | bin e ws1 op ws2 x => by simp [toks]
  | suf e s => by simp [toks]
  | lst e ws x => by simp [toks, toks_ne e]

end Ex

theorem bin3_of_ok {C : Bool} {op : PToken} (h : (isBinopTok op || (C && Ex.isOptTok op)) = true) : isBin3Tok op = true := by
  unfold isBin3Tok
  unfold isBinopTok Ex.isOptTok at h
  simp only [Bool.or_eq_true, Bool.and_eq_true] at h ⊢
  rcases h with h | ⟨_, h⟩
  · exact Or.inl h
  · exact Or.inr h

theorem closeMatches_isCloseFor {o c : PToken} (h : Ex.closeMatches o c = true) :
    isCloseFor (getDefinition o.type).1 c := by
  unfold Ex.closeMatches at h
  simp only [Bool.or_eq_true, Bool.and_eq_true, beq_iff_eq] at h
  rcases h with ⟨h1, h2⟩ | ⟨h1, h2⟩
  · exact Or.inl ⟨by rw [h1]; rfl, h2⟩
  · exact Or.inr ⟨by rw [h1]; rfl, h2⟩

/-- an operand in list mode -/
theorem listOpd_of_ex {L C : Bool} : ∀ x : Ex, x.ok L C = true → x.isOpd = true → OpdOK x.toks → ListOpdOK x.toks
  | .atom [] a, h, _, _ => by
    simp only [Ex.ok, Bool.and_eq_true, List.all_eq_true] at h
    exact listOpd_value a h.2
  | .atom (p :: ps) a, h, _, hx => by
    simp only [Ex.ok, Bool.and_eq_true, List.all_eq_true] at h
    exact listOpd_po (t := p) (r := ps ++ [a]) hx (by simp) (Or.inl (h.1 p (List.mem_cons_self ..)))
  | .br [] o wsA e wsB c, h, _, hx => by
    simp only [Ex.ok, Bool.and_eq_true, List.all_eq_true] at h
    exact listOpd_po (t := o) (r := wsA ++ (e.toks ++ (wsB ++ [c]))) hx (by simp) (Or.inr h.1.1.1.1.2)
  | .br (p :: ps) o wsA e wsB c, h, _, hx => by
    simp only [Ex.ok, Bool.and_eq_true, List.all_eq_true] at h
    exact listOpd_po (t := p) (r := ps ++ (o :: (wsA ++ (e.toks ++ (wsB ++ [c]))))) hx (by simp)
      (Or.inl (h.1.1.1.1.1 p (List.mem_cons_self ..)))
  | .bin .., _, hc, _ => by simp [Ex.isOpd] at hc
  | .suf .., _, hc, _ => by simp [Ex.isOpd] at hc
  | .lst .., _, hc, _ => by simp [Ex.isOpd] at hc

/-- **the induction over the expression syntax** -/
theorem ex_ok {L C : Bool} : ∀ e : Ex, e.ok L C = true → ExprOK e.toks e.endsSuffix ∧ (e.isOpd = true → OpdOK e.toks)
  | .atom pre a, h => by
    simp only [Ex.ok, Bool.and_eq_true, List.all_eq_true] at h
    have := opd_atom pre a h.1 h.2
    exact ⟨expr_first this, fun _ => this⟩
  | .br pre o wsA e wsB c, h => by
    simp only [Ex.ok, Bool.and_eq_true, List.all_eq_true] at h
    obtain ⟨⟨⟨⟨⟨h1, h2⟩, h3⟩, h4⟩, h5⟩, h6⟩ := h
    have ih := (ex_ok e h5).1
    have := opd_bracket ih pre o c wsA wsB h1 h2 (closeMatches_isCloseFor h3) h4 h6 e.toks_ne
    exact ⟨expr_first this, fun _ => this⟩
  | .bin e ws1 op ws2 x, h => by
    simp only [Ex.ok, Bool.and_eq_true, List.all_eq_true] at h
    obtain ⟨⟨⟨⟨⟨h1, h2⟩, h3⟩, h4⟩, h5⟩, h6⟩ := h
    have ihe := (ex_ok e h1).1
    have ihx := (ex_ok x h6).2 h5
    exact ⟨expr_bin ihe ihx (bin3_of_ok h3) h2 h4 x.toks_ne, fun hc => by simp [Ex.isOpd] at hc⟩
  | .suf e s, h => by
    simp only [Ex.ok, Bool.and_eq_true] at h
    have ihe := (ex_ok e h.1).1
    exact ⟨expr_suf ihe s h.2, fun hc => by simp [Ex.isOpd] at hc⟩
  | .lst e ws x, h => by
    simp only [Ex.ok, Bool.and_eq_true, List.all_eq_true, List.any_eq_true, Bool.not_eq_true', beq_iff_eq] at h
    obtain ⟨⟨⟨⟨⟨⟨_, h1⟩, h2⟩, h3⟩, h4⟩, h5⟩, h6⟩ := h
    have ihe := (ex_ok e h1).1
    rw [h2] at ihe
    have ihx := (ex_ok x h6).2 h5
    exact ⟨expr_list ihe (listOpd_of_ex x h6 h5 ihx) h3 h4, fun hc => by simp [Ex.isOpd] at hc⟩

/-! ### first and last token -/

theorem open_not_trimmable {o : PToken} (h : isOpenTok o = true) : isTrimmable o = false := by
  unfold isOpenTok at h
  unfold isTrimmable
  simp only [Bool.or_eq_true, beq_iff_eq] at h
  rcases h with h | h <;> rw [h] <;> rfl

theorem close_not_trimmable {o c : PToken} (h : Ex.closeMatches o c = true) : isTrimmable c = false := by
  unfold Ex.closeMatches at h
  unfold isTrimmable
  simp only [Bool.or_eq_true, Bool.and_eq_true, beq_iff_eq] at h
  rcases h with ⟨_, h⟩ | ⟨_, h⟩ <;> rw [h] <;> rfl

theorem ex_head {L C : Bool} : ∀ e : Ex, e.ok L C = true → ∃ t rest, e.toks = t :: rest ∧ isTrimmable t = false
  | .atom pre a, h => by
    simp only [Ex.ok, Bool.and_eq_true, List.all_eq_true] at h
    cases pre with
    | nil => exact ⟨a, [], rfl, atom10_not_trimmable h.2⟩
    | cons p ps => exact ⟨p, ps ++ [a], rfl, prefix_not_trimmable (h.1 p (List.mem_cons_self ..))⟩
  | .br pre o wsA e wsB c, h => by
    simp only [Ex.ok, Bool.and_eq_true, List.all_eq_true] at h
    obtain ⟨⟨⟨⟨⟨h1, h2⟩, h3⟩, h4⟩, h5⟩, h6⟩ := h
    cases pre with
    | nil => exact ⟨o, _, rfl, open_not_trimmable h2⟩
    | cons p ps => exact ⟨p, _, rfl, prefix_not_trimmable (h1 p (List.mem_cons_self ..))⟩
  | .bin e ws1 op ws2 x, h => by
    simp only [Ex.ok, Bool.and_eq_true, List.all_eq_true] at h
    obtain ⟨t, rest, h1, h2⟩ := ex_head e h.1.1.1.1.1
    exact ⟨t, rest ++ (ws1 ++ (op :: (ws2 ++ x.toks))), by simp [Ex.toks, h1], h2⟩
  | .suf e s, h => by
    simp only [Ex.ok, Bool.and_eq_true] at h
    obtain ⟨t, rest, h1, h2⟩ := ex_head e h.1
    exact ⟨t, rest ++ [s], by simp [Ex.toks, h1], h2⟩
  | .lst e ws x, h => by
    simp only [Ex.ok, Bool.and_eq_true] at h
    obtain ⟨t, rest, h1, h2⟩ := ex_head e h.1.1.1.1.1.2
    exact ⟨t, rest ++ (ws ++ x.toks), by simp [Ex.toks, h1], h2⟩

theorem ex_last {L C : Bool} : ∀ e : Ex, e.ok L C = true → ∃ init t, e.toks = init ++ [t] ∧ isTrimmable t = false
  | .atom pre a, h => by
    simp only [Ex.ok, Bool.and_eq_true, List.all_eq_true] at h
    exact ⟨pre, a, rfl, atom10_not_trimmable h.2⟩
  | .br pre o wsA e wsB c, h => by
    simp only [Ex.ok, Bool.and_eq_true, List.all_eq_true] at h
    obtain ⟨⟨⟨⟨⟨h1, h2⟩, h3⟩, h4⟩, h5⟩, h6⟩ := h
    exact ⟨pre ++ (o :: (wsA ++ (e.toks ++ wsB))), c, by simp [Ex.toks], close_not_trimmable h3⟩
  | .bin e ws1 op ws2 x, h => by
    simp only [Ex.ok, Bool.and_eq_true, List.all_eq_true] at h
    obtain ⟨init, t, h1, h2⟩ := ex_last x h.2
    exact ⟨e.toks ++ (ws1 ++ (op :: (ws2 ++ init))), t, by simp [Ex.toks, h1], h2⟩
  | .suf e s, h => by
    simp only [Ex.ok, Bool.and_eq_true] at h
    exact ⟨e.toks, s, rfl, suffix_not_trimmable h.2⟩
  | .lst e ws x, h => by
    simp only [Ex.ok, Bool.and_eq_true] at h
    obtain ⟨init, t, h1, h2⟩ := ex_last x h.2
    exact ⟨e.toks ++ (ws ++ init), t, by simp [Ex.toks, h1], h2⟩

/-! ### the end of the parse -/

theorem UInv.comp_none {st : PState} {ug p : Option Nat} {base : Nat} {E : Tree} {re cb : Nat}
    (h : UInv st ug p base E re cb) : checkComposition st.previousSecondDef .none st.checkForList = true := by
  generalize st.checkForList = c
  rcases h.prev with h | h | h | h | h | h <;> rw [h] <;> cases c <;> rfl

theorem finish_U {stF : PState} {E : Tree} {re cb : Nat} (hinv : UInv stF none none 0 E re cb)
    (hgs : stF.groupStack = #[]) :
    ∃ r, finish stF = .ok r ∧ toTree r = some E ∧ r.nodes = stF.nodes := by
  have hin : E.inorder = List.range stF.nodes.size := by
    rw [hinv.n.inord, List.range_eq_range']; simp
  have hpos := hinv.n.pos
  have hnd : E.inorder.Nodup := by rw [hin]; exact List.nodup_range
  have h0mem : 0 ∈ E.inorder := by rw [hin]; exact List.mem_range.mpr hpos
  have hsome : ∃ nd0, stF.nodes[0]? = some nd0 := by
    cases hnd0 : stF.nodes[0]? with
    | none => rw [Array.getElem?_eq_none_iff] at hnd0; omega
    | some nd => exact ⟨nd, rfl⟩
  obtain ⟨nd0, hnd0⟩ := hsome
  have hne : stF.nodes.isEmpty = false := by
    cases hsz : stF.nodes.isEmpty with
    | false => rfl
    | true =>
      have h2 : stF.nodes = #[] := by simpa using hsz
      rw [h2] at hpos; simp at hpos
  refine ⟨{ root := re, nodes := stF.nodes }, ?_, ?_, rfl⟩
  · unfold finish
    rw [hinv.comp_none, hgs]
    simp only [Bool.not_true, Bool.false_eq_true, if_false, hne,
      show (#[] : Array (Nat × Bool)).isEmpty = true from rfl, hnd0, rootLoop_ok hinv.n.tree hnd 0 nd0 h0mem hnd0,
      Outcome.bind]
  · rw [toTree_some_iff]
    refine ⟨?_, hnd⟩
    simp only [rootLink, hne, Bool.false_eq_true, if_false]
    exact hinv.n.tree

theorem openB_init : OpenB PState.init none :=
  ⟨rfl, rfl, rfl, rfl, rfl, Or.inl ⟨rfl, rfl⟩, Or.inl rfl⟩

/-- **stage 5, syntax form**: for an expression of the fragment with groups and nested expressions the model of `parse`
    accepts, the result is a proper tree, and it is the reference tree -/
theorem parse_ex {L C : Bool} (e : Ex) (hok : e.ok L C = true) (hnum : NumberedFrom 0 e.toks) :
    ∃ r t, parse e.toks = .ok r ∧ toTree r = some t ∧ refParse Table.gen e.toks = .ok (toRG (dfOf r.nodes) t) := by
  have hne := e.toks_ne
  obtain ⟨th, trest, hth, hthn⟩ := ex_head e hok
  obtain ⟨tinit, tl, htl, htln⟩ := ex_last e hok
  have hhead : isTrimmable (e.toks.head hne) = false := by
    have : e.toks.head hne = th := by simp [hth]
    rw [this]; exact hthn
  have hlast : isTrimmable (e.toks.getLast hne) = false := by
    have : e.toks.getLast hne = tl := by simp [htl]
    rw [this]; exact htln
  obtain ⟨htrim, hts, htr⟩ := trim_id _ hne hhead hlast
  obtain ⟨st1, E, re, cb, hloop, hinv, hgs, hcg, _, _, _, href⟩ :=
    (ex_ok e hok).1 PState.init none none 0 openB_init (.top rfl rfl) (by intro i nd h; simp [PState.init] at h) rfl 0 hnum []
  simp only [List.append_nil] at hloop
  obtain ⟨r, hr, ht, hn⟩ := finish_U hinv hgs
  refine ⟨r, E, ?_, ht, ?_⟩
  · unfold parse
    rw [htrim]
    have he : e.toks.isEmpty = false := by cases h : e.toks with
      | nil => exact absurd h hne
      | cons _ _ => rfl
    simp only [Outcome.bind, he, Bool.false_eq_true, if_false, hloop, loop, hr]
  · have href0 : refParse Table.gen e.toks = refLoop Table.gen Frame.top [] 0 e.toks := by
      unfold refParse
      simp only [hts, htr]
      have hlen : ¬ (0 ≥ e.toks.length) := by
        have := List.length_pos_iff.mpr hne; omega
      simp only [List.drop_zero, Nat.sub_zero, List.take_length, hlen, if_false]
    have := href Frame.top [] [] rfl rfl
    simp only [List.append_nil] at this
    rw [href0, this, hn]
    unfold refLoop
    cases e.endsSuffix <;> simp

/-- on an expression of the fragment `refParse` trims nothing -/
theorem refParse_ex {L C : Bool} (e : Ex) (hok : e.ok L C = true) :
    refParse Table.gen e.toks = refLoop Table.gen Frame.top [] 0 e.toks := by
  have hne := e.toks_ne
  obtain ⟨th, trest, hth, hthn⟩ := ex_head e hok
  obtain ⟨tinit, tl, htl, htln⟩ := ex_last e hok
  have hhead : isTrimmable (e.toks.head hne) = false := by
    have : e.toks.head hne = th := by simp [hth]
    rw [this]; exact hthn
  have hlast : isTrimmable (e.toks.getLast hne) = false := by
    have : e.toks.getLast hne = tl := by simp [htl]
    rw [this]; exact htln
  obtain ⟨_, hts, htr⟩ := trim_id _ hne hhead hlast
  unfold refParse
  simp only [hts, htr]
  have hlen : ¬ (0 ≥ e.toks.length) := by
    have := List.length_pos_iff.mpr hne; omega
  simp only [List.drop_zero, Nat.sub_zero, List.take_length, hlen, if_false]

/-! ### decidable recogniser -/

inductive PMode where
  | opd
  | tail (e : Ex)

/-- recursive-descent recogniser with fuel: returns the syntax tree and the unconsumed tokens -/
def parseG (L C : Bool) : Nat → PMode → List PToken → Option (Ex × List PToken)
  | 0, _, _ => none
  | fuel + 1, .opd, toks =>
    let pre := toks.takeWhile isPrefixTok
    match toks.dropWhile isPrefixTok with
    | [] => none
    | a :: r =>
      if isAtom10 a then some (.atom pre a, r)
      else if isOpenTok a then
        let wsA := r.takeWhile isTriviaTok
        match parseG L C fuel .opd (r.dropWhile isTriviaTok) with
        | none => none
        | some (x, r2) =>
          match parseG L C fuel (.tail x) r2 with
          | none => none
          | some (e, r3) =>
            let wsB := r3.takeWhile isTriviaTok
            match r3.dropWhile isTriviaTok with
            | [] => none
            | c :: r5 => if Ex.closeMatches a c then some (.br pre a wsA e wsB c, r5) else none
      else none
  | fuel + 1, .tail e, toks =>
    let ws := toks.takeWhile isTriviaTok
    match toks.dropWhile isTriviaTok with
    | [] => some (e, toks)
    | t :: r1 =>
      if isBinopTok t || (C && Ex.isOptTok t) then
        let ws2 := r1.takeWhile isTriviaTok
        match parseG L C fuel .opd (r1.dropWhile isTriviaTok) with
        | none => none
        | some (x, r3) => parseG L C fuel (.tail (.bin e ws t ws2 x)) r3
      else if ws.isEmpty && isSuffixTok t then parseG L C fuel (.tail (.suf e t)) r1
      else if L && !e.endsSuffix && ws.any (fun w => w.type == .whitespace) &&
          (isPrefixTok t || isAtom10 t || isOpenTok t) then
        match parseG L C fuel .opd (t :: r1) with
        | none => none
        | some (x, r3) => parseG L C fuel (.tail (.lst e ws x)) r3
      else some (e, toks)

def exOf (L C : Bool) (toks : List PToken) : Option Ex :=
  match parseG L C (2 * toks.length + 4) .opd toks with
  | none => none
  | some (x, r) =>
    match parseG L C (2 * toks.length + 4) (.tail x) r with
    | some (e, []) => some e
    | _ => none

/-- the fragment with groups and nested expressions; `L`: with implicit space lists; `C`: with `,` / infix identifiers -/
def fragL (L C : Bool) (toks : List PToken) : Bool :=
  match exOf L C toks with
  | some e => e.ok L C && decide (e.toks = toks)
  | none => false

theorem fragL_sound {L C : Bool} {toks : List PToken} (h : fragL L C toks = true) :
    ∃ e : Ex, e.ok L C = true ∧ e.toks = toks := by
  unfold fragL at h
  cases he : exOf L C toks with
  | none => simp [he] at h
  | some e =>
    simp only [he, Bool.and_eq_true, decide_eq_true_eq] at h
    exact ⟨e, h.1, h.2⟩

/-- the fragment with groups and nested expressions -/
def frag5 (toks : List PToken) : Bool := fragL false false toks

/-- the fragment with groups, nested expressions and implicit space lists -/
def frag6 (toks : List PToken) : Bool := fragL true false toks

/-- the fragment with groups, nested expressions, implicit space lists, and `,` / infix identifiers between two operands -/
def frag7 (toks : List PToken) : Bool := fragL true true toks

/-- **stages 5, 6**: acceptance, proper tree, reference tree -/
theorem parse_fragL {L C : Bool} (toks : List PToken) (hf : fragL L C toks = true) (hnum : NumberedFrom 0 toks) :
    ∃ r t, parse toks = .ok r ∧ toTree r = some t ∧ refParse Table.gen toks = .ok (toRG (dfOf r.nodes) t) := by
  obtain ⟨e, hok, rfl⟩ := fragL_sound hf
  exact parse_ex e hok hnum

theorem parse_frag5 (toks : List PToken) (hf : frag5 toks = true) (hnum : NumberedFrom 0 toks) :
    ∃ r t, parse toks = .ok r ∧ toTree r = some t ∧ refParse Table.gen toks = .ok (toRG (dfOf r.nodes) t) :=
  parse_fragL toks hf hnum

theorem parse_frag6 (toks : List PToken) (hf : frag6 toks = true) (hnum : NumberedFrom 0 toks) :
    ∃ r t, parse toks = .ok r ∧ toTree r = some t ∧ refParse Table.gen toks = .ok (toRG (dfOf r.nodes) t) :=
  parse_fragL toks hf hnum

theorem parse_frag7 (toks : List PToken) (hf : frag7 toks = true) (hnum : NumberedFrom 0 toks) :
    ∃ r t, parse toks = .ok r ∧ toTree r = some t ∧ refParse Table.gen toks = .ok (toRG (dfOf r.nodes) t) :=
  parse_fragL toks hf hnum

end Garnish.Spec
