/-
The expression syntax `Ex` of the fragments with brackets, the induction over it (`ex_ok`), the end of the parse
(`finish_U`), the parse-level theorem `parse_ex`, and the decidable recognisers (`fragF`).

  operand ::= prefix* value
            | prefix* ( fill* expr gfill* )          -- inside ( ): separators are whitespace
            | prefix* { fill* expr trivia* }         -- directly after { separators are dropped
            | prefix* { fill* expr trivia* blank-line fill* }      -- trailing blank line: node unlinked again
  expr    ::= operand | expr trivia* binop trivia* operand | expr suffix
            | expr gfill+ operand                    -- implicit list (flag L)
            | expr trivia* separator fill* operand   -- outside of ( ) (flag S)
  fill = trivia or separator;  gfill = trivia, inside ( ) also separators.
Flags: `L` implicit lists, `C` `,` / infix identifiers as binary operators, `S` separators.
-/
import Garnish.Lemmas.ParserB27

namespace Garnish.Spec
open Garnish Garnish.Gen Garnish.Model.Parser

inductive Ex where
  | atom (pre : List PToken) (a : PToken)
  | br (pre : List PToken) (o : PToken) (wsA : List PToken) (e : Ex) (wsB : List PToken) (c : PToken)
  | brT (pre : List PToken) (o : PToken) (wsA : List PToken) (e : Ex) (ws1 : List PToken) (t : PToken)
      (ws2 : List PToken) (c : PToken)
  | bin (e : Ex) (ws1 : List PToken) (op : PToken) (ws2 : List PToken) (x : Ex)
  | suf (e : Ex) (s : PToken)
  | lst (e : Ex) (ws : List PToken) (x : Ex)
  | sep (e : Ex) (ws1 : List PToken) (t : PToken) (ws2 : List PToken) (x : Ex)
  | brC (pre : List PToken) (o : PToken) (wsA : List PToken) (e : Ex) (ws1 : List PToken) (k : PToken)
      (wsB : List PToken) (c : PToken)
  | lead (op : PToken) (ws : List PToken) (x : Ex)

structure Fl where
  L : Bool
  C : Bool
  S : Bool
deriving DecidableEq, Repr

namespace Ex

def toks : Ex → List PToken
  | atom pre a => pre ++ [a]
  | br pre o wsA e wsB c => pre ++ (o :: (wsA ++ (e.toks ++ (wsB ++ [c]))))
  | brT pre o wsA e ws1 t ws2 c => pre ++ (o :: (wsA ++ (e.toks ++ (ws1 ++ (t :: (ws2 ++ [c]))))))
  | bin e ws1 op ws2 x => e.toks ++ (ws1 ++ (op :: (ws2 ++ x.toks)))
  | suf e s => e.toks ++ [s]
  | lst e ws x => e.toks ++ (ws ++ x.toks)
  | sep e ws1 t ws2 x => e.toks ++ (ws1 ++ (t :: (ws2 ++ x.toks)))
  | brC pre o wsA e ws1 k wsB c => pre ++ (o :: (wsA ++ (e.toks ++ (ws1 ++ (k :: (wsB ++ [c]))))))
  | lead op ws x => op :: (ws ++ x.toks)

/-- number of nodes the parser pushes and unlinks again: the trailing blank lines before a `}` -/
def garb : Ex → Nat
  | atom _ _ => 0
  | br _ _ _ e _ _ => e.garb
  | brT _ _ _ e _ _ _ _ => e.garb + 1
  | bin e _ _ _ x => e.garb + x.garb
  | suf e _ => e.garb
  | lst e _ x => e.garb + x.garb
  | sep e _ _ _ x => e.garb + x.garb
  | brC _ _ _ e _ _ _ _ => e.garb
  | lead _ _ x => x.garb

def isOpd : Ex → Bool
  | atom .. => true
  | br .. => true
  | brT .. => true
  | brC .. => true
  | _ => false

def endsSuffix : Ex → Bool
  | suf .. => true
  | _ => false

def closeMatches (o c : PToken) : Bool :=
  (o.type == .startGroup && c.type == .endGroup) || (o.type == .startExpression && c.type == .endExpression)

/-- the bracket `o` opens a `( )` group -/
def opensGroup (o : PToken) : Bool := (getDefinition o.type).1 == .group

/-- well-formedness inside a frame (`inG`: the frame is a `( )` group) -/
def ok (F : Fl) : Bool → Ex → Bool
  | _, atom pre a => pre.all isPrefixTok && isAtom10 a
  | _, br pre o wsA e wsB c =>
    pre.all isPrefixTok && isOpenTok o && closeMatches o c && wsA.all (fun w => isTriviaTok w || (F.S && isSepTok w)) &&
      e.ok F (opensGroup o) && wsB.all (isGFill (F.S && opensGroup o))
  | _, brT pre o wsA e ws1 t ws2 c =>
    F.S && !opensGroup o && pre.all isPrefixTok && isOpenTok o && closeMatches o c && wsA.all isFillTok &&
      e.ok F false && ws1.all isTriviaTok && t.type == .subexpression && ws2.all isFillTok
  | inG, bin e ws1 op ws2 x =>
    e.ok F inG && ws1.all isTriviaTok && (isBinopTok op || (F.C && isOptTok op)) && ws2.all isTriviaTok && x.isOpd &&
      x.ok F inG
  | inG, suf e s => e.ok F inG && isSuffixTok s
  | inG, lst e ws x =>
    F.L && e.ok F inG && !e.endsSuffix && ws.all (isGFill (F.S && inG)) &&
      ws.any (fun w => w.type == .whitespace || (F.S && inG && isSepTok w)) && x.isOpd && x.ok F inG
  | inG, sep e ws1 t ws2 x =>
    F.S && !inG && e.ok F inG && ws1.all isTriviaTok && isSepTok t && ws2.all isFillTok && x.isOpd && x.ok F inG
  | _, brC pre o wsA e ws1 k wsB c =>
    F.C && pre.all isPrefixTok && isOpenTok o && closeMatches o c && wsA.all (fun w => isTriviaTok w || (F.S && isSepTok w)) &&
      e.ok F (opensGroup o) && ws1.all isTriviaTok && isCommaTok k && wsB.all isTriviaTok
  | inG, lead op ws x => F.C && isOptTok op && ws.all isTriviaTok && x.isOpd && x.ok F inG

theorem toks_ne : ∀ e : Ex, e.toks ≠ []
  | atom pre a => by simp [toks]
  | br pre o wsA e wsB c => by simp [toks]
  | brT .. => by simp [toks]
  | bin e ws1 op ws2 x => by simp [toks]
  | suf e s => by simp [toks]
  | lst e ws x => by simp [toks, toks_ne e]
  | sep e ws1 t ws2 x => by simp [toks]
  | brC .. => by simp [toks]
  | lead .. => by simp [toks]

end Ex

theorem bin3_of_ok {C : Bool} {op : PToken} (h : (isBinopTok op || (C && isOptTok op)) = true) : isBin3Tok op = true := by
  unfold isBin3Tok
  unfold isBinopTok isOptTok at h
  simp only [Bool.or_eq_true, Bool.and_eq_true] at h ⊢
  rcases h with h | ⟨_, h⟩
  · exact Or.inl h
  · exact Or.inr h

theorem closeMatches_isCloseFor {o c : PToken} (h : Ex.closeMatches o c = true) :
    isCloseFor (getDefinition o.type).1 c := by
  unfold Ex.closeMatches at h
  simp only [Bool.or_eq_true, Bool.and_eq_true, beq_iff_eq] at h
  rcases h with ⟨h1, h2⟩ | ⟨h1, h2⟩
  · exact Or.inl ⟨by rw [h1]; rfl, h2⟩
  · exact Or.inr ⟨by rw [h1]; rfl, h2⟩

theorem fill_of_triv_or {S : Bool} {w : PToken} (h : (isTriviaTok w || (S && isSepTok w)) = true) : isFillTok w = true := by
  unfold isFillTok
  simp only [Bool.or_eq_true, Bool.and_eq_true] at h ⊢
  rcases h with h | ⟨_, h⟩
  · exact Or.inl h
  · exact Or.inr h

theorem gfill_mono {a b : Bool} {w : PToken} (hab : a = true → b = true) (h : isGFill a w = true) : isGFill b w = true := by
  unfold isGFill at h ⊢
  simp only [Bool.or_eq_true, Bool.and_eq_true] at h ⊢
  rcases h with h | ⟨h1, h2⟩
  · exact Or.inl h
  · exact Or.inr ⟨hab h1, h2⟩

/-- the first token of an operand is no filler, separator or closer -/
theorem opd_head_class {t : PToken} (h : isPrefixTok t = true ∨ isAtom10 t = true ∨ isOpenTok t = true) (r : List PToken) :
    closerFollows (t :: r) = false := by
  have : isFiller t.type = false ∧ isSeparator t.type = false ∧ isCloser t.type = false := by
    rcases h with h | h | h
    · unfold isPrefixTok at h; revert h; cases t.type <;> simp [getDefinition, isFiller, isSeparator, isCloser]
    · unfold isAtom10 at h; revert h; cases t.type <;> simp [getDefinition, isFiller, isSeparator, isCloser, priority]
    · unfold isOpenTok at h; revert h; cases t.type <;> simp [isFiller, isSeparator, isCloser]
  simp [closerFollows, this.1, this.2.1, this.2.2]

/-- the head token of an operand -/
theorem opd_head {F : Fl} {inG : Bool} : ∀ x : Ex, x.ok F inG = true → x.isOpd = true →
    ∃ t r, x.toks = t :: r ∧ (((isPrefixTok t = true ∨ isOpenTok t = true) ∧ r ≠ []) ∨ (isAtom10 t = true ∧ r = [] ∧ x.garb = 0))
  | .atom [] a, h, _ => by
    simp only [Ex.ok, Bool.and_eq_true, List.all_eq_true] at h
    exact ⟨a, [], rfl, Or.inr ⟨h.2, rfl, rfl⟩⟩
  | .atom (p :: ps) a, h, _ => by
    simp only [Ex.ok, Bool.and_eq_true, List.all_eq_true] at h
    exact ⟨p, ps ++ [a], rfl, Or.inl ⟨Or.inl (h.1 p (List.mem_cons_self ..)), by simp⟩⟩
  | .br [] o wsA e wsB c, h, _ => by
    simp only [Ex.ok, Bool.and_eq_true, List.all_eq_true] at h
    exact ⟨o, _, rfl, Or.inl ⟨Or.inr h.1.1.1.1.2, by simp⟩⟩
  | .br (p :: ps) o wsA e wsB c, h, _ => by
    simp only [Ex.ok, Bool.and_eq_true, List.all_eq_true] at h
    exact ⟨p, _, rfl, Or.inl ⟨Or.inl (h.1.1.1.1.1 p (List.mem_cons_self ..)), by simp⟩⟩
  | .brT [] o wsA e ws1 t ws2 c, h, _ => by
    simp only [Ex.ok, Bool.and_eq_true, List.all_eq_true] at h
    exact ⟨o, _, rfl, Or.inl ⟨Or.inr h.1.1.1.1.1.1.2, by simp⟩⟩
  | .brT (p :: ps) o wsA e ws1 t ws2 c, h, _ => by
    simp only [Ex.ok, Bool.and_eq_true, List.all_eq_true] at h
    exact ⟨p, _, rfl, Or.inl ⟨Or.inl (h.1.1.1.1.1.1.1.2 p (List.mem_cons_self ..)), by simp⟩⟩
  | .brC [] o wsA e ws1 k wsB c, h, _ => by
    simp only [Ex.ok, Bool.and_eq_true, List.all_eq_true] at h
    exact ⟨o, _, rfl, Or.inl ⟨Or.inr h.1.1.1.1.1.1.2, by simp⟩⟩
  | .brC (p :: ps) o wsA e ws1 k wsB c, h, _ => by
    simp only [Ex.ok, Bool.and_eq_true, List.all_eq_true] at h
    exact ⟨p, _, rfl, Or.inl ⟨Or.inl (h.1.1.1.1.1.1.1.2 p (List.mem_cons_self ..)), by simp⟩⟩
  | .bin _ _ _ _ _, _, hc => by simp [Ex.isOpd] at hc
  | .suf _ _, _, hc => by simp [Ex.isOpd] at hc
  | .lst _ _ _, _, hc => by simp [Ex.isOpd] at hc
  | .sep _ _ _ _ _, _, hc => by simp [Ex.isOpd] at hc
  | .lead _ _ _, _, hc => by simp [Ex.isOpd] at hc

/-- an operand in list mode -/
theorem listOpd_of_ex {F : Fl} {inG : Bool} (x : Ex) (h : x.ok F inG = true) (ho : x.isOpd = true)
    (hx : OpdOK x.garb x.toks) : ListOpdOK x.garb x.toks := by
  obtain ⟨t, r, htr, hcl⟩ := opd_head x h ho
  rw [htr] at hx ⊢
  rcases hcl with ⟨hcl, hr⟩ | ⟨hcl, hr⟩
  · exact listOpd_po hx hr hcl
  · obtain ⟨hr, hg⟩ := hr
    subst hr; rw [hg]; exact listOpd_value t hcl

/-- **the induction over the expression syntax** -/
theorem ex_ok {F : Fl} : ∀ (e : Ex) (inG : Bool), e.ok F inG = true →
    ExprOK e.garb inG e.toks e.endsSuffix ∧ (e.isOpd = true → OpdOK e.garb e.toks)
  | .atom pre a, _, h => by
    simp only [Ex.ok, Bool.and_eq_true, List.all_eq_true] at h
    have := opd_atom pre a h.1 h.2
    exact ⟨expr_first this, fun _ => this⟩
  | .br pre o wsA e wsB c, _, h => by
    simp only [Ex.ok, Bool.and_eq_true, List.all_eq_true] at h
    obtain ⟨⟨⟨⟨⟨h1, h2⟩, h3⟩, h4⟩, h5⟩, h6⟩ := h
    have ih := (ex_ok e (Ex.opensGroup o) h5).1
    have := opd_bracket pre o c wsA wsB ih h1 h2 (closeMatches_isCloseFor h3) (fun w hw => fill_of_triv_or (h4 w hw))
      (fun w hw => gfill_mono (fun hh => by simp only [Bool.and_eq_true] at hh; exact hh.2) (h6 w hw)) e.toks_ne
    exact ⟨expr_first this, fun _ => this⟩
  | .brT pre o wsA e ws1 t ws2 c, _, h => by
    simp only [Ex.ok, Bool.and_eq_true, List.all_eq_true, Bool.not_eq_true', beq_iff_eq] at h
    obtain ⟨⟨⟨⟨⟨⟨⟨⟨⟨_, h0⟩, h1⟩, h2⟩, h3⟩, h4⟩, h5⟩, h6⟩, h7⟩, h8⟩ := h
    have ih := (ex_ok e false h5).1
    have := opd_bracket_trail pre o c t wsA ws1 ws2 h0 ih h1 h2 (closeMatches_isCloseFor h3) h4 h6 h7 h8 e.toks_ne
    exact ⟨expr_first this, fun _ => this⟩
  | .bin e ws1 op ws2 x, inG, h => by
    simp only [Ex.ok, Bool.and_eq_true, List.all_eq_true] at h
    obtain ⟨⟨⟨⟨⟨h1, h2⟩, h3⟩, h4⟩, h5⟩, h6⟩ := h
    have ihe := (ex_ok e inG h1).1
    have ihx := (ex_ok x inG h6).2 h5
    exact ⟨expr_bin ihe ihx (bin3_of_ok h3) h2 h4 x.toks_ne, fun hc => by simp [Ex.isOpd] at hc⟩
  | .suf e s, inG, h => by
    simp only [Ex.ok, Bool.and_eq_true] at h
    have ihe := (ex_ok e inG h.1).1
    exact ⟨expr_suf ihe s h.2, fun hc => by simp [Ex.isOpd] at hc⟩
  | .lst e ws x, inG, h => by
    simp only [Ex.ok, Bool.and_eq_true, List.all_eq_true, List.any_eq_true, Bool.not_eq_true'] at h
    obtain ⟨⟨⟨⟨⟨⟨_, h1⟩, h2⟩, h3⟩, h4⟩, h5⟩, h6⟩ := h
    have ihe := (ex_ok e inG h1).1
    rw [h2] at ihe
    have ihx := (ex_ok x inG h6).2 h5
    refine ⟨expr_list ihe (listOpd_of_ex x h6 h5 ihx)
      (fun w hw => gfill_mono (fun hh => by simp only [Bool.and_eq_true] at hh; exact hh.2) (h3 w hw)) ?_,
      fun hc => by simp [Ex.isOpd] at hc⟩
    obtain ⟨w, hw, hwt⟩ := h4
    refine ⟨w, hw, ?_⟩
    unfold setsList
    simp only [Bool.or_eq_true, Bool.and_eq_true, beq_iff_eq] at hwt ⊢
    rcases hwt with hwt | ⟨_, hwt⟩
    · exact Or.inl hwt
    · exact Or.inr hwt
  | .sep e ws1 t ws2 x, inG, h => by
    simp only [Ex.ok, Bool.and_eq_true, List.all_eq_true, Bool.not_eq_true'] at h
    obtain ⟨⟨⟨⟨⟨⟨⟨_, h0⟩, h1⟩, h2⟩, h3⟩, h4⟩, h5⟩, h6⟩ := h
    subst h0
    have ihe := (ex_ok e false h1).1
    have ihx := (ex_ok x false h6).2 h5
    obtain ⟨th, tr, htr, hcl⟩ := opd_head x h6 h5
    have hcl' : isPrefixTok th = true ∨ isAtom10 th = true ∨ isOpenTok th = true := by
      rcases hcl with ⟨h | h, _⟩ | ⟨h, _⟩
      · exact Or.inl h
      · exact Or.inr (Or.inr h)
      · exact Or.inr (Or.inl h)
    exact ⟨expr_sep ihe ihx h3 h2 h4 x.toks_ne (fun r => by rw [htr]; exact opd_head_class hcl' _),
      fun hc => by simp [Ex.isOpd] at hc⟩
  | .brC pre o wsA e ws1 k wsB c, _, h => by
    simp only [Ex.ok, Bool.and_eq_true, List.all_eq_true] at h
    obtain ⟨⟨⟨⟨⟨⟨⟨⟨_, h1⟩, h2⟩, h3⟩, h4⟩, h5⟩, h6⟩, h7⟩, h8⟩ := h
    have ih := (ex_ok e (Ex.opensGroup o) h5).1
    have := opd_bracket_comma pre o c k wsA ws1 wsB ih h1 h2 (closeMatches_isCloseFor h3)
      (fun w hw => fill_of_triv_or (h4 w hw)) h6 h7 h8 e.toks_ne
    exact ⟨expr_first this, fun _ => this⟩
  | .lead op ws x, inG, h => by
    simp only [Ex.ok, Bool.and_eq_true, List.all_eq_true] at h
    obtain ⟨⟨⟨⟨_, h1⟩, h2⟩, h3⟩, h4⟩ := h
    have ihx := (ex_ok x inG h4).2 h3
    exact ⟨expr_lead ihx h1 h2 x.toks_ne, fun hc => by simp [Ex.isOpd] at hc⟩

/-! ### first and last token -/

theorem opt_not_trimmable {op : PToken} (h : isOptTok op = true) : isTrimmable op = false := by
  unfold isOptTok at h
  unfold isTrimmable
  revert h
  cases op.type <;> simp [getDefinition]


theorem open_not_trimmable {o : PToken} (h : isOpenTok o = true) : isTrimmable o = false := by
  unfold isOpenTok at h
  unfold isTrimmable
  simp only [Bool.or_eq_true, beq_iff_eq] at h
  rcases h with h | h <;> rw [h] <;> rfl

theorem close_not_trimmable {o c : PToken} (h : Ex.closeMatches o c = true) : isTrimmable c = false := by
  unfold Ex.closeMatches at h
  unfold isTrimmable
  simp only [Bool.or_eq_true, Bool.and_eq_true, beq_iff_eq] at h
  rcases h with ⟨_, h⟩ | ⟨_, h⟩ <;> rw [h] <;> rfl

theorem ex_head {F : Fl} : ∀ (e : Ex) (inG : Bool), e.ok F inG = true → ∃ t rest, e.toks = t :: rest ∧ isTrimmable t = false
  | .atom pre a, _, h => by
    simp only [Ex.ok, Bool.and_eq_true, List.all_eq_true] at h
    cases pre with
    | nil => exact ⟨a, [], rfl, atom10_not_trimmable h.2⟩
    | cons p ps => exact ⟨p, ps ++ [a], rfl, prefix_not_trimmable (h.1 p (List.mem_cons_self ..))⟩
  | .br pre o wsA e wsB c, _, h => by
    simp only [Ex.ok, Bool.and_eq_true, List.all_eq_true] at h
    obtain ⟨⟨⟨⟨⟨h1, h2⟩, h3⟩, h4⟩, h5⟩, h6⟩ := h
    cases pre with
    | nil => exact ⟨o, _, rfl, open_not_trimmable h2⟩
    | cons p ps => exact ⟨p, _, rfl, prefix_not_trimmable (h1 p (List.mem_cons_self ..))⟩
  | .brT pre o wsA e ws1 t ws2 c, _, h => by
    simp only [Ex.ok, Bool.and_eq_true, List.all_eq_true] at h
    cases pre with
    | nil => exact ⟨o, _, rfl, open_not_trimmable h.1.1.1.1.1.1.2⟩
    | cons p ps => exact ⟨p, _, rfl, prefix_not_trimmable (h.1.1.1.1.1.1.1.2 p (List.mem_cons_self ..))⟩
  | .bin e ws1 op ws2 x, inG, h => by
    simp only [Ex.ok, Bool.and_eq_true, List.all_eq_true] at h
    obtain ⟨t, rest, h1, h2⟩ := ex_head e inG h.1.1.1.1.1
    exact ⟨t, rest ++ (ws1 ++ (op :: (ws2 ++ x.toks))), by simp [Ex.toks, h1], h2⟩
  | .suf e s, inG, h => by
    simp only [Ex.ok, Bool.and_eq_true] at h
    obtain ⟨t, rest, h1, h2⟩ := ex_head e inG h.1
    exact ⟨t, rest ++ [s], by simp [Ex.toks, h1], h2⟩
  | .lst e ws x, inG, h => by
    simp only [Ex.ok, Bool.and_eq_true] at h
    obtain ⟨t, rest, h1, h2⟩ := ex_head e inG h.1.1.1.1.1.2
    exact ⟨t, rest ++ (ws ++ x.toks), by simp [Ex.toks, h1], h2⟩
  | .sep e ws1 t ws2 x, inG, h => by
    simp only [Ex.ok, Bool.and_eq_true] at h
    obtain ⟨t', rest, h1, h2⟩ := ex_head e inG h.1.1.1.1.1.2
    exact ⟨t', rest ++ (ws1 ++ (t :: (ws2 ++ x.toks))), by simp [Ex.toks, h1], h2⟩
  | .brC pre o wsA e ws1 k wsB c, _, h => by
    simp only [Ex.ok, Bool.and_eq_true, List.all_eq_true] at h
    cases pre with
    | nil => exact ⟨o, _, rfl, open_not_trimmable h.1.1.1.1.1.1.2⟩
    | cons p ps => exact ⟨p, _, rfl, prefix_not_trimmable (h.1.1.1.1.1.1.1.2 p (List.mem_cons_self ..))⟩
  | .lead op ws x, _, h => by
    simp only [Ex.ok, Bool.and_eq_true] at h
    exact ⟨op, _, rfl, opt_not_trimmable h.1.1.1.2⟩

theorem ex_last {F : Fl} : ∀ (e : Ex) (inG : Bool), e.ok F inG = true → ∃ init t, e.toks = init ++ [t] ∧ isTrimmable t = false
  | .atom pre a, _, h => by
    simp only [Ex.ok, Bool.and_eq_true, List.all_eq_true] at h
    exact ⟨pre, a, rfl, atom10_not_trimmable h.2⟩
  | .br pre o wsA e wsB c, _, h => by
    simp only [Ex.ok, Bool.and_eq_true, List.all_eq_true] at h
    obtain ⟨⟨⟨⟨⟨h1, h2⟩, h3⟩, h4⟩, h5⟩, h6⟩ := h
    exact ⟨pre ++ (o :: (wsA ++ (e.toks ++ wsB))), c, by simp [Ex.toks], close_not_trimmable h3⟩
  | .brT pre o wsA e ws1 t ws2 c, _, h => by
    simp only [Ex.ok, Bool.and_eq_true, List.all_eq_true] at h
    exact ⟨pre ++ (o :: (wsA ++ (e.toks ++ (ws1 ++ (t :: ws2))))), c, by simp [Ex.toks],
      close_not_trimmable h.1.1.1.1.1.2⟩
  | .bin e ws1 op ws2 x, inG, h => by
    simp only [Ex.ok, Bool.and_eq_true, List.all_eq_true] at h
    obtain ⟨init, t, h1, h2⟩ := ex_last x inG h.2
    exact ⟨e.toks ++ (ws1 ++ (op :: (ws2 ++ init))), t, by simp [Ex.toks, h1], h2⟩
  | .suf e s, _, h => by
    simp only [Ex.ok, Bool.and_eq_true] at h
    exact ⟨e.toks, s, rfl, suffix_not_trimmable h.2⟩
  | .lst e ws x, inG, h => by
    simp only [Ex.ok, Bool.and_eq_true] at h
    obtain ⟨init, t, h1, h2⟩ := ex_last x inG h.2
    exact ⟨e.toks ++ (ws ++ init), t, by simp [Ex.toks, h1], h2⟩
  | .sep e ws1 t ws2 x, inG, h => by
    simp only [Ex.ok, Bool.and_eq_true] at h
    obtain ⟨init, t', h1, h2⟩ := ex_last x inG h.2
    exact ⟨e.toks ++ (ws1 ++ (t :: (ws2 ++ init))), t', by simp [Ex.toks, h1], h2⟩
  | .brC pre o wsA e ws1 k wsB c, _, h => by
    simp only [Ex.ok, Bool.and_eq_true, List.all_eq_true] at h
    exact ⟨pre ++ (o :: (wsA ++ (e.toks ++ (ws1 ++ (k :: wsB))))), c, by simp [Ex.toks],
      close_not_trimmable h.1.1.1.1.1.2⟩
  | .lead op ws x, inG, h => by
    simp only [Ex.ok, Bool.and_eq_true] at h
    obtain ⟨init, t', h1, h2⟩ := ex_last x inG h.2
    exact ⟨op :: (ws ++ init), t', by simp [Ex.toks, h1], h2⟩

/-! ### the end of the parse -/

theorem UInv.comp_none {st : PState} {ug p : Option Nat} {base : Nat} {E : Tree} {re cb : Nat}
    (h : UInv st ug p base E re cb) : checkComposition st.previousSecondDef .none st.checkForList = true := by
  generalize st.checkForList = c
  rcases h.prev with h | h | h | h | h | h <;> rw [h] <;> cases c <;> rfl

theorem finish_U {stF : PState} {E : Tree} {re cb : Nat} (hinv : UInv stF none none 0 E re cb)
    (hgs : stF.groupStack = #[]) :
    ∃ r, finish stF = .ok r ∧ toTree r = some E ∧ r.nodes = stF.nodes := by
  have hpos := hinv.n.pos
  have hnd : E.inorder.Nodup := hinv.n.inord.nodup
  have h0mem : 0 ∈ E.inorder := hinv.n.first
  have hsome : ∃ nd0, stF.nodes[0]? = some nd0 := by
    cases hnd0 : stF.nodes[0]? with
    | none => rw [Array.getElem?_eq_none_iff] at hnd0; omega
    | some nd => exact ⟨nd, rfl⟩
  obtain ⟨nd0, hnd0⟩ := hsome
  have hne : stF.nodes.isEmpty = false := by
    cases hsz : stF.nodes.isEmpty with
    | false => rfl
    | true =>
      have h2 : stF.nodes = #[] := by simpa using hsz
      rw [h2] at hpos; simp at hpos
  refine ⟨{ root := re, nodes := stF.nodes }, ?_, ?_, rfl⟩
  · unfold finish
    rw [hinv.comp_none, hgs]
    simp only [Bool.not_true, Bool.false_eq_true, if_false, hne,
      show (#[] : Array (Nat × Bool)).isEmpty = true from rfl, hnd0, rootLoop_ok hinv.n.tree hnd 0 nd0 h0mem hnd0,
      Outcome.bind]
  · rw [toTree_some_iff]
    refine ⟨?_, hnd⟩
    simp only [rootLink, hne, Bool.false_eq_true, if_false]
    exact hinv.n.tree

theorem openB_init : OpenB PState.init none :=
  ⟨rfl, rfl, rfl, rfl, rfl, Or.inl ⟨rfl, rfl⟩, Or.inl rfl⟩

/-- on an expression of the fragment nothing is trimmed -/
theorem ex_trim {F : Fl} (e : Ex) (hok : e.ok F false = true) :
    trimTokens e.toks = .ok e.toks ∧ trimStart e.toks = 0 ∧ trimStart e.toks.reverse = 0 := by
  have hne := e.toks_ne
  obtain ⟨th, trest, hth, hthn⟩ := ex_head e false hok
  obtain ⟨tinit, tl, htl, htln⟩ := ex_last e false hok
  have hhead : isTrimmable (e.toks.head hne) = false := by
    have : e.toks.head hne = th := by simp [hth]
    rw [this]; exact hthn
  have hlast : isTrimmable (e.toks.getLast hne) = false := by
    have : e.toks.getLast hne = tl := by simp [htl]
    rw [this]; exact htln
  exact trim_id _ hne hhead hlast

/-- on an expression of the fragment `refParse` trims nothing -/
theorem refParse_ex {F : Fl} (e : Ex) (hok : e.ok F false = true) :
    refParse Table.gen e.toks = refLoop Table.gen Frame.top [] 0 e.toks := by
  have hne := e.toks_ne
  obtain ⟨_, hts, htr⟩ := ex_trim e hok
  unfold refParse
  simp only [hts, htr]
  have hlen : ¬ (0 ≥ e.toks.length) := by
    have := List.length_pos_iff.mpr hne; omega
  simp only [List.drop_zero, Nat.sub_zero, List.take_length, hlen, if_false]

/-- **syntax form of the stage theorems**: for an expression of the fragment the model of `parse` accepts, the result is a
    proper tree, and it is the reference tree -/
theorem parse_ex {F : Fl} (e : Ex) (hok : e.ok F false = true) (hnum : NumberedFrom 0 e.toks) :
    ∃ r t, parse e.toks = .ok r ∧ toTree r = some t ∧ refParse Table.gen e.toks = .ok (toRG (dfOf r.nodes) t) := by
  have hne := e.toks_ne
  obtain ⟨htrim, _, _⟩ := ex_trim e hok
  obtain ⟨st1, E, re, cb, hloop, hinv, hgs, hcg, _, _, _, _, href⟩ :=
    (ex_ok e false hok).1 PState.init none none 0 openB_init (.top rfl rfl) (by intro i nd h; simp [PState.init] at h) rfl
      rfl (Or.inl rfl) 0 hnum []
  simp only [List.append_nil] at hloop
  obtain ⟨r, hr, ht, hn⟩ := finish_U hinv hgs
  refine ⟨r, E, ?_, ht, ?_⟩
  · unfold parse
    rw [htrim]
    have he : e.toks.isEmpty = false := by cases h : e.toks with
      | nil => exact absurd h hne
      | cons _ _ => rfl
    simp only [Outcome.bind, he, Bool.false_eq_true, if_false, hloop, loop, hr]
  · have := href Frame.top [] [] rfl rfl rfl
    simp only [List.append_nil] at this
    rw [refParse_ex e hok, this, hn]
    unfold refLoop
    cases e.endsSuffix <;> simp

/-! ### decidable recogniser -/

inductive PMode where
  | opd
  | tail (e : Ex) (inG : Bool)
  | expr (inG : Bool)

def isCloserTok (t : PToken) : Bool :=
  t.type == .endGroup || t.type == .endExpression || t.type == .endSideEffect

/-- recursive-descent recogniser with fuel: returns the syntax tree and the unconsumed tokens -/
def parseG (F : Fl) : Nat → PMode → List PToken → Option (Ex × List PToken)
  | 0, _, _ => none
  | fuel + 1, .expr inG, toks =>
    match toks with
    | [] => none
    | t :: r =>
      if F.C && isOptTok t then
        let ws := r.takeWhile isTriviaTok
        match parseG F fuel .opd (r.dropWhile isTriviaTok) with
        | none => none
        | some (x, r2) => parseG F fuel (.tail (.lead t ws x) inG) r2
      else
        match parseG F fuel .opd toks with
        | none => none
        | some (x, r2) => parseG F fuel (.tail x inG) r2
  | fuel + 1, .opd, toks =>
    let pre := toks.takeWhile isPrefixTok
    match toks.dropWhile isPrefixTok with
    | [] => none
    | a :: r =>
      if isAtom10 a then some (.atom pre a, r)
      else if isOpenTok a then
        let fillA := fun w => isTriviaTok w || (F.S && isSepTok w)
        let wsA := r.takeWhile fillA
        match parseG F fuel (.expr (Ex.opensGroup a)) (r.dropWhile fillA) with
        | none => none
        | some (e, r3) =>
          let fillB := isGFill (F.S && Ex.opensGroup a)
          let wsB := r3.takeWhile fillB
          match r3.dropWhile fillB with
          | [] => none
          | c :: r5 =>
            if Ex.closeMatches a c then some (.br pre a wsA e wsB c, r5)
            else if F.S && !Ex.opensGroup a && c.type == .subexpression then
              let ws2 := r5.takeWhile isFillTok
              match r5.dropWhile isFillTok with
              | [] => none
              | c2 :: r6 => if Ex.closeMatches a c2 then some (.brT pre a wsA e wsB c ws2 c2, r6) else none
            else if F.C && isCommaTok c then
              let wsC := r5.takeWhile isTriviaTok
              match r5.dropWhile isTriviaTok with
              | [] => none
              | c2 :: r6 => if Ex.closeMatches a c2 then some (.brC pre a wsA e wsB c wsC c2, r6) else none
            else none
      else none
  | fuel + 1, .tail e inG, toks =>
    let fillG := isGFill (F.S && inG)
    let ws := toks.takeWhile fillG
    match toks.dropWhile fillG with
    | [] => some (e, toks)
    | t :: r1 =>
      if isBinopTok t || (F.C && isOptTok t) then
        let ws2 := r1.takeWhile isTriviaTok
        match r1.dropWhile isTriviaTok with
        | [] => some (e, toks)
        | h :: r2 =>
          if isCloserTok h then some (e, toks)
          else
            match parseG F fuel .opd (h :: r2) with
            | none => none
            | some (x, r3) => parseG F fuel (.tail (.bin e ws t ws2 x) inG) r3
      else if ws.isEmpty && isSuffixTok t then parseG F fuel (.tail (.suf e t) inG) r1
      else if F.L && !e.endsSuffix && ws.any (fun w => w.type == .whitespace || (F.S && inG && isSepTok w)) &&
          (isPrefixTok t || isAtom10 t || isOpenTok t) then
        match parseG F fuel .opd (t :: r1) with
        | none => none
        | some (x, r3) => parseG F fuel (.tail (.lst e ws x) inG) r3
      else if F.S && !inG && isSepTok t then
        let ws2 := r1.takeWhile isFillTok
        match r1.dropWhile isFillTok with
        | [] => some (e, toks)
        | h :: r2 =>
          if isPrefixTok h || isAtom10 h || isOpenTok h then
            match parseG F fuel .opd (h :: r2) with
            | none => none
            | some (x, r3) => parseG F fuel (.tail (.sep e ws t ws2 x) inG) r3
          else some (e, toks)
      else some (e, toks)

def exOf (F : Fl) (toks : List PToken) : Option Ex :=
  match parseG F (3 * toks.length + 6) (.expr false) toks with
  | some (e, []) => some e
  | _ => none

/-- the fragment with brackets and the features `F` -/
def fragF (F : Fl) (toks : List PToken) : Bool :=
  match exOf F toks with
  | some e => e.ok F false && decide (e.toks = toks)
  | none => false

theorem fragF_sound {F : Fl} {toks : List PToken} (h : fragF F toks = true) :
    ∃ e : Ex, e.ok F false = true ∧ e.toks = toks := by
  unfold fragF at h
  cases he : exOf F toks with
  | none => simp [he] at h
  | some e =>
    simp only [he, Bool.and_eq_true, decide_eq_true_eq] at h
    exact ⟨e, h.1, h.2⟩

/-- groups and nested expressions -/
def frag5 (toks : List PToken) : Bool := fragF ⟨false, false, false⟩ toks
/-- … and implicit space lists -/
def frag6 (toks : List PToken) : Bool := fragF ⟨true, false, false⟩ toks
/-- … and `,` / infix identifiers between two operands -/
def frag7 (toks : List PToken) : Bool := fragF ⟨true, true, false⟩ toks
/-- … and separators (blank lines, `;`) -/
def frag8 (toks : List PToken) : Bool := fragF ⟨true, true, true⟩ toks

/-- **the stage theorems**: acceptance, proper tree, reference tree -/
theorem parse_fragF {F : Fl} (toks : List PToken) (hf : fragF F toks = true) (hnum : NumberedFrom 0 toks) :
    ∃ r t, parse toks = .ok r ∧ toTree r = some t ∧ refParse Table.gen toks = .ok (toRG (dfOf r.nodes) t) := by
  obtain ⟨e, hok, rfl⟩ := fragF_sound hf
  exact parse_ex e hok hnum

end Garnish.Spec
