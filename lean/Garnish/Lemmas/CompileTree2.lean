/-
The tie between the two builder models (2): the work-list loop, step by step.
`Steps k A B` — `k` iterations of the inner loop of `build` take the context `A` to `B`, whatever fuel is left.
-/
import Garnish.Lemmas.CompileTree
namespace Garnish.Abs.Tree
open Garnish Garnish.Gen Garnish.Spec Garnish.Abs Garnish.Model.Parser Garnish.Model.Literals Garnish.Model.Build

variable {F : Type} (pf : List Char → Option F) (tree : Array ParseNode)

def Steps (crj k : Nat) (A B : Ctx F) : Prop :=
  ∀ n, innerLoop pf tree crj (n + k) A = innerLoop pf tree crj n B

variable {pf tree}

theorem Steps.refl (crj : Nat) (A : Ctx F) : Steps pf tree crj 0 A A := fun _ => rfl

theorem Steps.trans {crj k1 k2 : Nat} {A B C : Ctx F} (h1 : Steps pf tree crj k1 A B) (h2 : Steps pf tree crj k2 B C) :
    Steps pf tree crj (k1 + k2) A C := by
  intro n
  have : n + (k1 + k2) = (n + k2) + k1 := by omega
  rw [this, h1, h2]

theorem Steps.cast {crj k k' : Nat} {A B : Ctx F} (h : Steps pf tree crj k A B) (e : k = k') : Steps pf tree crj k' A B := e ▸ h

/-- one iteration: pop the node, handle it, count it for its list parent -/
theorem Steps.one {crj i : Nat} {pn : ParseNode} {data : BState F} {nodes : Nodes} {RS S : Array Nat} {ctx1 : Ctx F}
    {nodes2 : Nodes} (hpn : tree[i]? = some pn)
    (hh : handleParseNode pf ⟨data, nodes, RS, S⟩ crj i pn = .ok ctx1) (ha : afterHandle ctx1.nodes i = .ok nodes2) :
    Steps pf tree crj 1 ⟨data, nodes, RS, S.push i⟩ { ctx1 with nodes := nodes2 } := by
  intro n
  simp only [innerLoop, Array.back?_push, Array.pop_push, hpn, hh, ha, Outcome.bind]

/-! ### the entry a parent writes for a child it schedules inline -/

/-- the other fields a parent may set: the conditional parent, and — for a node that starts a root — the jump entry to
patch and the terminators -/
structure Ex where
  cond : Option Nat
  jump : Option Nat
  ends : Option (List Instr)

def Ex.ofCond (c : Option Nat) : Ex := ⟨c, none, none⟩
abbrev Ex.none : Ex := Ex.ofCond Option.none

def mkNode (i cur : Nat) (lp : Option (Nat × Definition)) (cp : Ex) : BuildNode :=
  { BuildNode.new i cur with listParent := lp, conditionalParent := cp.cond, jumpIndexToUpdate := cp.jump,
                             rootEndInstruction := cp.ends }

theorem mkNode_new (i cur : Nat) : BuildNode.new i cur = mkNode i cur none Ex.none := rfl
theorem mkNode_list (i cur p : Nat) (d : Definition) : BuildNode.newWithList i cur p d = mkNode i cur (some (p, d)) Ex.none := rfl
theorem mkNode_cond (i cur c : Nat) : BuildNode.newWithConditional i cur c = mkNode i cur none (Ex.ofCond (some c)) := rfl
theorem mkNode_jumpEnd (i cur j : Nat) (e : List Instr) :
    BuildNode.newWithJumpAndEnd i cur j e = mkNode i cur none ⟨none, some j, some e⟩ := rfl
theorem mkNode_jump (i cur j : Nat) : BuildNode.newWithJump i cur j = mkNode i cur none ⟨none, some j, none⟩ := rfl

/-- the node after its first visit (before `afterHandle`) -/
def visited (b : BuildNode) : BuildNode := { b with state := .initialized }

/-- `afterHandle` after the first visit of a node that was scheduled by `mkNode`: counted once for its list parent -/
def counted (nodes : Nodes) (i : Nat) (b : BuildNode) (lp : Option (Nat × Definition)) (pbn : BuildNode) : Nodes :=
  match lp with
  | none => nodes
  | some (par, _) => putNode (putNode nodes i { b with contributesToList := false }) par { pbn with childCount := pbn.childCount + 1 }

theorem afterHandle_counted {nodes : Nodes} {i : Nat} {b pbn : BuildNode} {lp : Option (Nat × Definition)}
    (hb : nodes[i]? = some (some b)) (hc : b.contributesToList = true) (hl : b.listParent = lp)
    (hp : ∀ par d, lp = some (par, d) → par ≠ i ∧ nodes[par]? = some (some pbn)) :
    afterHandle nodes i = .ok (counted nodes i b lp pbn) := by
  unfold afterHandle counted
  rw [hb]
  simp only [hc, if_true, hl]
  cases lp with
  | none => rfl
  | some pd =>
    obtain ⟨par, d⟩ := pd
    obtain ⟨hne, hpar⟩ := hp par d rfl
    have hlt : i < nodes.size := by
      rcases Nat.lt_or_ge i nodes.size with h | h
      · exact h
      · rw [Array.getElem?_eq_none h] at hb; cases hb
    simp only [getNode, putNode, Array.getElem?_setIfInBounds, Ne.symm hne, if_false, hpar, Outcome.bind]

/-- `afterHandle` when the node does not count (any more) -/
theorem afterHandle_id {nodes : Nodes} {i : Nat} {b : BuildNode} (hb : nodes[i]? = some (some b))
    (h : b.contributesToList = false ∨ b.listParent = none) : afterHandle nodes i = .ok nodes := by
  unfold afterHandle
  rw [hb]
  rcases h with h | h
  · simp [h]
  · by_cases hc : b.contributesToList = true
    · simp [hc, h]
    · simp [hc]

end Garnish.Abs.Tree
