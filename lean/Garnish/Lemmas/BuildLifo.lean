/-
C04, builder half — the order of the out-of-line parts, part 1: the static description of `conditional_parent`, of the
moment at which an out-of-line child is pushed on `root_stack` (`Sched`), and the relation `Rel r1 r2`: "`r1` is pushed
before `r2` while one root is built" — so `r2`, with its whole subtree, is emitted first.

`conditional_parent` of the build node of `x` (`CP x cp` / `NCP x`):
  * the left child of And / Or gets `Some(the And / Or node)`;
  * both children of an ElseJump get the ElseJump's own conditional parent, or the ElseJump itself when it has none
    (the head of the else-chain);
  * every other node gets `None`.
An out-of-line child `r` (right child of `k`) is pushed (`Sched r s k`)
  * in the last visit of its owner `k` (`s = k`) when `k` is And / Or / NestedExpression, or a JumpIf… without
    conditional parent;
  * in the last visit of the chain head `s` when `k` is a JumpIf… whose conditional parent `s` is an ElseJump: the head
    collects the arms in the order in which their owners finish and pushes them together, in that order.
(A JumpIf… whose conditional parent is an And / Or node records its arm there, and nobody pushes it: such a build fails
the final check unless everything below the arm is a Subexpression.)
-/
import Garnish.Lemmas.BuildSeq14
namespace Garnish.Lemmas.BuildSeq
open Garnish Garnish.Gen Garnish.Model.Parser Garnish.Model.Literals Garnish.Model.Build Garnish.Lemmas.Build
open Garnish.Lemmas.BuildTotal

def isLogical (d : Definition) : Bool := d == .and || d == .or
def isJumpIf (d : Definition) : Bool := d == .jumpIfTrue || d == .jumpIfFalse
/-- owners that always push their out-of-line child in their own last visit -/
def isDirect (d : Definition) : Bool := isLogical d || d == .nestedExpression

theorem oolR_iff (d : Definition) : oolR d = true ↔ isDirect d = true ∨ isJumpIf d = true := by
  cases d <;> simp [oolR, isLate, isDirect, isLogical, isJumpIf]

mutual
/-- the build node of `x` gets `conditional_parent = Some(cp)`; `P` says which indices are nodes of the tree -/
inductive CP (tree : Array ParseNode) (P : Nat → Prop) (root : Nat) : Nat → Nat → Prop
  | logical {y x : Nat} {pn : ParseNode} : tree[y]? = some pn → isLogical pn.definition = true → pn.left = some x →
      CP tree P root x y
  | inherit {e x cp : Nat} {pn : ParseNode} : tree[e]? = some pn → pn.definition = .elseJump →
      (pn.left = some x ∨ pn.right = some x) → CP tree P root e cp → CP tree P root x cp
  | top {e x : Nat} {pn : ParseNode} : tree[e]? = some pn → pn.definition = .elseJump →
      (pn.left = some x ∨ pn.right = some x) → NCP tree P root e → CP tree P root x e
/-- the build node of `x` gets `conditional_parent = None` -/
inductive NCP (tree : Array ParseNode) (P : Nat → Prop) (root : Nat) : Nat → Prop
  | root : NCP tree P root root
  | other {y x : Nat} {pn : ParseNode} : P y → tree[y]? = some pn → (pn.left = some x ∨ pn.right = some x) →
      pn.definition ≠ .elseJump → ¬ (isLogical pn.definition = true ∧ pn.left = some x) → NCP tree P root x
end

/-- what the field `conditional_parent` of a build node says -/
def CPdyn (tree : Array ParseNode) (P : Nat → Prop) (root x : Nat) : Option Nat → Prop
  | some cp => CP tree P root x cp
  | none => NCP tree P root x

/-- `r`, the out-of-line child of `k`, is pushed on `root_stack` in the last visit of `s` -/
def Sched (tree : Array ParseNode) (P : Nat → Prop) (root r s k : Nat) : Prop :=
  ∃ pn, tree[k]? = some pn ∧ pn.right = some r ∧
    ((s = k ∧ (isDirect pn.definition = true ∨ (isJumpIf pn.definition = true ∧ NCP tree P root k))) ∨
     (isJumpIf pn.definition = true ∧ CP tree P root k s ∧ ∃ sn, tree[s]? = some sn ∧ sn.definition = .elseJump))

/-- the last visit of `y1` comes before the last visit of `y2` (two nodes of one root) -/
def LastB (tree : Array ParseNode) (P : Nat → Prop) (y1 y2 : Nat) : Prop :=
  (∃ w a b, P w ∧ Ord tree w a b ∧ IDesc tree a y1 ∧ IDesc tree b y2) ∨ (∃ c, PreC tree y2 c ∧ IDesc tree c y1) ∨
  (∃ c, PostC tree y1 c ∧ IDesc tree c y2)

/-- `r1` is pushed on `root_stack` before `r2`, while the root that contains both schedulers is built -/
def Rel (tree : Array ParseNode) (P : Nat → Prop) (root r1 r2 : Nat) : Prop :=
  ∃ ρ s1 k1 s2 k2, P ρ ∧ IDesc tree ρ s1 ∧ IDesc tree ρ s2 ∧ Sched tree P root r1 s1 k1 ∧ Sched tree P root r2 s2 k2 ∧
    (LastB tree P s1 s2 ∨ (s1 = s2 ∧ LastB tree P k1 k2))

/-- everything below `r2` precedes everything below `r1` -/
def PrecL (tree : Array ParseNode) (P : Nat → Prop) (root x z : Nat) : Prop :=
  ∃ r1 r2, Rel tree P root r1 r2 ∧ Sub tree r2 x ∧ Sub tree r1 z

section statics
variable {tree : Array ParseNode} {P Q : Nat → Prop} {root : Nat}

mutual
theorem CP.mono (h : ∀ y, P y → Q y) : ∀ {x cp : Nat}, CP tree P root x cp → CP tree Q root x cp
  | _, _, .logical h1 h2 h3 => .logical h1 h2 h3
  | _, _, .inherit h1 h2 h3 h4 => .inherit h1 h2 h3 (CP.mono h h4)
  | _, _, .top h1 h2 h3 h4 => .top h1 h2 h3 (NCP.mono h h4)
theorem NCP.mono (h : ∀ y, P y → Q y) : ∀ {x : Nat}, NCP tree P root x → NCP tree Q root x
  | _, .root => .root
  | _, .other h0 h1 h2 h3 h4 => .other (h _ h0) h1 h2 h3 h4
end

theorem Sched.mono (h : ∀ y, P y → Q y) {r s k : Nat} (hs : Sched tree P root r s k) : Sched tree Q root r s k := by
  obtain ⟨pn, h1, h2, h3⟩ := hs
  refine ⟨pn, h1, h2, ?_⟩
  rcases h3 with ⟨e, h4 | ⟨h4, h5⟩⟩ | ⟨h4, h5, h6⟩
  · exact Or.inl ⟨e, Or.inl h4⟩
  · exact Or.inl ⟨e, Or.inr ⟨h4, NCP.mono h h5⟩⟩
  · exact Or.inr ⟨h4, CP.mono h h5, h6⟩

theorem LastB.mono (h : ∀ y, P y → Q y) {y1 y2 : Nat} (hl : LastB tree P y1 y2) : LastB tree Q y1 y2 := by
  rcases hl with ⟨w, a, b, h0, h1⟩ | h1 | h1
  · exact Or.inl ⟨w, a, b, h _ h0, h1⟩
  · exact Or.inr (Or.inl h1)
  · exact Or.inr (Or.inr h1)

theorem Rel.mono (h : ∀ y, P y → Q y) {r1 r2 : Nat} (hr : Rel tree P root r1 r2) : Rel tree Q root r1 r2 := by
  obtain ⟨ρ, s1, k1, s2, k2, h0, h1, h2, h3, h4, h5⟩ := hr
  refine ⟨ρ, s1, k1, s2, k2, h _ h0, h1, h2, h3.mono h, h4.mono h, ?_⟩
  rcases h5 with h5 | ⟨e, h5⟩
  · exact Or.inl (h5.mono h)
  · exact Or.inr ⟨e, h5.mono h⟩

theorem Sched.ool {r s k : Nat} (hs : Sched tree P root r s k) : OolChild tree k r := by
  obtain ⟨pn, h1, h2, h3⟩ := hs
  refine ⟨pn, h1, h2, (oolR_iff _).2 ?_⟩
  rcases h3 with ⟨_, h4 | ⟨h4, _⟩⟩ | ⟨h4, _, _⟩
  · exact Or.inl h4
  · exact Or.inr h4
  · exact Or.inr h4

end statics

end Garnish.Lemmas.BuildSeq
