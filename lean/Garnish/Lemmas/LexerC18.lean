/-
Helper lemmas for the lexer half of property C18 (Garnish/Props/C18Lex.lean): the lexer model does not depend on
its position counters (`text_row`, `text_column`, `token_start_row`, `token_start_column`, `characters_lexed`),
which are only copied into the emitted tokens. `PosEq σ σ'` = equal up to those counters.
Proved: every arm except Float (`arm*_pos`), `start_token` (`startToken_setPos`), `pushNewToken`, the tail of
`process_char` (`finishChar_congr`) and `process_char` itself for every state except Float (`processChar_congr`).
-/
import Garnish.Lemmas.LexerC13
set_option linter.unusedSimpArgs false
set_option linter.unusedVariables false
namespace Garnish.Model.Lexer

/-! ## insensitivity of the lexer to positions and to the amount of horizontal whitespace -/

/-- `σ` with other position counters -/
def setPos (σ : Lexer) (r c tr tc n : Nat) : Lexer :=
  { σ with textRow := r, textColumn := c, tokenStartRow := tr, tokenStartColumn := tc, charactersLexed := n }

/-- the two lexers agree on everything except the position counters (`text_row`, `text_column`,
`token_start_row`, `token_start_column`, `characters_lexed`) -/
def PosEq (σ σ' : Lexer) : Prop := ∃ r c tr tc n, σ' = setPos σ r c tr tc n

theorem PosEq.refl (σ : Lexer) : PosEq σ σ := ⟨σ.textRow, σ.textColumn, σ.tokenStartRow, σ.tokenStartColumn, σ.charactersLexed, rfl⟩

theorem PosEq.symm {σ σ' : Lexer} (h : PosEq σ σ') : PosEq σ' σ := by
  obtain ⟨r, c, tr, tc, n, rfl⟩ := h
  exact ⟨σ.textRow, σ.textColumn, σ.tokenStartRow, σ.tokenStartColumn, σ.charactersLexed, rfl⟩

theorem PosEq.trans {a b c : Lexer} (h1 : PosEq a b) (h2 : PosEq b c) : PosEq a c := by
  obtain ⟨r, c1, tr, tc, n, rfl⟩ := h1
  obtain ⟨r', c', tr', tc', n', rfl⟩ := h2
  exact ⟨r', c', tr', tc', n', rfl⟩

theorem posEq_setPos (σ : Lexer) (r c tr tc n r' c' tr' tc' n' : Nat) :
    PosEq (setPos σ r c tr tc n) (setPos σ r' c' tr' tc' n') := ⟨r', c', tr', tc', n', rfl⟩

/-- two arm results agree up to positions -/
def PairEq (p q : Lexer × Bool) : Prop := PosEq p.1 q.1 ∧ p.2 = q.2

macro "pos_tac" f:ident : tactic =>
  `(tactic| (unfold $f setPos; (try simp only []); (repeat' split) <;>
             simp_all [PairEq, PosEq, setPos, currentOperator, push, pop]))

theorem armNumber_pos (cc : CharClass) (σ : Lexer) (ch : Char) (r c tr tc n : Nat) :
    PairEq (armNumber cc σ ch) (armNumber cc (setPos σ r c tr tc n) ch) := by
  pos_tac armNumber
theorem armOperator_pos (cc : CharClass) (σ : Lexer) (ch : Char) (r c tr tc n : Nat) :
    PairEq (armOperator cc σ ch) (armOperator cc (setPos σ r c tr tc n) ch) := by
  pos_tac armOperator
theorem armIdentifier_pos (cc : CharClass) (σ : Lexer) (ch : Char) (r c tr tc n : Nat) :
    PairEq (armIdentifier cc σ ch) (armIdentifier cc (setPos σ r c tr tc n) ch) := by
  pos_tac armIdentifier
theorem armStartCharList_pos (σ : Lexer) (ch : Char) (r c tr tc n : Nat) :
    PairEq (armStartCharList σ ch) (armStartCharList (setPos σ r c tr tc n) ch) := by
  pos_tac armStartCharList
theorem armCharList_pos (σ : Lexer) (ch : Char) (r c tr tc n : Nat) :
    PairEq (armCharList σ ch) (armCharList (setPos σ r c tr tc n) ch) := by
  pos_tac armCharList
theorem armStartByteList_pos (σ : Lexer) (ch : Char) (r c tr tc n : Nat) :
    PairEq (armStartByteList σ ch) (armStartByteList (setPos σ r c tr tc n) ch) := by
  pos_tac armStartByteList
theorem armByteList_pos (σ : Lexer) (ch : Char) (r c tr tc n : Nat) :
    PairEq (armByteList σ ch) (armByteList (setPos σ r c tr tc n) ch) := by
  pos_tac armByteList
theorem armSpaces_pos (σ : Lexer) (ch : Char) (r c tr tc n : Nat) :
    PairEq (armSpaces σ ch) (armSpaces (setPos σ r c tr tc n) ch) := by
  pos_tac armSpaces
theorem armSubexpression_pos (σ : Lexer) (ch : Char) (r c tr tc n : Nat) :
    PairEq (armSubexpression σ ch) (armSubexpression (setPos σ r c tr tc n) ch) := by
  pos_tac armSubexpression
theorem armAnnotation_pos (cc : CharClass) (σ : Lexer) (ch : Char) (r c tr tc n : Nat) :
    PairEq (armAnnotation cc σ ch) (armAnnotation cc (setPos σ r c tr tc n) ch) := by
  pos_tac armAnnotation
theorem armLineAnnotation_pos (σ : Lexer) (ch : Char) (r c tr tc n : Nat) :
    PairEq (armLineAnnotation σ ch) (armLineAnnotation (setPos σ r c tr tc n) ch) := by
  pos_tac armLineAnnotation

theorem startToken_setPos (cc : CharClass) (σ : Lexer) (ch : Char) (r c tr tc n : Nat) :
    startToken cc (setPos σ r c tr tc n) ch = setPos (startToken cc σ ch) r c r c n := by
  unfold startToken setPos
  simp only [currentOperator, push]
  split
  · rfl
  · repeat' split
    all_goals rfl

theorem startToken_pos (cc : CharClass) (σ : Lexer) (ch : Char) (r c tr tc n : Nat) :
    PosEq (startToken cc σ ch) (startToken cc (setPos σ r c tr tc n) ch) :=
  ⟨r, c, r, c, n, startToken_setPos cc σ ch r c tr tc n⟩

/-- same type and text (positions may differ) -/
def TokEq (t t' : LexerToken) : Prop := t.text = t'.text ∧ t.tokenType = t'.tokenType

def OptTokEq : Option LexerToken → Option LexerToken → Prop
  | none, none => True
  | some t, some t' => TokEq t t'
  | _, _ => False

/-- results of `finishChar` / `processChar` agree up to positions -/
def ResEq (p q : Lexer × Option LexerToken) : Prop := PosEq p.1 q.1 ∧ OptTokEq p.2 q.2

theorem bumpColumn_setPos (σ : Lexer) (ch : Char) (r c tr tc n : Nat) :
    PosEq (bumpColumn σ ch) (bumpColumn (setPos σ r c tr tc n) ch) := by
  unfold bumpColumn setPos
  split <;> simp [PosEq, setPos]

theorem posEq_iff (a b : Lexer) : PosEq a b ↔
    (b.operatorTree = a.operatorTree ∧ b.currentCharacters = a.currentCharacters ∧
     b.currentTokenType = a.currentTokenType ∧ b.shouldCreate = a.shouldCreate ∧ b.state = a.state ∧
     b.canFloat = a.canFloat ∧ b.startQuoteCount = a.startQuoteCount ∧ b.endQuoteCount = a.endQuoteCount ∧
     b.couldBeSubExpression = a.couldBeSubExpression ∧ b.result = a.result ∧ b.atEnd = a.atEnd) := by
  constructor
  · rintro ⟨r, c, tr, tc, n, rfl⟩
    exact ⟨rfl, rfl, rfl, rfl, rfl, rfl, rfl, rfl, rfl, rfl, rfl⟩
  · intro h
    refine ⟨b.textRow, b.textColumn, b.tokenStartRow, b.tokenStartColumn, b.charactersLexed, ?_⟩
    cases a; cases b
    simp only [setPos] at h ⊢
    obtain ⟨h1, h2, h3, h4, h5, h6, h7, h8, h9, h10, h11⟩ := h
    subst h1 h2 h3 h4 h5 h6 h7 h8 h9 h10 h11
    rfl

theorem startToken_congr (cc : CharClass) {a b : Lexer} (ch : Char) (h : PosEq a b) :
    PosEq (startToken cc a ch) (startToken cc b ch) := by
  obtain ⟨r, c, tr, tc, n, rfl⟩ := h
  exact startToken_pos cc a ch r c tr tc n

theorem bumpColumn_congr {a b : Lexer} (ch : Char) (h : PosEq a b) : PosEq (bumpColumn a ch) (bumpColumn b ch) := by
  obtain ⟨r, c, tr, tc, n, rfl⟩ := h
  exact bumpColumn_setPos a ch r c tr tc n

def StepEq : Step → Step → Prop
  | .cont a nt sn, .cont b nt' sn' => PosEq a b ∧ OptTokEq nt nt' ∧ sn = sn'
  | .returnNone a, .returnNone b => PosEq a b
  | _, _ => False

theorem pushNewToken_pos (σ : Lexer) (r c tr tc n : Nat) :
    StepEq (pushNewToken σ none) (pushNewToken (setPos σ r c tr tc n) none) := by
  unfold pushNewToken canCreateValidToken setPos
  simp only []
  repeat' split
  all_goals simp_all [StepEq, OptTokEq, TokEq, posEq_iff]

theorem finishChar_congr (cc : CharClass) {a b : Lexer} (ch : Char) (sn : Bool) (h : PosEq a b) :
    ResEq (finishChar cc a ch none sn) (finishChar cc b ch none sn) := by
  cases sn with
  | false =>
    simp only [finishChar, Bool.false_eq_true, ↓reduceIte]
    exact ⟨bumpColumn_congr ch h, trivial⟩
  | true =>
    obtain ⟨r, c, tr, tc, n, rfl⟩ := h
    simp only [finishChar, ↓reduceIte]
    have hp := pushNewToken_pos { a with canFloat := !blocksFloat a.currentTokenType } r c tr tc n
    have e : ({ setPos a r c tr tc n with canFloat := !blocksFloat (setPos a r c tr tc n).currentTokenType } : Lexer) =
        setPos { a with canFloat := !blocksFloat a.currentTokenType } r c tr tc n := rfl
    rw [e]
    generalize pushNewToken { a with canFloat := !blocksFloat a.currentTokenType } none = p at hp
    generalize pushNewToken (setPos { a with canFloat := !blocksFloat a.currentTokenType } r c tr tc n) none = q at hp
    cases p <;> cases q <;> simp only [StepEq] at hp
    · rename_i s1 nt1 b1 s2 nt2 b2
      obtain ⟨hpe, hte, _⟩ := hp
      obtain ⟨e0, e3, e2, e4, e1, e5, e6, e7, e8, e9, e10⟩ := (posEq_iff s1 s2).mp hpe
      simp only []
      refine ⟨bumpColumn_congr ch ?_, hte⟩
      rw [e4]
      split
      · apply startToken_congr
        rw [posEq_iff]; simp [*]
      · rw [posEq_iff]; simp [*]
    · exact ⟨hp, trivial⟩

def OutResEq : Outcome (Lexer × Option LexerToken) → Outcome (Lexer × Option LexerToken) → Prop
  | .ok p, .ok q => ResEq p q
  | _, _ => False

/-- `process_char` does not depend on the position counters: they are only copied into tokens.
Proved for every state except `Float` (whose arm also reads `text_column` for the `text_column - 1` of the float
split; the analogous statement there needs `1 ≤ text_column` on both sides and is not proved here). -/
theorem processChar_congr (cc : CharClass) {a b : Lexer} (ch : Char) (h : PosEq a b) (hnf : a.state ≠ .float) :
    OutResEq (processChar cc a ch) (processChar cc b ch) := by
  obtain ⟨r, c, tr, tc, n, rfl⟩ := h
  unfold processChar
  simp only []
  have e : ({ setPos a r c tr tc n with charactersLexed := (setPos a r c tr tc n).charactersLexed + 1 } : Lexer) =
      setPos { a with charactersLexed := a.charactersLexed + 1 } r c tr tc (n + 1) := rfl
  rw [e]
  generalize ha0 : ({ a with charactersLexed := a.charactersLexed + 1 } : Lexer) = a0
  have hs0 : a0.state = a.state := by subst ha0; rfl
  have key : ∀ p q : Lexer × Bool, PairEq p q →
      OutResEq (match Step.ofPair p with
        | .ok (.cont s nt sn) => .ok (finishChar cc s ch nt sn)
        | .ok (.returnNone s) => .ok (s, none)
        | .err e => .err e | .panic s => .panic s | .fuelOut => .fuelOut)
       (match Step.ofPair q with
        | .ok (.cont s nt sn) => .ok (finishChar cc s ch nt sn)
        | .ok (.returnNone s) => .ok (s, none)
        | .err e => .err e | .panic s => .panic s | .fuelOut => .fuelOut) := by
    intro p q hpq
    obtain ⟨h1, h2⟩ := hpq
    simp only [Step.ofPair, OutResEq]
    rw [h2]
    exact finishChar_congr cc ch q.2 h1
  unfold stateStep
  have es : (setPos a0 r c tr tc (n + 1)).state = a0.state := rfl
  rw [es]
  cases hs : a0.state <;> simp only []
  case float => exact absurd (hs0 ▸ hs) hnf
  case noToken => exact key _ _ ⟨startToken_pos cc a0 ch r c tr tc (n + 1), rfl⟩
  case operator => exact key _ _ (armOperator_pos cc a0 ch r c tr tc (n + 1))
  case spaces => exact key _ _ (armSpaces_pos a0 ch r c tr tc (n + 1))
  case subexpression => exact key _ _ (armSubexpression_pos a0 ch r c tr tc (n + 1))
  case number => exact key _ _ (armNumber_pos cc a0 ch r c tr tc (n + 1))
  case identifier => exact key _ _ (armIdentifier_pos cc a0 ch r c tr tc (n + 1))
  case annotation => exact key _ _ (armAnnotation_pos cc a0 ch r c tr tc (n + 1))
  case lineAnnotation => exact key _ _ (armLineAnnotation_pos a0 ch r c tr tc (n + 1))
  case charList => exact key _ _ (armCharList_pos a0 ch r c tr tc (n + 1))
  case startCharList => exact key _ _ (armStartCharList_pos a0 ch r c tr tc (n + 1))
  case byteList => exact key _ _ (armByteList_pos a0 ch r c tr tc (n + 1))
  case startByteList => exact key _ _ (armStartByteList_pos a0 ch r c tr tc (n + 1))

def OutStepEq : Outcome Step → Outcome Step → Prop
  | .ok p, .ok q => StepEq p q
  | _, _ => False

theorem armFloat_congr (cc : CharClass) {a b : Lexer} (ch : Char) (h : PosEq a b) (h1 : 1 ≤ a.textColumn)
    (h2 : 1 ≤ b.textColumn) : OutStepEq (armFloat cc a ch) (armFloat cc b ch) := by
  obtain ⟨e0, e3, e2, e4, e1, e5, e6, e7, e8, e9, e10⟩ := (posEq_iff a b).mp h
  have hn1 : ¬ (a.textColumn = 0) := by omega
  have hn2 : ¬ (b.textColumn = 0) := by omega
  have hst : PosEq (startToken cc { a with tokenStartRow := a.textRow } '.')
      (startToken cc { b with tokenStartRow := b.textRow } '.') :=
    startToken_congr cc '.' (by rw [posEq_iff]; simp [*])
  have ea : ({ a with tokenStartRow := a.textRow } : Lexer).textColumn = a.textColumn := rfl
  have eb : ({ b with tokenStartRow := b.textRow } : Lexer).textColumn = b.textColumn := rfl
  unfold armFloat
  dsimp only
  generalize startToken cc { a with tokenStartRow := a.textRow } '.' = s1 at hst ⊢
  generalize startToken cc { b with tokenStartRow := b.textRow } '.' = s2 at hst ⊢
  obtain ⟨f0, f3, f2, f4, f1, f5, f6, f7, f8, f9, f10⟩ := (posEq_iff s1 s2).mp hst
  simp only [ea, eb, hn1, hn2, ↓reduceIte, currentOperator, f0, f3, e3]
  split
  · simp only [OutStepEq, StepEq, OptTokEq]
    exact ⟨by rw [posEq_iff]; simp [*], trivial, trivial⟩
  · split
    · split
      · simp only [OutStepEq, StepEq, OptTokEq, TokEq]
        exact ⟨by rw [posEq_iff]; simp [*], by simp [*], trivial⟩
      · simp only [OutStepEq, StepEq]
        rw [posEq_iff]; simp [*]
    · simp only [OutStepEq, StepEq, OptTokEq]
      exact ⟨h, trivial, trivial⟩

theorem armFloat_ends_without_token (cc : CharClass) (σ s : Lexer) (ch : Char) (nt : Option LexerToken)
    (h : armFloat cc σ ch = .ok (.cont s nt true)) : nt = none := by
  unfold armFloat at h
  split at h
  · cases h
  · split at h
    · dsimp only at h
      split at h
      · cases h
      · split at h <;> cases h
    · cases h; rfl

/-- `process_char` does not depend on the position counters, in every state (in the Float state `Inv`, i.e.
`1 ≤ text_column`, is needed on both sides for the `text_column - 1` of the float split) -/
theorem processChar_congr_inv (cc : CharClass) {a b : Lexer} (ch : Char) (h : PosEq a b) (ha : Inv a) (hb : Inv b) :
    OutResEq (processChar cc a ch) (processChar cc b ch) := by
  by_cases hf : a.state = .float
  · obtain ⟨e0, e3, e2, e4, e1, e5, e6, e7, e8, e9, e10⟩ := (posEq_iff a b).mp h
    have hfb : b.state = .float := by rw [e1]; exact hf
    unfold processChar
    simp only []
    have hpe : PosEq { a with charactersLexed := a.charactersLexed + 1 } { b with charactersLexed := b.charactersLexed + 1 } := by
      rw [posEq_iff]; simp [*]
    have hsa : stateStep cc { a with charactersLexed := a.charactersLexed + 1 } ch =
        armFloat cc { a with charactersLexed := a.charactersLexed + 1 } ch := by
      unfold stateStep
      rw [show ({ a with charactersLexed := a.charactersLexed + 1 } : Lexer).state = .float from hf]
    have hsb : stateStep cc { b with charactersLexed := b.charactersLexed + 1 } ch =
        armFloat cc { b with charactersLexed := b.charactersLexed + 1 } ch := by
      unfold stateStep
      rw [show ({ b with charactersLexed := b.charactersLexed + 1 } : Lexer).state = .float from hfb]
    rw [hsa, hsb]
    have := armFloat_congr cc ch hpe (ha hf) (hb hfb)
    cases hx : armFloat cc { a with charactersLexed := a.charactersLexed + 1 } ch <;>
      cases hy : armFloat cc { b with charactersLexed := b.charactersLexed + 1 } ch <;>
      rw [hx, hy] at this <;> simp only [OutStepEq] at this
    rename_i p q
    cases p <;> cases q <;> simp only [StepEq] at this
    · rename_i s1 nt1 b1 s2 nt2 b2
      obtain ⟨hpe', hte, rfl⟩ := this
      simp only [OutResEq]
      cases b1 with
      | false =>
        simp only [finishChar, Bool.false_eq_true, ↓reduceIte]
        exact ⟨bumpColumn_congr ch hpe', hte⟩
      | true =>
        have hn1 := armFloat_ends_without_token cc _ _ _ _ hx
        have hn2 := armFloat_ends_without_token cc _ _ _ _ hy
        subst hn1 hn2
        exact finishChar_congr cc ch true hpe'
    · exact ⟨this, trivial⟩
  · exact processChar_congr cc ch h hf

end Garnish.Model.Lexer
