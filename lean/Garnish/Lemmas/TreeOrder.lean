/-
The descendants of a node of a proper tree (`Spec.IsTreeAt`) and the in-order walk: with an increasing in-order walk
(`C02_parse_inorder_range`: the parser numbers the nodes in in-order) everything below the left child of a node has a
smaller index and everything below its right child a larger one.
-/
import Garnish.Lemmas.BuildSeq
import Garnish.Lemmas.Tree
namespace Garnish.Lemmas.TreeOrder
open Garnish Garnish.Gen Garnish.Spec Garnish.Model.Parser
open Garnish.Lemmas.BuildTotal (IsChild)
open Garnish.Lemmas.BuildSeq (Sub)

variable {nodes : Array ParseNode}

theorem root_mem {p : Option Nat} {i : Nat} {t : Tree} (h : IsTreeAt nodes p (some i) t) : i ∈ t.inorder := by
  cases h; simp [Tree.inorder]

/-- the in-order walk of a subtree is closed under children -/
theorem child_mem {p link : Option Nat} {t : Tree} (h : IsTreeAt nodes p link t) :
    ∀ w, w ∈ t.inorder → ∀ x, IsChild nodes w x → x ∈ t.inorder := by
  induction h with
  | nil => intro w hw; cases hw
  | node p i n l r hn hp hl hr ihl ihr =>
    intro w hw x hx
    simp only [Tree.inorder, List.mem_append, List.mem_cons] at hw ⊢
    rcases hw with hw | hw | hw
    · exact Or.inl (ihl w hw x hx)
    · subst hw
      obtain ⟨pn, h1, h2⟩ := hx
      rw [hn] at h1; cases h1
      rcases h2 with h2 | h2
      · rw [h2] at hl; exact Or.inl (root_mem hl)
      · rw [h2] at hr; exact Or.inr (Or.inr (root_mem hr))
    · exact Or.inr (Or.inr (ihr w hw x hx))

theorem sub_mem {p : Option Nat} {i : Nat} {t : Tree} (h : IsTreeAt nodes p (some i) t) {x : Nat} (hs : Sub nodes i x) :
    x ∈ t.inorder := by
  induction hs with
  | refl => exact root_mem h
  | step _ hc ih => exact child_mem h _ ih _ hc

/-- every entry of the in-order walk is a descendant of the root of the subtree -/
theorem mem_sub {p link : Option Nat} {t : Tree} (h : IsTreeAt nodes p link t) :
    ∀ i, link = some i → ∀ x, x ∈ t.inorder → Sub nodes i x := by
  induction h with
  | nil => intro i hi; cases hi
  | node p i n l r hn hp hl hr ihl ihr =>
    intro i' hi x hx
    cases hi
    simp only [Tree.inorder, List.mem_append, List.mem_cons] at hx
    rcases hx with hx | hx | hx
    · cases hleft : n.left with
      | none => rw [hleft] at hl; cases hl; cases hx
      | some c => exact Sub.trans (Sub.step (Sub.refl i) ⟨n, hn, Or.inl hleft⟩) (ihl c hleft x hx)
    · subst hx; exact Sub.refl x
    · cases hright : n.right with
      | none => rw [hright] at hr; cases hr; cases hx
      | some c => exact Sub.trans (Sub.step (Sub.refl i) ⟨n, hn, Or.inr hright⟩) (ihr c hright x hx)

/-- with an increasing in-order walk: below the left child smaller, below the right child larger -/
theorem inorder_sides {p link : Option Nat} {t : Tree} (h : IsTreeAt nodes p link t) :
    t.inorder.Pairwise (· < ·) → ∀ y, y ∈ t.inorder → ∀ yn, nodes[y]? = some yn →
      (∀ c x, yn.left = some c → Sub nodes c x → x < y) ∧ (∀ c z, yn.right = some c → Sub nodes c z → y < z) := by
  induction h with
  | nil => intro _ y hy; cases hy
  | node p i n l r hn hp hl hr ihl ihr =>
    intro hpw y hy yn hyn
    simp only [Tree.inorder] at hpw hy
    have hpl := (List.pairwise_append.1 hpw).1
    have hpr := (List.pairwise_cons.1 (List.pairwise_append.1 hpw).2.1).2
    have hli : ∀ a, a ∈ l.inorder → a < i := fun a ha => (List.pairwise_append.1 hpw).2.2 a ha i (by simp)
    have hir : ∀ b, b ∈ r.inorder → i < b := fun b hb => (List.pairwise_cons.1 (List.pairwise_append.1 hpw).2.1).1 b hb
    simp only [List.mem_append, List.mem_cons] at hy
    rcases hy with hy | hy | hy
    · exact ihl hpl y hy yn hyn
    · subst hy
      rw [hn] at hyn; cases hyn
      refine ⟨fun c x hc hs => ?_, fun c z hc hs => ?_⟩
      · rw [hc] at hl; exact hli x (sub_mem hl hs)
      · rw [hc] at hr; exact hir z (sub_mem hr hs)
    · exact ihr hpr y hy yn hyn

theorem range_pairwise (n : Nat) : (List.range n).Pairwise (· < ·) := by
  simpa using List.pairwise_lt_range (n := n)

end Garnish.Lemmas.TreeOrder
