/-
`treeOf` (4): the numbered skeleton of an expression in the fragment `fragE` represents it.
-/
import Garnish.Lemmas.CompileTreeOf3
namespace Garnish.Abs.Tree
open Garnish Garnish.Gen Garnish.Spec Garnish.Abs Garnish.Model.Parser Garnish.Model.Literals Garnish.Model.Build
open Sk

variable {F : Type} {pf : List Char → Option F} {bodies : List (Nat × Expr F)}

theorem good_bin {l r : Sk} {d : Lab} {a b e : Expr F}
    (mk : ∀ (tree : Array ParseNode) (lo hi i l r : Nat) (pn : ParseNode), tree[i]? = some pn → pn.definition = d.1 →
      pn.lexToken.text = d.2 → pn.left = some l → pn.right = some r → NotCond tree l → NotCond tree r →
      Rep pf tree bodies lo i l a → Rep pf tree bodies (i + 1) hi r b → Rep pf tree bodies lo hi i e)
    (h1 : GoodW pf bodies l a) (h2 : GoodW pf bodies r b) : Good pf bodies (.bin l d r) e := by
  intro tree lo par h
  obtain ⟨hn, ha, hb⟩ := h.bin
  rw [size_bin, root_bin]
  exact mk tree _ _ _ _ _ _ hn rfl rfl rfl rfl (root_def ha h1.2).1 (root_def hb h2.2).1 (h1.1 _ _ _ ha) (h2.1 _ _ _ hb)

theorem good_pre {c : Sk} {d : Lab} {x e : Expr F}
    (mk : ∀ (tree : Array ParseNode) (hi i r : Nat) (pn : ParseNode), tree[i]? = some pn → pn.definition = d.1 →
      pn.lexToken.text = d.2 → pn.right = some r → Rep pf tree bodies (i + 1) hi r x → Rep pf tree bodies i hi i e)
    (h1 : Good pf bodies c x) : Good pf bodies (.pre d c) e := by
  intro tree lo par h
  obtain ⟨hn, ha⟩ := h.pre
  rw [size_pre, root_pre]
  exact mk tree _ _ _ _ hn rfl rfl rfl (h1 _ _ _ ha)

theorem good_suf {c : Sk} {d : Lab} {x e : Expr F}
    (mk : ∀ (tree : Array ParseNode) (lo i l : Nat) (pn : ParseNode), tree[i]? = some pn → pn.definition = d.1 →
      pn.lexToken.text = d.2 → pn.left = some l → Rep pf tree bodies lo i l x → Rep pf tree bodies lo (i + 1) i e)
    (h1 : Good pf bodies c x) : Good pf bodies (.suf c d) e := by
  intro tree lo par h
  obtain ⟨hn, ha⟩ := h.suf
  rw [size_suf, root_suf]
  exact mk tree _ _ _ _ hn rfl rfl rfl (h1 _ _ _ ha)

theorem good_arm {l r : Sk} {t : Bool} {c e : Expr F} (h1 : GoodW pf bodies l c) (h2 : GoodW pf bodies r e) :
    GoodArm pf bodies (.bin l (jumpIfDef t, []) r) (t, c, e) := by
  intro tree lo par h
  obtain ⟨hn, ha, hb⟩ := h.bin
  rw [size_bin, root_bin]
  exact RepArm.mk hn rfl rfl rfl (h1.1 _ _ _ ha) (h2.1 _ _ _ hb)

variable {pr : Printer F} {nb : Nat → Option Sk} {okb : Nat → Prop}

mutual
theorem rep_skel (hnb : ∀ id, okb id → ∃ b s, lookupBody bodies id = some b ∧ nb id = some s ∧ Good pf bodies s b) :
    ∀ e : Expr F, fragE pr pf okb e →
      Good pf bodies (skel pr nb e) e ∧ (isLeafE e = true → okLab (skel pr nb e).lab.1)
  | .lit v, hf => by
    simp only [fragE] at hf
    refine ⟨fun tree lo par h => ?_, fun _ => by simp only [skel, Sk.lab]; exact LitRep.okLab hf⟩
    simp only [skel] at h ⊢
    exact Rep.lit h.leaf rfl rfl (LitRep.move par hf)
  | .input, _ => by
    refine ⟨fun tree lo par h => ?_, fun _ => by simp only [skel, Sk.lab]; exact ⟨rfl, by decide⟩⟩
    simp only [skel] at h ⊢
    exact Rep.input h.leaf rfl rfl rfl
  | .ident s, hf => by
    simp only [fragE] at hf
    refine ⟨fun tree lo par h => ?_, fun _ => by simp only [skel, Sk.lab]; exact ⟨rfl, by decide⟩⟩
    simp only [skel] at h ⊢
    have key := Rep.ident (pf := pf) (bodies := bodies) h.leaf rfl rfl rfl
    simp only [mkPN] at key
    rw [hf] at key
    exact key
  | .emptyNested, _ => by
    refine ⟨fun tree lo par h => ?_, fun _ => by simp only [skel, Sk.lab]; exact ⟨rfl, by decide⟩⟩
    simp only [skel] at h ⊢
    exact Rep.emptyNested h.leaf rfl rfl
  | .unary op x, hf => by
    simp only [fragE] at hf
    have hw := good_wrap (rep_skel hnb x hf.2).1 (rep_skel hnb x hf.2).2
    refine ⟨?_, fun h => by simp [isLeafE] at h⟩
    cases hop : unDef op with
    | none => rw [hop] at hf; exact absurd hf.1 (by simp)
    | some db =>
      obtain ⟨d, b⟩ := db
      cases b with
      | true =>
        simp only [skel, hop]
        exact good_pre (fun _ _ _ _ _ h1 hd _ hr hx => Rep.unaryPre h1 (by rw [hd]; exact unDef_pre hop) hr hx) hw.1
      | false =>
        simp only [skel, hop]
        exact good_suf (fun _ _ _ _ _ h1 hd _ hl hx => Rep.unarySuf h1 (by rw [hd]; exact unDef_suf hop) hl hx) hw.1
  | .binary op a b, hf => by
    simp only [fragE] at hf
    have ha := good_wrap (rep_skel hnb a hf.2.1).1 (rep_skel hnb a hf.2.1).2
    have hb := good_wrap (rep_skel hnb b hf.2.2).1 (rep_skel hnb b hf.2.2).2
    refine ⟨?_, fun h => by simp [isLeafE] at h⟩
    cases hop : binDef op with
    | none => rw [hop] at hf; exact absurd hf.1 (by simp)
    | some d =>
      simp only [skel, hop]
      exact good_bin (fun _ _ _ _ _ _ _ h1 hd _ hl hr _ _ hx hy =>
        Rep.binary h1 (by rw [hd]; exact binDef_op hop) hl hr hx hy) ha hb
  | .pair a b, hf => by
    simp only [fragE] at hf
    have ha := good_wrap (rep_skel hnb a hf.1).1 (rep_skel hnb a hf.1).2
    have hb := good_wrap (rep_skel hnb b hf.2).1 (rep_skel hnb b hf.2).2
    refine ⟨?_, fun h => by simp [isLeafE] at h⟩
    simp only [skel]
    exact good_bin (fun _ _ _ _ _ _ _ h1 hd _ hl hr _ _ hx hy => Rep.pair h1 hd hl hr hx hy) ha hb
  | .applyTo a b, hf => by
    simp only [fragE] at hf
    have ha := good_wrap (rep_skel hnb a hf.1).1 (rep_skel hnb a hf.1).2
    have hb := good_wrap (rep_skel hnb b hf.2).1 (rep_skel hnb b hf.2).2
    refine ⟨?_, fun h => by simp [isLeafE] at h⟩
    simp only [skel]
    exact good_bin (fun _ _ _ _ _ _ _ h1 hd _ hl hr _ _ hx hy => Rep.applyTo h1 hd hl hr hx hy) ha hb
  | .list items, hf => by
    simp only [fragE] at hf
    obtain ⟨hlen, hfi⟩ := hf
    have hall := rep_items hnb items hfi
    refine ⟨?_, fun h => by simp [isLeafE] at h⟩
    clear hfi
    rcases items with _ | ⟨a, _ | ⟨b, rest⟩⟩
    · simp at hlen
    · simp at hlen
    · simp only [skelItems] at hall
      cases hall with
      | cons h1 hall =>
        cases hall with
        | cons h2 hall =>
          simp only [skel, skelItems]
          exact fun tree lo par h => Rep.list (Or.inr rfl) (items_spine _ _ _ [a, b] (items_two h1 h2) hall tree lo par h)
  | .cond t c e, hf => by
    simp only [fragE] at hf
    have ha := good_wrap (rep_skel hnb c hf.1).1 (rep_skel hnb c hf.1).2
    have hb := good_wrap (rep_skel hnb e hf.2).1 (rep_skel hnb e hf.2).2
    refine ⟨?_, fun h => by simp [isLeafE] at h⟩
    simp only [skel]
    exact good_bin (fun _ _ _ _ _ _ _ h1 hd _ hl hr _ _ hx hy => Rep.cond h1 hd hl hr hx hy) ha hb
  | .chain arms (some fe), hf => by
    simp only [fragE] at hf
    obtain ⟨hlen, hfa, hff⟩ := hf
    have hall := rep_arms hnb arms hfa
    have hb := good_wrap (rep_skel hnb fe hff).1 (rep_skel hnb fe hff).2
    refine ⟨?_, fun h => by simp [isLeafE] at h⟩
    clear hfa hff
    rcases arms with _ | ⟨⟨t, c, e⟩, rest⟩
    · simp at hlen
    · simp only [skelArms] at hall
      cases hall with
      | cons h1 hall =>
        simp only [skel, skelArms]
        intro tree lo par h
        obtain ⟨hn, hl, hr⟩ := h.bin
        rw [size_bin, root_bin]
        exact Rep.chain hn rfl rfl rfl (arms_spine _ _ _ [(t, c, e)] (arm_one h1) hall _ _ _ hl) (root_def hr hb.2).1
          (hb.1 _ _ _ hr)
  | .chain arms none, hf => by
    simp only [fragE] at hf
    obtain ⟨hlen, hfa⟩ := hf
    have hall := rep_arms hnb arms hfa
    refine ⟨?_, fun h => by simp [isLeafE] at h⟩
    clear hfa
    rcases arms with _ | ⟨⟨t, c, e⟩, _ | ⟨⟨t2, c2, e2⟩, rest⟩⟩
    · simp at hlen
    · simp at hlen
    · simp only [skelArms] at hall
      cases hall with
      | cons h1 hall =>
        cases hall with
        | cons h2 hall =>
          simp only [skel, skelArms]
          have st := arms_step (arm_one h1) h2
          exact chain_spine _ _ _ [(t, c, e), (t2, c2, e2)] st.1 st.2 hall
  | .and a b, hf => by
    simp only [fragE] at hf
    have ha := good_wrap (rep_skel hnb a hf.1).1 (rep_skel hnb a hf.1).2
    have hb := good_wrap (rep_skel hnb b hf.2).1 (rep_skel hnb b hf.2).2
    refine ⟨?_, fun h => by simp [isLeafE] at h⟩
    simp only [skel]
    exact good_bin (fun _ _ _ _ _ _ _ h1 hd _ hl hr nl _ hx hy => Rep.and h1 hd hl hr nl hx hy) ha hb
  | .or a b, hf => by
    simp only [fragE] at hf
    have ha := good_wrap (rep_skel hnb a hf.1).1 (rep_skel hnb a hf.1).2
    have hb := good_wrap (rep_skel hnb b hf.2).1 (rep_skel hnb b hf.2).2
    refine ⟨?_, fun h => by simp [isLeafE] at h⟩
    simp only [skel]
    exact good_bin (fun _ _ _ _ _ _ _ h1 hd _ hl hr nl _ hx hy => Rep.or h1 hd hl hr nl hx hy) ha hb
  | .seq a b, hf => by
    simp only [fragE] at hf
    have ha := good_wrap (rep_skel hnb a hf.1).1 (rep_skel hnb a hf.1).2
    have hb := good_wrap (rep_skel hnb b hf.2).1 (rep_skel hnb b hf.2).2
    refine ⟨?_, fun h => by simp [isLeafE] at h⟩
    simp only [skel]
    exact good_bin (fun _ _ _ _ _ _ _ h1 hd _ hl hr _ _ hx hy => Rep.seq h1 (Or.inr hd) hl hr hx hy) ha hb
  | .sideAfter x b, hf => by
    simp only [fragE] at hf
    obtain ⟨hv, hfx, hfb⟩ := hf
    have hb := (rep_skel hnb b hfb).1
    refine ⟨?_, fun h => by simp [isLeafE] at h⟩
    simp only [skel, hv, if_true]
    intro tree lo par h
    obtain ⟨h1, h2⟩ := h.pre
    obtain ⟨h3, h4⟩ := h2.pre
    rw [size_pre, root_pre, size_pre]
    have hx : LeafRep pf (mkPN (skel pr nb x).lab par none (some (lo + 1 + (Sk.pre sideLab (skel pr nb b)).root))) x := by
      cases x with
      | lit v => simp only [fragE] at hfx; simp only [skel, Sk.lab]; exact .lit (hfx.moveR par _)
      | input => simp only [skel, Sk.lab]; exact .input rfl
      | ident s =>
        simp only [fragE] at hfx
        simp only [skel, Sk.lab]
        have := LeafRep.ident (pf := pf)
          (pn := mkPN (Definition.identifier, pr.name s) par none (some (lo + 1 + (Sk.pre sideLab (skel pr nb b)).root))) rfl
        simp only [mkPN] at this
        rw [hfx] at this
        exact this
      | _ => simp [isValE] at hv
    have := hb _ _ _ h4
    exact Rep.side h1 rfl rfl hx h3 rfl rfl (by simpa [Nat.add_assoc] using this)
  | .nested id, hf => by
    simp only [fragE] at hf
    obtain ⟨b, s, hb, hs, hg⟩ := hnb id hf
    refine ⟨?_, fun h => by simp [isLeafE] at h⟩
    simp only [skel, hs]
    exact good_pre (fun _ _ _ _ _ h1 hd _ hr hx => Rep.nested h1 hd hr hb hx) hg
  | .reapply x, hf => by
    simp only [fragE] at hf
    have hw := good_wrap (rep_skel hnb x hf).1 (rep_skel hnb x hf).2
    refine ⟨?_, fun h => by simp [isLeafE] at h⟩
    simp only [skel]
    exact good_pre (fun _ _ _ _ _ h1 hd _ hr hx => Rep.reapply h1 hd hr hx) hw.1
  | .prefixApply s x, hf => by
    simp only [fragE] at hf
    have hw := good_wrap (rep_skel hnb x hf.2).1 (rep_skel hnb x hf.2).2
    refine ⟨?_, fun h => by simp [isLeafE] at h⟩
    simp only [skel]
    refine good_pre (fun _ _ _ _ _ h1 hd ht hr hx => ?_) hw.1
    have := Rep.prefixApply h1 hd hr hx
    rw [ht] at this
    simp only [hf.1] at this
    exact this
  | .suffixApply x s, hf => by
    simp only [fragE] at hf
    have hw := good_wrap (rep_skel hnb x hf.2).1 (rep_skel hnb x hf.2).2
    refine ⟨?_, fun h => by simp [isLeafE] at h⟩
    simp only [skel]
    refine good_suf (fun _ _ _ _ _ h1 hd ht hl hx => ?_) hw.1
    have := Rep.suffixApply h1 hd hl hx
    rw [ht] at this
    simp only [hf.1] at this
    exact this
  | .infixApply a s b, hf => by
    simp only [fragE] at hf
    have ha := good_wrap (rep_skel hnb a hf.2.1).1 (rep_skel hnb a hf.2.1).2
    have hb := good_wrap (rep_skel hnb b hf.2.2).1 (rep_skel hnb b hf.2.2).2
    refine ⟨?_, fun h => by simp [isLeafE] at h⟩
    simp only [skel]
    refine good_bin (fun _ _ _ _ _ _ _ h1 hd ht hl hr _ _ hx hy => ?_) ha hb
    have := Rep.infixApply h1 hd hl hr hx hy
    rw [ht] at this
    simp only [hf.1] at this
    exact this
theorem rep_items (hnb : ∀ id, okb id → ∃ b s, lookupBody bodies id = some b ∧ nb id = some s ∧ Good pf bodies s b) :
    ∀ items : List (Expr F), fragItems pr pf okb items → All2 (GoodW pf bodies) (skelItems pr nb items) items
  | [], _ => by simp only [skelItems]; exact .nil
  | x :: xs, hf => by
    simp only [fragItems] at hf
    simp only [skelItems]
    exact .cons (good_wrap (rep_skel hnb x hf.1).1 (rep_skel hnb x hf.1).2) (rep_items hnb xs hf.2)
theorem rep_arms (hnb : ∀ id, okb id → ∃ b s, lookupBody bodies id = some b ∧ nb id = some s ∧ Good pf bodies s b) :
    ∀ arms : List (Bool × Expr F × Expr F), fragArms pr pf okb arms →
      All2 (GoodArm pf bodies) (skelArms pr nb arms) arms
  | [], _ => by simp only [skelArms]; exact .nil
  | (t, c, e) :: xs, hf => by
    simp only [fragArms] at hf
    simp only [skelArms]
    exact .cons (good_arm (good_wrap (rep_skel hnb c hf.1).1 (rep_skel hnb c hf.1).2)
      (good_wrap (rep_skel hnb e hf.2.1).1 (rep_skel hnb e hf.2.1).2)) (rep_arms hnb xs hf.2.2)
end

end Garnish.Abs.Tree
